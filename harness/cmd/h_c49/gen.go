package main

import (
	"fmt"

	"verif/harness/internal/gen"
)

// The generator builds a typed document tree (modelled keys + "extra" keys of unmodelled
// fields); the YAML text and the Coq document are both derived from it.
//
//	g.lossy  : this case may write explicit zero values into omitempty fields whose default is
//	           not zero (the round trip of such a configuration is known to lose them)
//	g.broken : this case carries one deliberate violation of a modelled validation rule
type G struct {
	r      *gen.Rand
	lossy  bool
	broken string // which rule to break ("" = none)
	cls    map[string]bool
}

const (
	ms  = int64(1000000)
	sec = 1000 * ms
	min = 60 * sec
)

func (g *G) p(num, den int) bool { return g.r.Chance(num, den) }
func (g *G) hit(c string)        { g.cls[c] = true }

// lz: take the lossy explicit zero for this field?
func (g *G) lz(name string) bool {
	if g.lossy && g.p(1, 6) {
		g.hit("lossy-zero:" + name)
		return true
	}
	return false
}

var durs = []int64{1 * sec, 5 * sec, 10 * sec, 15 * sec, 30 * sec, 45 * sec, min, 90 * sec, 2 * min, 5 * min, 250 * ms, 3600 * sec}

func (g *G) dur() *N { return nDur(gen.Pick(g.r, durs)) }
func (g *G) lim() *N { return nI(gen.Pick(g.r, []int64{0, 1, 10, 100, 5000})) }
func (g *G) size() *N {
	return nBytes(gen.Pick(g.r, []int64{0, 1024, 1 << 20, 5 << 20, 1 << 30, 1536}))
}
func (g *G) name() string {
	return gen.Pick(g.r, []string{"a", "job", "env", "instance", "__name__", "x_1", "foo_bar", "region", "__address__", "Up"})
}
func (g *G) word() string {
	return gen.Pick(g.r, []string{"a", "prod", "node-1", "x.y", "foo bar", "1", "eu", "true", "null", "~", "a:b", "# c", "q'q", "0x10", " lead"})
}

var protos = []string{"PrometheusProto", "PrometheusText0.0.4", "PrometheusText1.0.0", "OpenMetricsText0.0.1", "OpenMetricsText1.0.0"}

func (g *G) protocols() *N {
	perm := append([]string{}, protos...)
	for i := len(perm) - 1; i > 0; i-- {
		j := g.r.Intn(i + 1)
		perm[i], perm[j] = perm[j], perm[i]
	}
	return nStrs(perm[:1+g.r.Intn(len(perm))]...)
}

func (g *G) relabel(legacy bool) *N {
	m := nM()
	act := gen.Pick(g.r, []string{"", "replace", "replace", "keep", "drop", "hashmod", "labelmap", "labeldrop", "labelkeep", "lowercase", "uppercase", "keepequal", "dropequal"})
	g.hit("relabel:" + act)
	src := func() {
		if g.p(3, 4) {
			q := nQ()
			for i, n := 0, 1+g.r.Intn(3); i < n; i++ {
				q.l = append(q.l, nS(g.name()))
			}
			m.set("source_labels", q)
		}
	}
	regex := func() {
		if g.p(2, 3) {
			m.set("regex", nS(gen.Pick(g.r, []string{"(.*)", ".*", "", "a|b", "(.+);(.+)", "foo.*", "[a-z]+", "__meta_(.+)", "x{2,3}", "\\d+"})))
		}
	}
	sep := func() {
		if g.p(1, 3) {
			m.set("separator", nS(gen.Pick(g.r, []string{";", "", ",", "@", "::"})))
		}
	}
	switch act {
	case "", "replace":
		src()
		sep()
		regex()
		m.set("target_label", nS(g.name()))
		if g.p(1, 2) {
			m.set("replacement", nS(gen.Pick(g.r, []string{"$1", "", "x", "${1}_y", "$2:$1", "a b"})))
		}
		if g.p(1, 8) {
			m.set("modulus", nI(g.r.Range(0, 5)))
		}
	case "keep", "drop":
		src()
		sep()
		regex()
		if g.p(1, 6) {
			m.set("replacement", nS(""))
		}
	case "hashmod":
		src()
		sep()
		m.set("modulus", nI(g.r.Range(1, 16)))
		m.set("target_label", nS(g.name()))
	case "labelmap":
		regex()
		if g.p(1, 2) {
			m.set("replacement", nS(gen.Pick(g.r, []string{"$1", "x_$1", "${1}"})))
		}
	case "labeldrop", "labelkeep":
		regex()
	case "lowercase", "uppercase", "keepequal", "dropequal":
		src()
		m.set("target_label", nS(g.name()))
	}
	if act != "" {
		m.set("action", nS(act))
	}
	switch g.broken {
	case "relabel-hashmod-modulus":
		m = nM().set("action", nS("hashmod")).set("target_label", nS("t"))
		g.broken = ""
	case "relabel-no-target":
		m = nM().set("action", nS("replace")).set("regex", nS("a"))
		g.broken = ""
	case "relabel-labeldrop-extra":
		m = nM().set("action", nS("labeldrop")).set("regex", nS("a")).set("target_label", nS("t"))
		g.broken = ""
	case "relabel-lowercase-replacement":
		m = nM().set("action", nS("lowercase")).set("target_label", nS("t")).set("replacement", nS("x"))
		g.broken = ""
	case "relabel-keepequal-extra":
		m = nM().set("action", nS("keepequal")).set("target_label", nS("t")).set("separator", nS(","))
		g.broken = ""
	}
	return m
}

func (g *G) relabels(m *N, key string, legacy bool, p int) {
	if g.p(1, p) || (g.broken != "" && len(g.broken) > 7 && g.broken[:7] == "relabel") {
		q := nQ()
		for i, n := 0, 1+g.r.Intn(3); i < n; i++ {
			q.l = append(q.l, g.relabel(legacy))
		}
		m.set(key, q)
	}
}

func (g *G) httpClient(m *N, zeroSafe bool) {
	if g.p(1, 3) {
		m.set("follow_redirects", nB(g.r.Bool()))
	}
	if g.p(1, 3) {
		m.set("enable_http2", nB(g.r.Bool()))
	}
	if g.p(1, 4) {
		t := nM().set("insecure_skip_verify", nB(g.r.Bool()))
		if g.p(1, 2) {
			t.set("server_name", nS("srv"))
		}
		if g.p(1, 2) {
			t.set("min_version", nS(gen.Pick(g.r, []string{"TLS12", "TLS13"})))
		}
		if g.p(1, 3) {
			t.set("ca_file", nS("ca.pem"))
		}
		m.ext("tls_config", t)
	}
	if g.p(1, 6) {
		m.ext("proxy_url", nS("http://proxy:3128"))
	}
	if g.p(1, 8) {
		m.ext("bearer_token_file", nS("/tok"))
	}
	if g.p(1, 8) {
		m.ext("http_headers", nM().set("X-A", nM().set("values", nStrs("v1", "v2"))))
	}
}

func (g *G) staticConfigs(m *N) {
	if g.p(1, 2) {
		q := nQ()
		for i, n := 0, 1+g.r.Intn(2); i < n; i++ {
			tg := nM().set("targets", nStrs(gen.Pick(g.r, []string{"localhost:9090", "a:1", "10.0.0.1:80"}), "b:2"))
			if g.p(1, 2) {
				tg.set("labels", nM().set(g.name(), nS(g.word())))
			}
			q.l = append(q.l, tg)
		}
		m.ext("static_configs", q)
	}
	if g.p(1, 5) {
		fs := nM().set("files", nStrs("sd/*.json", "x.yml"))
		if g.p(1, 2) {
			fs.set("refresh_interval", nDur(gen.Pick(g.r, durs)))
		}
		m.ext("file_sd_configs", nQ(fs))
	}
}

func (g *G) global() *N {
	m := nM()
	legacy := false
	iv := int64(0)
	if g.p(2, 3) {
		iv = gen.Pick(g.r, durs)
		if g.p(1, 10) {
			iv = 0
		}
		m.set("scrape_interval", nDur(iv))
	}
	eff := iv
	if eff == 0 {
		eff = min
	}
	if g.p(1, 2) {
		to := gen.Pick(g.r, durs)
		if to > eff {
			to = eff
		}
		if g.p(1, 10) {
			to = 0
		}
		if g.broken == "global-timeout" {
			to = eff + sec
			g.broken = ""
		}
		m.set("scrape_timeout", nDur(to))
	}
	if g.p(1, 4) || g.broken == "global-protocols" {
		ps := g.protocols()
		if g.broken == "global-protocols" {
			ps = nStrs("PrometheusProto", "bogus")
			g.broken = ""
		}
		m.set("scrape_protocols", ps)
	}
	if g.p(1, 2) {
		d := g.dur()
		if g.p(1, 10) {
			d = nDur(0)
		}
		m.set("evaluation_interval", d)
	}
	if g.p(1, 4) {
		m.set("rule_query_offset", nDur(gen.Pick(g.r, []int64{0, sec, min})))
	}
	if g.p(1, 5) {
		m.set("query_log_file", nS(gen.Pick(g.r, []string{"", "q.log", "/var/q.log"})))
	}
	if g.p(1, 5) {
		m.set("scrape_failure_log_file", nS(gen.Pick(g.r, []string{"", "f.log"})))
	}
	if g.p(1, 3) {
		el := nM()
		for i, n := 0, 1+g.r.Intn(3); i < n; i++ {
			k := g.name()
			if !el.has(k) {
				el.set(k, nS(g.word()))
			}
		}
		m.ext("external_labels", el)
	}
	if g.p(1, 4) {
		m.set("body_size_limit", g.size())
	}
	for _, k := range []string{"sample_limit", "target_limit", "label_limit", "label_name_length_limit", "label_value_length_limit", "keep_dropped_targets"} {
		if g.p(1, 4) {
			m.set(k, g.lim())
		}
	}
	if g.p(1, 3) {
		s := gen.Pick(g.r, []string{"utf8", "legacy", "legacy", ""})
		legacy = s == "legacy"
		m.set("metric_name_validation_scheme", nS(s))
	}
	if g.p(1, 3) {
		e := gen.Pick(g.r, []string{"", "underscores", "dots", "values", "allow-utf-8"})
		if legacy && e == "allow-utf-8" && g.broken != "global-escaping-legacy" {
			e = "underscores"
		}
		m.set("metric_name_escaping_scheme", nS(e))
	}
	if g.broken == "global-escaping-legacy" {
		// accepted by the global section; every scrape config inheriting it is rejected
		m = nM().set("metric_name_validation_scheme", nS("legacy")).set("metric_name_escaping_scheme", nS("allow-utf-8"))
	}
	if g.p(1, 4) {
		m.set("scrape_native_histograms", nB(g.r.Bool()))
	}
	if g.p(1, 4) {
		m.set("convert_classic_histograms_to_nhcb", nB(g.r.Bool()))
	}
	if g.p(1, 4) {
		m.set("always_scrape_classic_histograms", nB(g.r.Bool()))
	}
	if g.p(1, 4) {
		m.set("extra_scrape_metrics", nB(g.r.Bool()))
	}
	return m
}

func (g *G) scrape(job string, glob *N) *N {
	m := nM()
	if g.broken != "scrape-no-job" {
		m.set("job_name", nS(job))
	} else {
		g.broken = ""
	}
	for _, k := range []string{"honor_labels", "honor_timestamps", "track_timestamps_staleness", "enable_compression"} {
		if g.p(1, 3) {
			m.set(k, nB(g.r.Bool()))
		}
	}
	// effective global interval / timeout, to stay valid
	giv, gto := min, 10*sec
	for _, kv := range glob.m {
		if kv.k == "scrape_interval" && kv.v.i != 0 {
			giv = kv.v.i
		}
	}
	if gto > giv {
		gto = giv
	}
	for _, kv := range glob.m {
		if kv.k == "scrape_timeout" && kv.v.i != 0 {
			gto = kv.v.i
		}
	}
	iv := giv
	if g.p(1, 2) {
		iv = gen.Pick(g.r, durs)
		if iv < gto && !g.p(1, 2) {
			iv = gto // keep the inherited timeout valid most of the time
		}
		if g.p(1, 10) {
			iv = 0
		}
		m.set("scrape_interval", nDur(iv))
		if iv == 0 {
			iv = giv
		}
	}
	if g.p(1, 2) || iv < gto || g.broken == "scrape-timeout" {
		to := gen.Pick(g.r, durs)
		if to > iv {
			to = iv
		}
		if g.broken == "scrape-timeout" {
			to = iv + sec
			g.broken = ""
		}
		m.set("scrape_timeout", nDur(to))
	}
	if g.p(1, 4) || g.broken == "scrape-protocols-dup" {
		ps := g.protocols()
		if g.broken == "scrape-protocols-dup" {
			ps = nStrs("PrometheusProto", "OpenMetricsText1.0.0", "PrometheusProto")
			g.broken = ""
		}
		m.set("scrape_protocols", ps)
	}
	if g.p(1, 5) || g.broken == "scrape-fallback" {
		fb := gen.Pick(g.r, append([]string{""}, protos...))
		if g.broken == "scrape-fallback" {
			fb = "prometheusproto"
			g.broken = ""
		}
		m.set("fallback_scrape_protocol", nS(fb))
	}
	for _, k := range []string{"scrape_native_histograms", "always_scrape_classic_histograms", "convert_classic_histograms_to_nhcb", "extra_scrape_metrics"} {
		if g.p(1, 4) {
			m.set(k, nB(g.r.Bool()))
		}
	}
	if g.p(1, 5) {
		m.set("scrape_failure_log_file", nS(gen.Pick(g.r, []string{"", "sf.log"})))
	}
	if g.p(1, 3) {
		m.set("metrics_path", nS(gen.Pick(g.r, []string{"/metrics", "/probe", "/m/x"})))
	} else if g.lz("scrape.metrics_path") {
		m.set("metrics_path", nS(""))
	}
	if g.p(1, 3) {
		m.set("scheme", nS(gen.Pick(g.r, []string{"http", "https"})))
	} else if g.lz("scrape.scheme") {
		m.set("scheme", nS(""))
	}
	if g.p(1, 5) {
		m.set("body_size_limit", g.size())
	}
	for _, k := range []string{"sample_limit", "target_limit", "label_limit", "label_name_length_limit", "label_value_length_limit", "native_histogram_bucket_limit", "keep_dropped_targets"} {
		if g.p(1, 5) {
			m.set(k, g.lim())
		}
	}
	if g.p(1, 6) {
		m.ext("native_histogram_min_bucket_factor", nRaw("1.5"))
	}
	if g.p(1, 5) {
		m.ext("params", nM().set("module", nStrs("http_2xx", "x")).set("a", nStrs(g.word())))
	}
	glegacy, gesc := false, ""
	for _, kv := range glob.m {
		if kv.k == "metric_name_validation_scheme" {
			glegacy = kv.v.s == "legacy"
		}
		if kv.k == "metric_name_escaping_scheme" {
			gesc = kv.v.s
		}
	}
	legacy := glegacy
	local := ""
	if g.p(1, 4) {
		local = gen.Pick(g.r, []string{"utf8", "legacy", ""})
		m.set("metric_name_validation_scheme", nS(local))
		if local != "" {
			legacy = local == "legacy"
		}
	}
	if g.p(1, 4) || (legacy && local == "" && gesc == "allow-utf-8") || g.broken == "scrape-escaping-utf8-legacy" {
		e := gen.Pick(g.r, []string{"underscores", "dots", "values", "allow-utf-8", ""})
		if legacy && (e == "allow-utf-8" || (e == "" && local == "" && gesc == "allow-utf-8")) {
			e = "dots"
		}
		if g.broken == "scrape-escaping-utf8-legacy" {
			m.set("metric_name_validation_scheme", nS("legacy"))
			e = "allow-utf-8"
			g.broken = ""
		}
		if g.broken == "scrape-escaping-unknown" {
			e = "bogus"
			g.broken = ""
		}
		m.set("metric_name_escaping_scheme", nS(e))
	}
	g.httpClient(m, true)
	g.staticConfigs(m)
	g.relabels(m, "relabel_configs", legacy, 3)
	g.relabels(m, "metric_relabel_configs", legacy, 4)
	return m
}

func (g *G) alerting() *N {
	m := nM()
	g.relabels(m, "alert_relabel_configs", false, 3)
	if g.p(2, 3) {
		q := nQ()
		for i, n := 0, 1+g.r.Intn(2); i < n; i++ {
			a := nM()
			if g.p(1, 2) {
				a.set("scheme", nS(gen.Pick(g.r, []string{"http", "https"})))
			} else if g.lz("alertmanager.scheme") {
				a.set("scheme", nS(""))
			}
			if g.p(1, 3) {
				a.set("path_prefix", nS(gen.Pick(g.r, []string{"", "/am", "/"})))
			}
			if g.p(1, 2) {
				a.set("timeout", g.dur())
			} else if g.lz("alertmanager.timeout") {
				a.set("timeout", nDur(0))
			}
			if g.p(1, 3) || g.broken == "am-api-version" {
				v := "v2"
				if g.broken == "am-api-version" {
					v = "v1"
					g.broken = ""
				}
				a.set("api_version", nS(v))
			}
			g.httpClient(a, true)
			g.staticConfigs(a)
			g.relabels(a, "relabel_configs", false, 4)
			g.relabels(a, "alert_relabel_configs", false, 4)
			q.l = append(q.l, a)
		}
		m.set("alertmanagers", q)
	}
	return m
}

func (g *G) remoteWrite(i int) *N {
	m := nM()
	if g.broken != "rw-no-url" {
		m.set("url", nS(fmt.Sprintf("http://remote%d:9090/api/v1/write", i)))
	} else {
		g.broken = ""
	}
	if g.p(1, 2) {
		m.set("remote_timeout", g.dur())
	} else if g.lz("remote_write.remote_timeout") {
		m.set("remote_timeout", nDur(0))
	}
	if g.p(1, 2) {
		m.set("name", nS(fmt.Sprintf("rw%d", i)))
		if g.broken == "rw-dup-name" {
			m.m[len(m.m)-1].v = nS("dup")
		}
	}
	for _, k := range []string{"send_exemplars", "send_native_histograms", "round_robin_dns", "failed_request_logging"} {
		if g.p(1, 4) {
			m.set(k, nB(g.r.Bool()))
		}
	}
	if g.p(1, 3) || g.broken == "rw-protobuf" {
		pm := gen.Pick(g.r, []string{"prometheus.WriteRequest", "io.prometheus.write.v2.Request"})
		if g.broken == "rw-protobuf" {
			pm = "v3"
			g.broken = ""
		}
		m.set("protobuf_message", nS(pm))
	}
	if g.p(1, 5) {
		m.ext("headers", nM().set("X-Scope-OrgID", nS("t1")))
	}
	g.httpClient(m, true)
	g.relabels(m, "write_relabel_configs", false, 3)
	if g.p(1, 2) || g.broken == "rw-queue-shards" || g.broken == "rw-queue-backoff" {
		q := nM()
		maxS := int64(50)
		if g.p(1, 2) {
			q.set("capacity", nI(g.r.Range(1, 20000)))
		}
		if g.p(1, 2) {
			maxS = g.r.Range(1, 100)
			q.set("max_shards", nI(maxS))
		}
		if g.p(1, 2) || maxS < 1 {
			q.set("min_shards", nI(g.r.Range(1, maxS)))
		}
		if g.broken == "rw-queue-shards" {
			q = nM().set("max_shards", nI(2)).set("min_shards", nI(3))
			g.broken = ""
		}
		if g.p(1, 3) {
			q.set("max_samples_per_send", nI(g.r.Range(1, 5000)))
		}
		if g.p(1, 3) {
			q.set("batch_send_deadline", g.dur())
		} else if g.lz("remote_write.queue_config.batch_send_deadline") {
			q.set("batch_send_deadline", nDur(0))
		}
		if g.p(1, 3) {
			mb := gen.Pick(g.r, []int64{10 * ms, 30 * ms, 100 * ms, sec})
			q.set("min_backoff", nDur(mb))
			q.set("max_backoff", nDur(mb*gen.Pick(g.r, []int64{1, 5, 100})))
		} else if g.lz("remote_write.queue_config.min_backoff") {
			q.set("min_backoff", nDur(0))
			if g.lz("remote_write.queue_config.max_backoff") {
				q.set("max_backoff", nDur(0))
			}
		}
		if g.broken == "rw-queue-backoff" {
			q.set("min_backoff", nDur(10*sec))
			g.broken = ""
		}
		if g.p(1, 3) {
			q.set("retry_on_http_429", nB(g.r.Bool()))
		}
		if g.p(1, 3) {
			q.set("sample_age_limit", nDur(gen.Pick(g.r, []int64{0, min, 3600 * sec})))
		}
		m.set("queue_config", q)
	}
	if g.p(1, 3) {
		md := nM()
		if g.p(1, 2) {
			md.set("send", nB(g.r.Bool()))
		}
		if g.p(1, 2) {
			md.set("send_interval", g.dur())
		}
		if g.p(1, 2) {
			md.set("max_samples_per_send", nI(g.r.Range(1, 3000)))
		} else if g.lz("remote_write.metadata_config.max_samples_per_send") {
			md.set("max_samples_per_send", nI(0))
		}
		m.set("metadata_config", md)
	} else if g.lz("remote_write.metadata_config") {
		m.set("metadata_config", nM().set("send", nB(false)).set("send_interval", nDur(0)).set("max_samples_per_send", nI(0)))
	}
	return m
}

func (g *G) remoteRead(i int) *N {
	m := nM()
	if g.broken != "rr-no-url" {
		m.set("url", nS(fmt.Sprintf("http://remote%d:9090/api/v1/read", i)))
	} else {
		g.broken = ""
	}
	if g.p(1, 2) {
		m.set("remote_timeout", g.dur())
	} else if g.lz("remote_read.remote_timeout") {
		m.set("remote_timeout", nDur(0))
	}
	if g.p(1, 3) {
		m.set("chunked_read_limit", nI(g.r.Range(1, 100000000)))
	} else if g.lz("remote_read.chunked_read_limit") {
		m.set("chunked_read_limit", nI(0))
	}
	if g.p(1, 3) {
		m.set("read_recent", nB(g.r.Bool()))
	}
	if g.p(1, 2) {
		m.set("name", nS(fmt.Sprintf("rr%d", i)))
		if g.broken == "rr-dup-name" {
			m.m[len(m.m)-1].v = nS("dup")
		}
	}
	if g.p(1, 5) {
		m.ext("required_matchers", nM().set("job", nS("x")))
	}
	g.httpClient(m, true)
	if g.p(1, 3) {
		m.set("filter_external_labels", nB(true))
	} else if g.lz("remote_read.filter_external_labels") {
		m.set("filter_external_labels", nB(false))
	}
	return m
}

func (g *G) storage() *N {
	m := nM()
	if g.p(2, 3) {
		t := nM()
		if g.p(1, 2) {
			t.set("out_of_order_time_window", nDur(gen.Pick(g.r, []int64{0, 250 * ms, 30 * min, 3600 * sec, 1500 * ms})))
		}
		if g.p(1, 3) {
			t.ext("stale_series_compaction_threshold", nRaw("0.25"))
		}
		if g.p(1, 3) || g.broken == "tsdb-floats" {
			fl := gen.Pick(g.r, []string{"", "xor", "xor2"})
			if g.broken == "tsdb-floats" {
				fl = "zstd"
				g.broken = ""
			}
			t.set("chunk_encoding", nM().set("floats", nS(fl)))
		}
		if g.p(1, 2) {
			r := nM()
			if g.p(1, 2) {
				r.set("time", nDur(gen.Pick(g.r, []int64{0, 3600 * sec, 15 * 24 * 3600 * sec})))
			}
			if g.p(1, 2) {
				r.set("size", g.size())
			}
			if g.p(1, 3) {
				r.ext("percentage", nRaw("80"))
			}
			t.set("retention", r)
		}
		m.set("tsdb", t)
	}
	if g.p(1, 2) {
		e := nM()
		if g.p(2, 3) {
			e.set("max_exemplars", nI(gen.Pick(g.r, []int64{0, 1, 100000, 5000, -1})))
		}
		m.set("exemplars", e)
	}
	return m
}

func (g *G) otlp() *N {
	m := nM()
	all := g.p(1, 3)
	if all || g.p(1, 4) {
		m.set("promote_all_resource_attributes", nB(all))
	}
	attrs := func() *N {
		return nStrs([]string{"k8s.pod.name", "service.name", "host", "a.b"}[:1+g.r.Intn(4)]...)
	}
	if all && g.p(1, 2) {
		m.set("ignore_resource_attributes", attrs())
	}
	if !all && g.p(1, 2) {
		m.set("promote_resource_attributes", attrs())
	}
	if g.broken == "otlp-both" {
		m = nM().set("promote_all_resource_attributes", nB(true)).set("promote_resource_attributes", nStrs("a"))
		g.broken = ""
	}
	if g.broken == "otlp-dup-attr" {
		m = nM().set("promote_resource_attributes", nStrs("a", "b", "a"))
		g.broken = ""
	}
	if g.p(1, 2) || g.broken == "otlp-strategy" {
		s := gen.Pick(g.r, []string{"UnderscoreEscapingWithSuffixes", "UnderscoreEscapingWithoutSuffixes", "NoUTF8EscapingWithSuffixes", "NoTranslation"})
		if g.broken == "otlp-strategy" {
			s = "Bogus"
			g.broken = ""
		}
		m.set("translation_strategy", nS(s))
	} else if g.lz("otlp.translation_strategy") {
		m.set("translation_strategy", nS(""))
	}
	for _, k := range []string{"keep_identifying_resource_attributes", "convert_histograms_to_nhcb", "promote_scope_metadata"} {
		if g.p(1, 4) {
			m.set(k, nB(g.r.Bool()))
		}
	}
	for _, k := range []string{"label_name_underscore_sanitization", "label_name_preserve_multiple_underscores"} {
		if g.p(1, 4) {
			m.set(k, nB(true))
		} else if g.lz("otlp." + k) {
			m.set(k, nB(false))
		}
	}
	return m
}

func (g *G) doc() *N {
	d := nM()
	glob := nM()
	if g.p(3, 4) || g.broken == "global-timeout" || g.broken == "global-protocols" || g.broken == "global-escaping-legacy" {
		glob = g.global()
		d.set("global", glob)
	}
	if g.p(1, 4) {
		d.set("runtime", nM().set("gogc", nI(gen.Pick(g.r, []int64{0, 50, 75, 100, 200, -1}))))
	}
	if g.p(1, 2) || g.broken == "am-api-version" {
		d.set("alerting", g.alerting())
	}
	if g.p(1, 2) {
		d.set("rule_files", nStrs([]string{"rules/*.yml", "first.rules", "/abs/my.rules"}[:1+g.r.Intn(3)]...))
	}
	if g.p(1, 5) {
		d.set("scrape_config_files", nStrs("scrape/*.yml"))
	}
	needScrape := len(g.broken) > 6 && g.broken[:6] == "scrape" || g.broken == "global-escaping-legacy" ||
		(len(g.broken) > 7 && g.broken[:7] == "relabel")
	if g.p(4, 5) || needScrape {
		q := nQ()
		n := 1 + g.r.Intn(3)
		if g.broken == "scrape-dup-job" {
			n = 2
		}
		for i := 0; i < n; i++ {
			job := fmt.Sprintf("job%d", i)
			if g.broken == "scrape-dup-job" {
				job = "same"
			}
			q.l = append(q.l, g.scrape(job, glob))
		}
		if g.broken == "scrape-dup-job" {
			g.broken = ""
		}
		if g.broken == "scrape-null" {
			q.l = append(q.l, nNull())
			g.broken = ""
		}
		d.set("scrape_configs", q)
	}
	if g.p(1, 2) || g.broken == "tsdb-floats" {
		d.set("storage", g.storage())
	}
	if g.p(1, 5) {
		t := nM().set("endpoint", nS("localhost:4317"))
		if g.p(1, 2) {
			t.set("client_type", nS(gen.Pick(g.r, []string{"grpc", "http"})))
		}
		if g.p(1, 2) {
			t.set("sampling_fraction", nRaw("0.5"))
		}
		if g.p(1, 2) {
			t.set("timeout", nDur(5*sec))
		}
		if g.p(1, 2) {
			t.set("insecure", nB(g.r.Bool()))
		}
		d.ext("tracing", t)
	}
	if g.p(1, 2) || (len(g.broken) > 2 && g.broken[:2] == "rw") {
		q := nQ()
		n := 1 + g.r.Intn(2)
		if g.broken == "rw-dup-name" {
			n = 2
		}
		for i := 0; i < n; i++ {
			w := g.remoteWrite(i)
			if g.broken == "rw-dup-name" && !w.has("name") {
				w.set("name", nS("dup"))
			}
			q.l = append(q.l, w)
		}
		if g.broken == "rw-dup-name" {
			g.broken = ""
		}
		d.set("remote_write", q)
	}
	if g.p(1, 2) || (len(g.broken) > 2 && g.broken[:2] == "rr") {
		q := nQ()
		n := 1 + g.r.Intn(2)
		if g.broken == "rr-dup-name" {
			n = 2
		}
		for i := 0; i < n; i++ {
			w := g.remoteRead(i)
			if g.broken == "rr-dup-name" && !w.has("name") {
				w.set("name", nS("dup"))
			}
			q.l = append(q.l, w)
		}
		if g.broken == "rr-dup-name" {
			g.broken = ""
		}
		d.set("remote_read", q)
	}
	if g.p(1, 3) || (len(g.broken) > 4 && g.broken[:4] == "otlp") {
		d.set("otlp", g.otlp())
	}
	return d
}

var brokenKinds = []string{
	"global-timeout", "global-protocols", "global-escaping-legacy",
	"scrape-no-job", "scrape-timeout", "scrape-protocols-dup", "scrape-fallback", "scrape-dup-job", "scrape-null",
	"scrape-escaping-utf8-legacy", "scrape-escaping-unknown",
	"relabel-hashmod-modulus", "relabel-no-target", "relabel-labeldrop-extra", "relabel-lowercase-replacement", "relabel-keepequal-extra",
	"am-api-version", "rw-no-url", "rw-dup-name", "rw-protobuf", "rw-queue-shards", "rw-queue-backoff",
	"rr-no-url", "rr-dup-name", "tsdb-floats", "otlp-both", "otlp-dup-attr", "otlp-strategy",
}

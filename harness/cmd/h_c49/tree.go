package main

import (
	"crypto/sha256"
	"encoding/binary"
	"encoding/json"
	"fmt"
	"net/url"
	"reflect"
	"sort"
	"strconv"
	"strings"

	"github.com/alecthomas/units"
	"github.com/grafana/regexp"
	commoncfg "github.com/prometheus/common/config"
	"github.com/prometheus/common/model"
	"go.yaml.in/yaml/v2"

	"github.com/prometheus/prometheus/model/labels"
	"github.com/prometheus/prometheus/model/relabel"
)

// N is a node of a document / field tree (Coq: Config.node).
type N struct {
	k    byte // 'i' int, 's' string, 'b' bool, 'n' null, 'q' seq, 'm' map (keys), 'r' struct value (positional)
	i    int64
	s    string
	b    bool
	l    []*N
	m    []KV
	unit string // for 'i' in documents: "dur", "bytes", "" — how the scalar is written in YAML
}

type KV struct {
	k     string
	v     *N
	extra bool // not part of the modelled schema: written to the YAML text, not to the Coq document
}

func nI(i int64) *N        { return &N{k: 'i', i: i} }
func nDur(i int64) *N      { return &N{k: 'i', i: i, unit: "dur"} }
func nBytes(i int64) *N    { return &N{k: 'i', i: i, unit: "bytes"} }
func nS(s string) *N       { return &N{k: 's', s: s} }
func nB(b bool) *N         { return &N{k: 'b', b: b} }
func nNull() *N            { return &N{k: 'n'} }
func nRaw(s string) *N     { return &N{k: 'x', s: s} } // raw YAML scalar (floats), extras only
func nQ(l ...*N) *N        { return &N{k: 'q', l: l} }
func nM() *N               { return &N{k: 'm'} }
// set adds or replaces key k (a document never has a key twice: yaml rejects duplicate keys)
func (n *N) set(k string, v *N) *N {
	for i := range n.m {
		if n.m[i].k == k {
			n.m[i].v = v
			return n
		}
	}
	n.m = append(n.m, KV{k, v, false})
	return n
}
func (n *N) ext(k string, v *N) *N { n.m = append(n.m, KV{k, v, true}); return n }
func (n *N) has(k string) bool {
	for _, kv := range n.m {
		if kv.k == k {
			return true
		}
	}
	return false
}
func nStrs(ss ...string) *N {
	q := nQ()
	for _, s := range ss {
		q.l = append(q.l, nS(s))
	}
	return q
}

// ---------------------------------------------------------------- YAML text of a document
// JSON is a subset of YAML flow style; durations and byte sizes are written as strings in the
// syntax their UnmarshalYAML/UnmarshalText expects.
func (n *N) yaml(sb *strings.Builder) {
	switch n.k {
	case 'i':
		switch n.unit {
		case "dur":
			sb.WriteString(strconv.Quote(model.Duration(n.i).String()))
		case "bytes":
			sb.WriteString(strconv.Quote(units.Base2Bytes(n.i).String()))
		default:
			sb.WriteString(strconv.FormatInt(n.i, 10))
		}
	case 's':
		b, _ := json.Marshal(n.s)
		sb.Write(b)
	case 'b':
		sb.WriteString(strconv.FormatBool(n.b))
	case 'n':
		sb.WriteString("null")
	case 'x':
		sb.WriteString(n.s)
	case 'q':
		sb.WriteString("[")
		for i, e := range n.l {
			if i > 0 {
				sb.WriteString(", ")
			}
			e.yaml(sb)
		}
		sb.WriteString("]")
	case 'm':
		sb.WriteString("{")
		for i, kv := range n.m {
			if i > 0 {
				sb.WriteString(", ")
			}
			b, _ := json.Marshal(kv.k)
			sb.Write(b)
			sb.WriteString(": ")
			kv.v.yaml(sb)
		}
		sb.WriteString("}")
	}
}

// ---------------------------------------------------------------- Gallina
type strTab struct {
	ids  map[string]int
	defs []string
}

func (t *strTab) id(s string) string {
	if i, ok := t.ids[s]; ok {
		return "s" + strconv.Itoa(i)
	}
	if t.ids == nil {
		t.ids = map[string]int{}
	}
	i := len(t.ids)
	t.ids[s] = i
	t.defs = append(t.defs, fmt.Sprintf("Definition s%d := %s.", i, coqString(s)))
	return "s" + strconv.Itoa(i)
}

func coqString(s string) string {
	for _, c := range []byte(s) {
		if c < 32 || c > 126 {
			panic("non-printable string in case: " + strconv.Quote(s))
		}
	}
	return "\"" + strings.ReplaceAll(s, "\"", "\"\"") + "\""
}

// keyIdent: schema keys are constants K_<key> of corr/CorrC49.v
func keyIdent(k string) string { return "K_" + k }

func (n *N) gallina(sb *strings.Builder, st *strTab, modelledOnly bool) {
	switch n.k {
	case 'i':
		if n.i < 0 {
			fmt.Fprintf(sb, "(Ng %d)", -n.i)
		} else {
			fmt.Fprintf(sb, "(I %d)", n.i)
		}
	case 's':
		sb.WriteString("(S " + st.id(n.s) + ")")
	case 'b':
		if n.b {
			sb.WriteString("Tr")
		} else {
			sb.WriteString("Fa")
		}
	case 'n':
		sb.WriteString("Nu")
	case 'q', 'r':
		if n.k == 'q' {
			sb.WriteString("(Q ")
		} else {
			sb.WriteString("(R ")
		}
		for _, e := range n.l {
			sb.WriteString("(C ")
			e.gallina(sb, st, modelledOnly)
			sb.WriteString(" ")
		}
		sb.WriteString("E")
		sb.WriteString(strings.Repeat(")", len(n.l)+1))
	case 'm':
		sb.WriteString("(M ")
		cnt := 0
		for _, kv := range n.m {
			if kv.extra && modelledOnly {
				continue
			}
			cnt++
			sb.WriteString("(D " + keyIdent(kv.k) + " ")
			kv.v.gallina(sb, st, modelledOnly)
			sb.WriteString(" ")
		}
		sb.WriteString("W")
		sb.WriteString(strings.Repeat(")", cnt+1))
	}
}

func (n *N) term(st *strTab) string {
	var sb strings.Builder
	n.gallina(&sb, st, true)
	return sb.String()
}

// ---------------------------------------------------------------- projection of a loaded config
// findField finds the struct field carrying yaml key k (looking through `yaml:",inline"` structs;
// an untagged field has the lower-cased field name as key, as in yaml/v2).
func findField(v reflect.Value, k string) (reflect.Value, bool) {
	t := v.Type()
	for i := 0; i < t.NumField(); i++ {
		sf := t.Field(i)
		if sf.PkgPath != "" {
			continue
		}
		tag := sf.Tag.Get("yaml")
		name, opts, _ := strings.Cut(tag, ",")
		if name == "-" {
			continue
		}
		if strings.Contains(opts, "inline") {
			if sf.Type.Kind() == reflect.Struct {
				if f, ok := findField(v.Field(i), k); ok {
					return f, true
				}
			}
			continue
		}
		if name == "" {
			name = strings.ToLower(sf.Name)
		}
		if name == k {
			return v.Field(i), true
		}
	}
	return reflect.Value{}, false
}

var defaultRegexPtr = relabel.DefaultRelabelConfig.Regex.Regexp

func project(v reflect.Value, t *ty) *N {
	switch t.k {
	case kPtr:
		// special pointer types modelled as optional scalars
		if v.Kind() == reflect.Ptr {
			if v.IsNil() {
				return nNull()
			}
			return project(v.Elem(), t.e)
		}
		return project(v, t.e)
	case kSeq:
		q := nQ()
		for i := 0; i < v.Len(); i++ {
			q.l = append(q.l, project(v.Index(i), t.e))
		}
		return q
	case kRec:
		for v.Kind() == reflect.Ptr {
			v = v.Elem()
		}
		r := &N{k: 'r'}
		for _, f := range t.fs {
			fv, ok := findField(v, f.key)
			if !ok {
				panic("schema mirror: no field for key " + f.key + " in " + v.Type().String())
			}
			r.l = append(r.l, project(fv, f.t))
		}
		return r
	case kRegex:
		re := v.Interface().(relabel.Regexp)
		if re.Regexp == defaultRegexPtr {
			return nNull()
		}
		return nS(re.String())
	case kInt:
		switch v.Kind() {
		case reflect.Int, reflect.Int64, reflect.Int32:
			return nI(v.Int())
		case reflect.Uint, reflect.Uint64, reflect.Uint32:
			return nI(int64(v.Uint()))
		}
	case kBool:
		if v.Kind() == reflect.Bool {
			return nB(v.Bool())
		}
	case kStr:
		switch x := v.Interface().(type) {
		case model.ValidationScheme:
			y, _ := x.MarshalYAML()
			return nS(y.(string))
		case commoncfg.URL:
			return nS(x.String())
		}
		if v.Kind() == reflect.String {
			return nS(v.String())
		}
	}
	panic(fmt.Sprintf("schema mirror: kind %d does not fit Go type %s", t.k, v.Type()))
}

// skeleton of the printed YAML text on the modelled schema: which keys are present; scalars erased.
func skeleton(y any, t *ty) *N {
	switch t.k {
	case kPtr:
		if y == nil {
			return nNull()
		}
		return skeleton(y, t.e)
	case kSeq:
		q := nQ()
		if l, ok := y.([]any); ok {
			for _, e := range l {
				q.l = append(q.l, skeleton(e, t.e))
			}
		}
		return q
	case kRec:
		m := nM()
		ms, _ := y.(yaml.MapSlice)
		for _, f := range t.fs {
			for _, it := range ms {
				if ks, ok := it.Key.(string); ok && ks == f.key {
					m.set(f.key, skeleton(it.Value, f.t))
				}
			}
		}
		return m
	}
	return nNull()
}

// ---------------------------------------------------------------- canonical dump of everything
// dump writes every reachable field of a configuration (modelled or not) as path=value lines:
// the "equal configuration" of the property is equality of these dumps.  Canonicalisation:
// nil and empty slices/maps are the same, maps are sorted by key, regexps / URLs / label sets
// are written through their String methods, functions are skipped.
func dump(out *[]string, path string, v reflect.Value, depth int) {
	if depth > 24 {
		*out = append(*out, path+"=<deep>")
		return
	}
	if v.IsValid() && v.CanInterface() {
		switch x := v.Interface().(type) {
		case *regexp.Regexp:
			if x == nil {
				*out = append(*out, path+"=nil")
			} else {
				*out = append(*out, path+"=re:"+x.String())
			}
			return
		case labels.Labels:
			*out = append(*out, path+"="+x.String())
			return
		case url.URL:
			*out = append(*out, path+"=url:"+x.String())
			return
		case *url.URL:
			if x == nil {
				*out = append(*out, path+"=nil")
			} else {
				*out = append(*out, path+"=url:"+x.String())
			}
			return
		}
	}
	switch v.Kind() {
	case reflect.Invalid:
		*out = append(*out, path+"=invalid")
	case reflect.Ptr, reflect.Interface:
		if v.IsNil() {
			*out = append(*out, path+"=nil")
			return
		}
		if v.Kind() == reflect.Interface {
			path += "<" + v.Elem().Type().String() + ">"
		}
		dump(out, path, v.Elem(), depth+1)
	case reflect.Struct:
		t := v.Type()
		for i := 0; i < t.NumField(); i++ {
			dump(out, path+"."+t.Field(i).Name, v.Field(i), depth+1)
		}
	case reflect.Slice, reflect.Array:
		if v.Len() == 0 {
			*out = append(*out, path+"=[]")
			return
		}
		for i := 0; i < v.Len(); i++ {
			dump(out, path+"["+strconv.Itoa(i)+"]", v.Index(i), depth+1)
		}
	case reflect.Map:
		if v.Len() == 0 {
			*out = append(*out, path+"=[]")
			return
		}
		ks := v.MapKeys()
		sort.Slice(ks, func(i, j int) bool { return fmt.Sprint(ks[i]) < fmt.Sprint(ks[j]) })
		for _, k := range ks {
			dump(out, path+"["+fmt.Sprint(k)+"]", v.MapIndex(k), depth+1)
		}
	case reflect.Func, reflect.Chan, reflect.UnsafePointer:
	case reflect.Bool:
		*out = append(*out, path+"="+strconv.FormatBool(v.Bool()))
	case reflect.Int, reflect.Int8, reflect.Int16, reflect.Int32, reflect.Int64:
		*out = append(*out, path+"="+strconv.FormatInt(v.Int(), 10))
	case reflect.Uint, reflect.Uint8, reflect.Uint16, reflect.Uint32, reflect.Uint64, reflect.Uintptr:
		*out = append(*out, path+"="+strconv.FormatUint(v.Uint(), 10))
	case reflect.Float32, reflect.Float64:
		*out = append(*out, path+"="+strconv.FormatFloat(v.Float(), 'g', -1, 64))
	case reflect.String:
		*out = append(*out, path+"="+strconv.Quote(v.String()))
	default:
		*out = append(*out, path+"=<"+v.Kind().String()+">")
	}
}

func dumpOf(c any) []string {
	var out []string
	dump(&out, "", reflect.ValueOf(c), 0)
	return out
}

// hash2 packs the first 120 bits of sha256 into two 60-bit ints (Coq primitive ints).
func hash2(lines []string) (uint64, uint64) {
	h := sha256.New()
	for _, l := range lines {
		h.Write([]byte(l))
		h.Write([]byte{0})
	}
	s := h.Sum(nil)
	return binary.BigEndian.Uint64(s[0:8]) >> 4, binary.BigEndian.Uint64(s[8:16]) >> 4
}

var idxRe = regexp.MustCompile(`\[[0-9]+\]`)

// diffKeys: the paths (slice indices removed) whose values differ between two dumps.
func diffKeys(a, b []string) []string {
	am, bm := map[string]string{}, map[string]string{}
	for _, l := range a {
		k, v, _ := strings.Cut(l, "=")
		am[k] = v
	}
	for _, l := range b {
		k, v, _ := strings.Cut(l, "=")
		bm[k] = v
	}
	set := map[string]bool{}
	for k, v := range am {
		if w, ok := bm[k]; !ok || w != v {
			set[idxRe.ReplaceAllString(k, "")] = true
		}
	}
	for k := range bm {
		if _, ok := am[k]; !ok {
			set[idxRe.ReplaceAllString(k, "")] = true
		}
	}
	var ks []string
	for k := range set {
		ks = append(ks, k)
	}
	sort.Strings(ks)
	return ks
}

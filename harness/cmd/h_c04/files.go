// h_c04: reading the on-disk structure of a master database (fragment / record / chunk
// boundaries), with the real record decoder and the real chunk decoder.
package main

import (
	"encoding/binary"
	"fmt"
	"hash/crc32"
	"os"
	"path/filepath"
	"sort"
	"strings"

	"github.com/prometheus/prometheus/model/labels"
	"github.com/prometheus/prometheus/tsdb/chunkenc"
	"github.com/prometheus/prometheus/tsdb/chunks"
	"github.com/prometheus/prometheus/tsdb/record"
)

const pageSize = 32 * 1024

var castagnoli = crc32.MakeTable(crc32.Castagnoli)

// frag is one WAL fragment: 7 byte header at Hdr, Len data bytes.
type frag struct {
	Hdr  int64
	Typ  byte // the whole first header byte
	Len  int
	Crc  uint32
	Rec  int // index of the record this fragment belongs to
	Last bool
}

// rec is a decoded record.
type rec struct {
	Kind    string     // series | samples | markers | other
	Series  [][2]int64 // (ref, series index or -1)
	Samples [][3]int64 // (ref, t, v)
	Markers [][2]int64 // (ref, mmap ref)
	Start   int64      // offset of the first fragment header
	End     int64      // offset after the last fragment
}

// segFile is one segment file of a WAL / WBL / checkpoint directory.
type segFile struct {
	Rel   string
	Index int
	Size  int64
	Frags []frag
	Recs  []rec
	bytes []byte
}

// parseSegment walks the page / fragment layout of an intact segment.
func parseSegment(b []byte, m *master) ([]frag, []rec, error) {
	var frags []frag
	var recs []rec
	dec := record.NewDecoder(labels.NewSymbolTable(), nil)
	pos := 0
	var cur []byte
	start := int64(-1)
	for pos < len(b) {
		typ := b[pos] & 7
		if typ == 0 {
			// page terminator: the rest of the page must be zero
			end := (pos/pageSize + 1) * pageSize
			if end > len(b) {
				end = len(b)
			}
			for i := pos; i < end; i++ {
				if b[i] != 0 {
					return nil, nil, fmt.Errorf("non-zero padding at %d", i)
				}
			}
			pos = end
			continue
		}
		if pos+7 > len(b) {
			return nil, nil, fmt.Errorf("short header at %d", pos)
		}
		l := int(binary.BigEndian.Uint16(b[pos+1:]))
		c := binary.BigEndian.Uint32(b[pos+3:])
		if pos+7+l > len(b) {
			return nil, nil, fmt.Errorf("short data at %d", pos)
		}
		data := b[pos+7 : pos+7+l]
		if crc32.Checksum(data, castagnoli) != c {
			return nil, nil, fmt.Errorf("crc at %d", pos)
		}
		if b[pos]&0x18 != 0 {
			return nil, nil, fmt.Errorf("compressed fragment at %d (not expected)", pos)
		}
		if start < 0 {
			start = int64(pos)
			cur = cur[:0]
		}
		cur = append(cur, data...)
		last := typ == 1 || typ == 4
		frags = append(frags, frag{Hdr: int64(pos), Typ: b[pos], Len: l, Crc: c, Rec: len(recs), Last: last})
		pos += 7 + l
		if last {
			r := rec{Start: start, End: int64(pos), Kind: "other"}
			switch dec.Type(cur) {
			case record.Series:
				ss, err := dec.Series(cur, nil)
				if err != nil {
					return nil, nil, err
				}
				r.Kind = "series"
				for _, s := range ss {
					idx, ok := m.byName[s.Labels.String()]
					if !ok {
						idx = -1
					}
					r.Series = append(r.Series, [2]int64{int64(s.Ref), int64(idx)})
				}
			case record.Samples, record.SamplesV2:
				ss, err := dec.Samples(cur, nil)
				if err != nil {
					return nil, nil, err
				}
				r.Kind = "samples"
				for _, s := range ss {
					v := int64(s.V)
					if float64(v) != s.V {
						return nil, nil, fmt.Errorf("unexpected sample value %v", s.V)
					}
					r.Samples = append(r.Samples, [3]int64{int64(s.Ref), s.T, v})
				}
			case record.MmapMarkers:
				ms, err := dec.MmapMarkers(cur, nil)
				if err != nil {
					return nil, nil, err
				}
				r.Kind = "markers"
				for _, x := range ms {
					r.Markers = append(r.Markers, [2]int64{int64(x.Ref), int64(x.MmapRef)})
				}
			}
			recs = append(recs, r)
			start = -1
		}
	}
	if start >= 0 {
		return nil, nil, fmt.Errorf("unterminated record at %d", start)
	}
	return frags, recs, nil
}

func readSegDir(root, rel string, m *master) ([]*segFile, error) {
	ents, err := os.ReadDir(filepath.Join(root, rel))
	if err != nil {
		if os.IsNotExist(err) {
			return nil, nil
		}
		return nil, err
	}
	var out []*segFile
	for _, e := range ents {
		if e.IsDir() {
			continue
		}
		var idx int
		if _, err := fmt.Sscanf(e.Name(), "%08d", &idx); err != nil || len(e.Name()) != 8 {
			continue
		}
		b, err := os.ReadFile(filepath.Join(root, rel, e.Name()))
		if err != nil {
			return nil, err
		}
		fr, rs, err := parseSegment(b, m)
		if err != nil {
			return nil, fmt.Errorf("%s/%s: %w", rel, e.Name(), err)
		}
		out = append(out, &segFile{Rel: filepath.Join(rel, e.Name()), Index: idx, Size: int64(len(b)), Frags: fr, Recs: rs, bytes: b})
	}
	sort.Slice(out, func(i, j int) bool { return out[i].Index < out[j].Index })
	return out, nil
}

// chunkEnt is one chunk of a head chunk file.
type chunkEnt struct {
	Start, End int64 // [Start, End) incl. the CRC
	Ref        int64
	MinT, MaxT int64
	OOO        bool
	MmapRef    int64 // ChunkDiskMapperRef of the chunk
	Samples    [][2]int64
}

type chunkFile struct {
	Rel    string
	Index  int
	Size   int64
	Chunks []chunkEnt
	End    int64 // offset after the last chunk
	bytes  []byte
}

func parseChunkFile(b []byte, seq int) ([]chunkEnt, int64, error) {
	if len(b) < chunks.HeadChunkFileHeaderSize {
		return nil, 0, fmt.Errorf("short chunk file")
	}
	if binary.BigEndian.Uint32(b) != chunks.MagicHeadChunks {
		return nil, 0, fmt.Errorf("bad magic")
	}
	idx := chunks.HeadChunkFileHeaderSize
	var out []chunkEnt
	for idx+chunks.MaxHeadChunkMetaSize <= len(b) {
		start := idx
		ref := binary.BigEndian.Uint64(b[idx:])
		mint := int64(binary.BigEndian.Uint64(b[idx+8:]))
		maxt := int64(binary.BigEndian.Uint64(b[idx+16:]))
		if ref == 0 && mint == 0 && maxt == 0 {
			break
		}
		enc := b[idx+24]
		dl, n := binary.Uvarint(b[idx+25:])
		dstart := idx + 25 + n
		dend := dstart + int(dl)
		if dend+4 > len(b) {
			return nil, 0, fmt.Errorf("short chunk at %d", start)
		}
		if crc32.Checksum(b[start:dend], castagnoli) != binary.BigEndian.Uint32(b[dend:]) {
			return nil, 0, fmt.Errorf("chunk crc at %d", start)
		}
		c, err := chunkenc.FromData(chunkenc.Encoding(enc&0x7f), b[dstart:dend])
		if err != nil {
			return nil, 0, err
		}
		ce := chunkEnt{Start: int64(start), End: int64(dend + 4), Ref: int64(ref), MinT: mint, MaxT: maxt, OOO: enc&0x80 != 0,
			MmapRef: int64(uint64(seq)<<32 | uint64(start))}
		it := c.Iterator(nil)
		for it.Next() == chunkenc.ValFloat {
			t, v := it.At()
			iv := int64(v)
			if float64(iv) != v {
				return nil, 0, fmt.Errorf("unexpected chunk value %v", v)
			}
			ce.Samples = append(ce.Samples, [2]int64{t, iv})
		}
		if it.Err() != nil {
			return nil, 0, it.Err()
		}
		out = append(out, ce)
		idx = dend + 4
	}
	for i := idx; i < len(b); i++ {
		if b[i] != 0 {
			return nil, 0, fmt.Errorf("non-zero byte after the last chunk at %d", i)
		}
	}
	return out, int64(idx), nil
}

func readChunkDir(root string) ([]*chunkFile, error) {
	rel := "chunks_head"
	ents, err := os.ReadDir(filepath.Join(root, rel))
	if err != nil {
		if os.IsNotExist(err) {
			return nil, nil
		}
		return nil, err
	}
	var out []*chunkFile
	for _, e := range ents {
		var idx int
		if _, err := fmt.Sscanf(e.Name(), "%06d", &idx); err != nil || len(e.Name()) != 6 {
			continue
		}
		b, err := os.ReadFile(filepath.Join(root, rel, e.Name()))
		if err != nil {
			return nil, err
		}
		cs, end, err := parseChunkFile(b, idx)
		if err != nil {
			return nil, fmt.Errorf("%s/%s: %w", rel, e.Name(), err)
		}
		out = append(out, &chunkFile{Rel: filepath.Join(rel, e.Name()), Index: idx, Size: int64(len(b)), Chunks: cs, End: end, bytes: b})
	}
	sort.Slice(out, func(i, j int) bool { return out[i].Index < out[j].Index })
	return out, nil
}

// dbFiles is the on-disk structure of a master.
type dbFiles struct {
	CkptIdx int // -1: none
	Ckpt    []*segFile
	Wal     []*segFile
	Wbl     []*segFile
	Chunks  []*chunkFile
	Blocks  []string
}

func readFiles(m *master) (*dbFiles, error) {
	f := &dbFiles{CkptIdx: -1}
	var err error
	if f.Wal, err = readSegDir(m.dir, "wal", m); err != nil {
		return nil, err
	}
	if f.Wbl, err = readSegDir(m.dir, "wbl", m); err != nil {
		return nil, err
	}
	if f.Chunks, err = readChunkDir(m.dir); err != nil {
		return nil, err
	}
	ents, _ := os.ReadDir(filepath.Join(m.dir, "wal"))
	for _, e := range ents {
		if e.IsDir() && strings.HasPrefix(e.Name(), "checkpoint.") && !strings.HasSuffix(e.Name(), ".tmp") {
			var idx int
			fmt.Sscanf(strings.TrimPrefix(e.Name(), "checkpoint."), "%d", &idx)
			if idx > f.CkptIdx {
				f.CkptIdx = idx
				if f.Ckpt, err = readSegDir(m.dir, filepath.Join("wal", e.Name()), m); err != nil {
					return nil, err
				}
			}
		}
	}
	top, _ := os.ReadDir(m.dir)
	for _, e := range top {
		if e.IsDir() && len(e.Name()) == 26 {
			f.Blocks = append(f.Blocks, e.Name())
		}
	}
	return f, nil
}

// h_c04: correspondence harness for C04 (damaged on-disk data never yields wrong samples).
//
// Builds small real databases (head with WAL, WBL through out-of-order samples, head chunk
// files, a checkpoint and blocks after a head compaction), reads their on-disk structure back
// (fragment layout, records through the real record decoder, chunks through the real chunk
// decoder), and for every damage (truncation at an offset, one bit flipped, one byte zeroed) of
// the newest WAL / WBL / head-chunk file, an older WAL / chunk file and the newest checkpoint
// (byte changes only) copies the directory, damages the copy, runs the real tsdb.Open, queries,
// appends (a series never seen before, every known series in order, one out-of-order sample
// each), queries, closes, reopens and queries again.
package main

import (
	"flag"
	"fmt"
	"os"
	"strings"

	"verif/harness/internal/gallina"
	"verif/harness/internal/gen"
)

const (
	shapeCkpt = "checkpoint-damage-open-fails-wal-deleted"
	shapeWbl  = "wal-repair-skips-wbl"
	shapeRef  = "series-ref-reused-after-lost-series-record"
	shapeOld  = "older-chunk-file-cut-at-chunk-boundary"
	shapeDrop = "ooo-append-dropped-without-head-chunk"
)

type desc struct {
	Master  string `json:"master"`
	Variant int    `json:"variant"`
	Damage  string `json:"damage"`
	Role    string `json:"role"`
	Aspect  int    `json:"aspect"`
	Obs     string `json:"obs"`
	Shape   string `json:"shape"`
}

func dmgTerm(d damage, orig []byte) string {
	switch d.Kind {
	case kTrunc:
		return fmt.Sprintf("(DTrunc %s)", zi(d.Off))
	case kFlip:
		return fmt.Sprintf("(DByte %s %s)", zi(d.Off), zi(int64(orig[d.Off]^d.Val)))
	}
	return fmt.Sprintf("(DByte %s %s)", zi(d.Off), zi(0))
}

func repairCode(s string) int64 {
	switch s {
	case "none", "chunks":
		return 0
	case "wal", "chunks+wal":
		return 1
	case "wbl", "chunks+wbl":
		return 2
	}
	return 9
}

// strictly increasing (series, t): the querier returned sorted series without duplicates
func sortedStrict(l []smp) bool {
	for i := 1; i < len(l); i++ {
		a, b := l[i-1], l[i]
		if a.S == b.S && a.T >= b.T {
			return false
		}
	}
	return true
}

func segIdx(dir, sub string) []int64 {
	ents, _ := os.ReadDir(dir + "/" + sub)
	var out []int64
	for _, e := range ents {
		var i int64
		if !e.IsDir() && len(e.Name()) == 8 {
			if _, err := fmt.Sscanf(e.Name(), "%08d", &i); err == nil {
				out = append(out, i)
			}
		}
	}
	return out
}

func main() {
	reproFlag := flag.Bool("repro", false, "run the four fixed reproducers of the findings in notes/C04.md and exit")
	f := gallina.ParseFlags()
	root, err := os.MkdirTemp(f.Out, "c04scratch")
	if err != nil {
		panic(err)
	}
	defer os.RemoveAll(root)
	if *reproFlag {
		repro(root)
		return
	}
	thorough := f.Tier == "thorough"
	meta := gallina.NewMeta("C04", f.Seed, f.Tier)
	meta.Rule = "one evaluation = one damaged copy of a generated database taken through open / query / append / close / open / query (3 cases = 3 aspects of the property); non-trivial = the damage changed the file and lies in the used part of it (not in preallocated space that is never read); distinct by (master, file, kind, offset, value)"

	// quick: a compacted database with checkpoint, one without, a compacted one with several
	// sessions after the compaction; thorough adds one without out-of-order ingestion (no WBL)
	nm := 3 * f.Scale
	if thorough {
		nm = 4 * f.Scale
	}
	nrand := 2
	if thorough {
		nrand = 10
	}
	var masters []*master
	var pre strings.Builder
	pre.WriteString("From Coq Require Import List ZArith Bool Uint63.\nFrom Verif Require Import model.Damage corr.CorrC04.\nImport ListNotations.\nOpen Scope Z_scope.\nOpen Scope uint63_scope.\n")
	for v := 0; v < nm; v++ {
		m, err := build(gen.Fork(f.Seed, 1000+v), v, root, v)
		if err != nil {
			panic(fmt.Sprintf("building master %d: %v", v, err))
		}
		if m.files, err = readFiles(m); err != nil {
			panic(fmt.Sprintf("reading master %d: %v", v, err))
		}
		if !equal(m.hist, m.base) {
			meta.GoViol = append(meta.GoViol, gallina.GoViolation{ID: fmt.Sprintf("master%d", v), Shape: "undamaged-reopen-differs", What: "the undamaged database does not return the written history after reopen"})
		}
		t, err := masterTerm(m)
		if err != nil {
			panic(err)
		}
		pre.WriteString(t)
		masters = append(masters, m)
		meta.Notes = append(meta.Notes, fmt.Sprintf("master %d: %s; history %d samples, blocks %d, checkpoint %d, wal segments %d, wbl segments %d, chunk files %d",
			v, m.desc, len(m.hist), len(m.files.Blocks), m.files.CkptIdx, len(m.files.Wal), len(m.files.Wbl), len(m.files.Chunks)))
	}
	basePre := pre.String()
	cf := &gallina.CaseFile{Dir: f.Out, Type: "case", PerShard: 0, Preamble: basePre, Footer: gallina.StdFooter}
	if thorough {
		// experiments whose second open (or all of it) the model does not describe
		cf.Footer += "\nDefinition U := Eval vm_compute in unmodelled_ids cases.\nPrint U."
	}
	perShard := 400
	if thorough {
		perShard = 800
	}
	inShard := 0
	id := 0
	exp := 0
	for _, m := range masters {
		for ti, t := range targets(m.files) {
			r := gen.Fork(f.Seed, 5000+100*m.id+ti)
			// thorough tier: every offset of the newest WAL and WBL segment of the small database
			// without checkpoint (master 1), and the first 600 bytes' worth of its newest chunk file
			every := thorough && m.id%4 == 1 && (t.role == "wal" || t.role == "wbl")
			for _, d := range enumerate(r, t, thorough, every, nrand*f.Scale) {
				var orig []byte
				if t.seg != nil {
					orig = t.seg.bytes
				} else {
					orig = t.ch.bytes
				}
				o := run(m, d, root)
				if o.Panic != "" {
					meta.Hit(t.role + "/panic")
					meta.GoViol = append(meta.GoViol, gallina.GoViolation{ID: "panic:" + d.String(), Shape: "panic", What: "the implementation panicked (" + o.Panic + ") after " + d.String()})
					continue
				}
				if o.HarnErr != "" {
					panic("harness: " + o.HarnErr + " for " + d.String())
				}
				if !o.Changed {
					meta.Hit("no-change")
					continue
				}
				meta.Evaluations++
				_, end := t.boundaries()
				if d.Off < end+24 {
					meta.Nontrivial++
				}
				// role / file / oracles
				role, file := "RoleWal", int64(0)
				orc, crcok := "(mkO 0 false false)", "false"
				switch {
				case t.seg != nil:
					file = int64(t.seg.Index)
					c, dec, same := segOracle(t.seg, d)
					orc = fmt.Sprintf("(mkO %s %v %v)", zi(c), dec, same)
					switch t.role {
					case "wbl":
						role = "RoleWbl"
					case "ckpt":
						role = "RoleCkpt"
					}
				default:
					role, file = "RoleChunk", int64(t.ch.Index)
					if chunkOracle(t.ch, d) {
						crcok = "true"
					}
				}
				kind := [...]string{"trunc", "flip", "zero"}[d.Kind]
				var obsT, obsS string
				shapes := [3]string{"open", "other-logs", "reopen"}
				if o.OpenErr != "" {
					meta.Hit(t.role + "/" + kind + "/open-error")
					obsT = fmt.Sprintf("(ObsErr %s %s %s)", zi(int64(len(o.Lost))), zlist(o.WalLeft), zlist(o.WblLeft))
					obsS = fmt.Sprintf("open failed; other files lost/altered: %v", o.Lost)
					if t.role == "ckpt" && len(o.Lost) > 0 {
						shapes[0] = shapeCkpt
					}
				} else {
					meta.Hit(t.role + "/" + kind + "/" + o.Repair)
					if !sortedStrict(o.C1) || !sortedStrict(o.C1b) || !sortedStrict(o.C2) {
						meta.GoViol = append(meta.GoViol, gallina.GoViolation{ID: fmt.Sprint(3 * exp), Shape: "unsorted-or-duplicate-samples", What: "a querier returned a series with non-increasing timestamps after " + d.String()})
					}
					c1miss, c1extra := diff(m.base, o.C1), diff(o.C1, m.base)
					want1b := union(o.C1, o.Added)
					bm, bx := diff(want1b, o.C1b), diff(o.C1b, want1b)
					want2 := union(m.base, o.Added)
					m2, x2 := diff(want2, o.C2), diff(o.C2, want2)
					o2 := "true"
					if o.Open2Err != "" {
						o2 = "false"
					}
					crep := "false"
					if strings.Contains(o.Repair, "chunks") {
						crep = "true"
					}
					obsT = fmt.Sprintf("(ObsOk %s %s %s %s %s %s %s %s %s %s %s %s)", zi(repairCode(o.Repair)), crep, packed(c1miss), packed(c1extra),
						zi(int64(o.Attempted)), packed(o.Added), packed(bm), packed(bx), o2, zi(repairCode(o.Repair2)), packed(m2), packed(x2))
					obsS = fmt.Sprintf("repair=%s |C1|=%d missing=%d extra=%d added=%d/%d open2err=%q repair2=%s C2 missing=%d extra=%d",
						o.Repair, len(o.C1), len(c1miss), len(c1extra), len(o.Added), o.Attempted, o.Open2Err, o.Repair2, len(m2), len(x2))
					if repairCode(o.Repair) == 1 && m.wblSamples() > 0 {
						shapes[1] = shapeWbl
					}
					inv := diff(o.C2, union(m.hist, o.Added))
					if len(inv) > 0 {
						// the known mechanism: every sample that was never written to its series was
						// written, with this timestamp and value, to another series
						all := true
						for _, x := range inv {
							found := false
							for _, y := range m.hist {
								if y.T == x.T && y.V == x.V && y.S != x.S {
									found = true
									break
								}
							}
							all = all && found
						}
						if all {
							shapes[2] = shapeRef
						}
					}
					// acknowledged but not stored (finding E; the appends of this harness come in an
					// order that does not provoke it, see notes/C04.md and -repro)
					if len(bm) > 0 && len(bx) == 0 && shapes[2] == "reopen" {
						shapes[2] = shapeDrop
					}
					if t.role == "chunk-old" && d.Kind == kTrunc && o.Repair == "none" && len(c1miss) > 0 {
						shapes[0], shapes[1] = shapeOld, shapeOld
					}
				}
				edef := fmt.Sprintf("Definition e%d : exper := mkE m%d %s %s %s %s %s %s.\n", exp, m.id, role, zi(file), dmgTerm(d, orig), orc, crcok, obsT)
				cf.Preamble += edef
				for a := 0; a < 3; a++ {
					cf.Add(fmt.Sprintf("mkCase %s %s e%d", gallina.Z(int64(id)), gallina.Z(int64(a)), exp))
					meta.Case(id, desc{Master: m.desc, Variant: m.id, Damage: d.String(), Role: t.role, Aspect: a, Obs: obsS, Shape: shapes[a]})
					id++
				}
				exp++
				inShard++
				if inShard >= perShard {
					cf.Flush()
					cf.Preamble = basePre
					inShard = 0
				}
			}
		}
	}
	cf.Flush()
	meta.Write(f.Out)
}

func (m *master) wblSamples() int {
	n := 0
	for _, s := range m.files.Wbl {
		for _, r := range s.Recs {
			n += len(r.Samples)
		}
	}
	return n
}

// h_c04: one damage experiment against the real tsdb.Open.
package main

import (
	"fmt"
	"os"
	"sort"
	"strings"

	"verif/harness/internal/tsdbx"
)

// obs is what the implementation did with one damaged copy.
type obs struct {
	Changed   bool     // the damage changed the file
	OpenErr   string   // first open failed with this error
	Lost      []string // after a failed open: files (other than the damaged one) missing or altered
	WalLeft   []int64  // after a failed open: WAL / WBL segment indices in the directory
	WblLeft   []int64
	Attempted int    // appends tried after open 1
	Repair    string // none | wal | wbl | chunks (+ combinations joined by "+"), from the log messages of open 1
	C1        []smp  // contents after open 1
	Added     []smp  // samples acknowledged after open 1
	C1b       []smp  // contents after the appends
	Open2Err  string
	Repair2   string
	C2        []smp // contents after close + reopen
	HarnErr   string
	Panic     string // the implementation panicked during the experiment
}

func repairKind(logs []string) string {
	var k []string
	for _, l := range logs {
		switch {
		case strings.Contains(l, "Encountered WAL read error"):
			k = append(k, "wal")
		case strings.Contains(l, "Encountered WBL read error"):
			k = append(k, "wbl")
		case strings.Contains(l, "Loading on-disk chunks failed"):
			k = append(k, "chunks")
		}
	}
	if len(k) == 0 {
		return "none"
	}
	return strings.Join(k, "+")
}

func run(m *master, d damage, root string) (o obs) {
	dir, err := copyDB(m.dir, root)
	if err != nil {
		o.HarnErr = err.Error()
		return o
	}
	defer os.RemoveAll(dir)
	defer func() {
		if r := recover(); r != nil {
			o.Panic = fmt.Sprint(r)
		}
	}()
	o.Changed, err = d.apply(dir)
	if err != nil {
		o.HarnErr = err.Error()
		return o
	}
	pre := map[string]string{}
	for k, v := range m.listing() {
		pre[k] = v
	}
	db, err := tsdbx.Open(dir, m.opts)
	if err != nil {
		o.OpenErr = err.Error()
		post := listing(dir)
		for f, h := range pre {
			if f == d.File {
				continue
			}
			if post[f] != h {
				o.Lost = append(o.Lost, f)
			}
		}
		sort.Strings(o.Lost)
		o.WalLeft, o.WblLeft = segIdx(dir, "wal"), segIdx(dir, "wbl")
		return o
	}
	lg := db.Logs()
	o.Repair = repairKind(lg)
	if o.C1, err = contents(db, m); err != nil {
		o.HarnErr = "query1: " + err.Error()
		db.Close()
		return o
	}
	// new writes: two in-order transactions after everything written so far, and an
	// out-of-order sample per series when the window allows it
	t := m.maxT
	v := m.nextV
	for k := 0; k < 2; k++ {
		t += 7
		var in []smp
		in = append(in, smp{m.fresh, t, v}) // a series never written before comes first
		v++
		for s := 0; s < m.active; s++ {
			in = append(in, smp{s, t, v})
			v++
		}
		if k == 1 && m.opts.OOOWindow > 0 {
			for s := 0; s < m.active; s++ {
				tt := t - 11 - int64(s)
				if !m.used[[2]int64{int64(s), tt}] && tt > m.maxT {
					in = append(in, smp{s, tt, v})
					v++
				}
			}
		}
		o.Attempted += len(in)
		o.Added = append(o.Added, tx(db, m, in)...)
	}
	if o.C1b, err = contents(db, m); err != nil {
		o.HarnErr = "query1b: " + err.Error()
		db.Close()
		return o
	}
	if err := db.Reopen(); err != nil {
		o.Open2Err = err.Error()
		return o
	}
	lg2 := db.Logs()
	o.Repair2 = repairKind(lg2)
	if o.C2, err = contents(db, m); err != nil {
		o.HarnErr = "query2: " + err.Error()
	}
	db.Close()
	return o
}

// set helpers on sorted sample lists
func diff(a, b []smp) []smp { // a \ b
	in := map[uint64]bool{}
	for _, x := range b {
		in[pack(x)] = true
	}
	var out []smp
	for _, x := range a {
		if !in[pack(x)] {
			out = append(out, x)
		}
	}
	return out
}

func union(a, b []smp) []smp {
	out := append(append([]smp{}, a...), diff(b, a)...)
	sortSmp(out)
	return out
}

func equal(a, b []smp) bool {
	if len(a) != len(b) {
		return false
	}
	for i := range a {
		if a[i] != b[i] {
			return false
		}
	}
	return true
}

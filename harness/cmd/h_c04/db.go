// h_c04: building the master databases, copying, damaging and re-opening them.
package main

import (
	"crypto/sha256"
	"fmt"
	"io"
	"math"
	"os"
	"path/filepath"
	"sort"
	"strconv"
	"strings"

	"github.com/prometheus/prometheus/model/labels"

	"verif/harness/internal/gen"
	"verif/harness/internal/tsdbx"
)

// smp is one float sample of series S (index into master.lbls). The value written is float64(V),
// V a small unique integer, so "value unaltered" is decidable from the triple.
type smp struct {
	S int
	T int64
	V int64
}

const badSeries = 63 // series index used for observed series / values that cannot be packed

// pack orders samples by (series, time, value).
func pack(x smp) uint64 { return uint64(x.S)<<56 | uint64(x.T)<<28 | uint64(x.V) }

func sortSmp(l []smp) {
	sort.Slice(l, func(i, j int) bool { return pack(l[i]) < pack(l[j]) })
}

type master struct {
	id       int
	dir      string
	opts     tsdbx.Options
	lbls     []labels.Labels
	byName   map[string]int
	hist     []smp // every acknowledged sample
	base     []smp // contents of the undamaged database after reopen
	maxT     int64 // newest in-order timestamp written
	nextV    int64
	used     map[[2]int64]bool // (series, t) already written
	desc     string
	files    *dbFiles
	blocks   []smp // samples of the persisted blocks
	minValid int64 // Head.minValidTime after an undamaged open
	lst      map[string]string
	active   int // series in use (the generator appends to lbls[:active])
	fresh    int // index of the series first written after the damaged reopen
}

func lbl(i int) labels.Labels {
	return labels.FromStrings("__name__", "m", "s", strconv.Itoa(i))
}

// tx appends the given samples in one appender and returns the acknowledged ones.
func tx(db *tsdbx.DB, m *master, in []smp) []smp {
	var reqs []tsdbx.AppendReq
	for _, x := range in {
		reqs = append(reqs, tsdbx.AppendReq{Labels: m.lbls[x.S], T: x.T, V: float64(x.V)})
	}
	res, err := db.Tx(reqs, true)
	if err != nil {
		return nil
	}
	var ok []smp
	for i, r := range res {
		if r == tsdbx.OK {
			ok = append(ok, in[i])
		}
	}
	return ok
}

// genTx builds one transaction: an in-order sample for some series at the next time, and
// sometimes out-of-order samples (older than the series' newest sample, inside the window).
func genTx(r *gen.Rand, m *master, oooProb int) []smp {
	m.maxT += r.Range(5, 30)
	var in []smp
	for s := 0; s < m.active; s++ {
		if r.Chance(3, 4) {
			in = append(in, smp{s, m.maxT, m.nextV})
			m.used[[2]int64{int64(s), m.maxT}] = true
			m.nextV++
		}
		if m.opts.OOOWindow > 0 && r.Chance(oooProb, 100) {
			t := m.maxT - r.Range(3, m.opts.OOOWindow-1)
			if t > 0 && !m.used[[2]int64{int64(s), t}] {
				in = append(in, smp{s, t, m.nextV})
				m.used[[2]int64{int64(s), t}] = true
				m.nextV++
			}
		}
	}
	return in
}

// build creates one master database from the generator r.
func build(r *gen.Rand, id int, root string, variant int) (*master, error) {
	dir, err := os.MkdirTemp(root, "master")
	if err != nil {
		return nil, err
	}
	m := &master{id: id, dir: dir, byName: map[string]int{}, used: map[[2]int64]bool{}, nextV: 1}
	m.opts = tsdbx.Options{BlockRange: 1000, OOOWindow: 300, OOOCapMax: 4 + r.Range(0, 3), SamplesPerChunk: int(4 + r.Range(0, 4))}
	if variant%4 == 3 {
		m.opts.OOOWindow = 0 // a database without out-of-order ingestion (no WBL)
	}
	withCheckpoint := variant%2 == 0
	nser := int(2 + r.Range(0, 2))
	// nser ordinary series, one series created late (in the last session) and one that is
	// first written only after the damaged database has been reopened
	for i := 0; i < nser+2; i++ {
		m.lbls = append(m.lbls, lbl(i))
		m.byName[lbl(i).String()] = i
	}
	m.active = nser
	m.fresh = nser + 1
	db, err := tsdbx.Open(dir, m.opts)
	if err != nil {
		return nil, err
	}
	session := func(ntx, ooo int) {
		for i := 0; i < ntx; i++ {
			m.hist = append(m.hist, tx(db, m, genTx(r, m, ooo))...)
		}
	}
	var steps []string
	if withCheckpoint {
		// several sessions (each reopen starts a new WAL segment), enough time range for a head
		// compaction, which writes a block, a checkpoint and truncates the WAL
		for s := 0; s < 4; s++ {
			session(int(r.Range(8, 14)), 20)
			if err := db.Reopen(); err != nil {
				return nil, err
			}
		}
		for m.maxT < 1600 {
			session(4, 20)
		}
		if err := db.Compact(); err != nil {
			return nil, fmt.Errorf("compact: %w", err)
		}
		steps = append(steps, "4 sessions+compact")
	}
	nsess := int(r.Range(1, 3))
	for s := 0; s < nsess; s++ {
		if s > 0 {
			if err := db.Reopen(); err != nil {
				return nil, err
			}
		}
		session(int(r.Range(4, 8)), 30)
		if s == nsess-1 {
			m.active = nser + 1 // the late series appears in the middle of the last session
		}
		session(int(r.Range(4, 10)), 40)
	}
	steps = append(steps, fmt.Sprintf("%d sessions", nsess))
	if err := db.Close(); err != nil {
		return nil, err
	}
	sortSmp(m.hist)
	m.desc = fmt.Sprintf("series=%d window=%d oooCap=%d spc=%d %s", nser, m.opts.OOOWindow, m.opts.OOOCapMax, m.opts.SamplesPerChunk, strings.Join(steps, ","))

	// baseline: the undamaged copy, reopened
	cp, err := copyDB(dir, root)
	if err != nil {
		return nil, err
	}
	defer os.RemoveAll(cp)
	bdb, err := tsdbx.Open(cp, m.opts)
	if err != nil {
		return nil, fmt.Errorf("baseline open: %w", err)
	}
	m.base, err = contents(bdb, m)
	if err != nil {
		return nil, err
	}
	_, _, m.minValid = bdb.HeadTimes()
	for _, b := range bdb.Blocks() {
		bs, err := bdb.BlockSeries(b.ULID)
		if err != nil {
			return nil, err
		}
		for name, ss := range bs {
			idx, ok := m.byName[name]
			if !ok {
				return nil, fmt.Errorf("unknown series %s in block", name)
			}
			for _, x := range ss {
				m.blocks = append(m.blocks, smp{idx, x.T, int64(x.V)})
			}
		}
	}
	sortSmp(m.blocks)
	if err := bdb.Close(); err != nil {
		return nil, err
	}
	return m, nil
}

// contents queries everything and maps it to sorted triples.
func contents(db *tsdbx.DB, m *master) ([]smp, error) {
	ss, err := db.Query(math.MinInt64, math.MaxInt64, tsdbx.MatchAll("__name__"))
	if err != nil {
		return nil, err
	}
	var out []smp
	for _, s := range ss {
		idx, ok := m.byName[s.Labels]
		if !ok {
			idx = badSeries
		}
		for _, x := range s.Samples {
			v := int64(x.V)
			t := x.T
			si := idx
			if float64(v) != x.V || v < 0 || v >= 1<<28 || t < 0 || t >= 1<<28 {
				si, v, t = badSeries, 0, t&(1<<28-1)
			}
			out = append(out, smp{si, t, v})
		}
	}
	sortSmp(out)
	return out, nil
}

func copyDB(src, root string) (string, error) {
	dst, err := os.MkdirTemp(root, "dmg")
	if err != nil {
		return "", err
	}
	err = filepath.Walk(src, func(p string, info os.FileInfo, err error) error {
		if err != nil {
			return err
		}
		rel, _ := filepath.Rel(src, p)
		if info.IsDir() {
			return os.MkdirAll(filepath.Join(dst, rel), 0o777)
		}
		in, err := os.Open(p)
		if err != nil {
			return err
		}
		defer in.Close()
		out, err := os.Create(filepath.Join(dst, rel))
		if err != nil {
			return err
		}
		if _, err := io.Copy(out, in); err != nil {
			out.Close()
			return err
		}
		return out.Close()
	})
	return dst, err
}

// listing maps every regular file below dir (relative path) to size:sha256.
func listing(dir string) map[string]string {
	out := map[string]string{}
	filepath.Walk(dir, func(p string, info os.FileInfo, err error) error {
		if err != nil || info.IsDir() {
			return nil
		}
		rel, _ := filepath.Rel(dir, p)
		b, err := os.ReadFile(p)
		if err != nil {
			out[rel] = "unreadable"
			return nil
		}
		h := sha256.Sum256(b)
		out[rel] = fmt.Sprintf("%d:%x", len(b), h[:8])
		return nil
	})
	return out
}

// listing of the master directory (computed once)
func (m *master) listing() map[string]string {
	if m.lst == nil {
		m.lst = listing(m.dir)
	}
	return m.lst
}

// damage kinds
const (
	kTrunc = iota // truncate the file at Off
	kFlip         // xor byte at Off with Val
	kZero         // set byte at Off to zero
)

type damage struct {
	File string // relative path
	Role string // wal | wal-old | wbl | chunk | ckpt
	Kind int
	Off  int64
	Val  byte // xor mask for kFlip
	Why  string
}

func (d damage) String() string {
	k := [...]string{"trunc", "flip", "zero"}[d.Kind]
	return fmt.Sprintf("%s %s@%d/%#x (%s)", d.File, k, d.Off, d.Val, d.Why)
}

// apply damages the file; it reports false if the damage would not change the file.
func (d damage) apply(dir string) (bool, error) {
	p := filepath.Join(dir, d.File)
	b, err := os.ReadFile(p)
	if err != nil {
		return false, err
	}
	switch d.Kind {
	case kTrunc:
		if d.Off >= int64(len(b)) {
			return false, nil
		}
		return true, os.Truncate(p, d.Off)
	case kFlip:
		if d.Off >= int64(len(b)) || d.Val == 0 {
			return false, nil
		}
		b[d.Off] ^= d.Val
	case kZero:
		if d.Off >= int64(len(b)) || b[d.Off] == 0 {
			return false, nil
		}
		b[d.Off] = 0
	}
	return true, os.WriteFile(p, b, 0o666)
}

// h_c04: Gallina printers, oracles and damage enumeration.
package main

import (
	"encoding/binary"
	"fmt"
	"hash/crc32"
	"sort"
	"strings"

	"github.com/prometheus/prometheus/util/compression"

	"verif/harness/internal/gen"
)

// zi prints a non-negative integer as (z n) with n a primitive uint63 literal.
func zi(v int64) string {
	if v == -9223372036854775808 {
		return "min_int64"
	}
	if v < 0 {
		return fmt.Sprintf("(zn %d)", -v)
	}
	return fmt.Sprintf("(z %d)", v)
}

func zlist(vs []int64) string {
	it := make([]string, len(vs))
	for i, v := range vs {
		it[i] = zi(v)
	}
	return "[" + strings.Join(it, "; ") + "]"
}

func packed(l []smp) string {
	it := make([]string, len(l))
	for i, x := range l {
		it[i] = fmt.Sprintf("(z %d)", pack(x))
	}
	return "[" + strings.Join(it, "; ") + "]"
}

func recTerm(r rec) string {
	switch r.Kind {
	case "series":
		it := make([]string, len(r.Series))
		for i, x := range r.Series {
			it[i] = fmt.Sprintf("(%s, %s)", zi(x[0]), zi(x[1]))
		}
		return "RSeries [" + strings.Join(it, "; ") + "]"
	case "samples":
		it := make([]string, len(r.Samples))
		for i, x := range r.Samples {
			it[i] = fmt.Sprintf("(%s, %s, %s)", zi(x[0]), zi(x[1]), zi(x[2]))
		}
		return "RSamples [" + strings.Join(it, "; ") + "]"
	case "markers":
		it := make([]string, len(r.Markers))
		for i, x := range r.Markers {
			it[i] = fmt.Sprintf("(%s, %s)", zi(x[0]), zi(x[1]))
		}
		return "RMarkers [" + strings.Join(it, "; ") + "]"
	}
	return "ROther"
}

// segTerm prints an undamaged segment; it fails if the layout is not what the model assumes
// (type bytes implied by the position of the fragment, no flag bits).
func segTerm(s *segFile) (string, error) {
	var recs []string
	fi := 0
	for ri, r := range s.Recs {
		var fr []string
		n := 0
		for j := fi; j < len(s.Frags) && s.Frags[j].Rec == ri; j++ {
			n++
		}
		for k := 0; k < n; k++ {
			f := s.Frags[fi+k]
			want := byte(3)
			switch {
			case n == 1:
				want = 1
			case k == 0:
				want = 2
			case k == n-1:
				want = 4
			}
			if f.Typ != want {
				return "", fmt.Errorf("%s: fragment at %d has header byte %#x, expected %#x", s.Rel, f.Hdr, f.Typ, want)
			}
			fr = append(fr, fmt.Sprintf("mkF %s %s %s", zi(f.Hdr), zi(int64(f.Len)), zi(int64(f.Crc))))
		}
		fi += n
		recs = append(recs, fmt.Sprintf("mkR [%s] 0 (%s)", strings.Join(fr, "; "), recTerm(r)))
	}
	return fmt.Sprintf("(%s, mkSeg %s [%s] DNone (mkO 0 false false))", zi(int64(s.Index)), zi(s.Size), strings.Join(recs, ";\n    ")), nil
}

func segsTerm(ss []*segFile) (string, error) {
	var it []string
	for _, s := range ss {
		t, err := segTerm(s)
		if err != nil {
			return "", err
		}
		it = append(it, t)
	}
	return "[" + strings.Join(it, ";\n   ") + "]", nil
}

func chunkFileTerm(c *chunkFile) string {
	var cs []string
	for _, ce := range c.Chunks {
		sm := make([]string, len(ce.Samples))
		for i, x := range ce.Samples {
			sm[i] = fmt.Sprintf("(%s, %s)", zi(x[0]), zi(x[1]))
		}
		ooo := "false"
		if ce.OOO {
			ooo = "true"
		}
		cs = append(cs, fmt.Sprintf("mkC %s %s %s %s %s %s [%s]", zi(ce.Start), zi(ce.End), zi(ce.MmapRef), zi(ce.Ref), ooo, zi(ce.MaxT), strings.Join(sm, "; ")))
	}
	return fmt.Sprintf("mkCF %s %s [%s] DNone false", zi(int64(c.Index)), zi(c.Size), strings.Join(cs, ";\n    "))
}

// masterTerm prints `Definition m<i> : master := ...`.
func masterTerm(m *master) (string, error) {
	f := m.files
	var bl []string
	for _, x := range m.blocks {
		bl = append(bl, fmt.Sprintf("(%s, %s, %s)", zi(int64(x.S)), zi(x.T), zi(x.V)))
	}
	ck := "None"
	if f.CkptIdx >= 0 {
		t, err := segsTerm(f.Ckpt)
		if err != nil {
			return "", err
		}
		ck = fmt.Sprintf("(Some (%s, %s))", zi(int64(f.CkptIdx)), t)
	}
	wal, err := segsTerm(f.Wal)
	if err != nil {
		return "", err
	}
	wbl, err := segsTerm(f.Wbl)
	if err != nil {
		return "", err
	}
	var cfs []string
	for _, c := range f.Chunks {
		cfs = append(cfs, chunkFileTerm(c))
	}
	capv := m.opts.OOOCapMax
	if m.opts.OOOWindow == 0 {
		capv = 0
	}
	return fmt.Sprintf("Definition m%d : master := Eval vm_compute in mkM (mkD [%s]\n  %s\n  %s\n  %s\n  %s\n  [%s]\n  %s)\n  %s\n  %s.\n",
		m.id, strings.Join(bl, "; "), zi(m.minValid), ck, wal, wbl, strings.Join(cfs, ";\n   "), zi(capv), packed(m.hist), packed(m.base)), nil
}

// ---------------------------------------------------------------- oracles

// damagedBytes returns the file content after the damage, zero-extended to a page boundary.
func damagedBytes(b []byte, d damage) []byte {
	out := append([]byte{}, b...)
	switch d.Kind {
	case kTrunc:
		if d.Off < int64(len(out)) {
			out = out[:d.Off]
		}
	case kFlip:
		out[d.Off] ^= d.Val
	case kZero:
		out[d.Off] = 0
	}
	for len(out)%pageSize != 0 {
		out = append(out, 0)
	}
	return out
}

// segOracle: CRC-32C of what the reader takes as the data of the damaged fragment (-1: short),
// and whether its data decompresses under the (changed) compression flag.
func segOracle(s *segFile, d damage) (crc int64, dec, same bool) {
	db := damagedBytes(s.bytes, d)
	for _, f := range s.Frags {
		end := f.Hdr + 7 + int64(f.Len)
		touched := false
		if d.Kind == kTrunc {
			touched = f.Hdr < d.Off && d.Off < end
		} else {
			touched = f.Hdr <= d.Off && d.Off < end
		}
		if !touched {
			continue
		}
		if int(f.Hdr)+7 > len(db) {
			return -1, false, false
		}
		l := int64(binary.BigEndian.Uint16(db[f.Hdr+1:]))
		if f.Hdr+7+l > int64(len(db)) {
			return -1, false, false
		}
		data := db[f.Hdr+7 : f.Hdr+7+l]
		same = l == int64(f.Len) && string(data) == string(s.bytes[f.Hdr+7:f.Hdr+7+l])
		crc = int64(crc32.Checksum(data, castagnoli))
		h := db[f.Hdr]
		var ct compression.Type = compression.None
		if h&8 == 8 {
			ct = compression.Snappy
		} else if h&16 == 16 {
			ct = compression.Zstd
		}
		if ct != compression.None {
			_, err := compression.Decode(ct, data, compression.NewSyncDecodeBuffer())
			dec = err == nil
		}
		return crc, dec, same
	}
	return 0, false, false
}

// chunkOracle: does the checksum of the damaged chunk (or of the bytes read as a chunk after
// the last one) still match?
func chunkOracle(c *chunkFile, d damage) bool {
	if d.Kind == kTrunc {
		return false
	}
	b := append([]byte{}, c.bytes...)
	if d.Kind == kFlip {
		b[d.Off] ^= d.Val
	} else {
		b[d.Off] = 0
	}
	start := int64(-1)
	for _, ce := range c.Chunks {
		if ce.Start <= d.Off && d.Off < ce.End {
			start = ce.Start
		}
	}
	if start < 0 {
		if d.Off >= c.End && d.Off < c.End+24 {
			start = c.End
		} else {
			return false
		}
	}
	idx := int(start) + 25
	if idx+5 > len(b) {
		return false
	}
	dl, n := binary.Uvarint(b[idx:])
	if n <= 0 {
		return false
	}
	dend := idx + n + int(dl)
	if dl > uint64(len(b)) || dend+4 > len(b) {
		return false
	}
	return crc32.Checksum(b[start:dend], castagnoli) == binary.BigEndian.Uint32(b[dend:])
}

// ---------------------------------------------------------------- damage enumeration

func lastWithRecs(ss []*segFile) *segFile {
	for i := len(ss) - 1; i >= 0; i-- {
		if len(ss[i].Recs) > 0 {
			return ss[i]
		}
	}
	return nil
}

type target struct {
	role string
	seg  *segFile
	ch   *chunkFile
}

func (t target) rel() string {
	if t.seg != nil {
		return t.seg.Rel
	}
	return t.ch.Rel
}

// boundaries returns the offsets where the structure of the file changes, and the end of the
// used part of the file.
func (t target) boundaries() ([]int64, int64) {
	var bs []int64
	var end int64
	if t.seg != nil {
		for _, f := range t.seg.Frags {
			bs = append(bs, f.Hdr, f.Hdr+1, f.Hdr+3, f.Hdr+7, f.Hdr+7+int64(f.Len))
			end = f.Hdr + 7 + int64(f.Len)
		}
	} else {
		bs = append(bs, 0, 4, 5, 8)
		end = 8
		for _, c := range t.ch.Chunks {
			bs = append(bs, c.Start, c.Start+8, c.Start+24, c.Start+25, c.Start+26, c.End-4, c.End)
			end = c.End
		}
		bs = append(bs, end+24)
	}
	return bs, end
}

func (t target) size() int64 {
	if t.seg != nil {
		return t.seg.Size
	}
	return t.ch.Size
}

func targets(f *dbFiles) []target {
	var ts []target
	if s := lastWithRecs(f.Wal); s != nil {
		ts = append(ts, target{role: "wal", seg: s})
		// an older WAL segment (damage in the middle of the log)
		for i := len(f.Wal) - 1; i >= 0; i-- {
			if f.Wal[i].Index < s.Index && len(f.Wal[i].Recs) > 0 {
				ts = append(ts, target{role: "wal-old", seg: f.Wal[i]})
				break
			}
		}
	}
	if s := lastWithRecs(f.Wbl); s != nil {
		ts = append(ts, target{role: "wbl", seg: s})
	}
	if s := lastWithRecs(f.Ckpt); s != nil {
		ts = append(ts, target{role: "ckpt", seg: s})
	}
	if n := len(f.Chunks); n > 0 {
		ts = append(ts, target{role: "chunk", ch: f.Chunks[n-1]})
		if n > 1 {
			ts = append(ts, target{role: "chunk-old", ch: f.Chunks[0]})
		}
	}
	return ts
}

// enumerate lists the damages tried on one target. quick: every structure boundary -2..+2 as a
// truncation offset and as a changed byte (one bit flip and zeroing), plus random offsets;
// thorough: every offset of the used part of the file.
func enumerate(r *gen.Rand, t target, thorough, every bool, nrand int) []damage {
	bs, end := t.boundaries()
	size := t.size()
	seen := map[string]bool{}
	var out []damage
	add := func(d damage) {
		if d.Off < 0 || d.Off >= size {
			return
		}
		// the checkpoint is only subject to byte changes; old files get fewer experiments
		if t.role == "ckpt" && d.Kind == kTrunc {
			return
		}
		k := fmt.Sprint(d.Kind, d.Off, d.Val)
		if seen[k] {
			return
		}
		seen[k] = true
		d.File, d.Role = t.rel(), t.role
		out = append(out, d)
	}
	old := t.role == "wal-old" || t.role == "chunk-old"
	if every {
		// every offset of the used part of the file: a cut, and a changed byte (a bit flip and
		// zeroing in turn)
		for o := int64(0); o <= end+30 && o < size; o++ {
			add(damage{Kind: kTrunc, Off: o, Why: "every"})
			if o%2 == 0 {
				add(damage{Kind: kFlip, Off: o, Val: 1 << uint(r.Intn(8)), Why: "every"})
			} else {
				add(damage{Kind: kZero, Off: o, Why: "every"})
			}
		}
	}
	sort.Slice(bs, func(i, j int) bool { return bs[i] < bs[j] })
	step := 1
	if old {
		step = 5
	}
	for i := 0; i < len(bs); i += step {
		for dlt := int64(-2); dlt <= 2; dlt++ {
			o := bs[i] + dlt
			if old && dlt != 0 {
				continue
			}
			add(damage{Kind: kTrunc, Off: o, Why: "boundary"})
			if dlt >= -1 && dlt <= 1 {
				add(damage{Kind: kFlip, Off: o, Val: 1 << uint(r.Intn(8)), Why: "boundary"})
			}
			if dlt == 0 {
				add(damage{Kind: kZero, Off: o, Why: "boundary"})
			}
		}
	}
	// every bit of a few header bytes (type byte: flag and type bits)
	if t.seg != nil && len(t.seg.Frags) > 0 {
		f := t.seg.Frags[r.Intn(len(t.seg.Frags))]
		for bit := 0; bit < 8; bit++ {
			add(damage{Kind: kFlip, Off: f.Hdr, Val: 1 << uint(bit), Why: "type-byte"})
		}
		// the padding after the last record: its first byte (read as a header byte) and a later one
		for bit := 0; bit < 8; bit += 3 {
			add(damage{Kind: kFlip, Off: end, Val: 1 << uint(bit), Why: "padding-first"})
		}
		add(damage{Kind: kFlip, Off: end + 1 + int64(r.Intn(200)), Val: 1 << uint(r.Intn(8)), Why: "padding"})
		add(damage{Kind: kTrunc, Off: end + 1 + int64(r.Intn(200)), Why: "padding"})
	}
	if !every {
		// the fixed experiments above that always run, and a random sample of the boundary ones
		var must, rest []damage
		for _, d := range out {
			if d.Why == "boundary" {
				rest = append(rest, d)
			} else {
				must = append(must, d)
			}
		}
		capn := 2 * nrand
		if old {
			capn = nrand / 2
		}
		for len(rest) > capn {
			i := r.Intn(len(rest))
			rest[i] = rest[len(rest)-1]
			rest = rest[:len(rest)-1]
		}
		if t.role != "wal" && t.role != "ckpt" && len(must) > 4 {
			must = must[:4]
		}
		out = append(must, rest...)
	}
	if old {
		nrand /= 4
	}
	for i := 0; i < nrand; i++ {
		o := int64(r.Intn(int(end + 8)))
		switch r.Intn(3) {
		case 0:
			add(damage{Kind: kTrunc, Off: o, Why: "random"})
		case 1:
			add(damage{Kind: kFlip, Off: o, Val: 1 << uint(r.Intn(8)), Why: "random"})
		default:
			add(damage{Kind: kZero, Off: o, Why: "random"})
		}
	}
	return out
}

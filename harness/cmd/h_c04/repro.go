// h_c04 -repro: four small fixed scenarios that reproduce the findings of notes/C04.md on the
// real tsdb.Open, without generator or Coq:
//
//	cd /verif/harness && GOFLAGS=-mod=mod GOPROXY=off GOWORK=off go run -tags verif ./cmd/h_c04 -repro
package main

import (
	"fmt"
	"os"
	"path/filepath"

	"verif/harness/internal/tsdbx"
)

func reproMaster(root string, ooo bool) *master {
	dir, err := os.MkdirTemp(root, "repro")
	if err != nil {
		panic(err)
	}
	m := &master{dir: dir, byName: map[string]int{}, used: map[[2]int64]bool{}, nextV: 1}
	m.opts = tsdbx.Options{BlockRange: 1000, OOOCapMax: 4, SamplesPerChunk: 4}
	if ooo {
		m.opts.OOOWindow = 300
	}
	for i := 0; i < 4; i++ {
		m.lbls = append(m.lbls, lbl(i))
		m.byName[lbl(i).String()] = i
	}
	return m
}

func must(err error) {
	if err != nil {
		panic(err)
	}
}

func (m *master) put(db *tsdbx.DB, s int, t int64) {
	ok := tx(db, m, []smp{{s, t, m.nextV}})
	if len(ok) != 1 {
		panic(fmt.Sprintf("append (%d,%d) not acknowledged", s, t))
	}
	m.hist = append(m.hist, ok...)
	m.nextV++
}

func show(what string, l []smp) {
	fmt.Printf("    %-34s %v\n", what+":", l)
}

func repro(root string) {
	// ---- A: one changed byte in the checkpoint
	{
		fmt.Println("A  checkpoint-damage-open-fails-wal-deleted")
		m := reproMaster(root, false)
		db, err := tsdbx.Open(m.dir, m.opts)
		must(err)
		t := int64(0)
		for s := 0; s < 4; s++ { // four sessions = four WAL segments
			for i := 0; i < 10; i++ {
				t += 45
				m.put(db, 0, t)
			}
			must(db.Reopen())
		}
		must(db.Compact()) // head compaction: block, checkpoint, WAL truncation
		for i := 0; i < 5; i++ {
			t += 45
			m.put(db, 0, t)
		}
		must(db.Close())
		m.files, err = readFiles(m)
		must(err)
		ck := lastWithRecs(m.files.Ckpt)
		d := damage{File: ck.Rel, Kind: kFlip, Off: ck.Recs[0].Start + 10, Val: 4}
		fmt.Println("    WAL segments before:", segIdx(m.dir, "wal"), " damage:", d.String())
		_, err = d.apply(m.dir)
		must(err)
		_, err = tsdbx.Open(m.dir, m.opts)
		fmt.Println("    tsdb.Open error:", err)
		fmt.Println("    WAL segments after: ", segIdx(m.dir, "wal"))
	}
	// ---- C: WAL repaired, WBL not replayed, then lost for good
	{
		fmt.Println("C  wal-repair-skips-wbl")
		m := reproMaster(root, true)
		db, err := tsdbx.Open(m.dir, m.opts)
		must(err)
		for t := int64(100); t <= 200; t += 10 {
			m.put(db, 0, t)
		}
		m.put(db, 0, 95) // out of order: WBL
		m.put(db, 0, 210)
		must(db.Close())
		m.files, err = readFiles(m)
		must(err)
		w := lastWithRecs(m.files.Wal)
		last := w.Recs[len(w.Recs)-1]
		d := damage{File: w.Rel, Kind: kFlip, Off: last.Start + 9, Val: 1}
		fmt.Println("    damage (data byte of the last WAL record; the WBL is untouched):", d.String())
		_, err = d.apply(m.dir)
		must(err)
		db, err = tsdbx.Open(m.dir, m.opts)
		must(err)
		c1, _ := contents(db, m)
		show("written but missing after open", diff(m.hist, c1))
		m.put(db, 0, 215) // an in-order sample first, so that the series has a head chunk again (see E)
		m.put(db, 0, 96)  // another out-of-order sample: logs the initial m-map marker
		must(db.Reopen())
		c2, _ := contents(db, m)
		show("missing after close + open", diff(m.hist, c2))
		must(db.Close())
	}
	// ---- E: an acknowledged out-of-order append is dropped when the head chunk is missing
	{
		fmt.Println("E  ooo-append-dropped-without-head-chunk")
		m := reproMaster(root, true)
		db, err := tsdbx.Open(m.dir, m.opts)
		must(err)
		for t := int64(100); t <= 210; t += 10 {
			m.put(db, 0, t)
		}
		must(db.Close())
		m.files, err = readFiles(m)
		must(err)
		w := lastWithRecs(m.files.Wal)
		last := w.Recs[len(w.Recs)-1]
		d := damage{File: w.Rel, Kind: kTrunc, Off: last.Start + 9}
		fmt.Println("    damage (cut inside the last WAL record; every remaining sample is in an m-mapped chunk):", d.String())
		_, err = d.apply(m.dir)
		must(err)
		db, err = tsdbx.Open(m.dir, m.opts)
		must(err)
		fmt.Println("    repair at open:", repairKind(db.Logs()))
		before := len(m.hist)
		m.put(db, 0, 96) // acknowledged: Append and Commit return nil
		c1b, _ := contents(db, m)
		show("acknowledged but not stored", diff(m.hist[before:], c1b))
		must(db.Reopen())
		c2, _ := contents(db, m)
		show("still missing after close + open", diff(m.hist[before:], c2))
		must(db.Close())
	}
	// ---- B: a series ref is given out twice
	{
		fmt.Println("B  series-ref-reused-after-lost-series-record")
		m := reproMaster(root, true)
		db, err := tsdbx.Open(m.dir, m.opts)
		must(err)
		for t := int64(100); t <= 150; t += 10 {
			m.put(db, 0, t)
		}
		must(db.Reopen())
		m.put(db, 0, 160)
		m.put(db, 1, 170) // series 1 is created in the newest segment; one sample: no m-mapped chunk
		m.put(db, 1, 165) // and has an out-of-order sample in the WBL
		must(db.Close())
		m.files, err = readFiles(m)
		must(err)
		w := lastWithRecs(m.files.Wal)
		var off int64 = -1
		for _, r := range w.Recs {
			for _, x := range r.Series {
				if x[1] == 1 {
					off = r.Start + 1
				}
			}
		}
		d := damage{File: w.Rel, Kind: kTrunc, Off: off}
		fmt.Println("    damage (one byte into the header of series 1's Series record):", d.String())
		_, err = d.apply(m.dir)
		must(err)
		db, err = tsdbx.Open(m.dir, m.opts)
		must(err)
		fmt.Println("    repair at open:", repairKind(db.Logs()))
		m.put(db, 2, 220) // a series never written before
		for _, hs := range db.HeadDump() {
			fmt.Println("    after the append: series", hs.Labels, "has ref", hs.Ref)
		}
		must(db.Reopen())
		c2, _ := contents(db, m)
		show("shown but never written (series,t,v)", diff(c2, m.hist))
		must(db.Close())
	}
	// ---- D: an older head chunk file cut at a chunk boundary
	{
		fmt.Println("D  older-chunk-file-cut-at-chunk-boundary")
		m := reproMaster(root, false)
		db, err := tsdbx.Open(m.dir, m.opts)
		must(err)
		t := int64(0)
		for s := 0; s < 3; s++ { // every reopen m-maps the replayed chunks into a new file
			for i := 0; i < 10; i++ {
				t += 10
				m.put(db, 0, t)
			}
			must(db.Reopen())
		}
		must(db.Close())
		m.files, err = readFiles(m)
		must(err)
		var cfile *chunkFile
		for _, c := range m.files.Chunks[:len(m.files.Chunks)-1] {
			if len(c.Chunks) >= 2 && cfile == nil {
				cfile = c
			}
		}
		if cfile == nil {
			fmt.Println("    (no older chunk file with two chunks in this layout)")
			return
		}
		d := damage{File: cfile.Rel, Kind: kTrunc, Off: cfile.Chunks[1].Start}
		fmt.Println("    chunk files:", len(m.files.Chunks), " damage:", d.String(), filepath.Base(cfile.Rel))
		_, err = d.apply(m.dir)
		must(err)
		db, err = tsdbx.Open(m.dir, m.opts)
		must(err)
		fmt.Println("    repair at open:", repairKind(db.Logs()))
		c1, _ := contents(db, m)
		show("written (and in the WAL) but missing", diff(m.hist, c1))
		must(db.Close())
	}
}

// h_c14: correspondence harness for C14 (WAL record encoding round-trips).
// Drives the real record.Encoder / record.Decoder of /repo/tsdb/record on generated record
// contents, writes the encoded value, the bytes the Go encoder produced, the leftovers it
// returned (V1 histogram split) and what the Go decoder made of the bytes, as Gallina terms.
// Coq then checks (agree) that the model encodes to the same bytes / decodes to the same value
// or error class, and (holds) that the Go decoder returned exactly what was encoded.
// A second stream feeds truncated / extended / garbage byte strings to the Go decoders.
package main

import (
	"fmt"
	"io"
	"log/slog"
	"math"
	"strings"

	"github.com/prometheus/prometheus/model/histogram"
	"github.com/prometheus/prometheus/model/labels"
	"github.com/prometheus/prometheus/storage"
	"github.com/prometheus/prometheus/tsdb/chunks"
	"github.com/prometheus/prometheus/tsdb/record"
	"github.com/prometheus/prometheus/tsdb/tombstones"

	"verif/harness/internal/gallina"
	"verif/harness/internal/gen"
)

type desc struct {
	Kind  string `json:"kind"`
	N     int    `json:"n"`
	Bytes int    `json:"bytes"`
	Obs   string `json:"obs"`
	Shape string `json:"shape"`
	Note  string `json:"note,omitempty"`
	Seed  uint64 `json:"seed"`
	Index int    `json:"index"`
}

// ---------------------------------------------------------------- Gallina printers
func lbls(l labels.Labels) string {
	var it []string
	l.Range(func(x labels.Label) {
		it = append(it, gallina.Pair(gallina.Str(x.Name), gallina.Str(x.Value)))
	})
	if len(it) == 0 {
		return "([] : labels)"
	}
	return gallina.List(it)
}

func listOf(ty string, it []string) string {
	if len(it) == 0 {
		return "([] : list (" + ty + "))"
	}
	return gallina.List(it)
}

func pSeries(l []record.RefSeries) string {
	it := make([]string, len(l))
	for i, s := range l {
		it[i] = fmt.Sprintf("mkSeries %s %s", gallina.N(uint64(s.Ref)), lbls(s.Labels))
	}
	return "(VSeries " + listOf("ref_series", it) + ")"
}

func pSamples(l []record.RefSample) string {
	it := make([]string, len(l))
	for i, s := range l {
		it[i] = fmt.Sprintf("mkSample %s %s %s %s", gallina.N(uint64(s.Ref)), gallina.Z(s.ST), gallina.Z(s.T), gallina.N(math.Float64bits(s.V)))
	}
	return "(VSamples " + listOf("ref_sample", it) + ")"
}

func pStones(l []tombstones.Stone) string {
	it := make([]string, len(l))
	for i, s := range l {
		iv := make([]string, len(s.Intervals))
		for j, v := range s.Intervals {
			iv[j] = gallina.Pair(gallina.Z(v.Mint), gallina.Z(v.Maxt))
		}
		it[i] = fmt.Sprintf("mkStone %s %s", gallina.N(uint64(s.Ref)), listOf("Z * Z", iv))
	}
	return "(VStones " + listOf("stone", it) + ")"
}

func pExemplars(l []record.RefExemplar) string {
	it := make([]string, len(l))
	for i, s := range l {
		it[i] = fmt.Sprintf("mkEx %s %s %s %s", gallina.N(uint64(s.Ref)), gallina.Z(s.T), gallina.N(math.Float64bits(s.V)), lbls(s.Labels))
	}
	return "(VExemplars " + listOf("ref_exemplar", it) + ")"
}

func pMetadata(l []record.RefMetadata) string {
	it := make([]string, len(l))
	for i, s := range l {
		it[i] = fmt.Sprintf("mkMeta %s %s %s %s", gallina.N(uint64(s.Ref)), gallina.N(uint64(s.Type)), gallina.Str(s.Unit), gallina.Str(s.Help))
	}
	return "(VMetadata " + listOf("ref_metadata", it) + ")"
}

func pMmap(l []record.RefMmapMarker) string {
	it := make([]string, len(l))
	for i, s := range l {
		it[i] = fmt.Sprintf("mkMmap %s %s", gallina.N(uint64(s.Ref)), gallina.N(uint64(s.MmapRef)))
	}
	return "(VMmap " + listOf("ref_mmap", it) + ")"
}

func pSpans(l []histogram.Span) string {
	it := make([]string, len(l))
	for i, s := range l {
		it[i] = fmt.Sprintf("mkSpan %s %s", gallina.Z(int64(s.Offset)), gallina.N(uint64(s.Length)))
	}
	return listOf("span", it)
}

func pFloats(l []float64) string {
	it := make([]string, len(l))
	for i, v := range l {
		it[i] = gallina.N(math.Float64bits(v))
	}
	return listOf("N", it)
}

func pZs(l []int64) string {
	it := make([]string, len(l))
	for i, v := range l {
		it[i] = gallina.Z(v)
	}
	return listOf("Z", it)
}

func pHist(h *histogram.Histogram) string {
	return fmt.Sprintf("(mkHist %s %s %s %s %s %s %s %s %s %s %s)", gallina.N(uint64(h.CounterResetHint)), gallina.Z(int64(h.Schema)),
		gallina.N(math.Float64bits(h.ZeroThreshold)), gallina.N(h.ZeroCount), gallina.N(h.Count), gallina.N(math.Float64bits(h.Sum)),
		pSpans(h.PositiveSpans), pSpans(h.NegativeSpans), pZs(h.PositiveBuckets), pZs(h.NegativeBuckets), pFloats(h.CustomValues))
}

func pFHist(h *histogram.FloatHistogram) string {
	return fmt.Sprintf("(mkFHist %s %s %s %s %s %s %s %s %s %s %s)", gallina.N(uint64(h.CounterResetHint)), gallina.Z(int64(h.Schema)),
		gallina.N(math.Float64bits(h.ZeroThreshold)), gallina.N(math.Float64bits(h.ZeroCount)), gallina.N(math.Float64bits(h.Count)), gallina.N(math.Float64bits(h.Sum)),
		pSpans(h.PositiveSpans), pSpans(h.NegativeSpans), pFloats(h.PositiveBuckets), pFloats(h.NegativeBuckets), pFloats(h.CustomValues))
}

func pHists(l []record.RefHistogramSample) string {
	it := make([]string, len(l))
	for i, s := range l {
		it[i] = fmt.Sprintf("mkRS %s %s %s %s", gallina.N(uint64(s.Ref)), gallina.Z(s.ST), gallina.Z(s.T), pHist(s.H))
	}
	return "(VHist " + listOf("rsample hist", it) + ")"
}

func pFHists(l []record.RefFloatHistogramSample) string {
	it := make([]string, len(l))
	for i, s := range l {
		it[i] = fmt.Sprintf("mkRS %s %s %s %s", gallina.N(uint64(s.Ref)), gallina.Z(s.ST), gallina.Z(s.T), pFHist(s.FH))
	}
	return "(VFHist " + listOf("rsample fhist", it) + ")"
}

func pErr(err error) string {
	switch {
	case strings.Contains(err.Error(), "invalid record type"):
		return "(Err EType)"
	case strings.Contains(err.Error(), "invalid size"):
		return "(Err ESize)"
	case strings.Contains(err.Error(), "bytes left in entry"):
		return "(Err ETrailing)"
	default:
		return "(Err EOther)"
	}
}

// ---------------------------------------------------------------- generators
// rare: denominator of the probability of the expensive shapes (Coq parses ~25 KB/s of case text,
// so the quick tier keeps large strings / label sets / bucket lists rare)
var rare = 60

func genRef(r *gen.Rand, prev uint64) uint64 {
	switch r.Intn(10) {
	case 0:
		return r.U64()
	case 1:
		return uint64(r.PickI64(0, 1, math.MaxInt64, math.MinInt64, -1, -2, math.MaxInt64-1, math.MinInt64+1))
	case 2:
		return prev - uint64(r.Range(1, 1000)) // negative delta (may wrap below 0)
	case 3:
		return prev
	default:
		return prev + uint64(r.Range(1, 200))
	}
}

func genT(r *gen.Rand, prev int64) int64 {
	switch r.Intn(10) {
	case 0:
		return int64(r.U64())
	case 1:
		return r.PickI64(math.MinInt64, math.MaxInt64, 0, -1, 1, math.MinInt64+1, math.MaxInt64-1)
	case 2:
		return prev - r.Range(1, 100000)
	case 3:
		return prev
	default:
		return prev + r.Range(1, 60000)
	}
}

// ST patterns: 0 none, 1 repeated, 2 explicit, 3 mixed, 4 extremes
func genST(r *gen.Rand, pattern int, prevST, firstST, t int64) int64 {
	switch pattern {
	case 0:
		return 0
	case 1:
		if prevST != 0 {
			return prevST
		}
		return t - 1000
	case 2:
		return t - r.Range(1, 100000)
	case 4:
		return r.PickI64(math.MinInt64, math.MaxInt64, 0, prevST, firstST, int64(r.U64()), -1, 1)
	default:
		switch r.Intn(4) {
		case 0:
			return 0
		case 1:
			return prevST
		case 2:
			return firstST
		default:
			return t - r.Range(0, 5000)
		}
	}
}

func genFloat(r *gen.Rand) float64 {
	switch r.Intn(8) {
	case 0:
		return math.Float64frombits(r.U64())
	case 1: // NaN with random payload (quiet and signalling)
		return math.Float64frombits(0x7FF0000000000000 | (r.U64() & 0x000FFFFFFFFFFFFF) | 1 | uint64(r.Intn(2))<<63)
	case 2:
		return gen.Pick(r, []float64{0, math.Copysign(0, -1), math.Inf(1), math.Inf(-1), math.MaxFloat64, math.SmallestNonzeroFloat64,
			math.Float64frombits(0x7ff0000000000002) /* stale NaN */, math.Float64frombits(0x7ff8000000000001)})
	default:
		return float64(r.Range(-1000000, 1000000)) / 64
	}
}

func genStr(r *gen.Rand, allowEmpty bool) string {
	n := int(r.Range(1, 8))
	switch {
	case r.Chance(1, 12):
		if allowEmpty {
			n = 0
		}
	case r.Chance(1, rare):
		n = int(r.Range(120, 135)) // around the 1-/2-byte uvarint length boundary
	case rare < 20 && r.Chance(1, 10*rare):
		n = int(r.Range(300, 2100)) // long strings (a 16 KiB list literal overflows coqc's stack, so the 2-/3-byte length boundary is left to the proofs)
	}
	b := make([]byte, n)
	raw := r.Chance(1, 5)
	for i := range b {
		if raw {
			b[i] = byte(r.Intn(256)) // arbitrary bytes incl. 0x00, 0xff, invalid UTF-8
		} else {
			b[i] = "abcdefghijklmnopqrstuvwxyz_0123456789"[r.Intn(37)]
		}
	}
	return string(b)
}

func genLabels(r *gen.Rand) labels.Labels {
	n := int(r.Range(1, 5))
	big := false
	switch {
	case r.Chance(1, 10):
		n = 0
	case r.Chance(1, rare):
		n, big = int(r.Range(125, 131)), true // large label sets (count crosses the 1-byte uvarint)
	}
	b := labels.NewScratchBuilder(n)
	for i := 0; i < n; i++ {
		if big {
			b.Add(fmt.Sprintf("l%d", i), string(rune('a'+r.Intn(26))))
		} else {
			b.Add(genStr(r, true), genStr(r, true))
		}
	}
	if !r.Chance(1, 6) { // mostly sorted (valid) sets, sometimes in insertion order
		b.Sort()
	}
	return b.Labels()
}

func genSpans(r *gen.Rand) []histogram.Span {
	n := r.Intn(4)
	if r.Chance(1, 2*rare) {
		n = int(r.Range(125, 131))
	}
	var s []histogram.Span
	for i := 0; i < n; i++ {
		sp := histogram.Span{Offset: int32(r.Range(-20, 20)), Length: uint32(r.Range(0, 10))}
		switch r.Intn(12) {
		case 0:
			sp.Offset = int32(r.PickI64(math.MinInt32, math.MaxInt32))
		case 1:
			sp.Length = uint32(r.PickI64(math.MaxUint32, math.MaxInt32, 1<<31))
		}
		s = append(s, sp)
	}
	return s
}

func genI64s(r *gen.Rand) []int64 {
	n := r.Intn(6)
	if r.Chance(1, 2*rare) {
		n = int(r.Range(125, 131))
	}
	var s []int64
	for i := 0; i < n; i++ {
		if r.Chance(1, 8) {
			s = append(s, r.PickI64(math.MinInt64, math.MaxInt64, int64(r.U64())))
		} else {
			s = append(s, r.Range(-500, 500))
		}
	}
	return s
}

func genFloats(r *gen.Rand) []float64 {
	n := r.Intn(6)
	var s []float64
	for i := 0; i < n; i++ {
		s = append(s, genFloat(r))
	}
	return s
}

// schema classes: exponential supported, custom, reserved-known (-9..-5), unknown (dropped by the decoder)
func genSchema(r *gen.Rand, customBias int) (int32, string) {
	switch x := r.Intn(20); {
	case x < customBias:
		return histogram.CustomBucketsSchema, "custom"
	case x == 18:
		return int32(r.Range(-9, -5)), "reserved"
	case x == 19:
		return int32(r.PickI64(-10, 53, 100, -54, -52, math.MaxInt32, math.MinInt32)), "unknown"
	default:
		return int32(r.Range(-4, 8)), "exp"
	}
}

func genHist(r *gen.Rand, customBias int) (*histogram.Histogram, string) {
	sc, cl := genSchema(r, customBias)
	h := &histogram.Histogram{
		CounterResetHint: histogram.CounterResetHint(r.Intn(4)),
		Schema:           sc,
		ZeroThreshold:    genFloat(r),
		ZeroCount:        uint64(r.Range(0, 1000)),
		Count:            uint64(r.Range(0, 100000)),
		Sum:              genFloat(r),
		PositiveSpans:    genSpans(r),
		NegativeSpans:    genSpans(r),
		PositiveBuckets:  genI64s(r),
		NegativeBuckets:  genI64s(r),
	}
	if r.Chance(1, 8) {
		h.ZeroCount, h.Count = r.U64(), uint64(r.PickI64(-1, math.MaxInt64, math.MinInt64))
	}
	if r.Chance(1, 20) {
		h.CounterResetHint = histogram.CounterResetHint(r.Intn(256))
	}
	if cl == "custom" || r.Chance(1, 10) { // custom values on a non-custom schema are not encoded
		h.CustomValues = genFloats(r)
	}
	return h, cl
}

func genFHist(r *gen.Rand, customBias int) (*histogram.FloatHistogram, string) {
	sc, cl := genSchema(r, customBias)
	h := &histogram.FloatHistogram{
		CounterResetHint: histogram.CounterResetHint(r.Intn(4)),
		Schema:           sc,
		ZeroThreshold:    genFloat(r),
		ZeroCount:        genFloat(r),
		Count:            genFloat(r),
		Sum:              genFloat(r),
		PositiveSpans:    genSpans(r),
		NegativeSpans:    genSpans(r),
		PositiveBuckets:  genFloats(r),
		NegativeBuckets:  genFloats(r),
	}
	if cl == "custom" || r.Chance(1, 10) {
		h.CustomValues = genFloats(r)
	}
	return h, cl
}

func batchLen(r *gen.Rand, kind string) int {
	switch r.Intn(12) {
	case 0:
		return 0
	case 1:
		return 1
	case 2:
		if r.Chance(4, rare) {
			switch kind {
			case "KSamplesV1", "KSamplesV2", "KStones", "KMmap":
				return int(r.Range(100, 200))
			}
			return int(r.Range(20, 40))
		}
		return int(r.Range(8, 14))
	default:
		return int(r.Range(2, 7))
	}
}

// ---------------------------------------------------------------- main
var kinds = []string{"KSeries", "KSamplesV1", "KSamplesV2", "KStones", "KExemplars", "KMetadata", "KMmap",
	"KHistV1", "KHistV2", "KCBHistV1", "KCBHistV2", "KFHistV1", "KFHistV2", "KCBFHistV1", "KCBFHistV2"}

type recd struct {
	kind  string
	val   string // Gallina value (or "")
	n     int
	bytes []byte
	left  string
	note  string
}

func emptyOf(kind string) string {
	switch {
	case kind == "KSeries":
		return "(VSeries [])"
	case strings.HasPrefix(kind, "KSamples"):
		return "(VSamples [])"
	case kind == "KStones":
		return "(VStones [])"
	case kind == "KExemplars":
		return "(VExemplars [])"
	case kind == "KMetadata":
		return "(VMetadata [])"
	case kind == "KMmap":
		return "(VMmap [])"
	case strings.HasPrefix(kind, "KHist"), strings.HasPrefix(kind, "KCBHist"):
		return "(VHist [])"
	default:
		return "(VFHist [])"
	}
}

// decode runs the public Decoder method of the record family on b (empty destination slice).
func decode(kind string, b []byte) (obs string, short string) {
	defer func() {
		if p := recover(); p != nil {
			obs, short = "(Err EPanic)", "panic"
		}
	}()
	dec := record.NewDecoder(labels.NewSymbolTable(), slog.New(slog.NewTextHandler(io.Discard, nil)))
	var err error
	switch {
	case kind == "KSeries":
		var o []record.RefSeries
		if o, err = dec.Series(b, nil); err == nil {
			return "(Ok " + pSeries(o) + ")", fmt.Sprintf("ok/%d", len(o))
		}
	case strings.HasPrefix(kind, "KSamples"):
		var o []record.RefSample
		if o, err = dec.Samples(b, nil); err == nil {
			return "(Ok " + pSamples(o) + ")", fmt.Sprintf("ok/%d", len(o))
		}
	case kind == "KStones":
		var o []tombstones.Stone
		if o, err = dec.Tombstones(b, nil); err == nil {
			return "(Ok " + pStones(o) + ")", fmt.Sprintf("ok/%d", len(o))
		}
	case kind == "KExemplars":
		var o []record.RefExemplar
		if o, err = dec.Exemplars(b, nil); err == nil {
			return "(Ok " + pExemplars(o) + ")", fmt.Sprintf("ok/%d", len(o))
		}
	case kind == "KMetadata":
		var o []record.RefMetadata
		if o, err = dec.Metadata(b, nil); err == nil {
			return "(Ok " + pMetadata(o) + ")", fmt.Sprintf("ok/%d", len(o))
		}
	case kind == "KMmap":
		var o []record.RefMmapMarker
		if o, err = dec.MmapMarkers(b, nil); err == nil {
			return "(Ok " + pMmap(o) + ")", fmt.Sprintf("ok/%d", len(o))
		}
	case strings.HasPrefix(kind, "KHist"), strings.HasPrefix(kind, "KCBHist"):
		var o []record.RefHistogramSample
		if o, err = dec.HistogramSamples(b, nil); err == nil {
			return "(Ok " + pHists(o) + ")", fmt.Sprintf("ok/%d", len(o))
		}
	default:
		var o []record.RefFloatHistogramSample
		if o, err = dec.FloatHistogramSamples(b, nil); err == nil {
			return "(Ok " + pFHists(o) + ")", fmt.Sprintf("ok/%d", len(o))
		}
	}
	return pErr(err), "err:" + err.Error()
}

// build generates one value of the kind and encodes it with the real Encoder.
func build(kind string, r *gen.Rand, tier string, meta *gallina.Meta) recd {
	n := batchLen(r, kind)
	out := recd{kind: kind, n: n, left: emptyOf(kind)}
	encV1, encV2 := record.Encoder{}, record.Encoder{EnableSTStorage: true}
	pickEnc := func(v2 bool) *record.Encoder {
		if v2 {
			return &encV2
		}
		return &encV1
	}
	var ref uint64 = uint64(r.Range(0, 100000))
	t := r.Range(1600000000000, 1700000000000)
	if r.Chance(1, 10) {
		ref, t = r.U64(), int64(r.U64())
	}
	switch kind {
	case "KSeries":
		var l []record.RefSeries
		for i := 0; i < n; i++ {
			ref = genRef(r, ref)
			l = append(l, record.RefSeries{Ref: chunks.HeadSeriesRef(ref), Labels: genLabels(r)})
		}
		out.val, out.bytes = pSeries(l), encV1.Series(l, nil)
	case "KSamplesV1", "KSamplesV2":
		var l []record.RefSample
		pattern := r.Intn(5)
		out.note = fmt.Sprintf("st-pattern-%d", pattern)
		meta.Hit("samples-" + out.note)
		var prevST, firstST int64
		for i := 0; i < n; i++ {
			ref, t = genRef(r, ref), genT(r, t)
			st := genST(r, pattern, prevST, firstST, t)
			if i == 0 {
				firstST = st
			}
			prevST = st
			l = append(l, record.RefSample{Ref: chunks.HeadSeriesRef(ref), ST: st, T: t, V: genFloat(r)})
		}
		out.val, out.bytes = pSamples(l), pickEnc(kind == "KSamplesV2").Samples(l, nil)
	case "KStones":
		var l []tombstones.Stone
		for i := 0; i < n; i++ {
			ref = genRef(r, ref)
			k := r.Intn(4) // 0 intervals: the stone vanishes from the record
			var ivs tombstones.Intervals
			for j := 0; j < k; j++ {
				a := genT(r, t)
				ivs = append(ivs, tombstones.Interval{Mint: a, Maxt: genT(r, a)})
			}
			l = append(l, tombstones.Stone{Ref: storage.SeriesRef(ref), Intervals: ivs})
		}
		out.val, out.bytes = pStones(l), encV1.Tombstones(l, nil)
	case "KExemplars":
		var l []record.RefExemplar
		for i := 0; i < n; i++ {
			ref, t = genRef(r, ref), genT(r, t)
			l = append(l, record.RefExemplar{Ref: chunks.HeadSeriesRef(ref), T: t, V: genFloat(r), Labels: genLabels(r)})
		}
		out.val, out.bytes = pExemplars(l), encV1.Exemplars(l, nil)
	case "KMetadata":
		var l []record.RefMetadata
		for i := 0; i < n; i++ {
			ref = genRef(r, ref)
			m := record.RefMetadata{Ref: chunks.HeadSeriesRef(ref), Type: uint8(r.Intn(8)), Unit: genStr(r, true), Help: genStr(r, true)}
			if r.Chance(1, 10) {
				m.Type = uint8(r.Intn(256))
			}
			if r.Chance(1, 20) {
				m.Unit, m.Help = "HELP", "UNIT" // field values that look like field names
			}
			l = append(l, m)
		}
		out.val, out.bytes = pMetadata(l), encV1.Metadata(l, nil)
	case "KMmap":
		var l []record.RefMmapMarker
		for i := 0; i < n; i++ {
			ref = genRef(r, ref)
			l = append(l, record.RefMmapMarker{Ref: chunks.HeadSeriesRef(ref), MmapRef: chunks.ChunkDiskMapperRef(r.U64())})
		}
		out.val, out.bytes = pMmap(l), encV1.MmapMarkers(l, nil)
	case "KHistV1", "KHistV2", "KCBHistV1", "KCBHistV2":
		var l []record.RefHistogramSample
		bias := []int{0, 3, 9, 18}[r.Intn(4)] // none / few / half / all custom-bucket
		if strings.HasPrefix(kind, "KCB") {
			bias = 18
		}
		pattern := r.Intn(5)
		var prevST, firstST int64
		nc := 0
		for i := 0; i < n; i++ {
			ref, t = genRef(r, ref), genT(r, t)
			st := genST(r, pattern, prevST, firstST, t)
			if i == 0 {
				firstST = st
			}
			prevST = st
			h, cl := genHist(r, bias)
			meta.Hit("hist-schema-" + cl)
			if cl == "custom" {
				nc++
			}
			l = append(l, record.RefHistogramSample{Ref: chunks.HeadSeriesRef(ref), ST: st, T: t, H: h})
		}
		out.note = splitClass(n, nc)
		out.val = pHists(l)
		v2 := strings.HasSuffix(kind, "V2")
		if strings.HasPrefix(kind, "KCB") {
			out.bytes = pickEnc(v2).CustomBucketsHistogramSamples(l, nil)
		} else {
			var left []record.RefHistogramSample
			out.bytes, left = pickEnc(v2).HistogramSamples(l, nil)
			out.left = pHists(left)
			meta.Hit("hist-split-" + out.note)
		}
	default: // float histograms
		var l []record.RefFloatHistogramSample
		bias := []int{0, 3, 9, 18}[r.Intn(4)]
		if strings.HasPrefix(kind, "KCB") {
			bias = 18
		}
		pattern := r.Intn(5)
		var prevST, firstST int64
		nc := 0
		for i := 0; i < n; i++ {
			ref, t = genRef(r, ref), genT(r, t)
			st := genST(r, pattern, prevST, firstST, t)
			if i == 0 {
				firstST = st
			}
			prevST = st
			h, cl := genFHist(r, bias)
			meta.Hit("fhist-schema-" + cl)
			if cl == "custom" {
				nc++
			}
			l = append(l, record.RefFloatHistogramSample{Ref: chunks.HeadSeriesRef(ref), ST: st, T: t, FH: h})
		}
		out.note = splitClass(n, nc)
		out.val = pFHists(l)
		v2 := strings.HasSuffix(kind, "V2")
		if strings.HasPrefix(kind, "KCB") {
			out.bytes = pickEnc(v2).CustomBucketsFloatHistogramSamples(l, nil)
		} else {
			var left []record.RefFloatHistogramSample
			out.bytes, left = pickEnc(v2).FloatHistogramSamples(l, nil)
			out.left = pFHists(left)
			meta.Hit("fhist-split-" + out.note)
		}
	}
	return out
}

func splitClass(n, nc int) string {
	switch {
	case n == 0:
		return "empty"
	case nc == 0:
		return "all-exponential"
	case nc == n:
		return "all-custom"
	default:
		return "mixed"
	}
}

func main() {
	f := gallina.ParseFlags()
	meta := gallina.NewMeta("C14", f.Seed, f.Tier)
	meta.Rule = "per record family a seeded stream of batches (0, 1, few, many elements; refs with negative/large/wrapping deltas; extreme and wrapping timestamps; ST patterns none/repeated/explicit/mixed/extreme; float payloads incl. NaN payloads; empty/large/unsorted/non-UTF-8 label sets; histogram batches none/few/half/all custom-bucket, reserved and unknown schemas), each encoded by the real Encoder and decoded by the real Decoder; plus truncated / extended / wrong-type / garbage byte strings through the real Decoder. non-trivial = round-trip case with at least 2 elements, or a mutated byte string; distinct by (kind, bytes)"
	perShard := 180
	if f.Tier == "thorough" {
		perShard = 600
	}
	cf := &gallina.CaseFile{Dir: f.Out, Type: "case", PerShard: perShard,
		Preamble: "From Coq Require Import List NArith ZArith.\nFrom Verif Require Import lib.Int64 lib.Bytes lib.Varint model.Record corr.CorrC14.\nImport ListNotations.\nOpen Scope N_scope.\n",
		Footer:   gallina.StdFooter}
	id := 0
	seen := map[string]bool{}
	emit := func(rc recd, index int) {
		key := rc.kind + "|" + string(rc.bytes) + "|" + rc.val
		if seen[key] {
			return
		}
		seen[key] = true
		obs, short := decode(rc.kind, rc.bytes)
		val := "None"
		shape := "raw-" + rc.kind
		if rc.val != "" {
			val = gallina.Some(rc.val)
			shape = "roundtrip-" + rc.kind
			meta.Hit("roundtrip-" + rc.kind)
			if rc.n >= 2 {
				meta.Nontrivial++
			}
		} else {
			meta.Hit("raw-" + rc.kind + "-" + strings.SplitN(short, ":", 2)[0][:2])
			meta.Nontrivial++
		}
		if len(short) > 60 {
			short = short[:60]
		}
		cf.Add(fmt.Sprintf("mkCase %s %s %s %s %s %s", gallina.Z(int64(id)), rc.kind, val, gallina.Bytes(rc.bytes), rc.left, obs))
		meta.Case(id, desc{Kind: rc.kind, N: rc.n, Bytes: len(rc.bytes), Obs: short, Shape: shape, Note: rc.note, Seed: f.Seed, Index: index})
		meta.Evaluations++
		id++
	}

	if f.Tier == "thorough" {
		rare = 12
	}
	perKind := f.Count(55, 300)
	idx := 0
	for i := 0; i < perKind; i++ { // kinds interleaved so that the shards are balanced
		for _, k := range kinds {
			r := gen.Fork(f.Seed, idx)
			rc := build(k, r, f.Tier, meta)
			emit(rc, idx)
			idx++
			// mutated byte strings derived from this record (decoder-only cases)
			if len(rc.bytes) == 0 || !r.Chance(1, 2) {
				continue
			}
			b := rc.bytes
			switch r.Intn(4) {
			case 0, 1: // truncation at a random point (parse alignment is unchanged, so counts stay those of the original)
				cut := r.Intn(len(b))
				emit(recd{kind: k, bytes: append([]byte{}, b[:cut]...), left: emptyOf(k), note: "truncated"}, idx)
			case 2: // trailing bytes (< 0x80 each: any count read from them is < 128)
				ext := append([]byte{}, b...)
				for j, m := 0, 1+r.Intn(12); j < m; j++ {
					ext = append(ext, byte(r.Intn(128)))
				}
				emit(recd{kind: k, bytes: ext, left: emptyOf(k), note: "extended"}, idx)
			default: // wrong type byte
				w := append([]byte{}, b...)
				w[0] = byte(r.Intn(16))
				// a histogram record re-read under another *accepted* type is parsed misaligned and
				// may read a huge element count (allocation blow-up in DecodeHistogram): use a
				// type the family rejects instead
				if strings.Contains(k, "Hist") && (w[0] >= 7 && w[0] <= 10 || w[0] == 12 || w[0] == 13) {
					w[0] = byte(r.Intn(7))
				}
				emit(recd{kind: k, bytes: w, left: emptyOf(k), note: "retyped"}, idx)
			}
		}
	}
	// garbage through the decoders that read no element counts (no allocation/loop blow-up possible)
	ng := f.Count(200, 2500)
	for i := 0; i < ng; i++ {
		r := gen.Fork(f.Seed, idx)
		k := gen.Pick(r, []string{"KSamplesV1", "KSamplesV2", "KStones", "KMmap"})
		n := r.Intn(40)
		b := make([]byte, n)
		for j := range b {
			if r.Chance(1, 3) {
				b[j] = byte(r.Intn(4))
			} else {
				b[j] = byte(r.Intn(256))
			}
		}
		if n > 0 && r.Chance(3, 4) {
			b[0] = map[string]byte{"KSamplesV1": 2, "KSamplesV2": 11, "KStones": 3, "KMmap": 5}[k]
		}
		emit(recd{kind: k, bytes: b, left: emptyOf(k), note: "garbage"}, idx)
		idx++
	}
	cf.Flush()
	meta.Write(f.Out)
}

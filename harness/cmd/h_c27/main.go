// h_c27: correspondence harness for C27 (a range query equals instant queries at each step).
//
// For every case it builds one data set (float series m and probe series p with irregular
// spacing, gaps and staleness markers; native-histogram series h), serves it to the REAL
// promql.Engine from an in-memory storage.Queryable, and runs
//   - probe queries over p (sample i has the value 2^i, so sum_over_time is the exact membership
//     mask of a window): each as one range query and as one instant query per step;
//   - generated type-correct queries (selectors, range functions, aggregations, binary operators,
//     offsets, @ with fixed times, subqueries): range query vs instant query per step;
//   - offset-shift pairs: the query with `offset d` at t vs the query without it at t - d.
// Inputs and observed outputs are written as Gallina terms; Coq decides agree and holds.
package main

import (
	"context"
	"fmt"
	"hash/fnv"
	"math"
	"sort"
	"strings"
	"time"

	"github.com/prometheus/prometheus/model/histogram"
	"github.com/prometheus/prometheus/model/labels"
	"github.com/prometheus/prometheus/model/value"
	"github.com/prometheus/prometheus/promql"
	"github.com/prometheus/prometheus/promql/parser"
	"github.com/prometheus/prometheus/storage"
	"github.com/prometheus/prometheus/tsdb/chunkenc"
	"github.com/prometheus/prometheus/tsdb/chunks"
	"github.com/prometheus/prometheus/util/annotations"

	"verif/harness/internal/gallina"
	"verif/harness/internal/gen"
)

// ---- in-memory storage -----------------------------------------------------------------------

type smp struct {
	t  int64
	f  float64
	fh *histogram.FloatHistogram
}

func (s smp) T() int64                { return s.t }
func (s smp) ST() int64               { return 0 }
func (s smp) F() float64              { return s.f }
func (smp) H() *histogram.Histogram   { return nil }
func (s smp) FH() *histogram.FloatHistogram {
	if s.fh == nil {
		return nil
	}
	return s.fh.Copy()
}
func (s smp) Type() chunkenc.ValueType {
	if s.fh != nil {
		return chunkenc.ValFloatHistogram
	}
	return chunkenc.ValFloat
}
func (s smp) Copy() chunks.Sample { return s }

type mseries struct {
	lbls labels.Labels
	smps []chunks.Sample
}

type listSet struct {
	l []storage.Series
	i int
}

func (s *listSet) Next() bool                       { s.i++; return s.i <= len(s.l) }
func (s *listSet) At() storage.Series               { return s.l[s.i-1] }
func (*listSet) Err() error                         { return nil }
func (*listSet) Warnings() annotations.Annotations { return nil }

func queryable(all []mseries) storage.Queryable {
	sort.Slice(all, func(i, j int) bool { return labels.Compare(all[i].lbls, all[j].lbls) < 0 })
	return &storage.MockQueryable{MockQuerier: &storage.MockQuerier{
		SelectMockFunction: func(_ bool, _ *storage.SelectHints, ms ...*labels.Matcher) storage.SeriesSet {
			var out []storage.Series
			for _, s := range all {
				ok := true
				for _, m := range ms {
					if !m.Matches(s.lbls.Get(m.Name)) {
						ok = false
						break
					}
				}
				if ok {
					out = append(out, storage.NewListSeries(s.lbls, s.smps))
				}
			}
			return &listSet{l: out}
		}}}
}

// ---- the engine --------------------------------------------------------------------------------

func newEngine(lookback int64) *promql.Engine {
	return promql.NewEngine(promql.EngineOpts{
		MaxSamples:               5000000,
		Timeout:                  100 * time.Second,
		NoStepSubqueryIntervalFn: func(int64) int64 { return 7000 },
		EnableAtModifier:         true,
		EnableNegativeOffset:     true,
		LookbackDelta:            time.Duration(lookback) * time.Millisecond,
		Parser:                   parser.NewParser(parser.Options{EnableExperimentalFunctions: true, EnableExtendedRangeSelectors: true}),
	})
}

// one observed sample of a result vector
type osmp struct {
	key  string
	hist bool
	bits uint64
}

func digest(h *histogram.FloatHistogram) uint64 {
	d := fnv.New64a()
	w := func(v uint64) {
		var b [8]byte
		for i := range b {
			b[i] = byte(v >> (8 * uint(i)))
		}
		d.Write(b[:])
	}
	wf := func(f float64) {
		if math.IsNaN(f) {
			w(0x7ff8000000000001)
			return
		}
		w(math.Float64bits(f))
	}
	w(uint64(int64(h.Schema)))
	w(uint64(h.CounterResetHint))
	wf(h.ZeroThreshold)
	wf(h.ZeroCount)
	wf(h.Count)
	wf(h.Sum)
	// bucket layout independent of how spans are cut: (index, count) of non-empty buckets
	for it := h.PositiveBucketIterator(); it.Next(); {
		b := it.At()
		if b.Count != 0 {
			w(uint64(int64(b.Index)))
			wf(b.Count)
		}
	}
	w(0xffff)
	for it := h.NegativeBucketIterator(); it.Next(); {
		b := it.At()
		if b.Count != 0 {
			w(uint64(int64(b.Index)))
			wf(b.Count)
		}
	}
	for _, c := range h.CustomValues {
		wf(c)
	}
	return d.Sum64()
}

func mk(lbls labels.Labels, f float64, h *histogram.FloatHistogram) osmp {
	if h != nil {
		return osmp{key: lbls.String(), hist: true, bits: digest(h)}
	}
	return osmp{key: lbls.String(), bits: math.Float64bits(f)}
}

func sortVec(v []osmp) []osmp {
	sort.SliceStable(v, func(i, j int) bool { return v[i].key < v[j].key })
	return v
}

func runInstant(ng *promql.Engine, q storage.Queryable, expr string, ts int64) (v []osmp, err error) {
	defer func() {
		if r := recover(); r != nil {
			err = fmt.Errorf("panic: %v", r)
		}
	}()
	qry, err := ng.NewInstantQuery(context.Background(), q, nil, expr, time.UnixMilli(ts))
	if err != nil {
		return nil, fmt.Errorf("parse: %w", err)
	}
	defer qry.Close()
	res := qry.Exec(context.Background())
	if res.Err != nil {
		return nil, res.Err
	}
	switch r := res.Value.(type) {
	case promql.Vector:
		for _, s := range r {
			if s.T != ts {
				return nil, fmt.Errorf("instant sample at %d, query time %d", s.T, ts)
			}
			v = append(v, mk(s.Metric, s.F, s.H))
		}
	case promql.Scalar:
		v = append(v, mk(labels.EmptyLabels(), r.V, nil))
	default:
		return nil, fmt.Errorf("unexpected instant result type %T", res.Value)
	}
	return sortVec(v), nil
}

func runRange(ng *promql.Engine, q storage.Queryable, expr string, start, step int64, n int) (out [][]osmp, err error) {
	defer func() {
		if r := recover(); r != nil {
			err = fmt.Errorf("panic: %v", r)
		}
	}()
	end := start + int64(n-1)*step
	qry, err := ng.NewRangeQuery(context.Background(), q, nil, expr, time.UnixMilli(start), time.UnixMilli(end), time.Duration(step)*time.Millisecond)
	if err != nil {
		return nil, fmt.Errorf("parse: %w", err)
	}
	defer qry.Close()
	res := qry.Exec(context.Background())
	if res.Err != nil {
		return nil, res.Err
	}
	mat, err := res.Matrix()
	if err != nil {
		return nil, err
	}
	out = make([][]osmp, n)
	put := func(l labels.Labels, t int64, f float64, h *histogram.FloatHistogram) error {
		if t < start || (t-start)%step != 0 || (t-start)/step >= int64(n) {
			return fmt.Errorf("range output at %d is not a step of [%d,%d] step %d", t, start, end, step)
		}
		k := (t - start) / step
		out[k] = append(out[k], mk(l, f, h))
		return nil
	}
	for _, s := range mat {
		for _, p := range s.Floats {
			if err := put(s.Metric, p.T, p.F, nil); err != nil {
				return nil, err
			}
		}
		for _, p := range s.Histograms {
			if err := put(s.Metric, p.T, 0, p.H); err != nil {
				return nil, err
			}
		}
	}
	for k := range out {
		sortVec(out[k])
	}
	return out, nil
}

// ---- data generation ------------------------------------------------------------------------------

type pseries struct {
	s, g  string
	ts    []int64
	stale []bool
	vals  []float64 // values of m
}

type tcase struct {
	lookback        int64
	ser             []pseries
	hser            []mseries
	iv              int64 // typical scrape interval
	start, step     int64
	n               int
	t0, t1          int64 // data time span
	corpus          string
	extR            int64    // > 0: extended-range-selector case, the range its step was chosen against
	extra           []string // fixed additional range-vs-instant queries (corpus)
	split           []int // per series: index where info{version} changes from "1" to "2" (-1: constant)
}

var lookbacks = []int64{300000, 60000, 20000}
var scrapes = []int64{1000, 5000, 15000, 60000, 7000}

func genTimes(r *gen.Rand, t0, iv int64, n int, lookback int64) ([]int64, []bool) {
	ts := make([]int64, 0, n)
	st := make([]bool, 0, n)
	t := t0
	mode := r.Intn(3)
	for i := 0; i < n; i++ {
		ts = append(ts, t)
		st = append(st, r.Chance(1, 7))
		switch mode {
		case 0: // regular with missed scrapes
			t += iv
			if r.Chance(1, 8) {
				t += iv * r.Range(1, 4)
			}
		case 1: // jittered
			t += iv + r.Range(-iv/3, iv/3)
		default: // fully irregular
			t += r.Range(1, 2*iv)
		}
		if r.Chance(1, 12) { // a gap around the lookback delta
			t += lookback + r.Range(-2, 2)
		}
		if r.Chance(1, 25) {
			t += 3 * lookback
		}
	}
	return ts, st
}

func genVals(r *gen.Rand, n int) []float64 {
	v := make([]float64, n)
	kind := r.Intn(6)
	cur := float64(r.Range(0, 50))
	for i := range v {
		switch kind {
		case 0, 1: // counter with resets
			if r.Chance(1, 6) {
				cur = float64(r.Range(0, 5))
			} else {
				cur += float64(r.Range(0, 20))
			}
		case 2: // gauge
			cur += float64(r.Range(-30, 30)) / 4
		case 3: // constant-ish
			if r.Chance(1, 5) {
				cur += 1
			}
		case 4: // inexact values
			cur = cur*1.1 + 0.3
		default: // specials
			switch r.Intn(8) {
			case 0:
				cur = math.NaN()
			case 1:
				cur = math.Inf(1)
			case 2:
				cur = math.Inf(-1)
			case 3:
				cur = 0
			case 4:
				cur = math.Copysign(0, -1)
			default:
				cur = float64(r.Range(-100, 100)) / 8
			}
		}
		v[i] = cur
	}
	return v
}

func genHist(r *gen.Rand, prev *histogram.FloatHistogram) *histogram.FloatHistogram {
	if prev == nil || r.Chance(1, 8) {
		h := &histogram.FloatHistogram{Schema: int32(r.Range(0, 1)), ZeroThreshold: 0.001,
			PositiveSpans: []histogram.Span{{Offset: int32(r.Range(0, 2)), Length: 2}, {Offset: 1, Length: 1}},
			PositiveBuckets: []float64{float64(r.Range(0, 5)), float64(r.Range(1, 5)), float64(r.Range(0, 3))}}
		h.ZeroCount = float64(r.Range(0, 2))
		h.Count = h.ZeroCount + h.PositiveBuckets[0] + h.PositiveBuckets[1] + h.PositiveBuckets[2]
		h.Sum = float64(r.Range(0, 100)) / 2
		return h
	}
	h := prev.Copy()
	for i := range h.PositiveBuckets {
		d := float64(r.Range(0, 4))
		h.PositiveBuckets[i] += d
		h.Count += d
	}
	h.Sum += float64(r.Range(0, 40)) / 2
	return h
}

func genCase(r *gen.Rand) tcase {
	c := tcase{lookback: gen.Pick(r, lookbacks), iv: gen.Pick(r, scrapes)}
	ext := r.Chance(1, 4) // extended-range-selector stream (smoothed / anchored)
	if ext {
		c.lookback = r.PickI64(20000, 60000, 20000)
	}
	k := 1 + r.Intn(3)
	t0 := r.Range(400000, 2000000)
	c.t0, c.t1 = t0, t0
	names := []string{"a", "b", "c"}
	for i := 0; i < k; i++ {
		n := r.Intn(22)
		if r.Chance(1, 12) {
			n = r.Intn(2)
		}
		if ext {
			n = 12 + r.Intn(28)
		}
		ts, st := genTimes(r, t0+r.Range(0, c.iv), c.iv, n, c.lookback)
		g := "x"
		if i == 2 || (i == 1 && r.Bool()) {
			g = "y"
		}
		c.ser = append(c.ser, pseries{s: names[i], g: g, ts: ts, stale: st, vals: genVals(r, n)})
		if n > 0 && ts[n-1] > c.t1 {
			c.t1 = ts[n-1]
		}
	}
	// info-style series info{s, version}: version "1" up to sample split-1, a staleness marker at
	// sample split, version "2" from sample split on (the copied label changes within the data)
	for _, s := range c.ser {
		sp := -1
		if len(s.ts) >= 2 && !r.Chance(1, 4) {
			sp = int(r.Range(1, int64(len(s.ts)-1)))
		}
		c.split = append(c.split, sp)
	}
	// histogram series (sometimes with a few float samples mixed in)
	nh := r.Intn(3)
	for i := 0; i < nh; i++ {
		n := r.Intn(14)
		ts, st := genTimes(r, t0+r.Range(0, c.iv), c.iv, n, c.lookback)
		var l []chunks.Sample
		var prev *histogram.FloatHistogram
		mixed := r.Chance(1, 4)
		for j := range ts {
			switch {
			case st[j] && (!mixed || r.Bool()):
				l = append(l, smp{t: ts[j], fh: &histogram.FloatHistogram{Sum: math.Float64frombits(value.StaleNaN)}})
			case st[j]:
				l = append(l, smp{t: ts[j], f: math.Float64frombits(value.StaleNaN)})
			case mixed && r.Chance(1, 3):
				l = append(l, smp{t: ts[j], f: float64(r.Range(0, 9))})
			default:
				prev = genHist(r, prev)
				l = append(l, smp{t: ts[j], fh: prev})
			}
		}
		c.hser = append(c.hser, mseries{lbls: labels.FromStrings("__name__", "h", "s", names[i], "g", "x"), smps: l})
		if n > 0 && ts[n-1] > c.t1 {
			c.t1 = ts[n-1]
		}
	}
	c.n = 1 + r.Intn(8)
	if r.Chance(1, 10) {
		c.n = 9 + r.Intn(8)
	}
	c.step = r.PickI64(c.iv, c.iv/3+1, 2*c.iv+7, 1000, 60000, c.iv*4, c.iv-1, c.iv+1, 1, 300000, c.lookback)
	span := c.t1 - c.t0
	c.start = c.t0 + r.Range(-c.iv, span+c.iv)
	if r.Chance(1, 2) {
		c.start = c.t0 + r.Range(0, span/2+1)
	}
	if r.Chance(1, 3) {
		c.start = c.start / c.step * c.step
	}
	if r.Chance(1, 4) {
		// boundary stream: some step lands exactly on (a sample + lookback) or on a sample
		for try := 0; try < 4; try++ {
			s := c.ser[r.Intn(len(c.ser))]
			if len(s.ts) == 0 {
				continue
			}
			t := s.ts[r.Intn(len(s.ts))]
			if r.Chance(2, 3) {
				t += c.lookback
			}
			c.start = t - int64(r.Intn(c.n))*c.step
			break
		}
	}
	if ext {
		// the step relative to range + lookback (anchored buffers range+lookback, smoothed
		// range+2*lookback; ReduceDelta lowers the buffer to min(that, step) after the first step)
		c.extR = r.PickI64(c.iv, 2*c.iv, 5*c.iv+1, 1000, 3*c.iv)
		base := c.extR + c.lookback
		c.step = r.PickI64(base-1, base, base+1, base+c.lookback+1, base+c.lookback, base+c.lookback-1, 3*base, c.extR, c.extR/2+1, base+c.lookback/2)
		c.n = 2 + r.Intn(6)
		c.start = c.t0 + r.Range(0, 3*c.iv+c.extR)
	}
	if c.start < 1 {
		c.start = 1
	}
	return c
}

func (c *tcase) storage() storage.Queryable {
	var all []mseries
	for i, s := range c.ser {
		var lm, lp []chunks.Sample
		for j, t := range s.ts {
			if s.stale[j] {
				lm = append(lm, smp{t: t, f: math.Float64frombits(value.StaleNaN)})
				lp = append(lp, smp{t: t, f: math.Float64frombits(value.StaleNaN)})
			} else {
				lm = append(lm, smp{t: t, f: s.vals[j]})
				lp = append(lp, smp{t: t, f: float64(uint64(1) << uint(j))})
			}
		}
		all = append(all, mseries{lbls: labels.FromStrings("__name__", "m", "s", s.s, "g", s.g), smps: lm})
		all = append(all, mseries{lbls: labels.FromStrings("__name__", "p", "s", s.s, "g", s.g), smps: lp})
		sp := -1
		if i < len(c.split) {
			sp = c.split[i]
		}
		var v1, v2 []chunks.Sample
		for j, t := range s.ts {
			switch {
			case sp < 0 || j < sp:
				v1 = append(v1, smp{t: t, f: 1})
			case j == sp:
				v1 = append(v1, smp{t: t, f: math.Float64frombits(value.StaleNaN)})
				v2 = append(v2, smp{t: t, f: 1})
			default:
				v2 = append(v2, smp{t: t, f: 1})
			}
		}
		if len(v1) > 0 {
			all = append(all, mseries{lbls: labels.FromStrings("__name__", "info", "s", s.s, "version", "1"), smps: v1})
		}
		if len(v2) > 0 {
			all = append(all, mseries{lbls: labels.FromStrings("__name__", "info", "s", s.s, "version", "2"), smps: v2})
		}
	}
	all = append(all, c.hser...)
	return queryable(all)
}

// ---- query generation -------------------------------------------------------------------------------

func dur(ms int64) string {
	if ms < 0 {
		return fmt.Sprintf("-%dms", -ms)
	}
	return fmt.Sprintf("%dms", ms)
}

type qgen struct {
	r     *gen.Rand
	c     *tcase
	shift bool // offset-shift mode: no offsets/@/time(); the marker § at every outermost selector/subquery
	inSub int
}

func (g *qgen) someRange() int64 {
	c := g.c
	v := g.r.PickI64(2*c.iv, 5*c.iv+1, 1000, 60000, 300000, c.step, c.step-1, c.step+1, 3*c.step, c.iv, c.iv/2+1, 20*c.iv)
	if v < 1 {
		v = 1
	}
	return v
}

func (g *qgen) someOffset() int64 {
	return g.r.PickI64(1000, 12345, 60000, -5000, g.c.iv, -g.c.iv, g.c.step, 1, g.c.lookback)
}

// modifiers of a selector or subquery
func (g *qgen) mods() string {
	if g.shift {
		if g.inSub == 0 {
			return "§"
		}
		return ""
	}
	s := ""
	if g.r.Chance(1, 3) {
		s += " offset " + dur(g.someOffset())
	}
	if g.r.Chance(1, 7) {
		at := g.c.t0 + g.r.Range(0, g.c.t1-g.c.t0+g.c.iv)
		s += fmt.Sprintf(" @ %d.%03d", at/1000, at%1000)
	}
	return s
}

// many-to-one / one-to-many join with the info series: the copied label (version) of the "one"
// side changes within the data, so the result label set of a many-side series changes from
// step to step
func (g *qgen) infoJoin(depth int) string {
	r := g.r
	var many string
	switch r.Intn(4) {
	case 0:
		many = "sum by (s, g) (" + g.selector(false) + g.mods() + ")"
	case 1:
		if depth > 0 {
			a, _ := g.rv(0, false)
			many = gen.Pick(r, []string{"last_over_time", "max_over_time", "count_over_time", "rate"}) + "(" + a + ")"
			break
		}
		fallthrough
	default:
		many = g.selector(false) + g.mods()
	}
	one := "info" + g.mods()
	if r.Chance(1, 5) {
		one = "last_over_time(info[" + dur(g.someRange()) + "]" + g.mods() + ")"
	}
	op := gen.Pick(r, []string{"*", "+", "-", "/", ">=", "== bool", "*", "*"})
	incl := gen.Pick(r, []string{"(version)", "(version)", "(version)", "()"}) // (a bare group_x would swallow the parenthesised operand)
	on := " on (s) "
	if r.Chance(1, 3) {
		on = " ignoring (g, version) "
	}
	if r.Bool() {
		return "(" + one + ") " + op + on + "group_right " + incl + " (" + many + ")"
	}
	return "(" + many + ") " + op + on + "group_left " + incl + " (" + one + ")"
}

// range functions over extended range selectors: f(sel[r] <offset/@> smoothed|anchored), and the
// smoothed instant selector.  The range is taken relative to the step and the lookback delta.
func (g *qgen) extQuery() string {
	r, c := g.r, g.c
	rng := c.extR
	if rng <= 0 || r.Chance(1, 3) {
		rng = r.PickI64(c.step-c.lookback-1, c.step-c.lookback, c.step-c.lookback+1, c.step-2*c.lookback-1,
			c.step-2*c.lookback, c.step, c.step+1, c.step/3+1, 2*c.iv, 5*c.iv+1, c.iv)
		if rng < 1 {
			rng = r.PickI64(2*c.iv, c.iv, 5*c.iv+1)
		}
	}
	mod := gen.Pick(r, []string{"smoothed", "smoothed", "anchored"})
	fns := []string{"rate", "increase", "delta"}
	if mod == "anchored" {
		fns = append(fns, "resets", "changes")
	}
	if mod == "smoothed" && r.Chance(1, 8) {
		return g.selector(false) + g.mods() + " smoothed"
	}
	q := gen.Pick(r, fns) + "(" + g.selector(false) + "[" + dur(rng) + "]" + g.mods() + " " + mod + ")"
	if r.Chance(1, 5) {
		q = gen.Pick(r, []string{"sum by (g) (", "max(", "abs("}) + q + ")"
	}
	return q
}

func (g *qgen) atMod() string {
	at := g.c.t0 + g.r.Range(0, g.c.t1-g.c.t0+g.c.iv)
	return fmt.Sprintf(" @ %d.%03d", at/1000, at%1000)
}

// a scalar expression whose value changes from step to step
func (g *qgen) varyingParam(quantile bool) string {
	var p string
	switch {
	case g.shift || g.r.Chance(1, 3):
		p = "scalar(count(" + g.selector(false) + g.mods() + ") or vector(0))"
	case g.r.Bool():
		p = "(time() % 3)"
	default:
		p = "scalar(sum(count_over_time(m{s=\"a\"}[" + dur(g.someRange()) + "])) or vector(0))"
	}
	if quantile {
		return "(" + p + " / 4)"
	}
	return "(" + p + " + 1)"
}

func (g *qgen) selector(hist bool) string {
	name := "m"
	if hist {
		name = "h"
	} else if g.r.Chance(1, 6) {
		name = "p"
	}
	switch g.r.Intn(6) {
	case 0:
		return name + `{s="a"}`
	case 1:
		return name + `{s=~"a|c"}`
	case 2:
		return name + `{g="x"}`
	}
	return name
}

// range vector: matrix selector or subquery
func (g *qgen) rv(depth int, hist bool) (s string, ordered bool) {
	if depth <= 0 || g.r.Chance(2, 3) {
		return g.selector(hist) + "[" + dur(g.someRange()) + "]" + g.mods(), true
	}
	g.inSub++
	inner, ord := g.iv(depth-1, hist)
	g.inSub--
	step := ""
	if !g.r.Chance(1, 5) {
		step = dur(g.r.PickI64(g.c.iv, g.c.step, 1000, 7000, g.c.iv/2+1, 2*g.c.step+1, 60000))
	}
	rng := g.someRange()
	if step == "" || g.r.Chance(1, 2) {
		// bound the number of inner evaluations
		if lo := (rng + int64(g.c.n)*g.c.step) / 200; lo > 1000 || step != "" {
			if step == "" && lo <= 7000 {
				lo = 0
			}
			if lo > 0 {
				step = dur(lo + 1)
			}
		}
	}
	return "(" + inner + ")[" + dur(rng) + ":" + step + "]" + g.mods(), ord
}

var rangeFns = []string{"rate", "increase", "delta", "irate", "idelta", "resets", "changes", "deriv",
	"avg_over_time", "sum_over_time", "min_over_time", "max_over_time", "count_over_time", "last_over_time",
	"first_over_time", "present_over_time", "stddev_over_time", "stdvar_over_time", "absent_over_time",
	"quantile_over_time", "predict_linear", "mad_over_time", "ts_of_last_over_time", "ts_of_first_over_time",
	"ts_of_max_over_time", "ts_of_min_over_time"}
var histRangeFns = []string{"rate", "increase", "delta", "irate", "idelta", "resets", "changes",
	"avg_over_time", "sum_over_time", "count_over_time", "last_over_time", "first_over_time", "present_over_time"}
var instFns = []string{"abs", "ceil", "floor", "sqrt", "sgn", "round", "clamp_min", "clamp_max", "timestamp", "exp", "ln", "sort", "absent"}
var orderAggs = []string{"sum", "avg", "min", "max", "stddev", "stdvar", "quantile", "topk", "bottomk"}
var freeAggs = []string{"count", "group", "count_values"}
var arith = []string{"+", "-", "*", "/", "%", "^", "atan2"}
var cmps = []string{"==", "!=", ">", "<", ">=", "<="}

// instant vector; ordered = the engine produces the series in storage order in both query kinds
// (so order-sensitive float accumulations and ties are reproducible)
func (g *qgen) iv(depth int, hist bool) (s string, ordered bool) {
	r := g.r
	if depth <= 0 {
		return g.selector(hist) + g.mods(), true
	}
	switch r.Intn(10) {
	case 0:
		return g.selector(hist) + g.mods(), true
	case 1, 2, 3: // range function
		fns := rangeFns
		if hist {
			fns = histRangeFns
		}
		f := gen.Pick(r, fns)
		for g.shift && f == "predict_linear" { // a function of the evaluation time
			f = gen.Pick(r, fns)
		}
		a, ord := g.rv(depth-1, hist)
		switch f {
		case "quantile_over_time":
			return fmt.Sprintf("quantile_over_time(%s, %s)", gen.Pick(r, []string{"0.5", "0.9", "0", "1.5"}), a), ord
		case "predict_linear":
			return fmt.Sprintf("predict_linear(%s, %d)", a, r.Range(0, 100)), ord
		}
		return f + "(" + a + ")", ord
	case 4: // aggregation
		a, ord := g.iv(depth-1, hist)
		var op string
		if ord && !hist {
			op = gen.Pick(r, append(append([]string{}, orderAggs...), freeAggs...))
		} else if ord {
			op = gen.Pick(r, []string{"sum", "avg", "count", "group"})
		} else {
			op = gen.Pick(r, []string{"count", "group"})
		}
		by := gen.Pick(r, []string{"", " by (g)", " by (s)", " without (s)", " by (g, s)"})
		// aggregation parameters are expressions of their own: let them vary with the
		// evaluation time, also over @-fixed operands (PreprocessExpr must not treat the
		// aggregation as step invariant then)
		param := ""
		if (op == "quantile" || op == "topk" || op == "bottomk") && r.Chance(1, 3) {
			param = g.varyingParam(op == "quantile")
			if !g.shift && r.Bool() {
				a = g.selector(false) + g.atMod()
			}
		}
		switch op {
		case "quantile":
			if param == "" {
				param = "0.5"
			}
			return fmt.Sprintf("quantile%s (%s, %s)", by, param, a), ord
		case "topk", "bottomk":
			if param == "" {
				param = fmt.Sprint(r.Range(1, 2))
			}
			return fmt.Sprintf("%s%s (%s, %s)", op, by, param, a), false
		case "count_values":
			return fmt.Sprintf("count_values%s (\"v\", %s)", by, a), false
		}
		return op + by + " (" + a + ")", ord
	case 5: // instant function
		if hist {
			a, _ := g.iv(depth-1, true)
			switch r.Intn(4) {
			case 0:
				return "histogram_count(" + a + ")", false
			case 1:
				return "histogram_sum(" + a + ")", false
			case 2:
				return "histogram_quantile(0.9, " + a + ")", false
			}
			return "histogram_avg(" + a + ")", false
		}
		f := gen.Pick(r, instFns)
		if f == "timestamp" && (g.shift || r.Bool()) {
			// (timestamp of anything but a selector is the evaluation time)
			return "timestamp(" + g.selector(false) + g.mods() + ")", false
		}
		a, _ := g.iv(depth-1, false)
		switch f {
		case "clamp_min", "clamp_max":
			return fmt.Sprintf("%s(%s, %d)", f, a, r.Range(-5, 50)), false
		}
		return f + "(" + a + ")", false
	case 6: // vector op scalar
		a, _ := g.iv(depth-1, hist)
		sc := g.sc(depth - 1)
		if hist {
			return "(" + a + ") " + gen.Pick(r, []string{"*", "/"}) + " (" + sc + ")", false
		}
		if r.Chance(1, 3) {
			op := gen.Pick(r, cmps)
			if r.Bool() {
				op += " bool"
			}
			return "(" + a + ") " + op + " (" + sc + ")", false
		}
		if r.Bool() {
			return "(" + sc + ") " + gen.Pick(r, arith) + " (" + a + ")", false
		}
		return "(" + a + ") " + gen.Pick(r, arith) + " (" + sc + ")", false
	case 7, 8: // vector op vector
		if !hist && r.Chance(1, 3) {
			return g.infoJoin(depth - 1), false
		}
		a, _ := g.iv(depth-1, hist)
		b, _ := g.iv(depth-1, hist && r.Chance(2, 3))
		var op string
		switch r.Intn(4) {
		case 0:
			op = gen.Pick(r, []string{"and", "or", "unless"})
		case 1:
			op = gen.Pick(r, cmps)
			if r.Bool() {
				op += " bool"
			}
		default:
			op = gen.Pick(r, arith)
			if hist {
				op = gen.Pick(r, []string{"+", "-"})
			}
		}
		match := gen.Pick(r, []string{"", "", " on (s)", " on (s, g)", " ignoring (g)"})
		if strings.HasPrefix(op, "a") || strings.HasPrefix(op, "o") || strings.HasPrefix(op, "u") {
			if op != "atan2" {
				match = gen.Pick(r, []string{"", " on (s)", " on (g)"})
			}
		}
		return "(" + a + ") " + op + match + " (" + b + ")", false
	default: // unary minus / vector(scalar)
		if r.Bool() && !hist {
			return "vector(" + g.sc(depth-1) + ")", true
		}
		a, _ := g.iv(depth-1, hist)
		return "-(" + a + ")", false
	}
}

func (g *qgen) sc(depth int) string {
	r := g.r
	switch r.Intn(6) {
	case 0:
		if depth > 0 {
			a, _ := g.iv(depth-1, false)
			return "scalar(" + a + ")"
		}
	case 1:
		if !g.shift {
			return "time()"
		}
	case 2:
		if depth > 0 {
			return "(" + g.sc(depth-1) + " " + gen.Pick(r, arith) + " " + g.sc(depth-1) + ")"
		}
	}
	return gen.Pick(r, []string{"2", "0.5", "-1", "10", "0", "3", "1e3", "NaN", "Inf"})
}

// ---- printing ---------------------------------------------------------------------------------------

const bias = int64(1) << 40

func u(v int64) string {
	if v < 0 {
		panic(fmt.Sprintf("negative wire value %d", v))
	}
	return fmt.Sprint(v)
}
func ub(v int64) string { return u(v + bias) }

func lst(it []string, ty string) string {
	if len(it) == 0 {
		return "([] : list (" + ty + "))"
	}
	return "[" + strings.Join(it, "; ") + "]"
}

type keymap map[string]int

func (k keymap) of(s string) int {
	if v, ok := k[s]; ok {
		return v
	}
	k[s] = len(k)
	return k[s]
}

func vecTerm(km keymap, v []osmp) string {
	it := make([]string, 0, 4*len(v))
	for _, s := range v {
		kind := 0
		if s.hist {
			kind = 1
		}
		it = append(it, fmt.Sprint(km.of(s.key)), fmt.Sprint(kind), fmt.Sprint(s.bits>>32), fmt.Sprint(s.bits&0xffffffff))
	}
	return lst(it, "int")
}

func vecsTerm(km keymap, vs [][]osmp) string {
	it := make([]string, len(vs))
	for i, v := range vs {
		it[i] = vecTerm(km, v)
	}
	return lst(it, "list int")
}

func boolsTerm(b []bool) string {
	it := make([]string, len(b))
	for i, x := range b {
		it[i] = gallina.Bool(x)
	}
	return lst(it, "bool")
}

// ---- probes -------------------------------------------------------------------------------------------

type probe struct {
	kind                          int
	rng, sstep, off, ioff, at     int64
	expr                          string
}

func offs(off int64) string {
	if off == 0 {
		return ""
	}
	return " offset " + dur(off)
}

func ats(at int64) string { return fmt.Sprintf(" @ %d.%03d", at/1000, at%1000) }

func (p *probe) build() {
	switch p.kind {
	case 0:
		p.expr = "p" + offs(p.off)
	case 1:
		p.expr = "timestamp(p" + offs(p.off) + ")"
	case 2:
		p.expr = "sum_over_time(p[" + dur(p.rng) + "]" + offs(p.off) + ")"
	case 3:
		p.expr = "sum_over_time((p" + offs(p.ioff) + ")[" + dur(p.rng) + ":" + dur(p.sstep) + "]" + offs(p.off) + ")"
	case 4:
		p.expr = "p" + offs(p.off) + ats(p.at)
	case 5:
		p.expr = "sum_over_time(p[" + dur(p.rng) + "]" + offs(p.off) + ats(p.at) + ")"
	}
}

// per series (in the order of c.ser): 0 = absent, else the integer value
func (c *tcase) probeRow(p *probe, v []osmp) ([]int64, error) {
	row := make([]int64, len(c.ser))
	for _, s := range v {
		if s.hist {
			return nil, fmt.Errorf("histogram in probe result")
		}
		idx := -1
		for i, ps := range c.ser {
			if strings.Contains(s.key, `s="`+ps.s+`"`) {
				idx = i
			}
		}
		if idx < 0 {
			return nil, fmt.Errorf("unknown probe series %s", s.key)
		}
		f := math.Float64frombits(s.bits)
		if p.kind == 1 {
			f = math.Round(f * 1000)
		}
		if f != math.Trunc(f) || f <= 0 || f >= 1<<62 {
			return nil, fmt.Errorf("probe value %v of %s is not a positive integer", f, s.key)
		}
		if row[idx] != 0 {
			return nil, fmt.Errorf("duplicate probe series %s", s.key)
		}
		row[idx] = int64(f)
	}
	return row, nil
}

func rowsTerm(rows [][]int64) string {
	it := make([]string, len(rows))
	for i, r := range rows {
		jt := make([]string, len(r))
		for j, v := range r {
			jt[j] = u(v)
		}
		it[i] = lst(jt, "int")
	}
	return lst(it, "list int")
}

// ---- main ------------------------------------------------------------------------------------------------

type gdesc struct {
	Kind   string   `json:"kind"`
	Expr   string   `json:"expr"`
	Expr2  string   `json:"expr_unshifted,omitempty"`
	Shift  int64    `json:"shift_ms,omitempty"`
	RErr   string   `json:"range_error,omitempty"`
	IErr   []string `json:"instant_errors,omitempty"`
	Differ []string `json:"differing_steps,omitempty"`
}

type desc struct {
	Seed     uint64   `json:"seed"`
	Index    int      `json:"index"`
	Lookback int64    `json:"lookback_ms"`
	Series   []string `json:"series"`
	HSeries  []string `json:"hseries,omitempty"`
	Start    int64    `json:"start_ms"`
	Step     int64    `json:"step_ms"`
	N        int      `json:"steps"`
	Probes   []string `json:"probes"`
	Gens     []gdesc  `json:"queries"`
	Shape    string   `json:"shape"`
	Corpus   string   `json:"corpus,omitempty"`
}

func same(a, b []osmp) bool {
	if len(a) != len(b) {
		return false
	}
	for i := range a {
		if a[i].key != b[i].key || a[i].hist != b[i].hist {
			return false
		}
		if a[i].bits != b[i].bits {
			fa, fb := math.Float64frombits(a[i].bits), math.Float64frombits(b[i].bits)
			if a[i].hist || !(math.IsNaN(fa) && math.IsNaN(fb)) {
				return false
			}
		}
	}
	return true
}

func main() {
	f := gallina.ParseFlags()
	meta := gallina.NewMeta("C27", f.Seed, f.Tier)
	meta.Rule = "corpus + seeded cases: 1-3 float series m/p (0..21 samples; regular with missed scrapes / jittered / irregular spacing, gaps around and beyond the lookback delta, staleness markers, counter/gauge/constant/inexact/NaN/Inf/-0 values) and 0-2 native-histogram series; a (start, step, 1..16 steps) grid with steps smaller and larger than sample spacing and ranges; 8 probe queries and 5 generated queries (3 random + 1 regression template range-vs-instant, 1 offset shift) per case; non-trivial = a generic query whose range result has a sample at >= 2 steps; distinct by query text and data"
	cf := &gallina.CaseFile{Dir: f.Out, Type: "case", PerShard: perShard(f.Tier),
		Preamble: "From Coq Require Import List ZArith Uint63.\nFrom Verif Require Import model.PromqlRange corr.CorrC27.\nImport ListNotations.\nOpen Scope uint63_scope.\n",
		Footer:   gallina.StdFooter}
	engines := map[int64]*promql.Engine{}
	for _, lb := range lookbacks {
		engines[lb] = newEngine(lb)
	}
	id := 0
	emit := func(c tcase, r *gen.Rand, index int) {
		ng := engines[c.lookback]
		q := c.storage()
		d := desc{Seed: f.Seed, Index: index, Lookback: c.lookback, Start: c.start, Step: c.step, N: c.n, Shape: "ok", Corpus: c.corpus}
		for _, s := range c.ser {
			var sb strings.Builder
			sp := -1
			if len(d.Series) < len(c.split) {
				sp = c.split[len(d.Series)]
			}
			fmt.Fprintf(&sb, "m/p{s=%s,g=%s} info-version-change-at-sample=%d:", s.s, s.g, sp)
			for j, t := range s.ts {
				if s.stale[j] {
					fmt.Fprintf(&sb, " %d:stale", t)
				} else {
					fmt.Fprintf(&sb, " %d:%v", t, s.vals[j])
				}
			}
			d.Series = append(d.Series, sb.String())
		}
		for _, s := range c.hser {
			var sb strings.Builder
			sb.WriteString(s.lbls.String() + ":")
			for _, x := range s.smps {
				if x.Type() == chunkenc.ValFloat {
					fmt.Fprintf(&sb, " %d:%v", x.T(), x.F())
				} else {
					fmt.Fprintf(&sb, " %d:%s", x.T(), x.FH().String())
				}
			}
			d.HSeries = append(d.HSeries, sb.String())
		}
		times := make([]int64, c.n)
		for k := range times {
			times[k] = c.start + int64(k)*c.step
		}
		bad := func(shape, what string) {
			if d.Shape == "ok" {
				d.Shape = shape
			}
			meta.GoViol = append(meta.GoViol, gallina.GoViolation{ID: fmt.Sprint(id), Shape: shape, What: what})
		}

		// -- probes
		qg := &qgen{r: r, c: &c}
		var probes []probe
		for _, kind := range []int{0, 1, 2, 2, 3, 3, 4, 5} {
			p := probe{kind: kind, rng: qg.someRange(), sstep: r.PickI64(c.iv, c.step, 1000, 7000, c.iv/2+1, 2*c.step+1, 60000)}
			if kind == 3 {
				// keep the child grid of the subquery small (it is re-evaluated by Coq)
				if lo := (p.rng + int64(c.n)*c.step) / 40; p.sstep < lo {
					p.sstep = lo + r.Range(0, 3)
				}
			}
			if r.Chance(1, 2) {
				p.off = qg.someOffset()
			}
			if kind == 3 && r.Chance(1, 4) {
				p.ioff = qg.someOffset()
			}
			if kind >= 4 {
				p.at = c.t0 + r.Range(0, c.t1-c.t0+c.iv)
			}
			p.build()
			probes = append(probes, p)
		}
		var pterms []string
		for i := range probes {
			p := &probes[i]
			d.Probes = append(d.Probes, p.expr)
			var rrows, irows [][]int64
			rv, err := runRange(ng, q, p.expr, c.start, c.step, c.n)
			if err != nil {
				bad("probe-error", fmt.Sprintf("%s: %v", p.expr, err))
				continue
			}
			ok := true
			for k := range times {
				row, err := c.probeRow(p, rv[k])
				if err == nil {
					rrows = append(rrows, row)
					var iv []osmp
					if iv, err = runInstant(ng, q, p.expr, times[k]); err == nil {
						if row, err = c.probeRow(p, iv); err == nil {
							irows = append(irows, row)
						}
					}
				}
				if err != nil {
					bad("probe-error", fmt.Sprintf("%s: %v", p.expr, err))
					ok = false
					break
				}
			}
			if !ok {
				continue
			}
			meta.Hit(fmt.Sprintf("probe-kind-%d", p.kind))
			pterms = append(pterms, fmt.Sprintf("wProbe %d %s %s %s %s %s %s %s", p.kind, u(p.rng), u(p.sstep), ub(p.off), ub(p.ioff), ub(p.at), rowsTerm(rrows), rowsTerm(irows)))
		}

		// -- generic queries
		km := keymap{}
		var gterms []string
		nontrivial := false
		{
			// extended range selectors: 3 queries per case (range-vs-instant)
			g := &qgen{r: r, c: &c}
			ne := 2
			if c.extR > 0 {
				ne = 4
			}
			for i := 0; i < ne; i++ {
				c.extra = append(c.extra, g.extQuery())
			}
		}
		for gi := -len(c.extra); gi < 5; gi++ {
			hist := len(c.hser) > 0 && r.Chance(1, 4)
			depth := 1 + r.Intn(3)
			if gi < 4 {
				g := &qgen{r: r, c: &c}
				var expr string
				switch {
				case gi < 0:
					expr = c.extra[-gi-1]
				case gi == 3:
					expr = regression(g, id)
				case r.Chance(1, 8):
					expr = g.sc(depth)
				default:
					expr, _ = g.iv(depth, hist)
				}
				gd := gdesc{Kind: "range-vs-instant", Expr: expr}
				rv, rerr := runRange(ng, q, expr, c.start, c.step, c.n)
				if rerr != nil && strings.HasPrefix(rerr.Error(), "parse:") {
					// the generator produced an ill-typed query: not a case
					meta.Hit("generator-rejected")
					meta.Notes = appendNote(meta.Notes, "rejected: "+expr+": "+rerr.Error())
					continue
				}
				ivs := make([][]osmp, c.n)
				ierr := make([]bool, c.n)
				for k, t := range times {
					v, err := runInstant(ng, q, expr, t)
					if err != nil {
						ierr[k] = true
						gd.IErr = append(gd.IErr, fmt.Sprintf("%d: %v", t, err))
					}
					ivs[k] = v
				}
				if rerr != nil {
					gd.RErr = rerr.Error()
					rv = nil
					meta.Hit("range-query-error")
				} else {
					cnt := 0
					for k := range rv {
						if len(rv[k]) > 0 {
							cnt++
						}
						if !ierr[k] && !same(rv[k], ivs[k]) {
							gd.Differ = append(gd.Differ, fmt.Sprintf("t=%d range=%v instant=%v", times[k], show(rv[k]), show(ivs[k])))
						}
					}
					if cnt >= 2 {
						nontrivial = true
					}
					if cnt > 0 {
						meta.Hit("range-vs-instant:nonempty")
					} else {
						meta.Hit("range-vs-instant:empty")
					}
				}
				classify(meta, expr)
				d.Gens = append(d.Gens, gd)
				gterms = append(gterms, fmt.Sprintf("mkG 0%%Z %s %s %s %s", gallina.Bool(rerr != nil), boolsTerm(ierr), vecsTerm(km, rv), vecsTerm(km, ivs)))
			} else {
				g := &qgen{r: r, c: &c, shift: true}
				tmpl, _ := g.iv(depth, hist)
				sh := g.someOffset()
				eoff := strings.ReplaceAll(tmpl, "§", " offset "+dur(sh))
				eplain := strings.ReplaceAll(tmpl, "§", "")
				gd := gdesc{Kind: "offset-shift", Expr: eoff, Expr2: eplain, Shift: sh}
				a := make([][]osmp, c.n)
				b := make([][]osmp, c.n)
				ierr := make([]bool, c.n)
				rejected := false
				for k, t := range times {
					va, ea := runInstant(ng, q, eoff, t)
					vb, eb := runInstant(ng, q, eplain, t-sh)
					if ea != nil && strings.HasPrefix(ea.Error(), "parse:") {
						rejected = true
						meta.Notes = appendNote(meta.Notes, "rejected: "+eoff+": "+ea.Error())
						break
					}
					if (ea != nil) != (eb != nil) {
						ierr[k] = true
						gd.IErr = append(gd.IErr, fmt.Sprintf("%d: with offset: %v; without: %v", t, ea, eb))
					}
					if ea != nil || eb != nil {
						va, vb = nil, nil
					}
					if !same(va, vb) {
						gd.Differ = append(gd.Differ, fmt.Sprintf("t=%d with-offset=%v shifted=%v", t, show(va), show(vb)))
					}
					a[k], b[k] = va, vb
				}
				if rejected {
					meta.Hit("generator-rejected")
					continue
				}
				meta.Hit("offset-shift")
				d.Gens = append(d.Gens, gd)
				gterms = append(gterms, fmt.Sprintf("mkG 1%%Z false %s %s %s", boolsTerm(ierr), vecsTerm(km, a), vecsTerm(km, b)))
			}
		}
		if nontrivial {
			meta.Nontrivial++
		}
		for _, gd := range d.Gens {
			if len(gd.Differ) > 0 || (gd.RErr != "" && len(gd.IErr) == 0) || (gd.RErr == "" && len(gd.IErr) > 0) {
				d.Shape = "differ:" + gd.Kind
			}
		}

		var sterms []string
		for _, s := range c.ser {
			it := make([]string, len(s.ts))
			for j, t := range s.ts {
				v := int64(1) << uint(j)
				if s.stale[j] {
					v = 0
				}
				it[j] = fmt.Sprintf("wS %s %s", u(t), u(v))
			}
			sterms = append(sterms, lst(it, "sample"))
		}
		cf.Add(fmt.Sprintf("wCase %d %s %s %s %s %d\n %s\n %s", id, u(c.lookback), lst(sterms, "list sample"), u(c.start), u(c.step), c.n,
			lst(pterms, "probe"), lst(gterms, "gobs")))
		meta.Case(id, d)
		meta.Evaluations++
		meta.Hit(fmt.Sprintf("series-%d", len(c.ser)))
		if c.n == 1 {
			meta.Hit("single-step")
		}
		id++
	}
	for i, c := range corpus() {
		emit(c, gen.Fork(f.Seed^0x5eed, i), -1-i)
	}
	n := f.Count(300, 9000)
	for i := 0; i < n; i++ {
		r := gen.Fork(f.Seed, i)
		emit(genCase(r), r, i)
	}
	cf.Flush()
	meta.Write(f.Out)
}

func perShard(tier string) int {
	// the fixed cost of a shard (loading the Coq libraries) dominates its evaluation
	if tier == "thorough" {
		return 300
	}
	return 160
}

// regression queries for engine defects fixed in /repo ("fix: promql: ..." commits): aggregation
// parameters varying with time over @-fixed operands, timestamp() over an @ selector with an
// offset, inner @ selectors of a subquery with a negative offset
func regression(g *qgen, id int) string {
	at := g.atMod()
	switch id % 9 {
	case 6:
		return "info * on (s) group_right (version) m"
	case 7:
		return "m * on (s) group_left (version) info"
	case 8:
		return "(info offset " + dur(g.c.iv) + ") + ignoring (g, version) group_right (version) sum by (s, g) (p)"
	case 0:
		return "topk(scalar(count(m) or vector(0)) + 1, m" + at + ")"
	case 1:
		return "quantile((time() % 10) / 10, m" + at + ")"
	case 2:
		return "timestamp(m offset " + dur(g.someOffset()) + at + ")"
	case 3:
		return "sum_over_time((p" + at + ")[" + dur(g.someRange()) + ":" + dur(g.c.iv) + "] offset " + dur(-g.r.Range(1, 2*g.c.iv)) + ")"
	case 4:
		return "bottomk((time() % 3) + 1, m" + at + ")"
	default:
		return "topk by (g) (scalar(sum(count_over_time(m{s=\"a\"}[" + dur(g.someRange()) + "])) or vector(0)), m offset " + dur(g.c.iv) + at + ")"
	}
}

func appendNote(notes []string, s string) []string {
	if len(notes) < 20 {
		return append(notes, s)
	}
	return notes
}

func show(v []osmp) string {
	var sb strings.Builder
	for _, s := range v {
		if s.hist {
			fmt.Fprintf(&sb, "%s=hist#%x ", s.key, s.bits)
		} else {
			fmt.Fprintf(&sb, "%s=%v(%#x) ", s.key, math.Float64frombits(s.bits), s.bits)
		}
	}
	return sb.String()
}

func classify(meta *gallina.Meta, expr string) {
	for _, k := range []string{"smoothed", "anchored", "group_left", "group_right", "offset", "@", ":", "rate(", "_over_time(", "sum", "topk", " and ", " or ", "timestamp(", "time()", "h{", "scalar(", "predict_linear("} {
		if strings.Contains(expr, k) {
			meta.Hit("q:" + strings.TrimSpace(k))
		}
	}
}

// ---- corpus -----------------------------------------------------------------------------------------------

func regular(s, g string, t0, iv int64, vals ...float64) pseries {
	p := pseries{s: s, g: g}
	for i, v := range vals {
		p.ts = append(p.ts, t0+int64(i)*iv)
		p.stale = append(p.stale, math.IsNaN(v))
		p.vals = append(p.vals, v)
	}
	return p
}

var extQueries = []string{
	"rate(m[10000ms] smoothed)", "increase(m[10000ms] smoothed)", "delta(m[10000ms] smoothed)",
	"rate(m[10000ms] anchored)", "increase(m[10000ms] anchored)", "delta(m[10000ms] anchored)",
	"resets(m[10000ms] anchored)", "changes(m[10000ms] anchored)",
	"increase(m[10000ms] offset 3000ms smoothed)", "rate(m[7000ms] offset -2000ms anchored)", "m smoothed",
}

var infoQueries = []string{
	"info * on (s) group_right (version) m",
	"m * on (s) group_left (version) info",
	"info + ignoring (g, version) group_right (version) sum by (s, g) (p)",
	"p - ignoring (g, version) group_left (version) info",
	"info * on (s) group_right () m",
	"(info == 1) * on (s) group_right (version) rate(m[30000ms])",
}

func corpus() []tcase {
	nan := math.NaN()
	var l []tcase
	// samples exactly on window edges: step == scrape interval, range a multiple of it
	l = append(l, tcase{lookback: 300000, iv: 10000, ser: []pseries{regular("a", "x", 600000, 10000, 1, 2, 4, 7, 11, 16, 22, 29)},
		start: 600000, step: 10000, n: 8, t0: 600000, t1: 670000, corpus: "edges"})
	// stale marker in the middle, step smaller than spacing
	l = append(l, tcase{lookback: 60000, iv: 15000, ser: []pseries{regular("a", "x", 600000, 15000, 1, 2, nan, 4, 5, nan, nan, 8)},
		start: 590000, step: 4000, n: 16, t0: 600000, t1: 705000, corpus: "stale"})
	// gap longer than the lookback; steps larger than the range
	l = append(l, tcase{lookback: 20000, iv: 5000, ser: []pseries{regular("a", "x", 600000, 5000, 1, 2, 3), regular("b", "y", 650000, 5000, 5, 6, 7, 8)},
		start: 600000, step: 13000, n: 7, t0: 600000, t1: 665000, corpus: "gap"})
	// steps exactly at sample + lookback (absent there, present one step earlier)
	l = append(l, tcase{lookback: 20000, iv: 5000, ser: []pseries{regular("a", "x", 600000, 5000, 1, 2, 3), regular("b", "y", 640000, 5000, 5, nan, 7)},
		start: 610000, step: 5000, n: 12, t0: 600000, t1: 650000, corpus: "lookback-edge"})
	// the copied label of a group_left/group_right join changes in the middle of the range
	l = append(l, tcase{lookback: 20000, iv: 10000, ser: []pseries{regular("a", "x", 600000, 10000, 1, 2, 3, 4, 5, 6, 7, 8), regular("b", "y", 600000, 10000, 9, 8, 7, 6, 5, 4, 3, 2)},
		split: []int{4, 2}, start: 600000, step: 10000, n: 8, t0: 600000, t1: 670000, corpus: "info-change", extra: infoQueries})
	l = append(l, tcase{lookback: 60000, iv: 15000, ser: []pseries{regular("a", "x", 600000, 15000, 1, 2, 3, 4, 5, 6)},
		split: []int{3}, start: 607000, step: 7000, n: 10, t0: 600000, t1: 675000, corpus: "info-change-irregular-steps", extra: infoQueries})
	// extended range selectors with a step between range+lookback and range+2*lookback, and
	// beyond: the buffer of a smoothed selector must keep range+2*lookback after the first step
	l = append(l, tcase{lookback: 20000, iv: 5000, extR: 10000, ser: []pseries{regular("a", "x", 600000, 5000,
		1, 2, 4, 7, 11, 16, 22, 29, 37, 46, 47, 49, 52, 60, 61, 80, 81, 82, 90, 99, 120, 121, 130, 150, 151, 170, 200, 201, 230, 260)},
		split: []int{7}, start: 640000, step: 31000, n: 4, t0: 600000, t1: 745000, corpus: "extended-step-31s", extra: extQueries})
	l = append(l, tcase{lookback: 20000, iv: 5000, extR: 10000, ser: []pseries{regular("a", "x", 600000, 5000,
		1, 2, 4, 7, 11, 16, 22, 29, 37, 46, 47, 49, 52, 60, 61, 80, 81, 82, 90, 99, 120, 121, 130, 150, 151, 170, 200, 201, 230, 260)},
		split: []int{7}, start: 633000, step: 52000, n: 3, t0: 600000, t1: 745000, corpus: "extended-step-52s", extra: extQueries})
	// single step
	l = append(l, tcase{lookback: 300000, iv: 5000, ser: []pseries{regular("a", "x", 600000, 5000, 3, 1, 4, 1, 5)},
		start: 612345, step: 1000, n: 1, t0: 600000, t1: 620000, corpus: "single-step"})
	return l
}

package main

import (
	"fmt"
	"os"
	"strconv"
	"sync/atomic"
	"time"

	"github.com/prometheus/common/model"
	"github.com/prometheus/common/promslog"

	"github.com/prometheus/prometheus/config"
	"github.com/prometheus/prometheus/model/labels"
	"github.com/prometheus/prometheus/storage/remote"
	"github.com/prometheus/prometheus/tsdb/chunks"
	"github.com/prometheus/prometheus/tsdb/record"
	"github.com/prometheus/prometheus/util/verifhook"

	"verif/harness/internal/gallina"
	"verif/harness/internal/gen"
)

const flushedSite = "c40.queue.flushAndShutdown.flushed"

// reproFlushTimer replays the witness of C40_no_dup_unconditional_refuted on a real QueueManager:
// one shard, two samples in the partial batch, Stop().  The FlushAndShutdown goroutine is held at
// the pause point between its two critical sections (after tryEnqueueingBatch has put the partial
// batch on the channel, before q.batch is cleared) until runShard's timer (BatchSendDeadline) has
// fired.  No send fails; before fix dca118dfcb the endpoint received both samples twice.
func reproFlushTimer(id int, seed uint64, outDir string, cf *gallina.CaseFile, meta *gallina.Meta) {
	in := newInterner()
	cfg := config.DefaultQueueConfig
	cfg.MinShards, cfg.MaxShards = 1, 1
	cfg.MaxSamplesPerSend, cfg.Capacity = 3, 3
	cfg.BatchSendDeadline = model.Duration(1500 * time.Millisecond)
	cl := &fakeClient{rng: gen.Fork(seed, -4040), blockAfter: -1}
	dir, err := os.MkdirTemp(outDir, "c40r_")
	if err != nil {
		panic(err)
	}
	defer os.RemoveAll(dir)

	var hooked atomic.Bool
	verifhook.SetHandler(func(site string, _ int) {
		if site != flushedSite {
			return
		}
		hooked.Store(true)
		for i := 0; i < 6000; i++ { // up to 60 s: generous on a loaded machine
			cl.mu.Lock()
			n := len(cl.reqs)
			cl.mu.Unlock()
			if n >= 2 {
				return
			}
			time.Sleep(10 * time.Millisecond)
		}
	})
	defer verifhook.SetHandler(nil)

	qm := remote.VerifNewQueueManager(promslog.NewNopLogger(), dir, cfg, labels.EmptyLabels(), nil, cl, 5*time.Minute, false, false, false)
	qm.Start()
	lset := labels.FromStrings("__name__", "m")
	qm.StoreSeries([]record.RefSeries{{Ref: 5, Labels: lset}}, 0)
	now := time.Now().UnixMilli()
	ok := qm.Append([]record.RefSample{{Ref: chunks.HeadSeriesRef(5), T: now, V: 0}, {Ref: chunks.HeadSeriesRef(5), T: now + 1, V: 1}})
	stopped := make(chan struct{})
	go func() { qm.Stop(); close(stopped) }()
	settled := false
	select {
	case <-stopped:
		settled = true
	case <-time.After(300 * time.Second):
		meta.GoViol = append(meta.GoViol, gallina.GoViolation{ID: strconv.Itoa(id), Shape: "stop-hang", What: "QueueManager.Stop did not return within 300 s (flush/timer reproducer)"})
	}
	if !ok {
		meta.GoViol = append(meta.GoViol, gallina.GoViolation{ID: strconv.Itoa(id), Shape: "append-false", What: "Append returned false before Stop"})
	}

	sentC, failedC, retriedC, _, droppedV := qm.VerifCounters()
	ro, rd, ru := remote.VerifDropReasons()
	cnt := []int64{counterValue(sentC), counterValue(failedC), counterValue(retriedC),
		counterValue(droppedV.WithLabelValues(ro)), counterValue(droppedV.WithLabelValues(rd)), counterValue(droppedV.WithLabelValues(ru))}
	cl.mu.Lock()
	reqs := cl.reqs
	cl.mu.Unlock()
	var reqG []string
	total := 0
	for _, q := range reqs {
		var its []string
		for _, it := range q.items {
			its = append(its, gallina.Pair(gallina.Z(it.id), in.pairs(it.lbls)))
			total++
		}
		reqG = append(reqG, gallina.Pair(gallina.Z(int64(q.outcome)), gallina.List(its)))
	}
	fed := []string{gallina.Pair(gallina.Z(5), gallina.Z(0)), gallina.Pair(gallina.Z(5), gallina.Z(0))}
	cf.Add(fmt.Sprintf("CCase %s (mkCC %s [] [] %s %s %s false %s %s %s %s %s %s %s)", gallina.Z(int64(id)),
		gallina.Nat(3), gallina.List([]string{gallina.Pair(gallina.Z(5), in.pairs(labelSlice(lset)))}),
		gallina.List(fed), gallina.List(reqG), gallina.Bool(settled),
		gallina.Z(cnt[0]), gallina.Z(cnt[1]), gallina.Z(cnt[2]), gallina.Z(cnt[3]), gallina.Z(cnt[4]), gallina.Z(cnt[5])))
	shape := "conc" // regression case since fix dca118dfcb: holds_conc demands each sample once
	if hooked.Load() {
		meta.Hit("conc:flush-timer-race-window-held")
	}
	if !hooked.Load() {
		meta.Notes = append(meta.Notes, "flush/timer reproducer: pause point "+flushedSite+" not present in this tree; nothing held")
	}
	meta.Evaluations++
	meta.Nontrivial++
	meta.Hit("conc")
	meta.Case(id, map[string]any{"kind": "conc-repro", "shape": shape, "what": "one shard, MaxSamplesPerSend 3, two samples appended, Stop(); FlushAndShutdown held at " + flushedSite + " until the BatchSendDeadline timer has fired",
		"hooked": hooked.Load(), "requests": len(reqs), "samples_received": total, "settled": settled})
}

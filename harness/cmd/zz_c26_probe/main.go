package main

import (
	"fmt"
	"os"

	"github.com/prometheus/prometheus/promql/parser"
)

func main() {
	for _, de := range []bool{false, true} {
		p := parser.NewParser(parser.Options{ExperimentalDurationExpr: de, EnableExperimentalFunctions: true})
		for _, s := range os.Args[1:] {
			e, err := p.ParseExpr(s)
			if err != nil {
				fmt.Printf("de=%v %q ERR %v\n", de, s, err)
				continue
			}
			s2 := e.String()
			e2, err2 := p.ParseExpr(s2)
			s3 := ""
			if err2 == nil {
				s3 = e2.String()
			}
			fmt.Printf("de=%v %q -> %q -> err=%v %q | pretty %q\n", de, s, s2, err2, s3, parser.Prettify(e))
		}
	}
}

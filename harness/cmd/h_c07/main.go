// h_c07: correspondence harness for C07 (compaction preserves the union of its inputs).
//
// Per case: generated chunk layouts are written to real persisted blocks (LeveledCompactor.Write
// over an in-memory BlockReader), deletions are applied with the real Block.Delete, the input
// blocks are read back from disk (index order, decoded chunks, tombstones), then compacted with
// the real LeveledCompactor (Compact over the directories, or write with an explicit range via
// the export shim VerifWriteC07; compacting or concatenating chunk series merger). The output
// block is read back (index, chunks, BlockMeta.Stats, block querier) and everything is written
// as Gallina terms for corr/CorrC07.v.
package main

import (
	"context"
	"crypto/rand"
	"errors"
	"fmt"
	"hash/fnv"
	"math"
	"os"
	"path/filepath"
	"runtime/pprof"
	"sort"
	"strconv"
	"strings"

	"github.com/oklog/ulid/v2"

	"github.com/prometheus/prometheus/model/histogram"
	"github.com/prometheus/prometheus/model/labels"
	"github.com/prometheus/prometheus/model/value"
	"github.com/prometheus/prometheus/storage"
	"github.com/prometheus/prometheus/tsdb"
	"github.com/prometheus/prometheus/tsdb/chunkenc"
	"github.com/prometheus/prometheus/tsdb/chunks"
	"github.com/prometheus/prometheus/tsdb/index"
	"github.com/prometheus/prometheus/tsdb/tombstones"

	"verif/harness/internal/gallina"
	"verif/harness/internal/gen"
)

// ---------------------------------------------------------------- samples (as in h_c19)

// S is a model sample: timestamp, value type (1 float, 2 histogram, 3 float histogram), value id.
type S struct {
	T int64 `json:"t"`
	K int   `json:"k"`
	V int64 `json:"v"`
}

type smp struct {
	t  int64
	f  float64
	h  *histogram.Histogram
	fh *histogram.FloatHistogram
}

func (s smp) T() int64                      { return s.t }
func (s smp) ST() int64                     { return 0 }
func (s smp) F() float64                    { return s.f }
func (s smp) H() *histogram.Histogram       { return s.h }
func (s smp) FH() *histogram.FloatHistogram { return s.fh }
func (s smp) Type() chunkenc.ValueType {
	switch {
	case s.h != nil:
		return chunkenc.ValHistogram
	case s.fh != nil:
		return chunkenc.ValFloatHistogram
	}
	return chunkenc.ValFloat
}
func (s smp) Copy() chunks.Sample { return s }

// Histogram contents are a function of the value id V (carried by Sum, so it survives any
// re-encoding and identifies the sample):
//
//	V == staleV                     staleness marker (Sum = StaleNaN, no buckets)
//	c  = V % 1000                   count level: zero bucket c, every bucket c+1 (a lower c after a
//	                                higher one is a counter reset)
//	L  = (V / 1000) % 4             bucket layout: 0 spans {0,1}; 1 spans {0,2}; 2 spans {0,1}{1,1};
//	                                3 custom buckets (NHCB: schema -53, bounds 1,2,3, spans {0,2})
//	sc = (V / 4000) % 2             exponential schema 0 / 1 (ignored for NHCB)
//	g  = (V / 8000) % 2             0 gauge hint, 1 counter (hint unknown)
//
// V < 1000 is the "plain" domain: gauge histograms of one layout, where no appender ever cuts a
// chunk by itself and chunk boundaries are those of the model. Anything else ("rich") makes the
// histogram appenders cut / recode chunks (counter resets, layout and schema changes, gauge vs
// counter, stale markers), which the model does not predict: such cases are flagged and compared
// leniently on chunk boundaries, while holds still judges every chunk of the real output.
const staleV = int64(-7777)

func isRich(s S) bool { return s.K != 1 && (s.V >= 1000 || s.V == staleV) }

type hparts struct {
	stale   bool
	c       int64
	spans   []histogram.Span
	nb      int
	schema  int32
	custom  []float64
	counter bool
}

func parts(v int64) hparts {
	if v == staleV {
		return hparts{stale: true}
	}
	if v < 0 {
		v = -v
	}
	p := hparts{c: v % 1000, counter: (v/8000)%2 == 1}
	switch (v / 1000) % 4 {
	case 0:
		p.spans, p.nb = []histogram.Span{{Offset: 0, Length: 1}}, 1
	case 1:
		p.spans, p.nb = []histogram.Span{{Offset: 0, Length: 2}}, 2
	case 2:
		p.spans, p.nb = []histogram.Span{{Offset: 0, Length: 1}, {Offset: 1, Length: 1}}, 2
	default:
		p.spans, p.nb = []histogram.Span{{Offset: 0, Length: 2}}, 2
		p.schema, p.custom = histogram.CustomBucketsSchema, []float64{1, 2, 3}
	}
	if p.custom == nil && (v/4000)%2 == 1 {
		p.schema = 1
	}
	return p
}

func mkH(id int64) *histogram.Histogram {
	p := parts(id)
	if p.stale {
		return &histogram.Histogram{Sum: math.Float64frombits(value.StaleNaN)}
	}
	h := &histogram.Histogram{Schema: p.schema, Sum: float64(id), PositiveSpans: p.spans, CustomValues: p.custom}
	if !p.counter {
		h.CounterResetHint = histogram.GaugeType
	}
	h.PositiveBuckets = make([]int64, p.nb)
	h.PositiveBuckets[0] = p.c + 1 // deltas: all buckets hold c+1
	h.Count = uint64(p.nb) * uint64(p.c+1)
	if p.custom == nil {
		h.ZeroThreshold, h.ZeroCount = 0.001, uint64(p.c)
		h.Count += uint64(p.c)
	}
	return h
}

func mkFH(id int64) *histogram.FloatHistogram {
	p := parts(id)
	if p.stale {
		return &histogram.FloatHistogram{Sum: math.Float64frombits(value.StaleNaN)}
	}
	h := &histogram.FloatHistogram{Schema: p.schema, Sum: float64(id), PositiveSpans: p.spans, CustomValues: p.custom}
	if !p.counter {
		h.CounterResetHint = histogram.GaugeType
	}
	h.PositiveBuckets = make([]float64, p.nb)
	for i := range h.PositiveBuckets {
		h.PositiveBuckets[i] = float64(p.c + 1)
	}
	h.Count = float64(p.nb) * float64(p.c+1)
	if p.custom == nil {
		h.ZeroThreshold, h.ZeroCount = 0.001, float64(p.c)
		h.Count += float64(p.c)
	}
	return h
}

func idOf(f float64) int64 {
	if value.IsStaleNaN(f) {
		return staleV
	}
	return int64(f)
}

// encodeChunks builds real chunks from samples of one value type, cutting where the histogram
// appenders cut (counter reset, schema / custom bounds change, ...) and following their recodes.
func encodeChunks(l []S) ([]chunks.Meta, error) {
	var out []chunks.Meta
	var cur chunkenc.Chunk
	var app chunkenc.Appender
	var mint, maxt int64
	flush := func() {
		if cur != nil {
			out = append(out, chunks.Meta{MinTime: mint, MaxTime: maxt, Chunk: cur})
		}
	}
	for i, s := range l {
		if i == 0 {
			var err error
			switch s.K {
			case 2:
				cur = chunkenc.NewHistogramChunk()
			case 3:
				cur = chunkenc.NewFloatHistogramChunk()
			default:
				cur = chunkenc.NewXORChunk()
			}
			if app, err = cur.Appender(); err != nil {
				return nil, err
			}
			mint = s.T
		}
		var nc chunkenc.Chunk
		var recoded bool
		var err error
		switch s.K {
		case 2:
			nc, recoded, app, err = app.AppendHistogram(nil, 0, s.T, mkH(s.V), false)
		case 3:
			nc, recoded, app, err = app.AppendFloatHistogram(nil, 0, s.T, mkFH(s.V), false)
		default:
			f := float64(s.V)
			if s.V == staleV {
				f = math.Float64frombits(value.StaleNaN)
			}
			app.Append(0, s.T, f)
		}
		if err != nil {
			return nil, err
		}
		if nc != nil {
			if !recoded {
				flush()
				mint = s.T
			}
			cur = nc
		}
		maxt = s.T
	}
	flush()
	return out, nil
}

func decodeIter(it chunkenc.Iterator) ([]S, error) {
	var out []S
	for vt := it.Next(); vt != chunkenc.ValNone; vt = it.Next() {
		switch vt {
		case chunkenc.ValHistogram:
			t, h := it.AtHistogram(nil)
			out = append(out, S{t, 2, idOf(h.Sum)})
		case chunkenc.ValFloatHistogram:
			t, h := it.AtFloatHistogram(nil)
			out = append(out, S{t, 3, idOf(h.Sum)})
		default:
			t, f := it.At()
			out = append(out, S{t, 1, idOf(f)})
		}
	}
	return out, it.Err()
}

// ---------------------------------------------------------------- model-side data

type Chunk struct {
	Min, Max int64
	Smp      []S
}
type Series struct {
	L     int // label rank
	Chks  []Chunk
	Tombs [][2]int64
}
type Block struct {
	Min, Max int64
	Ser      []Series
}
type Stats struct{ Series, Chunks, Samples, Hist, Float uint64 }

// ---------------------------------------------------------------- label pool

var pool []labels.Labels // sorted by labels.Compare: index == rank
var rankOf = map[string]int{}

func initPool() {
	pool = []labels.Labels{
		labels.FromStrings("a", "1"),
		labels.FromStrings("a", "1", "b", "x"),
		labels.FromStrings("a", "10"),
		labels.FromStrings("a", "2"),
		labels.FromStrings("a", "2", "b", "0"),
		labels.FromStrings("a", "2", "c", "0"),
		labels.FromStrings("a", "3", "b", "y", "c", "z"),
		labels.FromStrings("a", "A"),
	}
	sort.Slice(pool, func(i, j int) bool { return labels.Compare(pool[i], pool[j]) < 0 })
	for i, l := range pool {
		rankOf[l.String()] = i
	}
}

// ---------------------------------------------------------------- in-memory BlockReader

type memSeries struct {
	lset labels.Labels
	chks []chunks.Meta // Ref = index into memBlock.all
}
type memBlock struct {
	meta   tsdb.BlockMeta
	series []memSeries
	all    []chunkenc.Chunk
}

func (b *memBlock) Index() (tsdb.IndexReader, error)       { return memIndex{b}, nil }
func (b *memBlock) Chunks() (tsdb.ChunkReader, error)      { return memChunks{b}, nil }
func (b *memBlock) Tombstones() (tombstones.Reader, error) { return tombstones.NewMemTombstones(), nil }
func (b *memBlock) Meta() tsdb.BlockMeta                   { return b.meta }
func (b *memBlock) Size() int64                            { return 0 }

type memChunks struct{ b *memBlock }

func (c memChunks) ChunkOrIterable(m chunks.Meta) (chunkenc.Chunk, chunkenc.Iterable, error) {
	i := int(m.Ref)
	if i < 0 || i >= len(c.b.all) {
		return nil, nil, errors.New("memChunks: bad ref")
	}
	return c.b.all[i], nil, nil
}
func (memChunks) Close() error { return nil }

type strIter struct {
	l []string
	i int
}

func (s *strIter) Next() bool { s.i++; return s.i <= len(s.l) }
func (s *strIter) At() string { return s.l[s.i-1] }
func (*strIter) Err() error   { return nil }

type memIndex struct{ b *memBlock }

func (x memIndex) Symbols() index.StringIter {
	set := map[string]struct{}{}
	for _, s := range x.b.series {
		s.lset.Range(func(l labels.Label) { set[l.Name] = struct{}{}; set[l.Value] = struct{}{} })
	}
	var l []string
	for k := range set {
		l = append(l, k)
	}
	sort.Strings(l)
	return &strIter{l: l}
}
func (x memIndex) Postings(_ context.Context, name string, values ...string) (index.Postings, error) {
	k, v := index.AllPostingsKey()
	if name != k || len(values) != 1 || values[0] != v {
		return nil, errors.New("memIndex: only all-postings supported")
	}
	refs := make([]storage.SeriesRef, len(x.b.series))
	for i := range refs {
		refs[i] = storage.SeriesRef(i)
	}
	return index.NewListPostings(refs), nil
}
func (memIndex) SortedPostings(p index.Postings) index.Postings { return p }
func (x memIndex) Series(ref storage.SeriesRef, b *labels.ScratchBuilder, chks *[]chunks.Meta) error {
	i := int(ref)
	if i < 0 || i >= len(x.b.series) {
		return storage.ErrNotFound
	}
	b.Assign(x.b.series[i].lset)
	*chks = append((*chks)[:0], x.b.series[i].chks...)
	return nil
}
func (memIndex) Close() error { return nil }
func (memIndex) SortedLabelValues(context.Context, string, *storage.LabelHints, ...*labels.Matcher) ([]string, error) {
	panic("unused")
}
func (memIndex) LabelValues(context.Context, string, *storage.LabelHints, ...*labels.Matcher) ([]string, error) {
	panic("unused")
}
func (memIndex) PostingsForLabelMatching(context.Context, string, func(string) bool) index.Postings {
	panic("unused")
}
func (memIndex) PostingsForAllLabelValues(context.Context, string) index.Postings { panic("unused") }
func (memIndex) ShardedPostings(index.Postings, uint64, uint64) index.Postings    { panic("unused") }
func (memIndex) LabelNames(context.Context, ...*labels.Matcher) ([]string, error) { panic("unused") }
func (memIndex) LabelNamesFor(context.Context, index.Postings) ([]string, error)  { panic("unused") }

// ---------------------------------------------------------------- case specification

type SerSpec struct {
	L      int   `json:"l"` // rank in the pool
	Chunks [][]S `json:"c"`
}
type DelSpec struct {
	Min int64 `json:"min"`
	Max int64 `json:"max"`
	Sel int   `json:"sel"` // -1: every series, else the series whose label a equals that of pool[Sel]
}
type BlkSpec struct {
	Min int64     `json:"min"`
	Max int64     `json:"max"`
	Ser []SerSpec `json:"s"`
	Del []DelSpec `json:"d,omitempty"`
}
type CaseSpec struct {
	Name       string    `json:"name,omitempty"`
	Blocks     []BlkSpec `json:"blocks"`
	Mode       int       `json:"mode"`
	Mint       int64     `json:"mint"`
	Maxt       int64     `json:"maxt"`
	Compacting bool      `json:"compacting"`
}

func buildMem(bs BlkSpec) (*memBlock, error) {
	mb := &memBlock{}
	mb.meta.MinTime, mb.meta.MaxTime = bs.Min, bs.Max
	ss := append([]SerSpec(nil), bs.Ser...)
	sort.Slice(ss, func(i, j int) bool { return ss[i].L < ss[j].L })
	for _, s := range ss {
		ms := memSeries{lset: pool[s.L]}
		for _, c := range s.Chunks {
			metas, err := encodeChunks(c)
			if err != nil {
				return nil, err
			}
			for _, m := range metas {
				m.Ref = chunks.ChunkRef(len(mb.all))
				mb.all = append(mb.all, m.Chunk)
				m.Chunk = nil
				ms.chks = append(ms.chks, m)
			}
		}
		mb.series = append(mb.series, ms)
	}
	return mb, nil
}

// ---------------------------------------------------------------- reading a persisted block

var matchAll = labels.MustNewMatcher(labels.MatchRegexp, "a", ".+")

func readBlock(b *tsdb.Block) (Block, Stats, bool, error) {
	var out Block
	m := b.Meta()
	out.Min, out.Max = m.MinTime, m.MaxTime
	st := Stats{m.Stats.NumSeries, m.Stats.NumChunks, m.Stats.NumSamples, m.Stats.NumHistogramSamples, m.Stats.NumFloatSamples}
	ir, err := b.Index()
	if err != nil {
		return out, st, false, err
	}
	defer ir.Close()
	cr, err := b.Chunks()
	if err != nil {
		return out, st, false, err
	}
	defer cr.Close()
	tr, err := b.Tombstones()
	if err != nil {
		return out, st, false, err
	}
	defer tr.Close()
	ctx := context.Background()
	p := tsdb.AllSortedPostings(ctx, ir)
	var bld labels.ScratchBuilder
	var chks []chunks.Meta
	for p.Next() {
		if err := ir.Series(p.At(), &bld, &chks); err != nil {
			return out, st, false, err
		}
		ls := bld.Labels()
		rk, ok := rankOf[ls.String()]
		if !ok {
			return out, st, false, fmt.Errorf("unknown label set %s", ls.String())
		}
		se := Series{L: rk}
		for _, cm := range chks {
			c, _, err := cr.ChunkOrIterable(cm)
			if err != nil {
				return out, st, false, err
			}
			if c == nil {
				return out, st, false, errors.New("iterable from a persisted block")
			}
			sm, err := decodeIter(c.Iterator(nil))
			if err != nil {
				return out, st, false, err
			}
			se.Chks = append(se.Chks, Chunk{cm.MinTime, cm.MaxTime, sm})
		}
		ivs, err := tr.Get(p.At())
		if err != nil {
			return out, st, false, err
		}
		for _, iv := range ivs {
			se.Tombs = append(se.Tombs, [2]int64{iv.Mint, iv.Maxt})
		}
		out.Ser = append(out.Ser, se)
	}
	if p.Err() != nil {
		return out, st, false, p.Err()
	}
	// the queryable samples (block querier over everything) against the chunk contents; only
	// meaningful for a block without tombstones (the output)
	q, err := tsdb.NewBlockQuerier(b, math.MinInt64, math.MaxInt64)
	if err != nil {
		return out, st, false, err
	}
	defer q.Close()
	set := q.Select(ctx, true, nil, matchAll)
	qeq := true
	i := 0
	var it chunkenc.Iterator
	for set.Next() {
		s := set.At()
		it = s.Iterator(it)
		got, err := decodeIter(it)
		if err != nil {
			return out, st, false, err
		}
		if i >= len(out.Ser) || rankOf[s.Labels().String()] != out.Ser[i].L {
			qeq = false
			break
		}
		var want []S
		for _, c := range out.Ser[i].Chks {
			want = append(want, c.Smp...)
		}
		if len(want) != len(got) {
			qeq = false
		} else {
			for j := range want {
				if want[j] != got[j] {
					qeq = false
				}
			}
		}
		i++
	}
	if set.Err() != nil {
		return out, st, false, set.Err()
	}
	if i != len(out.Ser) {
		qeq = false
	}
	return out, st, qeq, nil
}

// ---------------------------------------------------------------- printing

func zz(v int64) string {
	if v < 0 {
		return strconv.FormatUint(uint64(-v)*2+1, 10)
	}
	return strconv.FormatUint(uint64(v)*2, 10)
}

func gS(s S) string {
	c := "sF"
	switch s.K {
	case 2:
		c = "sH"
	case 3:
		c = "sG"
	}
	return c + " " + zz(s.T) + " " + zz(s.V)
}
func gChunk(c Chunk) string {
	it := make([]string, len(c.Smp))
	for i, s := range c.Smp {
		it[i] = gS(s)
	}
	return "rC " + zz(c.Min) + " " + zz(c.Max) + " " + gallina.List(it)
}
func gChunks(cs []Chunk) string {
	it := make([]string, len(cs))
	for i, c := range cs {
		it[i] = gChunk(c)
	}
	return gallina.List(it)
}
func gBlock(b Block) string {
	ss := make([]string, len(b.Ser))
	for i, s := range b.Ser {
		tb := make([]string, len(s.Tombs))
		for j, iv := range s.Tombs {
			tb[j] = "rI " + zz(iv[0]) + " " + zz(iv[1])
		}
		ss[i] = "rS " + zz(int64(s.L)) + " " + gChunks(s.Chks) + " " + gallina.List(tb)
	}
	return "rB " + zz(b.Min) + " " + zz(b.Max) + " " + gallina.List(ss)
}
func gOut(b Block) string {
	ss := make([]string, len(b.Ser))
	for i, s := range b.Ser {
		ss[i] = "rO " + zz(int64(s.L)) + " " + gChunks(s.Chks)
	}
	return gallina.List(ss)
}
func gStats(s Stats) string {
	return fmt.Sprintf("(rSt %d %d %d %d %d)", s.Series*2, s.Chunks*2, s.Samples*2, s.Hist*2, s.Float*2)
}

// ---------------------------------------------------------------- running one case

type runner struct {
	f        gallina.Flags
	cf       *gallina.CaseFile
	meta     *gallina.Meta
	compC    *tsdb.LeveledCompactor // compacting merger (default)
	compK    *tsdb.LeveledCompactor // concatenating merger
	id       int
	distinct map[uint64]struct{}
	bytes    int
}

func newULID() ulid.ULID { return ulid.MustNew(ulid.Now(), rand.Reader) }

const maxAbs = int64(1) << 61

func inRange(b Block) bool {
	for _, s := range b.Ser {
		for _, c := range s.Chks {
			for _, x := range c.Smp {
				if x.T > maxAbs || x.T < -maxAbs {
					return false
				}
			}
		}
	}
	return true
}

// emit writes one case. in: the input blocks as the model sees them.
func (r *runner) emit(spec *CaseSpec, desc map[string]any, in []Block, mode int, compacting bool, mint, maxt int64,
	failed bool, out Block, st Stats, qeq bool) {
	id := r.id
	r.id++
	bl := make([]string, len(in))
	for i, b := range in {
		bl[i] = gBlock(b)
	}
	rich := false
	for _, b := range append(append([]Block(nil), in...), out) {
		for _, se := range b.Ser {
			for _, c := range se.Chks {
				for _, x := range c.Smp {
					rich = rich || isRich(x)
				}
			}
		}
	}
	if rich {
		r.meta.Hit("rich-histograms")
		desc["rich"] = true
	}
	term := fmt.Sprintf("rCase %s %s %s %s %s %s %s %s %s %s %s", zz(int64(id)), zz(int64(mode)), gallina.Bool(compacting),
		gallina.List(bl), zz(mint), zz(maxt), gallina.Bool(failed), gOut(out), gStats(st), gallina.Bool(qeq), gallina.Bool(rich))
	r.cf.Add(term)
	r.bytes += len(term)
	r.meta.Evaluations++
	r.classify(desc, in, mode, compacting, mint, maxt, out, term)
	r.meta.Case(id, desc)
}

func (r *runner) classify(desc map[string]any, in []Block, mode int, compacting bool, mint, maxt int64, out Block, term string) {
	m := r.meta
	m.Hit(fmt.Sprintf("blocks=%d", len(in)))
	if !compacting {
		m.Hit("merger=concatenating")
	}
	switch mode {
	case 1:
		m.Hit("mode=explicit-range")
	case 2:
		m.Hit("mode=head-range")
	default:
		m.Hit("mode=compact")
	}
	type span struct{ lo, hi int64 }
	perLabel := map[int][]span{}
	tsOf := map[int]map[int64][]S{}
	nontriv := false
	tomb, straddle, trimF, trimB := false, false, false, false
	for _, b := range in {
		for _, s := range b.Ser {
			if len(s.Chks) == 0 {
				continue
			}
			perLabel[s.L] = append(perLabel[s.L], span{s.Chks[0].Min, s.Chks[len(s.Chks)-1].Max})
			if tsOf[s.L] == nil {
				tsOf[s.L] = map[int64][]S{}
			}
			for _, c := range s.Chks {
				for _, x := range c.Smp {
					tsOf[s.L][x.T] = append(tsOf[s.L][x.T], x)
				}
				if c.Min < mint && c.Max >= mint {
					trimF = true
				}
				if c.Max > maxt-1 && c.Min <= maxt-1 {
					trimB = true
				}
				for _, iv := range s.Tombs {
					tomb = true
					if iv[0] <= c.Max && c.Min <= iv[1] && !(iv[0] <= c.Min && c.Max <= iv[1]) {
						straddle = true
					}
				}
			}
		}
	}
	// twin chunks: one label set, two blocks, same MinTime / MaxTime / sample count, other content;
	// replica chunks: the same with identical content
	twin, replica := false, false
	chunksOf := map[int][][]Chunk{}
	for _, b := range in {
		for _, s := range b.Ser {
			chunksOf[s.L] = append(chunksOf[s.L], s.Chks)
		}
	}
	for _, per := range chunksOf {
		for i := range per {
			for j := i + 1; j < len(per); j++ {
				for _, a := range per[i] {
					for _, c := range per[j] {
						if a.Min == c.Min && a.Max == c.Max && len(a.Smp) == len(c.Smp) {
							same := true
							for k := range a.Smp {
								same = same && a.Smp[k] == c.Smp[k]
							}
							if same {
								replica = true
							} else {
								twin = true
							}
						}
					}
				}
			}
		}
	}
	if twin {
		m.Hit("twin-chunks")
	}
	if replica {
		m.Hit("replica-chunks")
	}
	overlap, dup, dupDiff, kindMix := false, false, false, false
	for _, sp := range perLabel {
		if len(sp) > 1 {
			nontriv = true
		}
		for i := range sp {
			for j := i + 1; j < len(sp); j++ {
				if sp[i].lo <= sp[j].hi && sp[j].lo <= sp[i].hi {
					overlap = true
				}
			}
		}
	}
	for _, mm := range tsOf {
		for _, l := range mm {
			if len(l) > 1 {
				dup = true
				for _, x := range l[1:] {
					if x.V != l[0].V {
						dupDiff = true
					}
					if x.K != l[0].K {
						kindMix = true
					}
				}
			}
		}
	}
	flag := func(b bool, k string) {
		if b {
			m.Hit(k)
		}
	}
	flag(overlap, "overlapping-series")
	flag(dup, "equal-timestamps")
	flag(dupDiff, "equal-timestamps-different-values")
	flag(kindMix, "type-switch-inside-overlap")
	flag(tomb, "tombstones")
	flag(straddle, "tombstone-straddles-chunk")
	flag(trimF, "trim-front")
	flag(trimB, "trim-back")
	inLabels := len(perLabel)
	flag(len(out.Ser) < inLabels, "series-dropped")
	flag(len(out.Ser) == 0, "empty-output")
	cut120 := false
	for _, s := range out.Ser {
		for _, c := range s.Chks {
			if len(c.Smp) == 120 {
				cut120 = true
			}
		}
	}
	flag(cut120, "reencode-120-cut")
	if tomb || trimF || trimB {
		nontriv = true
	}
	if nontriv && len(out.Ser) > 0 {
		h := fnv.New64a()
		h.Write([]byte(term[strings.Index(term, "["):]))
		r.distinct[h.Sum64()] = struct{}{}
	}
	shape := []string{}
	switch mode {
	case 1:
		shape = append(shape, "range")
	case 2:
		shape = append(shape, "head")
	default:
		shape = append(shape, "compact")
	}
	if !compacting {
		shape = append(shape, "concat")
	}
	if overlap {
		shape = append(shape, "overlap")
	}
	if kindMix {
		shape = append(shape, "kindmix")
	}
	if tomb {
		shape = append(shape, "tomb")
	}
	if trimF || trimB {
		shape = append(shape, "trim")
	}
	desc["shape"] = strings.Join(shape, "/")
}

// run executes one case specification against the real code and emits it (plus, for some
// blocks, the in-memory -> persisted write as a case of its own).
func (r *runner) run(spec *CaseSpec, desc map[string]any, emitWrites int) error {
	root, err := os.MkdirTemp(r.f.Out, "c07_")
	if err != nil {
		return err
	}
	defer os.RemoveAll(root)
	inDir := filepath.Join(root, "in")
	outDir := filepath.Join(root, "out")
	if err := os.MkdirAll(inDir, 0o777); err != nil {
		return err
	}
	if err := os.MkdirAll(outDir, 0o777); err != nil {
		return err
	}
	ctx := context.Background()
	var dirs []string
	var in []Block
	for bi, bs := range spec.Blocks {
		mb, err := buildMem(bs)
		if err != nil {
			return err
		}
		// the fake reader's content as a model block (for the write case); decoded before the write,
		// which hands the chunks to the chunk pool
		var memIn Block
		memIn.Min, memIn.Max = bs.Min, bs.Max
		for _, ms := range mb.series {
			se := Series{L: rankOf[ms.lset.String()]}
			for _, cm := range ms.chks {
				sm, err := decodeIter(mb.all[int(cm.Ref)].Iterator(nil))
				if err != nil {
					return err
				}
				se.Chks = append(se.Chks, Chunk{cm.MinTime, cm.MaxTime, sm})
			}
			memIn.Ser = append(memIn.Ser, se)
		}
		ids, err := r.compC.Write(inDir, mb, bs.Min, bs.Max, nil)
		if err != nil {
			return fmt.Errorf("write input block: %w", err)
		}
		if len(ids) == 0 {
			if bi < emitWrites {
				d := map[string]any{"kind": "write-mem-block", "of": desc["gen"], "block": bi}
				r.emit(spec, d, []Block{memIn}, 1, true, bs.Min, bs.Max, false, Block{}, Stats{}, true)
			}
			continue // empty block: nothing persisted
		}
		dir := filepath.Join(inDir, ids[0].String())
		b, err := tsdb.OpenBlock(nil, dir, nil, nil)
		if err != nil {
			return err
		}
		if bi < emitWrites {
			ob, st, qeq, err := readBlock(b)
			if err != nil {
				b.Close()
				return err
			}
			d := map[string]any{"kind": "write-mem-block", "of": desc["gen"], "block": bi}
			r.emit(spec, d, []Block{memIn}, 1, true, bs.Min, bs.Max, false, ob, st, qeq)
		}
		for _, d := range bs.Del {
			ms := []*labels.Matcher{matchAll}
			if d.Sel >= 0 {
				ms = []*labels.Matcher{labels.MustNewMatcher(labels.MatchEqual, "a", pool[d.Sel].Get("a"))}
			}
			if err := b.Delete(ctx, d.Min, d.Max, ms...); err != nil {
				b.Close()
				return err
			}
		}
		rb, _, _, err := readBlock(b)
		b.Close()
		if err != nil {
			return err
		}
		if !inRange(rb) {
			return errors.New("timestamp outside the literal range")
		}
		dirs = append(dirs, dir)
		in = append(in, rb)
	}
	if len(dirs) == 0 {
		return nil
	}
	comp := r.compC
	if !spec.Compacting {
		comp = r.compK
	}
	var (
		uid    ulid.ULID
		have   bool
		cerr   error
		mint   = spec.Mint
		maxt   = spec.Maxt
		opened []*tsdb.Block
	)
	if spec.Mode == 0 {
		var ids []ulid.ULID
		ids, cerr = comp.Compact(outDir, dirs, nil)
		if len(ids) > 0 {
			uid, have = ids[0], true
		}
		mint, maxt = in[0].Min, in[0].Max
		for _, b := range in {
			if b.Min < mint {
				mint = b.Min
			}
			if b.Max > maxt {
				maxt = b.Max
			}
		}
	} else {
		var rs []tsdb.BlockReader
		for _, d := range dirs {
			b, err := tsdb.OpenBlock(nil, d, nil, nil)
			if err != nil {
				return err
			}
			opened = append(opened, b)
			rs = append(rs, b)
		}
		if len(rs) == 1 && spec.Compacting {
			// the public API: LeveledCompactor.Write over a block reader with an explicit range
			var ids []ulid.ULID
			ids, cerr = comp.Write(outDir, rs[0], mint, maxt, nil)
			if len(ids) > 0 {
				uid, have = ids[0], true
			}
		} else {
			m := &tsdb.BlockMeta{ULID: newULID(), MinTime: mint, MaxTime: maxt}
			m.Compaction.Level = 2
			m.Compaction.Sources = []ulid.ULID{m.ULID}
			cerr = comp.VerifWriteC07(outDir, m, rs...)
			if cerr == nil && m.Stats.NumSamples > 0 {
				uid, have = m.ULID, true
			}
		}
	}
	for _, b := range opened {
		b.Close()
	}
	var out Block
	var st Stats
	qeq := true
	if cerr == nil && have {
		b, err := tsdb.OpenBlock(nil, filepath.Join(outDir, uid.String()), nil, nil)
		if err != nil {
			return err
		}
		out, st, qeq, err = readBlock(b)
		if err == nil && (b.Meta().MinTime != mint || b.Meta().MaxTime != maxt) {
			if spec.Mode == 0 {
				// the observed range is what agree compares with compact_range
				mint, maxt = b.Meta().MinTime, b.Meta().MaxTime
			} else {
				err = fmt.Errorf("output meta range [%d,%d) differs from the requested one", b.Meta().MinTime, b.Meta().MaxTime)
			}
		}
		b.Close()
		if err != nil {
			return err
		}
		for _, s := range out.Ser {
			if len(s.Tombs) > 0 {
				return errors.New("output block carries tombstones")
			}
		}
		if !inRange(out) {
			return errors.New("output timestamp outside the literal range")
		}
	}
	if cerr != nil {
		desc["err"] = cerr.Error()
	}
	r.emit(spec, desc, in, spec.Mode, spec.Compacting, mint, maxt, cerr != nil, out, st, qeq)
	return nil
}

// ---------------------------------------------------------------- generators

func cutChunks(r *gen.Rand, l []S, maxLen int) [][]S {
	var out [][]S
	i := 0
	for i < len(l) {
		n := 1 + r.Intn(maxLen)
		j := i
		for j < len(l) && j-i < n && l[j].K == l[i].K {
			j++
		}
		out = append(out, append([]S(nil), l[i:j]...))
		i = j
	}
	return out
}

func genSeries(r *gen.Rand, lo, hi, grid int64, n int, kinds []int, switchy bool, vals int) []S {
	if n <= 0 {
		return nil
	}
	set := map[int64]struct{}{}
	span := (hi - lo) / grid
	for len(set) < n && int64(len(set)) <= span {
		set[lo+grid*r.Range(0, span)] = struct{}{}
	}
	ts := make([]int64, 0, len(set))
	for t := range set {
		ts = append(ts, t)
	}
	sort.Slice(ts, func(i, j int) bool { return ts[i] < ts[j] })
	k := gen.Pick(r, kinds)
	out := make([]S, len(ts))
	for i, t := range ts {
		if switchy && r.Chance(1, 6) {
			k = gen.Pick(r, kinds)
		}
		out[i] = S{t, k, int64(r.Intn(vals))}
	}
	return out
}

// genRich: a histogram series as one scrape target would produce it: a counter level that mostly
// grows, with restarts (counter resets), bucket layout changes (recode / reset), schema and
// NHCB switches, gauge phases and staleness markers. Two blocks holding such a series over the
// same window behave like two replicas of which one restarted: the interleaved stream is full
// of counter resets inside the overlap.
func genRich(r *gen.Rand, lo, hi, grid int64, n int, kinds []int, switchy bool) []S {
	base := genSeries(r, lo, hi, grid, n, kinds, switchy, 2)
	c := int64(r.Intn(900))
	layout := int64(r.Intn(4))
	if r.Chance(1, 2) {
		layout = int64(r.Intn(2))
	}
	schema := int64(0)
	counter := int64(1)
	if r.Chance(1, 6) {
		counter = 0
	}
	for i := range base {
		c += int64(r.Intn(5))
		if r.Chance(1, 8) {
			c = int64(r.Intn(20)) // restart
		}
		if c > 999 {
			c = 999
		}
		if r.Chance(1, 10) {
			layout = int64(r.Intn(4))
		}
		if r.Chance(1, 15) {
			schema = 1 - schema
		}
		if r.Chance(1, 25) {
			counter = 1 - counter
		}
		base[i].V = c + 1000*layout + 4000*schema + 8000*counter
		if r.Chance(1, 15) {
			base[i].V = staleV
		}
	}
	return base
}

// twinChunks derives chunks with the same MinTime, MaxTime and number of samples as the given
// ones. mode 0: identical (replica); 1: same timestamps, other values; 2: other interior
// timestamps (first and last kept) and other values where the span leaves room.
func twinChunks(r *gen.Rand, cs [][]S, grid int64, mode int) [][]S {
	out := make([][]S, len(cs))
	for ci, c := range cs {
		n := append([]S(nil), c...)
		if mode >= 1 {
			for i := range n {
				if n[i].V != staleV && n[i].V%1000 != 999 && r.Chance(2, 3) {
					n[i].V++
				}
			}
		}
		if mode == 2 && len(n) >= 3 {
			lo, hi := n[0].T, n[len(n)-1].T
			slots := (hi-lo)/grid - 1 // grid points strictly inside
			if slots >= int64(len(n)-2) {
				set := map[int64]struct{}{}
				for int64(len(set)) < int64(len(n)-2) {
					set[lo+grid*r.Range(1, slots)] = struct{}{}
				}
				ts := make([]int64, 0, len(set))
				for t := range set {
					ts = append(ts, t)
				}
				sort.Slice(ts, func(i, j int) bool { return ts[i] < ts[j] })
				for i, t := range ts {
					n[i+1].T = t
				}
			}
		}
		out[ci] = n
	}
	return out
}

func genCase(r *gen.Rand, big, rich bool) *CaseSpec {
	cs := &CaseSpec{Compacting: !r.Chance(1, 8)}
	nb := 1 + r.Intn(3)
	if r.Chance(1, 3) {
		nb = 1 + r.Intn(6)
	}
	// the label sets of this case
	nl := 1 + r.Intn(4)
	var ls []int
	for len(ls) < nl {
		x := r.Intn(len(pool))
		dupl := false
		for _, y := range ls {
			dupl = dupl || x == y
		}
		if !dupl {
			ls = append(ls, x)
		}
	}
	base := r.PickI64(0, 0, 0, -150, -40, 1700000000000, -(int64(1) << 40), int64(1)<<60)
	grid := r.PickI64(1, 1, 5, 10)
	width := r.PickI64(20, 40, 100) * grid
	pattern := r.Intn(5)
	kinds := [][]int{{1}, {1}, {1}, {2}, {3}, {1, 2}, {1, 2, 3}}[r.Intn(7)]
	switchy := r.Chance(1, 3)
	if rich {
		kinds = [][]int{{3}, {3}, {2}, {2, 3}, {1, 3}, {1, 2, 3}}[r.Intn(6)]
		switchy = r.Chance(1, 4)
	}
	vals := int(r.PickI64(2, 3, 50))
	perSeries := 4 + r.Intn(14)
	maxChunk := 1 + r.Intn(8)
	if big {
		nb = 1 + r.Intn(3)
		nl = 1
		ls = ls[:1]
		perSeries = 100 + r.Intn(60)
		maxChunk = 150
		width = 400 * grid
		pattern = r.Intn(2)
	}
	var prev *BlkSpec
	for b := 0; b < nb; b++ {
		var lo, hi int64
		switch pattern {
		case 0: // all over the same window
			lo, hi = base, base+width
		case 1: // staggered, partially overlapping
			lo = base + int64(b)*width/2
			hi = lo + width
		case 2: // disjoint, in sequence
			lo = base + int64(b)*(width+grid)
			hi = lo + width
		case 3: // nested
			lo = base + int64(b)*width/8
			hi = base + width - int64(b)*width/8
		default:
			lo = base + grid*r.Range(0, width/grid)
			hi = lo + grid*r.Range(1, width/grid)
		}
		bs := BlkSpec{}
		for _, l := range ls {
			if !r.Chance(7, 10) && !(len(bs.Ser) == 0 && l == ls[len(ls)-1]) {
				continue
			}
			var chs [][]S
			if prev != nil && r.Chance(1, 3) {
				// derived from the same series of the previous block: a byte-identical replica
				// (perfect duplicate chunks, the control), or "twin" chunks: same MinTime, MaxTime
				// and sample count but other values / other interior timestamps
				for _, ps := range prev.Ser {
					if ps.L == l {
						chs = twinChunks(r, ps.Chunks, grid, r.Intn(3))
					}
				}
			}
			if chs == nil {
				n := 1 + r.Intn(perSeries)
				if big {
					n = perSeries
				}
				if rich {
					chs = cutChunks(r, genRich(r, lo, hi, grid, n, kinds, switchy), maxChunk)
				} else {
					chs = cutChunks(r, genSeries(r, lo, hi, grid, n, kinds, switchy, vals), maxChunk)
				}
			}
			if len(chs) > 0 {
				bs.Ser = append(bs.Ser, SerSpec{L: l, Chunks: chs})
			}
		}
		if len(bs.Ser) == 0 {
			continue
		}
		// block meta range: hull of the data, sometimes wider
		mn, mx := int64(math.MaxInt64), int64(math.MinInt64)
		var bounds []int64
		for _, s := range bs.Ser {
			for _, c := range s.Chunks {
				mn = min(mn, c[0].T)
				mx = max(mx, c[len(c)-1].T)
				bounds = append(bounds, c[0].T, c[len(c)-1].T)
			}
		}
		bs.Min, bs.Max = mn, mx+1
		if r.Chance(1, 4) {
			bs.Min -= r.Range(0, 5)
			bs.Max += r.Range(0, 5)
		}
		// deletions with endpoints at / next to chunk boundaries
		if r.Chance(1, 2) {
			nd := 1 + r.Intn(3)
			for d := 0; d < nd; d++ {
				a := gen.Pick(r, bounds) + r.Range(-1, 1)
				z := gen.Pick(r, bounds) + r.Range(-1, 1)
				if r.Chance(1, 4) {
					z = a + r.Range(0, 3*grid)
				}
				if a > z {
					a, z = z, a
				}
				sel := -1
				if r.Chance(1, 2) {
					sel = gen.Pick(r, ls)
				}
				bs.Del = append(bs.Del, DelSpec{Min: a, Max: z, Sel: sel})
			}
		}
		cs.Blocks = append(cs.Blocks, bs)
		prev = &cs.Blocks[len(cs.Blocks)-1]
	}
	if len(cs.Blocks) == 0 {
		return cs
	}
	sort.SliceStable(cs.Blocks, func(i, j int) bool { return cs.Blocks[i].Min < cs.Blocks[j].Min })
	if !cs.Compacting && r.Chance(2, 3) {
		// make the concatenating merger applicable: disjoint blocks in sequence were asked for
		// only by pattern 2; nothing to do here, holds decides applicability from the data
		_ = 0
	}
	if r.Chance(2, 5) {
		// explicit range: endpoints at / next to sample timestamps
		cs.Mode = 1
		var tsAll []int64
		for _, b := range cs.Blocks {
			for _, s := range b.Ser {
				for _, c := range s.Chunks {
					for _, x := range c {
						tsAll = append(tsAll, x.T)
					}
				}
			}
		}
		a := gen.Pick(r, tsAll) + r.Range(-1, 1)
		z := gen.Pick(r, tsAll) + r.Range(-1, 2)
		if a > z {
			a, z = z, a
		}
		if r.Chance(1, 3) { // only one side cut
			a = cs.Blocks[0].Min
		} else if r.Chance(1, 3) {
			z = tsAll[0] + 100000
		}
		cs.Mint, cs.Maxt = a, z
	}
	return cs
}

// fixed reproducers first
func corpus() []*CaseSpec {
	fl := func(ts ...int64) []S {
		var l []S
		for _, t := range ts {
			l = append(l, S{t, 1, t % 7})
		}
		return l
	}
	vals := func(l []S, v int64) []S {
		o := append([]S(nil), l...)
		for i := range o {
			o[i].V = v
		}
		return o
	}
	seq := func(from, n, step int64, k int, v int64) []S {
		var l []S
		for i := int64(0); i < n; i++ {
			l = append(l, S{from + i*step, k, v})
		}
		return l
	}
	// a growing counter level: value id base+i at from+i*step
	ctr := func(from, n, step int64, k int, base int64) []S {
		var l []S
		for i := int64(0); i < n; i++ {
			l = append(l, S{from + i*step, k, base + i})
		}
		return l
	}
	return []*CaseSpec{
		{Name: "two-blocks-same-series-different-values", Compacting: true, Blocks: []BlkSpec{
			{Min: 0, Max: 31, Ser: []SerSpec{{L: 0, Chunks: [][]S{vals(fl(0, 10, 20, 30), 1)}}}},
			{Min: 0, Max: 31, Ser: []SerSpec{{L: 0, Chunks: [][]S{vals(fl(0, 10, 20, 30), 2)}}}}}},
		{Name: "tombstone-straddles-chunk-boundary", Compacting: true, Blocks: []BlkSpec{
			{Min: 0, Max: 61, Ser: []SerSpec{{L: 1, Chunks: [][]S{fl(0, 10, 20), fl(30, 40, 50), fl(60)}}},
				Del: []DelSpec{{Min: 20, Max: 30, Sel: -1}}}}},
		{Name: "sample-at-maxt-minus-1-and-maxt", Compacting: true, Mode: 1, Mint: 10, Maxt: 40, Blocks: []BlkSpec{
			{Min: 0, Max: 51, Ser: []SerSpec{{L: 2, Chunks: [][]S{fl(0, 9, 10, 11), fl(38, 39, 40, 41, 50)}}}}}},
		{Name: "range-cut-over-two-blocks", Compacting: true, Mode: 1, Mint: 10, Maxt: 40, Blocks: []BlkSpec{
			{Min: 0, Max: 51, Ser: []SerSpec{{L: 2, Chunks: [][]S{fl(0, 9, 10, 11), fl(38, 39, 40, 41, 50)}}}},
			{Min: 5, Max: 46, Ser: []SerSpec{{L: 2, Chunks: [][]S{fl(5, 10, 12), fl(39, 45)}}, {L: 4, Chunks: [][]S{fl(5, 9), fl(40, 45)}}}}}},
		{Name: "series-in-one-input-of-three", Compacting: true, Blocks: []BlkSpec{
			{Min: 0, Max: 11, Ser: []SerSpec{{L: 0, Chunks: [][]S{fl(0, 10)}}}},
			{Min: 5, Max: 16, Ser: []SerSpec{{L: 0, Chunks: [][]S{fl(5, 15)}}, {L: 3, Chunks: [][]S{fl(7)}}}},
			{Min: 8, Max: 21, Ser: []SerSpec{{L: 0, Chunks: [][]S{fl(8, 20)}}}}}},
		{Name: "identical-130-sample-chunks", Compacting: true, Blocks: []BlkSpec{
			{Min: 0, Max: 130, Ser: []SerSpec{{L: 5, Chunks: [][]S{seq(0, 130, 1, 1, 3)}}}},
			{Min: 0, Max: 130, Ser: []SerSpec{{L: 5, Chunks: [][]S{seq(0, 130, 1, 1, 3)}}}}}},
		{Name: "overlap-reencode-cut-at-120", Compacting: true, Blocks: []BlkSpec{
			{Min: 0, Max: 300, Ser: []SerSpec{{L: 5, Chunks: [][]S{seq(0, 100, 2, 1, 3), seq(200, 50, 2, 1, 4)}}}},
			{Min: 1, Max: 300, Ser: []SerSpec{{L: 5, Chunks: [][]S{seq(1, 100, 2, 1, 5), seq(201, 40, 2, 1, 6)}}}}}},
		{Name: "everything-deleted", Compacting: true, Blocks: []BlkSpec{
			{Min: 0, Max: 31, Ser: []SerSpec{{L: 0, Chunks: [][]S{fl(0, 10), fl(20, 30)}}}, Del: []DelSpec{{Min: -5, Max: 100, Sel: -1}}}}},
		{Name: "one-series-deleted-of-two", Compacting: true, Blocks: []BlkSpec{
			{Min: 0, Max: 31, Ser: []SerSpec{{L: 0, Chunks: [][]S{fl(0, 10), fl(20, 30)}}, {L: 3, Chunks: [][]S{fl(0, 30)}}},
				Del: []DelSpec{{Min: 0, Max: 30, Sel: 3}}},
			{Min: 0, Max: 31, Ser: []SerSpec{{L: 0, Chunks: [][]S{fl(5, 15)}}}}}},
		{Name: "type-switch-inside-overlap", Compacting: true, Blocks: []BlkSpec{
			{Min: 0, Max: 41, Ser: []SerSpec{{L: 6, Chunks: [][]S{seq(0, 3, 10, 1, 1), seq(30, 2, 10, 2, 2)}}}},
			{Min: 5, Max: 46, Ser: []SerSpec{{L: 6, Chunks: [][]S{seq(5, 2, 10, 3, 3), seq(25, 3, 10, 1, 4)}}}}}},
		{Name: "deleted-in-one-block-present-in-other", Compacting: true, Blocks: []BlkSpec{
			{Min: 0, Max: 31, Ser: []SerSpec{{L: 0, Chunks: [][]S{vals(fl(0, 10, 20, 30), 1)}}}, Del: []DelSpec{{Min: 10, Max: 20, Sel: -1}}},
			{Min: 0, Max: 31, Ser: []SerSpec{{L: 0, Chunks: [][]S{vals(fl(10, 30), 2)}}}}}},
		{Name: "concatenating-disjoint-blocks", Compacting: false, Blocks: []BlkSpec{
			{Min: 0, Max: 11, Ser: []SerSpec{{L: 0, Chunks: [][]S{fl(0, 10)}}}},
			{Min: 20, Max: 31, Ser: []SerSpec{{L: 0, Chunks: [][]S{fl(20, 30)}}, {L: 1, Chunks: [][]S{fl(25)}}}},
			{Min: 40, Max: 51, Ser: []SerSpec{{L: 0, Chunks: [][]S{fl(40, 50)}}}}}},
		// two replicas of one counter series, one restarted: levels far apart, samples interleaved
		// in time, so the re-encoded stream has a counter reset at every other sample
		{Name: "float-histogram-replica-restart-overlap", Compacting: true, Blocks: []BlkSpec{
			{Min: 0, Max: 100, Ser: []SerSpec{{L: 2, Chunks: [][]S{ctr(0, 10, 10, 3, 8500)}}}},
			{Min: 0, Max: 100, Ser: []SerSpec{{L: 2, Chunks: [][]S{ctr(5, 10, 10, 3, 8005)}}}}}},
		{Name: "int-histogram-replica-restart-overlap", Compacting: true, Blocks: []BlkSpec{
			{Min: 0, Max: 100, Ser: []SerSpec{{L: 2, Chunks: [][]S{ctr(0, 10, 10, 2, 8500)}}}},
			{Min: 0, Max: 100, Ser: []SerSpec{{L: 2, Chunks: [][]S{ctr(5, 10, 10, 2, 8005)}}}}}},
		{Name: "nhcb-float-replica-restart-overlap", Compacting: true, Blocks: []BlkSpec{
			{Min: 0, Max: 100, Ser: []SerSpec{{L: 4, Chunks: [][]S{ctr(0, 10, 10, 3, 11500)}}}},
			{Min: 0, Max: 100, Ser: []SerSpec{{L: 4, Chunks: [][]S{ctr(5, 10, 10, 3, 11005)}}}}}},
		{Name: "nhcb-int-replica-restart-overlap", Compacting: true, Blocks: []BlkSpec{
			{Min: 0, Max: 100, Ser: []SerSpec{{L: 4, Chunks: [][]S{ctr(0, 10, 10, 2, 11500)}}}},
			{Min: 0, Max: 100, Ser: []SerSpec{{L: 4, Chunks: [][]S{ctr(5, 10, 10, 2, 11005)}}}}}},
		// layout change (recode), schema change, NHCB switch, gauge phase and stale markers inside an overlap
		{Name: "float-histogram-layout-schema-gauge-stale-overlap", Compacting: true, Blocks: []BlkSpec{
			{Min: 0, Max: 100, Ser: []SerSpec{{L: 1, Chunks: [][]S{{{0, 3, 8010}, {10, 3, 8011}, {20, 3, 9012}, {30, 3, 9013}},
				{{40, 3, 13014}, {50, 3, staleV}, {60, 3, 8001}, {70, 3, 11002}, {80, 3, 3}}}}}},
			{Min: 5, Max: 96, Ser: []SerSpec{{L: 1, Chunks: [][]S{{{5, 3, 8010}, {15, 3, 10011}, {25, 3, 8012}},
				{{35, 3, staleV}, {45, 3, 8013}, {55, 3, 12014}, {65, 3, 7}, {75, 3, 8}, {95, 3, 8900}}}}}}}},
		{Name: "int-and-float-histogram-mixed-overlap-with-delete", Compacting: true, Blocks: []BlkSpec{
			{Min: 0, Max: 100, Ser: []SerSpec{{L: 1, Chunks: [][]S{ctr(0, 5, 10, 2, 8100), ctr(50, 5, 10, 3, 8200)}}},
				Del: []DelSpec{{Min: 20, Max: 60, Sel: -1}}},
			{Min: 0, Max: 100, Ser: []SerSpec{{L: 1, Chunks: [][]S{ctr(5, 9, 10, 3, 8003)}}}}}},
		{Name: "stale-floats-overlap", Compacting: true, Blocks: []BlkSpec{
			{Min: 0, Max: 41, Ser: []SerSpec{{L: 0, Chunks: [][]S{{{0, 1, 1}, {10, 1, staleV}, {20, 1, 2}, {40, 1, staleV}}}}}},
			{Min: 0, Max: 41, Ser: []SerSpec{{L: 0, Chunks: [][]S{{{5, 1, staleV}, {10, 1, 3}, {30, 1, 4}}}}}}}},
		// twin chunks: same MinTime, MaxTime and sample count, different inside: NOT duplicates
		{Name: "twin-chunks-different-interior-float", Compacting: true, Blocks: []BlkSpec{
			{Min: 0, Max: 21, Ser: []SerSpec{{L: 0, Chunks: [][]S{{{0, 1, 1}, {10, 1, 2}, {20, 1, 3}}}}}},
			{Min: 0, Max: 21, Ser: []SerSpec{{L: 0, Chunks: [][]S{{{0, 1, 1}, {15, 1, 2}, {20, 1, 3}}}}}}}},
		{Name: "twin-chunks-different-interior-triple-int-histogram", Compacting: true, Blocks: []BlkSpec{
			{Min: 0, Max: 21, Ser: []SerSpec{{L: 3, Chunks: [][]S{{{0, 2, 1}, {10, 2, 2}, {20, 2, 3}}}}}},
			{Min: 0, Max: 21, Ser: []SerSpec{{L: 3, Chunks: [][]S{{{0, 2, 1}, {15, 2, 2}, {20, 2, 3}}}}}},
			{Min: 0, Max: 21, Ser: []SerSpec{{L: 3, Chunks: [][]S{{{0, 2, 1}, {5, 2, 2}, {20, 2, 3}}}}}}}},
		{Name: "twin-chunks-different-interior-float-histogram", Compacting: true, Blocks: []BlkSpec{
			{Min: 0, Max: 41, Ser: []SerSpec{{L: 3, Chunks: [][]S{{{0, 3, 8001}, {10, 3, 8002}, {20, 3, 8003}}, {{30, 3, 8004}, {35, 3, 8005}, {40, 3, 8006}}}}}},
			{Min: 0, Max: 41, Ser: []SerSpec{{L: 3, Chunks: [][]S{{{0, 3, 8001}, {15, 3, 8002}, {20, 3, 8003}}, {{30, 3, 8004}, {36, 3, 8005}, {40, 3, 8006}}}}}}}},
		{Name: "twin-chunks-different-interior-nhcb", Compacting: true, Blocks: []BlkSpec{
			{Min: 0, Max: 21, Ser: []SerSpec{{L: 5, Chunks: [][]S{{{0, 2, 11001}, {10, 2, 11002}, {20, 2, 11003}}}}, {L: 6, Chunks: [][]S{{{0, 3, 11001}, {10, 3, 11002}, {20, 3, 11003}}}}}},
			{Min: 0, Max: 21, Ser: []SerSpec{{L: 5, Chunks: [][]S{{{0, 2, 11001}, {12, 2, 11002}, {20, 2, 11003}}}}, {L: 6, Chunks: [][]S{{{0, 3, 11001}, {12, 3, 11002}, {20, 3, 11003}}}}}}}},
		// same timestamps, different values, 130 samples: either value may win, but the chunks are
		// not duplicates, so they are re-encoded (cut at 120)
		{Name: "twin-chunks-same-timestamps-different-values-130", Compacting: true, Blocks: []BlkSpec{
			{Min: 0, Max: 130, Ser: []SerSpec{{L: 5, Chunks: [][]S{seq(0, 130, 1, 1, 3)}}}},
			{Min: 0, Max: 130, Ser: []SerSpec{{L: 5, Chunks: [][]S{seq(0, 130, 1, 1, 4)}}}}}},
		// a twin next to a true replica: the replica collapses, the twin must not
		{Name: "twin-and-replica", Compacting: true, Blocks: []BlkSpec{
			{Min: 0, Max: 21, Ser: []SerSpec{{L: 0, Chunks: [][]S{{{0, 1, 1}, {10, 1, 2}, {20, 1, 3}}}}}},
			{Min: 0, Max: 21, Ser: []SerSpec{{L: 0, Chunks: [][]S{{{0, 1, 1}, {10, 1, 2}, {20, 1, 3}}}}}},
			{Min: 0, Max: 21, Ser: []SerSpec{{L: 0, Chunks: [][]S{{{0, 1, 1}, {7, 1, 9}, {20, 1, 3}}}}}}}},
		{Name: "negative-times-trim", Compacting: true, Mode: 1, Mint: -25, Maxt: -4, Blocks: []BlkSpec{
			{Min: -40, Max: 1, Ser: []SerSpec{{L: 7, Chunks: [][]S{{{-40, 2, 1}, {-30, 2, 2}, {-25, 2, 3}}, {{-20, 3, 4}, {-5, 3, 5}, {-4, 3, 6}, {0, 3, 7}}}}},
				Del: []DelSpec{{Min: -26, Max: -25, Sel: -1}}}}},
	}
}

// ---------------------------------------------------------------- head ranges (mode 2)

type HeadSer struct {
	L   int `json:"l"`
	Smp []S `json:"s"`
}
type HeadSpec struct {
	Ser        []HeadSer `json:"ser"`
	ChunkRange int64     `json:"chunk_range"`
	Mint       int64     `json:"mint"`
	Maxt       int64     `json:"maxt"`
	Del        []DelSpec `json:"del,omitempty"`
}

// runHead appends the samples to a real Head (in time order, one commit per timestamp), applies
// Head.Delete, and writes the range [mint, maxt) with LeveledCompactor.Write over a RangeHead,
// as DB.compactHead does. The model sees the head as one block whose series hold one chunk per
// run of equal value type (the head's own chunk layout is not modelled: agree is lenient on
// chunk boundaries for mode 2).
func (r *runner) runHead(hs *HeadSpec, desc map[string]any) error {
	root, err := os.MkdirTemp(r.f.Out, "c07h_")
	if err != nil {
		return err
	}
	defer os.RemoveAll(root)
	outDir := filepath.Join(root, "out")
	if err := os.MkdirAll(outDir, 0o777); err != nil {
		return err
	}
	opts := tsdb.DefaultHeadOptions()
	opts.ChunkRange = hs.ChunkRange
	opts.ChunkDirRoot = filepath.Join(root, "head")
	h, err := tsdb.NewHead(nil, nil, nil, nil, opts, tsdb.NewHeadStats())
	if err != nil {
		return err
	}
	defer h.Close()
	if err := h.Init(math.MinInt64); err != nil {
		return err
	}
	type ev struct {
		si int
		s  S
	}
	var evs []ev
	for si, se := range hs.Ser {
		for _, s := range se.Smp {
			evs = append(evs, ev{si, s})
		}
	}
	sort.SliceStable(evs, func(i, j int) bool { return evs[i].s.T < evs[j].s.T })
	ctx := context.Background()
	for i := 0; i < len(evs); {
		j := i
		app := h.Appender(ctx)
		for j < len(evs) && evs[j].s.T == evs[i].s.T {
			e := evs[j]
			ls := pool[hs.Ser[e.si].L]
			var aerr error
			switch e.s.K {
			case 2:
				_, aerr = app.AppendHistogram(0, ls, e.s.T, mkH(e.s.V), nil)
			case 3:
				_, aerr = app.AppendHistogram(0, ls, e.s.T, nil, mkFH(e.s.V))
			default:
				_, aerr = app.Append(0, ls, e.s.T, float64(e.s.V))
			}
			if aerr != nil {
				app.Rollback()
				return fmt.Errorf("head append: %w", aerr)
			}
			j++
		}
		if err := app.Commit(); err != nil {
			return err
		}
		i = j
	}
	for _, d := range hs.Del {
		ms := []*labels.Matcher{matchAll}
		if d.Sel >= 0 {
			ms = []*labels.Matcher{labels.MustNewMatcher(labels.MatchEqual, "a", pool[d.Sel].Get("a"))}
		}
		if err := h.Delete(ctx, d.Min, d.Max, ms...); err != nil {
			return err
		}
	}
	// the head's tombstones, per label set
	tombs := map[int][][2]int64{}
	ir, err := h.Index()
	if err != nil {
		return err
	}
	tr, err := h.Tombstones()
	if err != nil {
		ir.Close()
		return err
	}
	p := tsdb.AllSortedPostings(ctx, ir)
	var bld labels.ScratchBuilder
	var chks []chunks.Meta
	for p.Next() {
		if err := ir.Series(p.At(), &bld, &chks); err != nil {
			ir.Close()
			return err
		}
		ivs, err := tr.Get(p.At())
		if err != nil {
			ir.Close()
			return err
		}
		rk := rankOf[bld.Labels().String()]
		for _, iv := range ivs {
			tombs[rk] = append(tombs[rk], [2]int64{iv.Mint, iv.Maxt})
		}
	}
	ir.Close()
	var in Block
	in.Min, in.Max = hs.Mint, hs.Maxt
	ss := append([]HeadSer(nil), hs.Ser...)
	sort.Slice(ss, func(i, j int) bool { return ss[i].L < ss[j].L })
	for _, se := range ss {
		ms := Series{L: se.L, Tombs: tombs[se.L]}
		for i := 0; i < len(se.Smp); {
			j := i
			for j < len(se.Smp) && se.Smp[j].K == se.Smp[i].K {
				j++
			}
			ms.Chks = append(ms.Chks, Chunk{se.Smp[i].T, se.Smp[j-1].T, append([]S(nil), se.Smp[i:j]...)})
			i = j
		}
		in.Ser = append(in.Ser, ms)
	}
	ids, cerr := r.compC.Write(outDir, tsdb.NewRangeHead(h, hs.Mint, hs.Maxt-1), hs.Mint, hs.Maxt, nil)
	var out Block
	var st Stats
	qeq := true
	if cerr == nil && len(ids) > 0 {
		b, err := tsdb.OpenBlock(nil, filepath.Join(outDir, ids[0].String()), nil, nil)
		if err != nil {
			return err
		}
		out, st, qeq, err = readBlock(b)
		if err == nil && (b.Meta().MinTime != hs.Mint || b.Meta().MaxTime != hs.Maxt) {
			err = errors.New("output meta range differs from the requested one")
		}
		b.Close()
		if err != nil {
			return err
		}
	}
	if cerr != nil {
		desc["err"] = cerr.Error()
	}
	if !inRange(in) || !inRange(out) {
		return errors.New("timestamp outside the literal range")
	}
	r.meta.Hit("head-range")
	r.emit(nil, desc, []Block{in}, 2, true, hs.Mint, hs.Maxt, cerr != nil, out, st, qeq)
	return nil
}

func genHead(r *gen.Rand) *HeadSpec {
	hs := &HeadSpec{}
	nl := 1 + r.Intn(4)
	var ls []int
	for len(ls) < nl {
		x := r.Intn(len(pool))
		dupl := false
		for _, y := range ls {
			dupl = dupl || x == y
		}
		if !dupl {
			ls = append(ls, x)
		}
	}
	base := r.PickI64(0, 0, -150, 1700000000000, -(int64(1) << 40))
	grid := r.PickI64(1, 5, 10)
	width := r.PickI64(40, 100, 300) * grid
	kinds := [][]int{{1}, {1}, {2}, {3}, {1, 2}, {1, 2, 3}}[r.Intn(6)]
	hs.ChunkRange = r.PickI64(width/4+1, width+1, 1000*width)
	var tsAll []int64
	for _, l := range ls {
		n := 1 + r.Intn(40)
		if r.Chance(1, 6) {
			n = 130 + r.Intn(40)
		}
		sm := genSeries(r, base, base+width, grid, n, kinds, r.Chance(1, 3), 50)
		if len(sm) == 0 {
			continue
		}
		hs.Ser = append(hs.Ser, HeadSer{L: l, Smp: sm})
		for _, x := range sm {
			tsAll = append(tsAll, x.T)
		}
	}
	if len(tsAll) == 0 {
		return hs
	}
	sort.Slice(tsAll, func(i, j int) bool { return tsAll[i] < tsAll[j] })
	hs.Mint, hs.Maxt = tsAll[0], tsAll[len(tsAll)-1]+1
	if r.Chance(2, 3) {
		a := gen.Pick(r, tsAll) + r.Range(-1, 1)
		z := gen.Pick(r, tsAll) + r.Range(-1, 2)
		if a > z {
			a, z = z, a
		}
		if r.Chance(1, 3) {
			a = tsAll[0]
		} else if r.Chance(1, 3) {
			z = tsAll[len(tsAll)-1] + 1
		}
		if a < z {
			hs.Mint, hs.Maxt = a, z
		}
	}
	if r.Chance(1, 2) {
		nd := 1 + r.Intn(2)
		for d := 0; d < nd; d++ {
			a := gen.Pick(r, tsAll) + r.Range(-1, 1)
			z := a + r.Range(0, width/3)
			sel := -1
			if r.Chance(1, 2) {
				sel = gen.Pick(r, ls)
			}
			hs.Del = append(hs.Del, DelSpec{Min: a, Max: z, Sel: sel})
		}
	}
	return hs
}

// ---------------------------------------------------------------- OOO head ranges (mode 2, kind "ooo-head")

type OOOSpec struct {
	Ser     []HeadSer `json:"ser"`     // per series: the out-of-order samples, time-sorted
	Anchor  int64     `json:"anchor"`  // in-order sample appended first (later than everything else)
	CapMax  int64     `json:"cap_max"` // OutOfOrderCapMax
	Batches int       `json:"batches"` // the samples of a series go in that many interleaved batches
}

// runOOO: a real tsdb.DB with an out-of-order window and a small OutOfOrderCapMax; per series one
// in-order anchor sample, then the remaining samples in interleaved batches (so the series gets
// several time-overlapping OOO chunks, which the OOO head hands to the compactor as one chunk
// meta backed by an Iterable: populateChunksFromIterable re-encodes them); DB.CompactOOOHead;
// every written block is judged like any other output (the input is the set of OOO samples).
func (r *runner) runOOO(os_ *OOOSpec, desc map[string]any) error {
	root, err := os.MkdirTemp(r.f.Out, "c07o_")
	if err != nil {
		return err
	}
	defer os.RemoveAll(root)
	opts := tsdb.DefaultOptions()
	opts.OutOfOrderTimeWindow = int64(1) << 41
	opts.OutOfOrderCapMax = os_.CapMax
	opts.MinBlockDuration = int64(1) << 32
	opts.MaxBlockDuration = int64(1) << 32
	opts.RetentionDuration = 0
	db, err := tsdb.Open(root, nil, nil, opts, nil)
	if err != nil {
		return err
	}
	defer db.Close()
	db.DisableCompactions()
	ctx := context.Background()
	appendOne := func(l int, s S) error {
		app := db.Appender(ctx)
		ls := pool[l]
		var aerr error
		switch s.K {
		case 2:
			_, aerr = app.AppendHistogram(0, ls, s.T, mkH(s.V), nil)
		case 3:
			_, aerr = app.AppendHistogram(0, ls, s.T, nil, mkFH(s.V))
		default:
			f := float64(s.V)
			if s.V == staleV {
				f = math.Float64frombits(value.StaleNaN)
			}
			_, aerr = app.Append(0, ls, s.T, f)
		}
		if aerr != nil {
			app.Rollback()
			return fmt.Errorf("ooo append t=%d k=%d v=%d: %w", s.T, s.K, s.V, aerr)
		}
		return app.Commit()
	}
	for _, se := range os_.Ser {
		if err := appendOne(se.L, S{os_.Anchor, 1, 1}); err != nil {
			return err
		}
	}
	for b := 0; b < os_.Batches; b++ {
		for _, se := range os_.Ser {
			for i, s := range se.Smp {
				if i%os_.Batches == b {
					if err := appendOne(se.L, s); err != nil {
						return err
					}
				}
			}
		}
	}
	if err := db.CompactOOOHead(ctx); err != nil {
		desc["err"] = err.Error()
		// reported as a failed compaction over the whole range
		in := oooInput(os_, math.MinInt64/4, math.MaxInt64/4)
		r.meta.Hit("ooo-head")
		r.emit(nil, desc, []Block{in}, 2, true, in.Min, in.Max, true, Block{}, Stats{}, true)
		return nil
	}
	blocks := db.Blocks()
	if len(blocks) == 0 {
		return errors.New("CompactOOOHead wrote no block")
	}
	for bi, b := range blocks {
		out, st, qeq, err := readBlock(b)
		if err != nil {
			return err
		}
		in := oooInput(os_, b.Meta().MinTime, b.Meta().MaxTime)
		if !inRange(in) || !inRange(out) {
			return errors.New("timestamp outside the literal range")
		}
		d := map[string]any{}
		for k, v := range desc {
			d[k] = v
		}
		d["block"] = bi
		if bm := b.Meta(); !bm.Compaction.FromOutOfOrder() {
			return errors.New("block written by CompactOOOHead lacks the out-of-order hint")
		}
		r.meta.Hit("ooo-head")
		r.emit(nil, d, []Block{in}, 2, true, in.Min, in.Max, false, out, st, qeq)
	}
	return nil
}

// oooInput: the OOO samples as one model block (one chunk per run of equal value type).
func oooInput(os_ *OOOSpec, mint, maxt int64) Block {
	var in Block
	in.Min, in.Max = mint, maxt
	ss := append([]HeadSer(nil), os_.Ser...)
	sort.Slice(ss, func(i, j int) bool { return ss[i].L < ss[j].L })
	for _, se := range ss {
		ms := Series{L: se.L}
		for i := 0; i < len(se.Smp); {
			j := i
			for j < len(se.Smp) && se.Smp[j].K == se.Smp[i].K {
				j++
			}
			ms.Chks = append(ms.Chks, Chunk{se.Smp[i].T, se.Smp[j-1].T, append([]S(nil), se.Smp[i:j]...)})
			i = j
		}
		in.Ser = append(in.Ser, ms)
	}
	return in
}

func genOOO(r *gen.Rand) *OOOSpec {
	o := &OOOSpec{CapMax: r.PickI64(2, 3, 4, 8), Batches: 2 + r.Intn(2)}
	nl := 1 + r.Intn(3)
	var ls []int
	for len(ls) < nl {
		x := r.Intn(len(pool))
		dupl := false
		for _, y := range ls {
			dupl = dupl || x == y
		}
		if !dupl {
			ls = append(ls, x)
		}
	}
	base := r.PickI64(0, 1000, 1700000000000)
	grid := r.PickI64(1, 5, 10)
	width := r.PickI64(40, 100) * grid
	kinds := [][]int{{3}, {3}, {2}, {2, 3}, {1, 3}, {1}}[r.Intn(6)]
	for _, l := range ls {
		n := 6 + r.Intn(30)
		var sm []S
		if r.Chance(1, 2) {
			// layout growth without counter reset: level never drops, layout 0 -> 1 once or twice
			sm = genSeries(r, base, base+width, grid, n, kinds, false, 2)
			c, lay := int64(r.Intn(50)), int64(0)
			for i := range sm {
				c += int64(r.Intn(3))
				if i > 0 && r.Chance(1, 6) {
					lay = 1 - lay
				}
				sm[i].V = 8000 + 1000*lay + c
			}
		} else {
			sm = genRich(r, base, base+width, grid, n, kinds, r.Chance(1, 4))
		}
		if len(sm) > 0 {
			o.Ser = append(o.Ser, HeadSer{L: l, Smp: sm})
		}
	}
	o.Anchor = base + width + 10*grid
	return o
}

// fixed OOO reproducers: two interleaved batches, OutOfOrderCapMax 4, bucket layout growing
// (layout 0 -> 1) while the counter level keeps rising: the re-encode of the merged OOO chunks
// recodes the open chunk
func oooCorpus() []*OOOSpec {
	mk := func(k int, base int64) []S {
		var l []S
		for i := int64(0); i < 16; i++ {
			lay := int64(0)
			if i >= 7 {
				lay = 1
			}
			l = append(l, S{10 + 10*i, k, base + 1000*lay + 10 + i})
		}
		return l
	}
	return []*OOOSpec{
		{Ser: []HeadSer{{L: 2, Smp: mk(3, 8000)}}, Anchor: 1000, CapMax: 4, Batches: 2},
		{Ser: []HeadSer{{L: 2, Smp: mk(2, 8000)}, {L: 4, Smp: mk(3, 0)}}, Anchor: 1000, CapMax: 4, Batches: 2},
		{Ser: []HeadSer{{L: 1, Smp: mk(3, 8000)}, {L: 3, Smp: mk(1, 0)}}, Anchor: 1000, CapMax: 3, Batches: 3},
	}
}

// ---------------------------------------------------------------- main

func main() {
	f := gallina.ParseFlags()
	if pf := os.Getenv("C07_PROF"); pf != "" {
		fh, _ := os.Create(pf)
		pprof.StartCPUProfile(fh)
		defer pprof.StopCPUProfile()
	}
	initPool()
	// BlockWriter / heads are not used, but keep every temp file under -out
	os.Setenv("TMPDIR", f.Out)
	ctx := context.Background()
	mk := func(mf storage.VerticalChunkSeriesMergeFunc) *tsdb.LeveledCompactor {
		c, err := tsdb.NewLeveledCompactorWithOptions(ctx, nil, nil, []int64{1 << 40}, chunkenc.NewPool(),
			tsdb.LeveledCompactorOptions{MergeFunc: mf, EnableOverlappingCompaction: true, MaxBlockChunkSegmentSize: 1 << 20})
		if err != nil {
			panic(err)
		}
		return c
	}
	r := &runner{f: f, meta: gallina.NewMeta("C07", f.Seed, f.Tier), distinct: map[uint64]struct{}{}}
	r.compC = mk(nil)
	r.compK = mk(storage.NewConcatenatingChunkSeriesMerger())
	r.cf = &gallina.CaseFile{Dir: f.Out, Type: "case", PerShard: 120,
		Preamble: "From Coq Require Import List ZArith Uint63.\nFrom Verif Require Import lib.Int64 model.Intervals model.Merge model.CompactMerge corr.CorrC07.\nImport ListNotations.\nOpen Scope uint63_scope.\n",
		Footer:   gallina.StdFooter}
	r.meta.Rule = "distinct_nontrivial = number of distinct (input blocks, range, output) terms among cases with a non-empty output in which some label set occurs in two or more blocks, or a tombstone exists, or a chunk straddles the output range"

	for i, cs := range corpus() {
		d := map[string]any{"gen": "corpus", "name": cs.Name, "index": i}
		if err := r.run(cs, d, 1); err != nil {
			r.meta.GoViol = append(r.meta.GoViol, gallina.GoViolation{ID: "corpus-" + cs.Name, Shape: "harness-error", What: err.Error()})
		}
	}
	n := f.Count(36, 800)
	budget := 1_400_000
	if f.Tier == "thorough" {
		budget = 45_000_000
	}
	budget *= f.Scale
	for i := 0; i < n && r.bytes < budget; i++ {
		rg := gen.Fork(f.Seed, i)
		big := i%25 == 7
		rich := i%3 == 1
		cs := genCase(rg, big, rich)
		if len(cs.Blocks) == 0 {
			continue
		}
		d := map[string]any{"gen": fmt.Sprintf("seed=%d/i=%d", f.Seed, i), "big": big, "richgen": rich}
		ew := 0
		if i%6 == 0 {
			ew = 1
		}
		if err := r.run(cs, d, ew); err != nil {
			r.meta.GoViol = append(r.meta.GoViol, gallina.GoViolation{ID: fmt.Sprintf("gen-%d", i), Shape: "harness-error", What: err.Error()})
		}
	}
	nh := f.Count(10, 200)
	for i := 0; i < nh && r.bytes < budget; i++ {
		rg := gen.Fork(f.Seed, 1_000_000+i)
		hs := genHead(rg)
		if len(hs.Ser) == 0 {
			continue
		}
		d := map[string]any{"gen": fmt.Sprintf("head/seed=%d/i=%d", f.Seed, i)}
		if err := r.runHead(hs, d); err != nil {
			r.meta.GoViol = append(r.meta.GoViol, gallina.GoViolation{ID: fmt.Sprintf("head-%d", i), Shape: "harness-error", What: err.Error()})
		}
	}
	for i, oc := range oooCorpus() {
		d := map[string]any{"gen": "ooo-corpus", "index": i, "kind": "ooo-head"}
		if err := r.runOOO(oc, d); err != nil {
			r.meta.GoViol = append(r.meta.GoViol, gallina.GoViolation{ID: fmt.Sprintf("ooo-corpus-%d", i), Shape: "harness-error", What: err.Error()})
		}
	}
	no := f.Count(8, 200)
	for i := 0; i < no && r.bytes < budget; i++ {
		rg := gen.Fork(f.Seed, 2_000_000+i)
		oc := genOOO(rg)
		if len(oc.Ser) == 0 {
			continue
		}
		d := map[string]any{"gen": fmt.Sprintf("ooo/seed=%d/i=%d", f.Seed, i), "kind": "ooo-head"}
		if err := r.runOOO(oc, d); err != nil {
			r.meta.GoViol = append(r.meta.GoViol, gallina.GoViolation{ID: fmt.Sprintf("ooo-%d", i), Shape: "harness-error", What: err.Error()})
		}
	}
	r.cf.Flush()
	r.meta.Nontrivial = len(r.distinct)
	r.meta.Notes = append(r.meta.Notes, fmt.Sprintf("case file bytes: %d", r.bytes))
	r.meta.Write(f.Out)
}

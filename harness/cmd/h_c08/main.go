// h_c08: correspondence harness for C08 (compaction planning).
// Drives the real LeveledCompactor.plan (through the VerifPlan shim; for a subset also the
// exported Plan(dir) over meta.json files on disk) and the real CompactBlockMetas on generated
// block-meta sets, iterates plan/CompactBlockMetas until the plan is empty, and writes inputs
// and observations as Gallina terms for corr/CorrC08.v.
package main

import (
	"context"
	"encoding/binary"
	"encoding/json"
	"fmt"
	"math"
	"os"
	"path/filepath"
	"strings"

	"github.com/oklog/ulid/v2"

	"github.com/prometheus/prometheus/tsdb"

	"verif/harness/internal/gallina"
	"verif/harness/internal/gen"
)

const loopCap = 64

type blk struct {
	ID                int64
	Min, Max          int64
	Failed            bool
	Tomb, Series      uint64
	Stale, Sel, OOO   bool
	Level             int
	Sources           []int64
	ExtraHint         bool // an unrelated hint string, must not matter
}

type config struct {
	Ranges  []int64
	Overlap bool
}

func mkULID(id int64) ulid.ULID {
	var u ulid.ULID
	binary.BigEndian.PutUint64(u[8:], uint64(id))
	return u
}

func idOf(u ulid.ULID) int64 { return int64(binary.BigEndian.Uint64(u[8:])) }

func (b blk) meta() *tsdb.BlockMeta {
	m := &tsdb.BlockMeta{ULID: mkULID(b.ID), MinTime: b.Min, MaxTime: b.Max, Version: 1}
	m.Stats.NumTombstones = b.Tomb
	m.Stats.NumSeries = b.Series
	m.Compaction.Level = b.Level
	m.Compaction.Failed = b.Failed
	for _, s := range b.Sources {
		m.Compaction.Sources = append(m.Compaction.Sources, mkULID(s))
	}
	if b.ExtraHint {
		m.Compaction.Hints = append(m.Compaction.Hints, "some-other-hint")
	}
	if b.OOO {
		m.Compaction.SetOutOfOrder()
	}
	if b.Stale {
		m.Compaction.SetStaleSeries()
	}
	if b.Sel {
		m.Compaction.SetSelectedSeries()
	}
	return m
}

func fromMeta(m *tsdb.BlockMeta) blk {
	b := blk{ID: idOf(m.ULID), Min: m.MinTime, Max: m.MaxTime, Failed: m.Compaction.Failed,
		Tomb: m.Stats.NumTombstones, Series: m.Stats.NumSeries,
		Stale: m.Compaction.FromStaleSeries(), Sel: m.Compaction.FromSelectedSeries(), OOO: m.Compaction.FromOutOfOrder(),
		Level: m.Compaction.Level}
	for _, s := range m.Compaction.Sources {
		b.Sources = append(b.Sources, idOf(s))
	}
	return b
}

func (b blk) gallina() string {
	return fmt.Sprintf("(mkMeta %s %s %s %s %s %s %s %s %s %s %s)", gallina.Z(b.ID), gallina.Z(b.Min), gallina.Z(b.Max),
		gallina.Bool(b.Failed), gallina.ZU(b.Tomb), gallina.ZU(b.Series), gallina.Bool(b.Stale), gallina.Bool(b.Sel),
		gallina.Bool(b.OOO), gallina.Z(int64(b.Level)), gallina.ListZ(b.Sources))
}

func blks(l []blk) string {
	it := make([]string, len(l))
	for i, b := range l {
		it[i] = b.gallina()
	}
	return gallina.List(it)
}

func newCompactor(c config) *tsdb.LeveledCompactor {
	lc, err := tsdb.NewLeveledCompactorWithOptions(context.Background(), nil, nil, c.Ranges, nil,
		tsdb.LeveledCompactorOptions{EnableOverlappingCompaction: c.Overlap})
	if err != nil {
		panic(err)
	}
	return lc
}

// realPlan calls the real plan on the metas; returns the planned ids.
func realPlan(lc *tsdb.LeveledCompactor, bs []blk) (ids []int64, panicked bool) {
	defer func() {
		if r := recover(); r != nil {
			ids, panicked = nil, true
		}
	}()
	dirs := make([]string, len(bs))
	metas := make([]*tsdb.BlockMeta, len(bs))
	for i, b := range bs {
		metas[i] = b.meta()
		dirs[i] = metas[i].ULID.String()
	}
	res, err := tsdb.VerifPlan(lc, dirs, metas)
	if err != nil {
		panic("plan returned an error: " + err.Error())
	}
	for _, d := range res {
		u, err := ulid.ParseStrict(d)
		if err != nil {
			panic(err)
		}
		ids = append(ids, idOf(u))
	}
	return ids, false
}

// diskPlan calls the exported Plan(dir) on a directory holding one meta.json per block.
func diskPlan(lc *tsdb.LeveledCompactor, root string, bs []blk) (ids []int64, err error) {
	defer func() {
		if r := recover(); r != nil {
			err = fmt.Errorf("panic: %v", r)
		}
	}()
	dir, err := os.MkdirTemp(root, "plan")
	if err != nil {
		return nil, err
	}
	defer os.RemoveAll(dir)
	for _, b := range bs {
		m := b.meta()
		bd := filepath.Join(dir, m.ULID.String())
		if err := os.Mkdir(bd, 0o755); err != nil {
			return nil, err
		}
		js, err := json.Marshal(m)
		if err != nil {
			return nil, err
		}
		if err := os.WriteFile(filepath.Join(bd, "meta.json"), js, 0o644); err != nil {
			return nil, err
		}
	}
	res, err := lc.Plan(dir)
	if err != nil {
		return nil, err
	}
	for _, d := range res {
		u, err := ulid.ParseStrict(filepath.Base(d))
		if err != nil {
			return nil, err
		}
		ids = append(ids, idOf(u))
	}
	return ids, nil
}

func realCBM(uid int64, bs []blk) (out *tsdb.BlockMeta, panicked bool) {
	defer func() {
		if r := recover(); r != nil {
			out, panicked = nil, true
		}
	}()
	ms := make([]*tsdb.BlockMeta, len(bs))
	for i, b := range bs {
		ms[i] = b.meta()
	}
	return tsdb.CompactBlockMetas(mkULID(uid), ms...), false
}

func byID(bs []blk, ids []int64) []blk {
	var r []blk
	for _, id := range ids {
		for _, b := range bs {
			if b.ID == id {
				r = append(r, b)
			}
		}
	}
	return r
}

// step: one iteration of the DB.compactBlocks loop on metadata, with the real plan and the
// real CompactBlockMetas; the merged block gets zero Stats (rewritten: no tombstones).
func step(lc *tsdb.LeveledCompactor, bs []blk, next int64) (nbs []blk, done, panicked bool) {
	p, pp := realPlan(lc, bs)
	if pp {
		return nil, false, true
	}
	if len(p) == 0 {
		return bs, true, false
	}
	nm, cp := realCBM(next, byID(bs, p))
	if cp {
		return nil, false, true
	}
	in := map[int64]bool{}
	for _, id := range p {
		in[id] = true
	}
	for _, b := range bs {
		if !in[b.ID] {
			nbs = append(nbs, b)
		}
	}
	nb := fromMeta(nm)
	nb.Tomb, nb.Series = 0, 0
	return append(nbs, nb), false, false
}

func sane(c config, bs []blk) bool {
	const lim = int64(1) << 61
	if len(c.Ranges) == 0 {
		return false
	}
	for _, r := range c.Ranges {
		if r <= 0 || r > lim {
			return false
		}
	}
	seen := map[int64]bool{}
	for _, b := range bs {
		if b.Min < -lim || b.Min > b.Max || b.Max > lim || seen[b.ID] {
			return false
		}
		seen[b.ID] = true
	}
	return true
}

type desc struct {
	Cfg    config  `json:"cfg"`
	Blocks []blk   `json:"blocks"`
	Plan   []int64 `json:"plan"`
	Obs    string  `json:"obs"`
	Loop   string  `json:"loop"`
	Shape  string  `json:"shape"`
	Corpus string  `json:"corpus,omitempty"`
}

func main() {
	f := gallina.ParseFlags()
	meta := gallina.NewMeta("C08", f.Seed, f.Tier)
	meta.Rule = "corpus (upstream test tables, #18379 class mixing, negative-time splitByRange, tombstone boundaries, disabled-overlap group) + exhaustive enumeration of aligned block sets (intervals over a slot grid, all subsets up to a size bound) + seeded random block sets (<=12 blocks; aligned/misaligned/negative/overlapping ranges, failed flags, tombstone ratio boundaries, all hint combinations, int64-extreme and malformed inputs); every case = one real plan call + one real CompactBlockMetas call + the real plan/CompactBlockMetas loop to the empty plan; non-trivial = at least 2 blocks; distinct by (config, blocks)"
	perShard := 300
	if f.Tier == "thorough" {
		perShard = 1000
	}
	cf := &gallina.CaseFile{Dir: f.Out, Type: "case", PerShard: perShard,
		Preamble: "From Coq Require Import List ZArith.\nFrom Verif Require Import lib.Int64 model.Plan corr.CorrC08.\nImport ListNotations.\nOpen Scope Z_scope.\n",
		Footer:   gallina.StdFooter}
	id := 0
	seen := map[string]bool{}
	diskBudget := f.Count(150, 2000)

	var emit func(c config, bs []blk, r *gen.Rand, corpus string, depth int)
	emit = func(c config, bs []blk, r *gen.Rand, corpus string, depth int) {
		key := fmt.Sprint(c, bs)
		if seen[key] {
			return
		}
		seen[key] = true
		lc := newCompactor(c)
		var next int64
		for _, b := range bs {
			if b.ID >= next {
				next = b.ID + 1
			}
		}
		// 1. plan
		p, pp := realPlan(lc, bs)
		obsPlan, obsS := "ObsPlanPanic", "panic"
		if !pp {
			obsPlan, obsS = "(ObsPlan "+gallina.ListZ(p)+")", "ok"
		}
		kind := "panic"
		if !pp {
			pb := byID(bs, p)
			switch {
			case len(p) == 0:
				kind = "empty"
			case len(p) == 1:
				kind = "tomb"
			default:
				ov := false
				for i := 1; i < len(pb); i++ {
					for j := 0; j < i; j++ {
						if pb[i].Min < pb[j].Max && pb[j].Min < pb[i].Max {
							ov = true
						}
					}
				}
				if ov && c.Overlap {
					kind = "overlap"
				} else if ov {
					kind = "range-overlapping-disabled"
				} else {
					kind = "range"
				}
			}
		}
		meta.Hit("plan:" + kind)
		classes := map[string]bool{}
		for _, b := range bs {
			switch {
			case b.Stale:
				classes["stale"] = true
			case b.Sel:
				classes["sel"] = true
			default:
				classes["regular"] = true
			}
		}
		meta.Hit(fmt.Sprintf("classes:%d", len(classes)))
		isSane := sane(c, bs)
		if isSane {
			meta.Hit("input:sane")
		} else {
			meta.Hit("input:extreme-or-malformed")
		}
		neg := false
		for _, b := range bs {
			if b.Min < 0 {
				neg = true
			}
		}
		if neg {
			meta.Hit("input:negative-times")
		}
		// cross-check with the exported Plan(dir) on disk
		if !pp && diskBudget > 0 {
			diskBudget--
			dp, err := diskPlan(lc, f.Out, bs)
			if err != nil || fmt.Sprint(dp) != fmt.Sprint(p) {
				meta.GoViol = append(meta.GoViol, gallina.GoViolation{ID: fmt.Sprint(id), Shape: "plan-dir-differs",
					What: fmt.Sprintf("Plan(dir) = %v (err %v) but plan(metas) = %v", dp, err, p)})
			}
			meta.Hit("disk-plan-crosscheck")
		}
		// 2. CompactBlockMetas
		obsCbm := "CbmNone"
		var sel []int64
		switch {
		case r != nil && r.Chance(1, 50):
			sel = nil
		case len(p) > 0 && (r == nil || r.Chance(2, 3)):
			sel = p
		case len(bs) > 0:
			k := 1
			if r != nil {
				k = 1 + r.Intn(4)
			}
			perm := make([]int, len(bs))
			for i := range perm {
				perm[i] = i
			}
			if r != nil {
				for i := len(perm) - 1; i > 0; i-- {
					j := r.Intn(i + 1)
					perm[i], perm[j] = perm[j], perm[i]
				}
			}
			for i := 0; i < k && i < len(perm); i++ {
				sel = append(sel, bs[perm[i]].ID)
			}
		}
		if r != nil || len(sel) > 0 {
			in := byID(bs, sel)
			nm, cp := realCBM(next, in)
			if cp {
				obsCbm = "(CbmPanic " + gallina.ListZ(sel) + ")"
				meta.Hit("cbm:panic")
			} else {
				nb := fromMeta(nm)
				par := make([]string, len(nm.Compaction.Parents))
				for i, pd := range nm.Compaction.Parents {
					par[i] = fmt.Sprintf("(%s, %s, %s)", gallina.Z(idOf(pd.ULID)), gallina.Z(pd.MinTime), gallina.Z(pd.MaxTime))
				}
				obsCbm = fmt.Sprintf("(CbmOk %s %s %s %s)", gallina.Z(next), gallina.ListZ(sel), nb.gallina(), gallina.List(par))
				allO, anyO := true, false
				for _, b := range in {
					allO = allO && b.OOO
					anyO = anyO || b.OOO
				}
				switch {
				case allO:
					meta.Hit("cbm:all-ooo")
				case anyO:
					meta.Hit("cbm:some-ooo")
				default:
					meta.Hit("cbm:no-ooo")
				}
			}
		}
		// 3. loop to the empty plan
		cur, n := bs, 0
		nx := next
		var first []blk
		obsLoop, loopS := "", ""
		for {
			if n >= loopCap {
				obsLoop, loopS = "LoopCap", "cap"
				break
			}
			nbs, done, lp := step(lc, cur, nx)
			if lp {
				obsLoop, loopS = "LoopPanic", "panic"
				break
			}
			if done {
				obsLoop, loopS = fmt.Sprintf("(LoopSteps %s)", gallina.Z(int64(n))), fmt.Sprint(n)
				break
			}
			if n == 0 {
				first = nbs
			}
			cur = nbs
			nx++
			n++
		}
		meta.Hit("loop:" + map[bool]string{true: "0", false: map[bool]string{true: "1-3", false: ">3"}[n <= 3]}[n == 0])
		if len(bs) >= 2 {
			meta.Nontrivial++
		}
		cf.Add(fmt.Sprintf("mkCase %s (mkCfg %s %s) %s %s %s %s %s", gallina.Z(int64(id)), gallina.ListZ(c.Ranges), gallina.Bool(c.Overlap),
			blks(bs), obsPlan, obsCbm, gallina.Z(next), obsLoop))
		meta.Case(id, desc{Cfg: c, Blocks: bs, Plan: p, Obs: obsS, Loop: loopS, Shape: kind, Corpus: corpus})
		meta.Evaluations++
		id++
		// the state after the first compaction is a case of its own (reachable states)
		if first != nil && depth < 3 && (r == nil || r.Chance(1, 2)) {
			emit(c, first, r, strings.TrimSpace(corpus+" derived"), depth+1)
		}
	}

	B := func(id, min, max int64) blk { return blk{ID: id, Min: min, Max: max, Level: 1, Series: 10} }
	seq := func(rs ...[2]int64) []blk {
		var l []blk
		for i, r := range rs {
			l = append(l, B(int64(i), r[0], r[1]))
		}
		return l
	}
	def := config{Ranges: []int64{20, 60, 180, 540, 1620}, Overlap: true}

	// ---- corpus
	emit(def, seq([2]int64{0, 20}), nil, "single block", 0)
	emit(def, seq([2]int64{0, 20}, [2]int64{20, 40}), nil, "newest excluded", 0)
	emit(def, seq([2]int64{0, 20}, [2]int64{20, 40}, [2]int64{40, 60}), nil, "two of three", 0)
	emit(def, seq([2]int64{0, 20}, [2]int64{20, 40}, [2]int64{40, 60}, [2]int64{60, 80}), nil, "full range 0-60", 0)
	emit(def, seq([2]int64{0, 20}, [2]int64{20, 40}, [2]int64{60, 80}, [2]int64{80, 100}), nil, "gap", 0)
	emit(def, seq([2]int64{0, 60}, [2]int64{60, 120}, [2]int64{120, 180}, [2]int64{180, 200}, [2]int64{200, 220}), nil, "higher level", 0)
	emit(def, seq([2]int64{0, 20}, [2]int64{19, 40}, [2]int64{40, 60}), nil, "overlap pair", 0)
	emit(def, seq([2]int64{0, 360}, [2]int64{340, 560}, [2]int64{360, 420}, [2]int64{420, 540}, [2]int64{600, 620}), nil, "overlap chain", 0)
	emit(def, seq([2]int64{0, 10}, [2]int64{9, 20}, [2]int64{30, 40}, [2]int64{39, 50}), nil, "two overlap groups, first wins", 0)
	emit(config{Ranges: def.Ranges, Overlap: false}, seq([2]int64{0, 10}, [2]int64{5, 15}, [2]int64{20, 30}, [2]int64{60, 70}, [2]int64{100, 110}), nil, "disabled overlap: range group contains overlapping blocks", 0)
	emit(def, seq([2]int64{-60, -40}, [2]int64{-40, -20}, [2]int64{-20, 0}, [2]int64{0, 20}), nil, "negative aligned", 0)
	emit(def, seq([2]int64{-61, -41}, [2]int64{-41, -21}, [2]int64{-21, -1}, [2]int64{0, 20}), nil, "negative misaligned", 0)
	emit(def, seq([2]int64{-1, 0}, [2]int64{0, 1}, [2]int64{1, 2}, [2]int64{30, 31}), nil, "straddling zero", 0)
	{
		l := seq([2]int64{0, 20}, [2]int64{20, 40}, [2]int64{40, 60}, [2]int64{60, 80})
		l[1].Failed = true
		emit(def, l, nil, "failed block in range", 0)
	}
	{ // #18379: stale and regular never merged, regular preferred
		l := seq([2]int64{0, 20}, [2]int64{20, 40}, [2]int64{40, 60}, [2]int64{0, 20}, [2]int64{20, 40}, [2]int64{40, 60})
		l[3].Stale, l[4].Stale, l[5].Stale = true, true, true
		emit(def, l, nil, "stale and regular same ranges", 0)
		l2 := append([]blk{}, l...)
		l2[0].Sel, l2[1].Sel, l2[2].Sel = true, true, true
		l2[3].OOO = true
		emit(def, l2, nil, "stale(+ooo) and selected", 0)
		l3 := append([]blk{}, l[:4]...)
		l3[1].Stale, l3[1].Sel = true, true
		emit(def, l3, nil, "block with both partial hints is stale class", 0)
	}
	for _, tc := range [][2]uint64{{0, 0}, {1, 0}, {1, 19}, {1, 18}, {1, 20}, {2, 38}, {2, 39}, {2, 40}, {5, 5}, {5, 6}, {4, 5}, {0, 5}, {1, math.MaxUint64}, {0, math.MaxUint64}} {
		for _, w := range []int64{20, 179, 180, 181, 540} {
			l := seq([2]int64{0, w}, [2]int64{2000, 2020}, [2]int64{4000, 4020})
			l[0].Tomb, l[0].Series = tc[0], tc[1]
			emit(def, l, nil, "tombstone boundary", 0)
		}
	}
	emit(config{Ranges: []int64{20}, Overlap: true}, seq([2]int64{0, 20}, [2]int64{20, 40}, [2]int64{40, 60}), nil, "single range", 0)
	emit(config{Ranges: []int64{20, 0, 60}, Overlap: true}, seq([2]int64{0, 20}, [2]int64{20, 40}, [2]int64{40, 60}), nil, "zero range panics", 0)
	emit(config{Ranges: []int64{20, 60}, Overlap: true}, seq([2]int64{math.MinInt64, math.MinInt64 + 20}, [2]int64{math.MinInt64 + 20, math.MinInt64 + 40}, [2]int64{0, 20}), nil, "minint64 wrap", 0)
	emit(config{Ranges: []int64{20, 60}, Overlap: true}, seq([2]int64{math.MaxInt64 - 40, math.MaxInt64 - 20}, [2]int64{math.MaxInt64 - 20, math.MaxInt64}, [2]int64{math.MaxInt64, math.MaxInt64}), nil, "maxint64 wrap", 0)

	// ---- exhaustive enumeration of aligned universes
	enum := func(slots, maxK int, c config, base int64) {
		var ivs [][2]int64
		for i := 0; i < slots; i++ {
			for j := i + 1; j <= slots; j++ {
				ivs = append(ivs, [2]int64{int64(i), int64(j)})
			}
		}
		var rec func(from int, cur [][2]int64)
		cnt := 0
		rec = func(from int, cur [][2]int64) {
			if len(cur) > 0 {
				cnt++
				off := int64(0)
				if cnt%2 == 0 {
					off = -int64(slots/2) * base
				}
				var l []blk
				for i, iv := range cur {
					l = append(l, B(int64(i), off+iv[0]*base, off+iv[1]*base))
				}
				emit(c, l, nil, "", 3)
			}
			if len(cur) == maxK {
				return
			}
			for a := from; a < len(ivs); a++ {
				rec(a+1, append(cur[:len(cur):len(cur)], ivs[a]))
			}
		}
		rec(0, nil)
	}
	if f.Tier == "thorough" {
		enum(7, 4, config{Ranges: []int64{10, 20, 40}, Overlap: true}, 10)
		enum(6, 5, config{Ranges: []int64{10, 30, 60}, Overlap: true}, 10)
		enum(6, 3, config{Ranges: []int64{10, 20, 40}, Overlap: false}, 10)
	} else {
		enum(6, 2, config{Ranges: []int64{10, 20, 40}, Overlap: true}, 10)
		enum(4, 3, config{Ranges: []int64{10, 30}, Overlap: true}, 10)
		enum(4, 2, config{Ranges: []int64{10, 20, 40}, Overlap: false}, 10)
	}

	// ---- seeded random
	n := f.Count(800, 20000)
	for i := 0; i < n; i++ {
		r := gen.Fork(f.Seed, i)
		var c config
		base := r.PickI64(10, 20, 7, 100)
		mult := r.PickI64(2, 3, 3, 5)
		k := 1 + r.Intn(4)
		if r.Chance(3, 4) && k < 2 {
			k = 3
		}
		x := base
		for j := 0; j < k; j++ {
			c.Ranges = append(c.Ranges, x)
			x *= mult
		}
		if r.Chance(1, 10) && k > 1 { // ranges that are not multiples of each other
			c.Ranges[r.Intn(k-1)+1] += r.Range(1, base)
		}
		c.Overlap = !r.Chance(1, 5)
		mode := r.Intn(20)
		switch mode {
		case 0: // zero / negative range (never configured; the model says panic / whatever Go computes)
			c.Ranges[r.Intn(k)] = r.PickI64(0, -base, -1)
		case 1:
			c.Ranges = append(c.Ranges, r.PickI64(math.MaxInt64, 1<<62, 1<<61, (1<<61)+1))
		}
		nb := 1 + r.Intn(12)
		if r.Chance(1, 30) {
			nb = 0
		}
		var bs []blk
		t := r.Range(-6, 3) * base * mult
		if mode == 2 || mode == 1 { // int64 extremes
			t = r.PickI64(math.MinInt64, math.MinInt64+base, math.MaxInt64-int64(nb+2)*base*3, -(1 << 61), (1<<61)-3*base)
		}
		if t%base != 0 && r.Chance(2, 3) {
			t -= t % base
		}
		mixed := r.Chance(2, 5)
		hintMode := r.Intn(4) // which single class when not mixed: 0,1 regular 2 stale 3 selected
		failP := 0
		if r.Chance(1, 4) {
			failP = 6
		}
		tombP := 0
		if r.Chance(1, 2) {
			tombP = 3
		}
		for j := 0; j < nb; j++ {
			w := base
			if r.Chance(1, 4) { // an already compacted block
				w = base * mult
				if r.Chance(1, 3) {
					w *= mult
				}
			}
			b := blk{Min: t, Max: t + w, Level: 1 + r.Intn(3), Series: uint64(r.Range(0, 50))}
			if b.Max < b.Min { // wrapped
				b.Max = math.MaxInt64
			}
			switch r.Intn(12) {
			case 0:
				b.Min += r.Range(1, 3) // misaligned
			case 1:
				b.Max -= r.Range(1, 3)
			case 2:
				b.Max += r.Range(1, base) // overlaps the next / crosses the range
			case 3:
				if r.Chance(1, 4) {
					b.Max = b.Min // zero length
				}
			case 4:
				if r.Chance(1, 6) {
					b.Min, b.Max = b.Max, b.Min-1 // malformed
				}
			}
			if failP > 0 && r.Chance(1, failP) {
				b.Failed = true
			}
			if tombP > 0 && r.Chance(1, tombP) {
				s := b.Series
				b.Tomb = uint64(gen.Pick(r, []int64{1, int64(s+1) / 20, int64(s+1)/20 + 1, int64(s), int64(s) + 1, int64(s) - 1, 1000}))
				if int64(b.Tomb) < 0 {
					b.Tomb = 0
				}
				if r.Chance(1, 40) {
					b.Series = math.MaxUint64
				}
			}
			if mixed {
				b.Stale, b.Sel = r.Chance(1, 3), r.Chance(1, 3)
			} else {
				b.Stale, b.Sel = hintMode == 2, hintMode == 3
			}
			b.OOO = r.Chance(1, 3)
			b.ExtraHint = r.Chance(1, 10)
			for q := r.Intn(3); q > 0; q-- {
				b.Sources = append(b.Sources, r.Range(100, 110))
			}
			bs = append(bs, b)
			// next start: mostly adjacent, sometimes a gap, sometimes the same start (ties), sometimes back (overlap)
			switch r.Intn(10) {
			case 0, 1:
				t += w + base*r.Range(1, 4)
			case 2:
				// same MinTime again
			case 3:
				t += w / 2
			default:
				t += w
			}
			if t < b.Min && t < 0 && b.Min > 0 { // wrapped around
				t = math.MaxInt64 - base
			}
		}
		if r.Chance(1, 3) { // input order differs from time order
			for a := len(bs) - 1; a > 0; a-- {
				j := r.Intn(a + 1)
				bs[a], bs[j] = bs[j], bs[a]
			}
		}
		for j := range bs {
			bs[j].ID = int64(j)
		}
		emit(c, bs, r, "", 0)
	}
	cf.Flush()
	meta.Write(f.Out)
}

// h_c29: correspondence harness for C29 (aggregations and binary operators).
// For every case it serves two generated instant vectors (selectors `l` and `r`) from an
// in-memory storage.Queryable, runs the REAL promql engine on one generated aggregation /
// binary-operator expression as an instant query, and writes the vectors, the expression
// (as a Gallina AST) and the observed result (error kind, or the result vector in the engine's
// order with float64 values as NaN / +-Inf / exact rationals) for Coq.
package main

import (
	"context"
	"fmt"
	"math"
	"math/big"
	"os"
	"sort"
	"strconv"
	"strings"
	"time"

	"github.com/prometheus/prometheus/model/histogram"
	"github.com/prometheus/prometheus/model/labels"
	"github.com/prometheus/prometheus/promql"
	"github.com/prometheus/prometheus/promql/parser"
	"github.com/prometheus/prometheus/storage"
	"github.com/prometheus/prometheus/tsdb/chunkenc"
	"github.com/prometheus/prometheus/tsdb/chunks"
	"github.com/prometheus/prometheus/util/annotations"

	"verif/harness/internal/gallina"
	"verif/harness/internal/gen"
)

const evalTs = int64(1000000)

// ---- in-memory vectors -----------------------------------------------------------------------

type lbl struct{ N, V string }

type smp struct {
	L []lbl   `json:"-"`
	F float64 `json:"-"`
}

func (s smp) String() string {
	var sb strings.Builder
	sb.WriteString("{")
	for i, l := range s.L {
		if i > 0 {
			sb.WriteString(",")
		}
		sb.WriteString(l.N + "=" + strconv.Quote(l.V))
	}
	sb.WriteString("} " + fstr(s.F))
	return sb.String()
}

type cs struct {
	t int64
	f float64
}

func (c cs) T() int64                    { return c.t }
func (cs) ST() int64                     { return 0 }
func (c cs) F() float64                  { return c.f }
func (cs) H() *histogram.Histogram       { return nil }
func (cs) FH() *histogram.FloatHistogram { return nil }
func (cs) Type() chunkenc.ValueType      { return chunkenc.ValFloat }
func (c cs) Copy() chunks.Sample         { return c }

type sliceSet struct {
	ss []storage.Series
	i  int
}

func (o *sliceSet) Next() bool                       { o.i++; return o.i <= len(o.ss) }
func (o *sliceSet) At() storage.Series               { return o.ss[o.i-1] }
func (*sliceSet) Err() error                         { return nil }
func (*sliceSet) Warnings() annotations.Annotations { return nil }

func toLabels(l []lbl) labels.Labels {
	ls := make([]labels.Label, len(l))
	for i, x := range l {
		ls[i] = labels.Label{Name: x.N, Value: x.V}
	}
	return labels.New(ls...)
}

func seriesOf(v []smp) []storage.Series {
	out := make([]storage.Series, len(v))
	for i, s := range v {
		out[i] = storage.NewListSeries(toLabels(s.L), []chunks.Sample{cs{evalTs, s.F}})
	}
	return out
}

// The selector `l` yields the left vector and `r` the right one, whatever their labels are:
// the engine does not re-check matchers, so the operators see arbitrary label sets
// (including series without a metric name).
func queryable(lhs, rhs []smp) storage.Queryable {
	return &storage.MockQueryable{MockQuerier: &storage.MockQuerier{
		SelectMockFunction: func(_ bool, _ *storage.SelectHints, ms ...*labels.Matcher) storage.SeriesSet {
			for _, m := range ms {
				if m.Name == labels.MetricName && m.Type == labels.MatchEqual {
					switch m.Value {
					case "l":
						return &sliceSet{ss: seriesOf(lhs)}
					case "r":
						return &sliceSet{ss: seriesOf(rhs)}
					}
				}
			}
			return &sliceSet{}
		}}}
}

func newEngine() *promql.Engine {
	return promql.NewEngine(promql.EngineOpts{
		MaxSamples:               1000000,
		Timeout:                  100 * time.Second,
		NoStepSubqueryIntervalFn: func(int64) int64 { return 60000 },
		EnableAtModifier:         true,
		EnableNegativeOffset:     true,
		LookbackDelta:            5 * time.Minute,
		Parser: parser.NewParser(parser.Options{
			EnableExperimentalFunctions: true,
			EnableBinopFillModifiers:    true,
		}),
	})
}

type outcome struct {
	err  string // "" = ok, else the Gallina constructor
	msg  string
	vec  []smp
	warn int
}

func classify(msg string) string {
	switch {
	case strings.Contains(msg, "found duplicate series for the match group") && strings.Contains(msg, "on the right hand-side"):
		return "ErrDupRight"
	case strings.Contains(msg, "found duplicate series for the match group") && strings.Contains(msg, "on the left hand-side"):
		return "ErrDupLeft"
	case strings.Contains(msg, "many-to-one matching must be explicit"):
		return "ErrManyToOne"
	case strings.Contains(msg, "grouping labels must ensure unique matches"):
		return "ErrGroupUnique"
	case strings.Contains(msg, "vector cannot contain metrics with the same labelset"):
		return "ErrSameLabelset"
	case strings.Contains(msg, "Parameter value is NaN"):
		return "ErrParamNaN"
	case strings.Contains(msg, "overflows int64"):
		return "ErrParamOverflow"
	}
	return "ErrOther"
}

func run(ng *promql.Engine, lhs, rhs []smp, expr string) (o outcome) {
	defer func() {
		if r := recover(); r != nil {
			o = outcome{err: "ErrOther", msg: fmt.Sprintf("panic: %v", r)}
		}
	}()
	qry, err := ng.NewInstantQuery(context.Background(), queryable(lhs, rhs), nil, expr, time.UnixMilli(evalTs))
	if err != nil {
		fmt.Fprintf(os.Stderr, "generator produced an unparsable expression %q: %v\n", expr, err)
		os.Exit(2)
	}
	defer qry.Close()
	res := qry.Exec(context.Background())
	if res.Err != nil {
		return outcome{err: classify(res.Err.Error()), msg: res.Err.Error()}
	}
	vec, err := res.Vector()
	if err != nil {
		return outcome{err: "ErrOther", msg: err.Error()}
	}
	for _, s := range vec {
		if s.H != nil {
			return outcome{err: "ErrOther", msg: "histogram in result"}
		}
		var l []lbl
		s.Metric.Range(func(x labels.Label) { l = append(l, lbl{x.Name, x.Value}) })
		o.vec = append(o.vec, smp{L: l, F: s.F})
	}
	o.warn = len(res.Warnings)
	return o
}

// ---- printing ---------------------------------------------------------------------------------

func fstr(f float64) string {
	switch {
	case math.IsNaN(f):
		return "NaN"
	case math.IsInf(f, 1):
		return "Inf"
	case math.IsInf(f, -1):
		return "-Inf"
	}
	return strconv.FormatFloat(f, 'g', -1, 64)
}

func fvalTerm(f float64) string {
	switch {
	case math.IsNaN(f):
		return "FNaN"
	case math.IsInf(f, 1):
		return "(FInf false)"
	case math.IsInf(f, -1):
		return "(FInf true)"
	}
	r := new(big.Rat).SetFloat64(f)
	num, den := r.Num().String(), r.Denom().String()
	if strings.HasPrefix(num, "-") {
		num = "(" + num + ")"
	}
	return internTerm("q", "fval", "(fq "+num+" "+den+")")
}

func optF(p *float64) string {
	if p == nil {
		return "None"
	}
	return "(Some " + fvalTerm(*p) + ")"
}

// strings are interned: each distinct string becomes one `Definition sN : str` in the preamble
var internTab = map[string]string{}
var internDefs []string

func S(s string) string {
	if s == "" {
		return "(@nil N)"
	}
	if n, ok := internTab[s]; ok {
		return n
	}
	n := fmt.Sprintf("s%d", len(internTab))
	internTab[s] = n
	internDefs = append(internDefs, "Definition "+n+" : str := "+gallina.Str(s)+".")
	return n
}

// whole label sets and float values are interned as well: elaborating a case file costs
// about 1 ms per application node, and label sets / values repeat across cases
var termTab = map[string]string{}

func internTerm(prefix, typ, term string) string {
	if n, ok := termTab[term]; ok {
		return n
	}
	n := fmt.Sprintf("%s%d", prefix, len(termTab))
	termTab[term] = n
	internDefs = append(internDefs, "Definition "+n+" : "+typ+" := "+term+".")
	return n
}

func strList(ss []string) string {
	t := "sn"
	for i := len(ss) - 1; i >= 0; i-- {
		t = "(sc " + S(ss[i]) + " " + t + ")"
	}
	return t
}

func labelsTerm(l []lbl) string {
	t := "ln"
	for i := len(l) - 1; i >= 0; i-- {
		t = "(lc " + S(l[i].N) + " " + S(l[i].V) + " " + t + ")"
	}
	if len(l) == 0 {
		return t
	}
	return internTerm("L", "labels", t)
}

func vecTerm(v []smp) string {
	t := "vn"
	for i := len(v) - 1; i >= 0; i-- {
		t = "(vc " + labelsTerm(v[i].L) + " " + fvalTerm(v[i].F) + " " + t + ")"
	}
	return t
}

func vecStrings(v []smp) []string {
	out := make([]string, len(v))
	for i, s := range v {
		out[i] = s.String()
	}
	return out
}

// ---- expressions --------------------------------------------------------------------------------

type exprT struct {
	kind string // agg, bin, set, vs
	// agg
	aggOp    string
	without  bool
	grouping []string
	hasGroup bool
	param    float64
	vlabel   string
	// bin / vs / set
	op       string
	retBool  bool
	card     string // OneToOne, ManyToOne, OneToMany
	on       bool
	hasMatch bool
	mlabels  []string
	include  []string
	hasIncl  bool
	fillL    *float64
	fillR    *float64
	swap     bool
	scalar   float64
}

var aggCtor = map[string]string{"sum": "ASum", "avg": "AAvg", "min": "AMin", "max": "AMax", "count": "ACount",
	"group": "AGroup", "stdvar": "AStdvar", "stddev": "AStddev", "quantile": "AQuantile", "topk": "ATopk",
	"bottomk": "ABottomk", "limitk": "ALimitk", "count_values": "ACountValues"}
var binCtor = map[string]string{"+": "OAdd", "-": "OSub", "*": "OMul", "/": "ODiv", "%": "OMod",
	"==": "OEq", "!=": "ONe", ">": "OGt", "<": "OLt", ">=": "OGe", "<=": "OLe"}
var setCtor = map[string]string{"and": "SAnd", "or": "SOr", "unless": "SUnless"}

func isCmp(op string) bool {
	switch op {
	case "==", "!=", ">", "<", ">=", "<=":
		return true
	}
	return false
}

func (e exprT) promql() string {
	switch e.kind {
	case "agg":
		s := e.aggOp
		if e.hasGroup {
			if e.without {
				s += " without (" + strings.Join(e.grouping, ", ") + ")"
			} else {
				s += " by (" + strings.Join(e.grouping, ", ") + ")"
			}
		}
		switch e.aggOp {
		case "quantile", "topk", "bottomk", "limitk":
			return s + " (" + fstr(e.param) + ", l)"
		case "count_values":
			return s + " (" + strconv.Quote(e.vlabel) + ", l)"
		}
		return s + " (l)"
	case "vs":
		b := ""
		if e.retBool {
			b = " bool"
		}
		sc := fstr(e.scalar)
		if e.swap {
			return sc + " " + e.op + b + " l"
		}
		return "l " + e.op + b + " " + sc
	}
	s := "l " + e.op
	if e.retBool {
		s += " bool"
	}
	if e.hasMatch {
		if e.on {
			s += " on (" + strings.Join(e.mlabels, ", ") + ")"
		} else {
			s += " ignoring (" + strings.Join(e.mlabels, ", ") + ")"
		}
	}
	switch e.card {
	case "ManyToOne":
		s += " group_left"
	case "OneToMany":
		s += " group_right"
	}
	if e.hasIncl {
		s += " (" + strings.Join(e.include, ", ") + ")"
	}
	switch {
	case e.fillL != nil && e.fillR != nil && math.Float64bits(*e.fillL) == math.Float64bits(*e.fillR):
		s += " fill (" + fstr(*e.fillL) + ")"
	default:
		if e.fillL != nil {
			s += " fill_left (" + fstr(*e.fillL) + ")"
		}
		if e.fillR != nil {
			s += " fill_right (" + fstr(*e.fillR) + ")"
		}
	}
	return s + " r"
}

func (e exprT) term() string {
	switch e.kind {
	case "agg":
		return fmt.Sprintf("(EAgg %s %s %s %s %s)", aggCtor[e.aggOp], gallina.Bool(e.without), strList(e.grouping),
			fvalTerm(e.param), S(e.vlabel))
	case "vs":
		return fmt.Sprintf("(EVS %s %s %s %s)", binCtor[e.op], gallina.Bool(e.retBool), gallina.Bool(e.swap), fvalTerm(e.scalar))
	case "set":
		return fmt.Sprintf("(ESet %s %s %s)", setCtor[e.op], gallina.Bool(e.on), strList(e.mlabels))
	}
	return fmt.Sprintf("(EBin %s %s (mkMatching %s %s %s %s %s %s))", binCtor[e.op], gallina.Bool(e.retBool), e.card,
		gallina.Bool(e.on), strList(e.mlabels), strList(e.include), optF(e.fillL), optF(e.fillR))
}

// ---- generators -----------------------------------------------------------------------------------

var lnames = []string{"a", "b", "c"}
var lvals = []string{"1", "2", "x"}

func genLabels(r *gen.Rand, dense bool) []lbl {
	var l []lbl
	switch r.Intn(10) {
	case 0: // no metric name
	case 1, 2:
		l = append(l, lbl{"__name__", "n"})
	default:
		l = append(l, lbl{"__name__", "m"})
	}
	if r.Chance(1, 12) {
		l = append(l, lbl{"__type__", gen.Pick(r, []string{"gauge", "counter"})})
	}
	if r.Chance(1, 25) {
		l = append(l, lbl{"__unit__", "s"})
	}
	for _, n := range lnames {
		p := 2
		if dense {
			p = 3
		}
		if r.Chance(p, 4) {
			l = append(l, lbl{n, gen.Pick(r, lvals[:2+r.Intn(2)])})
		}
	}
	if r.Chance(1, 8) {
		l = append(l, lbl{"job", gen.Pick(r, []string{"j", "k"})})
	}
	sort.Slice(l, func(i, j int) bool { return l[i].N < l[j].N })
	return l
}

func keyOf(l []lbl) string {
	var sb strings.Builder
	for _, x := range l {
		sb.WriteString(x.N + "\xff" + x.V + "\xff")
	}
	return sb.String()
}

// value pools
func genValue(r *gen.Rand, kind int) float64 {
	switch kind {
	case 0: // small integers, many ties
		return float64(r.Range(-2, 3))
	case 1: // dyadic
		return float64(r.Range(-40, 80)) / float64(int64(1)<<uint(r.Intn(4)))
	case 2: // specials mixed in
		switch r.Intn(8) {
		case 0, 1:
			return math.NaN()
		case 2:
			return math.Inf(1)
		case 3:
			return math.Inf(-1)
		case 4:
			return 0
		}
		return float64(r.Range(-6, 12)) / 2
	case 3: // huge, one sign: sums overflow float64
		return gen.Pick(r, []float64{0x1p1023, 0x1p1022, 0x1.8p1023, 0x1p1021})
	case 4:
		return -gen.Pick(r, []float64{0x1p1023, 0x1p1022, 0x1.8p1023, 0x1p1021})
	case 5: // non-negative integers
		return float64(r.Range(0, 20))
	}
	// NaN-heavy
	if r.Chance(1, 2) {
		return math.NaN()
	}
	return float64(r.Range(0, 3))
}

func genVector(r *gen.Rand, n, kind int, dense bool) []smp {
	seen := map[string]bool{}
	var v []smp
	for tries := 0; len(v) < n && tries < 4*n+4; tries++ {
		l := genLabels(r, dense)
		k := keyOf(l)
		if seen[k] {
			continue
		}
		seen[k] = true
		v = append(v, smp{L: l, F: genValue(r, kind)})
	}
	return v
}

// a right-hand vector related to lhs: label sets derived from lhs so that signatures meet
func genRelated(r *gen.Rand, lhs []smp, n, kind int) []smp {
	seen := map[string]bool{}
	var v []smp
	for tries := 0; len(v) < n && tries < 4*n+4; tries++ {
		var l []lbl
		val := genValue(r, kind)
		if len(lhs) > 0 && r.Chance(3, 4) {
			si := r.Intn(len(lhs))
			src := lhs[si].L
			if r.Chance(1, 3) { // equal operands: ties of the comparison operators
				val = lhs[si].F
			}
			for _, x := range src {
				switch {
				case x.N == "__name__":
					switch r.Intn(4) {
					case 0:
						l = append(l, x)
					case 1:
					default:
						l = append(l, lbl{"__name__", "n"})
					}
				case r.Chance(1, 6): // drop the label
				case r.Chance(1, 8):
					l = append(l, lbl{x.N, gen.Pick(r, lvals)})
				default:
					l = append(l, x)
				}
			}
			if r.Chance(1, 4) {
				has := false
				for _, x := range l {
					if x.N == "c" {
						has = true
					}
				}
				if !has {
					l = append(l, lbl{"c", gen.Pick(r, lvals)})
				}
			}
			sort.Slice(l, func(i, j int) bool { return l[i].N < l[j].N })
		} else {
			l = genLabels(r, false)
		}
		k := keyOf(l)
		if seen[k] {
			continue
		}
		seen[k] = true
		v = append(v, smp{L: l, F: val})
	}
	return v
}

func subset(r *gen.Rand, pool []string, maxN int) []string {
	var out []string
	for _, p := range pool {
		if len(out) < maxN && r.Chance(1, 2) {
			out = append(out, p)
		}
	}
	r2 := out
	// occasionally unsorted / duplicated names: the engine sorts the grouping itself
	if len(r2) >= 2 && r.Chance(1, 4) {
		r2[0], r2[len(r2)-1] = r2[len(r2)-1], r2[0]
	}
	if len(r2) >= 1 && r.Chance(1, 12) {
		r2 = append(r2, r2[0])
	}
	return r2
}

func fp(f float64) *float64 { return &f }

type tcase struct {
	lhs, rhs []smp
	e        exprT
	corpus   string
}

var simpleAggs = []string{"sum", "avg", "min", "max", "count", "group", "stdvar", "stddev", "quantile"}
var arithOps = []string{"+", "-", "*", "/", "%"}
var cmpOps = []string{"==", "!=", ">", "<", ">=", "<="}

func genCase(r *gen.Rand) tcase {
	var c tcase
	n := r.Intn(7)
	if r.Chance(1, 15) {
		n = 7 + r.Intn(8)
	}
	kind := r.Intn(3)
	if r.Chance(1, 10) {
		kind = 5 + r.Intn(2)
	}
	dense := r.Chance(1, 2)
	switch cls := r.Intn(20); {
	case cls < 7: // simple aggregations
		e := exprT{kind: "agg", aggOp: gen.Pick(r, simpleAggs)}
		switch e.aggOp {
		case "sum", "avg", "min", "max":
			if r.Chance(1, 6) {
				kind = 3 + r.Intn(2)
			}
		}
		switch e.aggOp {
		case "min", "max", "quantile":
			if r.Chance(1, 3) {
				kind = gen.Pick(r, []int{2, 6, 6})
			}
		}
		if e.aggOp == "quantile" {
			e.param = gen.Pick(r, []float64{0, 0.25, 0.5, 0.75, 1, 0.125, 0.875, 0.5, -1, 2, math.NaN(), math.Inf(1), math.Inf(-1), 0.0625})
		}
		genGrouping(r, &e)
		c.e = e
		c.lhs = genVector(r, n, kind, dense)
		if (e.aggOp == "sum" || e.aggOp == "avg") && len(c.lhs) >= 3 && r.Chance(1, 4) {
			// cancelling large terms among small integers: only the compensation term of the
			// Kahan-Neumaier sum keeps the small ones (all operations stay exact)
			big := gen.Pick(r, []float64{0x1p60, 0x1p55, 0x1p70})
			for i := range c.lhs {
				c.lhs[i].F = float64(r.Range(-5, 5))
			}
			p := r.Intn(len(c.lhs))
			q := r.Intn(len(c.lhs) - 1)
			if q >= p {
				q++
			}
			if r.Bool() {
				big = -big
			}
			c.lhs[p].F, c.lhs[q].F = big, -big
			c.corpus = "kahan-cancel"
		}
	case cls < 11: // topk / bottomk / limitk
		e := exprT{kind: "agg", aggOp: gen.Pick(r, []string{"topk", "bottomk", "topk", "bottomk", "limitk"})}
		e.param = gen.Pick(r, []float64{1, 2, 3, 1, 2, 2.5, 5, 0, -1, 0.5, 100, math.NaN(), math.Inf(1), math.Inf(-1), 1e19, 9223372036854775807})
		if r.Chance(1, 6) {
			kind = 3 + r.Intn(2)
		} else if r.Chance(1, 3) {
			kind = gen.Pick(r, []int{2, 6, 6, 0})
		}
		genGrouping(r, &e)
		if r.Chance(1, 3) { // one big group: more members than k
			e.hasGroup, e.without, e.grouping = false, false, nil
		}
		c.e = e
		c.lhs = genVector(r, n, kind, dense)
	case cls < 12: // count_values
		e := exprT{kind: "agg", aggOp: "count_values", vlabel: gen.Pick(r, []string{"v", "v", "a", "b", "__name__", "value"})}
		genGrouping(r, &e)
		c.e = e
		if kind == 1 {
			kind = 0
		}
		c.lhs = genVector(r, n, kind, dense)
	case cls < 17: // vector/vector arithmetic and comparison
		e := exprT{kind: "bin", card: "OneToOne"}
		if r.Chance(1, 2) {
			e.op = gen.Pick(r, arithOps)
		} else {
			e.op = gen.Pick(r, cmpOps)
			e.retBool = r.Chance(1, 3)
		}
		c.lhs = genVector(r, n, kind, dense)
		c.rhs = genRelated(r, c.lhs, r.Intn(6), gen.Pick(r, []int{0, 1, 2, 5}))
		switch r.Intn(5) {
		case 0:
			e.card = "ManyToOne"
		case 1:
			e.card = "OneToMany"
		}
		pool := []string{"a", "b", "c", "job", "__name__"}
		if r.Chance(4, 5) || e.card != "OneToOne" {
			e.hasMatch = true
			e.on = r.Chance(1, 2)
			e.mlabels = subset(r, pool, 3)
		}
		if e.card != "OneToOne" && r.Chance(1, 2) {
			e.hasIncl = true
			for _, p := range []string{"a", "b", "c", "__name__", "d"} {
				inOn := false
				for _, m := range e.mlabels {
					if m == p && e.on {
						inOn = true
					}
				}
				if !inOn && r.Chance(1, 3) {
					e.include = append(e.include, p)
				}
			}
		}
		if r.Chance(2, 5) {
			fv := func() float64 { return gen.Pick(r, []float64{0, 1, -1, 2.5, 7, math.NaN(), math.Inf(1), 30}) }
			switch r.Intn(4) {
			case 0:
				v := fv()
				e.fillL, e.fillR = fp(v), fp(v)
			case 1:
				e.fillL = fp(fv())
			case 2:
				e.fillR = fp(fv())
			default:
				e.fillL, e.fillR = fp(fv()), fp(fv())
			}
		}
		c.e = e
	case cls < 18: // set operators
		e := exprT{kind: "set", op: gen.Pick(r, []string{"and", "or", "unless"}), card: "ManyToMany"}
		c.lhs = genVector(r, n, kind, dense)
		c.rhs = genRelated(r, c.lhs, r.Intn(6), 0)
		if r.Chance(4, 5) {
			e.hasMatch = true
			e.on = r.Chance(1, 2)
			e.mlabels = subset(r, []string{"a", "b", "c", "job", "__name__"}, 3)
		}
		c.e = e
	default: // vector/scalar
		e := exprT{kind: "vs", swap: r.Chance(1, 2)}
		if r.Chance(1, 2) {
			e.op = gen.Pick(r, arithOps)
		} else {
			e.op = gen.Pick(r, cmpOps)
			e.retBool = r.Chance(1, 3)
		}
		e.scalar = gen.Pick(r, []float64{0, 1, 2, -1, 0.5, 3, math.NaN(), math.Inf(1), math.Inf(-1), -2.5})
		c.lhs = genVector(r, n, kind, dense)
		if len(c.lhs) > 0 && r.Chance(1, 3) { // the scalar equals one of the values
			e.scalar = c.lhs[r.Intn(len(c.lhs))].F
		}
		c.e = e
	}
	return c
}

func genGrouping(r *gen.Rand, e *exprT) {
	if r.Chance(5, 6) {
		e.hasGroup = true
		e.without = r.Chance(1, 2)
		e.grouping = subset(r, []string{"a", "b", "c", "job", "__name__", "__type__"}, 3)
	}
}

// ---- corpus -----------------------------------------------------------------------------------------

func L(kv ...string) []lbl {
	var l []lbl
	for i := 0; i+1 < len(kv); i += 2 {
		l = append(l, lbl{kv[i], kv[i+1]})
	}
	sort.Slice(l, func(i, j int) bool { return l[i].N < l[j].N })
	return l
}

func corpus() []tcase {
	nan, inf := math.NaN(), math.Inf(1)
	reqs := []smp{
		{L("__name__", "requests", "method", "GET", "status", "200"), 100},
		{L("__name__", "requests", "method", "POST", "status", "200"), 200},
		{L("__name__", "requests", "method", "GET", "status", "500"), 10},
	}
	limits := []smp{
		{L("__name__", "limits", "status", "200"), 1000},
		{L("__name__", "limits", "status", "404"), 500},
	}
	cpu := []smp{
		{L("__name__", "cpu_info", "instance", "a", "cpu", "0"), 1},
		{L("__name__", "cpu_info", "instance", "a", "cpu", "1"), 1},
		{L("__name__", "cpu_info", "instance", "b", "cpu", "0"), 1},
	}
	node := []smp{
		{L("__name__", "node_meta", "instance", "a"), 100},
		{L("__name__", "node_meta", "instance", "c"), 300},
	}
	vals := func(fs ...float64) []smp {
		var v []smp
		for i, f := range fs {
			v = append(v, smp{L("__name__", "m", "a", "1", "i", strconv.Itoa(i)), f})
		}
		return v
	}
	agg := func(op string, param float64, v []smp, name string) tcase {
		return tcase{lhs: v, e: exprT{kind: "agg", aggOp: op, param: param, hasGroup: true, grouping: []string{"a"}}, corpus: name}
	}
	bin := func(op, card string, on bool, ml, incl []string, fl, fr *float64, lhs, rhs []smp, name string) tcase {
		return tcase{lhs: lhs, rhs: rhs, corpus: name, e: exprT{kind: "bin", op: op, card: card, hasMatch: true, on: on,
			mlabels: ml, include: incl, hasIncl: incl != nil, fillL: fl, fillR: fr}}
	}
	return []tcase{
		agg("topk", 2, vals(nan, 1, nan, 3, 2), "topk-nan"),
		agg("bottomk", 2, vals(nan, 1, nan, 3, 2), "bottomk-nan"),
		agg("topk", 3, vals(nan, nan, 1, nan), "topk-mostly-nan"),
		agg("max", 0, vals(nan, 1, nan), "max-nan"),
		agg("min", 0, vals(nan, nan), "min-all-nan"),
		agg("sum", 0, vals(0x1p1023, 0x1p1023, 0x1p1023), "sum-overflow"),
		agg("sum", 0, vals(3, 0x1p60, 2, -0x1p60), "sum-kahan-neumaier"),
		agg("avg", 0, vals(3, 0x1p60, 2, -0x1p60, 1), "avg-kahan-neumaier"),
		agg("avg", 0, vals(0x1p1023, 0x1p1023, 0x1p1022, 0x1p1023), "avg-incremental-mean"),
		agg("avg", 0, vals(1, inf, 3, -inf), "avg-inf"),
		agg("stdvar", 0, vals(1, 2, 4, 8.5), "stdvar"),
		agg("stddev", 0, vals(1, inf, 4), "stddev-inf"),
		agg("quantile", 0.75, vals(5, 1, inf, 2, nan), "quantile-inf-nan"),
		agg("quantile", 1, vals(5, 1, inf, 2), "quantile-1-inf"),
		agg("quantile", 0.5, vals(inf), "quantile-single-inf"),
		agg("quantile", 0, vals(1, inf), "quantile-0-next-inf"),
		agg("quantile", 0.5, vals(-inf, 3, inf), "quantile-whole-rank-between-infs"),
		bin("/", "ManyToOne", true, []string{"status"}, nil, nil, fp(1), reqs, limits, "group-left-fill-right"),
		bin("+", "ManyToOne", true, []string{"status"}, nil, fp(0), nil, reqs, limits, "group-left-fill-left"),
		// the fill-modifier.test cases for group_right: fill_left / fill_right act on the opposite side
		bin("*", "OneToMany", true, []string{"instance"}, nil, fp(1), nil, node, cpu, "group-right-fill-left"),
		bin("*", "OneToMany", true, []string{"instance"}, nil, nil, fp(0), node, cpu, "group-right-fill-right"),
		bin("-", "OneToMany", true, []string{"instance"}, nil, fp(5), fp(7), node, cpu, "group-right-fill-both"),
		bin("*", "OneToMany", true, []string{"instance"}, nil, fp(1), fp(1), node, cpu, "group-right-fill-same"),
		// the witness of C29_fill_group_right_refuted: documented 5 - 8 = -3, engine 7 - 8 = -1
		bin("-", "OneToMany", true, []string{}, nil, fp(5), fp(7), nil, []smp{{L(), 8}}, "refuted-witness"),
		bin("+", "OneToOne", false, []string{"method"}, nil, nil, nil, reqs, limits, "one-to-one-needs-group-left"),
		bin("+", "ManyToOne", true, []string{"status"}, []string{"method"}, nil, nil, reqs, limits, "group-left-include-collapses"),
		bin("==", "OneToOne", true, []string{"status"}, nil, nil, nil, limits, reqs, "dup-right"),
	}
}

// ---- main -----------------------------------------------------------------------------------------------

type desc struct {
	Expr   string   `json:"expr"`
	LHS    []string `json:"l"`
	RHS    []string `json:"r,omitempty"`
	Result []string `json:"result,omitempty"`
	Error  string   `json:"error,omitempty"`
	Shape  string   `json:"shape"`
	Corpus string   `json:"corpus,omitempty"`
}

// quantileZeroWeightInf: some group has an integral rank phi*(n-1) (interpolation weight 0) whose
// upper neighbour values[min(n-1, rank+1)] is infinite while the value at the rank is not NaN:
// before fix 023c7e876c the engine computed v*1 + Inf*0 = NaN instead of returning the value at
// that rank (regression class).
func quantileZeroWeightInf(e exprT, v []smp) bool {
	phi := e.param
	if math.IsNaN(phi) || phi < 0 || phi > 1 {
		return false
	}
	in := func(n string) bool {
		for _, g := range e.grouping {
			if g == n {
				return true
			}
		}
		return false
	}
	groups := map[string][]float64{}
	for _, s := range v {
		var k []lbl
		for _, l := range s.L {
			switch {
			case !e.hasGroup || (!e.without && !in(l.N)):
			case e.without && (in(l.N) || l.N == "__name__"):
			default:
				k = append(k, l)
			}
		}
		groups[keyOf(k)] = append(groups[keyOf(k)], s.F)
	}
	for _, vals := range groups {
		sort.Slice(vals, func(i, j int) bool { return math.IsNaN(vals[i]) && !math.IsNaN(vals[j]) || vals[i] < vals[j] })
		n := float64(len(vals))
		rank := phi * (n - 1)
		if rank != math.Floor(rank) {
			continue
		}
		lo := int(rank)
		hi := int(math.Min(n-1, rank+1))
		if math.IsInf(vals[hi], 0) && !math.IsNaN(vals[lo]) {
			return true
		}
	}
	return false
}

func feq(a, b *float64) bool {
	if a == nil || b == nil {
		return a == nil && b == nil
	}
	return math.Float64bits(*a) == math.Float64bits(*b)
}

func main() {
	f := gallina.ParseFlags()
	meta := gallina.NewMeta("C29", f.Seed, f.Tier)
	meta.Rule = "corpus + seeded cases: two instant vectors (0..14 series; labels a,b,c,job,__name__ m/n/absent,__type__,__unit__; values small ints with ties / dyadic / NaN,+-Inf,0 / huge one-signed / NaN-heavy; the right vector derived from the left so signatures meet) and one expression: simple aggregation, topk/bottomk/limitk, count_values (by/without, unsorted and duplicated grouping), vector-vector arithmetic/comparison with on/ignoring, group_left/right(+include), bool, fill modifiers, set operator, vector-scalar; run as an instant query on the real engine; non-trivial = the engine returns a non-empty vector or a matching/parameter error; distinct by (expression, vectors)"
	var terms []func() string // rendered per shard, with per-shard intern tables
	ng := newEngine()
	id := 0
	seen := map[string]bool{}
	emit := func(c tcase) {
		expr := c.e.promql()
		key := expr + "|" + strings.Join(vecStrings(c.lhs), ";") + "|" + strings.Join(vecStrings(c.rhs), ";")
		if seen[key] {
			return
		}
		seen[key] = true
		o := run(ng, c.lhs, c.rhs, expr)
		shape := "ok"
		if c.e.kind == "bin" && c.e.card == "OneToMany" && !feq(c.e.fillL, c.e.fillR) {
			// candidate for the group_right fill swap: does exchanging the two fill values
			// change the engine's answer?
			e2 := c.e
			e2.fillL, e2.fillR = c.e.fillR, c.e.fillL
			o2 := run(ng, c.lhs, c.rhs, e2.promql())
			if o2.err != o.err || strings.Join(vecStrings(o2.vec), ";") != strings.Join(vecStrings(o.vec), ";") {
				shape = "fill-group-right-swapped"
				meta.Hit("shape:" + shape)
			}
		}
		if c.e.aggOp == "quantile" && quantileZeroWeightInf(c.e, c.lhs) {
			// regression class of the defect fixed by 023c7e876c (no shape: a failure here is a violation)
			meta.Hit("quantile-whole-rank-next-to-inf")
		}
		if o.err == "ErrOther" {
			shape = "engine-error"
			meta.GoViol = append(meta.GoViol, gallina.GoViolation{ID: fmt.Sprint(id), Shape: shape, What: o.msg})
		}
		cid := id
		terms = append(terms, func() string {
			// strconv table for count_values
			fmtT := "tn"
			if c.e.aggOp == "count_values" {
				for i := len(c.lhs) - 1; i >= 0; i-- {
					fmtT = "(tc " + fvalTerm(c.lhs[i].F) + " " + S(strconv.FormatFloat(c.lhs[i].F, 'f', -1, 64)) + " " + fmtT + ")"
				}
			}
			obs := "(RVec " + vecTerm(o.vec) + ")"
			if o.err != "" {
				obs = "(RErr " + o.err + ")"
			}
			return fmt.Sprintf("mkCase %s %s %s %s %s %s", gallina.Z(int64(cid)), vecTerm(c.lhs), vecTerm(c.rhs), c.e.term(), fmtT, obs)
		})

		// bookkeeping
		cls := c.e.kind
		switch c.e.kind {
		case "agg":
			cls = "agg:" + c.e.aggOp
			if c.e.hasGroup {
				if c.e.without {
					meta.Hit("grouping:without")
				} else {
					meta.Hit("grouping:by")
				}
			} else {
				meta.Hit("grouping:none")
			}
		case "bin":
			cls = "bin:" + c.e.card
			if isCmp(c.e.op) {
				meta.Hit("bin:comparison")
				if c.e.retBool {
					meta.Hit("bin:bool")
				}
			} else {
				meta.Hit("bin:arithmetic")
			}
			if c.e.fillL != nil || c.e.fillR != nil {
				meta.Hit("bin:fill")
			}
			if c.e.hasIncl {
				meta.Hit("bin:include")
			}
			if c.e.hasMatch {
				if c.e.on {
					meta.Hit("bin:on")
				} else {
					meta.Hit("bin:ignoring")
				}
			}
		case "set":
			cls = "set:" + c.e.op
		}
		meta.Hit(cls)
		hasNaN, hasInf, ties := false, false, false
		vs := map[float64]bool{}
		for _, s := range c.lhs {
			if math.IsNaN(s.F) {
				hasNaN = true
			} else if math.IsInf(s.F, 0) {
				hasInf = true
			} else if vs[s.F] {
				ties = true
			}
			vs[s.F] = true
		}
		if hasNaN {
			meta.Hit("input:nan")
		}
		if hasInf {
			meta.Hit("input:inf")
		}
		if ties {
			meta.Hit("input:ties")
		}
		for _, s := range c.lhs {
			named := false
			for _, l := range s.L {
				if l.N == "__name__" {
					named = true
				}
			}
			if !named {
				meta.Hit("input:series-without-name")
				break
			}
		}
		switch {
		case o.err != "":
			meta.Hit("outcome:" + o.err)
			meta.Nontrivial++
		case len(o.vec) == 0:
			meta.Hit("outcome:empty")
		default:
			meta.Hit("outcome:vector")
			meta.Nontrivial++
		}
		meta.Case(id, desc{Expr: expr, LHS: vecStrings(c.lhs), RHS: vecStrings(c.rhs), Result: vecStrings(o.vec),
			Error: o.msg, Shape: shape, Corpus: c.corpus})
		meta.Evaluations++
		id++
	}
	for _, c := range corpus() {
		emit(c)
	}
	n := f.Count(2500, 45000)
	for i := 0; i < n; i++ {
		emit(genCase(gen.Fork(f.Seed, i)))
	}
	base := "From Coq Require Import List ZArith NArith QArith.\nFrom Verif Require Import model.PromqlAgg corr.CorrC29.\nImport ListNotations.\nOpen Scope Z_scope.\n"
	cf := &gallina.CaseFile{Dir: f.Out, Type: "case", PerShard: 0, Footer: gallina.StdFooter}
	const perShard = 3000
	for lo := 0; lo == 0 || lo < len(terms); lo += perShard {
		internTab, termTab, internDefs = map[string]string{}, map[string]string{}, nil
		for i := lo; i < lo+perShard && i < len(terms); i++ {
			cf.Add(terms[i]())
		}
		cf.Preamble = base + strings.Join(internDefs, "\n") + "\n"
		cf.Flush()
	}
	meta.Write(f.Out)
}

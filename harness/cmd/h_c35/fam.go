// Family model of the harness: the source of truth for one generated case, its conversion to
// client_model dto (the input of the real encoders) and its Gallina printing.
package main

import (
	"fmt"
	"math"
	"strconv"
	"strings"

	dto "github.com/prometheus/client_model/go"
	"google.golang.org/protobuf/types/known/timestamppb"

	"github.com/prometheus/prometheus/model/labels"
)

type LP struct{ N, V string }

type Ex struct {
	L     []LP
	V     float64
	HasTs bool
	TsMs  int64
}

type Quant struct{ Q, V float64 }

type Bucket struct {
	UB float64
	C  uint64
	Ex *Ex
}

type Metric struct {
	L       []LP
	Ts      *int64
	V       float64
	Ex      *Ex
	Created *int64 // ms
	Count   uint64
	Sum     float64
	Q       []Quant
	B       []Bucket
	NH      *NHist // native histogram part (protobuf only)
}

// NHist is an integer native histogram, generated compact (Compact(0) is the identity).
type NHist struct {
	Schema  int32
	ZeroTh  float64
	ZeroCnt uint64
	PS, NS  [][2]int64 // spans (offset, length)
	PD, ND  []int64    // deltas
}

type Family struct {
	Name string
	Help *string
	Unit *string
	Type int // dto.MetricType value
	M    []Metric
}

func tsProto(ms int64) *timestamppb.Timestamp {
	sec := ms / 1000
	rem := ms % 1000
	if rem < 0 {
		rem += 1000
		sec--
	}
	return &timestamppb.Timestamp{Seconds: sec, Nanos: int32(rem * 1e6)}
}

func lpsDTO(l []LP) []*dto.LabelPair {
	var r []*dto.LabelPair
	for _, p := range l {
		n, v := p.N, p.V
		r = append(r, &dto.LabelPair{Name: &n, Value: &v})
	}
	return r
}

func exDTO(e *Ex) *dto.Exemplar {
	if e == nil {
		return nil
	}
	v := e.V
	x := &dto.Exemplar{Label: lpsDTO(e.L), Value: &v}
	if e.HasTs {
		x.Timestamp = tsProto(e.TsMs)
	}
	return x
}

func (f *Family) DTO() *dto.MetricFamily {
	name := f.Name
	t := dto.MetricType(f.Type)
	mf := &dto.MetricFamily{Name: &name, Help: f.Help, Unit: f.Unit, Type: &t}
	for i := range f.M {
		m := &f.M[i]
		dm := &dto.Metric{Label: lpsDTO(m.L), TimestampMs: m.Ts}
		var cr *timestamppb.Timestamp
		if m.Created != nil {
			cr = tsProto(*m.Created)
		}
		v := m.V
		switch t {
		case dto.MetricType_COUNTER:
			dm.Counter = &dto.Counter{Value: &v, Exemplar: exDTO(m.Ex), CreatedTimestamp: cr}
		case dto.MetricType_GAUGE:
			dm.Gauge = &dto.Gauge{Value: &v}
		case dto.MetricType_UNTYPED:
			dm.Untyped = &dto.Untyped{Value: &v}
		case dto.MetricType_SUMMARY:
			c, s := m.Count, m.Sum
			sm := &dto.Summary{SampleCount: &c, SampleSum: &s, CreatedTimestamp: cr}
			for _, q := range m.Q {
				qq, qv := q.Q, q.V
				sm.Quantile = append(sm.Quantile, &dto.Quantile{Quantile: &qq, Value: &qv})
			}
			dm.Summary = sm
		case dto.MetricType_HISTOGRAM, dto.MetricType_GAUGE_HISTOGRAM:
			c, s := m.Count, m.Sum
			h := &dto.Histogram{SampleCount: &c, SampleSum: &s, CreatedTimestamp: cr}
			for _, b := range m.B {
				ub, bc := b.UB, b.C
				h.Bucket = append(h.Bucket, &dto.Bucket{UpperBound: &ub, CumulativeCount: &bc, Exemplar: exDTO(b.Ex)})
			}
			if n := m.NH; n != nil {
				sc, zt, zc := n.Schema, n.ZeroTh, n.ZeroCnt
				h.Schema, h.ZeroThreshold, h.ZeroCount = &sc, &zt, &zc
				for _, s := range n.PS {
					o, l := int32(s[0]), uint32(s[1])
					h.PositiveSpan = append(h.PositiveSpan, &dto.BucketSpan{Offset: &o, Length: &l})
				}
				for _, s := range n.NS {
					o, l := int32(s[0]), uint32(s[1])
					h.NegativeSpan = append(h.NegativeSpan, &dto.BucketSpan{Offset: &o, Length: &l})
				}
				h.PositiveDelta = append(h.PositiveDelta, n.PD...)
				h.NegativeDelta = append(h.NegativeDelta, n.ND...)
			}
			dm.Histogram = h
		}
		mf.Metric = append(mf.Metric, dm)
	}
	return mf
}

// ---------------------------------------------------------------- Gallina printing
// Everything numeric is a primitive Uint63 literal (the case files open uint63_scope); the
// helper constructors of corr/CorrC35.v convert.

func B(s string) string {
	b := []byte(s)
	if len(b) == 0 {
		return "E"
	}
	var sb strings.Builder
	sb.WriteString("(B ")
	sb.WriteString(strconv.Itoa(len(b)))
	sb.WriteString(" [")
	for i := 0; i < len(b); i += 7 {
		end := min(i+7, len(b))
		var w uint64
		for _, x := range b[i:end] {
			w = w<<8 | uint64(x)
		}
		if i > 0 {
			sb.WriteString(";")
		}
		sb.WriteString(strconv.FormatUint(w, 10))
	}
	sb.WriteString("])")
	return sb.String()
}

// U prints an unsigned 64-bit value as (U hi lo).
func U(v uint64) string {
	if v < 1<<62 {
		return "(W " + strconv.FormatUint(v, 10) + ")"
	}
	return fmt.Sprintf("(U %d %d)", v>>32, v&0xffffffff)
}

// I prints a signed 64-bit value (two's complement halves).
func I(v int64) string {
	if v >= 0 && v < 1<<62 {
		return "(W " + strconv.FormatInt(v, 10) + ")"
	}
	u := uint64(v)
	return fmt.Sprintf("(S %d %d)", u>>32, u&0xffffffff)
}

func Fb(f float64) string { return U(math.Float64bits(f)) }

func optS(s *string) string {
	if s == nil {
		return "None"
	}
	return "(Some " + B(*s) + ")"
}

func optI(v *int64) string {
	if v == nil {
		return "None"
	}
	return "(Some " + I(*v) + ")"
}

func list(items []string) string { return "[" + strings.Join(items, ";") + "]" }

func lpsG(l []LP) string {
	it := make([]string, len(l))
	for i, p := range l {
		it[i] = "(" + B(p.N) + "," + B(p.V) + ")"
	}
	return list(it)
}

type registry struct {
	floats map[uint64]bool
	ints   map[int64]bool
}

func (r *registry) f(v float64) string {
	r.floats[math.Float64bits(v)] = true
	return Fb(v)
}

func (r *registry) i(v int64) string {
	r.ints[v] = true
	return I(v)
}

func (r *registry) exG(e *Ex) string {
	if e == nil {
		return "None"
	}
	ts := "None"
	if e.HasTs {
		ts = "(Some " + r.i(e.TsMs) + ")"
	}
	return "(Some (mkEx " + lpsG(e.L) + " " + r.f(e.V) + " " + ts + "))"
}

func (r *registry) famG(f *Family) string {
	var ms []string
	for i := range f.M {
		m := &f.M[i]
		ts, cr := "None", "None"
		if m.Ts != nil {
			ts = "(Some " + r.i(*m.Ts) + ")"
		}
		if m.Created != nil {
			cr = "(Some " + r.i(*m.Created) + ")"
		}
		var qs, bs []string
		for _, q := range m.Q {
			qs = append(qs, "("+r.f(q.Q)+","+r.f(q.V)+")")
		}
		for _, b := range m.B {
			bs = append(bs, "(mkBk "+r.f(b.UB)+" "+r.i(int64(b.C))+" "+r.exG(b.Ex)+")")
		}
		nh := "None"
		if n := m.NH; n != nil {
			sp := func(s [][2]int64) string {
				var it []string
				for _, x := range s {
					it = append(it, "("+I(x[0])+","+I(x[1])+")")
				}
				return list(it)
			}
			dl := func(d []int64) string {
				var it []string
				for _, x := range d {
					it = append(it, I(x))
				}
				return list(it)
			}
			nh = "(Some (mkNH " + I(int64(n.Schema)) + " " + r.f(n.ZeroTh) + " " + I(int64(n.ZeroCnt)) + " " + sp(n.PS) + " " + dl(n.PD) + " " + sp(n.NS) + " " + dl(n.ND) + "))"
		}
		ms = append(ms, "(mkMet "+lpsG(m.L)+" "+ts+" "+r.f(m.V)+" "+r.exG(m.Ex)+" "+cr+" "+r.i(int64(m.Count))+" "+r.f(m.Sum)+" "+list(qs)+" "+list(bs)+" "+nh+")")
	}
	return "(fam " + B(f.Name) + " " + optS(f.Help) + " " + optS(f.Unit) + " " + strconv.Itoa(f.Type) + " " + list(ms) + ")"
}

func omFloat(f float64) string { return labels.FormatOpenMetricsFloat(f) }

// Generators: corpus of fixed family sets (reproducers first) and the seeded random stream.
package main

import (
	"fmt"
	"math"
	"strings"

	"verif/harness/internal/gen"
)

func sp(s string) *string { return &s }
func ip(v int64) *int64   { return &v }

const (
	tCounter = 0
	tGauge   = 1
	tSummary = 2
	tUntyped = 3
	tHist    = 4
	tGHist   = 5
)

// famsFor adapts a family set to what the format's encoder can express: native histogram parts
// exist only in protobuf.
func famsFor(fams []Family, format int) []Family {
	if format == fmtProto {
		return fams
	}
	out := make([]Family, len(fams))
	for i, f := range fams {
		out[i] = f
		out[i].M = append([]Metric(nil), f.M...)
		for j := range out[i].M {
			out[i].M[j].NH = nil
		}
	}
	return out
}

func corpus() [][]Family {
	g := func(name string, v float64, m Metric) Family {
		m.V = v
		return Family{Name: name, Type: tGauge, M: []Metric{m}}
	}
	ex := &Ex{L: []LP{{"trace_id", "a\"b\\c\nd"}}, V: 1.5, HasTs: true, TsMs: 1001}
	return [][]Family{
		// plain
		{{Name: "up", Help: sp("is it up"), Type: tGauge, M: []Metric{{L: []LP{{"job", "a"}}, V: 1}}}},
		// negative timestamp (text: the lexer's timestamp rule is {D}+)
		{g("neg_ts", 1, Metric{Ts: ip(-1)})},
		// a millisecond timestamp whose float seconds * 1000 lands below the integer (OpenMetrics)
		{g("ts_1001", 1, Metric{Ts: ip(1001)})},
		{g("ts_big", 2.5, Metric{Ts: ip(1700000000123)})},
		// exemplar label values with escapes (OpenMetrics Exemplar() does not unescape)
		{{Name: "ex_total", Type: tCounter, M: []Metric{{V: 3, Ex: ex}}}},
		// whitespace-only help
		{{Name: "ws_help", Help: sp(" "), Type: tGauge, M: []Metric{{V: 0}}}},
		{{Name: "ws_help2", Help: sp("  lead and trail  "), Type: tGauge, M: []Metric{{V: 0}}}},
		// quoted (UTF-8) family name with characters that need escaping
		{{Name: "na\"me.x", Help: sp("h"), Type: tGauge, M: []Metric{{V: 7, L: []LP{{"l.1", "v"}}}}}},
		{{Name: "dotted.x_name", Help: sp("h"), Unit: sp("name"), Type: tCounter, M: []Metric{{V: 7}}}},
		// unit of one family followed by a family without unit
		{{Name: "a_seconds", Unit: sp("seconds"), Type: tGauge, M: []Metric{{V: 1}}}, {Name: "b_plain", Type: tGauge, M: []Metric{{V: 2}}}},
		// summary and histogram with created timestamps, exemplars, le/quantile normalisation
		{{Name: "rpc_seconds", Help: sp("s"), Unit: sp("seconds"), Type: tSummary, M: []Metric{{L: []LP{{"svc", "x"}}, Count: 4, Sum: 2.5, Created: ip(1520872607123),
			Q: []Quant{{0.5, 1}, {0.99, 2e-7}}}}},
			{Name: "req_size", Type: tHist, M: []Metric{{Count: 5, Sum: 100, Created: ip(1520872607000), Ts: ip(1520879607789),
				B: []Bucket{{UB: 1, C: 1}, {UB: 2.5, C: 3, Ex: &Ex{L: []LP{{"span", "7"}}, V: 2.4}}, {UB: 1e6, C: 4}, {UB: math.Inf(1), C: 5}}}}}},
		{{Name: "noinf", Type: tGHist, M: []Metric{{Count: 2, Sum: -1, B: []Bucket{{UB: -1, C: 1}, {UB: 0, C: 2}}}}}},
		{{Name: "c_total", Type: tCounter, M: []Metric{{V: 1, Created: ip(1000), L: []LP{{"a", "1"}}}, {V: 2, L: []LP{{"a", "2"}}}, {V: 3, Created: ip(-5000), L: []LP{{"a", "3"}}}}},
			{Name: "c_nosuffix", Type: tCounter, M: []Metric{{V: math.NaN(), Created: ip(2000)}}}},
		// special values
		{{Name: "vals", Type: tUntyped, M: []Metric{{V: math.Inf(1), L: []LP{{"k", "inf"}}}, {V: math.Inf(-1), L: []LP{{"k", "-inf"}}}, {V: math.Float64frombits(0x7ff8000000000002), L: []LP{{"k", "nan"}}},
			{V: math.Copysign(0, -1), L: []LP{{"k", "-0"}}}, {V: 5e-324, L: []LP{{"k", "den"}}}, {V: math.MaxFloat64, L: []LP{{"k", "max"}}}, {V: 1e21, L: []LP{{"k", "e21"}}}, {V: 123456789, L: []LP{{"k", "int"}}}}}},
		// user-provided metadata labels and le on a gauge
		{{Name: "meta_lbl", Type: tGauge, M: []Metric{{V: 1, L: []LP{{"__type__", "x"}, {"le", "1"}, {"quantile", "0.5"}}}}},
			{Name: "meta_lbl_u", Type: tUntyped, M: []Metric{{V: 1, L: []LP{{"__type__", "x"}, {"__unit__", "y"}}}}}},
		// empty label value, empty help, empty unit
		{{Name: "empties", Help: sp(""), Unit: sp(""), Type: tGauge, M: []Metric{{V: 1, L: []LP{{"e", ""}, {"f", "x"}}}}}},
		// native histogram (protobuf), alone and with classic buckets
		{{Name: "nh", Type: tHist, M: []Metric{{Count: 6, Sum: 3.5, Ts: ip(5), NH: &NHist{Schema: 3, ZeroTh: 0.001, ZeroCnt: 1, PS: [][2]int64{{0, 2}, {3, 1}}, PD: []int64{1, 1, -1}, NS: [][2]int64{{-2, 1}}, ND: []int64{2}},
			B: []Bucket{{UB: 1, C: 2}, {UB: math.Inf(1), C: 6, Ex: &Ex{L: []LP{{"t", "1"}}, V: 9, HasTs: true, TsMs: 77}}}}}}},
	}
}

func protoCorpus() [][]Family {
	nh := func() *NHist {
		return &NHist{Schema: 1, ZeroTh: 0.5, ZeroCnt: 2, PS: [][2]int64{{1, 2}}, PD: []int64{3, -1}}
	}
	cl := []Bucket{{UB: 1, C: 2}, {UB: math.Inf(1), C: 7}}
	l := func(v string) []LP { return []LP{{"k", v}} }
	return [][]Family{
		// native (with classic buckets) followed by classic
		{{Name: "mix_nc", Type: tHist, M: []Metric{{L: l("a"), Count: 7, Sum: 1, NH: nh(), B: cl}, {L: l("b"), Count: 7, Sum: 2, B: cl}}}},
		// classic followed by native followed by classic
		{{Name: "mix_cnc", Type: tHist, M: []Metric{{L: l("a"), Count: 7, Sum: 1, B: cl}, {L: l("b"), Count: 7, Sum: 2, NH: nh()}, {L: l("c"), Count: 7, Sum: 3, B: cl}}}},
		// native without buckets followed by classic, native
		{{Name: "mix_ncn", Type: tGHist, M: []Metric{{L: l("a"), Count: 7, Sum: 1, NH: nh()}, {L: l("b"), Count: 0, Sum: 0}, {L: l("c"), Count: 7, Sum: 3, NH: nh(), B: cl}}}},
	}
}

var (
	legacyFirst = "abcdefghijklmnopqrstuvwxyzABCDEFGHIJKLMNOPQRSTUVWXYZ_"
	legacyRest  = legacyFirst + "0123456789"
	valAlphabet = []string{"a", "b", "z", "0", "9", " ", "\"", "\\", "\n", "{", "}", ",", "=", "#", "é", "日", "\t", "\\n", "'", ":", "+Inf", "1", ".", "-", "_"}
	utf8Pieces  = []string{".", " ", "é", "-", "/", "日本", "\"", "\\", "{", "}", "=", ",", "#"}
)

func legacyName(r *gen.Rand, colon bool) string {
	n := 1 + r.Intn(8)
	var sb strings.Builder
	sb.WriteByte(legacyFirst[r.Intn(len(legacyFirst))])
	for i := 1; i < n; i++ {
		if colon && r.Chance(1, 10) {
			sb.WriteByte(':')
		} else {
			sb.WriteByte(legacyRest[r.Intn(len(legacyRest))])
		}
	}
	return sb.String()
}

func utf8Name(r *gen.Rand) string {
	s := legacyName(r, false)
	k := 1 + r.Intn(2)
	for i := 0; i < k; i++ {
		p := gen.Pick(r, utf8Pieces[:6])
		if r.Chance(1, 12) {
			p = gen.Pick(r, utf8Pieces)
		}
		rs := []rune(s)
		pos := r.Intn(len(rs) + 1)
		s = string(rs[:pos]) + p + string(rs[pos:])
	}
	return s
}

func genValue(r *gen.Rand) string {
	n := r.Intn(7)
	if r.Chance(1, 12) {
		n = 0
	}
	var sb strings.Builder
	for i := 0; i < n; i++ {
		sb.WriteString(gen.Pick(r, valAlphabet))
	}
	return sb.String()
}

func genFloat(r *gen.Rand) float64 {
	switch r.Intn(12) {
	case 0:
		return math.NaN()
	case 1:
		return math.Inf(1)
	case 2:
		return math.Inf(-1)
	case 3:
		return 0
	case 4:
		return float64(r.Range(-5, 5))
	case 5:
		return float64(r.Range(0, 1<<40))
	case 6:
		return math.Float64frombits(r.U64()) // any bit pattern (NaN payloads, denormals, huge)
	case 7:
		return float64(r.Range(-1000000, 1000000)) / 1000
	case 8:
		return math.Copysign(0, -1)
	case 9:
		return r.Float() * math.Pow(10, float64(r.Range(-30, 30)))
	default:
		return r.Float()
	}
}

// tame keeps a millisecond timestamp that survives the OpenMetrics float round trip, and rounds
// most others to whole seconds (the rest exercise the known truncation deviation).
func tame(r *gen.Rand, ms int64, exact func(int64) bool) int64 {
	if exact(ms) || r.Chance(1, 8) {
		return ms
	}
	return ms / 1000 * 1000
}

func genTs(r *gen.Rand) *int64 {
	if r.Bool() {
		return nil
	}
	v := genTs0(r)
	if v != nil && *v > -(1<<50) && *v < 1<<50 {
		*v = tame(r, *v, omExactMs)
	}
	return v
}

func genTs0(r *gen.Rand) *int64 {
	switch r.Intn(10) {
	case 0:
		return ip(0)
	case 1:
		return ip(r.PickI64(1, 999, 1000, 1001, 1002, 4003, 1009))
	case 2:
		if r.Chance(1, 3) {
			return ip(-r.Range(1, 100000))
		}
		return ip(r.Range(1, 100000))
	case 3:
		return ip(r.PickI64(math.MaxInt64, 1<<53+1, 1<<62, 1<<40))
	default:
		return ip(1600000000000 + r.Range(0, 200000000000))
	}
}

func genExTs(r *gen.Rand) int64 {
	if r.Chance(1, 8) {
		return tame(r, -r.Range(0, 10000), omExactCr)
	}
	return tame(r, 1600000000000+r.Range(0, 200000000000), omExactCr)
}

func genExValue(r *gen.Rand) string {
	v := genValue(r)
	if needsEscape(v) && !r.Chance(1, 6) {
		v = strings.NewReplacer("\"", "q", "\\", "b", "\n", "n").Replace(v)
	}
	return v
}

func genEx(r *gen.Rand) *Ex {
	if !r.Chance(1, 3) {
		return nil
	}
	e := &Ex{V: genFloat(r)}
	n := 1 + r.Intn(2)
	if r.Chance(1, 10) {
		n = 0
	}
	names := []string{"trace_id", "span_id", "t"}
	if r.Chance(1, 8) {
		names = []string{"trace.id", "span id", "é"}
	}
	for i := 0; i < n; i++ {
		e.L = append(e.L, LP{names[i], genExValue(r)})
	}
	if r.Bool() {
		e.HasTs = true
		e.TsMs = genExTs(r)
	}
	return e
}

func genLabels(r *gen.Rand, typ int) []LP {
	n := r.Intn(4)
	var l []LP
	used := map[string]bool{}
	for i := 0; i < n; i++ {
		var name string
		switch {
		case r.Chance(1, 7):
			name = utf8Name(r)
		case r.Chance(1, 25):
			name = gen.Pick(r, []string{"__type__", "__unit__", "le", "quantile"})
		default:
			name = legacyName(r, false)
		}
		if used[name] || strings.HasPrefix(name, "__name__") {
			continue
		}
		if (typ == tSummary && name == "quantile") || ((typ == tHist || typ == tGHist) && name == "le") {
			continue
		}
		used[name] = true
		l = append(l, LP{name, genValue(r)})
	}
	return l
}

func genFamilies(r *gen.Rand) []Family {
	nf := 1 + r.Intn(3)
	var fams []Family
	names := map[string]bool{}
	for len(fams) < nf {
		typ := r.Intn(6)
		var name string
		if r.Chance(1, 6) {
			name = utf8Name(r)
		} else {
			name = legacyName(r, true)
		}
		var unit *string
		if r.Chance(1, 3) {
			u := legacyName(r, false)
			if r.Chance(1, 10) {
				u = ""
			}
			unit = &u
			if u != "" {
				name += "_" + u
			}
		}
		if typ == tCounter && r.Chance(3, 5) {
			name += "_total"
		}
		if names[name] {
			continue
		}
		names[name] = true
		fam := Family{Name: name, Unit: unit, Type: typ}
		if r.Chance(3, 4) {
			h := genValue(r)
			if r.Chance(1, 3) {
				h = "Help for " + h + "."
			}
			fam.Help = &h
		}
		nm := 1 + r.Intn(3)
		seenL := map[string]bool{}
		for k := 0; k < nm; k++ {
			m := Metric{L: genLabels(r, typ), Ts: genTs(r)}
			key := fmt.Sprint(m.L)
			// label sets of the metrics of a family differ in their sorted rendering too
			if seenL[key] {
				continue
			}
			dup := false
			for o := range seenL {
				if sameSet(o, key) {
					dup = true
				}
			}
			if dup {
				continue
			}
			seenL[key] = true
			if r.Chance(1, 3) {
				m.Created = ip(tame(r, 1500000000000+r.Range(0, 100000000000), omExactCr))
				if r.Chance(1, 6) {
					m.Created = ip(tame(r, r.Range(-100000, 100000), omExactCr))
				}
			}
			switch typ {
			case tCounter:
				m.V = genFloat(r)
				m.Ex = genEx(r)
			case tGauge, tUntyped:
				m.V = genFloat(r)
				m.Created = nil
			case tSummary:
				m.Count = uint64(r.Range(0, 1<<uint(r.Intn(60))))
				m.Sum = genFloat(r)
				nq := r.Intn(4)
				last := -1.0
				for q := 0; q < nq; q++ {
					qv := gen.Pick(r, []float64{0, 0.5, 0.9, 0.99, 1, 0.999, r.Float(), 1e-7})
					if qv <= last {
						continue
					}
					last = qv
					m.Q = append(m.Q, Quant{qv, genFloat(r)})
				}
			case tHist, tGHist:
				nb := r.Intn(5)
				ub := float64(r.Range(-10, 10)) / 4
				if r.Chance(1, 8) {
					ub = math.Inf(-1)
				}
				var c uint64
				for b := 0; b < nb; b++ {
					c += uint64(r.Range(0, 50))
					bk := Bucket{UB: ub, C: c, Ex: genEx(r)}
					if b == nb-1 && r.Bool() {
						bk.UB = math.Inf(1)
					}
					m.B = append(m.B, bk)
					step := float64(r.Range(1, 40)) / 8
					if r.Chance(1, 5) {
						step *= 1e5
					}
					if math.IsInf(ub, -1) {
						ub = -3
					} else {
						ub += step
					}
				}
				m.Count = c + uint64(r.Range(0, 3))
				if nb > 0 && math.IsInf(m.B[nb-1].UB, 1) {
					m.Count = c
				}
				m.Sum = genFloat(r)
				if r.Chance(1, 4) {
					m.NH = genNH(r)
					if r.Bool() {
						m.B = nil
					}
				}
			}
			fam.M = append(fam.M, m)
		}
		fams = append(fams, fam)
	}
	return fams
}

func sameSet(a, b string) bool { return a == b }

// genNH generates an integer native histogram on which Compact(0) is the identity: every
// absolute bucket count is positive, span lengths are positive and later spans have offset > 0.
func genNH(r *gen.Rand) *NHist {
	n := &NHist{Schema: int32(r.Range(-4, 8)), ZeroTh: gen.Pick(r, []float64{0, 0.001, 1e-128}), ZeroCnt: uint64(r.Range(0, 5))}
	side := func() ([][2]int64, []int64) {
		ns := r.Intn(3)
		var spans [][2]int64
		var deltas []int64
		prev := int64(0)
		for s := 0; s < ns; s++ {
			off := r.Range(1, 5)
			if s == 0 {
				off = r.Range(-5, 5)
			}
			l := r.Range(1, 3)
			spans = append(spans, [2]int64{off, l})
			for k := int64(0); k < l; k++ {
				abs := r.Range(1, 9)
				deltas = append(deltas, abs-prev)
				prev = abs
			}
		}
		return spans, deltas
	}
	n.PS, n.PD = side()
	n.NS, n.ND = side()
	if len(n.PS) == 0 && len(n.NS) == 0 && n.ZeroTh == 0 && n.ZeroCnt == 0 {
		n.ZeroCnt = 1 // otherwise it is not recognised as native at all
	}
	return n
}

func needsEscape(s string) bool { return strings.ContainsAny(s, "\"\\\n") }

func omExactMs(ms int64) bool {
	v, ok := omTs(omFloat(float64(ms) / 1000))
	return ok && v == ms
}

func omExactCr(ms int64) bool {
	v, ok := omTs(omFloat(cr2f(ms)))
	return ok && v == ms
}

func exEscapes(e *Ex) bool {
	if e == nil {
		return false
	}
	for _, l := range e.L {
		if needsEscape(l.N) || needsEscape(l.V) {
			return true
		}
	}
	return false
}

func isNativeNH(m *Metric) bool {
	n := m.NH
	return n != nil && (len(n.PS) > 0 || len(n.NS) > 0 || n.ZeroTh > 0 || n.ZeroCnt > 0)
}

// classify computes the stable shape key of a valid case: the first known deviation class the
// generated input falls in (decided on the input alone), else "valid-<format>".
func classify(fams []Family, format int, o opts) string {
	switch format {
	case fmtText:
		for _, f := range fams {
			for _, m := range f.M {
				if m.Ts != nil && *m.Ts < 0 {
					return "text-negative-timestamp"
				}
			}
		}
		for _, f := range fams {
			if f.Help != nil && *f.Help != "" && strings.Trim(*f.Help, " \t") == "" {
				return "text-whitespace-only-help"
			}
		}
		for _, f := range fams {
			if needsEscape(f.Name) {
				return "quoted-name-metadata-not-unescaped"
			}
		}
	case fmtOM:
		for _, f := range fams {
			if needsEscape(f.Name) {
				return "quoted-name-metadata-not-unescaped"
			}
		}
		lastUnit := ""
		for _, f := range fams {
			if f.Unit != nil {
				lastUnit = *f.Unit
			} else if lastUnit != "" && o.TypeUnit {
				return "om-unit-leaks-to-next-family"
			}
		}
		for _, f := range fams {
			for _, m := range f.M {
				if f.Type == tCounter && exEscapes(m.Ex) && len(m.Ex.L) > 0 {
					return "om-exemplar-labels-not-unescaped"
				}
				for _, b := range m.B {
					if (f.Type == tHist || f.Type == tGHist) && exEscapes(b.Ex) {
						return "om-exemplar-labels-not-unescaped"
					}
				}
			}
		}
		for _, f := range fams {
			for _, m := range f.M {
				if m.Ts != nil && !omExactMs(*m.Ts) {
					return "om-timestamp-truncated"
				}
				if f.Type == tCounter && m.Ex != nil && len(m.Ex.L) > 0 && m.Ex.HasTs && !omExactCr(m.Ex.TsMs) {
					return "om-timestamp-truncated"
				}
				for _, b := range m.B {
					if (f.Type == tHist || f.Type == tGHist) && b.Ex != nil && len(b.Ex.L) > 0 && b.Ex.HasTs && !omExactCr(b.Ex.TsMs) {
						return "om-timestamp-truncated"
					}
				}
				if m.Created != nil && o.Created && o.SkipST && !omExactCr(*m.Created) && f.Type != tGauge && f.Type != tUntyped {
					return "om-timestamp-truncated"
				}
			}
		}
	case fmtProto:
		for _, f := range fams {
			if f.Type != tHist && f.Type != tGHist {
				continue
			}
			how := 0 // 0 checked, 1 classic, 2 unchecked
			for i := range f.M {
				m := &f.M[i]
				native := !o.IgnoreNH && isNativeNH(m)
				switch {
				case how == 1 && native:
					return "proto-native-histogram-after-classic"
				case how == 2 && !native:
					return "proto-histogram-entry-without-histogram"
				}
				switch {
				case how == 1:
					if native {
						how = 2
					}
				case native:
					if o.KeepClassic && len(m.B) > 0 {
						how = 2
					} else {
						how = 0
					}
				case how == 2:
					how = 0
				default:
					how = 1
				}
			}
		}
	}
	return "valid-" + fmtNames[format]
}

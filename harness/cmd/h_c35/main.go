// h_c35: correspondence harness for C35 (exposition formats are parsed faithfully and
// consistently).
//
// Every case is one set of generated metric families, encoded with the real reference encoders
// (prometheus/common/expfmt: text, OpenMetrics, protobuf-delimited over client_model dto) and
// parsed with the real parsers of /repo/model/textparse (textparse.New with the content type)
// under one option combination; the observed entry stream (Next/Help/Type/Unit/Series/Labels/
// Exemplar/StartTimestamp/Histogram) is written out for Coq together with the generated
// families, the payload bytes and the strconv oracle tables. Mutated payloads are parsed as
// well: a panic is a Go-side violation, and for text/OpenMetrics the observed stream of the
// mutant is compared with the model parser too.
package main

import (
	"bytes"
	"fmt"
	"io"
	"math"
	"os"
	"sort"
	"strconv"
	"strings"
	"time"
	"unicode/utf8"

	"github.com/prometheus/common/expfmt"
	"github.com/prometheus/common/model"

	"github.com/prometheus/prometheus/model/exemplar"
	"github.com/prometheus/prometheus/model/labels"
	"github.com/prometheus/prometheus/model/textparse"

	"verif/harness/internal/gallina"
	"verif/harness/internal/gen"
)

const (
	fmtText  = 0
	fmtOM    = 1
	fmtProto = 2
)

type opts struct {
	TypeUnit    bool // EnableTypeAndUnitLabels
	SkipST      bool // OpenMetricsSkipSTSeries (OM), and: the harness calls StartTimestamp
	Created     bool // encoder option WithCreatedLines (OM)
	IgnoreNH    bool // IgnoreNativeHistograms (proto)
	KeepClassic bool // KeepClassicOnClassicAndNativeHistograms (proto)
}

func b2i(b bool) string {
	if b {
		return "1"
	}
	return "0"
}

func (o opts) G() string {
	return "(opt " + b2i(o.TypeUnit) + " " + b2i(o.SkipST) + " " + b2i(o.Created) + " " + b2i(o.IgnoreNH) + " " + b2i(o.KeepClassic) + ")"
}

// ---------------------------------------------------------------- encoding with the real encoders

func encode(fams []Family, format int, o opts) ([]byte, error) {
	var buf bytes.Buffer
	switch format {
	case fmtText:
		for i := range fams {
			if _, err := expfmt.MetricFamilyToText(&buf, fams[i].DTO()); err != nil {
				return nil, err
			}
		}
	case fmtOM:
		for i := range fams {
			var eo []expfmt.EncoderOption
			if o.Created {
				eo = append(eo, expfmt.WithCreatedLines())
			}
			if _, err := expfmt.MetricFamilyToOpenMetrics(&buf, fams[i].DTO(), eo...); err != nil {
				return nil, err
			}
		}
		if _, err := expfmt.FinalizeOpenMetrics(&buf); err != nil {
			return nil, err
		}
	case fmtProto:
		enc := expfmt.NewEncoder(&buf, expfmt.NewFormat(expfmt.TypeProtoDelim).WithEscapingScheme(model.NoEscaping))
		for i := range fams {
			if err := enc.Encode(fams[i].DTO()); err != nil {
				return nil, err
			}
		}
	}
	return buf.Bytes(), nil
}

var contentTypes = []string{"text/plain; version=0.0.4", "application/openmetrics-text; version=1.0.0", "application/vnd.google.protobuf; proto=io.prometheus.client.MetricFamily; encoding=delimited"}

// ---------------------------------------------------------------- driving the real parsers

type obs struct {
	ents     []string // Gallina terms
	hung     bool
	human    []string
	n        int
	ok       bool // ended with io.EOF
	panicked string
	errs     string
	series   int
	hist     int
	exs      int
}

var mtypeCode = map[model.MetricType]int{model.MetricTypeUnknown: 0, model.MetricTypeCounter: 1, model.MetricTypeGauge: 2,
	model.MetricTypeSummary: 3, model.MetricTypeHistogram: 4, model.MetricTypeGaugeHistogram: 5, model.MetricTypeInfo: 6, model.MetricTypeStateset: 7}

func lsetG(l labels.Labels) string {
	var it []string
	l.Range(func(x labels.Label) { it = append(it, "("+B(x.Name)+","+B(x.Value)+")") })
	return list(it)
}

var hangs = 0

// drive runs the real parser under a watchdog: a parser that does not return within the limit is
// reported as hung (its goroutine cannot be stopped and keeps spinning until the harness exits;
// after two hangs StartTimestamp is no longer called on mutated OpenMetrics payloads).
func drive(payload []byte, format int, o opts, valid bool) obs {
	ch := make(chan obs, 1)
	go func() { ch <- drive0(payload, format, o, valid) }()
	select {
	case r := <-ch:
		return r
	case <-time.After(6 * time.Second):
		hangs++
		return obs{hung: true, panicked: "parser did not return within 6s"}
	}
}

func drive0(payload []byte, format int, o opts, valid bool) (r obs) {
	defer func() {
		if p := recover(); p != nil {
			r.panicked = fmt.Sprint(p)
		}
	}()
	cp := append([]byte(nil), payload...) // the parsers may append to / alias the input
	p, err := textparse.New(cp, contentTypes[format], labels.NewSymbolTable(), textparse.ParserOptions{
		EnableTypeAndUnitLabels:                 o.TypeUnit,
		OpenMetricsSkipSTSeries:                 o.SkipST,
		IgnoreNativeHistograms:                  o.IgnoreNH,
		KeepClassicOnClassicAndNativeHistograms: o.KeepClassic,
	})
	if err != nil || p == nil {
		r.panicked = fmt.Sprint("textparse.New: ", err)
		return r
	}
	callST := format == fmtProto || (format == fmtOM && o.SkipST && (valid || hangs < 2))
	for {
		et, err := p.Next()
		if err == io.EOF {
			r.ok = true
			return r
		}
		if err != nil {
			r.errs = err.Error()
			return r
		}
		r.n++
		if r.n > 100000 {
			r.panicked = "parser does not terminate"
			return r
		}
		switch et {
		case textparse.EntryHelp:
			n, h := p.Help()
			r.ents = append(r.ents, "(OH "+B(string(n))+" "+B(string(h))+")")
			r.human = append(r.human, fmt.Sprintf("HELP %q %q", n, h))
		case textparse.EntryType:
			n, t := p.Type()
			c, ok := mtypeCode[t]
			if !ok {
				c = 99
			}
			r.ents = append(r.ents, "(OTi "+B(string(n))+" "+strconv.Itoa(c)+")")
			r.human = append(r.human, fmt.Sprintf("TYPE %q %s", n, t))
		case textparse.EntryUnit:
			n, u := p.Unit()
			r.ents = append(r.ents, "(OU "+B(string(n))+" "+B(string(u))+")")
			r.human = append(r.human, fmt.Sprintf("UNIT %q %q", n, u))
		case textparse.EntryComment:
			r.ents = append(r.ents, "OC")
		case textparse.EntrySeries, textparse.EntryHistogram:
			var l labels.Labels
			var tsS string
			var body string
			if et == textparse.EntrySeries {
				_, ts, v := p.Series()
				tsS = optI(ts)
				body = Fb(v)
				if debug {
					body = fmt.Sprintf("%v(%x)", v, math.Float64bits(v))
					if ts != nil {
						tsS = fmt.Sprint(*ts)
					}
				}
				r.series++
			} else {
				_, ts, h, fh := p.Histogram()
				tsS = optI(ts)
				r.hist++
				switch {
				case h != nil:
					sp := func(s []struct {
						Offset int32
						Length uint32
					}) string {
						return ""
					}
					_ = sp
					var ps, ns, pd, nd []string
					for _, s := range h.PositiveSpans {
						ps = append(ps, "("+I(int64(s.Offset))+","+I(int64(s.Length))+")")
					}
					for _, s := range h.NegativeSpans {
						ns = append(ns, "("+I(int64(s.Offset))+","+I(int64(s.Length))+")")
					}
					for _, d := range h.PositiveBuckets {
						pd = append(pd, I(d))
					}
					for _, d := range h.NegativeBuckets {
						nd = append(nd, I(d))
					}
					body = "(mkOHist " + I(int64(h.Schema)) + " " + Fb(h.ZeroThreshold) + " " + I(int64(h.ZeroCount)) + " " + I(int64(h.Count)) + " " + Fb(h.Sum) + " " +
						list(ps) + " " + list(pd) + " " + list(ns) + " " + list(nd) + " " + I(int64(h.CounterResetHint)) + ")"
				default:
					_ = fh
					body = "(mkOHist (W 0) (W 0) (W 0) (W 0) (W 0) [] [] [] [] (W 99))" // float histograms are not generated
				}
			}
			p.Labels(&l)
			var exs []string
			for k := 0; k < 64; k++ {
				var e exemplar.Exemplar
				if !p.Exemplar(&e) {
					break
				}
				ts := "None"
				if e.HasTs {
					ts = "(Some " + I(e.Ts) + ")"
				}
				exs = append(exs, "(mkEx "+lsetG(e.Labels)+" "+Fb(e.Value)+" "+ts+")")
				if debug {
					r.human = append(r.human, fmt.Sprintf("  EX %s v=%v hasts=%v ts=%d", e.Labels.String(), e.Value, e.HasTs, e.Ts))
				}
				r.exs++
			}
			st := int64(0)
			if callST {
				st = p.StartTimestamp()
			}
			if debug {
				hs := fmt.Sprintf("SERIES %s", l.String())
				if et == textparse.EntrySeries {
					hs += " v=" + body + " ts=" + tsS
				} else {
					hs += " HIST " + body
				}
				hs += fmt.Sprintf(" st=%d nex=%d", st, len(exs))
				r.human = append(r.human, hs)
			}
			if et == textparse.EntrySeries {
				r.ents = append(r.ents, "(OS "+lsetG(l)+" "+body+" "+tsS+" "+list(exs)+" "+I(st)+")")
			} else {
				r.ents = append(r.ents, "(OX "+lsetG(l)+" "+body+" "+tsS+" "+list(exs)+" "+I(st)+")")
			}
		default:
			r.ents = append(r.ents, "OC")
		}
	}
}

// ---------------------------------------------------------------- oracle tables (strconv, float conversions)

func textFloat(f float64) string { // expfmt.writeFloat
	switch {
	case f == 1:
		return "1"
	case f == 0:
		return "0"
	case f == -1:
		return "-1"
	case math.IsNaN(f):
		return "NaN"
	case math.IsInf(f, +1):
		return "+Inf"
	case math.IsInf(f, -1):
		return "-Inf"
	}
	return strconv.FormatFloat(f, 'g', -1, 64)
}

func cr2f(ms int64) float64 { return float64(tsProto(ms).AsTime().UnixNano()) / 1e9 }

func omTs(tok string) (int64, bool) { // the conversion of openmetricsparse.go for timestamps (after parseFloat)
	ts, err := strconv.ParseFloat(tok, 64)
	if err != nil || math.IsNaN(ts) || math.IsInf(ts, 0) {
		return 0, false
	}
	return int64(ts * 1000), true
}

func unreplace(s string) string {
	return strings.NewReplacer(`\"`, "\"", `\\`, "\\", `\n`, "\n").Replace(s)
}

func tables(reg *registry, payload []byte) (ftab, itab, ttab string) {
	// ints first: their derived floats are registered too
	var is []int64
	for v := range reg.ints {
		is = append(is, v)
	}
	sort.Slice(is, func(a, b int) bool { return is[a] < is[b] })
	var it []string
	for _, v := range is {
		u2f := float64(uint64(v))
		t2f := float64(v) / 1000
		c2f := cr2f(v)
		reg.floats[math.Float64bits(u2f)] = true
		reg.floats[math.Float64bits(t2f)] = true
		reg.floats[math.Float64bits(c2f)] = true
		dec := strconv.FormatInt(v, 10)
		it = append(it, "(IT "+I(v)+" "+B(dec)+" "+Fb(u2f)+" "+Fb(t2f)+" "+Fb(c2f)+")")
	}
	var fs []uint64
	for v := range reg.floats {
		fs = append(fs, v)
	}
	sort.Slice(fs, func(a, b int) bool { return fs[a] < fs[b] })
	var ft []string
	for _, v := range fs {
		f := math.Float64frombits(v)
		ft = append(ft, "(FT "+U(v)+" "+B(textFloat(f))+" "+B(omFloat(f))+")")
	}
	// candidate tokens of the payload
	cand := map[string]bool{}
	add := func(s string) {
		if len(s) > 0 && len(s) <= 48 {
			cand[s] = true
		}
	}
	split := func(seps string) {
		for _, t := range strings.FieldsFunc(string(payload), func(r rune) bool { return strings.ContainsRune(seps, r) }) {
			add(t)
			// a value can follow a metric name or a closing brace directly
			k := 0
			for k < len(t) && (t[k] == '_' || t[k] == ':' || t[k] >= '0' && t[k] <= '9' || t[k] >= 'a' && t[k] <= 'z' || t[k] >= 'A' && t[k] <= 'Z') {
				k++
			}
			if k > 0 && k < len(t) && !(t[0] >= '0' && t[0] <= '9') {
				add(t[k:])
			}
			for i := 0; i < len(t); i++ {
				if t[i] == '}' {
					add(t[i+1:])
				}
			}
		}
	}
	if len(payload) > 0 {
		split(" \n")
		split(" \t\n")
		split(" \t\n{")
		split(" \n{")
		for _, t := range strings.Split(string(payload), "\"") {
			add(t)
			add(unreplace(t))
		}
	}
	var ts []string
	for t := range cand {
		ts = append(ts, t)
	}
	sort.Strings(ts)
	var tt []string
	for _, t := range ts {
		pf, nf, ot, pi := "None", "E", "None", "None"
		any := false
		if f, err := strconv.ParseFloat(t, 64); err == nil {
			pf = "(Some " + Fb(f) + ")"
			nf = B(omFloat(f))
			any = true
			if ms, ok := omTs(t); ok {
				ot = "(Some " + I(ms) + ")"
			}
		}
		if v, err := strconv.ParseInt(t, 10, 64); err == nil {
			pi = "(Some " + I(v) + ")"
			any = true
		}
		if any {
			tt = append(tt, "(TK "+B(t)+" "+pf+" "+nf+" "+ot+" "+pi+")")
		}
	}
	return list(ft), list(it), list(tt)
}

// ---------------------------------------------------------------- mutation

var spice = []string{"\"", "\\", "{", "}", ",", "=", " ", "\n", "#", "\t", "0", "9", "a", "_", ":", "+", "-", ".", "e", "\xff", "\xc3", "é",
	"# ", "# HELP ", "# TYPE ", "# UNIT ", "# EOF", "# EOF\n", " # {", "NaN", "1e3", "_created", "_total", "le", "quantile", "\"\"", "{}", "\\n", "\\\"", "  ", "\n\n", "counter", "histogram", "summary"}

func mutate(r *gen.Rand, b []byte, allowNUL bool) []byte {
	out := append([]byte(nil), b...)
	n := 1 + r.Intn(3)
	for k := 0; k < n; k++ {
		if len(out) == 0 {
			out = []byte(gen.Pick(r, spice))
			continue
		}
		pos := r.Intn(len(out))
		switch r.Intn(8) {
		case 0: // replace a byte
			s := gen.Pick(r, spice)
			out[pos] = s[0]
		case 1, 2: // insert
			s := gen.Pick(r, spice)
			out = append(out[:pos], append([]byte(s), out[pos:]...)...)
		case 3: // delete
			out = append(out[:pos], out[pos+1:]...)
		case 4: // truncate
			out = out[:pos]
		case 5: // duplicate a segment
			end := min(len(out), pos+1+r.Intn(20))
			seg := append([]byte(nil), out[pos:end]...)
			out = append(out[:end], append(seg, out[end:]...)...)
		case 6: // delete a segment
			end := min(len(out), pos+1+r.Intn(12))
			out = append(out[:pos], out[end:]...)
		case 7:
			if allowNUL {
				out[pos] = byte(r.Intn(256))
			} else {
				out[pos] = byte(1 + r.Intn(255))
			}
		}
	}
	return out
}

// ---------------------------------------------------------------- main

type desc struct {
	Format  string `json:"format"`
	Opts    opts   `json:"opts"`
	Kind    string `json:"kind"`
	Payload string `json:"payload,omitempty"`
	Err     string `json:"err,omitempty"`
	Shape   string `json:"shape"`
	Gen     int    `json:"gen"`
}

var debug = os.Getenv("VERIF_C35_DEBUG") != ""

var fmtNames = []string{"text", "openmetrics", "protobuf"}

func main() {
	f := gallina.ParseFlags()
	meta := gallina.NewMeta("C35", f.Seed, f.Tier)
	meta.Rule = "corpus of fixed family sets first, then seeded random family sets; each set is encoded with the real expfmt encoders in text, OpenMetrics and protobuf and parsed by the real parser under sampled option combinations (one case each), plus mutated text/OpenMetrics payloads (model parser vs real parser) and Go-side-only mutated payloads of all three formats (no panic); non-trivial = a valid case whose observed stream has at least one series with a label besides __name__ or an exemplar or a timestamp, or a mutant on which the real parser returned an error after at least one entry; distinct by payload bytes + options"
	cf := &gallina.CaseFile{Dir: f.Out, Type: "case", PerShard: 120,
		Preamble: "From Coq Require Import List ZArith Uint63.\nFrom Verif Require Import model.Expo corr.CorrC35.\nImport ListNotations.\nOpen Scope uint63_scope.\n",
		Footer:   gallina.StdFooter}
	id := 0
	seen := map[string]bool{}

	emit := func(gi int, fams []Family, format int, o opts, payload []byte, valid bool, kind string) {
		key := fmt.Sprint(format, o, valid, string(payload))
		if seen[key] {
			return
		}
		seen[key] = true
		r := drive(payload, format, o, valid)
		meta.Evaluations++
		if r.hung {
			meta.GoViol = append(meta.GoViol, gallina.GoViolation{ID: "hang-" + strconv.Itoa(len(meta.GoViol)), Shape: "parser-hang-" + fmtNames[format],
				What: fmt.Sprintf("%s on %q opts %+v", r.panicked, payload, o)})
			meta.Hit("parser-hang-" + fmtNames[format])
			return
		}
		if debug && (kind == "corpus" || valid && !r.ok) && valid {
			fmt.Printf("=== case %d gen %d %s %+v ok=%v err=%q\n%s--- %s\n", id, gi, fmtNames[format], o, r.ok, r.errs, strings.ToValidUTF8(string(payload), "?"), strings.Join(r.human, "\n    "))
		}
		if r.panicked != "" {
			meta.GoViol = append(meta.GoViol, gallina.GoViolation{ID: strconv.Itoa(id), Shape: "parser-panic-" + fmtNames[format], What: fmt.Sprintf("%s on %q", r.panicked, payload)})
		}
		reg := &registry{floats: map[uint64]bool{math.Float64bits(math.Inf(1)): true}, ints: map[int64]bool{}}
		var fg []string
		if valid {
			for i := range fams {
				fg = append(fg, reg.famG(&fams[i]))
			}
		}
		pl := payload
		if format == fmtProto {
			pl = nil
		}
		ftab, itab, ttab := tables(reg, pl)
		cf.Add("(mk " + strconv.Itoa(id) + " " + strconv.Itoa(format) + " " + o.G() + " " + b2i(valid) + " " + list(fg) + " " + B(string(pl)) + " " +
			ftab + " " + itab + " " + ttab + " " + list(r.ents) + " " + b2i(r.ok) + ")")
		shape := kind + "-" + fmtNames[format]
		if valid {
			shape = classify(fams, format, o)
		}
		d := desc{Format: fmtNames[format], Opts: o, Kind: kind, Err: r.errs, Shape: shape, Gen: gi}
		if len(payload) <= 4000 {
			d.Payload = strconv.Quote(string(payload))
		}
		meta.Case(id, d)
		meta.Hit(kind + "-" + fmtNames[format])
		if valid {
			if !r.ok {
				meta.Hit("valid-but-error-" + fmtNames[format])
			}
			nt := r.exs > 0 || strings.Contains(strings.Join(r.ents, ""), "(Some")
			for _, fa := range fams {
				for _, m := range fa.M {
					if len(m.L) > 0 {
						nt = true
					}
				}
			}
			if nt {
				meta.Nontrivial++
			}
		} else if !r.ok && r.n > 0 {
			meta.Nontrivial++
		}
		if !valid {
			if r.ok {
				meta.Hit("mutant-accepted")
			} else {
				meta.Hit("mutant-rejected")
			}
		}
		id++
	}

	runSet := func(gi int, r *gen.Rand, fams []Family, kind string, mutants int) {
		for format := 0; format < 3; format++ {
			var combos []opts
			switch format {
			case fmtText:
				combos = []opts{{}, {TypeUnit: true}}
				if r.Bool() {
					combos = combos[:1]
				} else if r.Bool() {
					combos = combos[1:]
				}
			case fmtOM:
				combos = []opts{{Created: r.Bool(), SkipST: r.Bool(), TypeUnit: r.Bool()}}
				if r.Bool() {
					combos = append(combos, opts{Created: true, SkipST: !combos[0].SkipST, TypeUnit: !combos[0].TypeUnit})
				}
			case fmtProto:
				combos = []opts{{TypeUnit: r.Bool(), IgnoreNH: r.Chance(1, 3), KeepClassic: r.Bool()}}
			}
			ff := famsFor(fams, format)
			for ci, o := range combos {
				payload, err := encode(ff, format, o)
				if err != nil {
					meta.Hit("encoder-error-" + fmtNames[format])
					continue
				}
				emit(gi, ff, format, o, payload, true, kind)
				if ci > 0 {
					continue
				}
				for k := 0; k < mutants; k++ {
					mu := mutate(r, payload, false)
					if format != fmtProto && utf8.Valid(mu) || format != fmtProto && k%2 == 0 {
						emit(gi, nil, format, o, mu, false, "mutant")
					} else {
						goOnly(meta, mu, format, o)
					}
					goOnly(meta, mutate(r, payload, true), format, o)
				}
			}
		}
	}

	for i, c := range corpus() {
		runSet(-1-i, gen.Fork(f.Seed, 1000000+i), c, "corpus", 1)
	}
	// protobuf: fixed option combinations for the histogram state machine
	for i, c := range protoCorpus() {
		for _, o := range []opts{{KeepClassic: true}, {}, {KeepClassic: true, TypeUnit: true}, {IgnoreNH: true}} {
			if payload, err := encode(c, fmtProto, o); err == nil {
				emit(-100-i, c, fmtProto, o, payload, true, "corpus")
			}
		}
	}
	n := f.Count(36, 160)
	for i := 0; i < n; i++ {
		r := gen.Fork(f.Seed, i)
		fams := genFamilies(r)
		mut := 1
		if f.Tier == "thorough" {
			mut = 3
		}
		runSet(i, r, fams, "gen", mut)
	}
	// more family sets, Go side only: the valid payload and mutants of it must not panic
	extra := f.Count(100, 3000)
	for i := n; i < n+extra; i++ {
		r := gen.Fork(f.Seed, i)
		fams := genFamilies(r)
		for format := 0; format < 3; format++ {
			o := opts{TypeUnit: r.Bool(), SkipST: r.Bool(), Created: r.Bool(), IgnoreNH: r.Chance(1, 3), KeepClassic: r.Bool()}
			payload, err := encode(famsFor(fams, format), format, o)
			if err != nil {
				continue
			}
			goOnly(meta, payload, format, o)
			for k := 0; k < 4; k++ {
				goOnly(meta, mutate(r, payload, true), format, o)
			}
		}
	}
	// arbitrary bytes (Go side only): parsers must return entries or an error
	nb := f.Count(2000, 100000)
	for i := 0; i < nb; i++ {
		r := gen.Fork(f.Seed, 5000000+i)
		l := r.Intn(60)
		var b []byte
		for len(b) < l {
			if r.Chance(2, 3) {
				b = append(b, gen.Pick(r, spice)...)
			} else {
				b = append(b, byte(r.Intn(256)))
			}
		}
		for format := 0; format < 3; format++ {
			goOnly(meta, b, format, opts{TypeUnit: r.Bool(), SkipST: r.Bool(), KeepClassic: r.Bool()})
		}
	}
	// reproducer (last, its goroutine keeps spinning): StartTimestamp's peek-ahead (parseComment with ignoreExemplar) never returns when
	// the exemplar of a later line is followed by an unlexable character
	goOnly(meta, []byte("# TYPE a counter\na_total{l=\"1\"} 1\na_total{l=\"2\"} 2 # {t=\"x\"}3\n# EOF\n"), fmtOM, opts{SkipST: true})
	cf.Flush()
	meta.Write(f.Out)
}

var goOnlyN = 0

var lastFile = os.Getenv("VERIF_C35_LAST")

// goOnly parses bytes with the real parser and only looks for panics / non-termination.
func goOnly(meta *gallina.Meta, b []byte, format int, o opts) {
	if lastFile != "" {
		os.WriteFile(lastFile, []byte(fmt.Sprintf("%d %+v\n%q\n", format, o, b)), 0o644)
	}
	r := drive(b, format, o, false)
	meta.Evaluations++
	goOnlyN++
	meta.Hit("bytes-only-" + fmtNames[format])
	if r.hung {
		meta.Hit("parser-hang-" + fmtNames[format])
		meta.GoViol = append(meta.GoViol, gallina.GoViolation{ID: "bytes-" + strconv.Itoa(goOnlyN), Shape: "parser-hang-" + fmtNames[format],
			What: fmt.Sprintf("%s on %q opts %+v", r.panicked, b, o)})
		return
	}
	if r.panicked != "" {
		meta.GoViol = append(meta.GoViol, gallina.GoViolation{ID: "bytes-" + strconv.Itoa(goOnlyN), Shape: "parser-panic-" + fmtNames[format],
			What: fmt.Sprintf("%s on %q opts %+v", r.panicked, b, o)})
	}
}

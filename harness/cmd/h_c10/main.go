// h_c10: correspondence harness for C10 (float chunks return exactly what was appended).
// Drives the real tsdb/chunkenc XOR and XOR2 chunks: appends generated sample sequences with the
// appender re-obtained at random cut points (same object / chunk rebuilt from its bytes),
// records the final bytes, what iterating them returns, and a Next/Seek script, and writes
// all of it as Gallina cases.
package main

import (
	"fmt"
	"math"
	"strconv"
	"strings"

	"github.com/prometheus/prometheus/tsdb/chunkenc"

	"verif/harness/internal/gallina"
	"verif/harness/internal/gen"
)

type sample struct {
	st, t int64
	v     uint64
}

type seg struct {
	fromBytes bool
	ss        []sample
}

type action struct {
	seek bool
	t    int64
}

type obs struct {
	ok bool
	s  sample
}

type desc struct {
	Enc     string   `json:"enc"`
	Shape   string   `json:"shape"`
	Corpus  string   `json:"corpus,omitempty"`
	TsMode  string   `json:"ts_mode"`
	ValMode string   `json:"val_mode"`
	StMode  string   `json:"st_mode"`
	N       int      `json:"n"`
	Cuts    []string `json:"cuts"`
	First   []string `json:"first_samples"`
	Acts    int      `json:"actions"`
	Panic   bool     `json:"panic"`
	DecErr  bool     `json:"dec_err"`
	DecN    int      `json:"dec_n"`
}

// 64-bit quantity as two 32-bit halves (primitive int literals on the Coq side)
func hl(v uint64) string {
	return strconv.FormatUint(v>>32, 10) + " " + strconv.FormatUint(v&0xffffffff, 10)
}

func smp(s sample) string {
	return "wS " + hl(uint64(s.st)) + " " + hl(uint64(s.t)) + " " + hl(s.v)
}

// chunked prints a long list as ([..] ++ [..] ++ ...) with pieces of at most n elements: Coq's
// parser recurses once per element of a list literal and overflows its stack on very long ones.
func chunked(items []string, n int) string {
	if len(items) <= n {
		return gallina.List(items)
	}
	var parts []string
	for i := 0; i < len(items); i += n {
		j := i + n
		if j > len(items) {
			j = len(items)
		}
		parts = append(parts, gallina.List(items[i:j]))
	}
	return "(" + strings.Join(parts, " ++ ") + ")"
}

func smpList(ss []sample) string {
	it := make([]string, len(ss))
	for i, s := range ss {
		it[i] = smp(s)
	}
	return chunked(it, 2000)
}

func bytesList(b []byte) string {
	it := make([]string, len(b))
	for i, v := range b {
		it[i] = strconv.Itoa(int(v))
	}
	return chunked(it, 4000)
}

const staleNaN = 0x7ff0000000000002

// ---------------------------------------------------------------- generators

var dodEdges = []int64{0, 0, 0, 1, -1, 2, -3, 4, -4, 31, -31, 32, 33, 255, 256, -255, -256, 257,
	1<<12 - 1, 1 << 12, -(1 << 12), -(1 << 12) - 1, 1<<12 + 1,
	1<<13 - 1, 1 << 13, 1<<13 + 1, -(1<<13 - 1), -(1 << 13), -(1<<13 - 2),
	1<<16 - 1, 1 << 16, 1<<16 + 1, -(1<<16 - 1), -(1 << 16),
	1<<19 - 1, 1 << 19, 1<<19 + 1, -(1<<19 - 1), -(1 << 19), -(1 << 19) - 1,
	1 << 20, 1 << 32, -(1 << 32), 1 << 40}

func genTimestamps(r *gen.Rand, n int) ([]int64, string) {
	ts := make([]int64, n)
	mode := r.Intn(10)
	switch {
	case mode <= 6: // strictly increasing, dod biased to the bucket boundaries
		name := "increasing"
		var t int64
		switch r.Intn(6) {
		case 0:
			t = 0
		case 1:
			t = 1700000000000 + r.Range(0, 1e9)
		case 2:
			t = -r.Range(1, 1e12)
		case 3:
			t = -(1 << 62) + r.Range(0, 1000)
			name = "increasing-low-edge"
		case 4:
			t = (1 << 62) - r.Range(1e12, 2e12)
			name = "increasing-high-edge"
		default:
			t = r.Range(-1000, 1000)
		}
		delta := r.PickI64(1, 2, 1000, 15000, 15000, 60000, 1<<13, 1<<19, 1<<20+7)
		regular := r.Chance(1, 3)
		for i := 0; i < n; i++ {
			ts[i] = t
			if !regular || r.Chance(1, 10) {
				var dod int64
				switch r.Intn(4) {
				case 0:
					dod = dodEdges[r.Intn(len(dodEdges))]
				case 1:
					dod = r.Range(-20, 20)
				case 2:
					dod = r.Range(-5000, 5000)
				default:
					dod = 0
				}
				if r.Chance(1, 40) {
					dod = r.Range(-(1 << 45), 1<<45)
				}
				nd := delta + dod
				if nd < 1 {
					nd = 1 + r.Range(0, 3)
				}
				delta = nd
			}
			if t > (1<<62)-delta-1 { // stay within +-2^62
				delta = 1
				if t >= (1<<62)-2 {
					ts = ts[:i+1]
					return ts, name + "-clipped"
				}
			}
			t += delta
		}
		return ts, name
	case mode == 7: // huge deltas within +-2^62 (64-bit dod bucket, deltas beyond int63)
		lo, hi := int64(-(1 << 62)), int64(1<<62)
		cur := lo + r.Range(0, 10)
		for i := 0; i < n; i++ {
			ts[i] = cur
			rem := hi - cur
			if rem <= int64(n-i)+2 {
				ts = ts[:i+1]
				break
			}
			step := int64(r.U64()%uint64(rem/2)) + 1
			if r.Chance(1, 2) {
				step = r.Range(1, 100000)
			}
			cur += step
		}
		return ts, "increasing-huge"
	case mode == 8: // arbitrary int64 (not increasing; wrap-around arithmetic)
		for i := range ts {
			switch r.Intn(5) {
			case 0:
				ts[i] = r.PickI64(math.MinInt64, math.MaxInt64, math.MinInt64+1, math.MaxInt64-1, 0, -1, 1)
			default:
				ts[i] = int64(r.U64())
			}
		}
		return ts, "arbitrary"
	default: // non-monotonic small
		t := r.Range(-100, 100)
		for i := range ts {
			ts[i] = t
			t += r.Range(-10, 30)
		}
		return ts, "nonmonotonic-small"
	}
}

func specialValue(r *gen.Rand) uint64 {
	switch r.Intn(12) {
	case 0:
		return staleNaN
	case 1:
		return 0x7ff8000000000001 // normal NaN
	case 2:
		return 0x7ff0000000000000 // +Inf
	case 3:
		return 0xfff0000000000000 // -Inf
	case 4:
		return 0x8000000000000000 // -0
	case 5:
		return 0
	case 6:
		return 0x7ff0000000000001 | (r.U64() & 0x000fffffffffffff) // NaN payloads
	case 7:
		return 1 // smallest denormal
	case 8:
		return math.MaxUint64
	case 9:
		return 0xfff8000000000000 | r.U64()>>12
	case 10:
		return staleNaN ^ 1 // neighbour of the stale marker
	default:
		return math.Float64bits(float64(r.Range(-1000, 1000)))
	}
}

func genValues(r *gen.Rand, n int) ([]uint64, string) {
	vs := make([]uint64, n)
	mode := r.Intn(8)
	name := ""
	switch mode {
	case 0:
		name = "constant"
		c := math.Float64bits(r.Float() * 100)
		if r.Chance(1, 4) {
			c = specialValue(r)
		}
		for i := range vs {
			vs[i] = c
		}
	case 1:
		name = "counter"
		x := float64(r.Range(0, 1000))
		for i := range vs {
			vs[i] = math.Float64bits(x)
			if r.Chance(3, 4) {
				x += float64(r.Range(0, 50))
			}
		}
	case 2:
		name = "gauge"
		for i := range vs {
			vs[i] = math.Float64bits(r.Float()*2000 - 1000)
		}
	case 3:
		name = "random-bits"
		for i := range vs {
			vs[i] = r.U64()
		}
	case 4:
		name = "windowed-xor" // deltas with chosen leading/trailing zero counts
		cur := r.U64()
		for i := range vs {
			vs[i] = cur
			if r.Chance(1, 5) {
				continue
			}
			lead := uint(r.Intn(64))
			if r.Chance(1, 4) {
				lead = uint(r.PickI64(0, 30, 31, 32, 33, 63))
			}
			trail := uint(r.Intn(64))
			if r.Chance(1, 4) {
				trail = uint(r.PickI64(0, 1, 31, 32, 33, 63))
			}
			if lead+trail > 63 {
				trail = 63 - lead
			}
			w := 64 - lead - trail
			var d uint64
			if w == 64 {
				d = r.U64() | 1<<63 | 1
			} else {
				d = r.U64() & (1<<w - 1)
				d |= 1 << (w - 1) // exact leading
				d |= 1            // exact trailing
				d <<= trail
			}
			cur ^= d
		}
	case 5:
		name = "stale-mix"
		x := float64(r.Range(0, 100))
		for i := range vs {
			switch {
			case r.Chance(1, 4):
				vs[i] = staleNaN
			case r.Chance(1, 8):
				vs[i] = specialValue(r)
			default:
				vs[i] = math.Float64bits(x)
				if r.Chance(1, 2) {
					x += float64(r.Range(-3, 3))
				}
			}
		}
	case 6:
		name = "specials"
		for i := range vs {
			vs[i] = specialValue(r)
		}
	default:
		name = "mixed"
		cur := math.Float64bits(float64(r.Range(0, 100)))
		for i := range vs {
			switch r.Intn(6) {
			case 0:
				cur = r.U64()
			case 1:
				cur = specialValue(r)
			case 2:
				cur ^= 1 << uint(r.Intn(64))
			case 3:
				cur = math.Float64bits(math.Float64frombits(cur) + 1)
			}
			vs[i] = cur
		}
	}
	return vs, name
}

func genSTs(r *gen.Rand, ts []int64) ([]int64, string) {
	n := len(ts)
	st := make([]int64, n)
	prev := func(i int) int64 {
		if i == 0 {
			return ts[0] - 15000
		}
		return ts[i-1]
	}
	switch r.Intn(9) {
	case 0:
		return st, "none"
	case 1:
		c := ts[0] - r.Range(1, 100000)
		if c == 0 {
			c = 1
		}
		for i := range st {
			st[i] = c
		}
		return st, "constant"
	case 2:
		k := r.Intn(n + 1)
		if r.Chance(1, 2) {
			k = int(r.PickI64(1, 2, 126, 127, 128, 129, 130)) % (n + 1)
		}
		c := ts[0] - r.Range(1, 1000)
		for i := k; i < n; i++ {
			st[i] = c
		}
		return st, "late"
	case 3:
		for i := range st {
			st[i] = prev(i) + r.Range(-3, 4)
		}
		return st, "jitter-small"
	case 4:
		for i := range st {
			st[i] = prev(i) + r.PickI64(0, 0, 0, 1, -3, 4, -4, 5, -31, 32, -32, 33, -255, 256, -256, 257, -2047, 2048, -2048, 2049,
				-131071, 131072, 131073, -16777215, 16777216, 16777217, -(1<<55-1), 1<<55, 1<<55+1, -(1<<55))
		}
		return st, "jitter-edges"
	case 5:
		for i := range st {
			st[i] = int64(r.U64())
			if r.Chance(1, 6) {
				st[i] = r.PickI64(0, math.MinInt64, math.MaxInt64, 1, -1)
			}
		}
		return st, "arbitrary"
	case 6: // constant with a few resets (counter restarts)
		c := ts[0] - 1
		for i := range st {
			if r.Chance(1, 30) {
				c = prev(i) + 1
			}
			st[i] = c
		}
		return st, "resets"
	case 7: // known first, then 0, then back
		c := ts[0] - 5
		for i := range st {
			switch {
			case i < n/3:
				st[i] = c
			case i < 2*n/3:
				st[i] = 0
			default:
				st[i] = c + 7
			}
		}
		return st, "known-zero-known"
	default: // constant up to the forced header position and beyond
		c := ts[0] - 9
		k := int(r.PickI64(126, 127, 128, 129, 200))
		for i := range st {
			st[i] = c
			if i >= k && r.Chance(1, 2) {
				st[i] = prev(i)
			}
		}
		return st, "constant-then-change"
	}
}

// ---------------------------------------------------------------- driving the real code

type result struct {
	panicked bool
	appErr   bool
	bytes    []byte
	dec      []sample
	decErr   bool
	obs      []obs
}

var pool = chunkenc.NewPool()

func runCase(enc chunkenc.Encoding, segs []seg, acts []action) (res result) {
	c, err := chunkenc.NewEmptyChunk(enc)
	if err != nil {
		panic(err)
	}
	func() {
		defer func() {
			if r := recover(); r != nil {
				if fmt.Sprint(r) != "chunk capacity exceeded" {
					panic(r)
				}
				res.panicked = true
			}
		}()
		for _, sg := range segs {
			if sg.fromBytes {
				b := append([]byte(nil), c.Bytes()...)
				c, err = chunkenc.FromData(enc, b)
				if err != nil {
					panic(err)
				}
			}
			app, err := c.Appender()
			if err != nil {
				res.appErr = true
				return
			}
			for _, s := range sg.ss {
				app.Append(s.st, s.t, math.Float64frombits(s.v))
			}
		}
	}()
	res.bytes = append([]byte(nil), c.Bytes()...)
	if res.panicked || res.appErr {
		return res
	}
	// decode through a pooled chunk object rebuilt from the bytes
	pc, err := pool.Get(enc, append([]byte(nil), res.bytes...))
	if err != nil {
		panic(err)
	}
	it := pc.Iterator(nil)
	for it.Next() != chunkenc.ValNone {
		t, v := it.At()
		if it.AtT() != t {
			panic("AtT != At")
		}
		res.dec = append(res.dec, sample{st: it.AtST(), t: t, v: math.Float64bits(v)})
		if len(res.dec) > 70000 {
			panic("iterator does not terminate")
		}
	}
	res.decErr = it.Err() != nil
	// script on a re-used iterator (Reset path) over the live chunk object
	it2 := c.Iterator(it)
	for _, a := range acts {
		var vt chunkenc.ValueType
		if a.seek {
			vt = it2.Seek(a.t)
		} else {
			vt = it2.Next()
		}
		o := obs{ok: vt != chunkenc.ValNone}
		if o.ok {
			if vt != chunkenc.ValFloat {
				panic("unexpected value type")
			}
			t, v := it2.At()
			o.s = sample{st: it2.AtST(), t: t, v: math.Float64bits(v)}
		}
		res.obs = append(res.obs, o)
	}
	_ = pool.Put(pc)
	return res
}

// probeGrow panics unless appending [next] to a chunk holding [prefix] grows the byte slice by
// exactly [want] bytes (which, for the probes used, happens only if the bit stream of the
// prefix ends on a byte boundary).
func probeGrow(enc chunkenc.Encoding, prefix []sample, next sample, want int) {
	c, err := chunkenc.NewEmptyChunk(enc)
	if err != nil {
		panic(err)
	}
	app, err := c.Appender()
	if err != nil {
		panic(err)
	}
	for _, s := range prefix {
		app.Append(s.st, s.t, math.Float64frombits(s.v))
	}
	before := len(c.Bytes())
	app.Append(next.st, next.t, math.Float64frombits(next.v))
	if got := len(c.Bytes()) - before; got != want {
		panic(fmt.Sprintf("corpus prefix is not byte aligned: grew by %d bytes, want %d", got, want))
	}
}

func genActs(r *gen.Rand, ts []int64) []action {
	n := r.Intn(14) + 3
	acts := make([]action, 0, n)
	for i := 0; i < n; i++ {
		if r.Chance(2, 5) {
			acts = append(acts, action{})
			continue
		}
		var t int64
		switch r.Intn(8) {
		case 0:
			t = ts[0] - r.Range(0, 5)
		case 1:
			t = ts[len(ts)-1] + r.Range(0, 2)
		case 2:
			t = math.MinInt64
		case 3:
			t = math.MaxInt64
		default:
			t = ts[r.Intn(len(ts))] + r.Range(-1, 1)
		}
		acts = append(acts, action{seek: true, t: t})
	}
	return acts
}

func main() {
	f := gallina.ParseFlags()
	meta := gallina.NewMeta("C10", f.Seed, f.Tier)
	meta.Rule = "corpus + seeded sequences per encoding (XOR, XOR2): timestamps increasing with delta-of-delta drawn from the bucket edges (13/14/17/20/64 bit, +-1), huge, arbitrary int64 and non-monotonic; values constant/counter/gauge/random bits/chosen xor windows/stale-NaN mixes/specials; start timestamps none/constant/late/jitter/edges/arbitrary/resets; appender re-obtained at random cuts (same object or from bytes); Next/Seek script. non-trivial = at least 3 samples and at least one non-zero delta-of-delta or value change; distinct by (encoding, samples, cuts, script)"
	cf := &gallina.CaseFile{Dir: f.Out, Type: "case", PerShard: f.Count(35, 160),
		Preamble: "From Coq Require Import List ZArith Uint63.\nFrom Verif Require Import lib.Int64 lib.Bits model.Xor corr.CorrC10.\nImport ListNotations.\nOpen Scope uint63_scope.\n",
		Footer:   gallina.StdFooter}
	id := 0
	seen := map[string]bool{}

	emit := func(enc chunkenc.Encoding, segs []seg, acts []action, d desc) {
		var all []sample
		for _, sg := range segs {
			all = append(all, sg.ss...)
		}
		res := runCase(enc, segs, acts)
		fail := 0
		if res.panicked {
			fail = 1
		}
		if res.appErr {
			fail = 2
			meta.Hit("appender-error")
		}
		encN, encS := 1, "XOR"
		if enc == chunkenc.EncXOR2 {
			encN, encS = 2, "XOR2"
		}
		segIt := make([]string, len(segs))
		for i, sg := range segs {
			k := "ReObj"
			if sg.fromBytes {
				k = "ReBytes"
			}
			segIt[i] = "(" + k + ", " + smpList(sg.ss) + ")"
			if i > 0 {
				d.Cuts = append(d.Cuts, k)
			}
		}
		actIt := make([]string, len(acts))
		for i, a := range acts {
			if a.seek {
				actIt[i] = "wSeek " + hl(uint64(a.t))
			} else {
				actIt[i] = "ANext"
			}
		}
		obsIt := make([]string, len(res.obs))
		for i, o := range res.obs {
			if o.ok {
				obsIt[i] = "Some (" + smp(o.s) + ")"
			} else {
				obsIt[i] = "None"
			}
		}
		term := fmt.Sprintf("wCase %d %d %s %d %s %s %s %s %s", id, encN, gallina.List(segIt), fail,
			bytesList(res.bytes), smpList(res.dec), gallina.Bool(res.decErr), gallina.List(actIt), gallina.List(obsIt))
		key := term[strings.Index(term, " ")+1:]
		key = key[strings.Index(key, " "):]
		if seen[key] {
			return
		}
		seen[key] = true
		// classification
		d.Enc = encS
		d.N = len(all)
		d.Acts = len(acts)
		d.Panic = res.panicked
		d.DecErr = res.decErr
		d.DecN = len(res.dec)
		for i := 0; i < len(all) && i < 4; i++ {
			d.First = append(d.First, fmt.Sprintf("st=%d t=%d v=%#x", all[i].st, all[i].t, all[i].v))
		}
		xorFromBytes := false
		if enc == chunkenc.EncXOR {
			seenSamples, reloaded := 0, false
			for _, sg := range segs {
				if sg.fromBytes && seenSamples > 0 {
					reloaded = true
				}
				if reloaded && len(sg.ss) > 0 {
					xorFromBytes = true
				}
				seenSamples += len(sg.ss)
			}
		}
		d.Shape = encS + "/" + d.TsMode
		if xorFromBytes {
			// regression class of the fixed defect "XORChunk.Appender does not restore the write
			// position on a chunk reloaded from bytes" (ordinary cases now)
			meta.Hit("xor-append-after-reload-from-bytes")
		}
		nontrivial := false
		if len(all) >= 3 {
			for i := 2; i < len(all); i++ {
				if all[i].t-all[i-1].t != all[i-1].t-all[i-2].t || all[i].v != all[i-1].v {
					nontrivial = true
				}
			}
		}
		if nontrivial {
			meta.Nontrivial++
		}
		meta.Hit("enc:" + encS)
		meta.Hit("ts:" + d.TsMode)
		meta.Hit("val:" + d.ValMode)
		if enc == chunkenc.EncXOR2 {
			meta.Hit("st:" + d.StMode)
		}
		for _, k := range d.Cuts {
			meta.Hit("cut:" + encS + ":" + k)
		}
		if res.panicked {
			meta.Hit("capacity-panic")
		}
		switch {
		case len(all) <= 2:
			meta.Hit("len:1-2")
		case len(all) <= 127:
			meta.Hit("len:3-127")
		case len(all) <= 1000:
			meta.Hit("len:128-1000")
		default:
			meta.Hit("len:>1000")
		}
		cf.Add(term)
		meta.Case(id, d)
		meta.Evaluations++
		id++
	}

	encs := []chunkenc.Encoding{chunkenc.EncXOR, chunkenc.EncXOR2}

	mk := func(ts []int64, vs []uint64, sts []int64) []sample {
		ss := make([]sample, len(ts))
		for i := range ts {
			ss[i] = sample{t: ts[i], v: vs[i]}
			if sts != nil {
				ss[i].st = sts[i]
			}
		}
		return ss
	}
	f64 := math.Float64bits

	// ---- corpus: fixed reproducers first
	for _, enc := range encs {
		base := mk([]int64{1000, 2000, 3007, 4000, 5000}, []uint64{f64(1.5), f64(1.5), f64(2.5), f64(3.5), f64(3.5)}, nil)
		emit(enc, []seg{{ss: base}}, []action{{}, {seek: true, t: 2500}, {seek: true, t: 0}, {}, {}, {}, {seek: true, t: 1}}, desc{Corpus: "basic", TsMode: "corpus", ValMode: "corpus", StMode: "none"})
		// appender re-obtained from the chunk's bytes after two samples (bit stream not byte aligned)
		emit(enc, []seg{{ss: base[:2]}, {fromBytes: true, ss: base[2:]}}, nil, desc{Corpus: "reload-from-bytes-unaligned", TsMode: "corpus", ValMode: "corpus", StMode: "none"})
		emit(enc, []seg{{ss: base[:2]}, {fromBytes: false, ss: base[2:]}}, nil, desc{Corpus: "reopen-same-object", TsMode: "corpus", ValMode: "corpus", StMode: "none"})
		// all values equal: the iterator's window stays 0/0 while a fresh appender has 0xff
		emit(enc, []seg{{ss: mk([]int64{1, 2, 3}, []uint64{7, 7, 7}, nil)}, {ss: mk([]int64{4, 5}, []uint64{9, 1 << 63}, nil)}}, nil, desc{Corpus: "resume-window-0-0", TsMode: "corpus", ValMode: "corpus", StMode: "none"})
		// dod bucket edges of both encodings, exactly
		for _, e := range []int64{1 << 13, 1<<13 + 1, -(1<<13 - 1), -(1 << 13), 1<<12 - 1, 1 << 12, -(1 << 12), -(1 << 12) - 1, 1 << 16, 1<<16 + 1, -(1<<16 - 1), -(1 << 16), 1 << 19, 1<<19 + 1, 1<<19 - 1, -(1<<19 - 1), -(1 << 19), -(1 << 19) - 1} {
			d0 := int64(1 << 21)
			emit(enc, []seg{{ss: mk([]int64{0, d0, 2*d0 + e, 3*d0 + 2*e}, []uint64{1, 1, 2, 2}, []int64{0, 0, 0, 0})}}, []action{{seek: true, t: d0 + 1}}, desc{Corpus: fmt.Sprintf("dod-edge-%d", e), TsMode: "corpus", ValMode: "corpus", StMode: "none"})
		}
		// start timestamps: constant for more than 127 samples, then changing (the header's
		// firstSTChangeOn has only 7 bits and is forced at sample 127); also a change exactly
		// at 126/127/128 and a reload from bytes right after the forced position
		for _, k := range []int{126, 127, 128, 131} {
			n0 := 140
			ts := make([]int64, n0)
			vs := make([]uint64, n0)
			sts := make([]int64, n0)
			for i := range ts {
				ts[i] = int64(i) * 1000
				vs[i] = f64(float64(i / 5))
				sts[i] = -7
				if i >= k {
					sts[i] = ts[i-1] + int64(i%3)
				}
			}
			all := mk(ts, vs, sts)
			emit(enc, []seg{{ss: all}}, []action{{seek: true, t: 126500}, {}, {}}, desc{Corpus: fmt.Sprintf("st-change-at-%d", k), TsMode: "corpus", ValMode: "corpus", StMode: "constant-then-change"})
			emit(enc, []seg{{ss: all[:128]}, {fromBytes: enc == chunkenc.EncXOR2, ss: all[128:]}}, nil, desc{Corpus: fmt.Sprintf("st-change-at-%d-reopen-128", k), TsMode: "corpus", ValMode: "corpus", StMode: "constant-then-change"})
		}
		// write position exactly on a byte boundary at the re-open (bstream.count == 0, so the
		// reader must report valid == 0, not 8 or 64): one sample = varint + 64 bits; two samples
		// with a value delta whose new-window encoding completes the byte (XOR: 2+5+6+27 bits for
		// delta 1<<6, XOR2: 3+5+6+26 bits for delta 1<<7).  probeGrow asserts the alignment on the
		// real chunk: the next sample makes the byte slice grow by exactly the aligned amount.
		{
			v2 := uint64(1 << 6)
			if enc == chunkenc.EncXOR2 {
				v2 = 1 << 7
			}
			one := mk([]int64{1000}, []uint64{f64(1.5)}, nil)
			two := mk([]int64{1000, 2000}, []uint64{0, v2}, nil)
			probeGrow(enc, one, sample{t: 2000, v: f64(1.5)}, 3) // uvarint(1000) = 2 bytes, then 1 bit
			probeGrow(enc, two, sample{t: 3000, v: v2}, 1)       // dod = 0, value unchanged: 1-2 bits
			tail1 := mk([]int64{2000, 3007, 4000}, []uint64{f64(1.5), f64(2.5), f64(2.5)}, nil)
			tail2 := mk([]int64{3000, 4007, 5000}, []uint64{v2, f64(2.5), f64(2.5)}, nil)
			for _, fb := range []bool{false, true} {
				kind := "same-object"
				if fb {
					kind = "from-bytes"
				}
				emit(enc, []seg{{ss: one}, {fromBytes: fb, ss: tail1}}, []action{{seek: true, t: 3000}}, desc{Corpus: "reopen-on-byte-boundary-1-" + kind, TsMode: "corpus", ValMode: "corpus", StMode: "none"})
				emit(enc, []seg{{ss: two}, {fromBytes: fb, ss: tail2}}, []action{{seek: true, t: 4000}}, desc{Corpus: "reopen-on-byte-boundary-2-" + kind, TsMode: "corpus", ValMode: "corpus", StMode: "none"})
				// twice in a row, nothing appended in between
				emit(enc, []seg{{ss: two}, {fromBytes: fb}, {fromBytes: fb, ss: tail2}}, nil, desc{Corpus: "reopen-on-byte-boundary-twice-" + kind, TsMode: "corpus", ValMode: "corpus", StMode: "none"})
			}
		}
		// extreme timestamps: deltas that wrap int64
		emit(enc, []seg{{ss: mk([]int64{math.MinInt64, math.MaxInt64, math.MinInt64, 0, math.MaxInt64}, []uint64{0, math.MaxUint64, staleNaN, staleNaN, 1}, nil)}}, nil, desc{Corpus: "int64-extremes", TsMode: "corpus", ValMode: "corpus", StMode: "none"})
	}

	// ---- seeded random histories
	n := f.Count(200, 1200)
	for i := 0; i < n; i++ {
		r := gen.Fork(f.Seed, i)
		enc := encs[i%len(encs)]
		var ln int
		switch k := r.Intn(20); {
		case k < 3:
			ln = r.Intn(4) + 1
		case k < 15:
			ln = r.Intn(int(f.Count(30, 120))) + 3
		case k < 19:
			ln = r.Intn(int(f.Count(90, 400))) + 40
		default:
			ln = r.Intn(int(f.Count(200, 3000))) + 200
		}
		ts, tsMode := genTimestamps(r, ln)
		ln = len(ts)
		vs, valMode := genValues(r, ln)
		var sts []int64
		stMode := "none"
		if enc == chunkenc.EncXOR2 {
			sts, stMode = genSTs(r, ts)
		}
		all := mk(ts, vs, sts)
		// cuts
		var segs []seg
		ncuts := 0
		if r.Chance(1, 2) {
			ncuts = r.Intn(3) + 1
		}
		start := 0
		kind := false
		for c := 0; c < ncuts; c++ {
			cut := start + r.Intn(ln-start+1)
			if r.Chance(1, 4) {
				cut = int(r.PickI64(0, 1, 2, 3, 126, 127, 128, 129))
				if cut < start || cut > ln {
					cut = start
				}
			}
			segs = append(segs, seg{fromBytes: kind, ss: all[start:cut]})
			kind = r.Chance(1, 2)
			start = cut
		}
		segs = append(segs, seg{fromBytes: kind, ss: all[start:]})
		emit(enc, segs, genActs(r, ts), desc{TsMode: tsMode, ValMode: valMode, StMode: stMode})
	}

	// ---- capacity: 65535 samples fit, the next append panics (thorough tier only: large terms)
	if f.Tier == "thorough" {
		for _, enc := range encs {
			r := gen.Fork(f.Seed, 1<<30)
			ts := make([]int64, 65536)
			vs := make([]uint64, 65536)
			for i := range ts {
				ts[i] = int64(i) * 15000
				vs[i] = f64(float64(i / 7))
				if r.Chance(1, 50) {
					ts[i] += r.Range(-3, 3)
				}
			}
			emit(enc, []seg{{ss: mk(ts[:65535], vs[:65535], nil)}}, []action{{seek: true, t: ts[65000]}, {}, {seek: true, t: math.MaxInt64}}, desc{Corpus: "capacity-full", TsMode: "regular", ValMode: "counter", StMode: "none"})
			emit(enc, []seg{{ss: mk(ts, vs, nil)}}, nil, desc{Corpus: "capacity-exceeded", TsMode: "regular", ValMode: "counter", StMode: "none"})
		}
	}
	cf.Flush()
	meta.Write(f.Out)
}

// h_c20: correspondence harness for C20 (tombstones.Intervals.Add).
// Runs the real Intervals.Add on enumerated + generated inputs, records the observed result
// (or panic) and writes the cases for Coq.
package main

import (
	"fmt"
	"math"

	"github.com/prometheus/prometheus/tsdb/tombstones"

	"verif/harness/internal/gallina"
	"verif/harness/internal/gen"
)

type desc struct {
	In     [][2]int64 `json:"in"`
	New    [2]int64   `json:"new"`
	Obs    string     `json:"obs"`
	Shape  string     `json:"shape"`
	Corpus string     `json:"corpus,omitempty"`
}

func ivs(l tombstones.Intervals) string {
	it := make([]string, len(l))
	for i, v := range l {
		it[i] = fmt.Sprintf("mkI %s %s", gallina.Z(v.Mint), gallina.Z(v.Maxt))
	}
	return gallina.List(it)
}

func pairs(l tombstones.Intervals) [][2]int64 {
	r := make([][2]int64, len(l))
	for i, v := range l {
		r[i] = [2]int64{v.Mint, v.Maxt}
	}
	return r
}

func run(in tombstones.Intervals, n tombstones.Interval) (out tombstones.Intervals, panicked bool) {
	defer func() {
		if r := recover(); r != nil {
			panicked = true
		}
	}()
	cp := make(tombstones.Intervals, len(in), len(in)+gen0)
	copy(cp, in)
	return cp.Add(n), false
}

var gen0 = 0

func canonical(l tombstones.Intervals) bool {
	for i, v := range l {
		if v.Mint > v.Maxt {
			return false
		}
		if i > 0 && !(l[i-1].Maxt < math.MaxInt64 && l[i-1].Maxt+1 < v.Mint) {
			return false
		}
	}
	return true
}

func main() {
	f := gallina.ParseFlags()
	meta := gallina.NewMeta("C20", f.Seed, f.Tier)
	meta.Rule = "corpus + exhaustive enumeration of canonical interval lists (<=3 intervals) over the boundary domain {MinInt64,MinInt64+1,-2..3,MaxInt64-1,MaxInt64} (quick tier: 8 of these 10 points, lists <=2; thorough: all, lists <=3) x every well-formed new interval over it, plus seeded random canonical and non-canonical lists; non-trivial = the insertion merges with or lands between existing intervals (result is not a plain append to an empty list); distinct by (input,new)"
	cf := &gallina.CaseFile{Dir: f.Out, Type: "case", PerShard: 4000,
		Preamble: "From Coq Require Import List ZArith.\nFrom Verif Require Import lib.Int64 model.Intervals corr.CorrC20.\nImport ListNotations.\nOpen Scope Z_scope.\n",
		Footer:   gallina.StdFooter}
	id := 0
	seen := map[string]bool{}
	emit := func(in tombstones.Intervals, n tombstones.Interval, corpus string) {
		key := fmt.Sprint(in, n)
		if seen[key] {
			return
		}
		seen[key] = true
		out, p := run(in, n)
		obs, obsS := "ObsPanic", "panic"
		if !p {
			obs, obsS = "(ObsOk "+ivs(out)+")", fmt.Sprint(pairs(out))
		}
		class := "noncanonical-input"
		if canonical(in) && n.Mint <= n.Maxt {
			switch {
			case len(in) == 0:
				class = "empty"
			case p:
				class = "panic"
			case len(out) == len(in)+1:
				class = "insert"
			case len(out) == len(in):
				class = "merge-1"
			default:
				class = "merge-many"
			}
			if n.Mint == math.MinInt64 {
				meta.Hit("min-guard")
			}
			if n.Maxt == math.MaxInt64 {
				meta.Hit("max-guard")
			}
		}
		meta.Hit(class)
		if class != "empty" {
			meta.Nontrivial++
		}
		shape := class
		if n.Maxt == math.MaxInt64 && p {
			shape = "add-maxint64-panic"
		}
		cf.Add(fmt.Sprintf("mkCase %s %s (mkI %s %s) %s", gallina.Z(int64(id)), ivs(in), gallina.Z(n.Mint), gallina.Z(n.Maxt), obs))
		meta.Case(id, desc{In: pairs(in), New: [2]int64{n.Mint, n.Maxt}, Obs: obsS, Shape: shape, Corpus: corpus})
		meta.Evaluations++
		id++
	}

	// corpus: reproducers of past findings, always first
	emit(tombstones.Intervals{{Mint: 1, Maxt: 2}, {Mint: 10, Maxt: 20}}, tombstones.Interval{Mint: 5, Maxt: math.MaxInt64}, "defect1-maxint64-mini>0")
	emit(tombstones.Intervals{{Mint: 1, Maxt: 2}, {Mint: 10, Maxt: 20}, {Mint: 30, Maxt: 40}}, tombstones.Interval{Mint: 11, Maxt: math.MaxInt64}, "defect1-maxint64-mini>0-b")
	emit(tombstones.Intervals{{Mint: 1, Maxt: 2}}, tombstones.Interval{Mint: math.MinInt64, Maxt: math.MaxInt64}, "both-guards")

	// exhaustive enumeration over the boundary domain
	dom := []int64{math.MinInt64, math.MinInt64 + 1, -2, -1, 0, 1, 2, 3, math.MaxInt64 - 1, math.MaxInt64}
	maxLen := 2
	if f.Tier == "thorough" {
		maxLen = 3
	} else {
		dom = []int64{math.MinInt64, math.MinInt64 + 1, -1, 0, 1, 3, math.MaxInt64 - 1, math.MaxInt64}
	}
	var lists []tombstones.Intervals
	var rec func(cur tombstones.Intervals, from int)
	rec = func(cur tombstones.Intervals, from int) {
		lists = append(lists, append(tombstones.Intervals{}, cur...))
		if len(cur) == maxLen {
			return
		}
		for a := from; a < len(dom); a++ {
			for b := a; b < len(dom); b++ {
				if len(cur) > 0 {
					last := cur[len(cur)-1].Maxt
					if last == math.MaxInt64 || last+1 >= dom[a] {
						continue
					}
				}
				rec(append(cur, tombstones.Interval{Mint: dom[a], Maxt: dom[b]}), b+1)
			}
		}
	}
	rec(nil, 0)
	for _, l := range lists {
		for a := 0; a < len(dom); a++ {
			for b := a; b < len(dom); b++ {
				emit(l, tombstones.Interval{Mint: dom[a], Maxt: dom[b]}, "")
			}
		}
	}
	// seeded random: longer canonical lists, and non-canonical (unsorted / inverted) inputs
	n := f.Count(1500, 20000)
	for i := 0; i < n; i++ {
		r := gen.Fork(f.Seed, i)
		var l tombstones.Intervals
		k := r.Intn(7)
		t := r.Range(-50, 0)
		if r.Chance(1, 6) {
			t = math.MinInt64 + r.Range(0, 2)
		}
		for j := 0; j < k; j++ {
			w := r.Range(0, 6)
			l = append(l, tombstones.Interval{Mint: t, Maxt: t + w})
			t += w + r.Range(2, 6)
		}
		if r.Chance(1, 8) && len(l) > 0 { // make it non-canonical
			j := r.Intn(len(l))
			switch r.Intn(3) {
			case 0:
				l[j].Mint, l[j].Maxt = l[j].Maxt+1, l[j].Mint // inverted (defect 10 shape)
			case 1:
				l[j].Maxt += 5 // overlaps / touches the next
			default:
				l[j], l[0] = l[0], l[j]
			}
		}
		var nv tombstones.Interval
		a := r.Range(-60, t+10)
		nv = tombstones.Interval{Mint: a, Maxt: a + r.Range(0, 30)}
		switch r.Intn(10) {
		case 0:
			nv.Mint = math.MinInt64
		case 1:
			nv.Maxt = math.MaxInt64
		case 2:
			nv.Mint, nv.Maxt = math.MinInt64, math.MaxInt64
		case 3:
			nv.Maxt = math.MaxInt64 - 1
		}
		emit(l, nv, "")
	}
	cf.Flush()
	meta.Write(f.Out)
}

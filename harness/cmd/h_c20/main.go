// h_c20: correspondence harness for C20 (deletion removes exactly the requested data).
// Three streams, each with its own case files and correspondence module:
//
//	cases_NNN.v   (corr/CorrC20.v)   the real tombstones.Intervals.Add on enumerated + generated
//	                                 inputs (result or panic)                       [this file]
//	cases_hNNN.v  (corr/CorrC20H.v)  delete-centred histories on a real tsdb.DB     [hist.go]
//	cases_tNNN.v  (corr/CorrC20T.v)  tombstones.WriteFile / ReadTombstones round trips [tomb.go]
//
// Case ids: intervals from 0, histories from 100000, tombstone files from 200000.
package main

import (
	"fmt"
	"math"
	"os"
	"strings"
	"sync"

	"github.com/prometheus/prometheus/tsdb/tombstones"

	"verif/harness/internal/gallina"
	"verif/harness/internal/gen"
)

type desc struct {
	In     [][2]int64 `json:"in"`
	New    [2]int64   `json:"new"`
	Obs    string     `json:"obs"`
	Shape  string     `json:"shape"`
	Corpus string     `json:"corpus,omitempty"`
}

func ivs(l tombstones.Intervals) string {
	it := make([]string, len(l))
	for i, v := range l {
		it[i] = fmt.Sprintf("mkI %s %s", gallina.Z(v.Mint), gallina.Z(v.Maxt))
	}
	return gallina.List(it)
}

func pairs(l tombstones.Intervals) [][2]int64 {
	r := make([][2]int64, len(l))
	for i, v := range l {
		r[i] = [2]int64{v.Mint, v.Maxt}
	}
	return r
}

func run(in tombstones.Intervals, n tombstones.Interval) (out tombstones.Intervals, panicked bool) {
	defer func() {
		if r := recover(); r != nil {
			panicked = true
		}
	}()
	cp := make(tombstones.Intervals, len(in), len(in)+gen0)
	copy(cp, in)
	return cp.Add(n), false
}

var gen0 = 0

func canonical(l tombstones.Intervals) bool {
	for i, v := range l {
		if v.Mint > v.Maxt {
			return false
		}
		if i > 0 && !(l[i-1].Maxt < math.MaxInt64 && l[i-1].Maxt+1 < v.Mint) {
			return false
		}
	}
	return true
}

func main() {
	f := gallina.ParseFlags()
	meta := gallina.NewMeta("C20", f.Seed, f.Tier)
	meta.Rule = "THREE STREAMS. (1) intervals: corpus + exhaustive enumeration of canonical interval lists (<=3 intervals) over the boundary domain {MinInt64,MinInt64+1,-2..3,MaxInt64-1,MaxInt64} (quick tier: 8 of these 10 points, lists <=2; thorough: all, lists <=3) x every well-formed new interval over it, plus seeded random canonical and non-canonical lists; non-trivial = the insertion merges with or lands between existing intervals (result is not a plain append to an empty list); distinct by (input,new). (2) histories (ids from 100000): corpus of fixed boundary histories + seeded delete-centred histories on a real tsdb.DB (block range 1000, 1-3 series, OOO window 0 or 100000): build phase over several block ranges, then Deletes with end points drawn from the implementation's current Head.MinTime/MaxTime/minValidTime, block MinTime/MaxTime, next head block boundary, series first/last/any sample (each -1/0/+1) and int64 extremes, framed by full queries and followed in random order by head compaction, OOO compaction, CleanTombstones, restart, appends, further deletes, with a full query after every step; non-trivial = at least one Delete changed the full answer and at least one query came after a Delete; distinct by the printed step list. (3) tombstone files (ids from 200000): corpus + seeded WriteFile/ReadTombstones round trips of real MemTombstones and of ordered readers (repeated refs, overlapping / adjacent / unsorted groups, refs and times at varint and int64 boundaries), one fifth damaged after writing (truncate, bit flip, append, magic, version, crc, 8-byte file); non-trivial = undamaged file with at least one interval"
	cf := &gallina.CaseFile{Dir: f.Out, Type: "case", PerShard: 4000,
		Preamble: "From Coq Require Import List ZArith.\nFrom Verif Require Import lib.Int64 model.Intervals corr.CorrC20.\nImport ListNotations.\nOpen Scope Z_scope.\n",
		Footer:   gallina.StdFooter}
	id := 0
	seen := map[string]bool{}
	emit := func(in tombstones.Intervals, n tombstones.Interval, corpus string) {
		key := fmt.Sprint(in, n)
		if seen[key] {
			return
		}
		seen[key] = true
		out, p := run(in, n)
		obs, obsS := "ObsPanic", "panic"
		if !p {
			obs, obsS = "(ObsOk "+ivs(out)+")", fmt.Sprint(pairs(out))
		}
		class := "noncanonical-input"
		if canonical(in) && n.Mint <= n.Maxt {
			switch {
			case len(in) == 0:
				class = "empty"
			case p:
				class = "panic"
			case len(out) == len(in)+1:
				class = "insert"
			case len(out) == len(in):
				class = "merge-1"
			default:
				class = "merge-many"
			}
			if n.Mint == math.MinInt64 {
				meta.Hit("min-guard")
			}
			if n.Maxt == math.MaxInt64 {
				meta.Hit("max-guard")
			}
		}
		meta.Hit(class)
		if class != "empty" {
			meta.Nontrivial++
		}
		shape := class
		if n.Maxt == math.MaxInt64 && p {
			shape = "add-maxint64-panic"
		}
		cf.Add(fmt.Sprintf("mkCase %s %s (mkI %s %s) %s", gallina.Z(int64(id)), ivs(in), gallina.Z(n.Mint), gallina.Z(n.Maxt), obs))
		meta.Case(id, desc{In: pairs(in), New: [2]int64{n.Mint, n.Maxt}, Obs: obsS, Shape: shape, Corpus: corpus})
		meta.Evaluations++
		id++
	}

	// corpus: reproducers of past findings, always first
	emit(tombstones.Intervals{{Mint: 1, Maxt: 2}, {Mint: 10, Maxt: 20}}, tombstones.Interval{Mint: 5, Maxt: math.MaxInt64}, "defect1-maxint64-mini>0")
	emit(tombstones.Intervals{{Mint: 1, Maxt: 2}, {Mint: 10, Maxt: 20}, {Mint: 30, Maxt: 40}}, tombstones.Interval{Mint: 11, Maxt: math.MaxInt64}, "defect1-maxint64-mini>0-b")
	emit(tombstones.Intervals{{Mint: 1, Maxt: 2}}, tombstones.Interval{Mint: math.MinInt64, Maxt: math.MaxInt64}, "both-guards")

	// exhaustive enumeration over the boundary domain
	dom := []int64{math.MinInt64, math.MinInt64 + 1, -2, -1, 0, 1, 2, 3, math.MaxInt64 - 1, math.MaxInt64}
	maxLen := 2
	if f.Tier == "thorough" {
		maxLen = 3
	} else {
		dom = []int64{math.MinInt64, math.MinInt64 + 1, -1, 0, 1, 3, math.MaxInt64 - 1, math.MaxInt64}
	}
	var lists []tombstones.Intervals
	var rec func(cur tombstones.Intervals, from int)
	rec = func(cur tombstones.Intervals, from int) {
		lists = append(lists, append(tombstones.Intervals{}, cur...))
		if len(cur) == maxLen {
			return
		}
		for a := from; a < len(dom); a++ {
			for b := a; b < len(dom); b++ {
				if len(cur) > 0 {
					last := cur[len(cur)-1].Maxt
					if last == math.MaxInt64 || last+1 >= dom[a] {
						continue
					}
				}
				rec(append(cur, tombstones.Interval{Mint: dom[a], Maxt: dom[b]}), b+1)
			}
		}
	}
	rec(nil, 0)
	for _, l := range lists {
		for a := 0; a < len(dom); a++ {
			for b := a; b < len(dom); b++ {
				emit(l, tombstones.Interval{Mint: dom[a], Maxt: dom[b]}, "")
			}
		}
	}
	// seeded random: longer canonical lists, and non-canonical (unsorted / inverted) inputs
	n := f.Count(1500, 20000)
	for i := 0; i < n; i++ {
		r := gen.Fork(f.Seed, i)
		var l tombstones.Intervals
		k := r.Intn(7)
		t := r.Range(-50, 0)
		if r.Chance(1, 6) {
			t = math.MinInt64 + r.Range(0, 2)
		}
		for j := 0; j < k; j++ {
			w := r.Range(0, 6)
			l = append(l, tombstones.Interval{Mint: t, Maxt: t + w})
			t += w + r.Range(2, 6)
		}
		if r.Chance(1, 8) && len(l) > 0 { // make it non-canonical
			j := r.Intn(len(l))
			switch r.Intn(3) {
			case 0:
				l[j].Mint, l[j].Maxt = l[j].Maxt+1, l[j].Mint // inverted (defect 10 shape)
			case 1:
				l[j].Maxt += 5 // overlaps / touches the next
			default:
				l[j], l[0] = l[0], l[j]
			}
		}
		var nv tombstones.Interval
		a := r.Range(-60, t+10)
		nv = tombstones.Interval{Mint: a, Maxt: a + r.Range(0, 30)}
		switch r.Intn(10) {
		case 0:
			nv.Mint = math.MinInt64
		case 1:
			nv.Maxt = math.MaxInt64
		case 2:
			nv.Mint, nv.Maxt = math.MinInt64, math.MaxInt64
		case 3:
			nv.Maxt = math.MaxInt64 - 1
		}
		emit(l, nv, "")
	}
	cf.Flush()
	if os.Getenv("C20_ONLY") != "" && os.Getenv("C20_ONLY") != "intervals" {
		// debugging aid: drop the interval cases
		meta = gallina.NewMeta("C20", f.Seed, f.Tier)
		for _, p := range []string{"cases_000.v", "cases_001.v", "cases_002.v", "cases_003.v", "cases_004.v", "cases_005.v"} {
			os.Remove(f.Out + "/" + p)
		}
	}
	if v := os.Getenv("C20_ONLY"); v == "" || v == "history" {
		historyStream(f, meta)
	}
	if v := os.Getenv("C20_ONLY"); v == "" || v == "tombstones" {
		tombStream(f, meta)
	}
	meta.Write(f.Out)
}

func historyStream(f gallina.Flags, meta *gallina.Meta) {
	w := &shardWriter{Dir: f.Out, Prefix: "h", Type: "CorrC01.case", PerShard: 32,
		Preamble: "From Coq Require Import List ZArith.\nFrom Verif Require Import lib.Int64 model.TsdbSpec model.Tsdb corr.CorrC01 corr.CorrC20H.\nImport ListNotations.\nOpen Scope Z_scope.\n"}
	cp := histCorpus()
	// reproducers of the listed known finding (known-findings.txt) always run, so that the
	// KNOWN-FINDING line is printed and a repair of the code shows up; generated histories avoid
	// the regime unless C20_FINDINGS=1
	cp = append(cp, histFindings()...)
	if v := os.Getenv("C20_HIST"); v != "" { // debugging aid: one generated history
		var idx int
		fmt.Sscan(v, &idx)
		_, _, hd, r := runHistory(f.Out, f.Seed, idx, nil)
		fmt.Fprintf(os.Stderr, "%+v\n%v\n", hd, r.classes)
		for _, st := range r.steps {
			fmt.Fprintln(os.Stderr, st)
		}
		return
	}
	total := len(cp) + f.Count(44, 400)
	type outcome struct {
		term, sig string
		hd        histDesc
		r         *runner
	}
	outs := make([]outcome, total)
	var wg sync.WaitGroup
	sem := make(chan struct{}, 8)
	for k := 0; k < total; k++ {
		wg.Add(1)
		sem <- struct{}{}
		go func(k int) {
			defer wg.Done()
			defer func() { <-sem }()
			var o outcome
			if k < len(cp) {
				o.term, o.sig, o.hd, o.r = runHistory(f.Out, f.Seed, 1000000+k, &cp[k])
			} else {
				o.term, o.sig, o.hd, o.r = runHistory(f.Out, f.Seed, k-len(cp), nil)
			}
			outs[k] = o
		}(k)
	}
	wg.Wait()
	seen := map[string]bool{}
	id := 100000
	for _, o := range outs {
		if seen[o.sig] {
			continue
		}
		seen[o.sig] = true
		for _, v := range o.r.goViol {
			meta.GoViol = append(meta.GoViol, gallina.GoViolation{ID: fmt.Sprint(id), Shape: "harness-" + o.hd.Shape, What: v})
		}
		w.Add(strings.Replace(o.term, "@ID@", gallina.Z(int64(id)), 1))
		meta.Case(id, o.hd)
		meta.Evaluations++
		meta.Hit("hist-shape-" + o.hd.Shape)
		meta.Hit(fmt.Sprintf("hist-series-%d", o.r.n))
		meta.Hit(fmt.Sprintf("hist-ooo-window-%d", o.r.oooWin))
		for k, v := range o.r.classes {
			meta.Dist["hist-"+k] += v
		}
		meta.Dist["hist-deletes"] += o.r.deletes
		meta.Dist["hist-deletes-changing-the-answer"] += o.r.effDel
		meta.Dist["hist-queries-after-a-delete"] += o.r.checks
		if o.r.effDel > 0 && o.r.checks > 0 {
			meta.Nontrivial++
		}
		id++
	}
	w.Flush()
}

func tombStream(f gallina.Flags, meta *gallina.Meta) {
	w := &shardWriter{Dir: f.Out, Prefix: "t", Type: "tcase", PerShard: 500,
		Preamble: "From Coq Require Import List ZArith Uint63.\nFrom Verif Require Import model.Intervals model.TombFile corr.CorrC20T.\nImport ListNotations.\nOpen Scope uint63_scope.\n"}
	cp := tombCorpus()
	id := 200000
	seen := map[string]bool{}
	emit := func(term string, d tombDesc, classes map[string]int) {
		if seen[term] {
			return
		}
		seen[term] = true
		w.Add(strings.Replace(term, "@ID@", fmt.Sprint(id), 1))
		meta.Case(id, d)
		meta.Evaluations++
		for k, v := range classes {
			meta.Dist[k] += v
		}
		if d.Damage == "" && len(d.In) > 0 {
			meta.Nontrivial++
		}
		id++
	}
	for k := range cp {
		emit(tombCase(f.Out, f.Seed, 1000000+k, &cp[k]))
	}
	n := f.Count(300, 4000)
	for i := 0; i < n; i++ {
		emit(tombCase(f.Out, f.Seed, i, nil))
	}
	w.Flush()
}

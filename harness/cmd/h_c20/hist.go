// History stream of h_c20: delete-centred histories driven against a real tsdb.DB (through
// harness/internal/tsdbx), recorded in the case format of corr/CorrC01.v and judged by
// corr/CorrC20H.v (agree = the structured TSDB model of C01 follows the implementation after
// every step; holds = the C20 statement on the implementation's query answers alone).
//
// The runner / printers are copied from harness/cmd/h_c01 (package main there); the generator is
// new: it builds in-order data over several block ranges (optionally out-of-order data that is
// compacted into blocks first), then issues Deletes whose end points are taken from the
// implementation's CURRENT boundaries (Head.MinTime / MaxTime / minValidTime, every block's
// MinTime / MaxTime, the next head block boundary, the first / last sample of a series, a sample
// timestamp; each -1 / 0 / +1; int64 extremes), each Delete framed by full queries and followed by
// head compaction, out-of-order compaction, CleanTombstones, restart, further appends and
// further deletes in random order, with a full query after every step.
package main

import (
	"fmt"
	"math"
	"os"
	"path/filepath"
	"sort"
	"strings"

	"github.com/prometheus/prometheus/model/labels"

	"verif/harness/internal/gallina"
	"verif/harness/internal/gen"
	"verif/harness/internal/tsdbx"
)

const blockRange = 1000

type opKind int

const (
	opTx opKind = iota
	opDelete
	opCompact
	opCompactOOO
	opClean
	opRestart
	opQuery
	opChunkQuery
)

var opNames = [...]string{"tx", "delete", "compact", "compact-ooo", "clean-tombstones", "restart", "query", "chunk-query"}

type smp struct {
	S int   `json:"s"`
	T int64 `json:"t"`
	V int64 `json:"v"`
}

type hop struct {
	Kind opKind
	Reqs []smp
	Mint int64
	Maxt int64
	Sel  []int
	Note string
}

type hopDesc struct {
	Op   string `json:"op"`
	Reqs []smp  `json:"reqs,omitempty"`
	Mint *int64 `json:"mint,omitempty"`
	Maxt *int64 `json:"maxt,omitempty"`
	Sel  []int  `json:"sel,omitempty"`
	Note string `json:"note,omitempty"`
}

type histDesc struct {
	Stream  string    `json:"stream"`
	Seed    uint64    `json:"seed"`
	Index   int       `json:"index"`
	Corpus  string    `json:"corpus,omitempty"`
	Series  int       `json:"series"`
	OOOWin  int64     `json:"ooo_window"`
	Ops     []hopDesc `json:"ops"`
	Shape   string    `json:"shape"`
	Pattern []string  `json:"patterns,omitempty"`
}

func lbl(i int) labels.Labels { return labels.FromStrings("a", fmt.Sprintf("s%d", i)) }
func lblName(i int) string    { return lbl(i).String() }

func matcherFor(sel []int, n int) *labels.Matcher {
	if len(sel) == n {
		return tsdbx.MatchAll("a")
	}
	if len(sel) == 1 {
		return tsdbx.MatchEq("a", fmt.Sprintf("s%d", sel[0]))
	}
	var names []string
	for _, i := range sel {
		names = append(names, fmt.Sprintf("s%d", i))
	}
	return labels.MustNewMatcher(labels.MatchRegexp, "a", strings.Join(names, "|"))
}

// ---- Gallina printers (format of corr/CorrC01.v) ----

func gSample(t, v int64) string { return fmt.Sprintf("mkS %s %s", gallina.Z(t), gallina.Z(v)) }

func gSel(sel []int) string {
	it := make([]string, len(sel))
	for i, s := range sel {
		it[i] = gallina.Z(int64(s))
	}
	return gallina.List(it)
}

type headView struct {
	io  map[int][]tsdbx.Chunk // oldest first
	ooo map[int][]tsdbx.Sample
	ref map[int]uint64
}

func view(d *tsdbx.DB, n int) headView {
	hv := headView{io: map[int][]tsdbx.Chunk{}, ooo: map[int][]tsdbx.Sample{}, ref: map[int]uint64{}}
	names := map[string]int{}
	for i := 0; i < n; i++ {
		names[lblName(i)] = i
	}
	for _, s := range d.HeadDump() {
		i, ok := names[s.Labels]
		if !ok {
			panic("unknown series in head: " + s.Labels)
		}
		hv.io[i] = append(hv.io[i], s.InOrder...)
		hv.ref[i] = s.Ref
		for _, c := range s.OOO {
			hv.ooo[i] = append(hv.ooo[i], c.Samples...)
		}
	}
	return hv
}

func gObs(d *tsdbx.DB, n int) string {
	mi, ma, mv := d.HeadTimes()
	hv := view(d, n)
	var ser []string
	for i := 0; i < n; i++ {
		cs := hv.io[i]
		var chunks []string
		for k := len(cs) - 1; k >= 0; k-- { // newest first
			ts := make([]int64, len(cs[k].Samples))
			for j, x := range cs[k].Samples {
				ts[j] = x.T
			}
			chunks = append(chunks, fmt.Sprintf("(%s, %s, %s)", gallina.Z(cs[k].MinT), gallina.Z(cs[k].MaxT), gallina.ListZ(ts)))
		}
		seen := map[int64]bool{}
		var oo []int64
		for _, x := range hv.ooo[i] {
			if !seen[x.T] {
				seen[x.T] = true
				oo = append(oo, x.T)
			}
		}
		sort.Slice(oo, func(a, b int) bool { return oo[a] < oo[b] })
		if len(cs) == 0 && len(oo) == 0 {
			continue
		}
		ser = append(ser, fmt.Sprintf("(%s, %s, %s)", gallina.Z(int64(i)), gallina.List(chunks), gallina.ListZ(oo)))
	}
	var bl []string
	for _, b := range d.Blocks() {
		bl = append(bl, fmt.Sprintf("(%s, %s, %s, %s)", gallina.Z(b.MinT), gallina.Z(b.MaxT), gallina.Bool(b.OOO), gallina.Z(int64(b.NumSamples))))
	}
	return fmt.Sprintf("(mkObs %s %s %s %s %s)", gallina.Z(mi), gallina.Z(ma), gallina.Z(mv), gallina.List(ser), gallina.List(bl))
}

func (r *runner) names() map[string]int {
	names := map[string]int{}
	for i := 0; i < r.n; i++ {
		names[lblName(i)] = i
	}
	return names
}

func (r *runner) gResult(res []tsdbx.Series) (string, bool) {
	names := r.names()
	var it []string
	ok := true
	for _, s := range res {
		i := names[s.Labels]
		var pts []string
		for _, x := range s.Samples {
			if x.V != math.Trunc(x.V) || math.Abs(x.V) > 1e15 {
				ok = false
			}
			pts = append(pts, fmt.Sprintf("(%s, %s)", gallina.Z(x.T), gallina.Z(int64(x.V))))
		}
		it = append(it, fmt.Sprintf("(%s, %s)", gallina.Z(int64(i)), gallina.List(pts)))
	}
	return gallina.List(it), ok
}

// ---- running one history ----

type runner struct {
	d        *tsdbx.DB
	n        int
	oooWin   int64
	steps    []string
	descs    []hopDesc
	pattern  []string
	classes  map[string]int
	goViol   []string
	nextVal  int64
	markers  map[int]int
	fixed    bool
	stopped  bool
	oooBlock bool // an out-of-order compaction has written blocks in this history
	// generator steering only: timestamps believed live per series, and the last full answer
	live     map[int]map[int64]bool
	lastFull string
	deletes  int
	effDel   int // deletes after which the full answer differed from the one before
	checks   int // queries issued after the first delete
}

func (r *runner) notePattern(p string) {
	for _, q := range r.pattern {
		if q == p {
			return
		}
	}
	r.pattern = append(r.pattern, p)
}

type key struct {
	s   int
	ooo bool
	t   int64
	v   float64
}

func multiset(hv headView) map[key]int {
	m := map[key]int{}
	for i, cs := range hv.io {
		for _, c := range cs {
			for _, x := range c.Samples {
				m[key{i, false, x.T, x.V}]++
			}
		}
	}
	for i, xs := range hv.ooo {
		for _, x := range xs {
			m[key{i, true, x.T, x.V}]++
		}
	}
	return m
}

func coveredBy(ivs [][2]int64, t int64) bool {
	for _, iv := range ivs {
		if iv[0] <= t && t <= iv[1] {
			return true
		}
	}
	return false
}

// deletePatterns: the C01 finding regimes a Delete(mint,maxt,sel) would enter in the CURRENT state
// (detected from the implementation's state, as h_c01 does).
func (r *runner) deletePatterns(mint, maxt int64, sel []int) []string {
	var out []string
	hv := view(r.d, r.n)
	hmin, _, _ := r.d.HeadTimes()
	ooo, dead := false, false
	for _, i := range sel {
		for _, x := range hv.ooo[i] {
			if x.T >= mint && x.T <= maxt {
				ooo = true
			}
		}
		for _, c := range hv.io[i] {
			for _, x := range c.Samples {
				if x.T < hmin && x.T >= mint && x.T <= maxt {
					dead = true
				}
			}
		}
	}
	if ooo {
		out = append(out, "delete-misses-ooo-head-sample")
	}
	if dead {
		out = append(out, "delete-misses-dead-head-sample")
	}
	return out
}

// compactWouldResurrect predicts the finding head-compaction-drops-tombstone-of-straddling-chunk
// for a DB.Compact issued now: some in-order head chunk straddles a block boundary B the head
// compaction will truncate to, and holds a sample below B covered by a head tombstone ending
// below B (which MemTombstones.TruncateBefore(B) will drop).
func (r *runner) compactWouldResurrect() bool {
	mi, ma, _ := r.d.HeadTimes()
	if tsdbx.Unset(mi, ma) || !r.d.Compactable() {
		return false
	}
	tombs := r.d.HeadTombstones()
	for i, cs := range view(r.d, r.n).io {
		for _, c := range cs {
			for B := (mi/blockRange)*blockRange + blockRange; B <= c.MaxT && B <= ma; B += blockRange {
				if c.MinT >= B {
					continue
				}
				for _, x := range c.Samples {
					for _, iv := range tombs[lblName(i)] {
						if x.T < B && iv[0] <= x.T && x.T <= iv[1] && iv[1] < B {
							return true
						}
					}
				}
			}
		}
	}
	return false
}

// restartLowersMinValid: the next restart would compute a minValidTime below the current one
// (C01 finding restart-replays-compacted-samples / unmodelled WAL checkpoints).
func (r *runner) restartLowersMinValid() bool {
	_, _, mvBefore := r.d.HeadTimes()
	b := int64(math.MinInt64)
	for _, bl := range r.d.Blocks() {
		if !bl.OOO && bl.MaxT > b {
			b = bl.MaxT
		}
	}
	return b < mvBefore
}

func (r *runner) apply(o hop) bool {
	d := hopDesc{Op: opNames[o.Kind], Note: o.Note}
	switch o.Kind {
	case opTx:
		vBefore := view(r.d, r.n)
		before := multiset(vBefore)
		tombs := r.d.HeadTombstones()
		reqs := make([]tsdbx.AppendReq, len(o.Reqs))
		for i, q := range o.Reqs {
			reqs[i] = tsdbx.AppendReq{Labels: lbl(q.S), T: q.T, V: float64(q.V)}
		}
		res, err := r.d.Tx(reqs, true)
		if err != nil {
			r.goViol = append(r.goViol, fmt.Sprintf("commit returned %v", err))
			return false
		}
		vAfter := view(r.d, r.n)
		after := multiset(vAfter)
		var logged []string
		for i := 0; i < r.n; i++ {
			if ref, ok := vAfter.ref[i]; ok {
				if old, was := vBefore.ref[i]; !was || old != ref {
					logged = append(logged, fmt.Sprintf("(%s, None)", gallina.Z(int64(i))))
					r.markers[i]++
				}
			}
		}
		for k, c := range after {
			after[k] = c - before[k]
			delete(before, k)
		}
		for k, c := range before {
			if c > 0 {
				r.goViol = append(r.goViol, fmt.Sprintf("head sample %v vanished during a transaction", k))
			}
		}
		d.Reqs = o.Reqs
		var accs []string
		for i, q := range o.Reqs {
			r.classes["append-"+res[i].String()]++
			cls := ""
			kio, kooo := key{q.S, false, q.T, float64(q.V)}, key{q.S, true, q.T, float64(q.V)}
			switch {
			case after[kio] > 0:
				after[kio]--
				cls = "false"
				r.classes["accepted-in-order"]++
			case after[kooo] > 0:
				after[kooo]--
				cls = "true"
				r.classes["accepted-ooo"]++
				if coveredBy(tombs[lblName(q.S)], q.T) {
					r.notePattern("ooo-append-under-head-tombstone")
				}
			}
			if cls != "" {
				accs = append(accs, fmt.Sprintf("(%s, %s, %s)", gallina.Z(int64(q.S)), gSample(q.T, q.V), cls))
				r.live[q.S][q.T] = true
			}
			if res[i] == tsdbx.OK {
				logged = append(logged, fmt.Sprintf("(%s, Some (%s))", gallina.Z(int64(q.S)), gSample(q.T, q.V)))
			}
		}
		first := "None"
		if len(o.Reqs) > 0 {
			first = gallina.Some(gallina.Z(o.Reqs[0].T))
		}
		r.steps = append(r.steps, fmt.Sprintf("SOp (Commit %s %s %s) %s", gallina.List(accs), gallina.List(logged), first, gObs(r.d, r.n)))
	case opDelete:
		for _, p := range r.deletePatterns(o.Mint, o.Maxt, o.Sel) {
			r.notePattern(p)
		}
		r.classifyDelete(o)
		if err := r.d.Delete(o.Mint, o.Maxt, matcherFor(o.Sel, r.n)); err != nil {
			r.goViol = append(r.goViol, fmt.Sprintf("Delete returned %v", err))
			return false
		}
		for _, i := range o.Sel {
			for t := range r.live[i] {
				if t >= o.Mint && t <= o.Maxt {
					delete(r.live[i], t)
				}
			}
		}
		r.deletes++
		d.Mint, d.Maxt, d.Sel = &o.Mint, &o.Maxt, o.Sel
		r.steps = append(r.steps, fmt.Sprintf("SOp (Delete %s %s %s) %s", gallina.Z(o.Mint), gallina.Z(o.Maxt), gSel(o.Sel), gObs(r.d, r.n)))
	case opCompact, opCompactOOO, opClean:
		var err error
		name := ""
		inOrderBlocks := func() int {
			k := 0
			for _, b := range r.d.Blocks() {
				if !b.OOO {
					k++
				}
			}
			return k
		}
		oooBlocks := func() int { return len(r.d.Blocks()) - inOrderBlocks() }
		nb, nbAll, nOOO := inOrderBlocks(), len(r.d.Blocks()), oooBlocks()
		hminBefore, _, _ := r.d.HeadTimes()
		tombsBefore := r.d.HeadTombstones()
		switch o.Kind {
		case opCompact:
			err, name = r.d.Compact(), "Compact"
		case opCompactOOO:
			err, name = r.d.CompactOOOHead(), "CompactOOO"
		default:
			err, name = r.d.CleanTombstones(), "CleanTombstones"
		}
		if err != nil {
			r.goViol = append(r.goViol, fmt.Sprintf("%s returned %v", name, err))
			return false
		}
		hminAfter, _, _ := r.d.HeadTimes()
		if o.Kind == opCompactOOO || (o.Kind == opCompact && (inOrderBlocks() > nb || len(r.d.Blocks()) > nbAll || hminAfter != hminBefore)) {
			// not modelled (see notes/C01.md): truncateOOO left reloaded out-of-order chunks in the head
			for _, xs := range view(r.d, r.n).ooo {
				if len(xs) > 0 {
					r.classes["stopped-ooo-compaction-kept-head-chunks"]++
					r.stopped = true
					return false
				}
			}
		}
		if o.Kind != opClean && oooBlocks() > nOOO {
			r.oooBlock = true
		}
		if o.Kind != opClean {
			// FINDING pattern (see notes/C20.md): the head's gc dropped a tombstone
			// (MemTombstones.TruncateBefore(Head.MinTime)) although the chunk holding the deleted sample
			// is still in the head (it straddles the new Head.MinTime); the head querier has no floor at
			// Head.MinTime, so the deleted sample is returned again
			tombsAfter := r.d.HeadTombstones()
			for i, cs := range view(r.d, r.n).io {
				for _, c := range cs {
					for _, x := range c.Samples {
						if coveredBy(tombsBefore[lblName(i)], x.T) && !coveredBy(tombsAfter[lblName(i)], x.T) {
							r.notePattern("head-compaction-drops-tombstone-of-straddling-chunk")
						}
					}
				}
			}
		}
		if o.Kind == opCompact && inOrderBlocks() > nb {
			r.classes["head-block-cut"]++
			if r.deletes > 0 {
				r.classes["head-block-cut-after-delete"]++
			}
		}
		r.steps = append(r.steps, fmt.Sprintf("SOp %s %s", name, gObs(r.d, r.n)))
	case opRestart:
		for _, k := range r.markers {
			if k >= 2 { // not modelled: restart of a series that was garbage collected and created again
				r.classes["stopped-restart-of-recreated-series"]++
				r.stopped = true
				return false
			}
		}
		// (fixed corpus histories may do it as long as no WAL checkpoint exists, as in h_c01)
		if cps, _ := filepath.Glob(filepath.Join(r.d.Dir, "wal", "checkpoint.*")); (len(cps) > 0 || !r.fixed) && r.restartLowersMinValid() {
			r.classes["stopped-restart-lowering-minvalidtime"]++
			r.stopped = true
			return false
		}
		before := view(r.d, r.n)
		tombsBefore := r.d.HeadTombstones()
		if err := r.d.Reopen(); err != nil {
			r.goViol = append(r.goViol, fmt.Sprintf("Close/Open returned %v", err))
			return false
		}
		for _, m := range r.d.Logs() {
			if strings.Contains(m, "on-disk chunks failed") {
				r.classes["stopped-restart-mmap-files-rejected"]++
				r.stopped = true
				return false
			}
		}
		after := view(r.d, r.n)
		var rl []string
		for i := 0; i < r.n; i++ {
			if len(after.ooo[i]) == 0 {
				continue
			}
			old := map[tsdbx.Sample]bool{}
			for _, x := range before.ooo[i] {
				old[x] = true
			}
			var xs []string
			for _, x := range after.ooo[i] {
				xs = append(xs, gSample(x.T, int64(x.V)))
				if !old[x] {
					r.notePattern("restart-reloads-compacted-ooo-chunk")
				}
			}
			rl = append(rl, fmt.Sprintf("(%s, %s)", gallina.Z(int64(i)), gallina.List(xs)))
		}
		oldIO := map[key]bool{}
		for i, cs := range before.io {
			for _, c := range cs {
				for _, x := range c.Samples {
					oldIO[key{i, false, x.T, x.V}] = true
				}
			}
		}
		for i, cs := range after.io {
			for _, c := range cs {
				for _, x := range c.Samples {
					if !oldIO[key{i, false, x.T, x.V}] {
						r.notePattern("restart-replays-compacted-samples")
						if cps, _ := filepath.Glob(filepath.Join(r.d.Dir, "wal", "checkpoint.*")); len(cps) > 0 {
							r.classes["stopped-restart-replay-after-wal-checkpoint"]++
							r.stopped = true
							return false
						}
					}
				}
			}
		}
		if r.deletes > 0 {
			r.classes["restart-after-delete"]++
		}
		// how the replayed WAL tombstones lay relative to the new minValidTime (loadWAL's filter)
		_, _, mvNew := r.d.HeadTimes()
		for _, ivs := range tombsBefore {
			for _, iv := range ivs {
				switch {
				case iv[1] < mvNew:
					r.classes["restart-tombstone-below-minvalidtime"]++
				case iv[0] < mvNew:
					r.classes["restart-tombstone-straddles-minvalidtime"]++
				case iv[0] == mvNew:
					r.classes["restart-tombstone-starts-at-minvalidtime"]++
				default:
					r.classes["restart-tombstone-above-minvalidtime"]++
				}
				if iv[1] == mvNew || iv[1] == mvNew-1 {
					r.classes["restart-tombstone-ends-at-minvalidtime(-1)"]++
				}
			}
		}
		r.steps = append(r.steps, fmt.Sprintf("SOp (Restart %s) %s", gallina.List(rl), gObs(r.d, r.n)))
	case opQuery, opChunkQuery:
		var res []tsdbx.Series
		var err error
		m := matcherFor(o.Sel, r.n)
		if o.Kind == opQuery {
			res, err = r.d.Query(o.Mint, o.Maxt, m)
		} else {
			res, err = r.d.ChunkQuery(o.Mint, o.Maxt, m)
			res = tsdbx.InRange(res, o.Mint, o.Maxt)
		}
		if err != nil {
			r.goViol = append(r.goViol, fmt.Sprintf("%s returned %v", opNames[o.Kind], err))
			return false
		}
		g, ok := r.gResult(res)
		if !ok {
			r.goViol = append(r.goViol, "query returned a value that is not one of the integer codes appended")
		}
		if o.Mint == math.MinInt64 && o.Maxt == math.MaxInt64 && len(o.Sel) == r.n {
			if o.Note == "after-delete" && g != r.lastFull {
				r.effDel++
			}
			r.lastFull = g
		}
		if r.deletes > 0 {
			r.checks++
		}
		d.Mint, d.Maxt, d.Sel = &o.Mint, &o.Maxt, o.Sel
		r.steps = append(r.steps, fmt.Sprintf("SQuery %s %s %s %s", gallina.Z(o.Mint), gallina.Z(o.Maxt), gSel(o.Sel), g))
	}
	if os.Getenv("C20_TRACE") != "" {
		mi, ma, mv := r.d.HeadTimes()
		fmt.Fprintf(os.Stderr, "%-16s %v head=[%d,%d] minValid=%d blocks=%v tombs=%v\n", opNames[o.Kind], d, mi, ma, mv, r.d.Blocks(), r.d.HeadTombstones())
	}
	r.classes["op-"+opNames[o.Kind]]++
	r.descs = append(r.descs, d)
	return true
}

// classifyDelete counts where the end points of a Delete lie relative to the implementation's
// current boundaries (meta.distribution).
func (r *runner) classifyDelete(o hop) {
	mi, ma, mv := r.d.HeadTimes()
	c := r.classes
	set := !tsdbx.Unset(mi, ma)
	if set {
		switch {
		case o.Mint == ma:
			c["del-mint=head-maxtime"]++
		case o.Mint == ma+1:
			c["del-mint=head-maxtime+1"]++
		case o.Mint == ma-1:
			c["del-mint=head-maxtime-1"]++
		}
		switch {
		case o.Maxt == mi:
			c["del-maxt=head-mintime"]++
		case o.Maxt == mi-1:
			c["del-maxt=head-mintime-1"]++
		case o.Maxt == mi+1:
			c["del-maxt=head-mintime+1"]++
		}
		if o.Maxt == ma {
			c["del-maxt=head-maxtime"]++
		}
		if o.Mint == mi {
			c["del-mint=head-mintime"]++
		}
		R := (mi/blockRange)*blockRange + blockRange
		if o.Mint < R && o.Maxt >= R && ma >= R {
			c["del-spans-next-head-block-boundary"]++
		}
		if o.Maxt == R || o.Maxt == R-1 || o.Mint == R || o.Mint == R-1 {
			c["del-endpoint-at-next-head-block-boundary"]++
		}
	}
	if mv != math.MinInt64 && (o.Mint == mv || o.Maxt == mv || o.Maxt == mv-1) {
		c["del-endpoint-at-minvalidtime"]++
	}
	nb := 0
	for _, b := range r.d.Blocks() {
		if b.MinT <= o.Maxt && o.Mint < b.MaxT {
			nb++
		}
		if o.Mint == b.MaxT || o.Mint == b.MaxT-1 || o.Maxt == b.MaxT-1 || o.Maxt == b.MaxT || o.Maxt == b.MinT || o.Mint == b.MinT || o.Maxt == b.MinT-1 {
			c["del-endpoint-at-block-boundary"]++
		}
	}
	if nb >= 2 {
		c["del-spans-several-blocks"]++
	}
	if nb >= 1 && set && o.Maxt >= mi && o.Mint <= ma {
		c["del-spans-blocks-and-head"]++
	}
	if o.Mint == math.MinInt64 || o.Maxt == math.MaxInt64 {
		c["del-int64-extreme"]++
	}
	if o.Mint == o.Maxt {
		c["del-single-point"]++
	}
	for _, i := range o.Sel {
		ts := r.liveSorted(i)
		if len(ts) > 0 && (o.Mint == ts[0] || o.Maxt == ts[0] || o.Mint == ts[len(ts)-1] || o.Maxt == ts[len(ts)-1]) {
			c["del-endpoint-at-series-first-or-last-sample"]++
			break
		}
	}
	if len(o.Sel) < r.n {
		c["del-subset-of-series"]++
	}
}

func (r *runner) liveSorted(i int) []int64 {
	var ts []int64
	for t := range r.live[i] {
		ts = append(ts, t)
	}
	sort.Slice(ts, func(a, b int) bool { return ts[a] < ts[b] })
	return ts
}

// ---- generator ----

func (r *runner) val() int64 { r.nextVal++; return r.nextVal }

func (r *runner) all() []int {
	sel := make([]int, r.n)
	for i := range sel {
		sel[i] = i
	}
	return sel
}

func (r *runner) pickSel(g *gen.Rand) []int {
	switch {
	case g.Chance(1, 2) || r.n == 1:
		return r.all()
	case g.Chance(2, 3) || r.n < 3:
		return []int{g.Intn(r.n)}
	default:
		a := g.Intn(r.n)
		b := (a + 1 + g.Intn(r.n-1)) % r.n
		if a > b {
			a, b = b, a
		}
		return []int{a, b}
	}
}

func (r *runner) fullQuery(chunk bool, note string) hop {
	k := opQuery
	if chunk {
		k = opChunkQuery
	}
	return hop{Kind: k, Mint: math.MinInt64, Maxt: math.MaxInt64, Sel: r.all(), Note: note}
}

func add3(pts []int64, t int64) []int64 {
	if t > math.MinInt64 {
		pts = append(pts, t-1)
	}
	pts = append(pts, t)
	if t < math.MaxInt64 {
		pts = append(pts, t+1)
	}
	return pts
}

// boundaries returns the implementation's current boundaries, each -1 / 0 / +1.
func (r *runner) boundaries(g *gen.Rand) []int64 {
	var pts []int64
	mi, ma, mv := r.d.HeadTimes()
	if !tsdbx.Unset(mi, ma) {
		if mi != math.MaxInt64 {
			pts = add3(pts, mi)
			pts = add3(pts, (mi/blockRange)*blockRange+blockRange)
		}
		if ma != math.MinInt64 {
			pts = add3(pts, ma)
			pts = add3(pts, ma) // twice: the head's upper bound is the most delicate one
		}
	}
	if mv != math.MinInt64 {
		pts = add3(pts, mv)
	}
	for _, b := range r.d.Blocks() {
		pts = add3(pts, b.MinT)
		pts = add3(pts, b.MaxT)
		pts = append(pts, b.MaxT-2)
	}
	for i := 0; i < r.n; i++ {
		if ts := r.liveSorted(i); len(ts) > 0 {
			pts = add3(pts, ts[0])
			pts = add3(pts, ts[len(ts)-1])
			pts = add3(pts, ts[g.Intn(len(ts))])
		}
	}
	return pts
}

func (r *runner) genDelete(g *gen.Rand) hop {
	pts := r.boundaries(g)
	pick := func() int64 {
		if len(pts) == 0 || g.Chance(1, 10) {
			return g.PickI64(math.MinInt64, math.MinInt64+1, math.MaxInt64-1, math.MaxInt64)
		}
		return pts[g.Intn(len(pts))]
	}
	a, b := pick(), pick()
	if _, ma, _ := r.d.HeadTimes(); ma != math.MinInt64 && g.Chance(1, 8) {
		a = ma // the range starts exactly at Head.MaxTime()
		if b < a {
			b = g.PickI64(a, a+1, a+1000, math.MaxInt64)
		}
	}
	switch g.Intn(8) {
	case 0:
		b = a
	case 1:
		a = math.MinInt64
	case 2:
		b = math.MaxInt64
	}
	if a > b {
		a, b = b, a
	}
	return hop{Kind: opDelete, Mint: a, Maxt: b, Sel: r.pickSel(g)}
}

// partialQuery: a range / selector restricted query with bounds at (or next to) the delete's.
func (r *runner) partialQuery(g *gen.Rand, del hop) hop {
	o := hop{Kind: opQuery, Sel: r.pickSel(g), Note: "partial"}
	if g.Chance(1, 3) {
		o.Kind = opChunkQuery
	}
	dec := func(t int64) int64 {
		if t > math.MinInt64 {
			return t - 1
		}
		return t
	}
	inc := func(t int64) int64 {
		if t < math.MaxInt64 {
			return t + 1
		}
		return t
	}
	switch g.Intn(6) {
	case 0:
		o.Mint, o.Maxt = del.Mint, del.Maxt
	case 1:
		o.Mint, o.Maxt = dec(del.Mint), inc(del.Maxt)
	case 2:
		o.Mint, o.Maxt = math.MinInt64, del.Mint
	case 3:
		o.Mint, o.Maxt = del.Maxt, math.MaxInt64
	case 4:
		o.Mint, o.Maxt = inc(del.Mint), math.MaxInt64
	default:
		pts := r.boundaries(g)
		if len(pts) == 0 {
			pts = []int64{0}
		}
		a, b := pts[g.Intn(len(pts))], pts[g.Intn(len(pts))]
		if a > b {
			a, b = b, a
		}
		o.Mint, o.Maxt = a, b
	}
	if o.Mint > o.Maxt {
		o.Mint, o.Maxt = o.Maxt, o.Mint
	}
	return o
}

// nextBoundary: the smallest multiple of blockRange above t.
func nextBoundary(t int64) int64 {
	nb := (t/blockRange)*blockRange + blockRange
	if t < 0 && t%blockRange != 0 {
		nb = (t / blockRange) * blockRange
	}
	return nb
}

// genTx appends in order, above everything in the head; sometimes far enough to make the head
// compactable, sometimes exactly on / next to the next block boundary.
func (r *runner) genTx(g *gen.Rand) hop {
	mi, ma, mv := r.d.HeadTimes()
	base := ma
	if tsdbx.Unset(mi, ma) || ma == math.MinInt64 {
		base = mv
		if mv == math.MinInt64 {
			base = 0
		}
	}
	o := hop{Kind: opTx}
	t := base
	prev := base
	k := 1 + g.Intn(3)
	for i := 0; i < k; i++ {
		switch g.Intn(6) {
		case 0:
			t += g.PickI64(1, 2)
		case 1:
			t += g.Range(3, 400)
		case 2:
			t += g.PickI64(999, 1000, 1001)
		case 3:
			t += g.Range(1500, 2600)
		case 4: // on / next to the next block boundary above t
			nb := (t/blockRange)*blockRange + blockRange
			if t < 0 && t%blockRange != 0 {
				nb = (t / blockRange) * blockRange
			}
			c := nb + g.PickI64(-1, 0, 1)
			if c <= t {
				c = t + 1
			}
			t = c
		default:
			t += g.Range(1, 60)
		}
		// a sample exactly on every block boundary crossed (mostly): the head then starts exactly at
		// the block's MaxTime after the next compaction, and a restart does not lower minValidTime
		if nb := nextBoundary(prev); t > nb && g.Chance(3, 4) {
			o.Reqs = append(o.Reqs, smp{S: g.Intn(r.n), T: nb, V: r.val()})
			if nb2 := nb + blockRange; t > nb2 {
				o.Reqs = append(o.Reqs, smp{S: g.Intn(r.n), T: nb2, V: r.val()})
			}
		}
		prev = t
		o.Reqs = append(o.Reqs, smp{S: g.Intn(r.n), T: t, V: r.val()})
		if g.Chance(1, 3) && r.n > 1 { // the same timestamp in another series
			s2 := (o.Reqs[len(o.Reqs)-1].S + 1 + g.Intn(r.n-1)) % r.n
			o.Reqs = append(o.Reqs, smp{S: s2, T: t, V: r.val()})
		}
	}
	return o
}

// genOOO: out-of-order samples below the head's maximum (only issued before the first Delete of a
// history, so that no head tombstone can cover them: C01 finding ooo-append-under-head-tombstone).
func (r *runner) genOOO(g *gen.Rand) (hop, bool) {
	mi, ma, _ := r.d.HeadTimes()
	if tsdbx.Unset(mi, ma) || r.oooWin == 0 {
		return hop{}, false
	}
	o := hop{Kind: opTx, Note: "out-of-order"}
	for k := 1 + g.Intn(3); k > 0; k-- {
		s := g.Intn(r.n)
		t := ma - g.Range(1, 2600)
		if g.Chance(1, 3) {
			t = (t/blockRange)*blockRange + g.PickI64(-1, 0, 1)
		}
		if t >= ma || r.live[s][t] {
			continue
		}
		dup := false
		for _, q := range o.Reqs {
			if q.S == s && q.T == t {
				dup = true
			}
		}
		if !dup {
			o.Reqs = append(o.Reqs, smp{S: s, T: t, V: r.val()})
		}
	}
	return o, len(o.Reqs) > 0
}

func (r *runner) hasOOOInHead() bool {
	for _, xs := range view(r.d, r.n).ooo {
		if len(xs) > 0 {
			return true
		}
	}
	return false
}

// generate drives one random history.
func (r *runner) generate(g *gen.Rand) {
	step := func(o hop) bool { return r.apply(o) }
	// ---- build phase ----
	first := g.PickI64(-2600, -1500, -1001, -1000, -5, 0, 1, 100, 995, 999, 1000, 5000)
	if !step(hop{Kind: opTx, Reqs: []smp{{S: 0, T: first, V: r.val()}}}) {
		return
	}
	for k := 2 + g.Intn(4); k > 0; k-- {
		if !step(r.genTx(g)) {
			return
		}
	}
	if r.oooWin > 0 && g.Chance(2, 3) {
		if o, ok := r.genOOO(g); ok {
			if !step(o) {
				return
			}
		}
	}
	if g.Chance(1, 2) {
		if !step(hop{Kind: opCompact}) {
			return
		}
		if g.Chance(1, 3) && !r.restartLowersMinValid() && !r.oooBlock {
			if !step(hop{Kind: opRestart}) {
				return
			}
		}
	}
	if r.hasOOOInHead() && !step(hop{Kind: opCompactOOO}) {
		return
	}
	// ---- delete rounds and what follows them ----
	budget := 4 + g.Intn(7)
	var lastDel hop
	chunkNext := false
	// scripted follow-ups of a Delete: the maintenance operations in every order
	C, K, R, O, T := hop{Kind: opCompact}, hop{Kind: opClean}, hop{Kind: opRestart}, hop{Kind: opCompactOOO}, hop{Kind: opTx, Note: "gen"}
	scripts := [][]hop{{C, R}, {R, C}, {K, R}, {C, K, R}, {K, C, R}, {R, K}, {C, R, K}, {T, C, R}, {O, K}, {C, K}, {R, C, R}}
	var queue []hop
	for (budget > 0 || len(queue) > 0) && !r.stopped {
		budget--
		var o hop
		if len(queue) > 0 {
			o, queue = queue[0], queue[1:]
			if o.Kind == opTx && o.Note == "gen" {
				o = r.genTx(g)
			}
		} else {
			x := g.Intn(100)
			switch {
			case r.deletes == 0 && g.Chance(1, 3), x < 8:
				// a Delete straddling the boundary of the block the next head compaction cuts, then the
				// compaction and a restart (WAL tombstone replay against the new minValidTime)
				queue = r.straddle(g)
				r.classes["scenario-straddle-next-block-boundary"]++
				continue
			case x < 16 && lastDel.Kind == opDelete && r.deletes > 0:
				queue = append([]hop{}, scripts[g.Intn(len(scripts))]...)
				r.classes["scripted-follow-up"]++
				continue
			case x < 42 || r.deletes == 0:
				o = r.genDelete(g)
			case x < 54:
				o = C
			case x < 62:
				o = K
			case x < 74:
				o = R
			case x < 78:
				o = O
			case x < 92:
				o = r.genTx(g)
			default:
				o = r.partialQuery(g, lastDel)
			}
		}
		switch o.Kind {
		case opDelete:
			if ps := r.deletePatterns(o.Mint, o.Maxt, o.Sel); len(ps) > 0 {
				r.classes["avoided-"+ps[0]]++
				continue
			}
			if !step(r.fullQuery(false, "before-delete")) || !step(o) {
				return
			}
			lastDel = o
			if !step(r.fullQuery(chunkNext, "after-delete")) {
				return
			}
			chunkNext = !chunkNext
			if g.Chance(1, 2) && !step(r.partialQuery(g, lastDel)) {
				return
			}
			continue
		case opRestart:
			if r.oooBlock { // C01 finding restart-reloads-compacted-ooo-chunk: not entered
				r.classes["avoided-restart-after-ooo-compaction"]++
				continue
			}
			if r.restartLowersMinValid() { // C01 finding restart-replays-compacted-samples / WAL checkpoints: not entered
				r.classes["avoided-restart-lowering-minvalidtime"]++
				continue
			}
		case opCompact:
			// the C20 finding of notes/C20.md: entered only with C20_FINDINGS=1
			if os.Getenv("C20_FINDINGS") == "" && r.compactWouldResurrect() {
				r.classes["avoided-head-compaction-drops-tombstone-of-straddling-chunk"]++
				continue
			}
		case opQuery, opChunkQuery:
			if !step(o) {
				return
			}
			continue
		}
		if !step(o) {
			return
		}
		if !step(r.fullQuery(chunkNext, "")) {
			return
		}
		chunkNext = !chunkNext
	}
}

// straddle: samples on / next to the boundary R of the block the next head compaction will cut
// (when they can still be appended in order), a sample far enough ahead to make the head
// compactable, a Delete [lo, hi] with lo < R <= hi, then compaction / cleaning / restart in one of
// several orders.
func (r *runner) straddle(g *gen.Rand) []hop {
	mi, ma, _ := r.d.HeadTimes()
	if tsdbx.Unset(mi, ma) || mi == math.MaxInt64 {
		return nil
	}
	R := (mi/blockRange)*blockRange + blockRange
	var seq []hop
	t := ma
	var reqs []smp
	for _, c := range []int64{R + g.PickI64(-1, 0), R + g.PickI64(0, 0, 1), R + g.PickI64(1, 2, 400)} {
		if c > t {
			reqs = append(reqs, smp{S: g.Intn(r.n), T: c, V: r.val()})
			t = c
		}
	}
	if len(reqs) > 0 {
		seq = append(seq, hop{Kind: opTx, Reqs: reqs})
	}
	if far := mi + 1501 + g.Range(0, 400); far > t {
		seq = append(seq, hop{Kind: opTx, Reqs: []smp{{S: g.Intn(r.n), T: far, V: r.val()}}})
	}
	lo := R - g.PickI64(1, 2, 300, 700, 5000)
	hi := R + g.PickI64(0, 0, 1, 2, 400, 401)
	switch g.Intn(8) {
	case 0:
		lo = math.MinInt64
	case 1:
		hi = math.MaxInt64
	}
	d := hop{Kind: opDelete, Mint: lo, Maxt: hi, Sel: r.pickSel(g)}
	C, K, Rs := hop{Kind: opCompact}, hop{Kind: opClean}, hop{Kind: opRestart}
	tails := [][]hop{{C, Rs}, {C, Rs}, {C, K, Rs}, {K, C, Rs}, {Rs, C, Rs}, {C, Rs, K}}
	tail := tails[g.Intn(len(tails))]
	if g.Chance(1, 4) && len(seq) > 0 { // the Delete BEFORE the head becomes compactable
		last := seq[len(seq)-1]
		seq = append(seq[:len(seq)-1], d, last)
	} else {
		seq = append(seq, d)
	}
	return append(seq, tail...)
}

// ---- corpus ----

type histFixed struct {
	name   string
	n      int
	oooWin int64
	ops    []hop
}

func txs(reqs ...smp) hop { return hop{Kind: opTx, Reqs: reqs} }

func fq(n int) hop {
	sel := make([]int, n)
	for i := range sel {
		sel[i] = i
	}
	return hop{Kind: opQuery, Mint: math.MinInt64, Maxt: math.MaxInt64, Sel: sel}
}
func fcq(n int) hop                  { o := fq(n); o.Kind = opChunkQuery; return o }
func del(a, b int64, sel ...int) hop { return hop{Kind: opDelete, Mint: a, Maxt: b, Sel: sel} }
func rq(a, b int64, sel ...int) hop  { return hop{Kind: opQuery, Mint: a, Maxt: b, Sel: sel} }

func histCorpus() []histFixed {
	return []histFixed{
		// the range starts exactly at Head.MaxTime(): the newest sample must go (head only)
		{"delete-mint-equals-head-maxtime", 1, 0, []hop{
			txs(smp{0, 100, 1}), txs(smp{0, 200, 2}), txs(smp{0, 300, 3}), fq(1),
			del(300, 400, 0), fq(1), rq(300, 300, 0), {Kind: opRestart}, fq(1), fcq(1)}},
		// ... and with blocks below the head, followed by head compaction, restart, cleaning
		{"delete-mint-equals-head-maxtime-above-blocks", 2, 0, []hop{
			txs(smp{0, 100, 1}, smp{1, 150, 2}), txs(smp{0, 900, 3}), txs(smp{0, 1700, 4}, smp{1, 1800, 5}), txs(smp{0, 2700, 6}, smp{1, 2700, 7}),
			{Kind: opCompact}, fq(2), del(2700, math.MaxInt64, 0), fq(2), txs(smp{0, 4300, 8}), {Kind: opCompact}, fq(2),
			{Kind: opRestart}, fq(2), {Kind: opClean}, fq(2), fcq(2)}},
		// the range ends exactly at Head.MinTime() / one below it
		{"delete-maxt-equals-head-mintime", 1, 0, []hop{
			txs(smp{0, 100, 1}), txs(smp{0, 200, 2}), txs(smp{0, 300, 3}), fq(1),
			del(math.MinInt64, 99, 0), fq(1), del(-50, 100, 0), fq(1), {Kind: opRestart}, fq(1)}},
		// a range spanning what becomes the block boundary of the NEXT head compaction; the lower
		// part is persisted, the upper part must stay deleted after the restart (WAL tombstone replay)
		{"delete-spans-next-block-boundary-then-compact-restart", 2, 0, []hop{
			txs(smp{0, 100, 1}, smp{1, 999, 2}), txs(smp{0, 600, 3}, smp{1, 1000, 4}), txs(smp{0, 1000, 5}, smp{1, 1001, 6}),
			txs(smp{0, 1400, 7}), txs(smp{0, 2400, 8}), fq(2),
			del(500, 1500, 0), fq(2), del(999, 1000, 1), fq(2), {Kind: opCompact}, fq(2), {Kind: opRestart}, fq(2), fcq(2),
			{Kind: opClean}, fq(2)}},
		// end points exactly on block MinTime / MaxTime-1 / MaxTime after the compaction
		{"delete-endpoints-on-block-bounds", 2, 0, []hop{
			txs(smp{0, 0, 1}, smp{1, 1, 2}), txs(smp{0, 999, 3}, smp{1, 999, 4}), txs(smp{0, 1000, 5}, smp{1, 1000, 6}), txs(smp{0, 1999, 7}),
			txs(smp{0, 2000, 8}, smp{1, 2001, 9}), txs(smp{0, 3600, 10}), {Kind: opCompact}, fq(2),
			del(999, 999, 0), fq(2), del(1000, 1999, 1), fq(2), del(1999, 2000, 0), fq(2), {Kind: opClean}, fq(2), {Kind: opRestart}, fq(2),
			del(math.MinInt64, 0, 0, 1), fq(2), {Kind: opClean}, fq(2)}},
		// exactly the first..last sample of one series; the other series must be untouched
		{"delete-exactly-one-series-extent", 2, 0, []hop{
			txs(smp{0, 50, 1}, smp{1, 100, 2}), txs(smp{0, 500, 3}, smp{1, 600, 4}), txs(smp{0, 1200, 5}, smp{1, 1100, 6}), txs(smp{0, 2900, 7}), fq(2),
			del(100, 1100, 1), fq(2), rq(100, 1100, 0, 1), {Kind: opCompact}, fq(2), {Kind: opRestart}, fq(2), {Kind: opClean}, fcq(2)}},
		// nested / adjacent deletes, then everything
		{"nested-and-adjacent-deletes", 1, 0, []hop{
			txs(smp{0, 10, 1}), txs(smp{0, 20, 2}), txs(smp{0, 30, 3}), txs(smp{0, 40, 4}), txs(smp{0, 50, 5}), fq(1),
			del(20, 20, 0), fq(1), del(21, 30, 0), fq(1), del(15, 35, 0), fq(1), del(math.MinInt64, math.MaxInt64, 0), fq(1), {Kind: opRestart}, fq(1)}},
		// out-of-order data compacted into its own blocks first, then a delete across them
		{"delete-across-ooo-blocks", 1, 100000, []hop{
			txs(smp{0, 1000, 1}), txs(smp{0, 2000, 2}), txs(smp{0, 500, 3}), txs(smp{0, 1500, 4}), {Kind: opCompactOOO}, fq(1),
			del(400, 1600, 0), fq(1), {Kind: opClean}, fq(1), fcq(1)}},
	}
}

// histFindings: reproducers of genuine C20 violations of the unchanged code (opt-in with
// C20_FINDINGS=1 until they are fixed or listed in known-findings.txt; see notes/C20.md).
func histFindings() []histFixed {
	return []histFixed{
		// series 1's chunk [-707 .. 0] straddles 0 (rangeForTimestamp(-707) = 1000 by truncating
		// division); the head compaction cuts block [-1000,0) without -707, truncates the head to 0,
		// drops the tombstone [-707,-707] (TruncateBefore(0)) but keeps the chunk: -707 is back
		{"finding-head-compaction-resurrects-deleted-sample", 2, 0, []hop{
			txs(smp{0, -1000, 1}), txs(smp{1, -707, 2}), fq(2), del(-707, -707, 1), fq(2),
			txs(smp{1, -498, 3}, smp{1, 0, 4}), txs(smp{0, 503, 5}), fq(2), {Kind: opCompact}, fq(2), fcq(2)}},
		// the witness of C20_delete_history_refuted: everything appended before the Delete, only the
		// head compaction after it
		{"finding-head-compaction-resurrects-deleted-sample-coq-witness", 2, 0, []hop{
			txs(smp{0, -1000, 1}), txs(smp{1, -707, 2}), txs(smp{1, -498, 3}, smp{1, 0, 4}), txs(smp{0, 503, 5}), fq(2),
			del(-707, -707, 1), fq(2), {Kind: opCompact}, fq(2)}},
		// all samples of the block-to-be deleted: no block is written at all
		{"finding-head-compaction-resurrects-deleted-sample-empty-block", 2, 0, []hop{
			txs(smp{1, -1000, 1}), txs(smp{0, -999, 2}, smp{0, -998, 3}), fq(2), del(-1001, math.MaxInt64, 0, 1), fq(2),
			txs(smp{1, 0, 4}, smp{1, 1, 5}, smp{0, 2, 6}), txs(smp{1, 559, 7}), fq(2), {Kind: opCompact}, fq(2)}},
	}
}

// runHistory runs one history (corpus or generated) and returns the Gallina term with @ID@.
func runHistory(out string, seed uint64, idx int, fx *histFixed) (term, sig string, hd histDesc, r *runner) {
	g := gen.Fork(seed^0x6332_3068_6973, idx)
	n, win := 1+g.Intn(3), gen.Pick(g, []int64{0, 0, 0, 100000})
	if fx != nil {
		n, win = fx.n, fx.oooWin
	}
	dir, err := os.MkdirTemp(out, "db")
	if err != nil {
		panic(err)
	}
	defer os.RemoveAll(dir)
	d, err := tsdbx.Open(dir, tsdbx.Options{BlockRange: blockRange, OOOWindow: win, SamplesPerChunk: 1 << 20})
	if err != nil {
		panic(err)
	}
	r = &runner{d: d, n: n, oooWin: win, classes: map[string]int{}, markers: map[int]int{}, fixed: fx != nil, live: map[int]map[int64]bool{}}
	for i := 0; i < n; i++ {
		r.live[i] = map[int64]bool{}
	}
	defer func() { r.d.Close() }()
	if fx != nil {
		for _, o := range fx.ops {
			if o.Kind == opQuery && o.Mint == math.MinInt64 && o.Maxt == math.MaxInt64 && r.deletes > 0 {
				o.Note = "after-delete"
			}
			if !r.apply(o) {
				break
			}
		}
	} else {
		r.generate(g)
		if !r.stopped && len(r.goViol) == 0 {
			r.apply(r.fullQuery(false, ""))
			r.apply(r.fullQuery(true, ""))
		}
	}
	u := make([]string, n)
	for i := range u {
		u[i] = gallina.Z(int64(i))
	}
	term = fmt.Sprintf("mkCase @ID@ (mkCfg %s %s %s) %s", gallina.Z(blockRange), gallina.Z(win), gallina.List(u), gallina.List(r.steps))
	shape := "clean"
	if len(r.pattern) > 0 {
		shape = r.pattern[0]
	}
	hd = histDesc{Stream: "history", Seed: seed, Index: idx, Series: n, OOOWin: win, Ops: r.descs, Shape: shape, Pattern: r.pattern}
	if fx != nil {
		hd.Corpus = fx.name
	}
	return term, strings.Join(r.steps, ";"), hd, r
}

// Tombstone file stream of h_c20: real tombstones.WriteFile of a tombstones.Reader into a scratch
// directory, real tombstones.ReadTombstones of that directory (optionally after the harness
// damaged the file), both recorded for corr/CorrC20T.v.
package main

import (
	"errors"
	"fmt"
	"log/slog"
	"math"
	"os"
	"path/filepath"
	"sort"
	"strings"

	"github.com/prometheus/prometheus/storage"
	"github.com/prometheus/prometheus/tsdb/encoding"
	"github.com/prometheus/prometheus/tsdb/tombstones"

	"verif/harness/internal/gallina"
	"verif/harness/internal/gen"
)

type group struct {
	Ref uint64
	Ivs tombstones.Intervals
}

// ordReader is a tombstones.Reader iterating a fixed list of groups in order (refs may repeat).
type ordReader struct{ groups []group }

func (o ordReader) Get(ref storage.SeriesRef) (tombstones.Intervals, error) {
	var out tombstones.Intervals
	for _, g := range o.groups {
		if g.Ref == uint64(ref) {
			out = append(out, g.Ivs...)
		}
	}
	return out, nil
}

func (o ordReader) Iter(f func(storage.SeriesRef, tombstones.Intervals) error) error {
	for _, g := range o.groups {
		if err := f(storage.SeriesRef(g.Ref), g.Ivs); err != nil {
			return err
		}
	}
	return nil
}

func (o ordReader) Total() uint64 {
	n := uint64(0)
	for _, g := range o.groups {
		n += uint64(len(g.Ivs))
	}
	return n
}
func (ordReader) Close() error { return nil }

func sortedGroups(r tombstones.Reader) []group {
	var out []group
	_ = r.Iter(func(ref storage.SeriesRef, ivs tombstones.Intervals) error {
		out = append(out, group{uint64(ref), append(tombstones.Intervals{}, ivs...)})
		return nil
	})
	sort.Slice(out, func(i, j int) bool { return out[i].Ref < out[j].Ref })
	return out
}

// ---- printers (primitive uint63 literals; 64-bit values as two 32-bit halves) ----

func halves(v uint64) string { return fmt.Sprintf("%d %d", v>>32, v&0xffffffff) }

func gIvs(ivs tombstones.Intervals) string {
	var sb strings.Builder
	for _, iv := range ivs {
		fmt.Fprintf(&sb, "(VCons %s %s ", halves(uint64(iv.Mint)), halves(uint64(iv.Maxt)))
	}
	sb.WriteString("VNil")
	sb.WriteString(strings.Repeat(")", len(ivs)))
	return sb.String()
}

func gGroups(gs []group) string {
	var sb strings.Builder
	for _, g := range gs {
		fmt.Fprintf(&sb, "(SCons %s %s ", halves(g.Ref), gIvs(g.Ivs))
	}
	sb.WriteString("SNil")
	sb.WriteString(strings.Repeat(")", len(gs)))
	return sb.String()
}

func gBytes(b []byte) string {
	var sb strings.Builder
	for _, x := range b {
		fmt.Fprintf(&sb, "(ICons %d ", x)
	}
	sb.WriteString("INil")
	sb.WriteString(strings.Repeat(")", len(b)))
	return sb.String()
}

// error classes of ReadTombstones (codes of corr/CorrC20T.v err_of_code)
func readClass(err error, panicked bool) (int, string) {
	switch {
	case panicked:
		return 6, "panic"
	case strings.Contains(err.Error(), "tombstones header"):
		return 1, "header"
	case strings.Contains(err.Error(), "invalid magic number"):
		return 2, "magic"
	case strings.Contains(err.Error(), "checksum did not match"):
		return 3, "checksum"
	case strings.Contains(err.Error(), "invalid tombstone format"):
		return 4, "format"
	case errors.Is(err, encoding.ErrInvalidSize):
		return 5, "size"
	default:
		return 7, "other:" + err.Error()
	}
}

func readBack(dir string) (gs []group, err error, panicked bool) {
	defer func() {
		if r := recover(); r != nil {
			panicked = true
		}
	}()
	rd, _, e := tombstones.ReadTombstones(dir)
	if e != nil {
		return nil, e, false
	}
	return sortedGroups(rd), nil, false
}

type tombDesc struct {
	Stream  string      `json:"stream"`
	Seed    uint64      `json:"seed"`
	Index   int         `json:"index"`
	Reader  string      `json:"reader"`
	In      [][3]string `json:"in"` // ref, mint, maxt per written entry, in order (map order: sorted by ref)
	Damage  string      `json:"damage,omitempty"`
	Read    string      `json:"read"`
	Shape   string      `json:"shape"`
	Corpus  string      `json:"corpus,omitempty"`
	FileLen int         `json:"file_len"`
}

var tombRefs = []uint64{0, 1, 2, 3, 7, 127, 128, 129, 16383, 16384, 1 << 31, 1<<32 - 1, 1 << 32, 1<<56 - 1, 1 << 56, 1<<63 - 1, 1 << 63, math.MaxUint64 - 1, math.MaxUint64}
var tombTimes = []int64{math.MinInt64, math.MinInt64 + 1, -1 << 62, -1<<62 - 1, -8193, -8192, -65, -64, -63, -2, -1, 0, 1, 2, 62, 63, 64, 65, 8191, 8192, 1 << 20, 1<<62 - 1, 1 << 62, math.MaxInt64 - 1, math.MaxInt64}

func pickTime(g *gen.Rand) int64 {
	switch g.Intn(4) {
	case 0:
		return tombTimes[g.Intn(len(tombTimes))]
	case 1:
		return g.Range(-100, 100)
	case 2:
		return g.Range(-100000, 100000)
	default:
		return int64(g.U64())
	}
}

func pickRef(g *gen.Rand) uint64 {
	switch g.Intn(3) {
	case 0:
		return tombRefs[g.Intn(len(tombRefs))]
	case 1:
		return uint64(g.Intn(6))
	default:
		return g.U64() >> uint(g.Intn(64))
	}
}

func pickInterval(g *gen.Rand, wf bool) tombstones.Interval {
	a := pickTime(g)
	var b int64
	switch g.Intn(4) {
	case 0:
		b = a
	case 1:
		w := g.Range(0, 20)
		if a > math.MaxInt64-w {
			b = math.MaxInt64
		} else {
			b = a + w
		}
	default:
		b = pickTime(g)
	}
	if wf && a > b {
		a, b = b, a
	}
	return tombstones.Interval{Mint: a, Maxt: b}
}

// tombCase runs one case and returns the Gallina term (with @ID@) and its description.
func tombCase(out string, seed uint64, idx int, fixed *tombFixed) (string, tombDesc, map[string]int) {
	g := gen.Fork(seed^0x7063_3230_7462, idx)
	classes := map[string]int{}
	d := tombDesc{Stream: "tombstone-file", Seed: seed, Index: idx}
	var rdr tombstones.Reader
	var in []group
	ordered := true
	damage := ""
	switch {
	case fixed != nil:
		in, damage, d.Corpus = fixed.groups, fixed.damage, fixed.name
		if fixed.mem {
			m := tombstones.NewMemTombstones()
			for _, gr := range in {
				m.AddInterval(storage.SeriesRef(gr.Ref), gr.Ivs...)
			}
			rdr, in, ordered = m, sortedGroups(m), false
		} else {
			rdr = ordReader{in}
		}
	case g.Chance(1, 2):
		// a real MemTombstones filled through AddInterval (what Block.Delete / Head.Delete hold)
		m := tombstones.NewMemTombstones()
		nref := g.Intn(5)
		for i := 0; i < nref; i++ {
			ref := pickRef(g)
			for k := 1 + g.Intn(4); k > 0; k-- {
				m.AddInterval(storage.SeriesRef(ref), pickInterval(g, true))
			}
		}
		rdr, in, ordered = m, sortedGroups(m), false
	default:
		// an ordered reader: refs may repeat, groups may overlap / touch / be unsorted
		ngr := g.Intn(5)
		wf := !g.Chance(1, 12)
		for i := 0; i < ngr; i++ {
			gr := group{Ref: pickRef(g)}
			if i > 0 && g.Chance(1, 3) {
				gr.Ref = in[g.Intn(len(in))].Ref
			}
			for k := g.Intn(4); k > 0; k-- {
				gr.Ivs = append(gr.Ivs, pickInterval(g, wf))
			}
			in = append(in, gr)
		}
		rdr = ordReader{in}
	}
	if ordered {
		d.Reader = "ordered"
	} else {
		d.Reader = "MemTombstones"
	}
	dir, err := os.MkdirTemp(out, "tomb")
	if err != nil {
		panic(err)
	}
	defer os.RemoveAll(dir)
	if _, err := tombstones.WriteFile(slog.New(slog.DiscardHandler), dir, rdr); err != nil {
		panic(fmt.Sprintf("WriteFile: %v", err))
	}
	path := filepath.Join(dir, tombstones.TombstonesFilename)
	b, err := os.ReadFile(path)
	if err != nil {
		panic(err)
	}
	if fixed == nil && g.Chance(1, 5) {
		damage = []string{"truncate", "flip", "append", "magic", "version", "crc", "eight"}[g.Intn(7)]
	}
	if damage != "" {
		switch damage {
		case "truncate":
			b = b[:g.Intn(len(b))]
		case "flip":
			i := g.Intn(len(b))
			b[i] ^= byte(1 << uint(g.Intn(8)))
		case "append":
			b = append(b, byte(g.Intn(256)))
		case "magic":
			b[g.Intn(4)] ^= 0x40
		case "version":
			b[4] = byte(g.Intn(4))
		case "crc":
			b[len(b)-1-g.Intn(4)] ^= 0x01
		case "eight":
			b = append(b[:4:4], 0, 0, 0, 0)
		}
		if err := os.WriteFile(path, b, 0o644); err != nil {
			panic(err)
		}
		classes["tomb-damage-"+damage]++
	}
	got, rerr, panicked := readBack(dir)
	rd := ""
	if rerr == nil && !panicked {
		rd = "(RdOk_ " + gGroups(got) + ")"
		d.Read = fmt.Sprintf("ok %d groups", len(got))
		classes["tomb-read-ok"]++
	} else {
		code, name := readClass(rerr, panicked)
		rd = fmt.Sprintf("(RdErr_ %d)", code)
		d.Read = name
		classes["tomb-read-"+strings.SplitN(name, ":", 2)[0]]++
	}
	for _, gr := range in {
		for _, iv := range gr.Ivs {
			d.In = append(d.In, [3]string{fmt.Sprint(gr.Ref), fmt.Sprint(iv.Mint), fmt.Sprint(iv.Maxt)})
		}
	}
	d.Damage, d.FileLen = damage, len(b)
	d.Shape = "tombstone-file-" + d.Reader
	if damage != "" {
		d.Shape = "tombstone-file-damaged-" + damage
	}
	classes["tomb-reader-"+d.Reader]++
	term := fmt.Sprintf("tc @ID@ %s %s %s %s %s", gallina.Bool(ordered), gallina.Bool(damage != ""), gGroups(in), gBytes(b), rd)
	return term, d, classes
}

type tombFixed struct {
	name   string
	mem    bool
	groups []group
	damage string
}

func iv(a, b int64) tombstones.Interval { return tombstones.Interval{Mint: a, Maxt: b} }

func tombCorpus() []tombFixed {
	return []tombFixed{
		{"empty", true, nil, ""},
		{"one-stone", true, []group{{1, tombstones.Intervals{iv(10, 20)}}}, ""},
		{"int64-extremes", true, []group{{math.MaxUint64, tombstones.Intervals{iv(math.MinInt64, math.MinInt64), iv(-1, 0), iv(math.MaxInt64, math.MaxInt64)}}}, ""},
		{"whole-axis", false, []group{{0, tombstones.Intervals{iv(math.MinInt64, math.MaxInt64)}}}, ""},
		{"adjacent-merge-on-read", false, []group{{5, tombstones.Intervals{iv(1, 2), iv(3, 4), iv(6, 7)}}, {5, tombstones.Intervals{iv(5, 5)}}}, ""},
		{"unsorted-refs-and-overlap", false, []group{{9, tombstones.Intervals{iv(100, 200)}}, {2, tombstones.Intervals{iv(-5, 5)}}, {9, tombstones.Intervals{iv(150, 300), iv(-7, -7)}}}, ""},
		{"negative-mint-varint", true, []group{{3, tombstones.Intervals{iv(-64, -1), iv(63, 64)}}, {128, tombstones.Intervals{iv(-65, -65)}}}, ""},
		{"eight-byte-file", true, nil, "eight"},
		{"bad-version", true, []group{{1, tombstones.Intervals{iv(10, 20)}}}, "version"},
	}
}

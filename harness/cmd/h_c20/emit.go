package main

import (
	"fmt"
	"os"
	"path/filepath"
	"strings"

	"verif/harness/internal/gallina"
)

// shardWriter writes cases_<prefix>NNN.v files: one `Definition cK : <type> := ...` per case (a
// single big list literal elaborates superlinearly in Coq 8.16), then `cases`, then the footer.
type shardWriter struct {
	Dir      string
	Prefix   string // distinguishes the streams; the driver globs cases_*.v
	Preamble string
	Type     string
	PerShard int
	items    []string
	shard    int
}

func (w *shardWriter) Add(term string) {
	w.items = append(w.items, term)
	if w.PerShard > 0 && len(w.items) >= w.PerShard {
		w.Flush()
	}
}

func (w *shardWriter) Flush() {
	if len(w.items) == 0 {
		return
	}
	var sb strings.Builder
	sb.WriteString(w.Preamble)
	names := make([]string, len(w.items))
	for i, it := range w.items {
		names[i] = fmt.Sprintf("c%d", i)
		fmt.Fprintf(&sb, "Definition %s : %s := %s.\n", names[i], w.Type, it)
	}
	fmt.Fprintf(&sb, "Definition cases : list (%s) := [%s].\n", w.Type, strings.Join(names, "; "))
	sb.WriteString(gallina.StdFooter)
	sb.WriteString("\n")
	name := fmt.Sprintf("cases_%s%03d.v", w.Prefix, w.shard)
	if err := os.WriteFile(filepath.Join(w.Dir, name), []byte(sb.String()), 0o644); err != nil {
		panic(err)
	}
	w.shard++
	w.items = nil
}

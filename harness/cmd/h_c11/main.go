// h_c11: correspondence harness for C11 (native histograms are stored and read back faithfully).
//
// mode 0: generated histogram sequences are appended through the real chunk appenders
// (HistogramAppender, HistogramSTAppender, FloatHistogramAppender, FloatHistogramSTAppender)
// with cuts chosen by the harness; every chunk is decoded by its iterator at the end.
// mode 1: the same kind of sequences go into one series of a real tsdb DB/Head; the series is
// read back from the head, after a reopen (WAL replay + m-mapped chunks) and from the compacted
// block.
// mode 2: the layout helpers are called directly through the export shim.
// Coq replays mode 0/2 on the model (agree) and evaluates the property on what was read back (holds).
package main

import (
	"context"
	"fmt"
	"math"
	"os"
	"sort"
	"strings"

	"github.com/prometheus/prometheus/model/histogram"
	"github.com/prometheus/prometheus/model/labels"
	"github.com/prometheus/prometheus/model/value"
	"github.com/prometheus/prometheus/storage"
	"github.com/prometheus/prometheus/tsdb/chunkenc"

	"verif/harness/internal/gallina"
	"verif/harness/internal/gen"
	"verif/harness/internal/tsdbx"
)

// ---------- printing ----------

func z(v int64) string {
	if v < 0 {
		return fmt.Sprintf("(%d)", v)
	}
	return fmt.Sprint(v)
}

func w64(u uint64) string {
	if u < 1<<30 {
		return fmt.Sprint(u)
	}
	return fmt.Sprintf("(fb %d %d)", u>>32, u&0xffffffff)
}

func fbits(f float64) string { return w64(math.Float64bits(f)) }

func spansS(l []histogram.Span) string {
	it := make([]string, len(l))
	for i, s := range l {
		it[i] = fmt.Sprintf("mkSpan %s %d", z(int64(s.Offset)), s.Length)
	}
	return gallina.List(it)
}

func hintS(h histogram.CounterResetHint) string {
	switch h {
	case histogram.CounterReset:
		return "HReset"
	case histogram.NotCounterReset:
		return "HNotReset"
	case histogram.GaugeType:
		return "HGauge"
	}
	return "HUnknown"
}

func floatsS(l []float64) string {
	it := make([]string, len(l))
	for i, v := range l {
		it[i] = fbits(v)
	}
	return gallina.List(it)
}

func intsS(l []int64) string {
	it := make([]string, len(l))
	for i, v := range l {
		it[i] = z(v)
	}
	return gallina.List(it)
}

// H is an integer or a float histogram.
type H struct {
	I *histogram.Histogram
	F *histogram.FloatHistogram
}

func (h H) String() string {
	if h.I != nil {
		x := h.I
		return fmt.Sprintf("(mkH %s %s %s %s %s %s %s %s %s %s %s)", hintS(x.CounterResetHint), z(int64(x.Schema)),
			fbits(x.ZeroThreshold), floatsS(x.CustomValues), w64(x.Count), w64(x.ZeroCount), fbits(x.Sum),
			spansS(x.PositiveSpans), spansS(x.NegativeSpans), intsS(x.PositiveBuckets), intsS(x.NegativeBuckets))
	}
	x := h.F
	return fmt.Sprintf("(mkH %s %s %s %s %s %s %s %s %s %s %s)", hintS(x.CounterResetHint), z(int64(x.Schema)),
		fbits(x.ZeroThreshold), floatsS(x.CustomValues), fbits(x.Count), fbits(x.ZeroCount), fbits(x.Sum),
		spansS(x.PositiveSpans), spansS(x.NegativeSpans), floatsS(x.PositiveBuckets), floatsS(x.NegativeBuckets))
}

func (h H) hint() histogram.CounterResetHint {
	if h.I != nil {
		return h.I.CounterResetHint
	}
	return h.F.CounterResetHint
}

func (h H) stale() bool {
	if h.I != nil {
		return value.IsStaleNaN(h.I.Sum)
	}
	return value.IsStaleNaN(h.F.Sum)
}

// ---------- generator ----------

type gstate struct {
	float    bool
	schema   int32
	zt       float64
	custom   []float64
	pos, neg map[int]float64 // absolute counts; explicit zeros are remembered
	zc       float64
	sum      float64
	gauge    bool
	step     float64
	// gaugeStale: staleness markers of a gauge series carry the GaugeType hint
	gaugeStale bool
}

func newState(r *gen.Rand, float bool) *gstate {
	g := &gstate{float: float, pos: map[int]float64{}, neg: map[int]float64{}, step: 1}
	if float && r.Chance(1, 2) {
		g.step = 0.25
	}
	g.pickSchema(r)
	g.gauge = r.Chance(1, 4)
	n := r.Intn(5)
	base := int(r.Range(-6, 6))
	for i := 0; i < n; i++ {
		g.pos[g.clampIdx(base+r.Intn(8))] = g.amount(r)
	}
	if g.schema != histogram.CustomBucketsSchema {
		for i := r.Intn(3); i > 0; i-- {
			g.neg[base+r.Intn(6)] = g.amount(r)
		}
		g.zc = float64(r.Intn(3)) * g.step
	}
	return g
}

func (g *gstate) amount(r *gen.Rand) float64 { return float64(r.Range(0, 6)) * g.step }

func (g *gstate) clampIdx(i int) int {
	if g.schema == histogram.CustomBucketsSchema {
		if i < 0 {
			i = -i
		}
		if i > len(g.custom) {
			i = len(g.custom)
		}
	}
	return i
}

func (g *gstate) pickSchema(r *gen.Rand) {
	if r.Chance(1, 5) {
		g.schema = histogram.CustomBucketsSchema
		g.zt, g.zc = 0, 0
		g.neg = map[int]float64{}
		g.pickBounds(r)
		for i := range g.pos {
			if i < 0 || i > len(g.custom) {
				delete(g.pos, i)
			}
		}
		return
	}
	g.custom = nil
	g.schema = int32(r.Range(-4, 8))
	g.pickZT(r)
}

func (g *gstate) pickZT(r *gen.Rand) {
	switch r.Intn(6) {
	case 0:
		g.zt = 0
	case 1:
		g.zt = math.Ldexp(0.5, int(r.Range(-244, 12))) // around the one-byte range of putZeroThreshold
	case 2:
		g.zt = 0.001 * float64(r.Range(1, 5000))
	case 3:
		g.zt = math.Copysign(0, -1)
	default:
		g.zt = math.Ldexp(1, -128)
	}
}

func (g *gstate) pickBounds(r *gen.Rand) {
	n := 3 + r.Intn(8)
	g.custom = nil
	v := float64(r.Range(-3, 3))
	if r.Chance(1, 6) {
		v = math.Copysign(0, -1)
	}
	for i := 0; i < n; i++ {
		g.custom = append(g.custom, v)
		switch r.Intn(5) {
		case 0:
			v += 0.0005 // not a multiple of 0.001: stored as raw float64
		case 1:
			v += 40000 // beyond the varbit range of putCustomBound
		case 2:
			v += 0.001
		default:
			v += float64(r.Range(1, 10))
		}
	}
}

func keys(m map[int]float64) []int {
	k := make([]int, 0, len(m))
	for i := range m {
		k = append(k, i)
	}
	sort.Ints(k)
	return k
}

// newIdx picks an index near the populated range: before, inside a gap, or after.
func (g *gstate) newIdx(r *gen.Rand, m map[int]float64) int {
	k := keys(m)
	if len(k) == 0 {
		return g.clampIdx(int(r.Range(-5, 5)))
	}
	lo, hi := k[0], k[len(k)-1]
	switch r.Intn(4) {
	case 0:
		return g.clampIdx(lo - 1 - r.Intn(4))
	case 1:
		return g.clampIdx(hi + 1 + r.Intn(4))
	default:
		return g.clampIdx(lo + r.Intn(hi-lo+1))
	}
}

// evolve changes the state; returns the class of the change and whether the next sample is stale.
func (g *gstate) evolve(r *gen.Rand) (class string, stale bool) {
	sides := []map[int]float64{g.pos}
	if g.schema != histogram.CustomBucketsSchema {
		sides = append(sides, g.neg)
	}
	x := r.Intn(100)
	switch {
	case x < 50: // grow: counts up, new buckets
		class = "grow"
		for _, m := range sides {
			for _, i := range keys(m) {
				if r.Chance(1, 2) {
					m[i] += g.amount(r)
				}
			}
			for n := r.Intn(3); n > 0 && r.Chance(2, 3); n-- {
				i := g.newIdx(r, m)
				if _, ok := m[i]; !ok {
					m[i] = g.amount(r) // may be an explicit zero bucket
					class = "grow-newbucket"
				}
			}
		}
		if g.schema != histogram.CustomBucketsSchema && r.Chance(1, 3) {
			g.zc += g.amount(r)
		}
	case x < 58: // forget explicit zero buckets (they leave the layout) - needs backward inserts
		class = "drop-zero-buckets"
		for _, m := range sides {
			for _, i := range keys(m) {
				if m[i] == 0 && r.Chance(2, 3) {
					delete(m, i)
				}
			}
		}
		// and add a new one so that forward and backward inserts coincide
		if r.Chance(2, 3) {
			m := sides[r.Intn(len(sides))]
			i := g.newIdx(r, m)
			if _, ok := m[i]; !ok {
				m[i] = g.amount(r)
				class = "drop-zero+newbucket"
			}
		}
	case x < 66: // shrink: gauge-like decrease / counter reset
		class = "shrink"
		for _, m := range sides {
			for _, i := range keys(m) {
				switch r.Intn(3) {
				case 0:
					m[i] = float64(int(m[i]/g.step)/2) * g.step
				case 1:
					delete(m, i)
				}
			}
		}
		if r.Chance(1, 2) {
			g.zc = 0
		}
	case x < 71:
		class = "schema-change"
		g.pickSchema(r)
	case x < 75:
		class = "threshold-or-bounds-change"
		if g.schema == histogram.CustomBucketsSchema {
			g.pickBounds(r)
			for i := range g.pos {
				if i > len(g.custom) {
					delete(g.pos, i)
				}
			}
		} else {
			g.pickZT(r)
		}
	case x < 81:
		class = "gauge-counter-switch"
		g.gauge = !g.gauge
	case x < 88:
		class = "stale"
		stale = true
	case x < 93: // shift the whole layout
		class = "shift"
		d := int(r.Range(-3, 3))
		for si, m := range sides {
			n := map[int]float64{}
			for i, v := range m {
				n[g.clampIdx(i+d)] += v
			}
			if si == 0 {
				g.pos = n
			} else {
				g.neg = n
			}
		}
	case x < 97 && len(sides) == 2: // an unused bucket vanishes on one side while the other side grows
		class = "cross-sides"
		a, b := sides[0], sides[1]
		if r.Bool() {
			a, b = b, a
		}
		for _, i := range keys(a) {
			if a[i] == 0 {
				delete(a, i)
			}
		}
		if len(a) > 0 && r.Chance(1, 2) { // make sure there is an unused bucket to vanish next time
			a[g.newIdx(r, a)] += 0
		}
		i := g.newIdx(r, b)
		if _, ok := b[i]; !ok {
			b[i] = g.amount(r)
		}
	default:
		class = "same"
	}
	return class, stale
}

// layout turns a side into spans + absolute values, with legal irregularities: explicit zero
// buckets, adjacent spans (offset 0), zero-length spans.
func (g *gstate) layout(r *gen.Rand, m map[int]float64) ([]histogram.Span, []float64) {
	k := keys(m)
	var idx []int
	for _, i := range k {
		if m[i] != 0 || r.Chance(3, 4) {
			idx = append(idx, i)
		}
	}
	// extra explicit zero buckets next to populated ones
	if len(idx) > 0 && r.Chance(1, 5) {
		i := g.clampIdx(idx[r.Intn(len(idx))] + int(r.Range(-2, 2)))
		if _, ok := m[i]; !ok {
			m[i] = 0
			idx = append(idx, i)
			sort.Ints(idx)
		}
	}
	var spans []histogram.Span
	var vals []float64
	custom := g.schema == histogram.CustomBucketsSchema
	next := 0 // index right after the last bucket
	first := true
	if len(idx) > 0 && r.Chance(1, 10) { // leading zero-length span
		o := idx[0] - r.Intn(3)
		if custom && o < 0 {
			o = 0
		}
		spans = append(spans, histogram.Span{Offset: int32(o), Length: 0})
		next = o
		first = false
	}
	for p := 0; p < len(idx); {
		q := p
		for q+1 < len(idx) && idx[q+1] == idx[q]+1 {
			q++
		}
		// run idx[p..q]
		gap := idx[p] - next
		if !first && gap > 0 && r.Chance(1, 10) { // zero-length span inside the gap
			o := r.Intn(gap + 1)
			spans = append(spans, histogram.Span{Offset: int32(o), Length: 0})
			gap -= o
		}
		n := q - p + 1
		if n > 1 && r.Chance(1, 6) { // split the run into two adjacent spans
			a := 1 + r.Intn(n-1)
			spans = append(spans, histogram.Span{Offset: int32(gap), Length: uint32(a)}, histogram.Span{Offset: 0, Length: uint32(n - a)})
		} else {
			spans = append(spans, histogram.Span{Offset: int32(gap), Length: uint32(n)})
		}
		for i := p; i <= q; i++ {
			vals = append(vals, m[idx[i]])
		}
		next = idx[q] + 1
		first = false
		p = q + 1
	}
	if len(spans) > 0 && r.Chance(1, 12) { // trailing zero-length span
		o := r.Intn(3)
		if custom && next+o > len(g.custom)+1 {
			o = 0
		}
		spans = append(spans, histogram.Span{Offset: int32(o), Length: 0})
	}
	return spans, vals
}

func (g *gstate) emit(r *gen.Rand, stale bool) H {
	ps, pv := g.layout(r, g.pos)
	var ns []histogram.Span
	var nv []float64
	if g.schema != histogram.CustomBucketsSchema {
		ns, nv = g.layout(r, g.neg)
	}
	total := g.zc
	for _, v := range pv {
		total += v
	}
	for _, v := range nv {
		total += v
	}
	g.sum += float64(r.Range(-3, 9)) * 0.5
	sum := g.sum
	if r.Chance(1, 40) {
		sum = math.NaN()
	}
	hint := histogram.UnknownCounterReset
	if g.gauge {
		hint = histogram.GaugeType
	} else {
		switch r.Intn(12) {
		case 0:
			hint = histogram.CounterReset
		case 1, 2:
			hint = histogram.NotCounterReset
		}
	}
	if stale {
		if !g.gaugeStale { // staleness markers as the scrape loop writes them carry no hint
			hint = histogram.UnknownCounterReset
		}
		sum = math.Float64frombits(value.StaleNaN)
		if r.Chance(1, 2) { // a bare staleness marker
			if g.float {
				return H{F: &histogram.FloatHistogram{Sum: sum, CounterResetHint: hint}}
			}
			return H{I: &histogram.Histogram{Sum: sum, CounterResetHint: hint}}
		}
	}
	var cv []float64
	if g.custom != nil {
		cv = append([]float64{}, g.custom...)
	}
	if g.float {
		return H{F: &histogram.FloatHistogram{CounterResetHint: hint, Schema: g.schema, ZeroThreshold: g.zt, ZeroCount: g.zc,
			Count: total, Sum: sum, PositiveSpans: ps, NegativeSpans: ns, PositiveBuckets: pv, NegativeBuckets: nv, CustomValues: cv}}
	}
	toDeltas := func(v []float64) []int64 {
		var d []int64
		last := int64(0)
		for _, x := range v {
			d = append(d, int64(x)-last)
			last = int64(x)
		}
		return d
	}
	return H{I: &histogram.Histogram{CounterResetHint: hint, Schema: g.schema, ZeroThreshold: g.zt, ZeroCount: uint64(g.zc),
		Count: uint64(total), Sum: sum, PositiveSpans: ps, NegativeSpans: ns, PositiveBuckets: toDeltas(pv), NegativeBuckets: toDeltas(nv), CustomValues: cv}}
}

type opT struct {
	cut   bool
	t     int64
	h     H
	class string
}

func genOps(r *gen.Rand, float bool, n int, cutProb int, gaugeStale bool) []opT {
	g := newState(r, float)
	g.gaugeStale = gaugeStale
	var ops []opT
	t := r.Range(-1000, 100000)
	for i := 0; i < n; i++ {
		class, stale := "first", false
		if i > 0 {
			class, stale = g.evolve(r)
		}
		h := g.emit(r, stale)
		ops = append(ops, opT{cut: i > 0 && cutProb > 0 && r.Chance(1, cutProb), t: t, h: h, class: class})
		t += r.Range(1, 30000)
	}
	return ops
}

func opS(o opT, before string) string {
	return fmt.Sprintf("mkOp %s %s %s", gallina.Bool(o.cut), z(o.t), before)
}

// ---------- mode 0: chunk appenders ----------

func newChunk(variant int) chunkenc.Chunk {
	switch variant {
	case 0:
		return chunkenc.NewHistogramChunk()
	case 1:
		return chunkenc.NewHistogramSTChunk()
	case 2:
		return chunkenc.NewFloatHistogramChunk()
	}
	return chunkenc.NewFloatHistogramSTChunk()
}

func readChunk(c chunkenc.Chunk, float bool) (string, int, error) {
	it := c.Iterator(nil)
	var items []string
	for it.Next() != chunkenc.ValNone {
		if float {
			t, h := it.AtFloatHistogram(nil)
			items = append(items, fmt.Sprintf("(%s, %s)", z(t), H{F: h}))
		} else {
			t, h := it.AtHistogram(nil)
			items = append(items, fmt.Sprintf("(%s, %s)", z(t), H{I: h}))
		}
	}
	return gallina.List(items), len(items), it.Err()
}

type desc struct {
	Mode    int      `json:"mode"`
	Variant string   `json:"variant"`
	Seed    uint64   `json:"seed"`
	Index   int      `json:"index"`
	Ops     int      `json:"ops"`
	Classes []string `json:"classes,omitempty"`
	Shape   string   `json:"shape"`
	Note    string   `json:"note,omitempty"`
}

var variantName = []string{"HistogramChunk", "HistogramSTChunk", "FloatHistogramChunk", "FloatHistogramSTChunk"}

func kindS(float bool) string {
	if float {
		return "KFloat"
	}
	return "KInt"
}

func appendTo(app chunkenc.Appender, prev chunkenc.Appender, st, t int64, h H) (c chunkenc.Chunk, rec bool, a chunkenc.Appender, err error, panicked any) {
	defer func() {
		if p := recover(); p != nil {
			panicked = p
		}
	}()
	if h.I != nil {
		c, rec, a, err = app.AppendHistogram(prev, st, t, h.I, false)
	} else {
		c, rec, a, err = app.AppendFloatHistogram(prev, st, t, h.F, false)
	}
	return
}

func runDirect(id int, r *gen.Rand, variant int, ops []opT, meta *gallina.Meta, d desc) string {
	float := variant >= 2
	cur := newChunk(variant)
	app, _ := cur.Appender()
	var prev chunkenc.Appender
	var chunks []chunkenc.Chunk
	var opsS, stepsS []string
	for i, o := range ops {
		if o.cut {
			chunks = append(chunks, cur)
			prev = app
			cur = newChunk(variant)
			app, _ = cur.Appender()
		}
		before := o.h.String()
		opsS = append(opsS, opS(o, before))
		nc, rec, napp, err, p := appendTo(app, prev, o.t-r.Range(0, 50), o.t, o.h)
		prev = nil
		if p != nil || err != nil {
			meta.GoViol = append(meta.GoViol, gallina.GoViolation{ID: fmt.Sprint(id), Shape: "append-panic-or-error", What: fmt.Sprintf("op %d: panic=%v err=%v", i, p, err)})
			stepsS = append(stepsS, "mkOS 9 None")
			break
		}
		flag := 0
		switch {
		case nc == nil:
		case rec:
			flag = 2
			cur = nc
			meta.Hit("out-recoded")
		default:
			flag = 1
			chunks = append(chunks, cur)
			cur = nc
			meta.Hit("out-newchunk")
		}
		app = napp
		after := o.h.String()
		as := "None"
		if after != before {
			as = "(Some " + after + ")"
			meta.Hit("caller-hist-rewritten")
		}
		stepsS = append(stepsS, fmt.Sprintf("mkOS %d %s", flag, as))
		if r.Chance(1, 10) { // re-obtain the appender from the chunk, as the head does after a restart
			a2, err := cur.Appender()
			if err != nil {
				meta.GoViol = append(meta.GoViol, gallina.GoViolation{ID: fmt.Sprint(id), Shape: "appender-error", What: err.Error()})
			} else {
				app = a2
				meta.Hit("appender-reobtained")
			}
		}
	}
	chunks = append(chunks, cur)
	var cs, reenc []string
	total := 0
	for _, c := range chunks {
		if c.NumSamples() == 0 {
			continue
		}
		s, n, err := readChunk(c, float)
		if err != nil {
			meta.GoViol = append(meta.GoViol, gallina.GoViolation{ID: fmt.Sprint(id), Shape: "iterator-error", What: err.Error()})
		}
		total += n
		cs = append(cs, s)
		// re-encode the chunk the way compaction does for open / partially covered chunks
		nc, rerr := reencodeChunk(c)
		switch {
		case rerr != nil:
			reenc = append(reenc, "0")
			meta.Hit("reencode-error")
			d.Shape = "reencode-error"
			if gaugeStaleIn(ops) {
				d.Shape = "gauge-hinted-stale-marker-reencode-error"
			}
			d.Note = "re-encoding a chunk (appendOnly) failed: " + rerr.Error()
		default:
			s2, _, _ := readChunk(nc, float)
			if s2 == s {
				reenc = append(reenc, "1")
				meta.Hit("reencode-ok")
			} else {
				reenc = append(reenc, "2")
				meta.Hit("reencode-differs")
				d.Shape = "reencode-differs"
			}
		}
	}
	if len(cs) > 1 {
		meta.Hit("multi-chunk")
	}
	meta.Case(id, d)
	return fmt.Sprintf("mkCase %d 0 %s %s %s %s %s [] [] [] [] []", id, kindS(float), gallina.List(opsS), gallina.List(stepsS), gallina.List(cs), gallina.List(reenc))
}

func gaugeStaleIn(ops []opT) bool {
	for _, o := range ops {
		if o.h.stale() && o.h.hint() == histogram.GaugeType {
			return true
		}
	}
	return false
}

// reencodeChunk mirrors populateWithDelChunkSeriesIterator.populateCurrForSingleChunk (tsdb/querier.go).
func reencodeChunk(c chunkenc.Chunk) (nc chunkenc.Chunk, err error) {
	defer func() {
		if p := recover(); p != nil {
			err = fmt.Errorf("panic: %v", p)
		}
	}()
	nc, err = chunkenc.NewEmptyChunk(c.Encoding())
	if err != nil {
		return nil, err
	}
	app, err := nc.Appender()
	if err != nil {
		return nil, err
	}
	it := c.Iterator(nil)
	for vt := it.Next(); vt != chunkenc.ValNone; vt = it.Next() {
		st := it.AtST()
		switch vt {
		case chunkenc.ValHistogram:
			t, h := it.AtHistogram(nil)
			if _, _, app, err = app.AppendHistogram(nil, st, t, h, true); err != nil {
				return nil, err
			}
		case chunkenc.ValFloatHistogram:
			t, h := it.AtFloatHistogram(nil)
			if _, _, app, err = app.AppendFloatHistogram(nil, st, t, h, true); err != nil {
				return nil, err
			}
		}
	}
	return nc, it.Err()
}

// ---------- mode 1: through a real Head ----------

func readSeries(db *tsdbx.DB, float bool) (string, int, error) {
	q, err := db.DB.Querier(math.MinInt64, math.MaxInt64)
	if err != nil {
		return "", 0, err
	}
	defer q.Close()
	ss := q.Select(context.Background(), true, nil, labels.MustNewMatcher(labels.MatchEqual, "__name__", "h"))
	var items []string
	for ss.Next() {
		it := ss.At().Iterator(nil)
		for vt := it.Next(); vt != chunkenc.ValNone; vt = it.Next() {
			switch vt {
			case chunkenc.ValHistogram:
				t, h := it.AtHistogram(nil)
				if float {
					return "", 0, fmt.Errorf("integer histogram in float series at %d", t)
				}
				items = append(items, fmt.Sprintf("(%s, %s)", z(t), H{I: h}))
			case chunkenc.ValFloatHistogram:
				t, h := it.AtFloatHistogram(nil)
				if !float {
					return "", 0, fmt.Errorf("float histogram in integer series at %d", t)
				}
				items = append(items, fmt.Sprintf("(%s, %s)", z(t), H{F: h}))
			default:
				return "", 0, fmt.Errorf("unexpected value type %v", vt)
			}
		}
		if it.Err() != nil {
			return "", 0, it.Err()
		}
	}
	return gallina.List(items), len(items), ss.Err()
}

func runHead(id int, r *gen.Rand, float bool, ops []opT, out string, meta *gallina.Meta, d desc) (res string, ok bool) {
	dir, err := os.MkdirTemp(out, "c11db")
	if err != nil {
		panic(err)
	}
	defer os.RemoveAll(dir)
	db, err := tsdbx.Open(dir, tsdbx.Options{BlockRange: 3600_000 * 24 * 30})
	if err != nil {
		panic(err)
	}
	panicked := false
	// after a panic inside the head its locks may still be held: do not Close (it would deadlock)
	defer func() {
		if !panicked {
			db.DB.Close()
		}
	}()
	var opsS, before []string
	defer func() {
		if p := recover(); p != nil {
			panicked = true
			d.Shape = "head-panic"
			meta.GoViol = append(meta.GoViol, gallina.GoViolation{ID: fmt.Sprint(id), Shape: "head-panic", What: fmt.Sprintf("panic while appending / reading / compacting through the head: %v", p)})
			meta.Hit("head-panic")
			meta.Case(id, d)
			none := make([]string, len(opsS))
			for i := range none {
				none[i] = "None"
			}
			res = fmt.Sprintf("mkCase %d 1 %s %s [] [] [] [] %s [] [] []", id, kindS(float), gallina.List(opsS), gallina.List(none))
			ok = true
		}
	}()
	lbls := labels.FromStrings("__name__", "h")
	for _, o := range ops {
		b := o.h.String()
		before = append(before, b)
		o.cut = false
		opsS = append(opsS, opS(o, b))
	}
	for i := 0; i < len(ops); {
		n := 1 + r.Intn(7)
		app := db.DB.Appender(context.Background())
		for j := i; j < i+n && j < len(ops); j++ {
			if _, err := app.AppendHistogram(0, lbls, ops[j].t, ops[j].h.I, ops[j].h.F); err != nil {
				meta.Notes = append(meta.Notes, fmt.Sprintf("case %d: head append error: %v", id, err))
				meta.Hit("head-append-error")
				app.Rollback()
				return "", false
			}
		}
		if err := app.Commit(); err != nil {
			panic(err)
		}
		i += n
	}
	var after []string
	for i, o := range ops {
		a := o.h.String()
		if a == before[i] {
			after = append(after, "None")
		} else {
			after = append(after, "(Some "+a+")")
			meta.Hit("caller-hist-rewritten")
		}
	}
	var reads []string
	read := func(path string) {
		s, _, err := readSeries(db, float)
		if err != nil {
			meta.GoViol = append(meta.GoViol, gallina.GoViolation{ID: fmt.Sprint(id), Shape: "read-error", What: path + ": " + err.Error()})
			return
		}
		dup := false
		for _, p := range reads {
			if p == s {
				dup = true // identical to an earlier read: one copy is enough for Coq
			}
		}
		if !dup {
			reads = append(reads, s)
		}
		meta.Hit("read-" + path)
	}
	read("head")
	hs := db.HeadDump()
	for _, s := range hs {
		if len(s.InOrder) > 1 {
			meta.Hit("head-multi-chunk")
		}
	}
	if err := db.Reopen(); err != nil {
		panic(err)
	}
	read("reopened")
	if err := db.ForceCompactHead(ops[0].t, ops[len(ops)-1].t); err != nil {
		shape := "head-compaction-error"
		for _, o := range ops {
			if o.h.stale() && o.h.hint() == histogram.GaugeType {
				shape = "gauge-hinted-stale-marker-reencode-error"
			}
		}
		d.Shape = shape
		meta.GoViol = append(meta.GoViol, gallina.GoViolation{ID: fmt.Sprint(id), Shape: shape, What: "compacting the head into a block failed: " + err.Error()})
		meta.Hit("compaction-error")
	} else if len(db.Blocks()) > 0 {
		read("block")
	}
	meta.Case(id, d)
	return fmt.Sprintf("mkCase %d 1 %s %s [] [] [] %s %s [] [] []", id, kindS(float), gallina.List(opsS), gallina.List(reads), gallina.List(after)), true
}

// ---------- mode 2: components ----------

func insS(l []chunkenc.VerifInsert) string {
	it := make([]string, len(l))
	for i, x := range l {
		it[i] = fmt.Sprintf("mkIns %d %d %s", x.Pos, x.Num, z(int64(x.BucketIdx)))
	}
	return gallina.List(it)
}

func intsI(l []int) string {
	it := make([]string, len(l))
	for i, v := range l {
		it[i] = z(int64(v))
	}
	return gallina.List(it)
}

func randSpans(r *gen.Rand) []histogram.Span {
	var s []histogram.Span
	for n := r.Intn(5); n > 0; n-- {
		o := int32(r.Range(0, 3))
		if len(s) == 0 {
			o = int32(r.Range(-4, 4))
		}
		s = append(s, histogram.Span{Offset: o, Length: uint32(r.Range(0, 3))})
	}
	return s
}

func countSpans(s []histogram.Span) int {
	n := 0
	for _, x := range s {
		n += int(x.Length)
	}
	return n
}

func runComponents(id int, r *gen.Rand, meta *gallina.Meta, d desc) string {
	var comps []string
	for k := 0; k < 6; k++ {
		a, b := randSpans(r), randSpans(r)
		comps = append(comps, fmt.Sprintf("CIdxs %s %s", spansS(a), intsI(chunkenc.VerifC11BucketIdxs(a))))
		f, bk, m := chunkenc.VerifC11ExpandSpansBothWays(a, b)
		comps = append(comps, fmt.Sprintf("CBoth %s %s %s %s %s", spansS(a), spansS(b), insS(f), insS(bk), spansS(m)))
		// forward inserts applied to random deltas of a
		in := make([]int64, countSpans(a))
		for i := range in {
			in[i] = r.Range(-3, 5)
		}
		n := countSpans(m)
		deltas := r.Chance(2, 3)
		func() {
			defer func() {
				if p := recover(); p != nil {
					comps = append(comps, fmt.Sprintf("CInsert %s %s %s %d None", gallina.Bool(deltas), intsS(in), insS(f), n))
				}
			}()
			out := chunkenc.VerifC11InsertInt(in, n, f, deltas)
			comps = append(comps, fmt.Sprintf("CInsert %s %s %s %d (Some %s)", gallina.Bool(deltas), intsS(in), insS(f), n, intsS(out)))
		}()
		// counter expansion with absolute counts that sometimes are zero / reset
		ab := make([]int64, countSpans(a))
		bb := make([]int64, countSpans(b))
		for i := range ab {
			ab[i] = r.Range(-2, 2)
		}
		for i := range bb {
			bb[i] = r.Range(-1, 3)
		}
		ef, eb, ok := chunkenc.VerifC11ExpandIntSpansAndBuckets(a, b, ab, bb)
		if ok {
			meta.Hit("comp-expand-ok")
			comps = append(comps, fmt.Sprintf("CExpand KInt %s %s %s %s (Some (%s, %s))", spansS(a), spansS(b), intsS(ab), intsS(bb), insS(ef), insS(eb)))
			if len(eb) > 0 {
				adj := chunkenc.VerifC11AdjustForInserts(b, eb)
				comps = append(comps, fmt.Sprintf("CAdjust %s %s %s", spansS(b), insS(eb), spansS(adj)))
				meta.Hit("comp-adjust")
			}
		} else {
			meta.Hit("comp-expand-reset")
			comps = append(comps, fmt.Sprintf("CExpand KInt %s %s %s %s None", spansS(a), spansS(b), intsS(ab), intsS(bb)))
		}
	}
	meta.Case(id, d)
	return fmt.Sprintf("mkCase %d 2 KInt [] [] [] [] [] [] %s [] []", id, gallina.List(comps))
}

// ---------- mode 3: one appender transaction with mixed sample flavours ----------

const (
	flFloat = iota
	flIntHist
	flFloatHist
	flIntNHCB
	flFloatNHCB
)

var flName = []string{"float", "inthist", "floathist", "intnhcb", "floatnhcb"}

type txSample struct {
	ser int
	t   int64
	fl  int
	v   float64
	h   *histogram.Histogram
	fh  *histogram.FloatHistogram
}

// txValue builds the idx-th sample of a transaction in the given flavour (values grow with idx,
// so that the samples of one series are distinguishable and counter-like).
func txValue(fl, idx int) (v float64, h *histogram.Histogram, fh *histogram.FloatHistogram) {
	n := int64(idx + 1)
	switch fl {
	case flFloat:
		return float64(n) * 1.5, nil, nil
	case flIntHist:
		return 0, &histogram.Histogram{Schema: 1, ZeroThreshold: 0.001, ZeroCount: uint64(n), Count: uint64(5*n + 1), Sum: float64(n),
			PositiveSpans: []histogram.Span{{Offset: 0, Length: 2}}, PositiveBuckets: []int64{2 * n, 1 - n},
			NegativeSpans: []histogram.Span{{Offset: 1, Length: 1}}, NegativeBuckets: []int64{n}}, nil
	case flFloatHist:
		return 0, nil, &histogram.FloatHistogram{Schema: 1, ZeroThreshold: 0.001, ZeroCount: float64(n), Count: float64(4*n) + 1.5, Sum: float64(n),
			PositiveSpans: []histogram.Span{{Offset: 0, Length: 2}}, PositiveBuckets: []float64{2 * float64(n), float64(n) + 1.5},
			NegativeSpans: []histogram.Span{{Offset: 1, Length: 1}}, NegativeBuckets: []float64{float64(n)}}
	case flIntNHCB:
		return 0, &histogram.Histogram{Schema: histogram.CustomBucketsSchema, Count: uint64(3 * n), Sum: float64(n), CustomValues: []float64{1, 2.5, 10},
			PositiveSpans: []histogram.Span{{Offset: 0, Length: 2}}, PositiveBuckets: []int64{2 * n, -n}}, nil
	}
	return 0, nil, &histogram.FloatHistogram{Schema: histogram.CustomBucketsSchema, Count: 3 * float64(n), Sum: float64(n), CustomValues: []float64{1, 2.5, 10},
		PositiveSpans: []histogram.Span{{Offset: 0, Length: 2}}, PositiveBuckets: []float64{2 * float64(n), float64(n)}}
}

func tvalS(v float64, h *histogram.Histogram, fh *histogram.FloatHistogram) string {
	switch {
	case fh != nil:
		return "(VH KFloat " + H{F: fh}.String() + ")"
	case h != nil:
		return "(VH KInt " + H{I: h}.String() + ")"
	}
	return "(VF " + fbits(v) + ")"
}

// txEnv is the database shared by the transaction cases (every case uses its own series).
type txEnv struct {
	out string
	db  *tsdbx.DB
	dir string
}

func (e *txEnv) get() *tsdbx.DB {
	if e.db == nil {
		dir, err := os.MkdirTemp(e.out, "c11tx")
		if err != nil {
			panic(err)
		}
		db, err := tsdbx.Open(dir, tsdbx.Options{BlockRange: 3600_000 * 24 * 30})
		if err != nil {
			panic(err)
		}
		e.db, e.dir = db, dir
	}
	return e.db
}

// poison abandons the database after a panic inside it (its locks may still be held).
func (e *txEnv) poison() { e.db = nil }

func (e *txEnv) close() {
	if e.db != nil {
		e.db.DB.Close()
		os.RemoveAll(e.dir)
		e.db = nil
	}
}

func runTx(id int, env *txEnv, v2 bool, samples []txSample, meta *gallina.Meta, d desc) (res string) {
	var ins []string
	for _, s := range samples {
		ins = append(ins, fmt.Sprintf("mkTxIn %d %s %s", s.ser, z(s.t), tvalS(s.v, s.h, s.fh)))
	}
	defer func() {
		if p := recover(); p != nil {
			env.poison()
			d.Shape = "tx-panic"
			meta.GoViol = append(meta.GoViol, gallina.GoViolation{ID: fmt.Sprint(id), Shape: "tx-panic", What: fmt.Sprintf("panic in a mixed-flavour transaction: %v", p)})
			meta.Hit("tx-panic")
			meta.Case(id, d)
			res = fmt.Sprintf("mkCase %d 3 KInt [] [] [] [] [] [] [] %s []", id, gallina.List(ins))
		}
	}()
	db := env.get()
	lbl := func(ser int) labels.Labels {
		return labels.FromStrings("__name__", "tx", "c", fmt.Sprint(id), "s", fmt.Sprint(ser))
	}
	appendErr := func(i int, err error) {
		meta.GoViol = append(meta.GoViol, gallina.GoViolation{ID: fmt.Sprint(id), Shape: "tx-append-error", What: fmt.Sprintf("sample %d (%s): %v", i, flName[samples[i].fl], err)})
		d.Shape = "tx-append-error"
	}
	if v2 {
		app := db.DB.AppenderV2(context.Background())
		for i, s := range samples {
			if _, err := app.Append(0, lbl(s.ser), 0, s.t, s.v, s.h, s.fh, storage.AppendV2Options{}); err != nil {
				appendErr(i, err)
			}
		}
		if err := app.Commit(); err != nil {
			panic(err)
		}
	} else {
		app := db.DB.Appender(context.Background())
		for i, s := range samples {
			var err error
			if s.fl == flFloat {
				_, err = app.Append(0, lbl(s.ser), s.t, s.v)
			} else {
				_, err = app.AppendHistogram(0, lbl(s.ser), s.t, s.h, s.fh)
			}
			if err != nil {
				appendErr(i, err)
			}
		}
		if err := app.Commit(); err != nil {
			panic(err)
		}
	}
	// read every series of the case back
	sers := map[int]bool{}
	var order []int
	for _, s := range samples {
		if !sers[s.ser] {
			sers[s.ser] = true
			order = append(order, s.ser)
		}
	}
	q, err := db.DB.Querier(math.MinInt64, math.MaxInt64)
	if err != nil {
		panic(err)
	}
	defer q.Close()
	var reads []string
	for _, ser := range order {
		ss := q.Select(context.Background(), true, nil,
			labels.MustNewMatcher(labels.MatchEqual, "c", fmt.Sprint(id)), labels.MustNewMatcher(labels.MatchEqual, "s", fmt.Sprint(ser)))
		var items []string
		for ss.Next() {
			it := ss.At().Iterator(nil)
			for vt := it.Next(); vt != chunkenc.ValNone; vt = it.Next() {
				switch vt {
				case chunkenc.ValFloat:
					t, v := it.At()
					items = append(items, fmt.Sprintf("(%s, %s)", z(t), tvalS(v, nil, nil)))
				case chunkenc.ValHistogram:
					t, h := it.AtHistogram(nil)
					items = append(items, fmt.Sprintf("(%s, %s)", z(t), tvalS(0, h, nil)))
				case chunkenc.ValFloatHistogram:
					t, fh := it.AtFloatHistogram(nil)
					items = append(items, fmt.Sprintf("(%s, %s)", z(t), tvalS(0, nil, fh)))
				}
			}
			if it.Err() != nil {
				panic(it.Err())
			}
		}
		if ss.Err() != nil {
			panic(ss.Err())
		}
		if len(items) != countSer(samples, ser) {
			meta.Hit("tx-samples-missing")
		}
		reads = append(reads, fmt.Sprintf("(%d, %s)", ser, gallina.List(items)))
	}
	meta.Case(id, d)
	return fmt.Sprintf("mkCase %d 3 KInt [] [] [] [] [] [] [] %s %s", id, gallina.List(ins), gallina.List(reads))
}

func countSer(samples []txSample, ser int) int {
	n := 0
	for _, s := range samples {
		if s.ser == ser {
			n++
		}
	}
	return n
}

func flavourSeq(fls []int, ser int) []txSample {
	var out []txSample
	for i, fl := range fls {
		v, h, fh := txValue(fl, i)
		out = append(out, txSample{ser: ser, t: int64(1000 * (i + 1)), fl: fl, v: v, h: h, fh: fh})
	}
	return out
}

func seqName(samples []txSample) string {
	var p []string
	for _, s := range samples {
		p = append(p, fmt.Sprintf("%d:%s", s.ser, flName[s.fl]))
	}
	return strings.Join(p, ",")
}

func main() {
	f := gallina.ParseFlags()
	meta := gallina.NewMeta("C11", f.Seed, f.Tier)
	meta.Rule = "one case = one generated histogram sequence (mode 0: through a chunk appender variant with harness-chosen cuts; mode 1: through a real DB/Head, read back from head, after reopen and from the compacted block; mode 2: six direct calls of each layout helper). distinct_nontrivial counts mode-0/1 cases whose run produced at least one recode, new chunk from the appender, or rewritten caller histogram (mode 0), or more than one head chunk (mode 1); sequences are distinct by construction (seed, index)"
	cf := &gallina.CaseFile{Dir: f.Out, Type: "case", PerShard: 40,
		Preamble: "From Coq Require Import List ZArith Uint63.\nFrom Verif Require Import model.HistChunk corr.CorrC11.\nImport ListNotations.\nOpen Scope Z_scope.\n",
		Footer:   gallina.StdFooter}
	id := 0
	nDirect := f.Count(100, 1500)
	nHead := f.Count(6, 60)
	nComp := f.Count(20, 300)
	// corpus: reproducer of the finding "a gauge chunk holding a GaugeType-hinted staleness marker
	// cannot be re-encoded" (chunk level, all four chunk variants, and through head compaction)
	corpus := func(float bool) []opT {
		stale := math.Float64frombits(value.StaleNaN)
		if float {
			return []opT{
				{t: 1, class: "corpus", h: H{F: &histogram.FloatHistogram{CounterResetHint: histogram.GaugeType, Count: 1, PositiveSpans: []histogram.Span{{Offset: 0, Length: 1}}, PositiveBuckets: []float64{1}}}},
				{t: 2, class: "corpus", h: H{F: &histogram.FloatHistogram{CounterResetHint: histogram.GaugeType, Sum: stale}}},
			}
		}
		return []opT{
			{t: 1, class: "corpus", h: H{I: &histogram.Histogram{CounterResetHint: histogram.GaugeType, Count: 1, PositiveSpans: []histogram.Span{{Offset: 0, Length: 1}}, PositiveBuckets: []int64{1}}}},
			{t: 2, class: "corpus", h: H{I: &histogram.Histogram{CounterResetHint: histogram.GaugeType, Sum: stale}}},
		}
	}
	for variant := 0; variant < 4; variant++ {
		r := gen.Fork(f.Seed, 3_000_000+variant)
		cf.Add(runDirect(id, r, variant, corpus(variant >= 2), meta, desc{Mode: 0, Variant: variantName[variant], Seed: f.Seed, Index: 3_000_000 + variant, Ops: 2, Shape: "direct-" + variantName[variant], Note: "corpus: gauge chunk with GaugeType-hinted staleness marker"}))
		meta.Hit("corpus")
		meta.Evaluations++
		id++
	}
	for _, float := range []bool{false, true} {
		r := gen.Fork(f.Seed, 3_000_010)
		if s, ok := runHead(id, r, float, corpus(float), f.Out, meta, desc{Mode: 1, Variant: kindS(float), Seed: f.Seed, Index: 3_000_010, Ops: 2, Shape: "head-" + kindS(float), Note: "corpus: gauge series with GaugeType-hinted staleness marker, then head compaction"}); ok {
			cf.Add(s)
			meta.Hit("corpus")
			meta.Evaluations++
			id++
		}
	}
	for i := 0; i < nDirect; i++ {
		r := gen.Fork(f.Seed, i)
		variant := i % 4
		n := 3 + r.Intn(14)
		if r.Chance(1, 10) {
			n = 25 + r.Intn(20)
		}
		cutProb := []int{0, 4, 8, 15}[r.Intn(4)]
		ops := genOps(r, variant >= 2, n, cutProb, (i/4)%4 == 3)
		var classes []string
		for _, o := range ops {
			classes = append(classes, o.class)
			meta.Hit("op-" + o.class)
		}
		before := meta.Dist["out-recoded"] + meta.Dist["out-newchunk"] + meta.Dist["caller-hist-rewritten"]
		cf.Add(runDirect(id, r, variant, ops, meta, desc{Mode: 0, Variant: variantName[variant], Seed: f.Seed, Index: i, Ops: len(ops), Classes: classes, Shape: "direct-" + variantName[variant]}))
		if meta.Dist["out-recoded"]+meta.Dist["out-newchunk"]+meta.Dist["caller-hist-rewritten"] > before {
			meta.Nontrivial++
		}
		meta.Hit("mode0-" + variantName[variant])
		meta.Evaluations++
		id++
	}
	for i := 0; i < nHead; i++ {
		r := gen.Fork(f.Seed, 1_000_000+i)
		float := i%2 == 1
		n := 15 + r.Intn(40)
		ops := genOps(r, float, n, 0, false)
		before := meta.Dist["head-multi-chunk"]
		s, ok := runHead(id, r, float, ops, f.Out, meta, desc{Mode: 1, Variant: kindS(float), Seed: f.Seed, Index: 1_000_000 + i, Ops: len(ops), Shape: "head-" + kindS(float)})
		if !ok {
			continue
		}
		cf.Add(s)
		if meta.Dist["head-multi-chunk"] > before {
			meta.Nontrivial++
		}
		meta.Hit("mode1-" + kindS(float))
		meta.Evaluations++
		id++
	}
	for i := 0; i < nComp; i++ {
		r := gen.Fork(f.Seed, 2_000_000+i)
		cf.Add(runComponents(id, r, meta, desc{Mode: 2, Seed: f.Seed, Index: 2_000_000 + i, Shape: "components"}))
		meta.Hit("mode2-components")
		meta.Evaluations++
		id++
	}
	// mode 3: transaction-level cases. Every ordered pair and triple of flavours on one series in one
	// Commit (quick: each through Appender or AppenderV2 alternately; thorough: through both), plus
	// random longer transactions over two series.
	env := &txEnv{out: f.Out}
	var seqs [][]int
	for a := 0; a < 5; a++ {
		for b := 0; b < 5; b++ {
			seqs = append(seqs, []int{a, b})
			for c := 0; c < 5; c++ {
				seqs = append(seqs, []int{a, b, c})
			}
		}
	}
	for i, fls := range seqs {
		for k := 0; k < 2; k++ {
			v2 := k == 1
			if f.Tier != "thorough" && (i+int(f.Seed))%2 != k {
				continue
			}
			samples := flavourSeq(fls, 0)
			api := "Appender"
			if v2 {
				api = "AppenderV2"
			}
			cf.Add(runTx(id, env, v2, samples, meta, desc{Mode: 3, Variant: api, Seed: f.Seed, Index: 4_000_000 + i, Ops: len(samples), Shape: "tx-" + api, Note: seqName(samples)}))
			meta.Hit("mode3-" + api)
			if len(fls) == 2 {
				meta.Hit("tx-pair")
			} else {
				meta.Hit("tx-triple")
			}
			meta.Nontrivial++
			meta.Evaluations++
			id++
		}
	}
	for i := 0; i < f.Count(20, 400); i++ {
		r := gen.Fork(f.Seed, 5_000_000+i)
		n := 3 + r.Intn(6)
		var samples []txSample
		for j := 0; j < n; j++ {
			fl := r.Intn(5)
			v, h, fh := txValue(fl, j)
			samples = append(samples, txSample{ser: r.Intn(2), t: int64(1000 * (j + 1)), fl: fl, v: v, h: h, fh: fh})
		}
		v2 := r.Bool()
		api := "Appender"
		if v2 {
			api = "AppenderV2"
		}
		cf.Add(runTx(id, env, v2, samples, meta, desc{Mode: 3, Variant: api, Seed: f.Seed, Index: 5_000_000 + i, Ops: n, Shape: "tx-" + api, Note: seqName(samples)}))
		meta.Hit("mode3-" + api)
		meta.Hit("tx-random-two-series")
		meta.Nontrivial++
		meta.Evaluations++
		id++
	}
	env.close()
	cf.Flush()
	_ = strings.Join
	meta.Write(f.Out)
}

package main

// Type-directed generator of PromQL query strings: mostly type-correct, with injected type
// errors (an expression of another type, wrong arity, forbidden modifiers). Syntax is valid by
// construction; the rare syntax-level rejection is detected by the two-phase parse and counted.

import (
	"fmt"
	"sort"
	"strings"

	"github.com/prometheus/prometheus/promql/parser"

	"verif/harness/internal/gen"
)

type qgen struct {
	pOdd  int // per-mille chance of an odd numeric duration
	pExp  int // per-mille chance of experimental syntax (anchored/smoothed, duration expressions, fill)
	r     *gen.Rand
	pBad  int // per-mille chance of a type error at a typed hole
	pPar  int // per-mille chance of wrapping a hole in parentheses
	funcs []string
}

func newQGen(r *gen.Rand) *qgen {
	g := &qgen{r: r}
	g.pBad = gen.Pick(r, []int{0, 0, 0, 15, 40, 120})
	g.pPar = gen.Pick(r, []int{0, 60, 150, 300})
	g.pExp = gen.Pick(r, []int{0, 0, 0, 100, 300})
	g.pOdd = gen.Pick(r, []int{0, 0, 50, 150, 500})
	for n := range parser.Functions {
		g.funcs = append(g.funcs, n)
	}
	sort.Strings(g.funcs)
	return g
}

func (g *qgen) pm(p int) bool { return g.r.Intn(1000) < p }

var tyAll = []parser.ValueType{parser.ValueTypeScalar, parser.ValueTypeVector, parser.ValueTypeMatrix, parser.ValueTypeString}

// hole generates an expression for a position that expects type t.
func (g *qgen) hole(t parser.ValueType, d int) string {
	if g.pm(g.pBad) {
		t = gen.Pick(g.r, tyAll)
	}
	s := g.gen(t, d)
	for g.pm(g.pPar) {
		s = "(" + s + ")"
	}
	return s
}

func (g *qgen) gen(t parser.ValueType, d int) string {
	switch t {
	case parser.ValueTypeScalar:
		return g.scalar(d)
	case parser.ValueTypeVector:
		return g.vector(d)
	case parser.ValueTypeMatrix:
		return g.matrix(d)
	default:
		return g.str()
	}
}

var numLits = []string{"0", "1", "2", "3", "0.5", "-1", "0.9", "1.5", "NaN", "Inf", "-Inf", "1e308", "1e-320", "0x10", "100", "1e18", "1e19", "-0", "5m", "9223372036854775807"}

var strLits = []string{`"a"`, `"le"`, `"job"`, `"instance"`, `"dst"`, `"__name__"`, `"bad-name"`, `""`, `"(.*)"`, `"("`, `"$1"`, `"i.*"`, `"q"`, `'x'`, `"\xff"`, `"version"`}

func (g *qgen) str() string { return gen.Pick(g.r, strLits) }

var arith = []string{"+", "-", "*", "/", "%", "^", "atan2"}
var cmps = []string{"==", "!=", "<", ">", "<=", ">="}
var sets = []string{"and", "or", "unless"}
var trims = []string{"</", ">/"}

func (g *qgen) scalar(d int) string {
	if d <= 0 {
		return gen.Pick(g.r, numLits)
	}
	switch g.r.Intn(12) {
	case 0, 1, 2, 3:
		return gen.Pick(g.r, numLits)
	case 4:
		return "scalar(" + g.hole(parser.ValueTypeVector, d-1) + ")"
	case 5:
		return gen.Pick(g.r, []string{"time()", "pi()", "start()", "end()", "range()", "step()"})
	case 6, 7:
		return g.hole(parser.ValueTypeScalar, d-1) + " " + gen.Pick(g.r, arith) + " " + g.hole(parser.ValueTypeScalar, d-1)
	case 8:
		b := " bool "
		if g.pm(g.pBad + 20) {
			b = " "
		}
		return g.hole(parser.ValueTypeScalar, d-1) + " " + gen.Pick(g.r, cmps) + b + g.hole(parser.ValueTypeScalar, d-1)
	case 9:
		return gen.Pick(g.r, []string{"-", "+"}) + g.hole(parser.ValueTypeScalar, d-1)
	case 10:
		return "(" + g.scalar(d-1) + ")"
	default:
		return g.call(parser.ValueTypeScalar, d)
	}
}

var metrics = []string{"foo", "bar", "many", "cbk_bucket", "nh", "lf", "cnh", "h", "mixed", "cb", "b_bucket", "target_info", "foo_total", "dup", "nothing"}

func (g *qgen) matchers() string {
	var ms []string
	for g.r.Chance(1, 3) && len(ms) < 3 {
		ms = append(ms, gen.Pick(g.r, []string{`job="a"`, `job=~"a|b"`, `job!="a"`, `instance!~"i1"`, `le="+Inf"`, `x=""`, `job=~".*"`, `__name__=~"foo|bar|h"`, `__name__="foo"`, `nolabel!="z"`}))
	}
	return strings.Join(ms, ",")
}

var durExprs = []string{"step()", "step()+1ms", "5m*2", "max_of(step(),1m)", "min_of(range(),2m)", "(1m+30s)", "1m-2m", "range()", "1m/0", "2^3", "10m%3m"}

func (g *qgen) dur() string {
	if g.pm(g.pOdd) {
		return gen.Pick(g.r, oddDurs)
	}
	if g.pm(g.pExp) {
		return gen.Pick(g.r, durExprs)
	}
	return gen.Pick(g.r, durs)
}

func (g *qgen) mods() string {
	s := ""
	if g.pm(g.pExp / 2) {
		s += " " + gen.Pick(g.r, []string{"anchored", "smoothed"})
	}
	if g.r.Chance(1, 5) {
		if g.pm(g.pOdd) {
			s += " offset " + gen.Pick(g.r, []string{"0.0004", "0.0005", "0.001", "1e-9", "-0.0005", "-0.001", "1e9", "-1e9", "0.5"})
		} else if g.pm(g.pExp) {
			s += " offset " + gen.Pick(g.r, durExprs)
		} else {
			s += " offset " + gen.Pick(g.r, []string{"1m", "30s", "-1m", "10m", "0s", "1h"})
		}
	}
	if g.r.Chance(1, 5) {
		s += " @ " + gen.Pick(g.r, []string{"100", "300.5", "start()", "end()", "0", "1000"})
	}
	return s
}

func (g *qgen) selector() string {
	m := gen.Pick(g.r, metrics)
	ms := g.matchers()
	switch {
	case g.r.Chance(1, 10):
		// nameless selector (may violate the non-empty matcher rule)
		if ms == "" {
			ms = gen.Pick(g.r, []string{`job="a"`, `x=""`, `job=~".*"`, `__name__="foo"`})
		}
		return "{" + ms + "}"
	case ms != "":
		return m + "{" + ms + "}"
	}
	return m
}

var durs = []string{"30s", "1m", "2m", "5m", "15s", "1ms", "10m", "1h"}

// odd numeric durations (seconds): below the engine's millisecond resolution, exactly at it, huge
var oddDurs = []string{"0.0004", "0.0005", "0.001", "1e-9", "0.0015", "0.5", "1e9", "4e9", "300", "1e-3"}

// (range, step) pairs for subqueries with odd steps; ranges are kept short where the step is 1ms
var oddSub = [][2]string{{"1m", "0.0004"}, {"1m", "0.0005"}, {"5m", "1e-9"}, {"0.01", "0.001"}, {"2", "0.001"}, {"0.001", "0.001"},
	{"0.0004", "0.0004"}, {"1m", "0.00099"}, {"30s", "0.5"}, {"5m", "1e9"}, {"1e3", "1e2"}, {"0.0005", ""}, {"1e-9", ""}, {"600", "0.0004"}, {"1m", "7.0005"}}

func (g *qgen) matrix(d int) string {
	if d > 0 && g.r.Chance(1, 3) {
		step := ""
		if g.r.Bool() {
			step = gen.Pick(g.r, []string{"15s", "30s", "1m", "7s"})
		}
		if g.pm(g.pOdd) {
			rs := gen.Pick(g.r, oddSub)
			return g.hole(parser.ValueTypeVector, d-1) + "[" + rs[0] + ":" + rs[1] + "]" + g.mods()
		}
		if step != "" && g.pm(g.pExp) {
			step = gen.Pick(g.r, durExprs)
		}
		rg := g.dur()
		if rg == "1e9" || rg == "4e9" { // millions of subquery steps: keep huge ranges for selectors
			rg = "300"
		}
		return g.hole(parser.ValueTypeVector, d-1) + "[" + rg + ":" + step + "]" + g.mods()
	}
	return g.selector() + "[" + g.dur() + "]" + g.mods()
}

var aggPlain = []string{"sum", "avg", "min", "max", "count", "group", "stddev", "stdvar"}
var aggParam = []string{"topk", "bottomk", "quantile", "limitk", "limit_ratio"}

func (g *qgen) grouping() string {
	if g.r.Chance(1, 2) {
		return ""
	}
	ls := []string{}
	for g.r.Chance(2, 3) && len(ls) < 3 {
		ls = append(ls, gen.Pick(g.r, []string{"job", "instance", "le", "__name__", "x", "g"}))
	}
	return " " + gen.Pick(g.r, []string{"by", "without"}) + " (" + strings.Join(ls, ",") + ") "
}

func (g *qgen) vmatch(setop bool) string {
	if g.r.Chance(3, 5) {
		return ""
	}
	ls := []string{}
	for g.r.Chance(2, 3) && len(ls) < 2 {
		ls = append(ls, gen.Pick(g.r, []string{"job", "instance", "le"}))
	}
	if g.pm(g.pExp) {
		return gen.Pick(g.r, []string{"fill(0) ", "fill_left(1) ", "fill_right(NaN) ", "on(job) fill(Inf) ", "on(job) group_left fill_right(0) "})
	}
	s := gen.Pick(g.r, []string{"on", "ignoring"}) + "(" + strings.Join(ls, ",") + ")"
	if (!setop && g.r.Chance(1, 3)) || g.pm(g.pBad) {
		inc := ""
		if g.r.Chance(1, 3) {
			inc = "(" + gen.Pick(g.r, []string{"x", "job", "version"}) + ")"
		}
		s += " " + gen.Pick(g.r, []string{"group_left", "group_right"}) + inc
	}
	return s + " "
}

func (g *qgen) vector(d int) string {
	if d <= 0 {
		return g.selector() + g.mods()
	}
	switch g.r.Intn(16) {
	case 0, 1, 2:
		return g.selector() + g.mods()
	case 3, 4: // vector-vector
		op := gen.Pick(g.r, append(append(append([]string{}, arith...), cmps...), trims...))
		b := ""
		if g.r.Chance(1, 4) {
			b = "bool "
		}
		return g.hole(parser.ValueTypeVector, d-1) + " " + op + " " + b + g.vmatch(false) + g.hole(parser.ValueTypeVector, d-1)
	case 5:
		return g.hole(parser.ValueTypeVector, d-1) + " " + gen.Pick(g.r, sets) + " " + g.vmatch(true) + g.hole(parser.ValueTypeVector, d-1)
	case 6, 7: // vector-scalar
		op := gen.Pick(g.r, append(append(append([]string{}, arith...), cmps...), trims...))
		b := ""
		if g.r.Chance(1, 4) {
			b = "bool "
		}
		if g.pm(g.pBad) {
			op = gen.Pick(g.r, sets)
		}
		if g.r.Bool() {
			return g.hole(parser.ValueTypeVector, d-1) + " " + op + " " + b + g.hole(parser.ValueTypeScalar, d-1)
		}
		return g.hole(parser.ValueTypeScalar, d-1) + " " + op + " " + b + g.hole(parser.ValueTypeVector, d-1)
	case 8, 9: // aggregation
		gr := g.grouping()
		body := g.hole(parser.ValueTypeVector, d-1)
		var op, args string
		switch g.r.Intn(6) {
		case 0, 1, 2:
			op, args = gen.Pick(g.r, aggPlain), body
		case 3, 4:
			op, args = gen.Pick(g.r, aggParam), g.hole(parser.ValueTypeScalar, d-1)+", "+body
		default:
			op, args = "count_values", g.hole(parser.ValueTypeString, d-1)+", "+body
		}
		if g.r.Bool() {
			return op + gr + "(" + args + ")"
		}
		return op + "(" + args + ")" + gr
	case 10:
		return gen.Pick(g.r, []string{"-", "+"}) + g.hole(parser.ValueTypeVector, d-1)
	case 11:
		return "(" + g.vector(d-1) + ")"
	default:
		return g.call(parser.ValueTypeVector, d)
	}
}

// call generates a call of a function with the wanted return type.
func (g *qgen) call(ret parser.ValueType, d int) string {
	var f *parser.Function
	for tries := 0; ; tries++ {
		f = parser.Functions[gen.Pick(g.r, g.funcs)]
		if f.ReturnType == ret || tries > 50 {
			break
		}
	}
	return g.callOf(f, d)
}

func (g *qgen) callOf(f *parser.Function, d int) string {
	n := len(f.ArgTypes)
	switch {
	case f.Variadic > 0:
		n = n - 1 + g.r.Intn(f.Variadic+1)
	case f.Variadic < 0:
		n = n - 1 + g.r.Intn(4)
	}
	if g.pm(g.pBad) {
		n += g.r.Intn(3) - 1
		if n < 0 {
			n = 0
		}
	}
	args := make([]string, n)
	for i := range args {
		t := parser.ValueTypeVector
		if len(f.ArgTypes) > 0 {
			j := i
			if j >= len(f.ArgTypes) {
				j = len(f.ArgTypes) - 1
			}
			t = f.ArgTypes[j]
		}
		if f.Name == "info" && i == 1 {
			// label selectors only; sometimes with modifiers, a name, or parentheses
			s := "{" + gen.Pick(g.r, []string{`version="v1"`, `rev=~".+"`, `__name__="build_info"`, `__name__!="x"`, `x=""`}) + "}"
			if g.r.Chance(1, 6) {
				s += gen.Pick(g.r, []string{" @ 100", " @ end()", " offset 1m"})
			}
			if g.pm(g.pBad) {
				s = gen.Pick(g.r, []string{"target_info", "(" + s + ")", "1"})
			}
			args[i] = s
			continue
		}
		args[i] = g.hole(t, d-1)
	}
	return f.Name + "(" + strings.Join(args, ", ") + ")"
}

// histInput: an expression yielding classic buckets and/or native histograms whose series appear
// and disappear over the query range.
func (g *qgen) histInput() string {
	m := gen.Pick(g.r, []string{"cbk_bucket", "cbk_bucket", "cbk_bucket", "nh", "nh", "cnh", "b_bucket", "h", "mixed", "cb"})
	sel := m
	if g.r.Chance(1, 3) {
		sel += "{" + gen.Pick(g.r, []string{`job="a"`, `job=~"a|c"`, `instance="i0"`, `le!="1.0"`, `le=~"1|10|.Inf"`, `job!="b"`}) + "}"
	}
	rng := gen.Pick(g.r, []string{"1m", "2m", "5m", "30s", "10m"})
	switch g.r.Intn(12) {
	case 0, 1, 2, 3:
		return sel
	case 4:
		return "rate(" + sel + "[" + rng + "])"
	case 5:
		return gen.Pick(g.r, []string{"increase", "delta", "irate", "last_over_time", "sum_over_time", "avg_over_time"}) + "(" + sel + "[" + rng + "])"
	case 6:
		return "sum by (le, job) (" + sel + ")"
	case 7:
		return "sum by (le) (rate(" + sel + "[" + rng + "]))"
	case 8:
		return "sum without (instance) (" + sel + ")"
	case 9:
		return sel + " offset " + gen.Pick(g.r, []string{"1m", "5m", "-2m", "30s"})
	case 10:
		return "(" + sel + " or " + gen.Pick(g.r, []string{"nh", "cbk_bucket", "cnh"}) + ")"
	default:
		return sel + " " + gen.Pick(g.r, []string{"* 2", "> 3", "+ 0", "unless cbk_bucket{le=\"+Inf\"}", "and on (job) lf"})
	}
}

func (g *qgen) q() string {
	return gen.Pick(g.r, []string{"0.5", "0.9", "0", "1", "0.99", "-1", "2", "NaN", "scalar(lf{job=\"a\",instance=\"i0\"}) / 100", "Inf"})
}

// histQuery: one of the histogram functions over a histInput, possibly nested once.
func (g *qgen) histQuery() string {
	in := g.histInput()
	var s string
	switch g.r.Intn(10) {
	case 0, 1:
		s = "histogram_quantile(" + g.q() + ", " + in + ")"
	case 2, 3:
		s = "histogram_fraction(" + gen.Pick(g.r, []string{"0", "-Inf", "0.5", "1", "NaN"}) + ", " + gen.Pick(g.r, []string{"1", "10", "+Inf", "0.2", "-1"}) + ", " + in + ")"
	case 4, 5:
		n := 1 + g.r.Intn(3)
		qs := make([]string, n)
		for i := range qs {
			qs[i] = g.q()
		}
		s = "histogram_quantiles(" + in + ", " + gen.Pick(g.r, []string{`"q"`, `"quantile"`, `"le"`, `"job"`}) + ", " + strings.Join(qs, ", ") + ")"
	default:
		s = gen.Pick(g.r, []string{"histogram_count", "histogram_sum", "histogram_avg", "histogram_stddev", "histogram_stdvar"}) + "(" + in + ")"
	}
	switch g.r.Intn(8) {
	case 0:
		return "sum by (job) (" + s + ")"
	case 1:
		return s + " + on (job, instance) group_left lf"
	case 2:
		return "max_over_time((" + s + ")[3m:30s])"
	case 3:
		return "-" + s
	}
	return s
}

// top generates a whole query.
func (g *qgen) top() string {
	d := 1 + g.r.Intn(4)
	switch g.r.Intn(20) {
	case 0, 1, 2:
		return g.hole(parser.ValueTypeScalar, d)
	case 3, 4:
		return g.hole(parser.ValueTypeMatrix, d)
	case 5:
		return g.hole(parser.ValueTypeString, d)
	case 6, 7, 8, 9: // every function gets its turn
		f := parser.Functions[gen.Pick(g.r, g.funcs)]
		return g.callOf(f, d)
	case 11, 12: // histogram functions over series that appear and disappear
		return g.histQuery()
	case 10: // aggregation whose parameter is a nested expression (unwrapped but not preprocessed)
		p := "scalar(" + g.hole(parser.ValueTypeVector, d) + ")"
		return fmt.Sprintf("%s(%s, %s)", gen.Pick(g.r, aggParam), p, g.hole(parser.ValueTypeVector, 1))
	default:
		return g.hole(parser.ValueTypeVector, d)
	}
}

package main

// Projection of the real parser AST (before checkAST, and after promql.PreprocessExpr) onto the
// Gallina type model.PromqlTyping.expr. Node ids are derived from source positions so that the
// same node gets the same id in both projections.

import (
	"fmt"
	"sort"
	"strings"

	"github.com/prometheus/prometheus/model/labels"
	"github.com/prometheus/prometheus/promql/parser"
)

type unmodelled struct{ what string }

func b(v bool) string {
	if v {
		return "true"
	}
	return "false"
}

func nodeID(n parser.Node) string {
	p := n.PositionRange()
	return fmt.Sprintf("%d%%Z", int64(p.Start)*100000+int64(p.End))
}

func vtypeTerm(t parser.ValueType) string {
	switch t {
	case parser.ValueTypeScalar:
		return "TScalar"
	case parser.ValueTypeVector:
		return "TVector"
	case parser.ValueTypeMatrix:
		return "TMatrix"
	case parser.ValueTypeString:
		return "TString"
	}
	return "TNone"
}

func vselTerm(v *parser.VectorSelector) string {
	if v.Anchored || v.Smoothed {
		panic(unmodelled{"anchored/smoothed"})
	}
	if v.OriginalOffsetExpr != nil {
		panic(unmodelled{"duration expression"})
	}
	named := v.Name != ""
	dup, nonEmpty := false, false
	ms := v.LabelMatchers
	if named && len(ms) > 0 {
		for _, m := range ms[:len(ms)-1] {
			if m != nil && m.Name == labels.MetricName {
				dup = true
			}
		}
	}
	for _, m := range ms {
		if m != nil && !m.Matches("") {
			nonEmpty = true
		}
	}
	at := v.Timestamp != nil || v.StartOrEnd != 0
	return fmt.Sprintf("(mkVS %s %s %s %s)", b(named), b(dup), b(nonEmpty), b(at))
}

func opClass(op parser.ItemType) string {
	switch {
	case op.IsComparisonOperator():
		return "OCmp"
	case op.IsSetOperator():
		return "OSet"
	case op.IsOperator():
		return "OArith"
	}
	panic(unmodelled{"operator"})
}

func aggClass(op parser.ItemType) string {
	switch op {
	case parser.TOPK, parser.BOTTOMK, parser.QUANTILE, parser.LIMITK, parser.LIMIT_RATIO:
		return "AParam"
	case parser.COUNT_VALUES:
		return "ACountValues"
	}
	if !op.IsAggregator() {
		panic(unmodelled{"aggregator"})
	}
	return "APlain"
}

func vmTerm(vm *parser.VectorMatching) string {
	if vm == nil {
		return "(mkVM false false false false)"
	}
	clash := false
	if vm.On {
		for _, l1 := range vm.MatchingLabels {
			for _, l2 := range vm.Include {
				if l1 == l2 {
					clash = true
				}
			}
		}
	}
	group := vm.Card == parser.CardOneToMany || vm.Card == parser.CardManyToOne
	fill := vm.FillValues.LHS != nil || vm.FillValues.RHS != nil
	return fmt.Sprintf("(mkVM %s %s %s %s)", b(len(vm.MatchingLabels) > 0), b(clash), b(group), b(fill))
}

func term(e parser.Expr) string {
	switch n := e.(type) {
	case *parser.NumberLiteral:
		return "ENum"
	case *parser.StringLiteral:
		return "EStr"
	case *parser.VectorSelector:
		return fmt.Sprintf("(EVec %s %s)", nodeID(n), vselTerm(n))
	case *parser.MatrixSelector:
		if n.RangeExpr != nil {
			panic(unmodelled{"duration expression"})
		}
		return fmt.Sprintf("(EMat %s %s)", nodeID(n), vselTerm(n.VectorSelector.(*parser.VectorSelector)))
	case *parser.SubqueryExpr:
		if n.RangeExpr != nil || n.StepExpr != nil || n.OriginalOffsetExpr != nil {
			panic(unmodelled{"duration expression"})
		}
		return fmt.Sprintf("(ESub %s %s %s)", nodeID(n), b(n.Timestamp != nil || n.StartOrEnd != 0), term(n.Expr))
	case *parser.ParenExpr:
		return "(EParen " + term(n.Expr) + ")"
	case *parser.UnaryExpr:
		if n.Op != parser.ADD && n.Op != parser.SUB {
			panic(unmodelled{"unary operator"})
		}
		return fmt.Sprintf("(EUn %s %s)", nodeID(n), term(n.Expr))
	case *parser.BinaryExpr:
		return fmt.Sprintf("(EBin %s %s %s %s %s %s)", nodeID(n), opClass(n.Op), b(n.ReturnBool), vmTerm(n.VectorMatching), term(n.LHS), term(n.RHS))
	case *parser.AggregateExpr:
		p := "None"
		if n.Param != nil {
			p = "(Some " + term(n.Param) + ")"
		}
		return fmt.Sprintf("(EAgg %s %s %s %s)", nodeID(n), aggClass(n.Op), p, term(n.Expr))
	case *parser.Call:
		args := make([]string, len(n.Args))
		for i, a := range n.Args {
			args[i] = term(a)
		}
		return fmt.Sprintf("(ECall %s \"%s\" [%s])", nodeID(n), n.Func.Name, strings.Join(args, "; "))
	case *parser.StepInvariantExpr:
		return "(EStepInv " + term(n.Expr) + ")"
	}
	panic(unmodelled{fmt.Sprintf("%T", e)})
}

// project returns the term, or ok=false if the AST uses a construct outside the model.
func project(e parser.Expr) (s string, ok bool) {
	defer func() {
		if r := recover(); r != nil {
			if _, is := r.(unmodelled); is {
				s, ok = "", false
				return
			}
			panic(r)
		}
	}()
	return term(e), true
}

// hasParamQuirk reports whether an aggregation parameter contains a parenthesised call
// argument or a parenthesised count_values parameter (finding agg-param-not-preprocessed).
func hasParamQuirk(e parser.Expr) bool {
	found := false
	var inParam func(n parser.Expr)
	inParam = func(n parser.Expr) {
		parser.Inspect(n, func(x parser.Node, _ []parser.Node) error {
			switch c := x.(type) {
			case *parser.Call:
				for _, a := range c.Args {
					if _, ok := a.(*parser.ParenExpr); ok {
						found = true
					}
				}
			case *parser.AggregateExpr:
				if _, ok := c.Param.(*parser.ParenExpr); ok {
					found = true
				}
			}
			return nil
		})
	}
	parser.Inspect(e, func(x parser.Node, _ []parser.Node) error {
		if a, ok := x.(*parser.AggregateExpr); ok && a.Param != nil {
			p := a.Param
			for {
				pp, ok := p.(*parser.ParenExpr)
				if !ok {
					break
				}
				p = pp.Expr
			}
			inParam(p)
		}
		return nil
	})
	return found
}

// hasEmptyQuantileLabel reports a histogram_quantiles call whose label argument is the empty
// string (finding histogram-quantiles-empty-label-name).
func hasEmptyQuantileLabel(e parser.Expr) bool {
	found := false
	parser.Inspect(e, func(x parser.Node, _ []parser.Node) error {
		if c, ok := x.(*parser.Call); ok && c.Func.Name == "histogram_quantiles" && len(c.Args) > 1 {
			a := c.Args[1]
			for {
				pp, ok := a.(*parser.ParenExpr)
				if !ok {
					break
				}
				a = pp.Expr
			}
			if sl, ok := a.(*parser.StringLiteral); ok && sl.Val == "" {
				found = true
			}
		}
		return nil
	})
	return found
}

// hasBareExtendedMatrix reports an anchored/smoothed matrix selector that is not the argument of
// a call, i.e. is evaluated by evaluator.matrixSelector (finding extended-matrix-selector-empty-window).
func hasBareExtendedMatrix(e parser.Expr) bool {
	found := false
	parser.Inspect(e, func(x parser.Node, path []parser.Node) error {
		ms, ok := x.(*parser.MatrixSelector)
		if !ok {
			return nil
		}
		vs, ok := ms.VectorSelector.(*parser.VectorSelector)
		if !ok || !(vs.Anchored || vs.Smoothed) {
			return nil
		}
		for i := len(path) - 1; i >= 0; i-- {
			switch path[i].(type) {
			case *parser.ParenExpr, *parser.StepInvariantExpr:
				continue
			case *parser.Call:
				return nil
			}
			break
		}
		found = true
		return nil
	})
	return found
}

// ---- function table --------------------------------------------------------------------------

func tableTerm(fns map[string]*parser.Function, impl func(string) bool) string {
	names := make([]string, 0, len(fns))
	for n := range fns {
		names = append(names, n)
	}
	sort.Strings(names)
	items := make([]string, len(names))
	for i, n := range names {
		f := fns[n]
		ts := make([]string, len(f.ArgTypes))
		for j, t := range f.ArgTypes {
			ts[j] = vtypeTerm(t)
		}
		v := fmt.Sprintf("%d", f.Variadic)
		if f.Variadic < 0 {
			v = fmt.Sprintf("(%d)", f.Variadic)
		}
		items[i] = fmt.Sprintf("(\"%s\", mkSig [%s] %s %s %s)", n, strings.Join(ts, "; "), v, vtypeTerm(f.ReturnType), b(impl(n)))
	}
	return "[" + strings.Join(items, ";\n  ") + "]"
}

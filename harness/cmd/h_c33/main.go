// h_c33: harness for C33 (query evaluation never fails internally; typing; concurrency).
//
// For every generated query string it (1) runs the two phases of the real parser separately
// (grammar, checkAST) through the export shim and projects the AST before checkAST, (2) runs the
// real promql.PreprocessExpr and projects the result, (3) evaluates the query as an instant and
// as a range query through the real promql.Engine over generated mixed float / histogram /
// stale / NaN / Inf data, classifying the outcome as value(type) / user error / internal error /
// rejected, (4) re-evaluates all queries concurrently in the same engines and compares with the
// serial results. Coq then compares typing verdict, preprocessing and fault prediction with
// model.PromqlTyping (agree) and evaluates the property on the observations (holds).
package main

import (
	"context"
	"fmt"
	"log/slog"
	"math"
	"os"
	"runtime"
	"sort"
	"strings"
	"sync"
	"time"

	"github.com/prometheus/prometheus/model/histogram"
	"github.com/prometheus/prometheus/promql"
	"github.com/prometheus/prometheus/promql/parser"

	"verif/harness/internal/gallina"
	"verif/harness/internal/gen"
)

// all experimental syntax is enabled; anchored/smoothed selectors and duration expressions are
// outside the Coq model (such queries are judged on the Go side only), fill modifiers are modelled
var popts = parser.Options{EnableExperimentalFunctions: true, ExperimentalDurationExpr: true,
	EnableExtendedRangeSelectors: true, EnableBinopFillModifiers: true}

func newEngine(variant int) *promql.Engine {
	o := promql.EngineOpts{
		Logger:                   engineLogger(),
		MaxSamples:               200000,
		Timeout:                  300 * time.Second,
		NoStepSubqueryIntervalFn: func(int64) int64 { return 30000 },
		EnableAtModifier:         true,
		EnableNegativeOffset:     true,
		LookbackDelta:            5 * time.Minute,
		Parser:                   parser.NewParser(popts),
	}
	switch variant {
	case 1:
		o.EnableDelayedNameRemoval = true
		o.EnableTypeAndUnitLabels = true
		o.UseStartTimestamps = true
	case 2:
		o.MaxSamples = 150
	}
	return promql.NewEngine(o)
}

// engineLogger: stack traces of recovered runtime panics go to stderr in replay mode only.
func engineLogger() *slog.Logger {
	if os.Getenv("VERIF_C33_QUERY") == "" {
		return nil
	}
	return slog.New(slog.NewTextHandler(os.Stderr, nil))
}

// replay runs one query (env VERIF_C33_QUERY) on every data set and engine configuration of the
// given seed and prints the outcomes: the reproducer for a reported case.
func replay(q string, seed uint64) {
	for di := 0; di < 6; di++ {
		d := genDataset(gen.Fork(seed, 1000000+di))
		for ei := 0; ei < 3; ei++ {
			ng := newEngine(ei)
			for _, ts := range []int64{0, 100000, 300000, 450000, 600000, 1200000, 333333, -5000} {
				c := &qcase{q: q, ts: ts, rs: ts - 60000, step: 15000, nsteps: 4}
				io := runOne(ng, d, c, true)
				ro := runOne(ng, d, c, false)
				if io.class == clInternal || ro.class == clInternal {
					fmt.Printf("dataset %d engine %d ts %d: instant: %s | range: %s\n", di, ei, ts, obsStr(io), obsStr(ro))
					return
				}
			}
		}
	}
	fmt.Println("no internal error reproduced")
}

// ---- observations ----------------------------------------------------------------------------

const (
	clValue    = 0
	clUser     = 1
	clInternal = 2
	clRejected = 3
)

type entry struct {
	key string
	f   float64
	h   string
}

type runObs struct {
	class int
	vt    parser.ValueType
	msg   string
	res   []entry
}

var internalMarks = []string{
	"unexpected error:", "unhandled expression of type", "unexpected result in StepInvariantExpr",
	"unexpected number of samples", "cannot do range evaluation of matrix selector",
	"unexpected nil implementation", "promql.Engine.exec:", "found unexpected node", "unhandled node type",
	"harness: panic",
}

func isInternal(msg string) bool {
	for _, m := range internalMarks {
		if strings.Contains(msg, m) {
			return true
		}
	}
	return false
}

func hstr(h *histogram.FloatHistogram) string {
	return fmt.Sprintf("H(%.9g,%.9g,%d,%d)", h.Count, h.Sum, len(h.PositiveBuckets), len(h.NegativeBuckets))
}

func canon(v parser.Value) []entry {
	var out []entry
	switch r := v.(type) {
	case promql.Vector:
		for _, s := range r {
			e := entry{key: fmt.Sprintf("%s@%d", s.Metric.String(), s.T), f: s.F}
			if s.H != nil {
				e.h = hstr(s.H)
			}
			out = append(out, e)
		}
	case promql.Matrix:
		for _, s := range r {
			for _, p := range s.Floats {
				out = append(out, entry{key: fmt.Sprintf("%s@%d", s.Metric.String(), p.T), f: p.F})
			}
			for _, p := range s.Histograms {
				out = append(out, entry{key: fmt.Sprintf("%s@%d", s.Metric.String(), p.T), h: hstr(p.H)})
			}
		}
	case promql.Scalar:
		out = append(out, entry{key: fmt.Sprintf("scalar@%d", r.T), f: r.V})
	case promql.String:
		out = append(out, entry{key: "string:" + r.V})
	}
	sort.SliceStable(out, func(i, j int) bool { return out[i].key < out[j].key })
	return out
}

func feq(a, b float64) bool {
	if math.IsNaN(a) || math.IsNaN(b) {
		return math.IsNaN(a) && math.IsNaN(b)
	}
	if a == b {
		return true
	}
	d := math.Abs(a - b)
	return d <= 1e-9*math.Max(math.Abs(a), math.Abs(b)) || d <= 1e-300
}

func sameObs(a, b runObs) bool {
	if a.class != b.class || a.vt != b.vt || len(a.res) != len(b.res) {
		return false
	}
	if a.class != clValue {
		// error texts may list colliding series in map order: only the class is compared
		return true
	}
	for i := range a.res {
		if a.res[i].key != b.res[i].key || a.res[i].h != b.res[i].h || !feq(a.res[i].f, b.res[i].f) {
			return false
		}
	}
	return true
}

type qcase struct {
	q          string
	ds, eng    int
	ts         int64
	rs, step   int64
	nsteps     int
	corpus     string
	synErr     error
	typErr     error
	rootType   parser.ValueType
	term, pre  string
	modelled   bool
	inst, rng  runObs
	selRej     bool // storage was reached although the query was rejected
	concSame   bool
	unstable   bool
	orderDep   bool
	paramQuirk bool
	emptyQLbl  bool
	bareExt    bool
}

func runOne(ng *promql.Engine, d *dataset, c *qcase, instant bool) (o runObs) {
	defer func() {
		if r := recover(); r != nil {
			o = runObs{class: clInternal, msg: fmt.Sprintf("harness: panic escaped the engine: %v", r)}
		}
	}()
	var (
		qry promql.Query
		err error
	)
	ctx := context.Background()
	if instant {
		qry, err = ng.NewInstantQuery(ctx, d, nil, c.q, time.UnixMilli(c.ts))
	} else {
		qry, err = ng.NewRangeQuery(ctx, d, nil, c.q, time.UnixMilli(c.rs), time.UnixMilli(c.rs+int64(c.nsteps-1)*c.step), time.Duration(c.step)*time.Millisecond)
	}
	if err != nil {
		cl := clRejected
		if isInternal(err.Error()) {
			cl = clInternal
		}
		return runObs{class: cl, msg: err.Error()}
	}
	defer qry.Close()
	t0 := time.Now()
	res := qry.Exec(ctx)
	if el := time.Since(t0); el > 300*time.Millisecond && os.Getenv("VERIF_C33_SLOW") != "" {
		fmt.Fprintf(os.Stderr, "slow %v instant=%v steps=%d step=%d: %s\n", el, instant, c.nsteps, c.step, c.q)
	}
	if res.Err != nil {
		cl := clUser
		if isInternal(res.Err.Error()) {
			cl = clInternal
		}
		return runObs{class: cl, msg: res.Err.Error()}
	}
	return runObs{class: clValue, vt: res.Value.Type(), res: canon(res.Value)}
}

func runTerm(o runObs) string {
	return fmt.Sprintf("(mkRun %d %s)", o.class, vtypeTerm(o.vt))
}

// ---- main ------------------------------------------------------------------------------------

type desc struct {
	Query   string `json:"query"`
	Dataset int    `json:"dataset"`
	Engine  int    `json:"engine"`
	TS      int64  `json:"instant_ts_ms"`
	RStart  int64  `json:"range_start_ms"`
	RStep   int64  `json:"range_step_ms"`
	NSteps  int    `json:"range_steps"`
	Typing  string `json:"typing"`
	Instant string `json:"instant"`
	Range   string `json:"range"`
	Shape   string `json:"shape"`
	Corpus  string `json:"corpus,omitempty"`
}

func obsStr(o runObs) string {
	switch o.class {
	case clValue:
		return fmt.Sprintf("value %s (%d points)", o.vt, len(o.res))
	case clUser:
		return "user error: " + o.msg
	case clInternal:
		return "INTERNAL: " + o.msg
	}
	return "rejected: " + o.msg
}

var corpus = [][2]string{
	{"agg-param-paren-string", `topk(scalar(label_replace(foo, ("a"), "b", "c", "d")), foo)`},
	{"agg-param-paren-matrix", `topk(scalar(rate((foo[1m]))), foo)`},
	{"agg-param-paren-sortlabel", `quantile(scalar(sort_by_label(foo, ("a"))), foo)`},
	{"agg-param-paren-countvalues", `topk(scalar(count_values(("a"), foo)), foo)`},
	{"info-at-selector", `info(foo, {version="v1"} @ 100)`},
	{"info-ok", `info(foo, {version="v1"})`},
	{"paren-args-ok", `label_replace((foo), ("a"), "b", ("job"), "(.*)")`},
	{"paren-matrix-ok", `rate(((foo[1m])))`},
	{"count-values-paren-ok", `count_values(("v"), foo)`},
	{"string-toplevel", `"a"`},
	{"paren-string-toplevel", `(("a"))`},
	{"matrix-toplevel", `foo[1m]`},
	{"subquery-toplevel", `(foo > 1)[2m:30s] @ 300`},
	{"stepinv-matrix", `rate(foo[1m] @ 300)`},
	{"stepinv-binop", `foo @ 100 + bar @ start()`},
	{"scalar-funcs", `clamp(foo, scalar(bar), time()) + vector(pi())`},
	{"histogram", `histogram_quantile(0.9, rate(h[2m])) + histogram_fraction(0, 1, h)`},
	{"classic-histogram", `histogram_quantile(0.5, b_bucket)`},
	{"mixed", `sum(mixed) / avg_over_time(mixed[5m])`},
	{"ill-unary-string", `-"a"`},
	{"ill-binop-matrix", `foo[1m] + 1`},
	{"ill-scalar-cmp", `1 > 2`},
	{"ill-arity", `clamp(foo)`},
	{"ill-agg-param", `topk(foo, foo)`},
	{"ill-subquery-scalar", `1[5m:1m]`},
	{"ill-call-arg", `rate(foo)`},
	{"ill-set-scalar", `foo and 1`},
	{"ill-info-named", `info(foo, target_info)`},
	{"ill-empty-matcher", `{x=""}`},
	{"ill-name-twice", `foo{__name__="bar"}`},
	{"many-to-many", `foo + on(job) bar`},
	{"dup-labelset", `label_replace(foo, "instance", "", "instance", ".*")`},
	{"bad-regex", `label_replace(foo, "a", "b", "c", "(")`},
	{"ctx-functions", `foo * step() + range() - start() + end()`},
	{"ts-special", `timestamp(foo @ 100) + timestamp((foo)) + timestamp(timestamp(foo))`},
	{"absent", `absent_over_time(nothing[1m]) or absent(nothing{job="a"})`},
	{"sort-label", `sort_by_label(foo, "job", "instance")`},
	{"hq-multi", `histogram_quantiles(h, "q", 0.5, 0.9)`},
	{"stress-agg", `sum by (g) (many)`},
	{"stress-agg-without", `avg without (i) (many * 2)`},
	{"stress-count-values", `count_values by (g) ("v", many)`},
	{"stress-quantile", `quantile by (g) (0.9, rate(many[2m]))`},
	{"stress-binop", `many + on (g, i) group_left many`},
	{"stress-binop-agg", `sum by (g) (many) / on (g) count by (g) (many)`},
	{"stress-over-time", `max by (g) (avg_over_time(many[5m])) - min by (g) (min_over_time(many[5m]))`},
	{"stress-subquery", `sum by (g) (max_over_time((many > 0)[3m:30s]))`},
	{"stress-label-replace", `count by (x) (label_replace(many, "x", "$1", "i", "(.).*"))`},
	{"stress-stddev", `stddev by (g) (many) + stdvar by (g) (many)`},
	{"stress-set", `(many and on (g) many{i="1"}) or many{g="g3"}`},
	{"stress-sort", `sort_desc(sum by (i) (many))`},
	{"bare-anchored-empty-window", `foo[1m] anchored`},
	{"bare-smoothed-empty-window", `(foo[10m] smoothed @ end())`},
	{"call-anchored", `increase(foo[1m] anchored) + rate(foo[2m] smoothed)`},
	{"fill-modifier", `foo + on(job, instance) fill(0) bar`},
	{"duration-expr", `rate(foo[step()+1m]) + foo offset (1m*2)`},
	{"merge-float-hist-stepinv", `-{__name__=~"foo|h"} @ 100`},
	{"merge-float-float", `-{__name__=~"foo|bar"} @ 100`},
	{"life-hfraction-classic", `histogram_fraction(0, 1, cbk_bucket)`},
	{"life-hfraction-classic-rate", `histogram_fraction(0, 10, rate(cbk_bucket[1m]))`},
	{"life-hquantile-classic", `histogram_quantile(0.9, cbk_bucket)`},
	{"life-hquantile-sum-rate", `histogram_quantile(0.5, sum by (le, job) (rate(cbk_bucket[2m])))`},
	{"life-hquantiles-classic", `histogram_quantiles(cbk_bucket, "q", 0.5, 0.99)`},
	{"life-hquantiles-native", `histogram_quantiles(nh, "q", 0.1, 0.9)`},
	{"life-hfraction-native", `histogram_fraction(0, 2, nh) + histogram_quantile(0.5, nh)`},
	{"life-hstats-native", `histogram_count(nh) + histogram_sum(nh) + histogram_avg(nh) + histogram_stddev(nh) + histogram_stdvar(nh)`},
	{"life-hstats-classic", `histogram_count(cbk_bucket) or histogram_sum(cbk_bucket) or histogram_avg(cbk_bucket)`},
	{"life-mixed-classic-native", `histogram_quantile(0.9, cnh) or histogram_fraction(0, 1, cnh) or histogram_quantiles(cnh, "q", 0.5)`},
	{"life-subquery", `max_over_time(histogram_fraction(0, 1, cbk_bucket)[5m:30s])`},
	{"odd-substep-below-ms", `sum_over_time(foo[1m:0.0004])`},
	{"odd-substep-half-ms", `sum_over_time(foo[1m:0.0005]) + count_over_time(foo[2:0.001])`},
	{"odd-range-below-ms", `count_over_time(foo[0.0004]) + rate(foo[1e-9]) + last_over_time(foo[0.001])`},
	{"odd-offset", `foo offset 0.0004 + foo offset -0.0005 + foo offset 1e9 + sum_over_time(foo[1m:1e9] offset 0.001)`},
	{"odd-toplevel-subquery", `foo[0.01:0.001] offset 1e-9`},
	{"hq-empty-label", `-histogram_quantiles(h, "", 0.5)`},
	{"hq-empty-label-classic", `-histogram_quantiles(b_bucket, "", 0.5, 0.9)`},
	{"agg-param-varies-expr-invariant", `topk(scalar(foo{job="a",instance="i0"}) / 10, foo @ 300)`},
	{"agg-param-at-start", `quantile(scalar(foo{job="a",instance="i0"} @ start()) / 100, bar)`},
}

func main() {
	f := gallina.ParseFlags()
	if q := os.Getenv("VERIF_C33_QUERY"); q != "" {
		replay(q, f.Seed)
		return
	}
	meta := gallina.NewMeta("C33", f.Seed, f.Tier)
	meta.Rule = "corpus of reproducers and typing edge cases first, then queries from a type-directed grammar generator (all of parser.Functions incl. experimental, aggregations, binary operators with matching modifiers, subqueries, @/offset, parentheses) with injected type errors (per-mille rate drawn per case from {0,0,0,15,40,120}); each runs as instant and as range query on one of 6 generated data sets in one of 3 engine configurations, then again concurrently; non-trivial = syntactically valid query with at least one operator/call/aggregation node; distinct by query string"
	cf := &gallina.CaseFile{Dir: f.Out, Type: "case", PerShard: 2500,
		Preamble: "From Coq Require Import List ZArith String.\nFrom Verif Require Import model.PromqlTyping corr.CorrC33.\nImport ListNotations.\nOpen Scope string_scope.\nOpen Scope Z_scope.\n",
		Footer:   gallina.StdFooter}

	nq := f.Count(1500, 60000)
	const nds = 6
	dsets := make([]*dataset, nds)
	for i := range dsets {
		dsets[i] = genDataset(gen.Fork(f.Seed, 1000000+i))
	}
	failing := &dataset{failSel: true}
	engines := []*promql.Engine{newEngine(0), newEngine(1), newEngine(2)}
	dataOf := func(c *qcase) *dataset {
		if c.ds < 0 {
			return failing
		}
		return dsets[c.ds]
	}

	// ---- build the list of cases
	var cases []*qcase
	seen := map[string]bool{}
	addCase := func(r *gen.Rand, q, corp string) {
		if seen[q] {
			return
		}
		seen[q] = true
		c := &qcase{q: q, corpus: corp, ds: r.Intn(nds), eng: gen.Pick(r, []int{0, 0, 0, 1, 1, 2})}
		if r.Chance(1, 60) {
			c.ds = -1
		}
		c.ts = gen.Pick(r, []int64{0, 100000, 300000, 450000, 600000, 1200000, 333333, -5000})
		c.rs = gen.Pick(r, []int64{0, 90000, 300000, 600000, -30000})
		c.step = gen.Pick(r, []int64{15000, 30000, 60000, 7000, 1})
		c.nsteps = 1 + r.Intn(9)
		if strings.Contains(q, "histogram_") || strings.HasPrefix(corp, "life-") || r.Chance(1, 12) {
			// a long range query over the whole grid of the life-cycle metrics (0 .. 20 min and
			// beyond), so that series start, end, go stale and pause between its steps
			c.rs = gen.Pick(r, []int64{0, 0, 15000, -60000, 240000})
			c.step = gen.Pick(r, []int64{15000, 30000, 60000, 45000, 120000})
			c.nsteps = 12 + r.Intn(40)
			c.ts = gen.Pick(r, []int64{c.ts, 150000, 700000, 900000})
		}
		if strings.HasPrefix(corp, "life-") { // the whole grid, every second scrape
			c.rs, c.step, c.nsteps = 0, 30000, 44
		}
		cases = append(cases, c)
	}
	for i, q := range corpus {
		addCase(gen.Fork(f.Seed, i), q[1], q[0])
	}
	for i := 0; len(cases) < nq+len(corpus) && i < 20*nq; i++ {
		r := gen.Fork(f.Seed, 1000+i)
		addCase(r, newQGen(r).top(), "")
	}

	// ---- parse (two phases), project, preprocess
	for _, c := range cases {
		var before string
		var ok bool
		_, syn, typ := parser.VerifParseC33(c.q, popts, func(e parser.Expr) { before, ok = project(e) })
		c.synErr, c.typErr = syn, typ
		if syn != nil {
			continue
		}
		c.modelled = ok
		c.term = before
		e2, err := parser.NewParser(popts).ParseExpr(c.q)
		if (err != nil) != (typ != nil) {
			meta.GoViol = append(meta.GoViol, gallina.GoViolation{ID: c.q, Shape: "parser-phases-disagree", What: fmt.Sprintf("ParseExpr err=%v, shim type err=%v", err, typ)})
		}
		if err == nil {
			c.rootType = e2.Type()
			c.paramQuirk = hasParamQuirk(e2)
			c.emptyQLbl = hasEmptyQuantileLabel(e2)
			c.bareExt = hasBareExtendedMatrix(e2)
			ll := strings.ToLower(c.q)
			c.orderDep = strings.Contains(ll, "topk") || strings.Contains(ll, "bottomk") || strings.Contains(ll, "limitk")
			func() {
				defer func() {
					if r := recover(); r != nil {
						c.pre = "None"
						meta.GoViol = append(meta.GoViol, gallina.GoViolation{ID: c.q, Shape: "preprocess-panic", What: fmt.Sprint(r)})
					}
				}()
				pe, perr := promql.PreprocessExpr(e2, time.UnixMilli(c.ts), time.UnixMilli(c.ts), 0)
				if perr != nil {
					c.pre = "None"
					return
				}
				if s, ok := project(pe); ok {
					c.pre = "(Some " + s + ")"
				} else {
					c.modelled = false
				}
			}()
		} else {
			c.pre = "None"
		}
	}

	// ---- serial evaluation (twice, to know which results are reproducible at all)
	for _, c := range cases {
		d := dataOf(c)
		before := d.selects.Load()
		c.inst = runOne(engines[c.eng], d, c, true)
		c.rng = runOne(engines[c.eng], d, c, false)
		if (c.synErr != nil || c.typErr != nil) && d.selects.Load() != before {
			c.selRej = true
		}
		i2 := runOne(engines[c.eng], d, c, true)
		r2 := runOne(engines[c.eng], d, c, false)
		if !sameObs(c.inst, i2) || !sameObs(c.rng, r2) {
			c.unstable = true
		}
		c.concSame = true
	}

	// ---- concurrent evaluation in the same engines
	workers := 2 * runtime.GOMAXPROCS(0)
	if workers < 8 {
		workers = 8
	}
	rounds := 3
	stressReps := 40
	var mu sync.Mutex
	var suspects []*qcase
	for round := 0; round < rounds; round++ {
		order := make([]int, len(cases))
		for i := range order {
			order[i] = i
		}
		// the wide "stress" queries are repeated so that many of them overlap
		for i, c := range cases {
			if strings.HasPrefix(c.corpus, "stress-") {
				for k := 0; k < stressReps; k++ {
					order = append(order, i)
				}
			}
		}
		rr := gen.Fork(f.Seed, 5000000+round)
		for i := len(order) - 1; i > 0; i-- {
			j := rr.Intn(i + 1)
			order[i], order[j] = order[j], order[i]
		}
		ch := make(chan int)
		var wg sync.WaitGroup
		for w := 0; w < workers; w++ {
			wg.Add(1)
			go func() {
				defer wg.Done()
				for i := range ch {
					c := cases[i]
					d := dataOf(c)
					io := runOne(engines[c.eng], d, c, true)
					ro := runOne(engines[c.eng], d, c, false)
					bad := io.class == clInternal || ro.class == clInternal
					if !c.unstable && !c.orderDep && (!sameObs(c.inst, io) || !sameObs(c.rng, ro)) {
						bad = true
					}
					if bad {
						mu.Lock()
						suspects = append(suspects, c)
						if io.class == clInternal && c.inst.class != clInternal {
							c.inst = io
						}
						if ro.class == clInternal && c.rng.class != clInternal {
							c.rng = ro
						}
						mu.Unlock()
					}
				}
			}()
		}
		for _, i := range order {
			ch <- i
		}
		close(ch)
		wg.Wait()
	}
	for _, c := range suspects {
		// confirm serially once more: a result that also varies serially is not a concurrency effect
		d := dataOf(c)
		i3 := runOne(engines[c.eng], d, c, true)
		r3 := runOne(engines[c.eng], d, c, false)
		if c.inst.class == clInternal || c.rng.class == clInternal {
			continue // reported through the class
		}
		if sameObs(c.inst, i3) && sameObs(c.rng, r3) {
			c.concSame = false
		} else {
			c.unstable = true
		}
	}

	// ---- function table case (id 0)
	cf.Add(fmt.Sprintf("mkCase 0 1 ENum %s true TNone None 0%%nat (mkRun 0 TNone) (mkRun 0 TNone) false true",
		tableTerm(parser.Functions, func(n string) bool { return promql.FunctionCalls[n] != nil })))
	meta.Case(0, desc{Query: "<function table: parser.Functions + promql.FunctionCalls>", Shape: "function-table"})
	meta.Evaluations++

	// ---- emit
	id := 1
	for _, c := range cases {
		internal := c.inst.class == clInternal || c.rng.class == clInternal
		shape := "ok"
		msg := c.inst.msg + " | " + c.rng.msg
		switch {
		case internal && c.paramQuirk && (strings.Contains(msg, "*parser.ParenExpr, not") || strings.Contains(msg, "cannot do range evaluation of matrix selector")):
			shape = "agg-param-not-preprocessed"
		case internal && strings.Contains(msg, "*parser.StepInvariantExpr, not *parser.VectorSelector"):
			shape = "info-selector-step-invariant-wrapped"
		case internal && c.emptyQLbl && strings.Contains(msg, "index out of range [0] with length 0"):
			shape = "histogram-quantiles-empty-label-name"
		case internal && c.bareExt && strings.Contains(msg, "index out of range"):
			shape = "extended-matrix-selector-empty-window"
		case internal && strings.Contains(msg, "unexpected number of samples") && !strings.Contains(msg, "unexpected error:"):
			// StepInvariantExpr over a series that mergeSeriesWithSameLabelset built from a float
			// and a histogram series with one labelset
			shape = "same-labelset-float-histogram-merge"
		case internal:
			shape = "internal-error"
		case !c.concSame:
			shape = "concurrent-differs-from-serial"
		case c.selRej:
			shape = "rejected-query-reached-storage"
		}
		typing := "ok:" + string(c.rootType)
		switch {
		case c.synErr != nil:
			typing = "syntax error"
		case c.typErr != nil:
			typing = "type error"
		}
		dsc := desc{Query: c.q, Dataset: c.ds, Engine: c.eng, TS: c.ts, RStart: c.rs, RStep: c.step, NSteps: c.nsteps,
			Typing: typing, Instant: obsStr(c.inst), Range: obsStr(c.rng), Shape: shape, Corpus: c.corpus}
		// distribution
		meta.Hit("typing:" + typing)
		meta.Hit("instant:" + []string{"value", "user-error", "internal", "rejected"}[c.inst.class])
		meta.Hit("range:" + []string{"value", "user-error", "internal", "rejected"}[c.rng.class])
		if c.unstable {
			meta.Hit("serially-unstable(not compared concurrently)")
		}
		if c.orderDep {
			meta.Hit("tie-order-dependent(not compared concurrently)")
		}
		if c.ds < 0 {
			meta.Hit("failing-storage")
		}
		if strings.ContainsAny(c.q, "(+-*/") {
			meta.Nontrivial++
		}
		meta.Evaluations++
		if c.synErr != nil || !c.modelled {
			// outside the model: judged on the Go side only
			meta.Hit("go-side-only")
			if internal || !c.concSame || c.selRej {
				meta.GoViol = append(meta.GoViol, gallina.GoViolation{ID: c.q, Shape: shape, What: dsc.Instant + " / " + dsc.Range})
			}
			continue
		}
		ok := c.typErr == nil
		pre := c.pre
		if pre == "" {
			pre = "None"
		}
		cf.Add(fmt.Sprintf("mkCase %d 0 %s [] %s %s %s %d%%nat %s %s %s %s",
			id, c.term, b(ok), vtypeTerm(c.rootType), pre, c.nsteps, runTerm(c.inst), runTerm(c.rng), b(c.selRej), b(c.concSame)))
		meta.Case(id, dsc)
		id++
	}
	meta.Notes = append(meta.Notes, "absence of runtime faults in unmodelled glue and independence of concurrently evaluated queries are established by these generated runs only (testing), not by the Coq theorems")
	cf.Flush()
	meta.Write(f.Out)
	if len(os.Getenv("VERIF_C33_DUMPTAB")) > 0 {
		fmt.Println(tableTerm(parser.Functions, func(n string) bool { return promql.FunctionCalls[n] != nil }))
	}
}

package main

import (
	"context"
	"fmt"
	"os"
	"time"

	"github.com/prometheus/prometheus/model/labels"
	"github.com/prometheus/prometheus/promql"
	"github.com/prometheus/prometheus/promql/parser"
	"github.com/prometheus/prometheus/storage"
	"github.com/prometheus/prometheus/tsdb/chunkenc"
	"github.com/prometheus/prometheus/tsdb/chunks"
	"github.com/prometheus/prometheus/model/histogram"
	"github.com/prometheus/prometheus/util/annotations"
)

type fs struct {
	t int64
	f float64
}

func (c fs) T() int64                    { return c.t }
func (c fs) ST() int64                   { return 0 }
func (c fs) F() float64                  { return c.f }
func (fs) H() *histogram.Histogram       { return nil }
func (fs) FH() *histogram.FloatHistogram { return nil }
func (fs) Type() chunkenc.ValueType      { return chunkenc.ValFloat }
func (c fs) Copy() chunks.Sample         { return c }

type listSet struct {
	ss []storage.Series
	i  int
}

func (o *listSet) Next() bool                       { o.i++; return o.i <= len(o.ss) }
func (o *listSet) At() storage.Series               { return o.ss[o.i-1] }
func (*listSet) Err() error                         { return nil }
func (*listSet) Warnings() annotations.Annotations  { return nil }

func main() {
	var l []chunks.Sample
	for i := int64(0); i < 20; i++ {
		l = append(l, fs{i * 15000, float64(i)})
	}
	q := &storage.MockQueryable{MockQuerier: &storage.MockQuerier{
		SelectMockFunction: func(_ bool, _ *storage.SelectHints, ms ...*labels.Matcher) storage.SeriesSet {
			return &listSet{ss: []storage.Series{storage.NewListSeries(labels.FromStrings("__name__", "foo", "a", "x"), l)}}
		}}}
	ng := promql.NewEngine(promql.EngineOpts{MaxSamples: 1000000, Timeout: 100 * time.Second,
		NoStepSubqueryIntervalFn: func(int64) int64 { return 60000 }, EnableAtModifier: true, EnableNegativeOffset: true,
		LookbackDelta: 5 * time.Minute, Parser: parser.NewParser(parser.Options{EnableExperimentalFunctions: true})})
	for _, qs := range os.Args[1:] {
		qry, err := ng.NewInstantQuery(context.Background(), q, nil, qs, time.UnixMilli(200000))
		if err != nil {
			fmt.Printf("%s\n  NEW-ERR %v\n", qs, err)
			continue
		}
		res := qry.Exec(context.Background())
		fmt.Printf("%s\n  INSTANT err=%v val=%v\n", qs, res.Err, res.Value)
		qry.Close()
		qry, err = ng.NewRangeQuery(context.Background(), q, nil, qs, time.UnixMilli(100000), time.UnixMilli(200000), 30*time.Second)
		if err != nil {
			fmt.Printf("  RANGE NEW-ERR %v\n", err)
			continue
		}
		res = qry.Exec(context.Background())
		fmt.Printf("  RANGE err=%v val=%v\n", res.Err, res.Value)
		qry.Close()
	}
}

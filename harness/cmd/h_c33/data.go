package main

// In-memory data sets served to the real promql engine: mixed float / native histogram /
// custom-bucket histogram / stale / NaN / Inf series, classic histogram buckets and an info metric.

import (
	"context"
	"fmt"
	"math"
	"sort"
	"sync/atomic"

	"github.com/prometheus/prometheus/model/histogram"
	"github.com/prometheus/prometheus/model/labels"
	"github.com/prometheus/prometheus/model/value"
	"github.com/prometheus/prometheus/storage"
	"github.com/prometheus/prometheus/tsdb/chunkenc"
	"github.com/prometheus/prometheus/tsdb/chunks"
	"github.com/prometheus/prometheus/tsdb/tsdbutil"
	"github.com/prometheus/prometheus/util/annotations"

	"verif/harness/internal/gen"
)

type smp struct {
	t  int64
	st int64
	f  float64
	h  *histogram.Histogram
	fh *histogram.FloatHistogram
}

func (c smp) T() int64   { return c.t }
func (c smp) ST() int64  { return c.st }
func (c smp) F() float64 { return c.f }
func (c smp) H() *histogram.Histogram {
	if c.h == nil {
		return nil
	}
	return c.h.Copy() // the engine may keep or modify what an iterator hands out
}

func (c smp) FH() *histogram.FloatHistogram {
	if c.fh == nil {
		if c.h != nil {
			return c.h.ToFloat(nil) // chunk iterators convert integer histograms on AtFloatHistogram
		}
		return nil
	}
	return c.fh.Copy()
}

func (c smp) Type() chunkenc.ValueType {
	switch {
	case c.h != nil:
		return chunkenc.ValHistogram
	case c.fh != nil:
		return chunkenc.ValFloatHistogram
	}
	return chunkenc.ValFloat
}
func (c smp) Copy() chunks.Sample { return c }

type series struct {
	lset labels.Labels
	smps []chunks.Sample
}

type dataset struct {
	series  []series
	selects atomic.Int64 // number of Select calls (to see that rejected queries never reach storage)
	failSel bool         // Select returns a storage error
}

type listSet struct {
	ss  []storage.Series
	i   int
	err error
}

func (o *listSet) Next() bool                      { o.i++; return o.err == nil && o.i <= len(o.ss) }
func (o *listSet) At() storage.Series              { return o.ss[o.i-1] }
func (o *listSet) Err() error                      { return o.err }
func (*listSet) Warnings() annotations.Annotations { return nil }

type errStorage struct{}

func (errStorage) Error() string { return "verif: injected storage failure" }

type querier struct{ d *dataset }

func (q querier) Select(_ context.Context, _ bool, _ *storage.SelectHints, ms ...*labels.Matcher) storage.SeriesSet {
	q.d.selects.Add(1)
	if q.d.failSel {
		return &listSet{err: errStorage{}}
	}
	var out []storage.Series
	for _, s := range q.d.series {
		ok := true
		for _, m := range ms {
			if !m.Matches(s.lset.Get(m.Name)) {
				ok = false
				break
			}
		}
		if ok {
			out = append(out, storage.NewListSeries(s.lset, s.smps))
		}
	}
	return &listSet{ss: out}
}

func (querier) LabelValues(context.Context, string, *storage.LabelHints, ...*labels.Matcher) ([]string, annotations.Annotations, error) {
	return nil, nil, nil
}

func (querier) LabelNames(context.Context, *storage.LabelHints, ...*labels.Matcher) ([]string, annotations.Annotations, error) {
	return nil, nil, nil
}
func (querier) Close() error { return nil }

func (d *dataset) Querier(int64, int64) (storage.Querier, error) { return querier{d}, nil }

// ---- generation ----------------------------------------------------------------------------

var specialFloats = []float64{math.NaN(), math.Inf(1), math.Inf(-1), 0, math.Copysign(0, -1), 1e308, -1e308, 5e-324, 1, -1}

func genFloats(r *gen.Rand, n int, kind int) []float64 {
	out := make([]float64, n)
	cur := float64(r.Intn(100))
	for i := range out {
		switch kind {
		case 0: // counter with occasional reset
			if r.Chance(1, 12) {
				cur = float64(r.Intn(5))
			} else {
				cur += float64(r.Intn(20))
			}
			out[i] = cur
		case 1: // gauge
			out[i] = float64(r.Range(-50, 50)) / 4
		default: // hostile
			if r.Chance(1, 3) {
				out[i] = gen.Pick(r, specialFloats)
			} else {
				out[i] = float64(r.Range(-1000, 1000)) / 8
			}
		}
	}
	return out
}

const scrape = 15000

func genSeries(r *gen.Rand, lset labels.Labels, kind string, n int, t0 int64) series {
	var l []chunks.Sample
	t := t0
	fl := genFloats(r, n, r.Intn(3))
	hbase := int64(r.Intn(5))
	for i := 0; i < n; i++ {
		t += scrape
		if r.Chance(1, 15) {
			t += scrape * int64(1+r.Intn(30)) // gap (beyond lookback sometimes)
		}
		s := smp{t: t}
		if r.Chance(1, 2) {
			s.st = t - scrape
		}
		k := kind
		if kind == "mixed" {
			k = gen.Pick(r, []string{"float", "hist", "fhist", "cbh"})
		}
		if r.Chance(1, 14) {
			k = "stale"
		}
		switch k {
		case "float":
			s.f = fl[i]
		case "stale":
			s.f = math.Float64frombits(value.StaleNaN)
		case "hist":
			if r.Chance(1, 10) {
				hbase = int64(r.Intn(3)) // counter reset
			} else {
				hbase += int64(r.Intn(4))
			}
			h := tsdbutil.GenerateTestHistogram(hbase)
			if r.Chance(1, 6) {
				h.CounterResetHint = histogram.GaugeType
			}
			if r.Chance(1, 8) {
				h.Schema = int32(r.Range(-2, 4))
			}
			s.h = h
		case "fhist":
			hbase += int64(r.Intn(4))
			fh := tsdbutil.GenerateTestFloatHistogram(hbase)
			if r.Chance(1, 6) {
				fh.CounterResetHint = histogram.GaugeType
			}
			if r.Chance(1, 8) {
				fh.Sum = gen.Pick(r, specialFloats)
			}
			s.fh = fh
		case "cbh":
			hbase += int64(r.Intn(4))
			s.fh = tsdbutil.GenerateTestCustomBucketsFloatHistogram(hbase)
		}
		l = append(l, s)
	}
	return series{lset: lset, smps: l}
}

// ---- series with a life cycle ------------------------------------------------------------------
// Fixed grid of lifeN scrapes (0 .. lifeN*15s = 20 min). A life cycle says at which grid points a
// series has a sample: it may start late, end early (optionally with a staleness marker right
// after its last sample) and have one gap longer than the 5 min lookback (optionally opened by a
// staleness marker). Range queries stepping over the grid see the series appear and disappear.
const lifeN = 80

type life struct {
	start, end       int // samples at grid points start <= i < end
	gapFrom, gapTo   int // no samples at gapFrom <= i < gapTo (gapFrom == gapTo: no gap)
	staleEnd, staleG bool
}

func genLife(r *gen.Rand) life {
	l := life{start: 0, end: lifeN}
	if r.Chance(1, 2) {
		l.start = 1 + r.Intn(30)
	}
	if r.Chance(1, 2) {
		l.end = 45 + r.Intn(30)
	}
	if r.Chance(1, 2) {
		l.gapFrom = l.start + 3 + r.Intn(15)
		l.gapTo = l.gapFrom + 22 + r.Intn(14) // 330 s .. 525 s: around and beyond the lookback
	}
	l.staleEnd, l.staleG = r.Bool(), r.Bool()
	return l
}

func (l life) has(i int) bool {
	return i >= l.start && i < l.end && !(i >= l.gapFrom && i < l.gapTo)
}

// genLifeSeries: kind "classic" (counter value scale*(i+1)), "hist", "fhist", "cbh", "float".
func genLifeSeries(r *gen.Rand, lset labels.Labels, kind string, l life, scale float64) series {
	var out []chunks.Sample
	stale := func(i int) {
		out = append(out, smp{t: int64(i) * scrape, f: math.Float64frombits(value.StaleNaN)})
	}
	hbase := int64(r.Intn(3))
	for i := 0; i < lifeN; i++ {
		if !l.has(i) {
			if i > 0 && l.has(i-1) && ((i == l.end && l.staleEnd) || (i == l.gapFrom && l.staleG)) {
				stale(i)
			}
			continue
		}
		s := smp{t: int64(i) * scrape}
		switch kind {
		case "classic", "float":
			s.f = scale * float64(i+1)
			if r.Chance(1, 25) {
				s.f = gen.Pick(r, specialFloats)
			}
		case "hist":
			hbase += int64(r.Intn(3))
			if r.Chance(1, 12) {
				hbase = 0
			}
			s.h = tsdbutil.GenerateTestHistogram(hbase)
		case "fhist":
			hbase += int64(r.Intn(3))
			s.fh = tsdbutil.GenerateTestFloatHistogram(hbase)
		case "cbh":
			hbase += int64(r.Intn(3))
			s.fh = tsdbutil.GenerateTestCustomBucketsFloatHistogram(hbase)
		}
		out = append(out, s)
	}
	return series{lset: lset, smps: out}
}

// addLifeMetrics adds cbk_bucket (classic histograms whose series appear and disappear, with
// duplicate spellings of le), nh (native histograms with life cycles), cnh (a classic and a
// native histogram under one name) and lf (floats with life cycles).
func addLifeMetrics(r *gen.Rand, d *dataset) {
	les := []struct {
		le    string
		scale float64
	}{{"0.1", 1}, {"1", 2}, {"1.0", 2}, {"10", 3}, {"1e1", 3}, {"+Inf", 4}, {"Inf", 4}}
	for _, j := range []string{"a", "b", "c"} {
		for _, in := range []string{"i0", "i1"} {
			grp := genLife(r) // the whole classic histogram shares a life cycle ...
			for _, le := range les {
				if (le.le == "1.0" || le.le == "1e1" || le.le == "Inf") && !r.Chance(1, 3) {
					continue
				}
				l := grp
				if r.Chance(1, 5) {
					l = genLife(r) // ... except for a straying bucket now and then
				}
				d.series = append(d.series, genLifeSeries(r, labels.FromStrings("__name__", "cbk_bucket", "job", j, "instance", in, "le", le.le), "classic", l, le.scale))
			}
			d.series = append(d.series, genLifeSeries(r, labels.FromStrings("__name__", "nh", "job", j, "instance", in), gen.Pick(r, []string{"hist", "fhist", "cbh"}), genLife(r), 1))
			d.series = append(d.series, genLifeSeries(r, labels.FromStrings("__name__", "lf", "job", j, "instance", in), "float", genLife(r), 1))
		}
		// one name carrying classic buckets and a native histogram, with independent life cycles
		for _, le := range []string{"1", "+Inf"} {
			d.series = append(d.series, genLifeSeries(r, labels.FromStrings("__name__", "cnh", "job", j, "le", le), "classic", genLife(r), 2))
		}
		d.series = append(d.series, genLifeSeries(r, labels.FromStrings("__name__", "cnh", "job", j), "hist", genLife(r), 1))
	}
}

// genDataset builds metrics foo (floats), bar (floats, hostile values), h (native histograms),
// mixed (floats and histograms in one series), b_bucket (classic histogram), target_info and
// build_info (info metrics), dup (series differing only in a label that functions drop).
func genDataset(r *gen.Rand) *dataset {
	d := &dataset{}
	t0 := int64(r.Intn(4)) * scrape
	n := 20 + r.Intn(40)
	add := func(kind string, kv ...string) {
		d.series = append(d.series, genSeries(r, labels.FromStrings(kv...), kind, n, t0))
	}
	jobs := []string{"a", "b"}
	insts := []string{"i0", "i1", "i2"}
	for _, j := range jobs {
		for k, in := range insts {
			if r.Chance(1, 6) {
				continue
			}
			add("float", "__name__", "foo", "job", j, "instance", in)
			if k < 2 {
				add("float", "__name__", "bar", "job", j, "instance", in, "x", "y")
			}
			if k < 2 {
				add(gen.Pick(r, []string{"hist", "fhist", "mixed"}), "__name__", "h", "job", j, "instance", in)
			}
		}
		add("mixed", "__name__", "mixed", "job", j)
		add(gen.Pick(r, []string{"cbh", "mixed"}), "__name__", "cb", "job", j)
		for _, le := range []string{"0.1", "1", "10", "+Inf"} {
			add("float", "__name__", "b_bucket", "job", j, "le", le)
		}
		add("float", "__name__", "target_info", "job", j, "instance", "i0", "version", "v1")
		add("float", "__name__", "build_info", "job", j, "instance", "i1", "rev", "r1")
	}
	if r.Chance(1, 2) {
		add("float", "__name__", "b_bucket", "job", "a", "le", "bogus")
	}
	// a wide metric: gives aggregations, binary operators and range functions enough work per
	// query for concurrently running queries to overlap inside them
	for i := 0; i < 160; i++ {
		add("float", "__name__", "many", "g", fmt.Sprintf("g%d", i%7), "i", fmt.Sprintf("%d", i))
	}
	addLifeMetrics(r, d)
	add("float", "__name__", "foo_total", "job", "a", "instance", "i0")
	add("float", "__name__", "dup", "job", "a", "__type__", "counter")
	add("float", "__name__", "dup2", "job", "a", "__type__", "counter")
	sort.Slice(d.series, func(i, j int) bool { return labels.Compare(d.series[i].lset, d.series[j].lset) < 0 })
	return d
}

// h_c06: correspondence harness for C06 (queries racing with compaction see each sample once).
//
// Per case: a real tsdb.DB gets a history of in-order and out-of-order samples (and, often, blocks
// from an earlier compaction); then one maintenance run (DB.Compact with or without block
// compaction, DB.CompactOOOHead, or a forced block merge) is executed in a goroutine that stops
// at every "c06." verifhook site.  Between the steps the scheduler creates queriers - their
// creation itself split at the sites inside DB.Querier -, iterates them, keeps some open across
// later steps, and closes them.  The emitted sequence of protocol events (with the payloads
// observed on the real database) and everything the queriers returned are written as Gallina
// terms: Coq validates the sequence as a trace of model/CompactRace.v and compares the results
// (`agree`), and evaluates the property on the results themselves (`holds`).
package main

import (
	"context"
	"encoding/json"
	"fmt"
	"math"
	"os"
	"path/filepath"
	"runtime/pprof"
	"sort"
	"strings"
	"sync"
	"time"

	"github.com/oklog/ulid/v2"
	"github.com/prometheus/prometheus/model/labels"
	"github.com/prometheus/prometheus/model/value"
	"github.com/prometheus/prometheus/storage"
	"github.com/prometheus/prometheus/tsdb"
	"github.com/prometheus/prometheus/tsdb/chunkenc"
	"github.com/prometheus/prometheus/util/verifhook"

	"verif/harness/internal/gallina"
	"verif/harness/internal/gen"
	"verif/harness/internal/tsdbx"
)

const blockRange = 100
const tOff = int64(1) << 20 // wire offset of timestamps (short literals: Coq parses numbers digit by digit)
const tClamp = int64(1) << 19

type smp struct{ sid, t, v int64 }

type event struct {
	tag  int
	args []int64 // plain numbers
	targ []int64 // timestamps (sent with offset)
}

const (
	tHWritten = iota
	tSwapped
	tBlockClosing
	tBlockClosed
	tTimePub
	tFlagSet
	tAwaited
	tMinSet
	tGcDone
	tHeadDone
	tOStart
	tOWritten
	tGcPub
	tOAwaited
	tODone
	tBWritten
	tQBegin
	tQOpenHead
	tQFinish
	tQIter
	tQClose
	tVWritten
	tVAwaited
	tVEvicted
)

type blk struct {
	id         int64
	mint, maxt int64
	samples    []int
	ptr        *tsdb.Block
	ulid       string
	closing    bool
}

type qry struct {
	id         int64
	mint, maxt int64
	act        *actor
	q          storage.Querier
	began      bool
	opened     bool
	created    bool
	closed     bool
	iterated   int
	held       []int64
	selected   bool // Select + series enumeration done, samples not yet read
	sel        []storage.Series
	chunk      bool // created through DB.ChunkQuerier (no sites inside: created in one piece)
	cq         storage.ChunkQuerier
	csel       []storage.ChunkSeries
}

type output struct {
	q   int64
	res []int
}

type desc struct {
	Shape    string   `json:"shape"`
	Program  string   `json:"program"`
	Hist     string   `json:"history"`
	Seed     uint64   `json:"seed"`
	Index    int      `json:"index"`
	Place    int      `json:"placement"`
	Trace    string   `json:"trace"`
	Problems []string `json:"problems,omitempty"`
}

type caseRun struct {
	idx  int
	r    *gen.Rand
	db   *tsdbx.DB
	dir  string
	prog string

	table   []smp
	index   map[smp]int
	nacked  int
	blocks  map[string]*blk // by ulid
	loaded  []*blk          // harness' copy of db.blocks (refreshed at every swap)
	nextBid int64
	gen     int64 // OOO compaction generation

	// initial model state
	headIno  []int
	headMint int64
	oooCh    [][]int
	oooRef   []int64 // 0 = head chunk
	oooMint  int64
	oooMaxt  int64
	initBlk  []*blk
	gcRef0   int64

	comp      *actor
	lastSite  string
	closingID int64
	qs        []*qry
	trace     []event
	names     []string
	outs      []output
	held      [][]int64 // (q, ids...)
	problems  []string
	dist      map[string]int
	midRun    int // querier actions while the maintenance run was in progress
	completed bool
	minT      int64
	maxT      int64
	perm      []int
	view      bool    // stale-series / selected-series compaction (compactHeadViewLocked + truncateSeries)
	viewSids  []int64 // series the compaction selects (those without out-of-order data)
	viewRefs  []storage.SeriesRef
	viewT     int64 // Head.MaxTime() at the start = the maxt handed to truncateSeries
	vWritten  int
	vAwaited  bool
	inclWait  bool    // truncateSeries was seen waiting for a reader with mint = viewT
	atMaxt    bool    // a querier with mint = viewT was open when the series were evicted
	hot       []int64 // block boundaries above the head's minimum time at the start: the truncation points
}

func clampT(t int64) int64 {
	if t > tClamp {
		return tClamp
	}
	if t < -tClamp {
		return -tClamp
	}
	return t
}

func (c *caseRun) sampleIndex(s smp) int {
	if i, ok := c.index[s]; ok {
		return i
	}
	c.index[s] = len(c.table)
	c.table = append(c.table, s)
	return len(c.table) - 1
}

func (c *caseRun) problem(f string, a ...any) {
	c.problems = append(c.problems, fmt.Sprintf(f, a...))
}

func (c *caseRun) emit(name string, tag int, args []int64, targ []int64) {
	c.trace = append(c.trace, event{tag, args, targ})
	c.names = append(c.names, name)
}

// valOf / floatOf: sample values are small positive integers; 0 stands for the staleness marker.
func valOf(f float64) int64 {
	if value.IsStaleNaN(f) {
		return 0
	}
	return int64(f)
}
func floatOf(v int64) float64 {
	if v == 0 {
		return math.Float64frombits(value.StaleNaN)
	}
	return float64(v)
}

// afterWaitInterleave: let the scheduler act between c06.truncateSeries.afterWait and the eviction.
var afterWaitInterleave = os.Getenv("C06_AFTERWAIT") == "1"

// inclusiveSeriesWait: does Head.truncateSeries wait for a reader whose mint equals its maxt?
// (decided once per process by probeInclusive on the tree under test)
var inclusiveSeriesWait bool

// probeInclusive runs CompactSelectedSeries on a tiny database with a querier [maxt, ...] open and
// looks whether the compaction parks in the reader wait of truncateSeries or returns.
func probeInclusive(root string) bool {
	dir, err := os.MkdirTemp(root, "probe")
	if err != nil {
		panic(err)
	}
	defer os.RemoveAll(dir)
	db, err := tsdbx.Open(dir, tsdbx.Options{BlockRange: blockRange})
	if err != nil {
		panic(err)
	}
	defer db.DB.Close()
	for _, t := range []int64{1000, 1050} {
		if _, err := db.Tx([]tsdbx.AppendReq{{Labels: lbl(0), T: t, V: 1}}, true); err != nil {
			panic(err)
		}
	}
	var refs []storage.SeriesRef
	for _, s := range db.HeadDump() {
		refs = append(refs, storage.SeriesRef(s.Ref))
	}
	q, err := db.DB.Querier(1050, 2000)
	if err != nil {
		panic(err)
	}
	a := spawn("probe", func() error { return db.DB.CompactSelectedSeries(refs) })
	a.resume <- struct{}{}
	incl, open := false, true
	for {
		t := time.NewTimer(5 * time.Millisecond)
		select {
		case <-a.hit:
			t.Stop()
			a.resume <- struct{}{}
			continue
		case <-a.fin:
			t.Stop()
			if open {
				q.Close()
			}
			return incl
		case <-t.C:
		}
		if !open {
			continue
		}
		st, fs := goroutineInfo(a.gid)
		if classify(st, fs) == "series.readers" {
			incl, open = true, false
			q.Close()
		}
	}
}

func lbl(sid int64) labels.Labels { return labels.FromStrings("a", fmt.Sprint(sid)) }

// ---- history -------------------------------------------------------------------------------

func (c *caseRun) appendOne(sid, t, v int64) bool {
	res, err := c.db.Tx([]tsdbx.AppendReq{{Labels: lbl(sid), T: t, V: floatOf(v)}}, true)
	if err != nil || len(res) != 1 || res[0] != tsdbx.OK {
		return false
	}
	c.sampleIndex(smp{sid, t, v})
	return true
}

// corpusHistory: two series with in-order data from 1000 and enough out-of-order samples around
// 700-900 to have m-mapped OOO chunks (cap 2) besides the OOO head chunks.
func (c *caseRun) corpusHistory() string {
	v := int64(1)
	for t := int64(1000); t <= 1330; t += 30 {
		for s := int64(0); s < 2; s++ {
			if c.appendOne(s, t+s, v) {
				v++
			}
		}
	}
	for i, t := range []int64{810, 790, 850, 705, 880, 760, 830} {
		if c.appendOne(int64(i%2), t, v) {
			v++
		}
	}
	c.nacked = len(c.table)
	return fmt.Sprintf("corpus(samples=%d)", len(c.table))
}

// corpusGcWindow is the fixed reproducer placement for out-of-order compactions: an older querier
// keeps truncateOOO parked in its reader wait; a second querier is created and Select'ed after
// the gc reference was published but before the collection; the collection then runs; only after
// the whole run the second querier reads its samples.
func (c *caseRun) corpusGcWindow() {
	until := func(site string) {
		for i := 0; i < 200 && !c.comp.done && !c.comp.parked && c.lastSite != site; i++ {
			c.advance(c.comp)
		}
	}
	full := func() *qry {
		q := c.newQuerierRange(c.minT-5, c.maxT+5)
		for !q.act.done && !q.act.parked {
			c.advance(q.act)
		}
		return q
	}
	until("c06.ooo.started")
	q1 := full() // older reader: registered with the previous gc reference
	until("c06.ooo.gcref_published")
	if c.lastSite != "c06.ooo.gcref_published" {
		c.problem("corpus: the run did not reach c06.ooo.gcref_published (at %q)", c.lastSite)
		return
	}
	q2 := full() // registered with the new reference: truncateOOO will not wait for it
	c.selectQ(q2)
	q3 := c.newChunkQuerier(c.minT-5, c.maxT+5) // the same placement on the ChunkQuerier path
	if q3 != nil {
		c.selectQ(q3)
	}
	c.advance(c.comp) // parks in WaitForPendingReadersForOOOChunksAtOrBefore because of q1
	if !c.comp.parked {
		c.dist["corpus:truncateOOO-did-not-wait"]++
	}
	c.iterate(q1)
	c.closeQ(q1)
	for i := 0; i < 200 && !c.comp.done && !c.comp.parked; i++ {
		c.advance(c.comp)
	}
	c.iterate(q2) // reads the chunks planned before the collection
	c.iterate(q2)
	c.closeQ(q2)
	if q3 != nil {
		c.iterate(q3)
		c.closeQ(q3)
	}
	c.dist["corpus:gc-window"]++
}

// viewHistory: 2-3 series of in-order samples; for "stale" some series end with a staleness marker
// (sometimes the newest sample of the head), for "selected" a subset is chosen later; one series
// may carry out-of-order data (such series are skipped by both compactions).
func (c *caseRun) viewHistory() string {
	r := c.r
	nser := int64(2 + r.Intn(2))
	base := r.PickI64(0, 1000, 1000, 300, -450)
	v := int64(1)
	used := map[[2]int64]bool{}
	add := func(sid, t, val int64) {
		if used[[2]int64{sid, t}] {
			return // a second sample at the same (series, t) is dropped silently by the OOO head (C01's subject)
		}
		used[[2]int64{sid, t}] = true
		if c.appendOne(sid, t, val) && val != 0 {
			v++
		}
	}
	span := r.Range(60, 260)
	step := r.Range(9, 40)
	last := map[int64]int64{}
	for t := base; t <= base+span; t += step + r.Range(0, 7) {
		for s := int64(0); s < nser; s++ {
			if r.Chance(5, 6) {
				add(s, t+s%3, v)
				last[s] = t + s%3
			}
		}
	}
	nstale := 0
	if c.prog == "stale" {
		for s := int64(0); s < nser; s++ {
			if _, ok := last[s]; ok && (nstale == 0 || r.Chance(1, 2)) && nstale < int(nser)-1+r.Intn(2) {
				// the marker right after the series' last sample, or as the newest sample of the head
				t := last[s] + r.Range(1, 15)
				if r.Chance(1, 2) {
					t = base + span + 20 + s
				}
				add(s, t, 0)
				nstale++
			}
		}
	}
	nooo := 0
	if r.Chance(1, 3) {
		s := int64(r.Intn(int(nser)))
		for i := 0; i < 1+r.Intn(3); i++ {
			add(s, base-10-r.Range(0, 80), v)
			nooo++
		}
	}
	c.nacked = len(c.table)
	return fmt.Sprintf("view(series=%d,span=%d,stale=%d,ooo=%d,samples=%d)", nser, span, nstale, nooo, len(c.table))
}

// viewCorpusHistory: series 0 = 1000..1200 and (stale) a marker / (selected) a sample at 1250, the
// newest sample of the head; series 1 = 1001..1201.
func (c *caseRun) viewCorpusHistory() string {
	v := int64(1)
	for t := int64(1000); t <= 1200; t += 50 {
		c.appendOne(0, t, v)
		c.appendOne(1, t+1, v+1)
		v += 2
	}
	if c.prog == "stale" {
		c.appendOne(0, 1250, 0)
	} else {
		c.appendOne(0, 1250, v)
	}
	c.nacked = len(c.table)
	return fmt.Sprintf("view-corpus(samples=%d)", len(c.table))
}

// viewSelect decides which series the compaction works on, from the head as it is.
func (c *caseRun) viewSelect(corpus bool) {
	c.viewT = c.db.DB.Head().MaxTime()
	dump := c.db.HeadDump()
	pick := map[int64]bool{}
	if c.prog == "selected" {
		for _, s := range dump {
			if corpus && sidOf(s.Labels) != 0 {
				continue
			}
			if corpus || len(pick) == 0 || c.r.Chance(1, 2) {
				pick[sidOf(s.Labels)] = true
			}
		}
	}
	for _, s := range dump {
		sid := sidOf(s.Labels)
		stale := false
		if n := len(s.InOrder); n > 0 {
			if k := len(s.InOrder[n-1].Samples); k > 0 {
				stale = value.IsStaleNaN(s.InOrder[n-1].Samples[k-1].V)
			}
		}
		if c.prog == "selected" && pick[sid] {
			c.viewRefs = append(c.viewRefs, storage.SeriesRef(s.Ref))
		}
		if len(s.OOO) > 0 {
			continue // skipped by filterSeriesAndSortPostings / staleSeriesRefsNoOOOData
		}
		if (c.prog == "selected" && pick[sid]) || (c.prog == "stale" && stale) {
			c.viewSids = append(c.viewSids, sid)
		}
	}
	sort.Slice(c.viewSids, func(i, j int) bool { return c.viewSids[i] < c.viewSids[j] })
	c.hot = append(c.hot, c.viewT)
}

// corpusEvictAtMaxt: reproducer of the truncateSeries boundary: a querier whose mint equals the
// newest sample's timestamp is open before the compaction and reads only after it.
func (c *caseRun) corpusEvictAtMaxt() {
	q := c.newQuerierRange(c.viewT, c.viewT+750)
	for !q.act.done && !q.act.parked {
		c.advance(q.act)
	}
	for i := 0; i < 100 && !c.comp.done && !c.comp.parked; i++ {
		c.advance(c.comp)
	}
	if c.comp.parked {
		c.dist["corpus:evict-at-maxt-waited"]++
	}
	c.iterate(q) // late Select
	c.closeQ(q)
	c.dist["corpus:evict-at-maxt"]++
}

// corpusEvictHeld: a querier over everything is open before the compaction starts; the eviction
// has to wait for it; it Selects only once the compaction is parked (or, if it never parks, done).
func (c *caseRun) corpusEvictHeld() {
	q := c.newQuerierRange(c.minT-5, c.maxT+5)
	for !q.act.done && !q.act.parked {
		c.advance(q.act)
	}
	for i := 0; i < 100 && !c.comp.done && !c.comp.parked; i++ {
		c.advance(c.comp)
	}
	if !c.comp.parked {
		c.dist["corpus:evict-did-not-wait"]++
	}
	c.iterate(q)
	c.closeQ(q)
	c.dist["corpus:evict-held"]++
}

func (c *caseRun) buildHistory() string {
	r := c.r
	nser := 1 + r.Intn(3)
	base := r.PickI64(0, 0, 1000, 1000, 300, -450, -1000)
	used := map[[2]int64]bool{}
	v := int64(1)
	add := func(sid, t int64) {
		if used[[2]int64{sid, t}] {
			return
		}
		used[[2]int64{sid, t}] = true
		if c.appendOne(sid, t, v) {
			v++
		}
	}
	inorder := func(from, to int64) {
		step := r.Range(7, 45)
		for t := from; t <= to; t += step + r.Range(0, 9) {
			for s := 0; s < nser; s++ {
				if r.Chance(5, 6) {
					add(int64(s), t+int64(s)%3)
				}
			}
			// boundary stream: samples exactly on / next to a block boundary
			if nb := (t/blockRange + 1) * blockRange; nb <= to && nb-t <= step+9 && r.Chance(2, 3) {
				add(int64(r.Intn(nser)), nb-r.Range(0, 1))
				if r.Chance(1, 2) {
					t = nb - step
				}
			}
		}
	}
	ooo := func(lo, hi int64, n int) {
		for i := 0; i < n; i++ {
			add(int64(r.Intn(nser)), r.Range(lo, hi))
		}
	}
	var hist []string
	cur := base + r.Range(0, 60)
	if r.Chance(2, 5) || c.prog == "merge" {
		// phase A: data, then an undisturbed compaction -> blocks
		span := r.Range(2, 3) * blockRange
		inorder(cur, cur+span)
		if r.Chance(1, 3) {
			ooo(cur+10, cur+120, r.Intn(5))
		}
		cur += span + r.Range(1, 30)
		if err := c.db.Compact(); err != nil {
			c.problem("setup compaction: %v", err)
		}
		hist = append(hist, fmt.Sprintf("A(span=%d,blocks=%d)", span, len(c.db.DB.Blocks())))
	}
	switch c.prog {
	case "merge":
		// keep the head not compactable
		inorder(cur, cur+r.Range(20, 120))
		if r.Chance(1, 2) {
			ooo(cur-300, cur, r.Intn(5))
		}
	case "ooo":
		inorder(cur, cur+r.Range(20, 300))
		o := cur - r.Range(0, 250)
		ooo(o-110, o+10, 2+r.Intn(10))
	default:
		span := r.Range(160, 330)
		inorder(cur, cur+span)
		if r.Chance(3, 4) {
			o := cur + r.Range(-200, span-10)
			ooo(o-100, o+30, 1+r.Intn(10))
		}
	}
	hist = append(hist, fmt.Sprintf("B(series=%d,base=%d,samples=%d)", nser, base, len(c.table)))
	c.nacked = len(c.table)
	return strings.Join(hist, "+")
}

// ---- snapshot of the start state -----------------------------------------------------------

func sidOf(lbls string) int64 {
	// {a="N"}
	var n int64
	fmt.Sscanf(lbls, `{a="%d"}`, &n)
	return n
}

func (c *caseRun) snapshot() {
	c.minT, c.maxT = math.MaxInt64, math.MinInt64
	for _, s := range c.table {
		c.minT, c.maxT = min(c.minT, s.t), max(c.maxT, s.t)
	}
	if len(c.table) == 0 {
		c.minT, c.maxT = 0, 0
	}
	bs := append([]*tsdb.Block{}, c.db.DB.Blocks()...)
	sort.SliceStable(bs, func(i, j int) bool { return bs[i].Meta().MinTime < bs[j].Meta().MinTime })
	for _, b := range bs {
		m := b.Meta()
		k := &blk{id: c.nextBid, mint: m.MinTime, maxt: m.MaxTime, ptr: b, ulid: m.ULID.String()}
		c.nextBid++
		ser, err := c.db.BlockSeries(k.ulid)
		if err != nil {
			c.problem("read block: %v", err)
		}
		var names []string
		for n := range ser {
			names = append(names, n)
		}
		sort.Strings(names)
		for _, n := range names {
			for _, x := range ser[n] {
				k.samples = append(k.samples, c.sampleIndex(smp{sidOf(n), x.T, valOf(x.V)}))
			}
		}
		c.blocks[k.ulid] = k
		c.loaded = append(c.loaded, k)
		c.initBlk = append(c.initBlk, k)
	}
	h := c.db.DB.Head()
	c.headMint = clampT(h.MinTime())
	c.oooMint, c.oooMaxt = clampT(h.MinOOOTime()), clampT(h.MaxOOOTime())
	leftover := 0
	for _, s := range c.db.HeadDump() {
		sid := sidOf(s.Labels)
		for _, ch := range s.InOrder {
			for _, x := range ch.Samples {
				if x.T < h.MinTime() {
					leftover++ // kept in memory with its chunk, but below Head.MinTime: it is in a block
					continue
				}
				c.headIno = append(c.headIno, c.sampleIndex(smp{sid, x.T, valOf(x.V)}))
			}
		}
		for _, ch := range s.OOO {
			var l []int
			for _, x := range ch.Samples {
				l = append(l, c.sampleIndex(smp{sid, x.T, valOf(x.V)}))
			}
			c.oooCh = append(c.oooCh, l)
			if ch.Mmapped {
				c.oooRef = append(c.oooRef, 5)
			} else {
				c.oooRef = append(c.oooRef, 0)
			}
		}
	}
	if leftover > 0 {
		c.dist["start:leftover-samples-below-head-mint"]++
	}
	if c.db.DB.VerifLastGCMmapRef() != 0 {
		c.gcRef0 = 1
	}
	if hm := h.MinTime(); hm > -tClamp && hm < tClamp {
		lo := (hm / blockRange) * blockRange
		for t := lo; t <= lo+3*blockRange; t += blockRange {
			c.hot = append(c.hot, t)
		}
	}
	c.gen = 0
}

// ---- block directories -----------------------------------------------------------------------

type metaFile struct {
	ULID       string `json:"ulid"`
	MinTime    int64  `json:"minTime"`
	MaxTime    int64  `json:"maxTime"`
	Compaction struct {
		Parents []struct {
			ULID string `json:"ulid"`
		} `json:"parents"`
	} `json:"compaction"`
}

// newBlocks finds block directories the harness has not seen yet.
func (c *caseRun) newBlocks() (out []*blk, parents [][]int64) {
	ents, _ := os.ReadDir(c.dir)
	var names []string
	for _, e := range ents {
		if _, err := ulid.ParseStrict(e.Name()); err == nil && e.IsDir() {
			names = append(names, e.Name())
		}
	}
	sort.Strings(names)
	var metas []metaFile
	for _, n := range names {
		if _, ok := c.blocks[n]; ok {
			continue
		}
		b, err := os.ReadFile(filepath.Join(c.dir, n, "meta.json"))
		if err != nil {
			continue
		}
		var m metaFile
		if json.Unmarshal(b, &m) != nil {
			continue
		}
		metas = append(metas, m)
	}
	sort.SliceStable(metas, func(i, j int) bool { return metas[i].MinTime < metas[j].MinTime })
	for _, m := range metas {
		k := &blk{id: c.nextBid, mint: m.MinTime, maxt: m.MaxTime, ulid: m.ULID}
		c.nextBid++
		c.blocks[m.ULID] = k
		var ps []int64
		for _, p := range m.Compaction.Parents {
			if pb, ok := c.blocks[p.ULID]; ok {
				ps = append(ps, pb.id)
			} else {
				ps = append(ps, 9999)
			}
		}
		out = append(out, k)
		parents = append(parents, ps)
	}
	return out, parents
}

func (c *caseRun) refreshLoaded() {
	// the maintenance goroutine is paused right after db.mtx.Unlock: nobody holds or awaits db.mtx
	c.loaded = nil
	for _, b := range c.db.DB.Blocks() {
		k, ok := c.blocks[b.Meta().ULID.String()]
		if !ok {
			c.problem("loaded block %s unknown to the harness", b.Meta().ULID)
			continue
		}
		k.ptr = b
		c.loaded = append(c.loaded, k)
	}
}

// ---- real-state evaluation of the polling waits -------------------------------------------------

func (c *caseRun) condFalse(wait string) bool {
	h := c.db.DB.Head()
	switch wait {
	case "head.readers":
		_, T := h.VerifTruncation()
		lo, hi := h.MinTime(), T-1
		for _, r := range h.VerifOpenReads() {
			if r[0] <= hi && lo <= r[1] {
				return true
			}
		}
		return false
	case "series.readers":
		// truncateSeries: WaitForPendingReadersInTimeRange(h.MinTime(), maxt) with maxt = Head.MaxTime()
		// captured at the start; the function decrements its upper bound
		lo, hi := h.MinTime(), c.viewT-1
		if c.inclWait {
			hi = c.viewT
		}
		for _, r := range h.VerifOpenReads() {
			if r[0] <= hi && lo <= r[1] {
				return true
			}
		}
		return false
	case "ooo.readers":
		// the maintenance goroutine is past the publication of the reference: db.mtx is free
		return h.VerifOOOReadsAtOrBefore(c.db.DB.VerifLastGCMmapRef())
	}
	return true
}

// ---- event processing -----------------------------------------------------------------------------

func (c *caseRun) compHit(site string) {
	h := c.db.DB.Head()
	switch site {
	case "c06.head.block_written":
		nb, _ := c.newBlocks()
		if len(nb) == 0 {
			hm := h.MinTime()
			lo := (hm / blockRange) * blockRange
			if hm < 0 && hm%blockRange != 0 {
				lo -= blockRange
			}
			c.emit(site, tHWritten, []int64{0, 0}, []int64{lo, lo + blockRange})
		} else {
			if len(nb) > 1 {
				c.problem("head compaction wrote %d blocks", len(nb))
			}
			c.emit(site, tHWritten, []int64{1, nb[0].id}, []int64{nb[0].mint, nb[0].maxt})
		}
	case "c06.reload.swapped":
		if c.view {
			// compactHeadViewLocked has no site of its own: the block written for this chunk range
			// is seen here, right after it was loaded
			nb, _ := c.newBlocks()
			if len(nb) != 1 {
				c.problem("view compaction: %d new blocks at a swap", len(nb))
			}
			for _, k := range nb {
				c.emit("view.block_written", tVWritten, append([]int64{k.id}, c.viewSids...), []int64{k.mint, k.maxt})
				c.vWritten++
			}
		}
		c.refreshLoaded()
		c.emit(site, tSwapped, nil, nil)
	case "c06.truncateSeries.afterWait":
		c.vAwaited = true
		c.emit(site, tVAwaited, nil, []int64{c.viewT})
	case "c06.block.closing":
		id := int64(-1)
		for _, k := range c.blocks {
			if k.ptr != nil && k.ptr.VerifClosing() && !k.closingSeen() {
				id = k.id
				k.markClosing()
			}
		}
		c.closingID = id
		c.emit(site, tBlockClosing, []int64{id}, nil)
	case "c06.block.readers_done":
		c.emit(site, tBlockClosed, []int64{c.closingID}, nil)
	case "c06.trunc.time_published":
		c.emit(site, tTimePub, nil, nil)
	case "c06.trunc.flag_set":
		c.emit(site, tFlagSet, nil, nil)
	case "c06.trunc.readers_awaited":
		c.emit(site, tAwaited, nil, nil)
	case "c06.trunc.mintime_set":
		c.emit(site, tMinSet, nil, nil)
	case "c06.head.gc_done":
		c.emit(site, tGcDone, nil, []int64{clampT(h.MinTime()), clampT(h.MinOOOTime())})
	case "c06.head.done":
		c.emit(site, tHeadDone, nil, nil)
	case "c06.ooo.started":
		has := false
		for _, s := range c.db.HeadDump() {
			if len(s.OOO) > 0 {
				has = true
			}
		}
		L := int64(0)
		if has {
			c.gen++
			L = 10 * c.gen
		}
		c.emit(site, tOStart, []int64{L}, nil)
	case "c06.ooo.block_written":
		nb, _ := c.newBlocks()
		ev := event{tag: tOWritten}
		for _, k := range nb {
			ev.args = append(ev.args, k.id)
			ev.targ = append(ev.targ, k.mint, k.maxt)
		}
		c.trace = append(c.trace, ev)
		c.names = append(c.names, site)
	case "c06.ooo.gcref_published":
		c.emit(site, tGcPub, nil, nil)
	case "c06.ooo.readers_awaited":
		c.emit(site, tOAwaited, nil, nil)
	case "c06.ooo.done":
		c.emit(site, tODone, nil, nil)
	case "c06.blocks.block_written":
		nb, ps := c.newBlocks()
		if len(nb) != 1 {
			c.problem("block compaction wrote %d blocks", len(nb))
			if len(nb) == 0 {
				return
			}
		}
		c.emit(site, tBWritten, append([]int64{nb[0].id}, ps[0]...), []int64{nb[0].mint, nb[0].maxt})
	default:
		c.problem("unexpected site %s in the maintenance goroutine", site)
	}
}

func (k *blk) closingSeen() bool { return k.closing }
func (k *blk) markClosing()      { k.closing = true }

func (c *caseRun) heldNow(q *qry) []int64 {
	var ids []int64
	for _, k := range c.loaded {
		if k.ptr.OverlapsClosedInterval(q.mint, q.maxt) {
			ids = append(ids, k.id)
		}
	}
	return ids
}

func (c *caseRun) emitBegin(q *qry) {
	q.began = true
	q.held = c.heldNow(q)
	c.held = append(c.held, append([]int64{q.id}, q.held...))
	c.emit("q.begin", tQBegin, []int64{q.id}, []int64{q.mint, q.maxt})
	if !c.comp.done && c.comp.started {
		c.midRun++
	}
}

func (c *caseRun) qHit(q *qry, site string) {
	switch site {
	case "c06.q.begun":
		c.emitBegin(q)
	case "c06.q.head_opened":
		q.opened = true
		c.emit("q.open_head", tQOpenHead, []int64{q.id}, nil)
	default:
		c.problem("unexpected site %s in a querier goroutine", site)
	}
}

func (c *caseRun) qFin(q *qry) {
	if q.act.err != nil {
		c.problem("Querier(%d,%d) failed: %v", q.mint, q.maxt, q.act.err)
		q.closed = true
		return
	}
	if !q.began {
		c.emitBegin(q)
	} else {
		// classification of the collision logic, from the real flags
		flag, T := c.db.DB.Head().VerifTruncation()
		switch {
		case !flag:
			c.dist["finish:no-truncation-in-process"]++
		case q.maxt < T:
			c.dist["finish:collide-close"]++
		case q.mint < T:
			c.dist["finish:collide-new-head-querier"]++
		default:
			c.dist["finish:above-truncation"]++
		}
	}
	q.created = true
	c.emit("q.finish", tQFinish, []int64{q.id}, nil)
}

// settle processes whatever a just-driven actor produced and then re-examines parked actors
// (the maintenance goroutine first: queriers parked on db.mtx.RLock wait for it).
func (c *caseRun) handle(a *actor, kind int, site string) {
	switch kind {
	case kHit:
		if a == c.comp {
			c.lastSite = site
			c.compHit(site)
			if site == "c06.truncateSeries.afterWait" && !afterWaitInterleave {
				// undecided regime (notes/C06.md): a querier created and Select'ed between the
				// return of the reader wait and gcSeries is not protected by anything in
				// truncateSeries; the harness does not interleave there unless C06_AFTERWAIT=1
				a.resume <- struct{}{}
				k, s2 := await(a, false, true, c.condFalse)
				c.handle(a, k, s2)
			}
		} else {
			c.qHit(c.qOf(a), site)
		}
	case kFin:
		if a == c.comp {
			c.completed = true
			if a.err != nil {
				c.problem("maintenance run failed: %v", a.err)
			}
			if c.view {
				c.viewFin()
			}
		} else {
			c.qFin(c.qOf(a))
		}
	case kParked:
		c.dist["parked:"+site]++
		if site == "series.readers" && !c.condFalse(site) {
			// the tree under test waits for readers starting at maxt as well (inclusive bound)
			c.inclWait = true
			c.dist["parked:series.readers-inclusive-bound"]++
		}
	case kStall:
		c.problem("stall: actor %s made no progress", a.name)
	}
}

// viewFin: the stale-/selected-series compaction returned; which of the selected series left the head?
func (c *caseRun) viewFin() {
	if !c.vAwaited && c.vWritten == 0 {
		return
	}
	var ev []int64
	if c.vAwaited {
		inHead := map[int64]bool{}
		for _, s := range c.db.HeadDump() {
			inHead[sidOf(s.Labels)] = true
		}
		for _, sid := range c.viewSids {
			if !inHead[sid] {
				ev = append(ev, sid)
			}
		}
	}
	c.emit("view.evicted", tVEvicted, ev, nil)
	if len(ev) > 0 {
		for _, q := range c.qs {
			if q.began && !q.closed && q.mint == c.viewT {
				c.atMaxt = true
			}
		}
	}
}

func (c *caseRun) qOf(a *actor) *qry {
	for _, q := range c.qs {
		if q.act == a {
			return q
		}
	}
	return nil
}

// mayBlock: can the actor, once resumed, end up in one of the protocol's waits?
func (c *caseRun) mayBlock(a *actor) bool {
	if a == c.comp {
		creating, open := c.live()
		if len(creating)+len(open) == 0 {
			return false
		}
		if c.view {
			return true
		}
		switch c.lastSite {
		case "c06.head.block_written", "c06.ooo.block_written", "c06.blocks.block_written", "c06.reload.swapped",
			"c06.block.readers_done", "c06.block.closing", "c06.trunc.flag_set", "c06.ooo.gcref_published":
			return true
		}
		return false
	}
	q := c.qOf(a)
	return q != nil && !q.began && c.comp.parked
}

// stillParked decides, from the real state and the positions of the paused goroutines, whether
// the wait a parked actor sits in can return now.
func (c *caseRun) stillParked(a *actor) bool {
	if len(a.hit) > 0 || len(a.fin) > 0 {
		return false
	}
	switch a.wait {
	case "db.mtx.Lock": // a querier paused inside DB.Querier holds db.mtx.RLock
		for _, q := range c.qs {
			if q.began && !q.created && !q.closed {
				return true
			}
		}
		return false
	case "db.mtx.RLock": // a writer (the maintenance goroutine) is queued on db.mtx
		return c.comp.parked && c.comp.wait == "db.mtx.Lock" && c.stillParked(c.comp)
	case "block.pendingReaders":
		for _, q := range c.qs {
			if q.began && !q.closed {
				for _, id := range q.held {
					if id == c.closingID {
						return true
					}
				}
			}
		}
		return false
	case "head.readers", "ooo.readers", "series.readers":
		return c.condFalse(a.wait)
	}
	return true
}

func (c *caseRun) recheck() {
	order := []*actor{c.comp}
	for _, q := range c.qs {
		order = append(order, q.act)
	}
	for _, a := range order {
		if a == nil || !a.parked || a.done {
			continue
		}
		if c.stillParked(a) {
			continue
		}
		k, s := await(a, false, false, c.condFalse)
		c.handle(a, k, s)
	}
}

// advance resumes a paused (or not yet started) actor for one step.
func (c *caseRun) advance(a *actor) {
	if a.done || a.parked {
		return
	}
	a.started = true
	mb := c.mayBlock(a)
	a.resume <- struct{}{}
	k, s := await(a, mb, true, c.condFalse)
	c.handle(a, k, s)
	c.recheck()
}

// ---- querier actions -------------------------------------------------------------------------------

func (c *caseRun) pickRange() (int64, int64) {
	r := c.r
	var cand []int64
	cand = append(cand, c.minT-5, c.maxT+5)
	lo := (c.minT/blockRange - 1) * blockRange
	for t := lo; t <= c.maxT+blockRange; t += blockRange {
		cand = append(cand, t-1, t, t+1)
	}
	hm := c.db.DB.Head().MinTime()
	if hm > -tClamp && hm < tClamp {
		cand = append(cand, hm-1, hm, hm+1)
	}
	if len(c.table) > 0 {
		for i := 0; i < 4; i++ {
			cand = append(cand, c.table[r.Intn(len(c.table))].t)
		}
	}
	if flag, T := c.db.DB.Head().VerifTruncation(); flag && r.Chance(1, 2) {
		// a truncation is in process: put one end of the range on the truncation time (+-1),
		// the cases IsQuerierCollidingWithTruncation distinguishes
		c.dist["range:at-truncation-time"]++
		e := T + r.Range(-1, 1)
		if r.Chance(2, 3) {
			lo := gen.Pick(r, cand)
			if lo > e || r.Chance(1, 3) {
				lo = c.minT - 5
			}
			return min(lo, e), e
		}
		return e, max(e, c.maxT+5)
	}
	if r.Chance(1, 4) {
		return c.minT - 5, c.maxT + 5
	}
	a, b := gen.Pick(r, cand), gen.Pick(r, cand)
	if r.Chance(1, 2) && len(c.hot) > 0 {
		// one end exactly on / next to a truncation point of this run
		h := gen.Pick(r, c.hot) + r.Range(-1, 1)
		if r.Chance(2, 3) {
			b = h
			if r.Chance(1, 2) {
				a = c.minT - 5
			}
		} else {
			a = h
		}
	}
	if a > b {
		a, b = b, a
	}
	return a, b
}

func (c *caseRun) newQuerier() *qry {
	mint, maxt := c.pickRange()
	return c.newQuerierRange(mint, maxt)
}

func (c *caseRun) newQuerierRange(mint, maxt int64) *qry {
	q := &qry{id: int64(len(c.qs) + 1), mint: mint, maxt: maxt}
	q.act = spawn(fmt.Sprintf("q%d", q.id), func() error {
		var err error
		q.q, err = c.db.DB.Querier(mint, maxt)
		return err
	})
	c.qs = append(c.qs, q)
	return q
}

// selectQ runs Select and enumerates the series (which fixes the chunks each series will read:
// blockSeriesSet.At copies the chunk metas) but reads no sample yet; a later iterate reads them.
func (c *caseRun) selectQ(q *qry) {
	if !q.created || q.closed || q.selected {
		return
	}
	defer func() {
		if p := recover(); p != nil {
			c.problem("panic in Select: %v", p)
		}
	}()
	if q.chunk {
		ss := q.cq.Select(context.Background(), true, nil, tsdbx.MatchAll("a"))
		q.csel = nil
		for ss.Next() {
			q.csel = append(q.csel, ss.At())
		}
		if ss.Err() != nil {
			c.problem("chunk select error: %v", ss.Err())
		}
	} else {
		ss := q.q.Select(context.Background(), true, nil, tsdbx.MatchAll("a"))
		q.sel = nil
		for ss.Next() {
			q.sel = append(q.sel, ss.At())
		}
		if ss.Err() != nil {
			c.problem("select error: %v", ss.Err())
		}
	}
	q.selected = true
	c.dist["select:split-from-iteration"]++
}

func (c *caseRun) iterate(q *qry) {
	if !q.created || q.closed {
		return
	}
	if !q.selected {
		c.selectQ(q)
		c.dist["select:split-from-iteration"]--
	} else {
		c.dist["iterate:after-earlier-select"]++
	}
	var res []int
	func() {
		defer func() {
			if p := recover(); p != nil {
				c.problem("panic while iterating: %v", p)
			}
		}()
		for _, s := range q.csel {
			// chunk path: decode every chunk; chunks may reach beyond the range (chunk granularity)
			sid := sidOf(s.Labels().String())
			ci := s.Iterator(nil)
			for ci.Next() {
				m := ci.At()
				it := m.Chunk.Iterator(nil)
				for it.Next() == chunkenc.ValFloat {
					t, v := it.At()
					if t >= q.mint && t <= q.maxt {
						res = append(res, c.sampleIndex(smp{sid, t, valOf(v)}))
					}
				}
				if it.Err() != nil {
					c.problem("chunk decode error: %v", it.Err())
				}
			}
			if ci.Err() != nil {
				c.problem("chunk iterator error: %v", ci.Err())
			}
		}
		for _, s := range q.sel {
			sid := sidOf(s.Labels().String())
			it := s.Iterator(nil)
			for it.Next() == chunkenc.ValFloat {
				t, v := it.At()
				res = append(res, c.sampleIndex(smp{sid, t, valOf(v)}))
			}
			if it.Err() != nil {
				c.problem("iterator error: %v", it.Err())
			}
		}
	}()
	q.selected, q.sel, q.csel = false, nil, nil
	q.iterated++
	c.emit("q.iter", tQIter, []int64{q.id}, nil)
	c.outs = append(c.outs, output{q.id, res})
	if !c.comp.done && c.comp.started {
		c.midRun++
	}
}

func (c *caseRun) closeQ(q *qry) {
	if !q.created || q.closed {
		return
	}
	var err error
	if q.chunk {
		err = q.cq.Close()
	} else {
		err = q.q.Close()
	}
	if err != nil {
		c.problem("querier close: %v", err)
	}
	q.closed = true
	c.emit("q.close", tQClose, []int64{q.id}, nil)
	c.recheck()
}

// newChunkQuerier creates a DB.ChunkQuerier in one piece (blockChunkQuerierForRange has the same
// structure as Querier but no sites). It is only used while the maintenance goroutine is paused at
// a site or parked in a polling wait (never while it queues on db.mtx), so the values
// the creation reads are stable and the three model events can be emitted together.
func (c *caseRun) newChunkQuerier(mint, maxt int64) *qry {
	if c.comp.parked && c.comp.wait == "db.mtx.Lock" {
		return nil
	}
	h := c.db.DB.Head()
	hashead := maxt >= h.MinTime() || (mint <= h.MaxOOOTime() && h.MinOOOTime() <= maxt)
	q := &qry{id: int64(len(c.qs) + 1), mint: mint, maxt: maxt, chunk: true, act: &actor{name: "cq", done: true}}
	cq, err := c.db.DB.ChunkQuerier(mint, maxt)
	c.qs = append(c.qs, q)
	if err != nil {
		c.problem("ChunkQuerier(%d,%d) failed: %v", mint, maxt, err)
		q.closed = true
		return q
	}
	q.cq = cq
	c.emitBegin(q)
	if hashead {
		q.opened = true
		c.emit("cq.open_head", tQOpenHead, []int64{q.id}, nil)
	}
	q.created = true
	c.emit("cq.finish", tQFinish, []int64{q.id}, nil)
	c.dist["querier:chunk"]++
	return q
}

func (c *caseRun) live() (creating, open []*qry) {
	for _, q := range c.qs {
		switch {
		case q.closed:
		case q.created:
			open = append(open, q)
		default:
			creating = append(creating, q)
		}
	}
	return
}

// randomAction performs one scheduler action chosen by the case's generator.
func (c *caseRun) randomAction(busy int) {
	r := c.r
	creating, open := c.live()
	switch x := r.Intn(100); {
	case x < 30:
		c.advance(c.comp)
	case x < 30+busy && len(creating)+len(open) < 3:
		if r.Chance(1, 5) {
			mint, maxt := c.pickRange()
			c.newChunkQuerier(mint, maxt)
			c.recheck()
			return
		}
		q := c.newQuerier()
		c.advance(q.act)
		if r.Chance(1, 3) { // atomic creation
			for !q.act.done && !q.act.parked {
				c.advance(q.act)
			}
		}
	case x < 75 && len(creating) > 0:
		c.advance(gen.Pick(r, creating).act)
	case x < 88 && len(open) > 0:
		if q := gen.Pick(r, open); r.Chance(1, 4) {
			c.selectQ(q) // the samples are read by a later iterate (at the latest in drain)
		} else {
			c.iterate(q)
		}
	case len(open) > 0:
		q := gen.Pick(r, open)
		if q.iterated == 0 || r.Chance(1, 2) {
			c.iterate(q)
		}
		c.closeQ(q)
	default:
		c.advance(c.comp)
	}
}

// holdLoop keeps queriers open until the maintenance run is parked in one of its waits: every
// wait of the protocol (db.mtx, reader waits of truncateMemory / truncateOOO, Block.Close) is
// reached with a querier that it has to wait for.
func (c *caseRun) holdLoop() {
	r := c.r
	for round := 0; round < 300 && !c.comp.done; round++ {
		creating, open := c.live()
		if c.comp.parked {
			switch {
			case len(creating) > 0 && (len(open) == 0 || r.Chance(1, 2)):
				q := gen.Pick(r, creating)
				if q.act.parked {
					if len(open) == 0 {
						return
					}
					q2 := gen.Pick(r, open)
					c.iterate(q2)
					c.closeQ(q2)
				} else {
					c.advance(q.act)
				}
			case len(open) > 0:
				q := gen.Pick(r, open)
				c.iterate(q)
				c.closeQ(q)
			default:
				return
			}
			continue
		}
		if len(creating)+len(open) < 3 && r.Chance(2, 5) {
			var q *qry
			if r.Chance(1, 2) {
				q = c.newQuerierRange(c.minT-5, c.maxT+5)
			} else {
				q = c.newQuerier()
			}
			c.advance(q.act)
			if r.Chance(2, 3) {
				for !q.act.done && !q.act.parked {
					c.advance(q.act)
				}
			}
			continue
		}
		c.advance(c.comp)
	}
}

func (c *caseRun) drain() {
	for round := 0; round < 400; round++ {
		creating, open := c.live()
		if c.comp.done && len(creating) == 0 && len(open) == 0 {
			return
		}
		progress := false
		for _, q := range creating {
			if !q.act.parked {
				c.advance(q.act)
				progress = true
			}
		}
		for _, q := range open {
			c.iterate(q)
			c.closeQ(q)
			progress = true
		}
		c.recheck()
		if !c.comp.done && !c.comp.parked {
			c.advance(c.comp)
			progress = true
		}
		if !progress {
			c.problem("no progress: maintenance parked in %q with no querier left to close", c.comp.wait)
			return
		}
	}
	c.problem("drain did not terminate")
}

// ---- one case ----------------------------------------------------------------------------------------

type result struct {
	term     string
	d        desc
	dist     map[string]int
	nontriv  bool
	viol     []gallina.GoViolation
	problems []string
}

func runCase(seed uint64, idx int, root string) (res result) {
	r := gen.Fork(seed, idx)
	c := &caseRun{idx: idx, r: r, index: map[smp]int{}, blocks: map[string]*blk{}, dist: map[string]int{}, inclWait: inclusiveSeriesWait}
	c.prog = gen.Pick(r, []string{"compact", "compact", "planner", "planner", "planner", "ooo", "merge", "merge", "stale", "stale", "selected", "selected"})
	corpus := idx < 5
	if corpus {
		c.prog = []string{"ooo", "compact", "stale", "selected", "stale"}[idx]
	}
	c.view = c.prog == "stale" || c.prog == "selected"
	dir, err := os.MkdirTemp(root, "db")
	if err != nil {
		panic(err)
	}
	defer os.RemoveAll(dir)
	c.dir = dir
	capMax := r.PickI64(2, 4, 32)
	if corpus {
		capMax = 2
	}
	db, err := tsdbx.Open(dir, tsdbx.Options{BlockRange: blockRange, OOOWindow: 100000, OOOCapMax: capMax})
	if err != nil {
		panic(err)
	}
	c.db = db
	defer db.DB.Close()
	var hist string
	switch {
	case corpus && c.view:
		hist = c.viewCorpusHistory()
	case corpus:
		hist = c.corpusHistory()
	case c.view:
		hist = c.viewHistory()
	default:
		hist = c.buildHistory()
	}
	c.snapshot()
	if c.view {
		c.viewSelect(corpus)
	}

	var mergeIDs []string
	if c.prog == "merge" {
		if len(c.loaded) >= 2 && !db.Compactable() {
			n := 2 + r.Intn(min(2, len(c.loaded)-1))
			for _, k := range c.loaded[:n] {
				mergeIDs = append(mergeIDs, k.ulid)
			}
		} else {
			c.prog = "compact"
		}
	}
	c.comp = spawn("maintenance", func() error {
		switch c.prog {
		case "planner":
			return db.CompactWithPlanner()
		case "ooo":
			return db.CompactOOOHead()
		case "merge":
			return db.MergeBlocks(mergeIDs)
		case "stale":
			return db.DB.CompactStaleHead()
		case "selected":
			return db.DB.CompactSelectedSeries(c.viewRefs)
		default:
			return db.Compact()
		}
	})

	place := -2
	switch {
	case corpus && idx == 2:
		c.corpusEvictAtMaxt()
	case corpus && c.view:
		c.corpusEvictHeld()
	case corpus:
		c.corpusGcWindow()
	}
	if !corpus {
		// placement: let the maintenance run take k steps undisturbed, then interleave densely
		place = idx % 26
		if r.Chance(1, 5) {
			place = 0
		}
		if r.Chance(1, 4) || (c.view && r.Chance(1, 2)) { // a querier that is open before the run starts
			q := c.newQuerier()
			for !q.act.done {
				c.advance(q.act)
			}
		}
		if c.prog == "planner" && r.Chance(1, 2) {
			// start interleaving where block compaction (and the deletion of its parents) begins
			for i := 0; i < 200 && !c.comp.done && !c.comp.parked && c.lastSite != "c06.ooo.done"; i++ {
				c.advance(c.comp)
			}
			place = -1
			c.dist["placement:at-block-compaction"]++
		}
		for i := 0; i < place && !c.comp.done; i++ {
			c.advance(c.comp)
		}
		if idx%3 == 1 {
			c.dist["mode:hold"]++
			c.holdLoop()
		} else {
			c.dist["mode:random"]++
			steps := 25 + r.Intn(40)
			for i := 0; i < steps; i++ {
				c.randomAction(35)
			}
		}
	}
	c.drain()
	// a last querier over everything, after the run
	if c.comp.done {
		q := c.newQuerierRange(c.minT-5, c.maxT+5)
		for !q.act.done {
			c.advance(q.act)
		}
		c.iterate(q)
		c.closeQ(q)
	}

	res.dist = c.dist
	res.problems = c.problems
	res.nontriv = c.midRun > 0
	shape := "ok"
	if c.atMaxt {
		// Head.truncateSeries does not wait for a reader whose mint equals its (inclusive) maxt
		shape = "stale-evict-reader-at-maxt"
	}
	if len(c.problems) > 0 {
		shape = "harness-problem"
		for i, p := range c.problems {
			res.viol = append(res.viol, gallina.GoViolation{ID: fmt.Sprintf("%d.%d", idx, i), Shape: "c06-go-side", What: p})
		}
	}
	res.d = desc{Shape: shape, Program: c.prog, Hist: hist, Seed: seed, Index: idx, Place: place, Trace: strings.Join(c.names, " "), Problems: c.problems}
	res.term = c.term()
	for _, n := range c.names {
		c.dist["ev:"+n]++
	}
	return res
}

// ---- Gallina ------------------------------------------------------------------------------------------

func u(v int64) string {
	if v < 0 {
		panic(fmt.Sprintf("negative wire number %d", v))
	}
	return fmt.Sprint(v)
}
func ut(t int64) string { return u(clampT(t) + tOff) }

// il prints a monomorphic integer list (C_ a (C_ b N_)).
func il(items []string) string {
	if len(items) == 0 {
		return "N_"
	}
	var sb strings.Builder
	sb.WriteString("(")
	for _, it := range items {
		sb.WriteString("C_ " + it + " (")
	}
	sb.WriteString("N_")
	sb.WriteString(strings.Repeat(")", len(items)+1))
	return sb.String()
}
func ulist(vs []int64) string {
	it := make([]string, len(vs))
	for i, v := range vs {
		it[i] = u(v)
	}
	return il(it)
}
func tlist(vs []int64) string {
	it := make([]string, len(vs))
	for i, v := range vs {
		it[i] = ut(v)
	}
	return il(it)
}

// ilist prints table indices run-length encoded: start, length, start, length, ...
func (c *caseRun) ilist(vs []int) string {
	var it []string
	for i := 0; i < len(vs); {
		j := i + 1
		for j < len(vs) && c.perm[vs[j]] == c.perm[vs[j-1]]+1 {
			j++
		}
		it = append(it, fmt.Sprint(c.perm[vs[i]]), fmt.Sprint(j-i))
		i = j
	}
	return il(it)
}

func (c *caseRun) term() string {
	// the acknowledged samples are sent sorted by (series, time); perm maps harness index -> wire index
	order := make([]int, len(c.table))
	for i := range order {
		order[i] = i
	}
	sort.SliceStable(order[:c.nacked], func(a, b int) bool {
		x, y := c.table[order[a]], c.table[order[b]]
		if x.sid != y.sid {
			return x.sid < y.sid
		}
		return x.t < y.t
	})
	c.perm = make([]int, len(c.table))
	for w, h := range order {
		c.perm[h] = w
	}
	var tb []string
	for _, h := range order {
		s := c.table[h]
		tb = append(tb, fmt.Sprintf("RS %s %s %s", u(s.sid), ut(s.t), u(s.v)))
	}
	var bl []string
	for _, k := range c.initBlk {
		bl = append(bl, fmt.Sprintf("RB %s %s %s %s", u(k.id), ut(k.mint), ut(k.maxt), c.ilist(k.samples)))
	}
	var oc []string
	for i, l := range c.oooCh {
		oc = append(oc, fmt.Sprintf("RC %s %s", u(c.oooRef[i]), c.ilist(l)))
	}
	var tr []string
	for _, e := range c.trace {
		tr = append(tr, fmt.Sprintf("RE %d %s %s", e.tag, ulist(e.args), tlist(e.targ)))
	}
	var outs []string
	for _, o := range c.outs {
		outs = append(outs, fmt.Sprintf("RO %s %s", u(o.q), c.ilist(o.res)))
	}
	var held []string
	for _, h := range c.held {
		held = append(held, fmt.Sprintf("RO %s %s", u(h[0]), ulist(h[1:])))
	}
	comp := 0
	if c.completed {
		comp = 1
	}
	return fmt.Sprintf("wCase %d %d %s\n  %s %s %s %s %s %s %s\n  %s\n  %s\n  %s %d %d",
		c.idx, c.nacked, gallina.List(tb),
		c.ilist(c.headIno), ut(c.headMint), gallina.List(oc), ut(c.oooMint), ut(c.oooMaxt), gallina.List(bl), u(c.gcRef0),
		gallina.List(tr), gallina.List(outs), gallina.List(held), comp, len(c.problems))
}

func main() {
	f := gallina.ParseFlags()
	meta := gallina.NewMeta("C06", f.Seed, f.Tier)
	meta.Rule = "each case = one real tsdb.DB with a generated history (1-3 series, in-order + out-of-order samples, usually blocks from an earlier compaction) and one maintenance run (DB.Compact without / with block compaction, CompactOOOHead, forced merge) stopped at every c06 site; the run is first advanced `placement` (= index mod 26) steps, then either 25-65 scheduler actions are drawn (step maintenance / begin a querier / step a querier's creation / iterate / close) or (index mod 3 = 1, `hold` mode) queriers are kept open until the maintenance run is parked in a wait and only then iterated and closed; then everything is drained; non-trivial = at least one querier was begun or iterated while the maintenance run was in progress; distinct by (seed, index)"
	if pf := os.Getenv("C06_PROF"); pf != "" {
		fh, _ := os.Create(pf)
		pprof.StartCPUProfile(fh)
		defer pprof.StopCPUProfile()
	}
	verifhook.SetHandler(hookHandler)
	root0, err0 := os.MkdirTemp(f.Out, "c06p")
	if err0 != nil {
		panic(err0)
	}
	inclusiveSeriesWait = probeInclusive(root0)
	os.RemoveAll(root0)
	meta.Notes = append(meta.Notes, fmt.Sprintf("truncateSeries waits for a reader at mint = maxt: %v", inclusiveSeriesWait))
	n := f.Count(48, 2000)
	root, err := os.MkdirTemp(f.Out, "c06")
	if err != nil {
		panic(err)
	}
	defer os.RemoveAll(root)
	results := make([]result, n)
	var wg sync.WaitGroup
	next := make(chan int)
	workers := 6
	for w := 0; w < workers; w++ {
		wg.Add(1)
		go func() {
			defer wg.Done()
			for i := range next {
				results[i] = runCase(f.Seed, i, root)
			}
		}()
	}
	for i := 0; i < n; i++ {
		next <- i
	}
	close(next)
	wg.Wait()
	verifhook.SetHandler(nil)

	cf := &gallina.CaseFile{Dir: f.Out, Type: "case", PerShard: 24,
		Preamble: "From Coq Require Import List ZArith Uint63.\nFrom Verif Require Import model.CompactRace corr.CorrC06.\nImport ListNotations.\nOpen Scope uint63_scope.\n",
		Footer:   gallina.StdFooter}
	for i, r := range results {
		cf.Add(r.term)
		meta.Case(i, r.d)
		meta.Evaluations++
		if r.nontriv {
			meta.Nontrivial++
		}
		meta.Hit("program:" + r.d.Program)
		for k, v := range r.dist {
			meta.Dist[k] += v
		}
		meta.GoViol = append(meta.GoViol, r.viol...)
	}
	cf.Flush()
	meta.Notes = append(meta.Notes, fmt.Sprintf("goroutine inspections: %d, %v", StackCalls, StackTime))
	meta.Write(f.Out)
}

package main

// Lock-step scheduler for real goroutines paused at verifhook sites.
//
// An actor is a goroutine running real tsdb code (one maintenance run, or one DB.Querier call).
// It stops at every "c06." site (the handler blocks it on a channel) until the scheduler
// resumes it.  Exactly one actor runs at a time.  When a resumed actor neither reaches its next
// site nor finishes, the scheduler inspects the goroutine: if it sits in one of the protocol's
// waits (db.mtx, Block.pendingReaders, the polling loops of WaitForPendingReaders*), and - for
// the polling loops - the awaited condition is still false on the real state, the actor is
// "parked" and other actors may be driven; a parked actor is re-examined after every action.
// Nothing is decided by a timeout: a slow goroutine is simply waited for.

import (
	"regexp"
	"runtime"
	"strconv"
	"strings"
	"sync"
	"time"
)

type actor struct {
	name    string
	gid     int64
	hit     chan string
	resume  chan struct{}
	fin     chan error
	parked  bool   // inside a wait of the protocol whose condition is false
	wait    string // which wait (for the distribution)
	started bool
	done    bool
	err     error
}

var actors sync.Map // goroutine id -> *actor

func goid() int64 {
	var buf [64]byte
	n := runtime.Stack(buf[:], false)
	s := strings.TrimPrefix(string(buf[:n]), "goroutine ")
	if i := strings.IndexByte(s, ' '); i > 0 {
		s = s[:i]
	}
	id, _ := strconv.ParseInt(s, 10, 64)
	return id
}

// hookHandler is installed once for the whole process.
func hookHandler(site string, _ int) {
	if !strings.HasPrefix(site, "c06.") {
		return
	}
	v, ok := actors.Load(goid())
	if !ok {
		return
	}
	a := v.(*actor)
	a.hit <- site
	<-a.resume
}

// spawn creates the goroutine; it runs f once it is resumed for the first time.
func spawn(name string, f func() error) *actor {
	a := &actor{name: name, hit: make(chan string, 1), resume: make(chan struct{}), fin: make(chan error, 1)}
	ready := make(chan struct{})
	go func() {
		a.gid = goid()
		actors.Store(a.gid, a)
		close(ready)
		<-a.resume
		err := f()
		actors.Delete(a.gid)
		a.fin <- err
	}()
	<-ready
	return a
}

var stackMu sync.Mutex
var stackBuf = make([]byte, 1<<18)

// StackCalls / StackTime: cost of the goroutine inspections (reported in meta notes).
var StackCalls int
var StackTime time.Duration
var hdrRe = regexp.MustCompile(`^goroutine (\d+) \[([^\]]*)\]`)

// goroutineInfo returns the status and the function names (innermost first) of goroutine gid.
func goroutineInfo(gid int64) (status string, funcs []string) {
	stackMu.Lock()
	defer stackMu.Unlock()
	t0 := time.Now()
	defer func() { StackCalls++; StackTime += time.Since(t0) }()
	var buf []byte
	for {
		n := runtime.Stack(stackBuf, true)
		if n < len(stackBuf) {
			buf = stackBuf[:n]
			break
		}
		stackBuf = make([]byte, 2*len(stackBuf))
	}
	want := strconv.FormatInt(gid, 10)
	for _, g := range strings.Split(string(buf), "\n\n") {
		m := hdrRe.FindStringSubmatch(g)
		if m == nil || m[1] != want {
			continue
		}
		lines := strings.Split(g, "\n")
		for _, l := range lines[1:] {
			if l == "" || l[0] == '\t' || strings.HasPrefix(l, "created by") {
				continue
			}
			if i := strings.LastIndexByte(l, '('); i > 0 {
				l = l[:i]
			}
			funcs = append(funcs, l)
		}
		return m[2], funcs
	}
	return "gone", nil
}

const tsdbPkg = "github.com/prometheus/prometheus/tsdb."

// classify says in which wait of the protocol a non-running goroutine sits ("" = none).
func classify(status string, funcs []string) string {
	waiting := strings.HasPrefix(status, "sync.") || strings.HasPrefix(status, "semacquire") || strings.HasPrefix(status, "sleep")
	if !waiting || len(funcs) == 0 {
		return ""
	}
	// innermost tsdb frame and the sync/time frame right above it
	for i, f := range funcs {
		if !strings.HasPrefix(f, tsdbPkg) {
			continue
		}
		above := ""
		if i > 0 {
			above = funcs[i-1]
		}
		fn := strings.TrimPrefix(f, tsdbPkg)
		switch {
		case (fn == "(*DB).reloadBlocks" || fn == "(*DB).compactOOOHead") && above == "sync.(*RWMutex).Lock":
			return "db.mtx.Lock"
		case fn == "(*DB).Querier" && above == "sync.(*RWMutex).RLock":
			return "db.mtx.RLock"
		case fn == "(*Block).Close" && above == "sync.(*WaitGroup).Wait":
			return "block.pendingReaders"
		case fn == "(*Head).WaitForPendingReadersInTimeRange" && above == "time.Sleep":
			if i+1 < len(funcs) && strings.HasSuffix(funcs[i+1], "(*Head).truncateSeries") {
				return "series.readers"
			}
			return "head.readers"
		case fn == "(*Head).WaitForPendingReadersForOOOChunksAtOrBefore" && above == "time.Sleep":
			return "ooo.readers"
		}
		return ""
	}
	return ""
}

const (
	kHit = iota
	kFin
	kParked
	kStall
)

// await waits until the (running) actor reaches a site, finishes, or is parked.
// mayBlock says whether, from what the scheduler knows (position of the actor, live queriers),
// the actor can be inside one of the protocol's waits at all; only then the goroutine is
// inspected eagerly (an inspection stops the world and is expensive on a loaded machine).
// fresh: the actor was just resumed and no other actor ran since.
// condFalse(wait) evaluates, on the real state, whether the condition a polling wait is
// waiting for is still false.
func await(a *actor, mayBlock, fresh bool, condFalse func(wait string) bool) (kind int, site string) {
	delay := 3 * time.Millisecond
	if !mayBlock {
		delay = 3 * time.Second // safety net only
	}
	deadline := time.Now().Add(420 * time.Second)
	for {
		t := time.NewTimer(delay)
		select {
		case s := <-a.hit:
			t.Stop()
			a.parked, a.wait = false, ""
			return kHit, s
		case e := <-a.fin:
			t.Stop()
			a.parked, a.wait, a.done, a.err = false, "", true, e
			return kFin, ""
		case <-t.C:
		}
		st, fs := goroutineInfo(a.gid)
		if w := classify(st, fs); w != "" {
			blocked := true
			if w == "head.readers" || w == "ooo.readers" || w == "series.readers" {
				blocked = condFalse(w)
				if w == "series.readers" && fresh {
					// the actor was resumed by itself: nothing changed since it evaluated the wait
					// condition, so sleeping in the loop means the condition is false (this also
					// covers a tree in which truncateSeries waits for readers starting at maxt)
					blocked = true
				}
			}
			if blocked {
				a.parked, a.wait = true, w
				return kParked, w
			}
		}
		if mayBlock && delay < 50*time.Millisecond {
			delay *= 2
		}
		if time.Now().After(deadline) {
			return kStall, ""
		}
	}
}

// h_c09: correspondence harness for C09 (block retention in tsdb/db.go).
//
// Stream A ("pure"): the real deletableBlocks / BeyondTimeRetention / BeyondSizeRetention on
// slices of Block values (sizes and metas chosen freely, including int64 extremes and slices
// long enough for the unstable part of slices.SortFunc), against a real DB's options and its
// real Head().Size().  The order the code's sort left in the slice is read back.
//
// Stream B ("reload"): a real DB on a real directory of real block directories (hard-linked
// from a template block, meta.json rewritten, size tuned by meta padding); histories of
// reloadBlocks calls interleaved with simulated compactions interrupted at every prefix of the
// parent deletions, retention changes (ApplyConfig), head appends, new blocks, and crash +
// reopen (tsdb.Open).  Observed: error, DB.Blocks(), directory names, head fingerprint, and -
// through Options.BlocksToDelete wrapping DefaultBlocksToDelete - the slice deletableBlocks sorted.
package main

import (
	"context"
	"encoding/json"
	"fmt"
	"io/fs"
	"math"
	"os"
	"path/filepath"
	"sort"
	"strings"
	"time"

	"github.com/oklog/ulid/v2"
	"github.com/prometheus/common/model"
	"github.com/prometheus/common/promslog"

	"github.com/prometheus/prometheus/config"
	"github.com/prometheus/prometheus/model/labels"
	"github.com/prometheus/prometheus/storage"
	"github.com/prometheus/prometheus/tsdb"
	"github.com/prometheus/prometheus/tsdb/chunks"

	"verif/harness/internal/gallina"
	"verif/harness/internal/gen"
)

// ---------- model-side view ----------

type blk struct {
	ID      int       `json:"id"`
	Mint    int64     `json:"mint"`
	Maxt    int64     `json:"maxt"`
	Size    int64     `json:"size"`
	Del     bool      `json:"del,omitempty"`
	Parents []int     `json:"parents,omitempty"`
	MetaOK  bool      `json:"metaok"`
	OpenOK  bool      `json:"openok"`
	U       ulid.ULID `json:"-"`
}

type cfg struct {
	Dur, MaxB int64
	P         float64 // Options.MaxPercentage
	Disk      uint64
	Head      int64
}

func (c cfg) pct() float64 { return c.P }

// significand and binary exponent of the percentage: P = m * 2^e exactly (0,0 for 0)
func (c cfg) pme() (int64, int64) {
	if c.P == 0 || math.IsNaN(c.P) || math.IsInf(c.P, 0) {
		return 0, 0
	}
	fr, ex := math.Frexp(c.P)
	return int64(fr * (1 << 53)), int64(ex - 53)
}

func (c cfg) term() string {
	m, e := c.pme()
	return fmt.Sprintf("(mkCfg %s %s %s %s %s %s)", z(c.Dur), z(c.MaxB), z(m),
		z(e), zu(c.Disk), z(c.Head))
}

func (b *blk) term() string {
	ps := make([]int64, len(b.Parents))
	for i, p := range b.Parents {
		ps[i] = int64(p)
	}
	return fmt.Sprintf("(mkB %s %s %s %s %s %s)", z(int64(b.ID)), z(b.Mint), z(b.Maxt),
		z(b.Size), gallina.Bool(b.Del), listZ(ps))
}

// numerals without %Z (the case files open Z_scope): noticeably cheaper to elaborate
func z(v int64) string {
	if v < 0 {
		return fmt.Sprintf("(%d)", v)
	}
	return fmt.Sprint(v)
}
func zu(v uint64) string { return fmt.Sprint(v) }
func listZ(vs []int64) string {
	it := make([]string, len(vs))
	for i, v := range vs {
		it[i] = z(v)
	}
	return gallina.List(it)
}

func blkList(bs []*blk) string {
	it := make([]string, len(bs))
	for i, b := range bs {
		it[i] = b.term()
	}
	return gallina.List(it)
}

func idList(ids []int) string {
	v := make([]int64, len(ids))
	for i, x := range ids {
		v[i] = int64(x)
	}
	return listZ(v)
}

// effMax mirrors the documented meaning of the limits (only used to steer the generator and
// to classify cases; never compared).
func (c cfg) effMax() int64 {
	if c.P > 0 && c.Disk > 0 {
		return int64(float64(c.Disk) * c.pct() / 100)
	}
	return c.MaxB
}

type pdesc struct {
	Kind   string  `json:"kind"`
	Shape  string  `json:"shape"`
	Cfg    cfg     `json:"cfg"`
	Pct    float64 `json:"pct"`
	Blocks []*blk  `json:"blocks"`
	Order  []int   `json:"order,omitempty"`
	Step   string  `json:"step,omitempty"`
	Scn    int     `json:"scenario,omitempty"`
	Obs    string  `json:"obs"`
}

var (
	meta *gallina.Meta
	cf   *gallina.CaseFile
	nid  int
	seen = map[string]bool{}
)

func must(err error) {
	if err != nil {
		panic(err)
	}
}

func openDB(dir string, opts *tsdb.Options) (*tsdb.DB, error) {
	db, err := tsdb.Open(dir, nil, nil, opts, nil)
	if err != nil {
		return nil, err
	}
	db.DisableCompactions()
	return db, nil
}

func appendHead(db *tsdb.DB, r *gen.Rand, t0 int64, nSeries int) int64 {
	app := db.Appender(context.Background())
	for s := 0; s < nSeries; s++ {
		l := labels.FromStrings("__name__", "m", "s", fmt.Sprint(r.Intn(1000)), "pad", strings.Repeat("x", r.Intn(200)))
		if _, err := app.Append(0, l, t0, float64(s)); err != nil {
			_ = app.Rollback()
			return t0
		}
	}
	must(app.Commit())
	return t0 + 1
}

// ---------- stream A ----------

func sortedIDs(m map[ulid.ULID]struct{}, idx map[ulid.ULID]int) []int {
	r := make([]int, 0, len(m))
	for u := range m {
		r = append(r, idx[u])
	}
	sort.Ints(r)
	return r
}

func mkULID(r *gen.Rand) ulid.ULID {
	var u ulid.ULID
	for i := 0; i < 16; i += 8 {
		v := r.U64()
		for j := 0; j < 8; j++ {
			u[i+j] = byte(v >> (8 * j))
		}
	}
	u[0] &= 0x7f // keep the base32 text form valid (top 3 bits of the 130-bit string are zero anyway)
	return u
}

// limits steered at the cumulative sums / MaxTime differences of the layout
func genCfg(r *gen.Rand, bs []*blk, head int64, wild bool) cfg {
	c := cfg{Head: head}
	sorted := append([]*blk{}, bs...)
	sort.SliceStable(sorted, func(i, j int) bool { return sorted[i].Maxt > sorted[j].Maxt })
	// duration
	switch k := r.Intn(10); {
	case k < 2 || len(sorted) == 0:
		c.Dur = 0
	case k < 7:
		d := sorted[0].Maxt - sorted[r.Intn(len(sorted))].Maxt
		c.Dur = d + r.Range(-1, 1)
		if c.Dur < 0 && !wild {
			c.Dur = 1
		}
	case k < 9:
		c.Dur = r.Range(1, 2000)
	default:
		if wild {
			c.Dur = r.PickI64(-1, -100, math.MaxInt64, math.MinInt64, 1)
		} else {
			c.Dur = r.Range(1, 50)
		}
	}
	// size limit target
	target := int64(0)
	switch k := r.Intn(10); {
	case k < 2:
		target = 0
	case k < 8 && len(sorted) > 0:
		cum := head
		n := r.Intn(len(sorted)) + 1
		for _, b := range sorted[:n] {
			cum += b.Size
		}
		target = cum + r.Range(-1, 1)
	case k < 9:
		target = r.Range(1, 1<<20)
	default:
		if wild {
			target = r.PickI64(-1, math.MaxInt64, math.MinInt64, 1)
		} else {
			target = head + r.Range(0, 3)
		}
	}
	c.MaxB = target
	// percentage
	if r.Chance(1, 3) {
		c.P = gen.Pick(r, []float64{1, 10, 12.5, 25, 50, 100, 0.5, 200, 0.75, 99, 33, 33.3, 0.1, 66.6667, 1e-3, 7.3, 99.99})
		if r.Chance(1, 5) {
			c.P = r.Float() * 100
		}
		if r.Chance(1, 8) {
			c.P = -c.P
		}
		if r.Chance(1, 8) {
			c.P = 0
		}
		if target > 0 && target < 1<<38 && c.P > 0 {
			// disk size such that disk*pct/100 lands on target or next to it
			c.Disk = uint64(int64(math.Ceil(float64(target)*100/c.P)) + r.Range(-1, 1))
			if int64(c.Disk) < 0 {
				c.Disk = 0
			}
			c.MaxB = r.PickI64(0, target, 1, target*2) // must be ignored when the percentage applies
		} else {
			c.Disk = uint64(r.Range(0, 1<<30))
		}
		if r.Chance(1, 12) { // float64(diskSize) itself rounds
			c.Disk = uint64(r.Range(1<<53, 1<<60))
		}
		if r.Chance(1, 10) {
			c.Disk = 0 // FsSize failed: fall back to MaxBytes
		}
	}
	return c
}

func classify(c cfg, nT, nS, n int, ties, straddle bool) string {
	var p []string
	if nT > 0 {
		p = append(p, "time")
	}
	if nS > 0 {
		p = append(p, "size")
	}
	if len(p) == 0 {
		p = append(p, "keep-all")
	}
	if nS == n && n > 0 {
		p = append(p, "all-gone")
	}
	if ties {
		p = append(p, "ties")
	}
	if straddle {
		p = append(p, "tie-at-limit")
	}
	return strings.Join(p, "+")
}

func streamA(f gallina.Flags, db *tsdb.DB) {
	var fsSize uint64
	tsdb.VerifC09SetFsSizeFunc(db, func(string) uint64 { return fsSize })
	n := f.Count(1200, 20000)
	headT := int64(1) << 41
	r0 := gen.Fork(f.Seed, 1<<30)
	type fixed struct {
		name string
		bs   []*blk
		c    cfg
	}
	// corpus: the layouts of TestTimeRetention / TestBeyondSizeRetentionWithPercentage and tie shapes
	corpus := []fixed{
		{"time-retention-test", []*blk{{Mint: 500, Maxt: 900}, {Mint: 1000, Maxt: 1500}, {Mint: 1500, Maxt: 2000}}, cfg{Dur: 1000}},
		{"tie-at-size-limit", []*blk{{Maxt: 100, Size: 10}, {Maxt: 100, Size: 20}, {Maxt: 100, Size: 30}, {Maxt: 50, Size: 1}}, cfg{MaxB: 35}},
		{"tie-at-time-limit", []*blk{{Maxt: 100}, {Maxt: 90}, {Maxt: 90}, {Maxt: 89}}, cfg{Dur: 10}},
		{"pct-10", []*blk{{Maxt: 3, Size: 1024}, {Maxt: 2, Size: 1024}, {Maxt: 1, Size: 1024}}, cfg{P: 10, Disk: 20480}},
		{"maxt-span-overflow", []*blk{{Maxt: math.MaxInt64}, {Maxt: 0}, {Maxt: math.MinInt64}}, cfg{Dur: 5}},
		{"size-sum-overflow", []*blk{{Maxt: 3, Size: math.MaxInt64}, {Maxt: 2, Size: 5}, {Maxt: 1, Size: 7}}, cfg{MaxB: 100}},
	}
	for i := 0; i < n+len(corpus); i++ {
		r := gen.Fork(f.Seed, i)
		var bs []*blk
		var c cfg
		corp := ""
		wild := false
		if i < len(corpus) {
			bs, c, corp = corpus[i].bs, corpus[i].c, corpus[i].name
		} else {
			if i%97 == 0 { // let the real head size move
				headT = appendHead(db, r0, headT, 1+r0.Intn(20))
			}
			wild = r.Chance(1, 12)
			k := r.Intn(9)
			if r.Chance(1, 14) {
				k = 13 + r.Intn(24) // beyond the insertion-sort threshold of pdqsort
			}
			base := r.Range(-1000, 1000)
			if wild {
				base = r.PickI64(math.MinInt64, math.MaxInt64-5000, -(1 << 62), 1<<62, 0)
			}
			step := r.PickI64(1, 10, 100)
			span := int64(r.Intn(6) + 1)
			if k > 12 {
				span = int64(r.Intn(8) + 2)
			}
			big := r.Chance(1, 6)
			for j := 0; j < k; j++ {
				b := &blk{}
				b.Maxt = base + r.Range(0, span)*step
				if wild && r.Chance(1, 4) {
					b.Maxt = r.PickI64(math.MinInt64, math.MaxInt64, 0, -1)
				}
				w := r.Range(0, 3) * step
				if b.Maxt >= math.MinInt64+w {
					b.Mint = b.Maxt - w
				} else {
					b.Mint = b.Maxt
				}
				b.Size = r.Range(0, 40)
				if big {
					b.Size = r.Range(0, 1<<36)
				}
				if wild && r.Chance(1, 5) {
					b.Size = r.PickI64(math.MaxInt64, math.MaxInt64/2, 1<<62)
				}
				b.Del = r.Chance(1, 8)
				bs = append(bs, b)
			}
		}
		idx := map[ulid.ULID]int{}
		real := make([]*tsdb.Block, len(bs))
		for j, b := range bs {
			b.ID, b.MetaOK, b.OpenOK = j, true, true
			b.U = mkULID(r)
			idx[b.U] = j
			m := tsdb.BlockMeta{ULID: b.U, MinTime: b.Mint, MaxTime: b.Maxt, Version: 1}
			m.Compaction.Deletable = b.Del
			real[j] = tsdb.VerifC09NewBlock(m, b.Size)
		}
		head := db.Head().Size()
		if corp == "" {
			c = genCfg(r, bs, head, wild)
		}
		c.Head = head
		fsSize = c.Disk
		tsdb.VerifC09SetRetention(db, c.Dur, c.MaxB, c.pct())
		D := tsdb.VerifC09DeletableBlocks(db, real) // sorts `real` in place
		order := make([]*blk, len(real))
		orderIDs := make([]int, len(real))
		for j, rb := range real {
			order[j] = bs[idx[rb.Meta().ULID]]
			orderIDs[j] = order[j].ID
		}
		T := tsdb.BeyondTimeRetention(db, real)
		S := tsdb.BeyondSizeRetention(db, real)
		dI, tI, sI := sortedIDs(D, idx), sortedIDs(T, idx), sortedIDs(S, idx)

		term := fmt.Sprintf("%s %s %s %s %s %s", c.term(), blkList(bs), idList(orderIDs), idList(dI), idList(tI), idList(sI))
		if seen[term] {
			continue
		}
		seen[term] = true
		ties, straddle := false, false
		for j := 1; j < len(order); j++ {
			if order[j].Maxt == order[j-1].Maxt {
				ties = true
				inS := func(id int) bool {
					for _, x := range sI {
						if x == id {
							return true
						}
					}
					return false
				}
				if inS(order[j].ID) != inS(order[j-1].ID) {
					straddle = true
				}
			}
		}
		class := classify(c, len(tI), len(sI), len(bs), ties, straddle)
		if wild {
			class = "wild:" + class
		}
		if len(bs) > 12 {
			meta.Hit("A:n>12")
		}
		if c.P > 0 && c.Disk > 0 {
			meta.Hit("A:percentage")
		}
		meta.Hit("A:" + class)
		if (len(tI) > 0 || len(sI) > 0) && len(dI) < len(bs) {
			meta.Nontrivial++
		}
		cf.Add(fmt.Sprintf("CPure %s %s", z(int64(nid)), term))
		shape := "pure:" + class
		if corp != "" {
			shape = "corpus:" + corp
		}
		meta.Case(nid, pdesc{Kind: "pure", Shape: shape, Cfg: c, Pct: c.pct(), Blocks: bs, Order: orderIDs,
			Obs: fmt.Sprintf("D=%v T=%v S=%v", dI, tI, sI)})
		meta.Evaluations++
		nid++
	}
}

// ---------- stream B ----------

type tmpl struct {
	dir   string
	files []string // relative paths other than meta.json
	bytes int64    // their total size
}

func makeTemplate(root string, nSeries int) tmpl {
	var ss []storage.Series
	for i := 0; i < nSeries; i++ {
		smp := chunks.GenerateSamples(0, 20)
		ss = append(ss, storage.NewListSeries(labels.FromStrings("__name__", "m", "i", fmt.Sprint(i)), smp))
	}
	d := filepath.Join(root, fmt.Sprintf("tmpl%d", nSeries))
	must(os.MkdirAll(d, 0o755))
	bdir, err := tsdb.CreateBlock(ss, d, 1000, promslog.NewNopLogger())
	must(err)
	t := tmpl{dir: bdir}
	must(filepath.WalkDir(bdir, func(p string, e fs.DirEntry, err error) error {
		if err != nil {
			return err
		}
		if e.IsDir() || e.Name() == "meta.json" {
			return nil
		}
		rel, _ := filepath.Rel(bdir, p)
		st, err := os.Stat(p)
		must(err)
		t.files = append(t.files, rel)
		t.bytes += st.Size()
		return nil
	}))
	return t
}

type scenario struct {
	dir    string
	r      *gen.Rand
	tmpls  []tmpl
	blocks map[int]*blk // every block ever named (on disk or only referenced as a parent)
	byU    map[ulid.ULID]int
	next   int
	c      cfg
	fsSize uint64
	db     *tsdb.DB
	cur    **tsdb.DB // what the BlocksToDelete wrapper uses
	order  *[]ulid.ULID
	headT  int64
	idx    int
}

func (s *scenario) newBlk(mint, maxt int64) *blk {
	b := &blk{ID: s.next, Mint: mint, Maxt: maxt, MetaOK: true, OpenOK: true, U: mkULID(s.r)}
	s.next++
	s.blocks[b.ID] = b
	s.byU[b.U] = b.ID
	return b
}

// write block b to disk; pad meta.json so that the block has the wanted extra bytes
func (s *scenario) stage(b *blk, pad int64) {
	t := s.tmpls[s.r.Intn(len(s.tmpls))]
	d := filepath.Join(s.dir, b.U.String())
	must(os.MkdirAll(filepath.Join(d, "chunks"), 0o755))
	for _, f := range t.files {
		if !b.OpenOK && f == "index" {
			continue // OpenBlock fails: "corrupted"
		}
		must(os.Link(filepath.Join(t.dir, f), filepath.Join(d, f)))
	}
	m := tsdb.BlockMeta{ULID: b.U, MinTime: b.Mint, MaxTime: b.Maxt, Version: 1}
	m.Compaction.Level = 1
	m.Compaction.Deletable = b.Del
	for _, p := range b.Parents {
		pb := s.blocks[p]
		m.Compaction.Parents = append(m.Compaction.Parents, tsdb.BlockDesc{ULID: pb.U, MinTime: pb.Mint, MaxTime: pb.Maxt})
	}
	js, err := json.Marshal(m)
	must(err)
	if !b.MetaOK {
		js = []byte(`{"ulid": "broken`)
	} else {
		js = append(js, []byte(strings.Repeat(" ", int(pad)))...)
	}
	must(os.WriteFile(filepath.Join(d, "meta.json"), js, 0o644))
	b.Size = t.bytes + int64(len(js)) // chunks + index + tombstones + meta.json, as measured here
}

func (s *scenario) listDirs() []int { return s.listDirs2(false) }

func (s *scenario) listDirs2(post bool) []int {
	es, err := os.ReadDir(s.dir)
	must(err)
	var r []int
	for _, e := range es {
		if !e.IsDir() {
			continue
		}
		u, err := ulid.ParseStrict(e.Name())
		if err != nil {
			if post && strings.Contains(e.Name(), ".tmp-for-") {
				meta.GoViol = append(meta.GoViol, gallina.GoViolation{ID: fmt.Sprint(nid), Shape: "leftover-tmp-dir", What: e.Name()})
			}
			continue
		}
		id, ok := s.byU[u]
		if !ok {
			panic("unknown block dir " + e.Name())
		}
		r = append(r, id)
	}
	return r
}

func trunc(s string) string {
	if len(s) > 60 {
		return s[:60]
	}
	return s
}

func dirBytes(d string) int64 {
	var n int64
	_ = filepath.WalkDir(d, func(p string, e fs.DirEntry, err error) error {
		if err != nil {
			return nil
		}
		if !e.IsDir() {
			if st, err := os.Stat(p); err == nil {
				n += st.Size()
			}
		}
		return nil
	})
	return n
}

func dirListing(d string) string {
	var sb strings.Builder
	_ = filepath.WalkDir(d, func(p string, e fs.DirEntry, err error) error {
		if err != nil {
			return nil
		}
		if !e.IsDir() {
			st, _ := os.Stat(p)
			var sz int64
			if st != nil {
				sz = st.Size()
			}
			fmt.Fprintf(&sb, "%s:%d;", p, sz)
		}
		return nil
	})
	return sb.String()
}

func (s *scenario) headPrint(withFiles bool) string {
	h := s.db.Head()
	p := fmt.Sprintf("series=%d", h.NumSeries())
	if withFiles { // across a reopen Head.MinTime() is re-initialised to the blocks' max time; not data
		p += fmt.Sprintf(" mint=%d", h.MinTime())
	}
	if withFiles || h.NumSeries() > 0 {
		p += fmt.Sprintf(" maxt=%d", h.MaxTime())
	}
	if withFiles {
		p += fmt.Sprintf(" size=%d wal=%s chunks=%s", h.Size(), dirListing(filepath.Join(s.dir, "wal")), dirListing(filepath.Join(s.dir, "chunks_head")))
	}
	return p
}

func (s *scenario) loadedIDs() []int {
	var r []int
	for _, b := range s.db.Blocks() {
		r = append(r, s.byU[b.Meta().ULID])
	}
	return r
}

func (s *scenario) opts() *tsdb.Options {
	o := tsdb.DefaultOptions()
	o.NoLockfile = true
	o.RetentionDuration = s.c.Dur
	o.MaxBytes = s.c.MaxB
	o.MaxPercentage = s.c.pct()
	o.FsSizeFunc = func(string) uint64 { return s.fsSize }
	return o
}

// one observed reload: `reopen` = crash + tsdb.Open instead of reloadBlocks on the live DB
func (s *scenario) observe(step string, reopen bool) bool {
	diskIDs := s.listDirs()
	disk := make([]string, len(diskIDs))
	var dblks []*blk
	for i, id := range diskIDs {
		b := s.blocks[id]
		disk[i] = fmt.Sprintf("mkD %s %s %s", b.term(), gallina.Bool(b.MetaOK), gallina.Bool(b.OpenOK))
		dblks = append(dblks, b)
	}
	prev := s.loadedIDs()
	headBytes := dirBytes(filepath.Join(s.dir, "wal")) + dirBytes(filepath.Join(s.dir, "wbl")) + dirBytes(filepath.Join(s.dir, "chunks_head"))
	s.c.Head = s.db.Head().Size()
	headsumOK := headBytes == s.c.Head
	before := s.headPrint(!reopen)
	*s.order = nil
	var err error
	orderTerm := "None"
	var orderIDs []int
	if reopen {
		must(s.db.Close())
		*s.cur = nil
		// the size the reload inside Open sees: what is on disk after the close
		s.c.Head = dirBytes(filepath.Join(s.dir, "wal")) + dirBytes(filepath.Join(s.dir, "wbl")) + dirBytes(filepath.Join(s.dir, "chunks_head"))
		var db *tsdb.DB
		db, err = openDB(s.dir, s.opts()) // default BlocksToDelete: the order is not observable
		if err != nil {
			panic(fmt.Sprintf("reopen failed: %v", err))
		}
		s.db = db
		// head size after replay can differ (new segment); the size the reload saw is the one at Open.
	} else {
		err = tsdb.VerifC09ReloadBlocks(s.db)
		if *s.cur != nil {
			for _, u := range *s.order {
				orderIDs = append(orderIDs, s.byU[u])
			}
			orderTerm = "(Some " + idList(orderIDs) + ")"
		}
	}
	after := s.headPrint(!reopen)
	ob := s.loadedIDs()
	od := s.listDirs2(true)
	term := fmt.Sprintf("%s %s %s %s %s %s %s %s %s", s.c.term(), gallina.List(disk), idList(prev), orderTerm,
		gallina.Bool(err != nil), idList(ob), idList(od), gallina.Bool(before == after), gallina.Bool(headsumOK))
	cf.Add(fmt.Sprintf("CReload %s %s", z(int64(nid)), term))
	// classification
	gone := len(diskIDs) - len(od)
	class := step
	if err != nil {
		class += "+err"
		meta.Hit("B:error")
	}
	if orderTerm == "None" {
		meta.Hit("B:order-unobserved")
	}
	if gone > 0 {
		meta.Hit("B:deleted-some")
	}
	meta.Hit("B:" + step)
	if gone > 0 && len(od) > 0 && !seen[term] {
		meta.Nontrivial++
	}
	seen[term] = true
	meta.Case(nid, pdesc{Kind: "reload", Shape: "reload:" + class, Cfg: s.c, Pct: s.c.pct(), Blocks: dblks, Order: orderIDs, Step: step, Scn: s.idx,
		Obs: fmt.Sprintf("err=%v blocks=%v dirs=%v prev=%v headsame=%v[%s|%s] headsum=%v(%d/%d)", err, ob, od, prev, before == after, trunc(before), trunc(after), headsumOK, headBytes, s.c.Head)})
	meta.Evaluations++
	nid++
	return err == nil
}

func (s *scenario) applyCfg(viaConfig bool) {
	s.fsSize = s.c.Disk
	if viaConfig && s.c.Dur >= 0 && s.c.MaxB >= 0 {
		conf := &config.Config{}
		conf.StorageConfig.TSDBConfig = &config.TSDBConfig{Retention: &config.TSDBRetentionConfig{
			Time: model.Duration(time.Duration(s.c.Dur) * time.Millisecond), Size: 0, Percentage: s.c.pct()}}
		conf.StorageConfig.TSDBConfig.Retention.Size.UnmarshalText([]byte(fmt.Sprintf("%dB", s.c.MaxB)))
		must(s.db.ApplyConfig(conf))
		meta.Hit("B:apply-config")
		return
	}
	tsdb.VerifC09SetRetention(s.db, s.c.Dur, s.c.MaxB, s.c.pct())
}

func (s *scenario) onDisk() []*blk {
	var r []*blk
	for _, id := range s.listDirs() {
		r = append(r, s.blocks[id])
	}
	return r
}

func (s *scenario) loadedBlks() []*blk {
	var r []*blk
	for _, id := range s.loadedIDs() {
		r = append(r, s.blocks[id])
	}
	return r
}

// true if some tie group would make all_orders explode
func tooManyTies(bs []*blk) bool {
	cnt := map[int64]int{}
	groups := 0
	for _, b := range bs {
		if b.MetaOK && b.OpenOK {
			cnt[b.Maxt]++
		}
	}
	for _, n := range cnt {
		if n > 3 {
			return true
		}
		if n > 1 {
			groups++
		}
	}
	return groups > 2
}

func runScenario(f gallina.Flags, i int, tmpls []tmpl) {
	r := gen.Fork(f.Seed, 1<<20+i)
	dir, err := os.MkdirTemp(f.Out, "c09db")
	must(err)
	defer os.RemoveAll(dir)
	var cur *tsdb.DB
	var order []ulid.ULID
	s := &scenario{dir: dir, r: r, tmpls: tmpls, blocks: map[int]*blk{}, byU: map[ulid.ULID]int{}, cur: &cur, order: &order,
		headT: int64(1) << 41, idx: i}
	o := s.opts()
	o.BlocksToDelete = func(bs []*tsdb.Block) map[ulid.ULID]struct{} {
		if cur == nil {
			if len(bs) != 0 {
				panic("BlocksToDelete before the DB exists")
			}
			return nil
		}
		res := tsdb.DefaultBlocksToDelete(cur)(bs) // deletableBlocks: sorts bs in place
		order = order[:0]
		for _, b := range bs {
			order = append(order, b.Meta().ULID)
		}
		return res
	}
	db, err := openDB(dir, o)
	must(err)
	s.db, cur = db, db
	defer func() { _ = s.db.Close() }()

	if r.Chance(1, 2) {
		s.headT = appendHead(s.db, r, s.headT, 1+r.Intn(30))
	}
	// initial layout
	k := r.Intn(7)
	step := r.PickI64(10, 100)
	t := r.Range(-300, 300)
	for j := 0; j < k; j++ {
		w := r.Range(1, 3) * step
		mint := t
		switch r.Intn(6) {
		case 0: // overlaps the previous block
			mint = t - r.Range(1, 2)*step
		case 1: // gap
			mint = t + step
		}
		maxt := mint + w
		if j > 0 && r.Chance(1, 5) { // same MaxTime as an existing block
			prevB := s.blocks[r.Intn(s.next)]
			maxt = prevB.Maxt
			if mint > maxt {
				mint = maxt - step
			}
		}
		b := s.newBlk(mint, maxt)
		b.Del = r.Chance(1, 12)
		if r.Chance(1, 14) {
			b.OpenOK = false
		} else if r.Chance(1, 16) {
			b.MetaOK = false
		}
		if r.Chance(1, 8) { // parents that no longer exist (or never did)
			p := s.newBlk(mint, mint+step)
			b.Parents = []int{p.ID}
		}
		if tooManyTies(append(s.onDisk(), b)) {
			b.Maxt++
		}
		s.stage(b, r.Range(0, 300))
		if maxt > t {
			t = maxt
		}
	}
	s.c = genCfg(r, s.onDisk(), s.db.Head().Size(), false)
	s.applyCfg(false)
	if !s.observe("initial", false) {
		// corrupted block without a child: repair it (as an operator would) and go on
		for _, b := range s.onDisk() {
			if !b.OpenOK {
				must(os.RemoveAll(filepath.Join(dir, b.U.String())))
			}
		}
		s.observe("after-repair", false)
	}
	nSteps := 2 + r.Intn(3)
	for st := 0; st < nSteps; st++ {
		reopen := r.Chance(1, 4)
		for _, b := range s.onDisk() { // Open fails on a corrupted block without child; not the topic here
			if !b.OpenOK {
				reopen = false
			}
		}
		switch kind := r.Intn(8) - 2; {
		case kind <= 1: // a compaction finished writing its result; crash at any prefix of the parent deletions
			ld := s.loadedBlks()
			if len(ld) < 2 {
				st--
				if r.Chance(1, 2) {
					nSteps--
				}
				nb := s.newBlk(t, t+step)
				t += step
				s.stage(nb, r.Range(0, 300))
				s.observe("new-block", false)
				continue
			}
			a := r.Intn(len(ld) - 1)
			n := 2 + r.Intn(2)
			if a+n > len(ld) {
				n = len(ld) - a
			}
			ps := ld[a : a+n]
			mint, maxt := ps[0].Mint, ps[0].Maxt
			child := s.newBlk(0, 0)
			for _, p := range ps {
				if p.Mint < mint {
					mint = p.Mint
				}
				if p.Maxt > maxt {
					maxt = p.Maxt
				}
				child.Parents = append(child.Parents, p.ID)
			}
			child.Mint, child.Maxt = mint, maxt
			if r.Chance(1, 10) {
				child.Del = true // compaction produced an empty block
			}
			if tooManyTies(append(s.onDisk(), child)) {
				reopen = false
			}
			s.stage(child, r.Range(0, 400))
			// crash prefix: some parents already removed, one possibly half-way (renamed to .tmp-for-deletion)
			nDel := r.Intn(len(ps) + 1)
			if !reopen {
				nDel = 0
				if r.Chance(1, 3) {
					nDel = r.Intn(len(ps) + 1)
				}
			}
			perm := r.Intn(len(ps))
			for q := 0; q < nDel; q++ {
				p := ps[(perm+q)%len(ps)]
				must(os.RemoveAll(filepath.Join(dir, p.U.String())))
			}
			name := fmt.Sprintf("compaction-crash-%d-of-%d", nDel, len(ps))
			if reopen {
				if r.Chance(1, 3) && nDel < len(ps) {
					p := ps[(perm+nDel)%len(ps)]
					must(os.Rename(filepath.Join(dir, p.U.String()), filepath.Join(dir, p.U.String()+".tmp-for-deletion")))
					name += "+half"
				}
				s.observe(name+"+reopen", true)
			} else {
				s.observe(name, false)
			}
		case kind == 2: // retention settings change at run time
			s.c = genCfg(r, s.onDisk(), s.db.Head().Size(), false)
			s.applyCfg(r.Chance(2, 3))
			s.observe("config-change", false)
		case kind == 3: // head compaction wrote a new newest block (or a backfill wrote an old one)
			var nb *blk
			if r.Chance(1, 4) {
				lo := t - r.Range(5, 30)*step
				nb = s.newBlk(lo, lo+step)
			} else {
				nb = s.newBlk(t, t+r.Range(1, 3)*step)
				t = nb.Maxt
			}
			if tooManyTies(append(s.onDisk(), nb)) {
				nb.Maxt++
			}
			s.stage(nb, r.Range(0, 2000))
			if r.Chance(1, 2) {
				s.c = genCfg(r, s.onDisk(), s.db.Head().Size(), false)
				s.applyCfg(false)
			}
			s.observe("new-block", false)
		case kind == 4: // the head grows: same blocks, less room
			s.headT = appendHead(s.db, r, s.headT, 1+r.Intn(40))
			if r.Chance(1, 2) {
				s.c = genCfg(r, s.onDisk(), s.db.Head().Size(), false)
				s.applyCfg(false)
			}
			s.observe("head-append", false)
		default:
			if reopen && !tooManyTies(s.onDisk()) {
				s.observe("reopen", true)
			} else {
				s.observe("reload-again", false)
			}
		}
	}
}

// corpus scenario: size retention counts the parents that the same reload removes
// (C09_size_tight_refuted): X old and independent, A and B compacted into C, limit such that
// head + C + X fits but head + C + B + A + X does not.
func quirkScenario(f gallina.Flags, tmpls []tmpl) {
	r := gen.Fork(f.Seed, 1<<29)
	dir, err := os.MkdirTemp(f.Out, "c09db")
	must(err)
	defer os.RemoveAll(dir)
	var cur *tsdb.DB
	var order []ulid.ULID
	s := &scenario{dir: dir, r: r, tmpls: tmpls[:1], blocks: map[int]*blk{}, byU: map[ulid.ULID]int{}, cur: &cur, order: &order, headT: int64(1) << 41, idx: -1}
	o := s.opts()
	o.BlocksToDelete = func(bs []*tsdb.Block) map[ulid.ULID]struct{} {
		if cur == nil {
			return nil
		}
		res := tsdb.DefaultBlocksToDelete(cur)(bs)
		order = order[:0]
		for _, b := range bs {
			order = append(order, b.Meta().ULID)
		}
		return res
	}
	db, err := openDB(dir, o)
	must(err)
	s.db, cur = db, db
	defer func() { _ = s.db.Close() }()
	x, a, b := s.newBlk(0, 50), s.newBlk(50, 100), s.newBlk(100, 200)
	s.stage(x, 0)
	s.stage(a, 0)
	s.stage(b, 0)
	s.applyCfg(false)
	s.observe("corpus-quirk-setup", false)
	c := s.newBlk(50, 200)
	c.Parents = []int{a.ID, b.ID}
	s.stage(c, 0)
	s.c.MaxB = s.db.Head().Size() + c.Size + a.Size + b.Size + x.Size - 1
	s.applyCfg(false)
	s.observe("corpus-quirk", false)
	left := s.loadedIDs()
	if len(left) == 1 && left[0] == c.ID {
		meta.Hit("B:quirk-superseded-counted-reproduced")
		meta.Notes = append(meta.Notes, fmt.Sprintf("size retention counted superseded parents: limit %d, survivors+X would need %d, X deleted", s.c.MaxB, s.db.Head().Size()+c.Size+x.Size))
	} else {
		meta.Hit("B:quirk-superseded-counted-not-reproduced")
	}
}

func main() {
	f := gallina.ParseFlags()
	meta = gallina.NewMeta("C09", f.Seed, f.Tier)
	meta.Rule = "stream A: corpus + seeded layouts (0-8 or 13-52 blocks, MaxTime drawn from few values to force ties, limits placed on/next to every MaxTime difference and cumulative size, dyadic percentages, int64 extremes in the 'wild' twelfth); stream B: seeded histories of reloads on real directories (ties, overlaps, Deletable flags, dangling parents, corrupted and unreadable blocks, interrupted compactions, config changes, head growth, crash+reopen). Non-trivial = retention deleted at least one block and kept at least one (A), or the reload removed some but not all block directories (B); distinct by the printed case term"
	cf = &gallina.CaseFile{Dir: f.Out, Type: "case", PerShard: 400,
		Preamble: "From Coq Require Import List ZArith.\nFrom Verif Require Import lib.Int64 model.Retention corr.CorrC09.\nImport ListNotations.\nOpen Scope Z_scope.\n",
		Footer:   gallina.StdFooter}
	root, err := os.MkdirTemp(f.Out, "c09root")
	must(err)
	defer os.RemoveAll(root)

	// stream B first (its cases are the expensive ones; ids start at 0)
	tmpls := []tmpl{makeTemplate(root, 1), makeTemplate(root, 7), makeTemplate(root, 40)}
	nB := f.Count(90, 1500)
	quirkScenario(f, tmpls)
	for i := 0; i < nB; i++ {
		runScenario(f, i, tmpls)
	}

	adir := filepath.Join(root, "adb")
	must(os.MkdirAll(adir, 0o755))
	o := tsdb.DefaultOptions()
	o.NoLockfile = true
	db, err := openDB(adir, o)
	must(err)
	streamA(f, db)
	must(db.Close())

	cf.Flush()
	meta.Write(f.Out)
}

package main

import (
	"fmt"
	"os"

	"github.com/prometheus/prometheus/promql/parser"
)

func main() {
	p := parser.NewParser(parser.Options{EnableExperimentalFunctions: true, ExperimentalDurationExpr: true, EnableExtendedRangeSelectors: true, EnableBinopFillModifiers: true})
	for _, s := range os.Args[1:] {
		e, err := p.ParseExpr(s)
		if err != nil {
			fmt.Printf("%q: ERR %v\n", s, err)
			continue
		}
		s2 := e.String()
		e2, err2 := p.ParseExpr(s2)
		s3 := ""
		if err2 == nil {
			s3 = e2.String()
		}
		fmt.Printf("%q -> %q -> err=%v -> %q pretty=%q\n", s, s2, err2, s3, parser.Prettify(e))
	}
}

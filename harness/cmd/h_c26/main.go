// h_c26: correspondence harness for C26 (PromQL expressions print to text that parses back unchanged).
//
// Streams: (1) corpus of fixed reproducers and syntax variants, parsed by the real ParseExpr;
// (2) generated well-typed real ASTs (parser-shaped); (3) mutated / random strings (totality).
// Every accepted expression e goes through: real e.String() and parser.Prettify(e) -> real lexer
// (items written as Gallina tokens) -> real ParseExpr of both texts -> String() of the re-parsed
// expression. Coq compares the model's printer/parser with these (agree) and evaluates the
// round-trip property on the implementation's own outputs (holds). Expressions outside the
// modelled fragment (duration expressions) are judged on the Go side with a canonical dump.
package main

import (
	"errors"
	"fmt"
	"math"
	"sort"
	"strconv"
	"strings"
	"time"

	"github.com/prometheus/prometheus/promql/parser"

	"verif/harness/internal/gallina"
	"verif/harness/internal/gen"
)

type desc struct {
	Stream string `json:"stream"`
	Opts   string `json:"opts"`
	Source string `json:"source,omitempty"`
	Text   string `json:"text"`
	Shape  string `json:"shape"`
	Re     string `json:"reparse,omitempty"`
}

func optsOf(i int) parser.Options {
	return parser.Options{
		EnableExperimentalFunctions:  i&1 != 0,
		EnableExtendedRangeSelectors: i&2 != 0,
		EnableBinopFillModifiers:     i&4 != 0,
		ExperimentalDurationExpr:     i&8 != 0,
	}
}

func optsName(o parser.Options) string {
	b := func(x bool) string {
		if x {
			return "1"
		}
		return "0"
	}
	return "expfn=" + b(o.EnableExperimentalFunctions) + ",ext=" + b(o.EnableExtendedRangeSelectors) + ",fill=" + b(o.EnableBinopFillModifiers) + ",durexpr=" + b(o.ExperimentalDurationExpr)
}

func gopts(o parser.Options) string {
	return fmt.Sprintf("(mkO %s %s %s)", gallina.Bool(o.EnableExperimentalFunctions), gallina.Bool(o.EnableExtendedRangeSelectors), gallina.Bool(o.EnableBinopFillModifiers))
}

// safeParse runs the real ParseExpr; internal = the totality part of the property is violated.
func safeParse(o parser.Options, s string) (e parser.Expr, err error, internal string) {
	defer func() {
		if r := recover(); r != nil {
			e, err, internal = nil, fmt.Errorf("panic: %v", r), fmt.Sprintf("panic escaped ParseExpr: %v", r)
		}
	}()
	e, err = parser.NewParser(o).ParseExpr(s)
	if err != nil {
		var pe parser.ParseErrors
		if !errors.As(err, &pe) {
			internal = "non-ParseErrors error: " + err.Error()
		} else if len(pe) == 0 {
			internal = "empty ParseErrors"
		}
	} else if e == nil {
		internal = "nil expression without error"
	}
	return
}

func safeString(f func() string) (s string, perr string) {
	defer func() {
		if r := recover(); r != nil {
			perr = fmt.Sprint(r)
		}
	}()
	return f(), ""
}

var badGroupLabel = map[string]bool{"without": true, "inf": true, "nan": true}

// shapeOf names the known-finding shape an accepted expression falls into ("" = none).
func shapeOf(e parser.Expr, o parser.Options) string {
	shape := ""
	set := func(s string) {
		if shape == "" {
			shape = s
		}
	}
	labelsBad := func(ls []string) {
		for _, l := range ls {
			if badGroupLabel[strings.ToLower(l)] {
				set("grouping-label-keyword-unquoted")
			}
		}
	}
	subMs := func(d time.Duration) {
		if d%time.Millisecond != 0 {
			set("duration-sub-millisecond")
		} else if p := abs64(int64(d)); durRead(p) != p {
			set("duration-float-seconds-precision")
		}
	}
	tsBad := func(ts *int64) {
		if ts == nil {
			return
		}
		if a := abs64(*ts); *ts != math.MinInt64 && tsRead(a) != a {
			set("at-timestamp-float-precision")
		}
	}
	// A unary plus in front of an offset duration is not printed:
	//  - `offset +(5)` (rule unary_op "(" duration_expr ")", not gated) prints as `offset (5)`: rejected when
	//    ExperimentalDurationExpr is off, and with the flag on a following arithmetic operator is absorbed into
	//    the duration (`foo offset +(1m) + bar` -> `foo offset (1m) + bar`);
	//  - `offset +step()` / `+range()` / `+min_of(..)` builds DurationExpr{ADD, RHS}, printed without the plus and
	//    re-parsed as the bare RHS (same text, different AST).
	offx := func(d *parser.DurationExpr, beforeOp bool) {
		if d == nil {
			return
		}
		// durexpr-offset-absorbs-following-binop: the printed offset duration expression starts with "(" (only
		// then the grammar reads it through offset_duration_expr: duration_expr, which continues over + - * / % ^)
		// and the selector is directly followed by an arithmetic operator. In the source a later modifier
		// (`@ ..`, anchored/smoothed) or the `+( .. )` form ended the duration; the printer emits `offset` last.
		if beforeOp && strings.HasPrefix(d.String(), "(") {
			set("durexpr-offset-absorbs-following-binop")
		}
		if d.Wrapped && !o.ExperimentalDurationExpr {
			set("offset-unary-plus-paren-dropped")
		}
		if !d.Wrapped && d.Op == parser.ADD && d.LHS == nil {
			set("offset-unary-plus-ast-differs")
		}
	}
	var rightmost func(e parser.Expr) *parser.VectorSelector
	rightmost = func(e parser.Expr) *parser.VectorSelector {
		switch x := e.(type) {
		case *parser.VectorSelector:
			return x
		case *parser.BinaryExpr:
			return rightmost(x.RHS)
		case *parser.UnaryExpr:
			return rightmost(x.Expr)
		}
		return nil
	}
	// U+FFFD is printed as is by strconv.Quote and then taken for an invalid rune by the lexer
	fffd := func(ss ...string) {
		for _, s := range ss {
			if strings.Contains(s, "\uFFFD") {
				set("string-replacement-char-rejected")
			}
		}
	}
	parser.Inspect(e, func(n parser.Node, _ []parser.Node) error {
		switch x := n.(type) {
		case *parser.StringLiteral:
			fffd(x.Val)
		case *parser.AggregateExpr:
			fffd(x.Grouping...)
			labelsBad(x.Grouping)
		case *parser.BinaryExpr:
			switch x.Op {
			case parser.ADD, parser.SUB, parser.MUL, parser.DIV, parser.MOD, parser.POW:
				if vs := rightmost(x.LHS); vs != nil {
					offx(vs.OriginalOffsetExpr, true)
				}
			}
			if nl, ok := x.LHS.(*parser.NumberLiteral); ok && x.Op == parser.POW && !nl.Duration && math.IsInf(nl.Val, 1) {
				set("inf-literal-power-lhs")
			}
			if m := x.VectorMatching; m != nil {
				fffd(m.MatchingLabels...)
				fffd(m.Include...)
				labelsBad(m.MatchingLabels)
				labelsBad(m.Include)
				if l, r := m.FillValues.LHS, m.FillValues.RHS; l != nil && r != nil && *l == 0 && *r == 0 && math.Signbit(*l) != math.Signbit(*r) {
					set("fill-signed-zero")
				}
			}
		case *parser.VectorSelector:
			offx(x.OriginalOffsetExpr, false)
			for _, m := range x.LabelMatchers {
				if m != nil {
					fffd(m.Name, m.Value)
				}
			}
			subMs(x.OriginalOffset)
			tsBad(x.Timestamp)
		case *parser.MatrixSelector:
			subMs(x.Range)
		case *parser.SubqueryExpr:
			offx(x.OriginalOffsetExpr, false)
			subMs(x.Range)
			subMs(x.Step)
			subMs(x.OriginalOffset)
			tsBad(x.Timestamp)
		case *parser.NumberLiteral:
			if x.Duration {
				a := math.Abs(x.Val)
				// fixed by 08a939fd28 + 346b90dbb7 (the printer rounds to milliseconds): must not occur
				if int64(time.Duration(math.Round(a*1e3))*time.Millisecond) != int64(math.Round(a*1000))*1000000 {
					set("durlit-float-trunc")
				}
			}
		}
		return nil
	})
	return shape
}

func countNodes(e parser.Expr) int {
	n := 0
	parser.Inspect(e, func(x parser.Node, _ []parser.Node) error {
		if x != nil {
			n++
		}
		return nil
	})
	return n
}

func main() {
	f := gallina.ParseFlags()
	meta := gallina.NewMeta("C26", f.Seed, f.Tier)
	meta.Rule = "corpus texts x 16 option sets; generated parser-shaped ASTs (depth <= 4) under a random option set; mutated corpus/printed texts and random token soups (totality). One evaluation = one accepted expression taken through String/Prettify/lexer/ParseExpr/String; non-trivial = the AST has >= 3 nodes; distinct by (options, printed text)"

	// parser.Functions as the model's function table
	var fnames []string
	for n := range parser.Functions {
		fnames = append(fnames, n)
	}
	sort.Strings(fnames)
	var fts []string
	vt := map[parser.ValueType]string{parser.ValueTypeScalar: "VScalar", parser.ValueTypeVector: "VVector", parser.ValueTypeMatrix: "VMatrix", parser.ValueTypeString: "VString", parser.ValueTypeNone: "VNone"}
	for _, n := range fnames {
		fn := parser.Functions[n]
		fts = append(fts, fmt.Sprintf("(%s, (%s, %s))", gstr(n), vt[fn.ReturnType], gallina.Bool(fn.Experimental)))
	}
	pre := "From Coq Require Import List ZArith NArith.\nFrom Verif Require Import model.PromqlPrint model.PromqlParse corr.CorrC26.\nImport ListNotations.\nOpen Scope Z_scope.\n"
	ftabDef := "Definition ftab0 : ftab := " + gallina.List(fts) + ".\n"
	cf := &gallina.CaseFile{Dir: f.Out, Type: "case", PerShard: 0, Preamble: pre,
		Footer: "Definition M := Eval vm_compute in mismatches ftab0 cases.\nDefinition H := Eval vm_compute in failing_holds cases.\nPrint M.\nPrint H."}

	id := 0
	inShard := 0
	flush := func() {
		cf.Preamble = pre + strings.Join(strDefs, "\n") + "\n" + ftabDef
		cf.Flush()
		inShard = 0
	}
	seen := map[string]bool{}
	goviol := func(shape, what string, d desc) {
		d.Shape = shape
		meta.Case(id, d)
		meta.GoViol = append(meta.GoViol, gallina.GoViolation{ID: strconv.Itoa(id), Shape: shape, What: what})
		meta.Hit("go-violation:" + shape)
		id++
	}

	// runCase takes one accepted expression through the real printer / lexer / parser.
	runCase := func(e parser.Expr, o parser.Options, wf bool, stream, source string) {
		d := desc{Stream: stream, Opts: optsName(o), Source: source}
		text, perr := safeString(e.String)
		if perr != "" {
			goviol("printer-panic", "Expr.String panicked: "+perr, d)
			return
		}
		d.Text = text
		key := optsName(o) + "|" + text
		if seen[key] {
			meta.Hit("duplicate")
			return
		}
		seen[key] = true
		pretty, perr := safeString(func() string { return parser.Prettify(e) })
		if perr != "" {
			goviol("printer-panic", "Prettify panicked: "+perr, d)
			return
		}
		re, rerr, internal := safeParse(o, text)
		if internal != "" {
			goviol("parser-internal-error", internal+" on printed text "+strconv.Quote(text), d)
			return
		}
		pe, perr2, internal := safeParse(o, pretty)
		if internal != "" {
			goviol("parser-internal-error", internal+" on prettified text "+strconv.Quote(pretty), d)
			return
		}
		text2 := ""
		if rerr == nil {
			text2, perr = safeString(re.String)
			if perr != "" {
				goviol("printer-panic", "String of re-parsed expression panicked: "+perr, d)
				return
			}
			d.Re = text2
		} else {
			d.Re = "error: " + rerr.Error()
		}
		shape := shapeOf(e, o)
		d.Shape = shape
		if shape == "" {
			d.Shape = "ok"
		}
		meta.Evaluations++
		if countNodes(e) >= 3 {
			meta.Nontrivial++
		}
		meta.Hit("stream:" + stream)
		meta.Hit(fmt.Sprintf("top:%T", e))
		if shape != "" {
			meta.Hit("shape:" + shape)
		}
		if pretty != text {
			meta.Hit("prettify-splits")
		}

		cur = newOracles()
		term, why := project(e)
		var reTerm, preTerm string
		ok := why == ""
		if ok {
			reTerm, preTerm = "RErr", "RErr"
			if rerr == nil {
				t, w := project(re)
				if w != "" {
					ok, why = false, "reparsed:"+w
				}
				reTerm = "(ROther " + t + ")"
				if t == term {
					reTerm = "RSame"
				}
			}
			if perr2 == nil {
				t, w := project(pe)
				if w != "" {
					ok, why = false, "pretty-reparsed:"+w
				}
				preTerm = "(ROther " + t + ")"
				if t == term {
					preTerm = "RSame"
				}
			}
		}
		oc := cur.term()
		cur = nil
		toks, _, l1 := lexToks(text)
		ptoks, l2 := "None", true
		if pretty != text {
			ptoks, _, l2 = lexToks(pretty)
			ptoks = "(Some " + ptoks + ")"
		}
		toks2, l3 := "None", true
		if rerr == nil && text2 != text {
			toks2, _, l3 = lexToks(text2)
			toks2 = "(Some " + toks2 + ")"
		} else if rerr != nil {
			toks2 = "(Some [])"
		}
		if ok && !(l1 && l2 && l3) {
			ok, why = false, "lexer-error-on-printed-text"
		}
		if !ok {
			// outside the modelled fragment: judge the property here
			meta.Hit("outside-fragment:" + why)
			var bad []string
			if rerr != nil {
				bad = append(bad, "printed text rejected: "+rerr.Error())
			} else {
				if dump(re) != dump(e) {
					bad = append(bad, "re-parsed AST differs: "+dump(e)+" vs "+dump(re))
				}
				if text2 != text {
					bad = append(bad, "re-printed text differs: "+strconv.Quote(text2))
				}
			}
			if perr2 != nil {
				bad = append(bad, "prettified text rejected: "+perr2.Error())
			} else if dump(pe) != dump(e) {
				bad = append(bad, "prettified text parses to a different AST")
			}
			if len(bad) > 0 {
				sh := shape
				if sh == "" {
					sh = "roundtrip-outside-fragment"
				}
				goviol(sh, strconv.Quote(text)+": "+strings.Join(bad, "; "), d)
				return
			}
			meta.Case(id, d)
			id++
			return
		}
		meta.Hit("in-fragment")
		cf.Add(fmt.Sprintf("mkCase %s %s %s %s %s\n %s\n %s\n %s %s\n %s", gallina.Z(int64(id)), gopts(o), oc, gallina.Bool(wf && shape == ""), term, toks, ptoks, reTerm, preTerm, toks2))
		if inShard++; inShard >= 500 {
			flush()
		}
		meta.Case(id, d)
		id++
	}

	// text: totality + (when accepted) the round trip
	runText := func(s string, o parser.Options, stream string) {
		e, err, internal := safeParse(o, s)
		if internal != "" {
			goviol("parser-internal-error", internal+" on "+strconv.Quote(s), desc{Stream: stream, Opts: optsName(o), Source: s, Text: s})
			return
		}
		if err != nil {
			meta.Hit("rejected:" + stream)
			return
		}
		meta.Hit("accepted:" + stream)
		runCase(e, o, false, stream, s)
	}

	// 1. corpus: known-finding reproducers first, then syntax variants, under every option set
	findings := []string{
		`sum by ("without") (foo)`, `sum by ("nan") (foo)`, `a + on("inf") b`, `a * on(b) group_left("Without") c`,
		`foo offset 0.0001`, `foo[1.0000001]`, `foo[5m:1.0004]`, `foo offset -0.0001`, `foo[5m:] offset 1.0000001`,
		`1s1ms`, `-1s3ms`, `foo > 1s5ms`, // fixed (08a939fd28): regression cases
		`34546d21h26m45s22ms`, `foo * -34546d21h26m45s22ms`, `200d3ms`, // fixed (346b90dbb7): regression cases
		`foo @ 9007199254740.993`, `foo @ 4503599627370.4`, `foo[5m:] @ -4503599627370.4`,
		`foo @ 4503599627599627370.495`, `foo @ -9223372036854776.000`, // int64 ms overflow in setTimestamp (stable round trip)
		`a + fill_left(0) fill_right(-0) b`,
		`Inf ^ f`, `+Inf^f`, `-Inf ^ 2`, `foo * Inf ^ 2`,
		"\"a\\ufffdb\"", "foo{a=\"\\xef\\xbf\\xbd\"}", "sum by (\"x\\ufffd\") (foo)",
	}
	all := parser.Options{EnableExperimentalFunctions: true, EnableExtendedRangeSelectors: true, EnableBinopFillModifiers: true}
	for _, s := range findings {
		runText(s, all, "corpus-finding")
	}
	// `offset +( .. )` without the duration-expression flag
	for _, s := range []string{`foo offset +(5)`, `foo offset +(5m)`, `foo[5m] offset +(5m)`, `foo[5m:] offset +(1)`, `foo offset -(5m)`} {
		runText(s, parser.Options{}, "corpus-finding")
	}
	for _, s := range []string{`foo offset (1m) @ 10 + 5`, `foo offset (1m) @ 10 + bar`, `foo offset (0x10) + 30 - 1h30m @ end() + on(a) bar offset 1.5`, `-foo offset (step()) @ start() ^ 2`} {
		runText(s, parser.Options{ExperimentalDurationExpr: true}, "corpus-finding")
	}
	for _, s := range []string{`foo offset +(1m) + bar`, `foo @ 10 offset +(range()) * 2`, `foo offset +range()`, `foo[5m] offset +step()`, `foo[5m:] offset +min_of(1m, 2m)`} {
		runText(s, parser.Options{ExperimentalDurationExpr: true}, "corpus-finding")
	}
	// duration expressions in every position, flag on (and off: must be rejected or round-trip)
	for _, s := range durExprCorpus() {
		runText(s, parser.Options{ExperimentalDurationExpr: true, EnableExperimentalFunctions: true, EnableExtendedRangeSelectors: true, EnableBinopFillModifiers: true}, "corpus-durexpr")
		if f.Tier != "quick" {
			runText(s, parser.Options{ExperimentalDurationExpr: true}, "corpus-durexpr")
		}
		runText(s, parser.Options{}, "corpus-durexpr")
	}
	for _, s := range textCorpus {
		for i := 0; i < 16; i++ {
			if f.Tier == "quick" && i != 0 && i != 15 && i != int(f.Seed%16) {
				continue
			}
			runText(s, optsOf(i), "corpus")
		}
	}

	// 2. generated ASTs
	n := f.Count(300, 12000)
	var printed []string
	for i := 0; i < n; i++ {
		r := gen.Fork(f.Seed, i)
		o := optsOf(r.Intn(16))
		g := &genCtx{r: r, opts: o}
		e := g.top(1 + r.Intn(4))
		runCase(e, o, true, "generated-ast", "")
		if len(printed) < 4000 {
			if s, p := safeString(e.String); p == "" {
				printed = append(printed, s)
			}
		}
	}

	// 2b. generated duration-expression queries (Go-side round trip: outside the Coq model)
	nd := f.Count(300, 20000)
	for i := 0; i < nd; i++ {
		r := gen.Fork(f.Seed, 2000000+i)
		o := optsOf(8 + r.Intn(8))
		if r.Chance(1, 6) {
			o = optsOf(r.Intn(8))
		}
		runText(durExprQuery(r), o, "generated-durexpr")
	}

	// 3. totality: mutated corpus / printed texts and random token soups
	m := f.Count(1200, 48000)
	for i := 0; i < m; i++ {
		r := gen.Fork(f.Seed, 1000000+i)
		o := optsOf(r.Intn(16))
		var s string
		switch r.Intn(4) {
		case 0:
			s = randomString(r)
		case 1:
			s = mutate(r, gen.Pick(r, textCorpus))
		default:
			if len(printed) > 0 {
				s = mutate(r, gen.Pick(r, printed))
			} else {
				s = mutate(r, gen.Pick(r, textCorpus))
			}
		}
		runText(s, o, "mutated")
	}

	flush()
	meta.Write(f.Out)
}

package main

// Generator of well-typed, parser-producible real ASTs (the shape ParseExpr would return:
// explicit ParenExpr wherever precedence needs it, trailing __name__ matcher, checkAST's
// VectorMatching rewriting) and of source-text variants / mutated strings.

import (
	"math"
	"sort"
	"strings"
	"time"

	"github.com/prometheus/prometheus/model/labels"
	"github.com/prometheus/prometheus/promql/parser"

	"verif/harness/internal/gen"
)

type genCtx struct {
	r    *gen.Rand
	opts parser.Options
	fns  map[parser.ValueType][]*parser.Function
}

var metricNames = []string{"foo", "bar", "a", "b", "http_requests_total", "foo:bar:baz", "x_y:z", "up", "Inf_", "nanx", "fill", "f1"}
var labelNames = []string{"a", "b", "job", "instance", "le", "on", "by", "sum", "group_left", "bool", "offset", "start", "atan2", "and", "ignoring", "fill_left", "end", "step", "anchored", "max_of",
	"foo.bar", "héllo", "with space", "1abc", "a-b", "日本", "q\"uote", "back\\slash", "new\nline"}
var labelValues = []string{"", "x", "a.*", "foo|bar", "hé", "q\"uote", "back\\slash", "tab\there", "\x00\x7f", "new\nline", "`tick`", "'single'", " ", "\xff\xfe", "(?i)x"}

func (g *genCtx) label() string { return gen.Pick(g.r, labelNames) }

func (g *genCtx) labelSet(max int) []string {
	n := g.r.Intn(max + 1)
	seen := map[string]bool{}
	out := []string{}
	for i := 0; i < n; i++ {
		l := g.label()
		if !seen[l] {
			seen[l] = true
			out = append(out, l)
		}
	}
	return out
}

var numPool = []float64{0, 1, 2, 2.5, -1, math.Copysign(0, -1), 1e-7, 1e21, 1e100, math.Inf(1), math.Inf(-1), math.NaN(), 16, 9007199254740993,
	math.MaxFloat64, math.SmallestNonzeroFloat64, -math.MaxFloat64, 0.1, 1.0 / 3, 123456789.125, 1e6, 1e-320}

func (g *genCtx) num() float64 {
	if g.r.Chance(1, 4) {
		f := math.Float64frombits(g.r.U64())
		return f
	}
	return gen.Pick(g.r, numPool)
}

var durPoolMs = []int64{1, 999, 1000, 1500, 60000, 300000, 3600000, 5400000, 86400000, 604800000, 31536000000, 90061001, 1, 59999, 172800000}

func (g *genCtx) durMs() int64 {
	if g.r.Chance(1, 40) {
		return g.r.Range(1, 4000000000000) // mostly beyond 2^53 ns: float seconds lose precision (finding shape)
	}
	if g.r.Chance(1, 4) {
		return g.r.Range(1, 9000000000)
	}
	return gen.Pick(g.r, durPoolMs)
}
func (g *genCtx) dur() time.Duration { return time.Duration(g.durMs()) * time.Millisecond }

func (g *genCtx) offset() time.Duration {
	switch g.r.Intn(4) {
	case 0:
		return g.dur()
	case 1:
		return -g.dur()
	}
	return 0
}

func (g *genCtx) at() (*int64, parser.ItemType) {
	switch g.r.Intn(8) {
	case 0:
		return nil, parser.START
	case 1:
		return nil, parser.END
	case 2:
		ts := gen.Pick(g.r, []int64{0, 1, -1, 1000, 1234567, -1500, 1700000000123, 4503599627370495, -4503599627370495})
		return &ts, 0
	case 3:
		ts := g.r.Range(-2000000000000, 2000000000000)
		return &ts, 0
	}
	return nil, 0
}

func (g *genCtx) vs(allowMods bool) *parser.VectorSelector {
	v := &parser.VectorSelector{}
	if g.r.Chance(5, 6) {
		v.Name = gen.Pick(g.r, metricNames)
	}
	n := g.r.Intn(3)
	if v.Name == "" {
		n++
	}
	nonEmpty := v.Name != ""
	for i := 0; i < n; i++ {
		name := g.label()
		if v.Name == "" && g.r.Chance(1, 4) {
			name = labels.MetricName
		}
		ty := labels.MatchType(g.r.Intn(4))
		val := gen.Pick(g.r, labelValues)
		if ty == labels.MatchRegexp || ty == labels.MatchNotRegexp {
			val = gen.Pick(g.r, []string{"", "x", "a.*", "foo|bar", ".+", "(?i)x", "hé.*", "[a-c]+\\d"})
		}
		m, err := labels.NewMatcher(ty, name, val)
		if err != nil {
			continue
		}
		if !m.Matches("") {
			nonEmpty = true
		}
		v.LabelMatchers = append(v.LabelMatchers, m)
	}
	if !nonEmpty {
		v.LabelMatchers = append(v.LabelMatchers, labels.MustNewMatcher(labels.MatchEqual, "job", "x"))
	}
	if v.Name != "" {
		v.LabelMatchers = append(v.LabelMatchers, labels.MustNewMatcher(labels.MatchEqual, labels.MetricName, v.Name))
	}
	if allowMods {
		v.OriginalOffset = g.offset()
		v.Timestamp, v.StartOrEnd = g.at()
		if g.opts.EnableExtendedRangeSelectors {
			switch g.r.Intn(6) {
			case 0:
				v.Anchored = true
			case 1:
				v.Smoothed = true
			}
		}
	}
	return v
}

func typeOf(e parser.Expr) parser.ValueType { return e.Type() }

func rprec(e parser.Expr) int {
	switch n := e.(type) {
	case *parser.BinaryExpr:
		return prec(n.Op)
	case *parser.UnaryExpr:
		return 5
	case *parser.NumberLiteral:
		if math.Signbit(n.Val) && !math.IsNaN(n.Val) || math.IsInf(n.Val, 1) {
			return 5
		}
	}
	return 7
}
func lprec(e parser.Expr) int {
	if n, ok := e.(*parser.BinaryExpr); ok {
		return prec(n.Op)
	}
	return 7
}
func prec(op parser.ItemType) int {
	switch op {
	case parser.LOR:
		return 1
	case parser.LAND, parser.LUNLESS:
		return 2
	case parser.EQLC, parser.NEQ, parser.LTE, parser.LSS, parser.GTE, parser.GTR, parser.TRIM_UPPER, parser.TRIM_LOWER:
		return 3
	case parser.ADD, parser.SUB:
		return 4
	case parser.MUL, parser.DIV, parser.MOD, parser.ATAN2:
		return 5
	}
	return 6
}

var arithOps = []parser.ItemType{parser.ADD, parser.SUB, parser.MUL, parser.DIV, parser.MOD, parser.ATAN2, parser.POW}
var cmpOps = []parser.ItemType{parser.EQLC, parser.NEQ, parser.LTE, parser.LSS, parser.GTE, parser.GTR}
var setOps = []parser.ItemType{parser.LAND, parser.LOR, parser.LUNLESS}
var aggOps = []parser.ItemType{parser.SUM, parser.AVG, parser.COUNT, parser.MIN, parser.MAX, parser.GROUP, parser.STDDEV, parser.STDVAR,
	parser.TOPK, parser.BOTTOMK, parser.COUNT_VALUES, parser.QUANTILE, parser.LIMITK, parser.LIMIT_RATIO}

func paren(e parser.Expr) parser.Expr { return &parser.ParenExpr{Expr: e} }

// binary builds op(l, r) the way the parser would have produced it, adding ParenExpr where the
// printed text would otherwise associate differently (random extra parentheses elsewhere).
func (g *genCtx) binary(op parser.ItemType, l, r parser.Expr) *parser.BinaryExpr {
	p := prec(op)
	right := op == parser.POW
	if (right && rprec(l) <= p) || (!right && rprec(l) < p) {
		l = paren(l)
	}
	need := p + 1
	if right {
		need = p
	}
	if lprec(r) < need {
		r = paren(r)
	}
	return &parser.BinaryExpr{Op: op, LHS: l, RHS: r}
}

func (g *genCtx) scalar(d int) parser.Expr {
	if d <= 0 || g.r.Chance(1, 3) {
		if g.r.Chance(1, 6) {
			ms := g.durMs()
			v := (time.Duration(ms) * time.Millisecond).Seconds()
			if g.r.Chance(1, 4) {
				v = -v
			}
			return &parser.NumberLiteral{Val: v, Duration: true}
		}
		return &parser.NumberLiteral{Val: g.num()}
	}
	switch g.r.Intn(7) {
	case 0, 1:
		b := g.binary(gen.Pick(g.r, arithOps), g.scalar(d-1), g.scalar(d-1))
		return b
	case 2:
		b := g.binary(gen.Pick(g.r, cmpOps), g.scalar(d-1), g.scalar(d-1))
		b.ReturnBool = true
		return b
	case 3:
		return g.unary(g.scalar(d - 1))
	case 4:
		return paren(g.scalar(d - 1))
	case 5:
		return g.call(parser.ValueTypeScalar, d-1)
	}
	return &parser.NumberLiteral{Val: g.num()}
}

func (g *genCtx) unary(e parser.Expr) parser.Expr {
	if _, ok := e.(*parser.NumberLiteral); ok || lprec(e) < 6 {
		e = paren(e)
	}
	op := parser.SUB
	if g.r.Chance(1, 3) {
		op = parser.ADD
	}
	return &parser.UnaryExpr{Op: parser.ItemType(op), Expr: e}
}

func (g *genCtx) matching(op parser.ItemType, isSet bool) *parser.VectorMatching {
	vm := &parser.VectorMatching{Card: parser.CardOneToOne}
	if isSet {
		vm.Card = parser.CardManyToMany
	}
	switch g.r.Intn(4) {
	case 0:
		vm.On = true
		vm.MatchingLabels = g.labelSet(3)
	case 1:
		vm.MatchingLabels = g.labelSet(3)
		if len(vm.MatchingLabels) == 0 {
			vm.MatchingLabels = nil
		}
	}
	if !isSet && (vm.On || len(vm.MatchingLabels) > 0) && g.r.Chance(1, 2) {
		vm.Card = parser.CardManyToOne
		if g.r.Bool() {
			vm.Card = parser.CardOneToMany
		}
		inc := g.labelSet(2)
		if vm.On {
			var keep []string
			for _, l := range inc {
				dup := false
				for _, m := range vm.MatchingLabels {
					dup = dup || m == l
				}
				if !dup {
					keep = append(keep, l)
				}
			}
			inc = keep
		}
		if len(inc) == 0 {
			inc = []string{}
		}
		vm.Include = inc
	}
	if !isSet && g.opts.EnableBinopFillModifiers && g.r.Chance(1, 3) {
		fv := func() *float64 { f := g.num(); return &f }
		switch g.r.Intn(4) {
		case 0:
			vm.FillValues.LHS = fv()
		case 1:
			vm.FillValues.RHS = fv()
		case 2:
			vm.FillValues.LHS, vm.FillValues.RHS = fv(), fv()
		default:
			f := fv()
			f2 := *f
			vm.FillValues.LHS, vm.FillValues.RHS = f, &f2
		}
		// +0 / -0 pairs print as one fill(): shape fill-signed-zero, only in the corpus
		if l, r := vm.FillValues.LHS, vm.FillValues.RHS; l != nil && r != nil && *l == 0 && *r == 0 && math.Signbit(*l) != math.Signbit(*r) {
			*r = *l
		}
	}
	return vm
}

func (g *genCtx) vector(d int) parser.Expr {
	if d <= 0 || g.r.Chance(1, 4) {
		return g.vs(true)
	}
	switch g.r.Intn(10) {
	case 0, 1: // vector op vector
		var op parser.ItemType
		isSet := false
		switch g.r.Intn(3) {
		case 0:
			op = gen.Pick(g.r, arithOps)
		case 1:
			op = gen.Pick(g.r, cmpOps)
		default:
			op, isSet = gen.Pick(g.r, setOps), true
		}
		b := g.binary(op, g.vector(d-1), g.vector(d-1))
		b.VectorMatching = g.matching(op, isSet)
		if op.IsComparisonOperator() && g.r.Bool() {
			b.ReturnBool = true
		}
		return b
	case 2, 3: // vector op scalar / scalar op vector
		op := gen.Pick(g.r, append(append([]parser.ItemType{}, arithOps...), cmpOps...))
		var b *parser.BinaryExpr
		if g.r.Bool() {
			b = g.binary(op, g.vector(d-1), g.scalar(d-1))
		} else {
			b = g.binary(op, g.scalar(d-1), g.vector(d-1))
		}
		if op.IsComparisonOperator() && g.r.Bool() {
			b.ReturnBool = true
		}
		return b
	case 4, 5:
		return g.agg(d - 1)
	case 6:
		return g.call(parser.ValueTypeVector, d-1)
	case 7:
		return g.unary(g.vector(d - 1))
	case 8:
		return paren(g.vector(d - 1))
	}
	return g.vs(true)
}

func (g *genCtx) agg(d int) parser.Expr {
	op := gen.Pick(g.r, aggOps)
	if (op == parser.LIMITK || op == parser.LIMIT_RATIO) && !g.opts.EnableExperimentalFunctions {
		op = parser.TOPK
	}
	a := &parser.AggregateExpr{Op: op, Expr: g.vector(d)}
	switch g.r.Intn(3) {
	case 0:
		a.Grouping = g.labelSet(3)
	case 1:
		a.Without = true
		a.Grouping = g.labelSet(3)
	}
	if len(a.Grouping) == 0 {
		if a.Without {
			a.Grouping = []string{}
		} else {
			a.Grouping = nil
		}
	}
	if op.IsAggregatorWithParam() {
		if op == parser.COUNT_VALUES {
			a.Param = &parser.StringLiteral{Val: gen.Pick(g.r, labelValues)}
		} else {
			a.Param = g.scalar(d)
		}
	}
	return a
}

func (g *genCtx) matrix(d int) parser.Expr {
	if d <= 0 || g.r.Chance(2, 3) {
		v := g.vs(true)
		return &parser.MatrixSelector{VectorSelector: v, Range: g.dur()}
	}
	inner := g.vector(d - 1)
	if rprec(inner) < 7 {
		inner = paren(inner)
	}
	s := &parser.SubqueryExpr{Expr: inner, Range: g.dur(), OriginalOffset: g.offset()}
	if g.r.Bool() {
		s.Step = g.dur()
	}
	s.Timestamp, s.StartOrEnd = g.at()
	return s
}

func (g *genCtx) ofType(t parser.ValueType, d int) parser.Expr {
	switch t {
	case parser.ValueTypeScalar:
		return g.scalar(d)
	case parser.ValueTypeVector:
		return g.vector(d)
	case parser.ValueTypeMatrix:
		return g.matrix(d)
	case parser.ValueTypeString:
		return &parser.StringLiteral{Val: gen.Pick(g.r, labelValues)}
	}
	return g.vector(d)
}

func (g *genCtx) call(ret parser.ValueType, d int) parser.Expr {
	if g.fns == nil {
		g.fns = map[parser.ValueType][]*parser.Function{}
		var names []string
		for n := range parser.Functions {
			names = append(names, n)
		}
		sort.Strings(names)
		for _, n := range names {
			f := parser.Functions[n]
			if n == "info" {
				continue
			}
			g.fns[f.ReturnType] = append(g.fns[f.ReturnType], f)
		}
	}
	var cands []*parser.Function
	for _, f := range g.fns[ret] {
		if !f.Experimental || g.opts.EnableExperimentalFunctions {
			cands = append(cands, f)
		}
	}
	if len(cands) == 0 {
		return g.ofType(ret, 0)
	}
	f := gen.Pick(g.r, cands)
	c := &parser.Call{Func: f, Args: parser.Expressions{}}
	n := len(f.ArgTypes)
	switch {
	case f.Variadic > 0:
		n = n - 1 + g.r.Intn(f.Variadic+1)
	case f.Variadic < 0:
		n = n - 1 + g.r.Intn(3)
	}
	for i := 0; i < n; i++ {
		j := i
		if j >= len(f.ArgTypes) {
			j = len(f.ArgTypes) - 1
		}
		c.Args = append(c.Args, g.ofType(f.ArgTypes[j], d))
	}
	return c
}

func (g *genCtx) top(d int) parser.Expr {
	switch g.r.Intn(10) {
	case 0:
		return g.scalar(d)
	case 1:
		return g.matrix(d)
	case 2:
		return &parser.StringLiteral{Val: gen.Pick(g.r, labelValues)}
	}
	return g.vector(d)
}

// ---------------------------------------------------------------- text variants

var textCorpus = []string{
	`sum by (a,) (foo)`, `sum(foo) by (a)`, `sum without () (foo)`, `sum(foo) without (a, b,)`, `topk(3, foo) by (a)`,
	`count_values("x", foo)`, `quantile by (le) (0.9, foo)`,
	`foo{a="b",}`, `{"foo"}`, `{"foo.bar", a="b"}`, `{"foo", "a.b"="c"}`, `foo{"a"="b"}`, `{__name__="foo"}`, `{__name__=~"foo.*", a!~"b"}`,
	`foo{b="1", a="2"}`, `foo{a="2", a="1"}`, `{'foo'}`, "{`foo`}", `foo{a='b"c'}`, "foo{a=`b\\c`}", `{"sum"}`, `{"a b", c="d"}`,
	`foo offset 5m @ 10`, `foo @ 10 offset 5m`, `foo @ start() offset -5m`, `foo[5m] offset 1h @ end()`, `foo[5m] @ 1.5 offset 1m`,
	`foo offset +5m`, `foo @ +10`, `foo @ -10.5`, `foo @ 1e3`, `foo @ 0x10`, `foo[300]`, `foo[1.5]`, `foo[5m:30]`, `foo[0x10:]`, `foo offset 300`, `foo offset -1.5`,
	`foo[5m:]`, `foo[5m:1m]`, `foo[ 5m : 1m ]`, `(foo + bar)[5m:] offset 1m @ start()`, `foo[5m:1m][10m:]`, `rate(foo[5m])[1h:5m]`,
	`foo offset 5m[5m:]`, `foo @ 1 offset 5m[5m:1m] @ 2 offset 1m`, `sum(foo)[5m:] @ end()`,
	`-foo`, `+foo`, `- - foo`, `-(-foo)`, `-1`, `+1`, `- -1`, `-(1)`, `-foo ^ bar`, `-2 ^ 2`, `2 ^ -2`, `2 ^ -2 ^ 3`, `-foo * bar`, `foo * -bar`, `foo - -1`, `foo - - bar`,
	`1 + 2 * 3`, `(1 + 2) * 3`, `1 - 2 - 3`, `1 - (2 - 3)`, `2 ^ 3 ^ 4`, `(2 ^ 3) ^ 4`, `1 < bool 2 == bool 3`, `foo and bar or baz unless qux`, `foo or bar and baz`,
	`foo + on(a) bar`, `foo + ignoring(a) bar`, `foo + on() bar`, `foo + ignoring() bar`, `foo * on(a) group_left(b) bar`, `foo * ignoring(a) group_right bar`,
	`foo * on(a) group_left() bar`, `foo * on(a,) group_left(b,) bar`, `foo == bool on(a) bar`, `foo and on(a) bar`, `foo unless ignoring(a) bar`, `foo + on("a.b", c) bar`,
	`foo + on(a) group_left bar`, `foo + bool + bar`,
	`foo + fill(0) bar`, `foo + fill_left(1) bar`, `foo + fill_right(-1) bar`, `foo + fill_left(1) fill_right(2) bar`, `foo + fill_right(2) fill_left(1) bar`,
	`foo + on(a) fill(NaN) bar`, `foo + on(a) group_left(b) fill_left(Inf) bar`, `foo + fill(+Inf) bar`, `foo + fill(1e21) bar`, `foo + fill_left(1) fill_right(1) bar`, `fill + fill`, `fill_left{a="b"} + on(a) fill(1) fill_right`,
	`foo anchored`, `foo smoothed`, `foo[5m] anchored`, `foo[5m] smoothed offset 1m`, `foo anchored [5m]`, `foo anchored offset 5m`, `foo @ 1 anchored`, `foo anchored @ 1`, `rate(foo[5m] anchored)`, `anchored`, `smoothed + anchored`,
	`1`, `1.0`, `.5`, `5.`, `1e3`, `1E-3`, `0x1F`, `0X_1f`, `1_000`, `Inf`, `-Inf`, `+Inf`, `NaN`, `nan`, `iNf`, `-0`, `0.1 + 0.2`, `1e308 * 10`,
	`5m`, `1h30m`, `-5m`, `1w2d`, `1y`, `1ms`, `5m + 1`, `5m * foo`, `1s1ms`,
	`"a"`, `'a'`, "`a`", `"\x41é\n"`, `"\377"`, `label_replace(foo, "a", "$1", "b", "(.*)")`,
	`time()`, `vector(1)`, `scalar(foo)`, `round(foo, 5)`, `round(foo)`, `label_join(foo, "a", "-", "b", "c")`, `label_join(foo, "a", "-")`, `hour()`, `hour(foo)`,
	`histogram_quantile(0.9, rate(foo_bucket[5m]))`, `absent_over_time(foo[5m:])`, `sort_by_label(foo, "a", "b")`, `limitk(2, foo)`, `limit_ratio(-0.5, foo)`, `mad_over_time(foo[5m])`, `info(foo, {a="b"})`, `info(foo)`,
	`sum`, `sum{a="b"}`, `sum + sum`, `by`, `offset`, `offset offset 5m`, `on + on(on) on`, `start`, `end{a="b"}`, `step`, `and`, `or or or`, `bool`, `group_left`, `without`, `avg{} `, `min_over_time(max[5m])`,
	`sum by (sum, by, on, bool, offset, group_left, start, end, atan2, and) (foo)`, `sum by ("a", 'b', c) (foo)`, `sum by ("foo.bar") (foo)`, `sum by (fill) (foo)`,
	`foo # comment`, "foo\n+\nbar", "sum(\n  foo\n)", `((((foo))))`, `(1)`, `((1) + (2))`,
	`step()`, `foo[step()]`, `foo offset step()`, `foo[5m + 1m]`, `foo[(5m)]`, `foo[-(-5m)]`, `foo[max_of(5m, step())]`, `foo offset -(5m)`, `foo[5m:step()*2]`, `foo offset 1m * 2`, `foo[1m^2]`, `foo offset -min_of(1m, 2m)`, `foo[range()/2]`,
	`foo atan2 bar`, `foo % bar`, `foo </ 5`, `foo >/ bar`, `foo ATAN2 bar`, `SUM(foo) BY (a)`, `foo OFFSET 5m`, `foo AND bar`,
}

var mutationAlphabet = []string{"(", ")", "{", "}", "[", "]", ",", ":", "@", "+", "-", "*", "/", "%", "^", "=", "!", "~", "<", ">", "\"", "'", "`", "\\", " ", "\n", "#",
	"offset", "by", "without", "on", "ignoring", "group_left", "group_right", "bool", "sum", "topk", "start()", "end()", "step()", "range()", "max_of(", "fill(", "fill_left(", "anchored", "smoothed",
	"5m", "1", "0x", "1e", ".", "Inf", "NaN", "foo", "\xff", "\x00", "é", "atan2", "and", "or", "unless", "1_0", "5mm", "1h1", "__name__"}

func mutate(r *gen.Rand, s string) string {
	n := 1 + r.Intn(3)
	for i := 0; i < n; i++ {
		pos := 0
		if len(s) > 0 {
			pos = r.Intn(len(s) + 1)
		}
		switch r.Intn(5) {
		case 0: // insert
			s = s[:pos] + gen.Pick(r, mutationAlphabet) + s[pos:]
		case 1: // delete a span
			if len(s) > 0 {
				end := pos + 1 + r.Intn(3)
				if end > len(s) {
					end = len(s)
				}
				s = s[:pos] + s[end:]
			}
		case 2: // replace
			if pos < len(s) {
				s = s[:pos] + gen.Pick(r, mutationAlphabet) + s[pos+1:]
			}
		case 3: // duplicate a span
			if len(s) > 0 {
				end := pos + 1 + r.Intn(6)
				if end > len(s) {
					end = len(s)
				}
				s = s[:end] + s[pos:end] + s[end:]
			}
		default: // truncate
			s = s[:pos]
		}
	}
	return s
}

func randomString(r *gen.Rand) string {
	var b strings.Builder
	n := r.Intn(12)
	for i := 0; i < n; i++ {
		b.WriteString(gen.Pick(r, mutationAlphabet))
		if r.Chance(1, 3) {
			b.WriteString(" ")
		}
	}
	return b.String()
}

// ---------------------------------------------------------------- duration expressions (text)

// durExprCorpus puts a duration expression into every position the grammar allows (offset of an
// instant selector, of a range selector, of a subquery; range of a matrix selector; subquery
// range and step), with and without @, in every form (step(), range(), min_of/max_of, arithmetic,
// parenthesised, unary).
var durExprForms = []string{"step()", "range()", "min_of(1m, step())", "max_of(range(), 30s)", "1m + 30s", "step() * 2", "(5m)", "(step())",
	"-(5m)", "+(5)", "-step()", "-min_of(1m, 2m)", "1m ^ 2", "10m % 3m", "range() / 2", "(1m + step()) * 2", "-(-5m)", "2 * 3", "5"}

func durExprCorpus() []string {
	var out []string
	for _, d := range durExprForms {
		out = append(out,
			"foo offset "+d,
			"foo @ 10 offset "+d,
			"foo offset "+d+" @ start()",
			"foo[5m] offset "+d,
			"foo[5m] @ end() offset "+d,
			"rate(foo{a=\"b\"}[5m] offset "+d+")",
			"foo[5m:1m] offset "+d,
			"(foo + bar)[5m:] @ 10 offset "+d,
			"foo["+d+"]",
			"foo["+d+"] @ 10 offset 1m",
			"foo["+d+"] offset "+d,
			"foo["+d+":]",
			"foo["+d+":1m]",
			"foo[5m:"+d+"]",
			"foo["+d+":"+d+"] @ start() offset "+d,
			"sum(foo)[1h:"+d+"] offset "+d,
		)
	}
	return out
}

func durExprText(r *gen.Rand, d int) string {
	if d <= 0 || r.Chance(1, 3) {
		return gen.Pick(r, []string{"5m", "1h30m", "30s", "1ms", "30", "1.5", "0x10", "step()", "range()", "1d", "2"})
	}
	a, b := durExprText(r, d-1), durExprText(r, d-1)
	switch r.Intn(12) {
	case 0:
		return "min_of(" + a + ", " + b + ")"
	case 1:
		return "max_of(" + a + "," + b + ")"
	case 2:
		return "(" + a + ")"
	case 3:
		return "-" + a
	case 4:
		return "+" + a
	case 5:
		return "-(" + a + ")"
	case 6:
		return "+(" + a + ")"
	default:
		return a + gen.Pick(r, []string{" + ", " - ", " * ", " / ", " % ", " ^ ", "+", "*"}) + b
	}
}

func durExprQuery(r *gen.Rand) string {
	d := func() string { return durExprText(r, r.Intn(3)) }
	sel := gen.Pick(r, []string{"foo", "foo{a=\"b\"}", "{__name__=\"x\"}", "foo:bar"})
	at := gen.Pick(r, []string{"", "", " @ 10", " @ start()", " @ end()", " @ -1.5"})
	off := ""
	if r.Chance(2, 3) {
		off = " offset " + d()
	}
	mods := at + off
	if r.Bool() {
		mods = off + at
	}
	var q string
	switch r.Intn(6) {
	case 0:
		q = sel + mods
	case 1:
		q = sel + "[" + d() + "]" + mods
	case 2:
		q = sel + "[" + d() + ":" + d() + "]" + mods
	case 3:
		q = sel + "[" + d() + ":]" + mods
	case 4:
		q = "(" + sel + " + bar)[" + d() + ":" + d() + "]" + mods
	default:
		q = sel + "[5m]" + mods
	}
	switch r.Intn(5) {
	case 0:
		q = "rate(" + q + ")"
	case 1:
		q = q + " + on(a) bar offset " + d()
	case 2:
		q = "sum by (a) (" + q + ")"
	}
	return q
}

package main

// Projection of real parser.Expr values and real lexer items to Gallina terms of
// model/PromqlPrint.v, and a canonical Go-side dump used for ASTs outside the modelled fragment.

import (
	"fmt"
	"math"
	"sort"
	"strconv"
	"strings"
	"time"

	"github.com/prometheus/common/model"

	"github.com/prometheus/prometheus/model/labels"
	"github.com/prometheus/prometheus/model/timestamp"
	"github.com/prometheus/prometheus/promql/parser"
	"github.com/prometheus/prometheus/util/strutil"

	"verif/harness/internal/gallina"
)

const nanBits = uint64(0x7FF8000000000001)

func fbits(f float64) uint64 {
	if math.IsNaN(f) {
		return nanBits
	}
	return math.Float64bits(f)
}

// strings are interned: the case files define each distinct string once (sN : str)
var strTab = map[string]int{}
var strDefs []string

func gstr(s string) string {
	if s == "" {
		return "[]"
	}
	i, ok := strTab[s]
	if !ok {
		i = len(strDefs)
		strTab[s] = i
		it := make([]string, len(s))
		for j := 0; j < len(s); j++ {
			it[j] = strconv.Itoa(int(s[j]))
		}
		strDefs = append(strDefs, fmt.Sprintf("Definition s%d : str := [%s]%%N.", i, strings.Join(it, "; ")))
	}
	return "s" + strconv.Itoa(i)
}

// float oracle tables of the current case (model/PromqlPrint.v, Record orc)
type oracles struct{ drt, dlp, tsp map[int64]int64 }

var cur *oracles

func newOracles() *oracles {
	return &oracles{drt: map[int64]int64{}, dlp: map[int64]int64{}, tsp: map[int64]int64{}}
}

func truncMs(d int64) int64 { return d / 1000000 * 1000000 }

// durRead: the nanoseconds the parser stores for a DURATION item of p ns in a duration position
func durRead(p int64) int64 { return int64(time.Duration(math.Round(time.Duration(p).Seconds() * 1e9))) }

// tsRead: the milliseconds read back from the printed "@ %.3f" text of a non-negative timestamp
func tsRead(ms int64) int64 {
	f, err := strconv.ParseFloat(strconv.FormatFloat(float64(ms)/1000.0, 'f', 3, 64), 64)
	if err != nil {
		return -1
	}
	return timestamp.FromFloatSeconds(f)
}

func abs64(x int64) int64 {
	if x < 0 {
		return -x
	}
	return x
}

func noteDur(d int64) {
	if cur == nil || d == 0 {
		return
	}
	p := truncMs(abs64(d))
	if r := durRead(p); r != p {
		cur.drt[p] = r
	}
}

func (o *oracles) term() string {
	tab := func(m map[int64]int64) string {
		var ks []int64
		for k := range m {
			ks = append(ks, k)
		}
		sort.Slice(ks, func(i, j int) bool { return ks[i] < ks[j] })
		it := make([]string, len(ks))
		for i, k := range ks {
			it[i] = "(" + gallina.Z(k) + ", " + gallina.Z(m[k]) + ")"
		}
		return gallina.List(it)
	}
	if len(o.drt)+len(o.dlp)+len(o.tsp) == 0 {
		return "orc_id"
	}
	return fmt.Sprintf("(mkOrc %s %s %s)", tab(o.drt), tab(o.dlp), tab(o.tsp))
}

func gstrs(ss []string) string {
	it := make([]string, len(ss))
	for i, s := range ss {
		it[i] = gstr(s)
	}
	return gallina.List(it)
}

type unsupported struct{ why string }

func (u unsupported) Error() string { return u.why }

func fail(why string) { panic(unsupported{why}) }

var binopName = map[parser.ItemType]string{
	parser.LOR: "BOr", parser.LAND: "BAnd", parser.LUNLESS: "BUnless", parser.EQLC: "BEqlc", parser.NEQ: "BNeq",
	parser.LTE: "BLte", parser.LSS: "BLss", parser.GTE: "BGte", parser.GTR: "BGtr", parser.TRIM_UPPER: "BTrimU",
	parser.TRIM_LOWER: "BTrimL", parser.ADD: "BAdd", parser.SUB: "BSub", parser.MUL: "BMul", parser.DIV: "BDiv",
	parser.MOD: "BMod", parser.ATAN2: "BAtan2", parser.POW: "BPow",
}

var aggName = map[parser.ItemType]string{
	parser.SUM: "ASum", parser.AVG: "AAvg", parser.COUNT: "ACount", parser.MIN: "AMin", parser.MAX: "AMax",
	parser.GROUP: "AGroup", parser.STDDEV: "AStddev", parser.STDVAR: "AStdvar", parser.TOPK: "ATopk",
	parser.BOTTOMK: "ABottomk", parser.COUNT_VALUES: "ACountValues", parser.QUANTILE: "AQuantile",
	parser.LIMITK: "ALimitk", parser.LIMIT_RATIO: "ALimitRatio",
}

var kwKind = map[parser.ItemType]string{
	parser.BOOL: "KBOOL", parser.BY: "KBY", parser.WITHOUT: "KWITHOUT", parser.ON: "KON", parser.IGNORING: "KIGNORING",
	parser.GROUP_LEFT: "KGROUPL", parser.GROUP_RIGHT: "KGROUPR", parser.FILL: "KFILL", parser.FILL_LEFT: "KFILLL",
	parser.FILL_RIGHT: "KFILLR", parser.OFFSET: "KOFFSET", parser.ANCHORED: "KANCHORED", parser.SMOOTHED: "KSMOOTHED",
	parser.START: "KSTART", parser.END: "KEND", parser.STEP: "KSTEP", parser.RANGE: "KRANGE", parser.MAX_OF: "KMAXOF",
	parser.MIN_OF: "KMINOF",
}

var punctKind = map[parser.ItemType]string{
	parser.LEFT_PAREN: "KLP", parser.RIGHT_PAREN: "KRP", parser.LEFT_BRACE: "KLB0", parser.RIGHT_BRACE: "KRB0",
	parser.LEFT_BRACKET: "KLB", parser.RIGHT_BRACKET: "KRB", parser.COMMA: "KCOMMA", parser.COLON: "KCOLON",
	parser.AT: "KAT", parser.EQL: "KEQL", parser.EQL_REGEX: "KEQLRE", parser.NEQ_REGEX: "KNEQRE",
}

func init() {
	punctKind[parser.LEFT_BRACE] = "KLK"
	punctKind[parser.RIGHT_BRACE] = "KRK"
}

// parseNumber is parser.number.
func parseNumber(val string) (float64, error) {
	n, err := strconv.ParseInt(val, 0, 64)
	f := float64(n)
	if err != nil {
		f, err = strconv.ParseFloat(val, 64)
	}
	return f, err
}

// lexToks runs the real lexer over text and renders the items as a Gallina list of tok.
// ok=false when the lexer reports an error item.
func lexToks(text string) (string, int, bool) {
	l := parser.Lex(text)
	var out []string
	afterAt := 0 // 1: directly after "@", 2: after "@" and a sign
	for {
		var it parser.Item
		l.NextItem(&it)
		if it.Typ == parser.COMMENT {
			continue
		}
		if it.Typ == parser.EOF {
			break
		}
		if it.Typ == parser.ERROR {
			return "", 0, false
		}
		mk := func(kind, tx string, tz string) string { return fmt.Sprintf("mkT %s %s %s", kind, tx, tz) }
		nextAfterAt := 0
		switch {
		case it.Typ == parser.NUMBER:
			f, err := parseNumber(it.Val)
			if err != nil {
				return "", 0, false
			}
			if afterAt > 0 {
				// |milliseconds|; int64(math.Round(f*1000)) overflows for f*1000 >= 2^63 (the parser's
				// range check is on seconds): written as 2^63, whose negation is the MinInt64 the
				// parser stores for the printed "-9223372036854776.000"
				if f*1000 >= 9.223372036854775807e18 {
					out = append(out, mk("KNUM", "[]", "9223372036854775808%Z"))
				} else {
					out = append(out, mk("KNUM", "[]", gallina.Z(timestamp.FromFloatSeconds(f))))
				}
			} else {
				out = append(out, mk("KNUM", "[]", gallina.ZU(fbits(f))))
			}
		case it.Typ == parser.DURATION:
			d, err := model.ParseDuration(it.Val)
			if err != nil {
				return "", 0, false
			}
			out = append(out, mk("KDUR", "[]", gallina.Z(int64(d))))
		case it.Typ == parser.STRING:
			s, err := strutil.Unquote(it.Val)
			if err != nil {
				return "", 0, false
			}
			out = append(out, mk("KSTR", gstr(s), "0"))
		case it.Typ == parser.IDENTIFIER:
			out = append(out, mk("KID", gstr(it.Val), "0"))
		case it.Typ == parser.METRIC_IDENTIFIER:
			out = append(out, mk("KMID", gstr(it.Val), "0"))
		case binopName[it.Typ] != "":
			tx := "[]"
			switch it.Typ {
			case parser.LAND, parser.LOR, parser.LUNLESS, parser.ATAN2:
				tx = gstr(it.Val)
			}
			out = append(out, mk("(KOP "+binopName[it.Typ]+")", tx, "0"))
			if afterAt == 1 && (it.Typ == parser.ADD || it.Typ == parser.SUB) {
				nextAfterAt = 2
			}
		case aggName[it.Typ] != "":
			out = append(out, mk("(KAGG "+aggName[it.Typ]+")", gstr(it.Val), "0"))
		case kwKind[it.Typ] != "":
			out = append(out, mk(kwKind[it.Typ], gstr(it.Val), "0"))
		case punctKind[it.Typ] != "":
			out = append(out, mk(punctKind[it.Typ], "[]", "0"))
			if it.Typ == parser.AT {
				nextAfterAt = 1
			}
		default:
			out = append(out, mk("KOTHER", gstr(it.Val), "0"))
		}
		afterAt = nextAfterAt
	}
	return gallina.List(out), len(out), true
}

func gdur(d int64) string { noteDur(d); return gallina.Z(d) }

func gat(ts *int64, soe parser.ItemType) string {
	switch {
	case ts != nil:
		if a := abs64(*ts); cur != nil && *ts != math.MinInt64 && tsRead(a) != a {
			cur.tsp[a] = tsRead(a)
		}
		return "(AtTs " + gallina.Z(*ts) + ")"
	case soe == parser.START:
		return "AtStart"
	case soe == parser.END:
		return "AtEnd"
	case soe != 0:
		fail("StartOrEnd")
	}
	return "AtNone"
}

func gvs(v *parser.VectorSelector) string {
	if v.OriginalOffsetExpr != nil {
		fail("duration-expr")
	}
	if v.Anchored && v.Smoothed {
		fail("anchored+smoothed")
	}
	ms := v.LabelMatchers
	if v.Name != "" {
		if len(ms) == 0 {
			fail("vs-no-name-matcher")
		}
		last := ms[len(ms)-1]
		if last == nil || last.Name != labels.MetricName || last.Type != labels.MatchEqual || last.Value != v.Name {
			fail("vs-name-matcher-not-last")
		}
		ms = ms[:len(ms)-1]
	}
	type km struct{ key, term string }
	var kms []km
	for _, m := range ms {
		if m == nil {
			fail("nil-matcher")
		}
		ty := map[labels.MatchType]string{labels.MatchEqual: "MEq", labels.MatchNotEqual: "MNeq", labels.MatchRegexp: "MRe", labels.MatchNotRegexp: "MNre"}[m.Type]
		kms = append(kms, km{m.String(), fmt.Sprintf("mkM %s %s %s", gstr(m.Name), ty, gstr(m.Value))})
	}
	sort.SliceStable(kms, func(i, j int) bool { return kms[i].key < kms[j].key })
	it := make([]string, len(kms))
	for i := range kms {
		it[i] = kms[i].term
	}
	ext := "XNone"
	if v.Anchored {
		ext = "XAnchored"
	} else if v.Smoothed {
		ext = "XSmoothed"
	}
	return fmt.Sprintf("(mkVS %s %s %s %s %s)", gstr(v.Name), gallina.List(it), gat(v.Timestamp, v.StartOrEnd), ext, gdur(int64(v.OriginalOffset)))
}

func gexprs(es parser.Expressions) string {
	it := make([]string, len(es))
	for i, e := range es {
		it[i] = gexpr(e)
	}
	return gallina.List(it)
}

func gfill(p *float64) string {
	if p == nil {
		return "None"
	}
	return "(Some " + gallina.ZU(fbits(*p)) + ")"
}

// gexpr renders a real AST as a Gallina expr; panics with unsupported{} outside the fragment.
func gexpr(e parser.Expr) string {
	switch n := e.(type) {
	case *parser.NumberLiteral:
		if n.Duration {
			ms := int64(math.Round(math.Abs(n.Val) * 1000))
			// printer (346b90dbb7): model.Duration(time.Duration(math.Round(|Val|*1e3)) * time.Millisecond)
			if pr := int64(time.Duration(math.Round(math.Abs(n.Val)*1e3)) * time.Millisecond); cur != nil && pr != ms*1000000 {
				cur.dlp[ms*1000000] = pr
			}
			return fmt.Sprintf("(EDurLit %s %s)", gallina.Bool(math.Signbit(n.Val)), gallina.Z(ms*1000000))
		}
		return "(ENum " + gallina.ZU(fbits(n.Val)) + ")"
	case *parser.StringLiteral:
		return "(EStr " + gstr(n.Val) + ")"
	case *parser.VectorSelector:
		return "(EVS " + gvs(n) + ")"
	case *parser.MatrixSelector:
		vs, ok := n.VectorSelector.(*parser.VectorSelector)
		if !ok {
			fail("matrix-without-vector-selector")
		}
		if n.RangeExpr != nil {
			fail("duration-expr")
		}
		return fmt.Sprintf("(EMat %s %s)", gvs(vs), gdur(int64(n.Range)))
	case *parser.SubqueryExpr:
		if n.RangeExpr != nil || n.StepExpr != nil || n.OriginalOffsetExpr != nil {
			fail("duration-expr")
		}
		return fmt.Sprintf("(ESub %s %s %s %s %s)", gexpr(n.Expr), gdur(int64(n.Range)), gdur(int64(n.Step)), gat(n.Timestamp, n.StartOrEnd), gdur(int64(n.OriginalOffset)))
	case *parser.Call:
		if n.Func == nil {
			fail("nil-func")
		}
		return fmt.Sprintf("(ECall %s %s)", gstr(n.Func.Name), gexprs(n.Args))
	case *parser.AggregateExpr:
		op := aggName[n.Op]
		if op == "" || n.Expr == nil {
			fail("agg")
		}
		param := "None"
		if n.Param != nil {
			param = "(Some " + gexpr(n.Param) + ")"
		}
		return fmt.Sprintf("(EAgg %s %s %s %s %s)", op, gallina.Bool(n.Without), gstrs(n.Grouping), param, gexpr(n.Expr))
	case *parser.BinaryExpr:
		op := binopName[n.Op]
		if op == "" {
			fail("binop")
		}
		vm := "None"
		if m := n.VectorMatching; m != nil {
			card := [...]string{"COneToOne", "CManyToOne", "COneToMany", "CManyToMany"}[m.Card]
			vm = fmt.Sprintf("(Some (mkVM %s %s %s %s %s %s))", card, gallina.Bool(m.On), gstrs(m.MatchingLabels), gstrs(m.Include), gfill(m.FillValues.LHS), gfill(m.FillValues.RHS))
		}
		return fmt.Sprintf("(EBin %s %s %s %s %s)", op, gallina.Bool(n.ReturnBool), vm, gexpr(n.LHS), gexpr(n.RHS))
	case *parser.UnaryExpr:
		if n.Op != parser.SUB && n.Op != parser.ADD {
			fail("unary-op")
		}
		return fmt.Sprintf("(EUn %s %s)", gallina.Bool(n.Op == parser.SUB), gexpr(n.Expr))
	case *parser.ParenExpr:
		return "(EParen " + gexpr(n.Expr) + ")"
	}
	fail(fmt.Sprintf("%T", e))
	return ""
}

func project(e parser.Expr) (term string, why string) {
	defer func() {
		if r := recover(); r != nil {
			if u, ok := r.(unsupported); ok {
				term, why = "", u.why
				return
			}
			panic(r)
		}
	}()
	return gexpr(e), ""
}

// dump is a canonical, position-free rendering of any real AST (used on the Go side for
// expressions outside the modelled fragment, and in case descriptions).
func dump(e parser.Node) string {
	var b strings.Builder
	var rec func(n parser.Node)
	fl := func(f float64) string { return strconv.FormatUint(fbits(f), 16) }
	vsd := func(v *parser.VectorSelector) {
		var ms []string
		for _, m := range v.LabelMatchers {
			if m == nil {
				ms = append(ms, "<nil>")
			} else {
				ms = append(ms, fmt.Sprintf("%q%s%q", m.Name, m.Type, m.Value))
			}
		}
		sort.Strings(ms)
		ts := "-"
		if v.Timestamp != nil {
			ts = strconv.FormatInt(*v.Timestamp, 10)
		}
		fmt.Fprintf(&b, "VS{%q %v ts=%s soe=%d off=%d offx=", v.Name, ms, ts, v.StartOrEnd, v.OriginalOffset)
		if v.OriginalOffsetExpr != nil {
			rec(v.OriginalOffsetExpr)
		}
		fmt.Fprintf(&b, " a=%v s=%v}", v.Anchored, v.Smoothed)
	}
	rec = func(n parser.Node) {
		switch x := n.(type) {
		case nil:
			b.WriteString("<nil>")
		case *parser.NumberLiteral:
			fmt.Fprintf(&b, "Num{%s %v}", fl(x.Val), x.Duration)
		case *parser.StringLiteral:
			fmt.Fprintf(&b, "Str{%q}", x.Val)
		case *parser.VectorSelector:
			vsd(x)
		case *parser.MatrixSelector:
			b.WriteString("Mat{")
			rec(x.VectorSelector)
			fmt.Fprintf(&b, " %d ", x.Range)
			if x.RangeExpr != nil {
				rec(x.RangeExpr)
			}
			b.WriteString("}")
		case *parser.SubqueryExpr:
			b.WriteString("Sub{")
			rec(x.Expr)
			ts := "-"
			if x.Timestamp != nil {
				ts = strconv.FormatInt(*x.Timestamp, 10)
			}
			fmt.Fprintf(&b, " r=%d s=%d ts=%s soe=%d off=%d ", x.Range, x.Step, ts, x.StartOrEnd, x.OriginalOffset)
			for _, d := range []*parser.DurationExpr{x.RangeExpr, x.StepExpr, x.OriginalOffsetExpr} {
				if d != nil {
					rec(d)
				} else {
					b.WriteString("-")
				}
				b.WriteString(" ")
			}
			b.WriteString("}")
		case *parser.Call:
			fmt.Fprintf(&b, "Call{%s", x.Func.Name)
			for _, a := range x.Args {
				b.WriteString(" ")
				rec(a)
			}
			b.WriteString("}")
		case *parser.AggregateExpr:
			fmt.Fprintf(&b, "Agg{%d %v %q ", x.Op, x.Without, x.Grouping)
			if x.Param != nil {
				rec(x.Param)
			}
			b.WriteString(" ")
			if x.Expr != nil {
				rec(x.Expr)
			}
			b.WriteString("}")
		case *parser.BinaryExpr:
			fmt.Fprintf(&b, "Bin{%d %v ", x.Op, x.ReturnBool)
			if m := x.VectorMatching; m != nil {
				fmt.Fprintf(&b, "vm{%d %v %q %q", m.Card, m.On, m.MatchingLabels, m.Include)
				if m.FillValues.LHS != nil {
					b.WriteString(" L" + fl(*m.FillValues.LHS))
				}
				if m.FillValues.RHS != nil {
					b.WriteString(" R" + fl(*m.FillValues.RHS))
				}
				b.WriteString("} ")
			}
			rec(x.LHS)
			b.WriteString(" ")
			rec(x.RHS)
			b.WriteString("}")
		case *parser.UnaryExpr:
			fmt.Fprintf(&b, "Un{%d ", x.Op)
			rec(x.Expr)
			b.WriteString("}")
		case *parser.ParenExpr:
			b.WriteString("Paren{")
			rec(x.Expr)
			b.WriteString("}")
		case *parser.DurationExpr:
			fmt.Fprintf(&b, "Dur{%d %v ", x.Op, x.Wrapped)
			if x.LHS != nil {
				rec(x.LHS)
			}
			b.WriteString(" ")
			if x.RHS != nil {
				rec(x.RHS)
			}
			b.WriteString("}")
		default:
			fmt.Fprintf(&b, "?%T", n)
		}
	}
	rec(e)
	return b.String()
}

// h_c15: correspondence harness for C15 (WAL truncation keeps everything replay still needs).
//
// Every case is one seeded history driven against a real tsdb.Head with a real WAL (32 KiB
// segments): commits (float samples, exemplars, metadata updates; new / idle / re-created
// series, long label values to fill segments), Head.Delete, Head.Truncate (head GC + WAL
// checkpoint + segment truncation), truncateSelectedSeries / truncateStaleSeries, forced segment
// rollover and restarts (Close, NewHead on the same WAL directory, Init).  After every operation
// the WAL directory is decoded with the real record.Decoder; the records written by the operation
// become ELog events.  After every Truncate the whole directory (checkpoint + segments) and the
// head's series / walExpiries are recorded; after every restart the replayed head's contents.
// Coq then evaluates `agree` (model/Checkpoint.v predicts every observation) and `holds` (the
// property on the decoded logs only) — see coq/corr/CorrC15.v.
package main

import (
	"context"
	"errors"
	"fmt"
	"log/slog"
	"math"
	"os"
	"path/filepath"
	"runtime/debug"
	"runtime/pprof"
	"sort"
	"strconv"
	"strings"

	"github.com/prometheus/prometheus/model/exemplar"
	"github.com/prometheus/prometheus/model/histogram"
	"github.com/prometheus/prometheus/model/labels"
	"github.com/prometheus/prometheus/model/metadata"
	"github.com/prometheus/prometheus/model/value"
	"github.com/prometheus/prometheus/storage"
	"github.com/prometheus/prometheus/tsdb"
	"github.com/prometheus/prometheus/tsdb/agent"
	"github.com/prometheus/prometheus/tsdb/chunkenc"
	"github.com/prometheus/prometheus/tsdb/chunks"
	"github.com/prometheus/prometheus/tsdb/index"
	"github.com/prometheus/prometheus/tsdb/record"
	"github.com/prometheus/prometheus/tsdb/tombstones"
	"github.com/prometheus/prometheus/tsdb/tsdbutil"
	"github.com/prometheus/prometheus/tsdb/wlog"
	"github.com/prometheus/prometheus/util/compression"

	"verif/harness/internal/gallina"
	"verif/harness/internal/gen"
)

// ---------------------------------------------------------------- decoded records

type rec struct {
	Kind    int        // 0 series, 1 samples, 2 exemplars, 3 tombstones, 4 metadata, 5 unknown
	K       int        // sample kind
	Pairs   [][2]int64 // series (ref, lab) / metadata (ref, meta)
	Triples [][3]int64 // samples / exemplars (ref, t, v)
	Stones  []stone
}

type stone struct {
	Ref int64
	Ivs [][2]int64
}

type interner struct {
	labs  map[string]int64
	metas map[string]int64
	vals  map[string]int64
	names []string
}

func newInterner() *interner {
	return &interner{labs: map[string]int64{}, metas: map[string]int64{}, vals: map[string]int64{}}
}

func (in *interner) lab(l labels.Labels) int64 {
	k := l.String()
	if v, ok := in.labs[k]; ok {
		return v
	}
	v := int64(len(in.labs) + 1)
	in.labs[k] = v
	return v
}

func (in *interner) meta(typ uint8, unit, help string) int64 {
	k := fmt.Sprintf("%d|%s|%s", typ, unit, help)
	if v, ok := in.metas[k]; ok {
		return v
	}
	v := int64(len(in.metas) + 1)
	in.metas[k] = v
	return v
}

func (in *interner) val(s string) int64 {
	if v, ok := in.vals[s]; ok {
		return v
	}
	v := int64(len(in.vals) + 1)
	in.vals[s] = v
	return v
}

func (in *interner) fval(f float64) int64 {
	if value.IsStaleNaN(f) { // a staleness marker may be logged and stored under different sample types
		return in.val("stale")
	}
	return in.val(strconv.FormatUint(math.Float64bits(f), 16))
}
func (in *interner) hval(h *histogram.Histogram) int64 {
	if value.IsStaleNaN(h.Sum) { // a chunk keeps the bucket layout of a staleness marker, the WAL record does not
		return in.val("stale")
	}
	return in.val(fmt.Sprintf("h%d%v%s", h.Schema, h.CustomValues, h.String()))
}
func (in *interner) fhval(h *histogram.FloatHistogram) int64 {
	if value.IsStaleNaN(h.Sum) {
		return in.val("stale")
	}
	return in.val(fmt.Sprintf("fh%d%v%s", h.Schema, h.CustomValues, h.String()))
}
func (in *interner) eval(f float64, l labels.Labels) int64 {
	return in.val("e" + strconv.FormatUint(math.Float64bits(f), 16) + l.String())
}

func decode(in *interner, dec *record.Decoder, b []byte) rec {
	switch dec.Type(b) {
	case record.Series:
		ss, err := dec.Series(b, nil)
		must(err)
		r := rec{Kind: 0}
		for _, s := range ss {
			r.Pairs = append(r.Pairs, [2]int64{int64(s.Ref), in.lab(s.Labels)})
		}
		return r
	case record.Samples, record.SamplesV2:
		ss, err := dec.Samples(b, nil)
		must(err)
		r := rec{Kind: 1}
		for _, s := range ss {
			r.Triples = append(r.Triples, [3]int64{int64(s.Ref), s.T, in.fval(s.V)})
		}
		return r
	case record.HistogramSamples, record.HistogramSamplesV2, record.CustomBucketsHistogramSamples:
		hs, err := dec.HistogramSamples(b, nil)
		must(err)
		r := rec{Kind: 1, K: 1}
		if dec.Type(b) == record.CustomBucketsHistogramSamples {
			r.K = 3
		}
		for _, s := range hs {
			r.Triples = append(r.Triples, [3]int64{int64(s.Ref), s.T, in.hval(s.H)})
		}
		return r
	case record.FloatHistogramSamples, record.FloatHistogramSamplesV2, record.CustomBucketsFloatHistogramSamples:
		hs, err := dec.FloatHistogramSamples(b, nil)
		must(err)
		r := rec{Kind: 1, K: 2}
		if dec.Type(b) == record.CustomBucketsFloatHistogramSamples {
			r.K = 4
		}
		for _, s := range hs {
			r.Triples = append(r.Triples, [3]int64{int64(s.Ref), s.T, in.fhval(s.FH)})
		}
		return r
	case record.Exemplars:
		es, err := dec.Exemplars(b, nil)
		must(err)
		r := rec{Kind: 2}
		for _, e := range es {
			r.Triples = append(r.Triples, [3]int64{int64(e.Ref), e.T, in.eval(e.V, e.Labels)})
		}
		return r
	case record.Tombstones:
		ts, err := dec.Tombstones(b, nil)
		must(err)
		r := rec{Kind: 3}
		for _, s := range ts {
			st := stone{Ref: int64(s.Ref)}
			for _, iv := range s.Intervals {
				st.Ivs = append(st.Ivs, [2]int64{iv.Mint, iv.Maxt})
			}
			r.Stones = append(r.Stones, st)
		}
		return r
	case record.Metadata:
		ms, err := dec.Metadata(b, nil)
		must(err)
		r := rec{Kind: 4}
		for _, m := range ms {
			r.Pairs = append(r.Pairs, [2]int64{int64(m.Ref), in.meta(m.Type, m.Unit, m.Help)})
		}
		return r
	default:
		return rec{Kind: 5}
	}
}

func must(err error) {
	if err != nil {
		panic(err)
	}
}

// ---------------------------------------------------------------- Gallina printing

const off = int64(1) << 40

func zi(v int64) string {
	switch {
	case v == math.MinInt64:
		return "0"
	case v == math.MaxInt64:
		return "1"
	case v <= -off+2 || v >= off:
		panic(fmt.Sprintf("value out of literal range: %d", v))
	}
	return strconv.FormatInt(v+off, 10)
}

func zz(v int64) string { return "(z " + zi(v) + ")" }

func lz(vs []int64) string {
	it := make([]string, len(vs))
	for i, v := range vs {
		it[i] = zi(v)
	}
	return "(lz " + gallina.List(it) + ")"
}

func pairs(ps [][2]int64) string {
	it := make([]string, len(ps))
	for i, p := range ps {
		it[i] = "p " + zi(p[0]) + " " + zi(p[1])
	}
	return gallina.List(it)
}

func (r rec) String() string {
	switch r.Kind {
	case 0:
		return "RSeries " + pairs(r.Pairs)
	case 1, 2:
		it := make([]string, len(r.Triples))
		for i, t := range r.Triples {
			it[i] = "t3 " + zi(t[0]) + " " + zi(t[1]) + " " + zi(t[2])
		}
		if r.Kind == 1 {
			return "RSamples " + zz(int64(r.K)) + " " + gallina.List(it)
		}
		return "RExemplars " + gallina.List(it)
	case 3:
		it := make([]string, len(r.Stones))
		for i, s := range r.Stones {
			it[i] = "stn " + zi(s.Ref) + " " + pairs(s.Ivs)
		}
		return "RTombstones " + gallina.List(it)
	case 4:
		return "RMetadata " + pairs(r.Pairs)
	}
	return "RUnknown"
}

func recList(rs []rec) string {
	it := make([]string, len(rs))
	for i, r := range rs {
		it[i] = r.String()
	}
	return gallina.List(it)
}

// ---------------------------------------------------------------- reading a WAL directory

type segRec struct {
	Seg int
	R   rec
}

type walDir struct {
	CpIdx       int
	Cp          []rec
	Segs        map[int][]rec
	First, Last int
}

func readRecords(in *interner, rd *wlog.Reader) []rec {
	dec := record.NewDecoder(labels.NewSymbolTable(), nil)
	var out []rec
	for rd.Next() {
		out = append(out, decode(in, &dec, rd.Record()))
	}
	must(rd.Err())
	return out
}

// segCache holds the decoded records of segments that were read when a later segment already
// existed (such a segment is never written again).
type segCache map[int][]rec

func readWAL(in *interner, dir string, cache segCache) walDir {
	w := walDir{CpIdx: -1, Segs: map[int][]rec{}}
	cpdir, idx, err := wlog.LastCheckpoint(dir)
	if err == nil {
		w.CpIdx = idx
		sr, err := wlog.NewSegmentsReader(cpdir)
		must(err)
		w.Cp = readRecords(in, wlog.NewReader(sr))
		sr.Close()
	} else if !errors.Is(err, record.ErrNotFound) {
		panic(err)
	}
	w.First, w.Last, err = wlog.Segments(dir)
	must(err)
	for i := w.First; i <= w.Last && w.First >= 0; i++ {
		if rs, ok := cache[i]; ok {
			w.Segs[i] = rs
			continue
		}
		seg, err := wlog.OpenReadSegment(wlog.SegmentName(dir, i))
		must(err)
		sr := wlog.NewSegmentBufReader(seg)
		w.Segs[i] = readRecords(in, wlog.NewReader(sr))
		sr.Close()
		if i < w.Last {
			cache[i] = w.Segs[i]
		}
	}
	return w
}

// ---------------------------------------------------------------- the world

type world struct {
	root          string
	walDir        string
	head          *tsdb.Head
	nheads        int
	in            *interner
	seen          map[int]int // records already reported, per segment
	cache         segCache
	logName       string
	events        []string
	obs           []string
	desc          []string
	racy          map[int64]bool // label sets that were evicted (full-range tombstone in the log)
	viol          []string
	pendingOps    int
	kindsAt       map[int64]int // commit time -> set of sample kinds appended at it
	boundary      [3]int        // kinds with a sample at mint-1 / mint / mint+1 in some effective truncation
	unknownOrphan bool
	stStorage     bool // 'st-storage': V2 WAL records
	shape         string
	metaDup       bool

	// statistics
	effective, restarts, gcDeleted, evicted, dupLabs, dropped int
	labRefs                                                   map[int64]map[uint64]bool
}

func (w *world) open(mv int64) {
	wl, err := wlog.NewSize(nil, nil, w.walDir, 32*1024, compression.None)
	must(err)
	opts := tsdb.DefaultHeadOptions()
	opts.ChunkRange = 1000
	w.nheads++
	opts.ChunkDirRoot = filepath.Join(w.root, fmt.Sprintf("chunks%d", w.nheads))
	opts.EnableExemplarStorage = true
	opts.MaxExemplars.Store(10000)
	opts.EnableMetadataWALRecords = true
	opts.StripeSize = 16
	opts.WALReplayConcurrency = 2
	opts.ChunkWriteBufferSize = 64 * 1024
	opts.EnableSTStorage.Store(w.stStorage)
	h, err := tsdb.NewHead(nil, nil, wl, nil, opts, nil)
	must(err)
	must(h.Init(mv))
	w.head = h
}

func (w *world) close() {
	must(w.head.Close())
	os.RemoveAll(filepath.Join(w.root, fmt.Sprintf("chunks%d", w.nheads)))
}

// flushLog turns the records written since the last call into one ELog event.
func (w *world) flushLog() {
	d := readWAL(w.in, w.walDir, w.cache)
	var it []string
	for s := d.First; s <= d.Last && d.First >= 0; s++ {
		rs := d.Segs[s]
		for i := w.seen[s]; i < len(rs); i++ {
			it = append(it, "sr "+zi(int64(s))+" ("+rs[i].String()+")")
			if rs[i].Kind == 0 {
				for _, p := range rs[i].Pairs {
					if w.labRefs[p[1]] == nil {
						w.labRefs[p[1]] = map[uint64]bool{}
					}
					w.labRefs[p[1]][uint64(p[0])] = true
				}
			}
		}
		w.seen[s] = len(rs)
	}
	if len(it) > 0 {
		w.events = append(w.events, w.logName+" "+gallina.List(it))
	}
}

func (w *world) seriesRefs() map[uint64]int64 {
	out := map[uint64]int64{}
	for _, s := range w.head.VerifDump() {
		out[s.Ref] = w.in.lab(s.Labels)
	}
	return out
}

// actualInOrderMint as Head.gc computes it: the lowest minTime of the remaining series, or the head's
// min time when none remains.
func (w *world) actualMint() int64 {
	d := w.head.VerifDump()
	if len(d) == 0 {
		return w.head.MinTime()
	}
	m := int64(math.MaxInt64)
	for _, s := range d {
		if s.MinTime < m {
			m = s.MinTime
		}
	}
	return m
}

func sortedKeys[V any](m map[uint64]V) []uint64 {
	ks := make([]uint64, 0, len(m))
	for k := range m {
		ks = append(ks, k)
	}
	sort.Slice(ks, func(i, j int) bool { return ks[i] < ks[j] })
	return ks
}

func (w *world) expiries() string {
	e := w.head.VerifC15WALExpiries()
	var ps [][2]int64
	for _, k := range sortedKeys(e) {
		ps = append(ps, [2]int64{int64(k), e[k]})
	}
	return pairs(ps)
}

func (w *world) truncate(mint int64) {
	init := w.head.VerifC15Initialized()
	before := w.seriesRefs()
	pre := readWAL(w.in, w.walDir, w.cache)
	must(w.head.Truncate(mint))
	after := w.seriesRefs()
	var deleted []int64
	for _, r := range sortedKeys(before) {
		if _, ok := after[r]; !ok {
			deleted = append(deleted, int64(r))
		}
	}
	w.gcDeleted += len(deleted)
	actual := w.actualMint()
	w.flushLog()
	w.events = append(w.events, fmt.Sprintf("ETruncate %s %s %s %s", gallina.Bool(init), zz(mint), lz(deleted), zz(actual)))
	post := readWAL(w.in, w.walDir, w.cache)
	n := 0
	for _, rs := range post.Segs {
		n += len(rs)
	}
	var refs []int64
	for _, r := range sortedKeys(after) {
		refs = append(refs, int64(r))
	}
	w.obs = append(w.obs, fmt.Sprintf("OTrunc %s %s %s %s %s %s %s", zz(int64(post.CpIdx)), recList(post.Cp),
		zz(int64(post.First)), zz(int64(post.Last)), zz(int64(n)), lz(refs), w.expiries()))
	if post.CpIdx != pre.CpIdx {
		for d := -1; d <= 1; d++ {
			w.boundary[d+1] |= w.kindsAt[mint+int64(d)]
		}
		w.effective++
		nin := len(pre.Cp)
		for s := pre.First; s <= post.CpIdx; s++ {
			nin += len(pre.Segs[s])
		}
		if countSeries(post.Cp) < countSeriesUpTo(pre, post.CpIdx) {
			w.dropped++
		}
		_ = nin
	}
	w.desc = append(w.desc, fmt.Sprintf("truncate(%d) init=%v deleted=%v cp=%d", mint, init, deleted, post.CpIdx))
	// Finding probe: the checkpoint's final metadata record is written in map order; when one label set
	// has entries under two refs (a re-created series whose old series record is still kept), replay
	// applies them in file order, so which metadata the series has after a restart is arbitrary.
	if post.CpIdx != pre.CpIdx {
		refLab := map[int64]int64{}
		for L, refs := range w.labRefs {
			for r := range refs {
				refLab[int64(r)] = L
			}
		}
		for _, r := range post.Cp {
			if r.Kind != 4 {
				continue
			}
			byLab := map[int64][][2]int64{}
			for _, m := range r.Pairs {
				byLab[refLab[m[0]]] = append(byLab[refLab[m[0]]], m)
			}
			for L, ms := range byLab {
				for _, m := range ms[1:] {
					if m[1] != ms[0][1] && !w.metaDup {
						w.metaDup = true
						w.viol = append(w.viol, fmt.Sprintf("checkpoint.%08d: metadata record holds differing entries %v for label set %d under several refs; written in map order, replayed in file order (last wins)", post.CpIdx, ms, L))
					}
				}
			}
		}
	}
}

func countSeries(rs []rec) int {
	n := 0
	for _, r := range rs {
		if r.Kind == 0 {
			n += len(r.Pairs)
		}
	}
	return n
}

func countSeriesUpTo(d walDir, last int) int {
	n := countSeries(d.Cp)
	for s := d.First; s <= last; s++ {
		n += countSeries(d.Segs[s])
	}
	return n
}

func (w *world) evict(refs []uint64, maxt int64, stale bool) {
	before := w.seriesRefs()
	rs := make([]storage.SeriesRef, len(refs))
	for i, r := range refs {
		rs[i] = storage.SeriesRef(r)
	}
	if stale {
		must(w.head.VerifC15TruncateStaleSeries(rs, maxt))
	} else {
		must(w.head.VerifC15TruncateSelectedSeries(rs, maxt))
	}
	after := w.seriesRefs()
	var deleted []int64
	for _, r := range sortedKeys(before) {
		if _, ok := after[r]; !ok {
			deleted = append(deleted, int64(r))
			w.racy[before[r]] = true
		}
	}
	w.evicted += len(deleted)
	w.events = append(w.events, fmt.Sprintf("EEvict %s %s", zz(maxt), lz(deleted)))
	w.flushLog()
	w.desc = append(w.desc, fmt.Sprintf("evict(%v, maxt=%d, stale=%v) deleted=%v", refs, maxt, stale, deleted))
}

type rawSample struct {
	T int64
	V int64 // interned value
}

// headSamples returns, per series ref, the samples of the head's in-order chunks (any sample type),
// read through Head.Index() / Head.Chunks(); tombstones are not applied.
func (w *world) headSamples() map[uint64][]rawSample {
	out := map[uint64][]rawSample{}
	ir, err := w.head.Index()
	must(err)
	defer ir.Close()
	cr, err := w.head.Chunks()
	must(err)
	defer cr.Close()
	k, v := index.AllPostingsKey()
	ps, err := ir.Postings(context.Background(), k, v)
	must(err)
	var b labels.ScratchBuilder
	for ps.Next() {
		var metas []chunks.Meta
		must(ir.Series(ps.At(), &b, &metas))
		for _, m := range metas {
			c, it, err := cr.ChunkOrIterable(m)
			must(err)
			var ci chunkenc.Iterator
			if c != nil {
				ci = c.Iterator(nil)
			} else {
				ci = it.Iterator(nil)
			}
			for vt := ci.Next(); vt != chunkenc.ValNone; vt = ci.Next() {
				switch vt {
				case chunkenc.ValFloat:
					t, f := ci.At()
					out[uint64(ps.At())] = append(out[uint64(ps.At())], rawSample{t, w.in.fval(f)})
				case chunkenc.ValHistogram:
					t, h := ci.AtHistogram(nil)
					out[uint64(ps.At())] = append(out[uint64(ps.At())], rawSample{t, w.in.hval(h)})
				case chunkenc.ValFloatHistogram:
					t, h := ci.AtFloatHistogram(nil)
					out[uint64(ps.At())] = append(out[uint64(ps.At())], rawSample{t, w.in.fhval(h)})
				}
			}
			must(ci.Err())
		}
	}
	must(ps.Err())
	return out
}

func (w *world) restart(mv int64) {
	w.close()
	w.open(mv)
	w.restarts++
	actual := w.actualMint()
	w.events = append(w.events, fmt.Sprintf("ERestart %s %s", zz(mv), zz(actual)))
	d := readWAL(w.in, w.walDir, w.cache)

	dump := w.head.VerifDump()
	raw := w.headSamples()
	stones := w.head.VerifTombstones()
	metas := w.head.VerifC15SeriesMeta()
	var series, metaPairs [][2]int64
	type lc struct {
		lab int64
		s   string
	}
	var content []lc
	for _, s := range dump {
		L := w.in.lab(s.Labels)
		series = append(series, [2]int64{int64(s.Ref), L})
		var it []string
		for _, sm := range raw[s.Ref] {
			vis := true
			for _, iv := range stones[s.Ref] {
				if iv[0] <= sm.T && sm.T <= iv[1] {
					vis = false
				}
			}
			it = append(it, fmt.Sprintf("smp %s %s %s", zi(sm.T), zi(sm.V), gallina.Bool(vis)))
		}
		content = append(content, lc{L, "(" + zz(L) + ", " + gallina.List(it) + ")"})
		if m, ok := metas[s.Ref]; ok {
			metaPairs = append(metaPairs, [2]int64{L, w.in.meta(record.GetMetricType(m.Type), m.Unit, m.Help)})
		}
	}
	sort.Slice(content, func(i, j int) bool { return content[i].lab < content[j].lab })
	sort.Slice(metaPairs, func(i, j int) bool { return metaPairs[i][0] < metaPairs[j][0] })
	cs := make([]string, len(content))
	for i, c := range content {
		cs[i] = c.s
	}
	var racy []int64
	for L := range w.racy {
		racy = append(racy, L)
	}
	sort.Slice(racy, func(i, j int) bool { return racy[i] < racy[j] })

	eq, err := w.head.ExemplarQuerier(context.Background())
	must(err)
	res, err := eq.Select(math.MinInt64, math.MaxInt64, []*labels.Matcher{})
	must(err)
	var ex []lc
	for _, qr := range res {
		L := w.in.lab(qr.SeriesLabels)
		if w.racy[L] {
			continue
		}
		var ps [][2]int64
		for _, e := range qr.Exemplars {
			ps = append(ps, [2]int64{e.Ts, w.in.eval(e.Value, e.Labels)})
		}
		ex = append(ex, lc{L, "(" + zz(L) + ", " + pairs(ps) + ")"})
	}
	sort.Slice(ex, func(i, j int) bool { return ex[i].lab < ex[j].lab })
	es := make([]string, len(ex))
	for i, c := range ex {
		es[i] = c.s
	}
	w.obs = append(w.obs, fmt.Sprintf("ORestart %s %s %s %s %s %s %s %s", zz(int64(d.First)), zz(int64(d.Last)),
		pairs(series), w.expiries(), lz(racy), gallina.List(cs), pairs(metaPairs), gallina.List(es)))
	w.desc = append(w.desc, fmt.Sprintf("restart(mv=%d) series=%d", mv, len(dump)))
}

// ---------------------------------------------------------------- history generation

var kindNames = [...]string{"float", "histogram", "float-histogram", "nhcb", "float-nhcb"}

// appendKind appends one sample of the series' kind (n makes counters grow).
func appendKind(app storage.Appender, kind int, l labels.Labels, t, n int64) (storage.SeriesRef, error) {
	switch kind {
	case 1:
		return app.AppendHistogram(0, l, t, tsdbutil.GenerateTestHistogram(n), nil)
	case 2:
		return app.AppendHistogram(0, l, t, nil, tsdbutil.GenerateTestFloatHistogram(n))
	case 3:
		return app.AppendHistogram(0, l, t, tsdbutil.GenerateTestCustomBucketsHistogram(n), nil)
	case 4:
		return app.AppendHistogram(0, l, t, nil, tsdbutil.GenerateTestCustomBucketsFloatHistogram(n))
	}
	return app.Append(0, l, t, float64(n))
}

// openApp is an appender that stays open across other operations (V1 or V2 interface of the head).
type openApp struct {
	v1 storage.Appender
	v2 storage.AppenderV2
}

func (w *world) openAppender(v2 bool) *openApp {
	if v2 {
		return &openApp{v2: w.head.AppenderV2(context.Background())}
	}
	return &openApp{v1: w.head.Appender(context.Background())}
}

func (a *openApp) append(kind int, l labels.Labels, t, n int64) error {
	if a.v1 != nil {
		_, err := appendKind(a.v1, kind, l, t, n)
		return err
	}
	var (
		h  *histogram.Histogram
		fh *histogram.FloatHistogram
	)
	switch kind {
	case 1:
		h = tsdbutil.GenerateTestHistogram(n)
	case 2:
		fh = tsdbutil.GenerateTestFloatHistogram(n)
	case 3:
		h = tsdbutil.GenerateTestCustomBucketsHistogram(n)
	case 4:
		fh = tsdbutil.GenerateTestCustomBucketsFloatHistogram(n)
	}
	_, err := a.v2.Append(0, l, 0, t, float64(n), h, fh, storage.AppendV2Options{})
	return err
}

func (a *openApp) commit() {
	if a.v1 != nil {
		must(a.v1.Commit())
		return
	}
	must(a.v2.Commit())
}

// created reports the series that exist in the head now but not in `before` (created by an open
// appender: their series record is only logged at Commit) as an ECreate event.
func (w *world) created(before map[uint64]int64) {
	after := w.seriesRefs()
	var ps [][2]int64
	for _, r := range sortedKeys(after) {
		if _, ok := before[r]; !ok {
			ps = append(ps, [2]int64{int64(r), after[r]})
			if w.labRefs[after[r]] == nil {
				w.labRefs[after[r]] = map[uint64]bool{}
			}
			w.labRefs[after[r]][r] = true
		}
	}
	if len(ps) > 0 {
		w.events = append(w.events, "ECreate "+pairs(ps))
	}
}

type serDef struct {
	kind  int
	lset  labels.Labels
	last  int64 // time of the last accepted sample
	count int64
}

var metaChoices = []metadata.Metadata{
	{Type: "counter", Unit: "s", Help: "a"},
	{Type: "gauge", Unit: "", Help: "b"},
	{Type: "counter", Unit: "bytes", Help: "c"},
}

func runCase(outDir string, seed uint64, idx int, corpus int) (string, map[string]any, *world) {
	r := gen.Fork(seed, idx)
	root, err := os.MkdirTemp(outDir, "c15_")
	must(err)
	defer os.RemoveAll(root)
	w := &world{root: root, walDir: filepath.Join(root, "wal"), in: newInterner(), seen: map[int]int{}, cache: segCache{}, logName: "ELog",
		racy: map[int64]bool{}, labRefs: map[int64]map[uint64]bool{}, kindsAt: map[int64]int{}}
	w.stStorage = r.Chance(1, 3) && corpus != 0
	w.open(math.MinInt64)

	// every history has series of all five sample kinds (float, histogram, float histogram, NHCB, float NHCB)
	nser := 5 + r.Intn(4)
	if corpus >= 0 {
		nser = 7
	}
	if corpus == 1 {
		nser = 11
	}
	koff := r.Intn(5)
	if corpus == 1 {
		koff = 0
	}
	sers := make([]*serDef, nser)
	for i := range sers {
		ls := []string{"__name__", fmt.Sprintf("m%d", i)}
		if r.Chance(1, 5) && corpus < 0 {
			ls = append(ls, "pad", strings.Repeat("x", 4000+r.Intn(9000))) // fills segments quickly
		}
		sers[i] = &serDef{kind: (i + koff) % 5, lset: labels.FromStrings(ls...), last: math.MinInt64}
	}
	// activity classes: some series are busy, some go idle (and are garbage collected), some come back
	active := make([]bool, nser)
	for i := range active {
		active[i] = r.Chance(3, 4) || corpus >= 0
	}
	active[0] = true

	now := int64(1000 + r.Intn(500))
	if corpus >= 0 {
		now = 1000
	}
	g := int64(math.MinInt64)     // highest truncation time so far
	floor := int64(math.MinInt64) // minValidTime of the last Init
	nops := 14 + r.Intn(30)
	if corpus >= 0 {
		nops = 0
	}
	var commitTimes []int64
	commit := func(which []int, exProb, metaProb int) {
		app := w.head.Appender(context.Background())
		for _, i := range which {
			s := sers[i]
			s.count++
			v := float64(s.count)
			ref, err := appendKind(app, s.kind, s.lset, now, s.count)
			if err != nil {
				continue
			}
			s.last = now
			w.kindsAt[now] |= 1 << s.kind
			if r.Chance(exProb, 10) {
				_, _ = app.AppendExemplar(ref, s.lset, exemplar.Exemplar{
					Labels: labels.FromStrings("trace", fmt.Sprintf("t%d", s.count)), Value: v, Ts: now - int64(r.Intn(3)), HasTs: true})
			}
			if r.Chance(metaProb, 10) {
				_, _ = app.UpdateMetadata(ref, s.lset, metaChoices[r.Intn(len(metaChoices))])
			}
		}
		must(app.Commit())
		commitTimes = append(commitTimes, now)
		w.flushLog()
	}
	exProb, metaProb := r.Intn(6), r.Intn(6)
	if corpus >= 0 {
		exProb, metaProb = 10, 10
	}

	// first commit: all active series
	var first []int
	for i := range sers {
		if active[i] {
			first = append(first, i)
		}
	}
	commit(first, exProb, 8)
	w.desc = append(w.desc, fmt.Sprintf("series=%d first=%v now=%d", nser, first, now))

	if corpus == 0 {
		// fixed reproducer: every record kind (float, histogram, float histogram, NHCB, float NHCB samples,
		// exemplars, tombstones, metadata) with timestamps 1000..1003 in segment 0, which the checkpoints of
		// Truncate(1001) and, after a restart, Truncate(1002) fold in: mint-1 / mint / mint+1 for every kind
		all := []int{0, 1, 2, 3, 4, 5, 6}
		for _, t := range []int64{1001, 1002, 1003} {
			now = t
			commit(all, 10, 10)
		}
		for i, hi := range []int64{1000, 1001, 1002, 1003} {
			must(w.head.Delete(context.Background(), 0, hi, labels.MustNewMatcher(labels.MatchEqual, "__name__", fmt.Sprintf("m%d", i))))
			w.flushLog()
		}
		roll := func(n int) {
			for ; n > 0; n-- {
				_, err := w.head.VerifC15WAL().NextSegment()
				must(err)
				w.events = append(w.events, "ERoll")
			}
		}
		roll(4)
		now = 3000
		commit(all, 10, 10)
		w.truncate(1001)
		w.restart(math.MinInt64)
		now = 3100
		commit(all, 10, 10)
		roll(3)
		w.truncate(1002)
		g = 1002
		w.restart(1002)
		floor = 1002
		roll(3)
		now = 3200
		commit(all, 10, 10)
		w.truncate(1003)
		g = 1003
		w.desc = append(w.desc, "scripted: all kinds at 1000..1003, Truncate(1001), restart, Truncate(1002), restart, Truncate(1003)")
	}
	if corpus == 1 {
		// fixed reproducer: series 0..4 (one per kind) get an uncommitted append through a V1 appender,
		// series 5..9 (one per kind) through a V2 appender, each appender also creates a new series; all ten
		// series are idle (last sample 1000); Truncate(2400) runs while both appenders are open, then they
		// commit, then Truncate(2450) writes the checkpoint: the samples @2500 need their series records.
		idle := []int{0, 1, 2, 3, 4, 5, 6, 7, 8, 9}
		roll := func(n int) {
			for ; n > 0; n-- {
				_, err := w.head.VerifC15WAL().NextSegment()
				must(err)
				w.events = append(w.events, "ERoll")
			}
		}
		now = 2000
		commit([]int{10}, 0, 0)
		roll(3)
		before := w.seriesRefs()
		a1, a2 := w.openAppender(false), w.openAppender(true)
		for _, i := range idle {
			a := a1
			if i >= 5 {
				a = a2
			}
			sers[i].count++
			must(a.append(sers[i].kind, sers[i].lset, 2500, sers[i].count))
		}
		must(a1.append(2, labels.FromStrings("__name__", "new_v1"), 2500, 1))
		must(a2.append(2, labels.FromStrings("__name__", "new_v2"), 2500, 1))
		w.created(before)
		w.truncate(2400)
		a1.commit()
		a2.commit()
		w.flushLog()
		roll(4)
		w.truncate(2450)
		g = 2450
		w.restart(2450)
		floor = 2450
		now = 2600
		w.desc = append(w.desc, "scripted: V1 and V2 appenders open across Truncate(2400), all kinds, then Truncate(2450), restart")
	}
	for op := 0; op < nops; op++ {
		now += int64(10 + r.Intn(400))
		switch k := r.Intn(100); {
		case k < 8 && op+2 < nops: // an appender (V1 or V2) that stays open across a truncation
			// it appends to idle series that are still in the head and to a label set without series
			d := int64(1 + r.Intn(60))
			m1 := now - d
			if m1 <= g || m1 < floor {
				continue
			}
			before := w.seriesRefs()
			a := w.openAppender(r.Bool())
			n := 0
			for i, s := range sers {
				if !active[i] && s.last < m1 && r.Chance(2, 3) {
					s.count++
					if a.append(s.kind, s.lset, now, s.count) == nil {
						s.last = now
						w.kindsAt[now] |= 1 << s.kind
						n++
					}
				}
			}
			if n == 0 {
				s := sers[r.Intn(nser)]
				if s.last < now {
					s.count++
					if a.append(s.kind, s.lset, now, s.count) == nil {
						s.last = now
					}
				}
			}
			w.created(before)
			w.truncate(m1)
			a.commit()
			commitTimes = append(commitTimes, now)
			w.flushLog()
			g = m1
			w.pendingOps++
			w.desc = append(w.desc, fmt.Sprintf("open appender v2=%v: %d idle series @%d, truncate(%d) while open, commit", a.v2 != nil, n, now, m1))
			// the next truncation: above the first one, at or below the pending samples
			for k := r.Intn(4); k > 0; k-- {
				_, err := w.head.VerifC15WAL().NextSegment()
				must(err)
				w.events = append(w.events, "ERoll")
			}
			m2 := now - int64(r.Intn(int(d)))
			w.truncate(m2)
			g = m2
		case k < 45: // commit
			var which []int
			for i := range sers {
				if active[i] && r.Chance(4, 5) {
					which = append(which, i)
				}
			}
			if len(which) == 0 {
				which = []int{0}
			}
			commit(which, exProb, metaProb)
			w.desc = append(w.desc, fmt.Sprintf("commit%v@%d", which, now))
		case k < 55: // churn: flip activity of a series
			i := r.Intn(nser)
			active[i] = !active[i]
			w.desc = append(w.desc, fmt.Sprintf("flip %d -> %v", i, active[i]))
		case k < 62: // delete
			i := r.Intn(nser)
			lo := now - int64(r.Intn(1500))
			hi := lo + int64(r.Intn(800))
			if r.Chance(1, 2) && len(commitTimes) > 0 { // tombstone Maxt exactly at a sample time
				hi = commitTimes[r.Intn(len(commitTimes))]
				lo = hi - int64(r.Intn(800))
			}
			must(w.head.Delete(context.Background(), lo, hi, labels.MustNewMatcher(labels.MatchEqual, "__name__", fmt.Sprintf("m%d", i))))
			w.flushLog()
			w.desc = append(w.desc, fmt.Sprintf("delete m%d [%d,%d]", i, lo, hi))
		case k < 80: // truncate
			var mint int64
			switch {
			case r.Chance(1, 2) && len(commitTimes) > 0:
				// a sample time of every record kind, or one millisecond below / above it; older commits (whose
				// segments get folded into the checkpoint) preferred, but above the last truncation
				var cand []int64
				for _, ct := range commitTimes {
					if ct-1 > g {
						cand = append(cand, ct)
					}
				}
				if len(cand) == 0 {
					cand = commitTimes
				}
				mint = cand[r.Intn((len(cand)+1)/2)] + int64(r.Intn(3)) - 1
			case r.Chance(1, 10):
				mint = now - int64(r.Intn(3000)) // possibly below earlier truncations
			case r.Chance(1, 3):
				mint = now / 1000 * 1000 // a block boundary
			default:
				mint = now - int64(r.Intn(1200))
			}
			if mint < floor { // never truncate below the minValidTime the head was initialised with
				mint = floor
			}
			w.truncate(mint)
			if mint > g {
				g = mint
			}
		case k < 86: // evict selected / stale series
			cur := w.seriesRefs()
			ks := sortedKeys(cur)
			if len(ks) == 0 {
				continue
			}
			stale := r.Chance(1, 3)
			var refs []uint64
			for _, k := range ks {
				if r.Chance(1, 3) {
					refs = append(refs, k)
				}
			}
			if len(refs) == 0 {
				refs = []uint64{ks[r.Intn(len(ks))]}
			}
			if stale { // make some of them stale first
				app := w.head.Appender(context.Background())
				for i, s := range sers {
					if active[i] && r.Chance(1, 2) {
						if _, err := app.Append(0, s.lset, now, math.Float64frombits(value.StaleNaN)); err == nil {
							s.last = now
						}
					}
				}
				must(app.Commit())
				w.flushLog()
			}
			maxt := now
			if r.Chance(1, 3) {
				maxt = now - int64(r.Intn(600))
			}
			w.evict(refs, maxt, stale)
		case k < 92: // forced segment rollover (what a full segment does)
			_, err := w.head.VerifC15WAL().NextSegment()
			must(err)
			w.events = append(w.events, "ERoll")
			w.desc = append(w.desc, "roll")
		default: // restart
			mv := int64(math.MinInt64)
			if g != math.MinInt64 && r.Chance(1, 2) {
				mv = g
			}
			floor = mv
			w.restart(mv)
		}
	}
	// always end with a restart and one more truncation + restart so that every history replays a checkpoint
	now += 500
	commit([]int{0}, exProb, metaProb)
	w.restart(math.MinInt64)
	now += 700
	commit([]int{0}, exProb, metaProb)
	w.truncate(now - 300)
	if now-300 > g {
		g = now - 300
	}
	w.restart(g)
	w.close()

	for _, refs := range w.labRefs {
		if len(refs) > 1 {
			w.dupLabs++
		}
	}
	term := fmt.Sprintf("mkCase %s\n %s\n %s [] []", zz(int64(idx)), gallina.List(w.events), gallina.List(w.obs))
	desc := map[string]any{"shape": "history", "seed": seed, "index": idx, "ops": w.desc}
	return term, desc, w
}

// ---------------------------------------------------------------- agent DB histories

func agentState(db *agent.DB, in *interner) (refs []int64, deleted [][2]int64) {
	ser := db.VerifC15Series()
	for _, r := range sortedKeys(ser) {
		refs = append(refs, int64(r))
	}
	del := db.VerifC15Deleted()
	for _, r := range sortedKeys(del) {
		deleted = append(deleted, [2]int64{int64(r), int64(del[r])})
	}
	return refs, deleted
}

// runAgentCase drives a real agent.DB: commits (samples, exemplars; series that go idle and come back),
// DB.truncate(ts) (series GC + checkpoint + segment truncation), forced rollover and reopening.
func runAgentCase(outDir string, seed uint64, idx int, scripted bool) (string, map[string]any, *world) {
	r := gen.Fork(seed, idx)
	root, err := os.MkdirTemp(outDir, "c15a_")
	must(err)
	defer os.RemoveAll(root)
	w := &world{root: root, walDir: filepath.Join(root, "wal"), in: newInterner(), seen: map[int]int{}, cache: segCache{},
		logName: "ALog", racy: map[int64]bool{}, labRefs: map[int64]map[uint64]bool{}, kindsAt: map[int64]int{}}
	opts := agent.DefaultOptions()
	opts.WALSegmentSize = 32 * 1024
	opts.NoLockfile = true
	opts.StripeSize = 16
	opts.EnableSTStorage = r.Chance(1, 3) && !scripted
	open := func() *agent.DB {
		db, err := agent.Open(slog.New(slog.DiscardHandler), nil, nil, root, opts)
		must(err)
		return db
	}
	db := open()
	nser := 5 + r.Intn(4)
	if scripted {
		nser = 2
	}
	koff := r.Intn(5)
	lsets := make([]labels.Labels, nser)
	kinds := make([]int, nser)
	active := make([]bool, nser)
	for i := range lsets {
		ls := []string{"__name__", fmt.Sprintf("m%d", i)}
		if r.Chance(1, 5) && !scripted {
			ls = append(ls, "pad", strings.Repeat("y", 4000+r.Intn(9000)))
		}
		lsets[i] = labels.FromStrings(ls...)
		kinds[i] = (i + koff) % 5 // all five sample kinds
		active[i] = r.Chance(3, 4)
	}
	active[0] = true
	now := int64(1000 + r.Intn(500))
	cnt := 0
	maxTS := int64(math.MinInt64)
	commit := func() {
		app := db.Appender(context.Background())
		for i, l := range lsets {
			if !active[i] || (r.Chance(1, 5) && !scripted) {
				continue
			}
			cnt++
			ref, err := appendKind(app, kinds[i], l, now, int64(cnt))
			if err != nil {
				continue
			}
			if r.Chance(1, 4) {
				_, _ = app.AppendExemplar(ref, l, exemplar.Exemplar{Labels: labels.FromStrings("trace", fmt.Sprintf("t%d", cnt)), Value: float64(cnt), Ts: now, HasTs: true})
			}
		}
		must(app.Commit())
		w.flushLog()
	}
	truncate := func(ts int64) {
		before := db.VerifC15Series()
		pre := readWAL(w.in, w.walDir, w.cache)
		must(db.VerifC15Truncate(ts))
		after := db.VerifC15Series()
		var gone []int64
		for _, k := range sortedKeys(before) {
			if _, ok := after[k]; !ok {
				gone = append(gone, int64(k))
			}
		}
		w.gcDeleted += len(gone)
		w.flushLog()
		w.events = append(w.events, fmt.Sprintf("ATruncate %s %s", zz(ts), lz(gone)))
		post := readWAL(w.in, w.walDir, w.cache)
		n := 0
		for _, rs := range post.Segs {
			n += len(rs)
		}
		refs, del := agentState(db, w.in)
		w.obs = append(w.obs, fmt.Sprintf("OATrunc %s %s %s %s %s %s %s", zz(int64(post.CpIdx)), recList(post.Cp),
			zz(int64(post.First)), zz(int64(post.Last)), zz(int64(n)), lz(refs), pairs(del)))
		if post.CpIdx != pre.CpIdx {
			w.effective++
			if countSeries(post.Cp) < countSeriesUpTo(pre, post.CpIdx) {
				w.dropped++
			}
			// Finding probe: samples / exemplars left without series record.  When every such ref is a
			// DUPLICATE ref (its label set has an older ref), this is the finding
			// agent-duplicate-ref-orphan: the agent keeps the series record of a duplicate ref until the last
			// SEGMENT that mentions it is checkpointed, but Checkpoint carries its samples at or after mint
			// over into the checkpoint.
			refLab, seenRef := map[int64]int64{}, map[int64]bool{}
			for L, refs := range w.labRefs {
				for r := range refs {
					refLab[int64(r)] = L
				}
			}
			var orphans []int64
			allDup := true
			scan := func(rs []rec) {
				for _, rc := range rs {
					switch rc.Kind {
					case 0:
						for _, p := range rc.Pairs {
							seenRef[p[0]] = true
						}
					case 1, 2:
						for _, t := range rc.Triples {
							if !seenRef[t[0]] {
								orphans = append(orphans, t[0])
								dup := false
								for r := range w.labRefs[refLab[t[0]]] {
									if int64(r) < t[0] {
										dup = true
									}
								}
								if !dup {
									allDup = false
								}
							}
						}
					}
				}
			}
			scan(post.Cp)
			inCheckpoint := len(orphans)
			for sg := post.First; sg <= post.Last && post.First >= 0; sg++ {
				scan(post.Segs[sg])
			}
			// Both known findings leave their orphans INSIDE the new checkpoint (the ref's last segment was
			// folded into it).  An orphan in a remaining segment is never a known finding.
			switch {
			case len(orphans) == 0:
			case len(orphans) > inCheckpoint:
				w.unknownOrphan = true
				w.desc = append(w.desc, fmt.Sprintf("ORPHANS in remaining segments after checkpoint.%08d: refs %v", post.CpIdx, orphans[inCheckpoint:]))
			case allDup:
				if w.shape == "" {
					w.shape = "agent-duplicate-ref-orphan"
				}
				w.desc = append(w.desc, fmt.Sprintf("FINDING agent-duplicate-ref-orphan: checkpoint.%08d holds samples/exemplars of duplicate refs %v without series record", post.CpIdx, orphans))
			case ts < maxTS:
				// same root cause, other trigger: a truncation time LOWER than an earlier one (the run loop's ts
				// drops when a remote-write queue is added) keeps samples of series that an earlier, later-timed
				// truncation already garbage collected and whose record is dropped by segment number
				if w.shape == "" {
					w.shape = "agent-lower-mint-orphan"
				}
				w.desc = append(w.desc, fmt.Sprintf("FINDING agent-lower-mint-orphan: truncate(%d) after truncate(%d): checkpoint.%08d holds samples/exemplars of refs %v without series record", ts, maxTS, post.CpIdx, orphans))
			default:
				w.unknownOrphan = true
				w.desc = append(w.desc, fmt.Sprintf("ORPHANS in checkpoint.%08d: refs %v", post.CpIdx, orphans))
			}
		}
		if ts > maxTS {
			maxTS = ts
		}
		w.desc = append(w.desc, fmt.Sprintf("agent-truncate(%d) gone=%v cp=%d", ts, gone, post.CpIdx))
	}
	restart := func() {
		must(db.Close())
		db = open()
		w.restarts++
		refs, del := agentState(db, w.in)
		w.events = append(w.events, fmt.Sprintf("ARestart %s %s", lz(refs), pairs(del)))
		w.desc = append(w.desc, fmt.Sprintf("agent-restart series=%d deleted=%d", len(refs), len(del)))
	}
	nops := 14 + r.Intn(30)
	if scripted {
		// fixed reproducer: series m0 receives only float histograms, is garbage collected by truncate while
		// its record stays in the checkpoint, comes back under a new ref, keeps receiving histograms across
		// several segments; after a reopen the new ref is a duplicate; the next truncate folds the segment of
		// the duplicate's series record but not the later segments that hold its samples.
		nops = 0
		kinds[0], kinds[1] = 2, 0
		roll := func(n int) {
			for ; n > 0; n-- {
				_, err := db.VerifC15WAL().NextSegment()
				must(err)
				w.events = append(w.events, "ARoll")
			}
		}
		active[0], active[1] = true, true
		now = 1000
		commit()
		roll(3)
		active[0] = false
		now = 1500
		commit()
		truncate(1200) // m0 gone, its record kept in the checkpoint
		active[0] = true
		for _, t := range []int64{2000, 2100, 2200} {
			now = t
			commit() // m0 under a new ref, one segment per commit
			if t != 2200 {
				roll(1)
			}
		}
		restart() // the new ref is a duplicate; deleted[dup].lastSegment must be the segment of @2200
		now = 2300
		commit()
		truncate(1300)
		restart()
		w.desc = append(w.desc, "scripted: float-histogram series re-created, duplicate after reopen, truncate between its record and its last samples")
	} else {
		commit()
	}
	for op := 0; op < nops; op++ {
		now += int64(10 + r.Intn(400))
		switch k := r.Intn(100); {
		case k < 45:
			commit()
			w.desc = append(w.desc, fmt.Sprintf("commit@%d", now))
		case k < 58:
			i := r.Intn(nser)
			active[i] = !active[i]
			w.desc = append(w.desc, fmt.Sprintf("flip %d -> %v", i, active[i]))
		case k < 80:
			ts := now - int64(r.Intn(1200))
			if ts < maxTS && !r.Chance(1, 6) { // truncation times mostly grow
				ts = maxTS
			}
			truncate(ts)
		case k < 90:
			_, err := db.VerifC15WAL().NextSegment()
			must(err)
			w.events = append(w.events, "ARoll")
			w.desc = append(w.desc, "roll")
		default:
			restart()
		}
	}
	now += 500
	commit()
	restart()
	now += 700
	commit()
	truncate(now - 300)
	must(db.Close())
	for _, refs := range w.labRefs {
		if len(refs) > 1 {
			w.dupLabs++
		}
	}
	term := fmt.Sprintf("mkCase %s\n [] [] %s\n %s", zz(int64(idx)), gallina.List(w.events), gallina.List(w.obs))
	shape := "agent-history"
	if w.shape != "" && !w.unknownOrphan {
		shape = w.shape
	}
	desc := map[string]any{"shape": shape, "seed": seed, "index": idx, "ops": w.desc}
	return term, desc, w
}

// reproMetaOrder replays the finding cp-metadata-order-duplicate-refs on the real head n times and
// prints which metadata the re-created series has after a restart (C15_REPRO=n).
func reproMetaOrder(outDir string, n int) {
	counts := map[string]int{}
	for i := 0; i < n; i++ {
		root, err := os.MkdirTemp(outDir, "c15r_")
		must(err)
		w := &world{root: root, walDir: filepath.Join(root, "wal"), in: newInterner(), seen: map[int]int{}, cache: segCache{}, logName: "ELog",
			racy: map[int64]bool{}, labRefs: map[int64]map[uint64]bool{}, kindsAt: map[int64]int{}}
		w.open(math.MinInt64)
		a, b := labels.FromStrings("__name__", "a"), labels.FromStrings("__name__", "b")
		commit := func(t int64, withA bool, m *metadata.Metadata) {
			app := w.head.Appender(context.Background())
			if withA {
				ref, err := app.Append(0, a, t, 1)
				must(err)
				if m != nil {
					_, err = app.UpdateMetadata(ref, a, *m)
					must(err)
				}
			}
			_, err := app.Append(0, b, t, 1)
			must(err)
			must(app.Commit())
		}
		roll := func(k int) {
			for ; k > 0; k-- {
				_, err := w.head.VerifC15WAL().NextSegment()
				must(err)
			}
		}
		commit(1000, true, &metaChoices[0])
		commit(5000, false, nil)
		roll(2)
		must(w.head.Truncate(3000)) // series a is garbage collected; walExpiries[a] = 5000
		commit(5100, true, &metaChoices[1])
		roll(4)
		must(w.head.Truncate(4000)) // checkpoint keeps both series records of {__name__="a"} and both metadata entries
		d := readWAL(w.in, w.walDir, w.cache)
		cp := ""
		for _, r := range d.Cp {
			if r.Kind == 4 {
				cp = fmt.Sprint(r.Pairs)
			}
		}
		w.close()
		w.open(4000)
		got := "none"
		for _, sd := range w.head.VerifDump() {
			if sd.Labels.Get("__name__") == "a" {
				if m, ok := w.head.VerifC15SeriesMeta()[sd.Ref]; ok {
					got = fmt.Sprintf("%s/%s/%s", m.Type, m.Unit, m.Help)
				}
			}
		}
		w.close()
		os.RemoveAll(root)
		counts[got+" checkpoint-metadata(ref,meta)="+cp]++
	}
	fmt.Println("latest metadata logged for {__name__=\"a\"}: gauge//b; after restart:")
	for k, v := range counts {
		fmt.Printf("  %3d x %s\n", v, k)
	}
}

func main() {
	if pf := os.Getenv("C15_PROF"); pf != "" {
		fh, _ := os.Create(pf)
		pprof.StartCPUProfile(fh)
		defer pprof.StopCPUProfile()
	}
	f := gallina.ParseFlags()
	debug.SetGCPercent(800)
	if v := os.Getenv("C15_REPRO"); v != "" {
		n, _ := strconv.Atoi(v)
		reproMetaOrder(f.Out, n)
		return
	}
	n := f.Count(32, 400)
	meta := gallina.NewMeta("C15", f.Seed, f.Tier)
	cf := &gallina.CaseFile{
		Dir:      f.Out,
		Preamble: "From Coq Require Import List ZArith Uint63.\nFrom Verif Require Import lib.Int64 model.Checkpoint corr.CorrC15.\nImport ListNotations.\nOpen Scope uint63_scope.\n",
		Type:     "case",
		Footer:   gallina.StdFooter,
		PerShard: 25,
	}
	nontrivial := 0
	only := map[int]bool{}
	for _, x := range strings.Split(os.Getenv("C15_ONLY"), ",") {
		if v, err := strconv.Atoi(x); err == nil {
			only[v] = true
		}
	}
	for i := 0; i < n; i++ {
		if len(only) > 0 && !only[i] {
			continue
		}
		var term string
		var desc map[string]any
		var w *world
		if i%4 == 3 { // every fourth history is an agent DB history; the first one is a fixed reproducer
			term, desc, w = runAgentCase(f.Out, f.Seed, i, i == 3)
			meta.Hit("agent-history")
		} else {
			corpus := -1
			if i == 0 { // fixed reproducer: every record kind at mint-1 / mint / mint+1
				corpus = 0
			}
			if i == 1 { // fixed reproducer: appenders open across a truncation
				corpus = 1
			}
			term, desc, w = runCase(f.Out, f.Seed, i, corpus)
			meta.Hit("head-history")
			for d, name := range []string{"mint-1", "mint", "mint+1"} {
				for k := 0; k < 5; k++ {
					if w.boundary[d]&(1<<k) != 0 {
						meta.Hit("truncation-with-" + kindNames[k] + "-sample-at-" + name)
					}
				}
			}
		}
		cf.Add(term)
		meta.Case(i, desc)
		meta.Evaluations++
		if w.effective > 0 {
			meta.Hit("checkpoint-written")
		}
		if w.dropped > 0 {
			meta.Hit("series-record-dropped")
			nontrivial++
		}
		if w.gcDeleted > 0 {
			meta.Hit("gc-deleted-series")
		}
		if w.evicted > 0 {
			meta.Hit("evicted-series")
		}
		if w.pendingOps > 0 || (i == 1) {
			meta.Hit("appender-open-across-truncation")
		}
		if w.dupLabs > 0 {
			meta.Hit("label-set-with-several-refs")
		}
		if w.effective > 1 {
			meta.Hit("repeated-checkpoints")
		}
		if w.shape != "" {
			meta.Hit("finding:" + w.shape)
		}
		for _, v := range w.viol {
			meta.Hit("finding:cp-metadata-order-duplicate-refs")
			meta.GoViol = append(meta.GoViol, gallina.GoViolation{ID: strconv.Itoa(i), Shape: "cp-metadata-order-duplicate-refs", What: v})
		}
	}
	cf.Flush()
	meta.Nontrivial = nontrivial
	meta.Rule = "histories in which at least one checkpoint dropped a series record"
	meta.Write(f.Out)
	_ = tombstones.Interval{}
}

package main

import (
	"log/slog"

	"github.com/prometheus/common/promslog"
	"github.com/prometheus/prometheus/rules"

	"verif/harness/internal/gallina"
)

func nil2logger() *slog.Logger { return promslog.NewNopLogger() }

func find(l []oalert, k int64) *rules.Alert {
	for i := range l {
		if l[i].key == k {
			return &l[i].a
		}
	}
	return nil
}

// classify counts the partition classes of the observed transition prev -> ob under operation o
// (on the implementation's output). Returns true when the step makes the timeline non-trivial
// (a pending->firing transition or a resolution).
func classify(meta *gallina.Meta, o op, prev []oalert, ob obsT, hold, kff int64) bool {
	nt := false
	switch o.Kind {
	case "eval":
		meta.Hit("eval-" + ob.out)
		if ob.out != "ok" {
			return false
		}
		if o.QO != 0 {
			meta.Hit("eval-query-offset")
		}
		pres := map[int64]bool{}
		for _, r := range o.Res {
			pres[r.Key] = true
		}
		keys := map[int64]bool{}
		for _, x := range prev {
			keys[x.key] = true
		}
		for _, x := range ob.m {
			keys[x.key] = true
		}
		for k := range keys {
			p, n := find(prev, k), find(ob.m, k)
			switch {
			case p == nil && n != nil:
				if n.State == rules.StateFiring {
					meta.Hit("new-firing-immediately")
					nt = true
				} else {
					meta.Hit("new-pending")
				}
			case p != nil && n == nil:
				if p.State == rules.StatePending {
					meta.Hit("pending-dropped")
				} else {
					meta.Hit("retention-dropped")
					if o.TS-p.ResolvedAt.UnixNano() == 15*min+1 {
						meta.Hit("retention-boundary+1")
					}
				}
			case p != nil && n != nil:
				switch {
				case p.State == rules.StateInactive && n.State != rules.StateInactive:
					meta.Hit("reappear-after-resolved")
				case p.State == rules.StateInactive:
					meta.Hit("retained")
					if o.TS-p.ResolvedAt.UnixNano() == 15*min {
						meta.Hit("retention-boundary")
					}
				case p.State == rules.StatePending && n.State == rules.StateFiring:
					meta.Hit("fire")
					nt = true
					if o.TS-n.ActiveAt.UnixNano() == hold {
						meta.Hit("fire-boundary")
					}
				case p.State == rules.StatePending && n.State == rules.StatePending:
					meta.Hit("stay-pending")
					if o.TS-n.ActiveAt.UnixNano() == hold-1 {
						meta.Hit("pending-boundary-1")
					}
				case p.State == rules.StateFiring && n.State == rules.StatePending:
					meta.Hit("firing-back-to-pending")
				case p.State == rules.StateFiring && n.State == rules.StateInactive:
					nt = true
					if !n.KeepFiringSince.IsZero() {
						meta.Hit("resolved-after-keep-firing")
					} else {
						meta.Hit("resolved")
					}
				case p.State == rules.StateFiring && n.State == rules.StateFiring:
					if !pres[k] {
						meta.Hit("keep-firing")
					} else if !p.KeepFiringSince.IsZero() {
						meta.Hit("keep-firing-reset")
					} else {
						meta.Hit("stay-firing")
					}
				}
			}
		}
	case "send":
		meta.Hit("send")
		for _, x := range ob.sent {
			if x.a.State == rules.StateFiring {
				meta.Hit("sent-firing")
			} else {
				meta.Hit("sent-resolved")
			}
		}
	case "reload":
		meta.Hit("reload")
	case "restart":
		meta.Hit("restart")
	case "restore":
		meta.Hit("restore")
		if hold < o.Grace {
			meta.Hit("restore-skip-hold<grace")
		}
		// boundary classes of timeRemainingPending for the visible last samples of present instances
		if hold >= o.Grace {
			lo, hi := (o.TS-o.Tol)/1e6, o.TS/1e6
			for _, sr := range o.Store {
				if find(prev, sr.Key) == nil {
					continue
				}
				var last *ssample
				for i := range sr.Samples {
					if sr.Samples[i].T >= lo && sr.Samples[i].T <= hi {
						last = &sr.Samples[i]
					}
				}
				if last == nil {
					meta.Hit("restore-no-visible-sample")
					if len(sr.Samples) > 0 && sr.Samples[len(sr.Samples)-1].T == lo-1 {
						meta.Hit("restore-tolerance-edge-out")
					}
					continue
				}
				if last.T == lo {
					meta.Hit("restore-tolerance-edge-in")
				}
				if last.Stale {
					continue
				}
				switch rem := hold - (last.T/1000-last.V)*sec; {
				case rem == 0:
					meta.Hit("restore-remaining=0")
				case rem == sec:
					meta.Hit("restore-remaining=+1s")
				case rem == -sec:
					meta.Hit("restore-remaining=-1s")
				case rem == o.Grace:
					meta.Hit("restore-remaining=grace")
				}
			}
		}
		for _, x := range ob.m {
			p := find(prev, x.key)
			if p != nil && !p.ActiveAt.Equal(x.a.ActiveAt) {
				switch {
				case x.a.ActiveAt.UnixNano() == o.TS+o.Grace-hold:
					meta.Hit("restore-grace")
				case x.a.ActiveAt.Nanosecond() == 0 && x.a.ActiveAt.UnixNano()+hold <= o.TS:
					meta.Hit("restore-was-firing")
				default:
					meta.Hit("restore-shifted")
				}
			} else {
				meta.Hit("restore-untouched")
			}
		}
	}
	return nt
}

// h_c44: correspondence harness for C44 (alert states follow for / keep_firing_for semantics).
//
// Drives the real rules.AlertingRule.Eval with a fake QueryFunc over generated timelines
// (irregular intervals, flapping label sets, value changes, duplicate label sets, query errors,
// limits), the real AlertingRule.sendAlerts (via the verif export shim), reloads with changed
// hold / keep_firing_for durations through the real Group.CopyState, and restarts followed by
// the real Group.RestoreForState over a fake storage.Queryable holding the ALERTS_FOR_STATE
// samples written before the restart. After every operation it records the returned vector or
// error, the whole active map (ForEachActiveAlert), ActiveAlerts(), Restored(), and the alerts
// handed to the notify function, and prints everything as Gallina terms for Coq.
package main

import (
	"context"
	"errors"
	"fmt"
	"math"
	"sort"
	"strconv"
	"strings"
	"time"

	"github.com/prometheus/prometheus/model/histogram"
	"github.com/prometheus/prometheus/model/labels"
	"github.com/prometheus/prometheus/model/value"
	"github.com/prometheus/prometheus/promql"
	"github.com/prometheus/prometheus/promql/parser"
	"github.com/prometheus/prometheus/rules"
	"github.com/prometheus/prometheus/storage"
	"github.com/prometheus/prometheus/tsdb/chunkenc"
	"github.com/prometheus/prometheus/tsdb/chunks"
	"github.com/prometheus/prometheus/util/annotations"

	"verif/harness/internal/gallina"
	"verif/harness/internal/gen"
)

const (
	alertName = "VerifAlert"
	keyLabel  = "k"
)

var errQuery = errors.New("verif: query failed")

// lst prints a list with :: / nil (Coq parses the bracket notation of nested lists very slowly).
func lst(items []string) string {
	if len(items) == 0 {
		return "nil"
	}
	return "(" + strings.Join(items, " :: ") + " :: nil)"
}

func lstZ(vs []int64) string {
	it := make([]string, len(vs))
	for i, v := range vs {
		it[i] = gallina.Z(v)
	}
	return lst(it)
}

// ---------- operations ----------
type kv struct {
	Key  int64   `json:"k"`
	Val  float64 `json:"v"`
	Name int     `json:"n"` // metric name index (a different name with the same key = duplicate label set)
}

type ssample struct {
	T     int64 `json:"t"`
	V     int64 `json:"v"`
	Stale bool  `json:"stale,omitempty"`
}

type sseries struct {
	Key     int64     `json:"k"`
	Samples []ssample `json:"s"`
}

type op struct {
	Kind     string    `json:"op"` // eval send reload restart restore
	TS       int64     `json:"ts,omitempty"`
	QO       int64     `json:"qo,omitempty"`
	Limit    int       `json:"limit,omitempty"`
	QErr     bool      `json:"qerr,omitempty"`
	Res      []kv      `json:"res,omitempty"`
	Resend   int64     `json:"resend,omitempty"`
	Interval int64     `json:"interval,omitempty"`
	Hold     int64     `json:"hold,omitempty"`
	KFF      int64     `json:"kff,omitempty"`
	Restored bool      `json:"restored,omitempty"`
	Tol      int64     `json:"tol,omitempty"`
	Grace    int64     `json:"grace,omitempty"`
	Store    []sseries `json:"store,omitempty"`
}

func (o op) gallina() string {
	switch o.Kind {
	case "eval":
		it := make([]string, len(o.Res))
		for i, r := range o.Res {
			it[i] = gallina.Pair(gallina.Z(r.Key), gallina.FloatBits(r.Val))
		}
		return fmt.Sprintf("OpEval %s %s %s %s %s", gallina.Z(o.TS), gallina.Z(o.QO), gallina.Z(int64(o.Limit)), gallina.Bool(o.QErr), lst(it))
	case "send":
		return fmt.Sprintf("OpSend %s %s %s", gallina.Z(o.TS), gallina.Z(o.Resend), gallina.Z(o.Interval))
	case "reload":
		return fmt.Sprintf("OpReload %s %s %s", gallina.Z(o.Hold), gallina.Z(o.KFF), gallina.Bool(o.Restored))
	case "restart":
		return fmt.Sprintf("OpRestart %s %s", gallina.Z(o.Hold), gallina.Z(o.KFF))
	case "restore":
		ss := make([]string, len(o.Store))
		for i, s := range o.Store {
			sm := make([]string, len(s.Samples))
			for j, x := range s.Samples {
				v := "None"
				if !x.Stale {
					v = gallina.Some(gallina.Z(x.V))
				}
				sm[j] = gallina.Pair(gallina.Z(x.T), v)
			}
			ss[i] = gallina.Pair(gallina.Z(s.Key), lst(sm))
		}
		return fmt.Sprintf("OpRestore %s %s %s %s", gallina.Z(o.TS), gallina.Z(o.Tol), gallina.Z(o.Grace), lst(ss))
	}
	panic("bad op")
}

// ---------- fake storage ----------
type fsample struct {
	t int64
	f float64
}

func (s fsample) T() int64                      { return s.t }
func (s fsample) ST() int64                     { return 0 }
func (s fsample) F() float64                    { return s.f }
func (s fsample) H() *histogram.Histogram       { return nil }
func (s fsample) FH() *histogram.FloatHistogram { return nil }
func (s fsample) Type() chunkenc.ValueType      { return chunkenc.ValFloat }
func (s fsample) Copy() chunks.Sample           { return s }

type fseries struct {
	lset    labels.Labels
	samples []fsample
}

type fakeQueryable struct {
	series  []fseries
	queried [][2]int64
}

func (f *fakeQueryable) Querier(mint, maxt int64) (storage.Querier, error) {
	f.queried = append(f.queried, [2]int64{mint, maxt})
	return &fakeQuerier{f: f, mint: mint, maxt: maxt}, nil
}

type fakeQuerier struct {
	f          *fakeQueryable
	mint, maxt int64
}

func (*fakeQuerier) LabelValues(context.Context, string, *storage.LabelHints, ...*labels.Matcher) ([]string, annotations.Annotations, error) {
	return nil, nil, nil
}

func (*fakeQuerier) LabelNames(context.Context, *storage.LabelHints, ...*labels.Matcher) ([]string, annotations.Annotations, error) {
	return nil, nil, nil
}
func (*fakeQuerier) Close() error { return nil }

// Select: the Querier contract — series matching all matchers, only data within [mint, maxt];
// a series without data in the range is not returned (as the TSDB does).
func (q *fakeQuerier) Select(_ context.Context, _ bool, _ *storage.SelectHints, ms ...*labels.Matcher) storage.SeriesSet {
	var out []storage.Series
next:
	for _, s := range q.f.series {
		for _, m := range ms {
			if !m.Matches(s.lset.Get(m.Name)) {
				continue next
			}
		}
		var in []chunks.Sample
		for _, x := range s.samples {
			if x.t >= q.mint && x.t <= q.maxt {
				in = append(in, x)
			}
		}
		if len(in) == 0 {
			continue
		}
		out = append(out, storage.NewListSeries(s.lset, in))
	}
	return &listSet{s: out, i: -1}
}

type listSet struct {
	s []storage.Series
	i int
}

func (l *listSet) Next() bool                      { l.i++; return l.i < len(l.s) }
func (l *listSet) At() storage.Series              { return l.s[l.i] }
func (*listSet) Err() error                        { return nil }
func (*listSet) Warnings() annotations.Annotations { return nil }

// ---------- the system under test ----------
type sut struct {
	rule    *rules.AlertingRule
	group   *rules.Group
	fq      *fakeQueryable
	mopts   *rules.ManagerOptions
	metrics *rules.Metrics
	expr    parser.Expr
	ruleLbl labels.Labels
	viol    []string
}

func (s *sut) newRule(hold, kff int64, restored bool) {
	s.rule = rules.NewAlertingRule(alertName, s.expr, time.Duration(hold), time.Duration(kff),
		s.ruleLbl, labels.EmptyLabels(), labels.EmptyLabels(), "", restored, nil2logger())
	s.fq = &fakeQueryable{}
	s.mopts = &rules.ManagerOptions{Context: context.Background(), Queryable: s.fq, Metrics: s.metrics}
	s.group = rules.NewGroup(rules.GroupOptions{Name: "g", File: "f", Interval: time.Minute,
		Rules: []rules.Rule{s.rule}, ShouldRestore: !restored, Opts: s.mopts})
}

func keyOf(l labels.Labels) (int64, bool) {
	v := l.Get(keyLabel)
	k, err := strconv.ParseInt(v, 10, 64)
	return k, err == nil
}

func optT(t time.Time) string {
	if t.IsZero() {
		return "None"
	}
	return gallina.Some(gallina.Z(t.UnixNano()))
}

func stateName(s rules.AlertState) string {
	switch s {
	case rules.StateInactive:
		return "Inactive"
	case rules.StatePending:
		return "Pending"
	case rules.StateFiring:
		return "Firing"
	}
	return "Unknown_state_" + s.String() // does not typecheck: reported as a broken case file
}

type oalert struct {
	key int64
	a   rules.Alert
}

func alertTerm(a *rules.Alert) string {
	return fmt.Sprintf("mkAlert %s %s %s %s %s %s %s %s", stateName(a.State), gallina.FloatBits(a.Value),
		gallina.Z(a.ActiveAt.UnixNano()), optT(a.FiredAt), optT(a.ResolvedAt), optT(a.KeepFiringSince),
		optT(a.LastSentAt), optT(a.ValidUntil))
}

func mapTerm(l []oalert) string {
	it := make([]string, len(l))
	for i := range l {
		it[i] = gallina.Pair(gallina.Z(l[i].key), alertTerm(&l[i].a))
	}
	return lst(it)
}

func (s *sut) snapshot() []oalert {
	var l []oalert
	s.rule.ForEachActiveAlert(func(a *rules.Alert) {
		k, ok := keyOf(a.Labels)
		if !ok {
			s.viol = append(s.viol, "alert without key label: "+a.Labels.String())
		}
		if a.Labels.Get(labels.AlertName) != alertName || a.Labels.Get("severity") != "page" || a.Labels.Get(labels.MetricName) != "" {
			s.viol = append(s.viol, "alert labels: "+a.Labels.String())
		}
		l = append(l, oalert{k, *a})
	})
	sort.SliceStable(l, func(i, j int) bool { return l[i].key < l[j].key })
	return l
}

func intF(f float64) int64 {
	if f != math.Trunc(f) || math.Abs(f) > 1<<53 {
		return -7777777
	}
	return int64(f)
}

// vecTerm: the returned vector sorted by (key, ALERTS before ALERTS_FOR_STATE); checks labels.
func (s *sut) vecTerm(vec promql.Vector) (string, []promql.Sample) {
	type sv struct {
		key  int64
		kind int
		term string
		st   string
		t, f int64
	}
	var l []sv
	for _, x := range vec {
		k, ok := keyOf(x.Metric)
		name := x.Metric.Get(labels.MetricName)
		if !ok || x.Metric.Get(labels.AlertName) != alertName || x.Metric.Get("severity") != "page" || x.H != nil {
			s.viol = append(s.viol, "sample labels: "+x.Metric.String())
		}
		switch name {
		case "ALERTS":
			st := x.Metric.Get("alertstate")
			if x.Metric.Len() != 5 {
				s.viol = append(s.viol, "ALERTS label count: "+x.Metric.String())
			}
			cst := map[string]string{"pending": "Pending", "firing": "Firing", "inactive": "Inactive"}[st]
			if cst == "" {
				cst = "BadState_" + st
			}
			l = append(l, sv{k, 0, fmt.Sprintf("SAlerts %s %s %s %s", gallina.Z(k), cst, gallina.Z(x.T), gallina.Z(intF(x.F))), cst, x.T, intF(x.F)})
		case "ALERTS_FOR_STATE":
			if x.Metric.Len() != 4 {
				s.viol = append(s.viol, "ALERTS_FOR_STATE label count: "+x.Metric.String())
			}
			l = append(l, sv{k, 1, fmt.Sprintf("SFor %s %s %s", gallina.Z(k), gallina.Z(x.T), gallina.Z(intF(x.F))), "", x.T, intF(x.F)})
		default:
			s.viol = append(s.viol, "unexpected series "+x.Metric.String())
		}
	}
	sort.SliceStable(l, func(i, j int) bool {
		if l[i].key != l[j].key {
			return l[i].key < l[j].key
		}
		return l[i].kind < l[j].kind
	})
	var it []string
	for i := 0; i < len(l); i++ {
		if i+1 < len(l) && l[i].kind == 0 && l[i+1].kind == 1 && l[i].key == l[i+1].key && l[i].t == l[i+1].t && l[i].f == 1 {
			it = append(it, fmt.Sprintf("VPair %s %s %s %s", gallina.Z(l[i].key), l[i].st, gallina.Z(l[i].t), gallina.Z(l[i+1].f)))
			i++
			continue
		}
		it = append(it, "VOdd ("+l[i].term+")")
	}
	return lst(it), vec
}

type obsT struct {
	res    string
	m      []oalert
	rest   bool
	active []int64
	vec    promql.Vector
	out    string // ok qerr dup limit (eval)
	sent   []oalert
}

func (s *sut) do(o op) obsT {
	var ob obsT
	ob.res = "CNone"
	switch o.Kind {
	case "eval":
		ts := time.Unix(0, o.TS)
		qo := time.Duration(o.QO)
		qf := func(_ context.Context, _ string, t time.Time) (promql.Vector, error) {
			if !t.Equal(ts.Add(-qo)) {
				s.viol = append(s.viol, "query time is not ts - queryOffset")
			}
			if o.QErr {
				return nil, errQuery
			}
			v := make(promql.Vector, 0, len(o.Res))
			for _, r := range o.Res {
				v = append(v, promql.Sample{T: t.UnixMilli(), F: r.Val,
					Metric: labels.FromStrings(labels.MetricName, "m"+strconv.Itoa(r.Name), keyLabel, strconv.FormatInt(r.Key, 10))})
			}
			return v, nil
		}
		vec, err := s.rule.Eval(context.Background(), qo, ts, qf, nil, o.Limit)
		switch {
		case err == nil:
			t, _ := s.vecTerm(vec)
			ob.res, ob.out, ob.vec = "CEval "+t, "ok", vec
		case errors.Is(err, errQuery):
			ob.res, ob.out = "CQueryErr", "qerr"
		case errors.Is(err, rules.ErrDuplicateAlertLabelSet):
			ob.res, ob.out = "CDup", "dup"
		case strings.Contains(err.Error(), "exceeded limit"):
			ob.res, ob.out = "CLimit", "limit"
		default:
			ob.res, ob.out = "CUnknownError", "unknown"
		}
		if err != nil && vec != nil {
			s.viol = append(s.viol, "vector returned together with an error")
		}
	case "send":
		var sent []oalert
		calls := 0
		s.rule.VerifSendAlerts(context.Background(), time.Unix(0, o.TS), time.Duration(o.Resend), time.Duration(o.Interval),
			func(_ context.Context, _ string, alerts ...*rules.Alert) {
				calls++
				for _, a := range alerts {
					k, _ := keyOf(a.Labels)
					sent = append(sent, oalert{k, *a})
				}
			})
		if calls != 1 {
			s.viol = append(s.viol, "notify function not called exactly once")
		}
		sort.SliceStable(sent, func(i, j int) bool { return sent[i].key < sent[j].key })
		ob.sent = sent
	case "reload":
		old := s.group
		s.newRule(o.Hold, o.KFF, o.Restored)
		s.group.CopyState(old)
	case "restart":
		s.newRule(o.Hold, o.KFF, false)
	case "restore":
		s.fq.series = nil
		for _, sr := range o.Store {
			fs := fseries{lset: labels.FromStrings(labels.MetricName, "ALERTS_FOR_STATE", labels.AlertName, alertName,
				keyLabel, strconv.FormatInt(sr.Key, 10), "severity", "page")}
			for _, x := range sr.Samples {
				f := float64(x.V)
				if x.Stale {
					f = math.Float64frombits(value.StaleNaN)
				}
				fs.samples = append(fs.samples, fsample{x.T, f})
			}
			s.fq.series = append(s.fq.series, fs)
			// noise: the same instance of another rule, and ALERTS of this rule; must not be used
			s.fq.series = append(s.fq.series, fseries{lset: labels.FromStrings(labels.MetricName, "ALERTS_FOR_STATE", labels.AlertName, "Other",
				keyLabel, strconv.FormatInt(sr.Key, 10), "severity", "page"), samples: []fsample{{o.TS/1e6 - 1, 12345}}})
			s.fq.series = append(s.fq.series, fseries{lset: labels.FromStrings(labels.MetricName, "ALERTS", labels.AlertName, alertName,
				keyLabel, strconv.FormatInt(sr.Key, 10), "severity", "page", "alertstate", "pending"), samples: []fsample{{o.TS/1e6 - 1, 1}}})
		}
		s.mopts.OutageTolerance = time.Duration(o.Tol)
		s.mopts.ForGracePeriod = time.Duration(o.Grace)
		s.group.RestoreForState(time.Unix(0, o.TS))
	}
	ob.m = s.snapshot()
	if o.Kind == "send" {
		it := make([]string, len(ob.sent))
		for i := range ob.sent {
			it[i] = gallina.Pair(gallina.Z(ob.sent[i].key), gallina.Some("("+alertTerm(&ob.sent[i].a)+")"))
			for j := range ob.m {
				if ob.m[j].key == ob.sent[i].key && alertTerm(&ob.m[j].a) == alertTerm(&ob.sent[i].a) {
					it[i] = gallina.Pair(gallina.Z(ob.sent[i].key), "None")
				}
			}
		}
		ob.res = "CSend " + lst(it)
	}
	ob.rest = s.rule.Restored()
	for _, a := range s.rule.ActiveAlerts() {
		k, _ := keyOf(a.Labels)
		ob.active = append(ob.active, k)
	}
	sort.Slice(ob.active, func(i, j int) bool { return ob.active[i] < ob.active[j] })
	return ob
}

func (ob obsT) gallina(prev []oalert) string {
	var d []string
	for i := range prev {
		if find(ob.m, prev[i].key) == nil {
			d = append(d, gallina.Pair(gallina.Z(prev[i].key), "None"))
		}
	}
	for i := range ob.m {
		p := find(prev, ob.m[i].key)
		if p == nil || alertTerm(p) != alertTerm(&ob.m[i].a) {
			d = append(d, gallina.Pair(gallina.Z(ob.m[i].key), gallina.Some("("+alertTerm(&ob.m[i].a)+")")))
		}
	}
	return fmt.Sprintf("mkCObs (%s) %s %s %s", ob.res, lst(d), gallina.Bool(ob.rest), lstZ(ob.active))
}

// ---------- generators ----------
const (
	ms  = int64(time.Millisecond)
	sec = int64(time.Second)
	min = int64(time.Minute)
)

var steps = []int64{0, 1, ms - 1, ms, 999 * ms, sec, 5 * sec, 10 * sec, 15 * sec, 30 * sec, 30 * sec, min, min, 5 * min, 10 * min,
	15*min - 1, 15 * min, 15*min + 1, 16 * min, 40 * min}
var holds = []int64{0, 1, 10 * sec, 30 * sec, min, min, 5 * min, 5 * min, 15 * min, 30 * min, time.Hour.Nanoseconds()}
var kffs = []int64{0, 0, 1, 30 * sec, min, 5 * min, 10 * min, 20 * min}

type genState struct {
	r       *gen.Rand
	now     int64
	hold    int64
	kff     int64
	nkeys   int
	pres    []bool // flapping state per key
	vals    []float64
	sticky  bool
	small   bool
	aligned bool
}

func (g *genState) step() {
	d := gen.Pick(g.r, steps)
	if g.small {
		d = gen.Pick(g.r, []int64{15 * sec, 30 * sec, min, min, 2 * min})
	}
	if !g.aligned && g.r.Chance(1, 3) {
		d += g.r.Range(-int64(3*ms), int64(3*ms))
		if d < 0 {
			d = 0
		}
	}
	g.now += d
}

func (g *genState) evalOp() op {
	o := op{Kind: "eval", TS: g.now}
	switch g.r.Intn(8) {
	case 0:
		o.QO = gen.Pick(g.r, []int64{sec, 30 * sec, min, 1, 999999})
	}
	if g.r.Chance(1, 12) {
		o.Limit = 1 + g.r.Intn(3)
	} else if g.r.Chance(1, 20) {
		o.Limit = -1
	}
	o.QErr = g.r.Chance(1, 25)
	for k := 0; k < g.nkeys; k++ {
		// flapping: toggle with a per-draw probability
		if g.sticky {
			g.pres[k] = g.pres[k] || k < 2
		} else if g.r.Chance(1, 4) {
			g.pres[k] = !g.pres[k]
		}
		if g.pres[k] {
			if g.r.Chance(1, 6) {
				g.vals[k] = float64(g.r.Intn(4))
			}
			o.Res = append(o.Res, kv{Key: int64(k), Val: g.vals[k], Name: 0})
		}
	}
	if len(o.Res) > 0 && g.r.Chance(1, 25) { // duplicate label set after dropping the metric name
		d := o.Res[g.r.Intn(len(o.Res))]
		d.Name = 1
		d.Val += 10
		o.Res = append(o.Res, d)
	}
	// the query result order is arbitrary
	for i := len(o.Res) - 1; i > 0; i-- {
		j := g.r.Intn(i + 1)
		o.Res[i], o.Res[j] = o.Res[j], o.Res[i]
	}
	return o
}

// storeFrom: the ALERTS_FOR_STATE samples a Group.Eval would have appended for the returned
// vectors, with a stale marker when an instance's series disappears.
type storeAcc struct {
	series map[int64][]ssample
	prev   map[int64]bool
}

func (a *storeAcc) add(vec promql.Vector, tms int64) {
	cur := map[int64]bool{}
	for _, x := range vec {
		if x.Metric.Get(labels.MetricName) != "ALERTS_FOR_STATE" {
			continue
		}
		k, _ := keyOf(x.Metric)
		cur[k] = true
		a.series[k] = append(a.series[k], ssample{T: x.T, V: int64(x.F)})
	}
	for k := range a.prev {
		if !cur[k] {
			a.series[k] = append(a.series[k], ssample{T: tms, Stale: true})
		}
	}
	a.prev = cur
}

func (a *storeAcc) list() []sseries {
	var ks []int64
	for k := range a.series {
		ks = append(ks, k)
	}
	sort.Slice(ks, func(i, j int) bool { return ks[i] < ks[j] })
	var out []sseries
	for _, k := range ks {
		out = append(out, sseries{Key: k, Samples: append([]ssample{}, a.series[k]...)})
	}
	return out
}

type desc struct {
	Shape  string   `json:"shape"`
	Hold   int64    `json:"hold"`
	KFF    int64    `json:"kff"`
	Rest   bool     `json:"restored"`
	Ops    []op     `json:"ops"`
	Out    []string `json:"outcomes"`
	Corpus string   `json:"corpus,omitempty"`
}

func main() {
	f := gallina.ParseFlags()
	meta := gallina.NewMeta("C44", f.Seed, f.Tier)
	meta.Rule = "fixed corpus timelines + seeded random timelines of 12-45 operations (eval / send / reload with new durations / restart + restore) over 1-4 alert instances; distribution classes are counted on the implementation's observed transitions; a timeline is non-trivial if it contains at least one pending->firing transition or one resolution; distinct by the printed operation list"
	cf := &gallina.CaseFile{Dir: f.Out, Type: "case", PerShard: 25,
		Preamble: "From Coq Require Import List ZArith.\nFrom Verif Require Import model.Alerting corr.CorrC44.\nImport ListNotations.\nOpen Scope Z_scope.\n",
		Footer:   gallina.StdFooter}
	expr, err := parser.NewParser(parser.Options{}).ParseExpr("up == 0")
	if err != nil {
		panic(err)
	}
	metrics := rules.NewGroupMetrics(nil)
	seen := map[string]bool{}
	id := 0

	runCase := func(hold, kff int64, restored bool, ops []op, shape, corpus string) {
		s := &sut{expr: expr, metrics: metrics, ruleLbl: labels.FromStrings("severity", "page")}
		s.newRule(hold, kff, restored)
		opT := make([]string, len(ops))
		obT := make([]string, len(ops))
		var outs []string
		prev := []oalert{}
		curHold, curKff := hold, kff
		nontrivial := false
		for i, o := range ops {
			ob := s.do(o)
			opT[i], obT[i] = o.gallina(), ob.gallina(prev)
			outs = append(outs, ob.out)
			if classify(meta, o, prev, ob, curHold, curKff) {
				nontrivial = true
			}
			switch o.Kind {
			case "reload", "restart":
				curHold, curKff = o.Hold, o.KFF
			}
			prev = ob.m
		}
		key := strings.Join(opT, ";")
		if seen[key] {
			return
		}
		seen[key] = true
		if nontrivial {
			meta.Nontrivial++
		}
		cf.Add(fmt.Sprintf("mkCase %s (mkCfg %s %s %s) %s %s", gallina.Z(int64(id)), gallina.Z(hold), gallina.Z(kff), gallina.Bool(restored),
			lst(opT), lst(obT)))
		meta.Case(id, desc{Shape: shape, Hold: hold, KFF: kff, Rest: restored, Ops: ops, Out: outs, Corpus: corpus})
		for _, v := range s.viol {
			meta.GoViol = append(meta.GoViol, gallina.GoViolation{ID: strconv.Itoa(id), Shape: shape + "-go", What: v})
		}
		meta.Evaluations += len(ops)
		id++
	}

	// ----- corpus -----
	t0 := int64(1700000000) * sec
	ev := func(ts int64, keys ...int64) op {
		o := op{Kind: "eval", TS: ts}
		for _, k := range keys {
			o.Res = append(o.Res, kv{Key: k, Val: 1})
		}
		return o
	}
	// pending -> firing exactly at the hold boundary, resolve, retention boundary, reappear
	runCase(min, 0, true, []op{ev(t0, 0), ev(t0+min-1, 0), ev(t0+min, 0), ev(t0 + 2*min), ev(t0 + 2*min + 15*min), ev(t0 + 2*min + 15*min + 1),
		ev(t0+30*min, 0), ev(t0 + 31*min), ev(t0+32*min, 0)}, "corpus", "for-boundary-retention")
	// keep_firing_for: flapping inside the window, expiry at the boundary
	runCase(0, 5*min, true, []op{ev(t0, 0), ev(t0 + min), ev(t0+2*min, 0), ev(t0 + 3*min), ev(t0 + 8*min - 1), ev(t0 + 8*min), ev(t0+9*min, 0)}, "corpus", "keep-firing-boundary")
	// hold grows at reload: firing -> pending; hold shrinks: pending -> firing
	runCase(min, min, true, []op{ev(t0, 0, 1), ev(t0+min, 0, 1), {Kind: "send", TS: t0 + min, Resend: min, Interval: min},
		{Kind: "reload", Hold: 10 * min, KFF: min, Restored: true}, ev(t0+2*min, 0), {Kind: "send", TS: t0 + 2*min, Resend: min, Interval: min},
		{Kind: "reload", Hold: 30 * sec, KFF: 0, Restored: true}, ev(t0+3*min, 0), ev(t0 + 4*min)}, "corpus", "hold-change")
	// restart + restore: the three branches (was firing / grace / shifted), tolerance
	for _, g := range []struct{ hold, down, grace, tol int64 }{{10 * min, 2 * min, 10 * min, 60 * min}, {30 * min, 2 * min, 10 * min, 60 * min},
		{30 * min, 2 * min, min, 60 * min}, {30 * min, 90 * min, 10 * min, 60 * min}, {5 * min, 2 * min, 10 * min, 60 * min}} {
		for _, pre := range []int64{5 * min, 25 * min, 40 * min} {
			st := []sseries{{Key: 0, Samples: []ssample{{T: (t0 + pre - min) / 1e6, V: t0 / 1e9}, {T: (t0 + pre) / 1e6, V: t0 / 1e9}}},
				{Key: 1, Samples: []ssample{{T: (t0 + pre - min) / 1e6, V: t0 / 1e9}, {T: (t0 + pre) / 1e6, Stale: true}}}}
			t1 := t0 + pre + g.down
			runCase(g.hold, 0, false, []op{ev(t1, 0, 1, 2), ev(t1+min, 0, 1, 2), {Kind: "restore", TS: t1 + min + 7*ms, Tol: g.tol, Grace: g.grace, Store: st},
				ev(t1+2*min, 0, 1, 2), ev(t1+8*min, 0, 1, 2), ev(t1+11*min, 0, 1, 2), ev(t1+31*min+8*ms, 0, 1, 2)}, "corpus", "restore-branches")
		}
	}

	// restore boundaries: (second of the last stored sample - stored activation second) = hold-1s, hold, hold+1s
	// (timeRemainingPending = +1s, 0, -1s) x grace <, =, > hold and 0 x the sample just inside /
	// just outside the outage tolerance, with and without a millisecond fraction
	{
		hold := 10 * min
		tol := 60 * min
		t1 := t0 + 7*24*60*min
		ts := t1 + min + 7*ms
		mintMS := (ts - tol) / 1e6
		for _, grace := range []int64{0, min, 10 * min, 11 * min} {
			for _, dS := range []int64{hold/sec - 1, hold / sec, hold/sec + 1} {
				for _, T := range []int64{ts/1e6 - 120000, ts/1e6 - 120000 + 999, mintMS, mintMS - 1} {
					v := T/1000 - dS
					st := []sseries{{Key: 0, Samples: []ssample{{T: T - 60000, V: v}, {T: T, V: v}}}}
					runCase(hold, 0, false, []op{ev(t1, 0), ev(t1+min, 0), {Kind: "restore", TS: ts, Tol: tol, Grace: grace, Store: st},
						ev(t1+2*min, 0), ev(t1+3*min, 0), ev(t1+12*min+8*ms, 0)}, "corpus", "restore-boundary")
				}
			}
		}
	}

	// ----- seeded random timelines -----
	n := f.Count(160, 5000)
	for i := 0; i < n; i++ {
		r := gen.Fork(f.Seed, i)
		g := &genState{r: r, nkeys: 1 + r.Intn(4), aligned: r.Chance(2, 3)}
		g.now = t0 + r.Range(0, 1000)*sec
		if !g.aligned {
			g.now += r.Range(0, sec-1)
		}
		g.pres = make([]bool, g.nkeys)
		g.vals = make([]float64, g.nkeys)
		for k := range g.pres {
			g.pres[k] = r.Bool()
		}
		restartCase := r.Chance(2, 5)
		g.hold, g.kff = gen.Pick(r, holds), gen.Pick(r, kffs)
		if restartCase && r.Chance(2, 3) {
			g.hold = gen.Pick(r, []int64{5 * min, 10 * min, 15 * min, 30 * min})
		}
		hold0, kff0 := g.hold, g.kff
		restored0 := !r.Chance(1, 8)
		shape := "timeline"
		var ops []op
		// the ops must be executed to know the vectors for the store: run a scratch sut alongside
		scratch := &sut{expr: expr, metrics: metrics, ruleLbl: labels.FromStrings("severity", "page")}
		scratch.newRule(g.hold, g.kff, restored0)
		acc := &storeAcc{series: map[int64][]ssample{}, prev: map[int64]bool{}}
		accOn := true
		push := func(o op) {
			ops = append(ops, o)
			ob := scratch.do(o)
			if o.Kind == "restart" {
				accOn = false // the old process is gone: nothing more is written for it
			}
			if accOn && o.Kind == "eval" && ob.out == "ok" {
				acc.add(ob.vec, (o.TS-o.QO)/1e6)
			}
		}
		nops := 8 + r.Intn(18)
		for len(ops) < nops {
			g.step()
			push(g.evalOp())
			if r.Chance(1, 3) {
				push(op{Kind: "send", TS: g.now, Resend: gen.Pick(r, []int64{0, min, 5 * min}), Interval: gen.Pick(r, []int64{15 * sec, min, 10 * min})})
			}
			if r.Chance(1, 12) {
				shape = "timeline-reload"
				g.hold, g.kff = gen.Pick(r, holds), gen.Pick(r, kffs)
				push(op{Kind: "reload", Hold: g.hold, KFF: g.kff, Restored: !r.Chance(1, 10)})
			}
		}
		if restartCase {
			// a calm stretch before the restart so that stored for-state samples are recent
			g.sticky, g.small = r.Chance(3, 4), true
			for j := 0; j < 3; j++ {
				g.step()
				push(g.evalOp())
			}
			g.small = false
			shape = "timeline-restart"
			if r.Chance(1, 4) {
				g.hold = gen.Pick(r, holds)
			}
			push(op{Kind: "restart", Hold: g.hold, KFF: g.kff})
			g.now += gen.Pick(r, []int64{10 * sec, min, 2 * min, 5 * min, 20 * min, 59 * min, 61 * min, 2 * 60 * min})
			if !g.aligned {
				g.now += r.Range(0, sec)
			}
			push(g.evalOp())
			if !r.Chance(1, 6) {
				g.step()
				push(g.evalOp())
			}
			st := acc.list()
			if r.Chance(1, 4) { // damage the store: drop tails, odd values
				for si := range st {
					if len(st[si].Samples) > 1 && r.Bool() {
						st[si].Samples = st[si].Samples[:1+r.Intn(len(st[si].Samples)-1)]
					}
					if r.Chance(1, 3) {
						j := r.Intn(len(st[si].Samples))
						st[si].Samples[j].V += r.Range(-600, 600)
					}
				}
			}
			g.now += gen.Pick(r, []int64{0, 3 * ms, 250 * ms, sec})
			tol := gen.Pick(r, []int64{60 * min, 60 * min, 10 * min, 0, 3 * 60 * min})
			grace := gen.Pick(r, []int64{10 * min, 10 * min, min, 0, 30 * sec, 15 * min})
			if r.Chance(1, 4) {
				grace = g.hold // for = grace period
			}
			if g.hold >= sec && r.Chance(1, 2) {
				// boundary store: last sample at the edges of the outage tolerance / just before the
				// restore, written exactly hold-1s / hold / hold+1s (and around hold-grace) after activation
				shape = "timeline-restart-boundary"
				hs, gs := g.hold/sec, grace/sec
				tsMS, mintMS := g.now/1e6, (g.now-tol)/1e6
				have := map[int64]bool{}
				for _, x := range st {
					have[x.Key] = true
				}
				for k := int64(0); k < int64(g.nkeys) && k < 2; k++ {
					if !have[k] {
						st = append(st, sseries{Key: k})
					}
				}
				sort.Slice(st, func(a, b int) bool { return st[a].Key < st[b].Key })
				for si := range st {
					T := gen.Pick(r, []int64{mintMS - 1, mintMS, mintMS + 1, tsMS - 120000, tsMS - 120000 + 999, tsMS - 1000, tsMS, tsMS + 1})
					dS := gen.Pick(r, []int64{hs - 1, hs, hs, hs + 1, hs - gs - 1, hs - gs, hs - gs + 1})
					v := T/1000 - dS
					st[si].Samples = []ssample{{T: T - 60000, V: v}, {T: T, V: v}}
				}
			}
			push(op{Kind: "restore", TS: g.now, Tol: tol, Grace: grace, Store: st})
			g.sticky = false
			g.small = r.Chance(1, 2)
			more := 3 + r.Intn(8)
			for j := 0; j < more; j++ {
				g.step()
				push(g.evalOp())
				if r.Chance(1, 4) {
					push(op{Kind: "send", TS: g.now, Resend: min, Interval: min})
				}
			}
		}
		runCase(hold0, kff0, restored0, ops, shape, "")
	}
	cf.Flush()
	meta.Write(f.Out)
}

package main

import (
	"bytes"
	"context"
	"errors"
	"fmt"
	"math"
	"net/http"
	"net/http/httptest"
	"sort"
	"strconv"
	"time"

	"github.com/gogo/protobuf/proto"
	"github.com/golang/snappy"
	remoteapi "github.com/prometheus/client_golang/exp/api/remote"
	"github.com/prometheus/client_golang/prometheus"
	"github.com/prometheus/common/promslog"

	"github.com/prometheus/prometheus/model/exemplar"
	"github.com/prometheus/prometheus/model/histogram"
	"github.com/prometheus/prometheus/model/labels"
	"github.com/prometheus/prometheus/model/metadata"
	"github.com/prometheus/prometheus/prompb"
	writev2 "github.com/prometheus/prometheus/prompb/io/prometheus/write/v2"
	"github.com/prometheus/prometheus/storage"
	"github.com/prometheus/prometheus/storage/remote"
	"github.com/prometheus/prometheus/tsdb"
	"github.com/prometheus/prometheus/tsdb/chunkenc"
)

// ---------- abstract request description (what the generator produces) ----------

type lbl struct{ N, V string }
type smp struct{ T, V int64 }
type hst struct {
	T      int64
	ID     int64
	Schema int32
	Float  bool
	Bad    bool // built so that Validate fails
	Valid  bool // Validate() == nil on the histogram as the storage receives it (oracle, filled by fillValid)
	RedOK  bool // ReduceResolution(8) == nil (oracle; true when no reduction is needed)
}

// key identifies a histogram in the storage: it is what the Sum field carries.
func (h hst) key() int64 { return h.ID*256 + int64(h.Schema) + 100 }

func needsReduce(schema int32) bool {
	return histogram.IsExponentialSchemaReserved(schema) && schema > histogram.ExponentialSchemaMax
}

type exm struct {
	L    []lbl    // v1: labels; v2: nil
	Refs []uint32 // v2
	T, V int64
}
type ser struct {
	L          []lbl    // v1
	Refs       []uint32 // v2
	Help, Unit uint32
	S          []smp
	H          []hst
	E          []exm
}
type request struct {
	V2   bool
	Bad  bool // undecodable body
	Syms []string
	Ser  []ser
}

func intHist(x hst) *histogram.Histogram {
	h := &histogram.Histogram{
		Schema: x.Schema, ZeroThreshold: 0.001, ZeroCount: 1, Count: 11, Sum: float64(x.key()),
		PositiveSpans: []histogram.Span{{Offset: 1, Length: 3}}, PositiveBuckets: []int64{2, 1, -1},
		NegativeSpans: []histogram.Span{{Offset: -2, Length: 2}}, NegativeBuckets: []int64{1, 1},
	}
	if x.Schema == histogram.CustomBucketsSchema {
		h.ZeroThreshold, h.ZeroCount, h.Count = 0, 0, 7
		h.NegativeSpans, h.NegativeBuckets = nil, nil
		h.PositiveSpans[0].Offset = 0
		h.CustomValues = []float64{1, 2, 5}
	}
	if x.Bad {
		h.Count++
	}
	return h
}

func floatHist(x hst) *histogram.FloatHistogram {
	h := &histogram.FloatHistogram{
		Schema: x.Schema, ZeroThreshold: 0.001, ZeroCount: 1, Count: 11, Sum: float64(x.key()),
		PositiveSpans: []histogram.Span{{Offset: 1, Length: 3}}, PositiveBuckets: []float64{2, 3, 2},
		NegativeSpans: []histogram.Span{{Offset: -2, Length: 2}}, NegativeBuckets: []float64{1, 2},
	}
	if x.Schema == histogram.CustomBucketsSchema {
		h.ZeroThreshold, h.ZeroCount, h.Count = 0, 0, 7
		h.NegativeSpans, h.NegativeBuckets = nil, nil
		h.PositiveSpans[0].Offset = 0
		h.CustomValues = []float64{1, 2, 5}
	}
	if x.Bad {
		h.PositiveSpans[0].Length = 4
	}
	return h
}

// expected returns the histogram the storage must hold for key k (a valid histogram sent with
// the schema encoded in k): unchanged, or reduced to schema 8 by the real ReduceResolution (oracle).
func expectedInt(k int64) *histogram.Histogram {
	x := hst{ID: k / 256, Schema: int32(k%256 - 100)}
	h := intHist(x)
	if needsReduce(x.Schema) {
		if err := h.ReduceResolution(histogram.ExponentialSchemaMax); err != nil {
			return nil
		}
	}
	return h
}

func expectedFloat(k int64) *histogram.FloatHistogram {
	x := hst{ID: k / 256, Schema: int32(k%256 - 100), Float: true}
	h := floatHist(x)
	if needsReduce(x.Schema) {
		if err := h.ReduceResolution(histogram.ExponentialSchemaMax); err != nil {
			return nil
		}
	}
	return h
}

// fillValid evaluates the Validate oracle for every histogram of the request.
func (r *request) fillValid() {
	for i := range r.Ser {
		for j := range r.Ser[i].H {
			h := &r.Ser[i].H[j]
			h.RedOK = true
			if h.Float {
				fh := floatHist(*h)
				if needsReduce(h.Schema) {
					h.RedOK = fh.ReduceResolution(histogram.ExponentialSchemaMax) == nil
				}
				h.Valid = h.RedOK && fh.Validate() == nil
			} else {
				ih := intHist(*h)
				if needsReduce(h.Schema) {
					h.RedOK = ih.ReduceResolution(histogram.ExponentialSchemaMax) == nil
				}
				h.Valid = h.RedOK && ih.Validate() == nil
			}
		}
	}
}

// encode builds the real protobuf message and returns the snappy-compressed body and the content type.
func (r *request) encode() ([]byte, string) {
	if r.Bad {
		ct := "application/x-protobuf"
		if r.V2 {
			ct = "application/x-protobuf;proto=io.prometheus.write.v2.Request"
		}
		return snappy.Encode(nil, []byte{0x0a, 0xff, 0xff, 0xff, 0xff, 0x0f, 0x01}), ct
	}
	var msg proto.Message
	ct := "application/x-protobuf;proto=prometheus.WriteRequest"
	if r.V2 {
		ct = "application/x-protobuf;proto=io.prometheus.write.v2.Request"
		req := &writev2.Request{Symbols: r.Syms}
		for _, s := range r.Ser {
			ts := writev2.TimeSeries{LabelsRefs: s.Refs, Metadata: writev2.Metadata{HelpRef: s.Help, UnitRef: s.Unit}}
			for _, x := range s.S {
				ts.Samples = append(ts.Samples, writev2.Sample{Timestamp: x.T, Value: float64(x.V)})
			}
			for _, h := range s.H {
				if h.Float {
					ts.Histograms = append(ts.Histograms, writev2.FromFloatHistogram(0, h.T, floatHist(h)))
				} else {
					ts.Histograms = append(ts.Histograms, writev2.FromIntHistogram(0, h.T, intHist(h)))
				}
			}
			for _, e := range s.E {
				ts.Exemplars = append(ts.Exemplars, writev2.Exemplar{LabelsRefs: e.Refs, Timestamp: e.T, Value: float64(e.V)})
			}
			req.Timeseries = append(req.Timeseries, ts)
		}
		msg = req
	} else {
		req := &prompb.WriteRequest{}
		for _, s := range r.Ser {
			ts := prompb.TimeSeries{}
			for _, l := range s.L {
				ts.Labels = append(ts.Labels, prompb.Label{Name: l.N, Value: l.V})
			}
			for _, x := range s.S {
				ts.Samples = append(ts.Samples, prompb.Sample{Timestamp: x.T, Value: float64(x.V)})
			}
			for _, h := range s.H {
				if h.Float {
					ts.Histograms = append(ts.Histograms, prompb.FromFloatHistogram(h.T, floatHist(h)))
				} else {
					ts.Histograms = append(ts.Histograms, prompb.FromIntHistogram(h.T, intHist(h)))
				}
			}
			for _, e := range s.E {
				pe := prompb.Exemplar{Timestamp: e.T, Value: float64(e.V)}
				for _, l := range e.L {
					pe.Labels = append(pe.Labels, prompb.Label{Name: l.N, Value: l.V})
				}
				ts.Exemplars = append(ts.Exemplars, pe)
			}
			req.Timeseries = append(req.Timeseries, ts)
		}
		msg = req
	}
	b, err := proto.Marshal(msg)
	if err != nil {
		panic(err)
	}
	return snappy.Encode(nil, b), ct
}

type response struct {
	Status   int
	Stats    []int64 // nil when the headers are absent
	Panicked bool
}

func post(h http.Handler, r *request) response {
	body, ct := r.encode()
	req := httptest.NewRequest(http.MethodPost, "/api/v1/write", bytes.NewReader(body))
	req.Header.Set("Content-Type", ct)
	req.Header.Set("Content-Encoding", "snappy")
	rec := httptest.NewRecorder()
	panicked := func() (p bool) {
		defer func() {
			if x := recover(); x != nil {
				p = true
			}
		}()
		h.ServeHTTP(rec, req)
		return false
	}()
	if panicked {
		// the handler panicked: no status the protocol knows (fails agree and holds)
		return response{Status: 999, Panicked: true}
	}
	res := response{Status: rec.Code}
	hs := rec.Header()
	a, b, c := hs.Get("X-Prometheus-Remote-Write-Samples-Written"), hs.Get("X-Prometheus-Remote-Write-Histograms-Written"), hs.Get("X-Prometheus-Remote-Write-Exemplars-Written")
	if a != "" || b != "" || c != "" {
		for _, v := range []string{a, b, c} {
			n, err := strconv.ParseInt(v, 10, 64)
			if err != nil {
				n = -1
			}
			res.Stats = append(res.Stats, n)
		}
	}
	return res
}

func newHandler(app storage.Appendable) http.Handler {
	return remote.NewWriteHandler(promslog.NewNopLogger(), prometheus.NewRegistry(), app,
		remoteapi.MessageTypes{remoteapi.WriteV1MessageType, remoteapi.WriteV2MessageType}, false, false, false)
}

// ---------- recording appendable ----------

type event struct {
	Kind  byte // 'f', 'h', 'e'
	L     []lbl
	T, V  int64
	HID   int64
	Schema int32
	Float bool
	EL    []lbl
}

type recorder struct {
	script   []int
	commitOK bool
	calls    int
	acked    []event
	fin      int // 0 none, 1 commit ok, 2 commit failed, 3 rollback
	pick     int
	other    int // calls the model does not know (metadata, ST zero samples)
}

func toLbls(ls labels.Labels) []lbl {
	var out []lbl
	ls.Range(func(l labels.Label) { out = append(out, lbl{l.Name, l.Value}) })
	return out
}

var softErrs = []error{storage.ErrOutOfOrderSample, storage.ErrOutOfBounds, storage.ErrDuplicateSampleForTimestamp, storage.ErrTooOldSample}

func (r *recorder) next() error {
	i := r.calls
	r.calls++
	code := 0
	if i < len(r.script) {
		code = r.script[i]
	}
	r.pick++
	switch code {
	case 0:
		return nil
	case 1:
		e := softErrs[r.pick%len(softErrs)]
		if r.pick%3 == 0 {
			return fmt.Errorf("wrapped: %w", e)
		}
		return e
	case 2:
		return fmt.Errorf("positive side: %w", histogram.ErrHistogramCountMismatch)
	case 3:
		return storage.ErrOutOfOrderExemplar
	default:
		if r.pick%2 == 0 {
			return storage.ErrNotFound
		}
		return errors.New("boom")
	}
}

func (r *recorder) Appender(context.Context) storage.Appender { return r }
func (r *recorder) SetOptions(*storage.AppendOptions)         {}
func (r *recorder) Append(_ storage.SeriesRef, l labels.Labels, t int64, v float64) (storage.SeriesRef, error) {
	if err := r.next(); err != nil {
		return 0, err
	}
	r.acked = append(r.acked, event{Kind: 'f', L: toLbls(l), T: t, V: int64(v)})
	return 7, nil
}

func (r *recorder) AppendHistogram(_ storage.SeriesRef, l labels.Labels, t int64, h *histogram.Histogram, fh *histogram.FloatHistogram) (storage.SeriesRef, error) {
	if err := r.next(); err != nil {
		return 0, err
	}
	ev := event{Kind: 'h', L: toLbls(l), T: t}
	if h != nil {
		ev.HID, ev.Schema = int64(h.Sum), h.Schema
		ev.V = b2i(h.Validate() == nil)
	} else {
		ev.HID, ev.Float, ev.Schema = int64(fh.Sum), true, fh.Schema
		ev.V = b2i(fh.Validate() == nil)
	}
	r.acked = append(r.acked, ev)
	return 7, nil
}

func (r *recorder) AppendExemplar(_ storage.SeriesRef, l labels.Labels, e exemplar.Exemplar) (storage.SeriesRef, error) {
	if err := r.next(); err != nil {
		return 0, err
	}
	r.acked = append(r.acked, event{Kind: 'e', L: toLbls(l), T: e.Ts, V: int64(e.Value), EL: toLbls(e.Labels)})
	return 7, nil
}

func (r *recorder) AppendHistogramSTZeroSample(storage.SeriesRef, labels.Labels, int64, int64, *histogram.Histogram, *histogram.FloatHistogram) (storage.SeriesRef, error) {
	r.other++
	return 0, nil
}

func (r *recorder) AppendSTZeroSample(storage.SeriesRef, labels.Labels, int64, int64) (storage.SeriesRef, error) {
	r.other++
	return 0, nil
}

func (r *recorder) UpdateMetadata(storage.SeriesRef, labels.Labels, metadata.Metadata) (storage.SeriesRef, error) {
	r.other++
	return 0, nil
}

func (r *recorder) Commit() error {
	if r.commitOK {
		r.fin = 1
		return nil
	}
	r.fin = 2
	return errors.New("commit failed")
}

func (r *recorder) Rollback() error {
	r.fin = 3
	return nil
}

func b2i(b bool) int64 {
	if b {
		return 1
	}
	return 0
}

// ---------- real head ----------

type storedSample struct {
	T      int64
	Hist   bool
	Float  bool // float histogram
	V      int64
	Schema int32
	H      *histogram.Histogram
	FH     *histogram.FloatHistogram
}
type storedEx struct {
	L    []lbl
	T, V int64
}
type storedSeries struct {
	L  []lbl
	S  []storedSample
	E  []storedEx
	ls labels.Labels
}

func openHead(dir string, exemplars bool, chunkRange int64) *tsdb.Head {
	opts := tsdb.DefaultHeadOptions()
	opts.ChunkRange = chunkRange
	opts.ChunkDirRoot = dir
	opts.EnableExemplarStorage = exemplars
	opts.MaxExemplars.Store(10000)
	h, err := tsdb.NewHead(nil, nil, nil, nil, opts, nil)
	if err != nil {
		panic(err)
	}
	if err := h.Init(math.MinInt64); err != nil {
		panic(err)
	}
	return h
}

func snapshot(h *tsdb.Head) []storedSeries {
	byKey := map[string]*storedSeries{}
	q, err := tsdb.NewBlockQuerier(h, math.MinInt64, math.MaxInt64)
	if err != nil {
		panic(err)
	}
	ss := q.Select(context.Background(), true, nil, labels.MustNewMatcher(labels.MatchRegexp, "__name__", ".*"))
	var it chunkenc.Iterator
	for ss.Next() {
		s := ss.At()
		st := &storedSeries{L: toLbls(s.Labels()), ls: s.Labels()}
		it = s.Iterator(it)
		for vt := it.Next(); vt != chunkenc.ValNone; vt = it.Next() {
			switch vt {
			case chunkenc.ValFloat:
				t, v := it.At()
				st.S = append(st.S, storedSample{T: t, V: int64(v)})
			case chunkenc.ValHistogram:
				t, hh := it.AtHistogram(nil)
				st.S = append(st.S, storedSample{T: t, Hist: true, V: int64(hh.Sum), Schema: hh.Schema, H: hh.Copy()})
			case chunkenc.ValFloatHistogram:
				t, fh := it.AtFloatHistogram(nil)
				st.S = append(st.S, storedSample{T: t, Hist: true, Float: true, V: int64(fh.Sum), Schema: fh.Schema, FH: fh.Copy()})
			}
		}
		if it.Err() != nil {
			panic(it.Err())
		}
		if len(st.S) > 0 {
			byKey[s.Labels().String()] = st
		}
	}
	if ss.Err() != nil {
		panic(ss.Err())
	}
	q.Close()
	eq, err := h.ExemplarQuerier(context.Background())
	if err != nil {
		panic(err)
	}
	res, err := eq.Select(math.MinInt64, math.MaxInt64, []*labels.Matcher{labels.MustNewMatcher(labels.MatchRegexp, "__name__", ".*")})
	if err != nil {
		panic(err)
	}
	for _, qr := range res {
		k := qr.SeriesLabels.String()
		st := byKey[k]
		if st == nil {
			st = &storedSeries{L: toLbls(qr.SeriesLabels), ls: qr.SeriesLabels}
			byKey[k] = st
		}
		for _, e := range qr.Exemplars {
			st.E = append(st.E, storedEx{L: toLbls(e.Labels), T: e.Ts, V: int64(e.Value)})
		}
	}
	keys := make([]string, 0, len(byKey))
	for k := range byKey {
		keys = append(keys, k)
	}
	sort.Strings(keys)
	out := make([]storedSeries, 0, len(keys))
	for _, k := range keys {
		out = append(out, *byKey[k])
	}
	return out
}

func nowMaxT() int64 { return time.Now().Add(10*time.Minute).UnixMilli() }

package main

import (
	"fmt"
	"math"
	"strings"

	"github.com/gogo/protobuf/proto"

	"github.com/prometheus/prometheus/model/histogram"
	"github.com/prometheus/prometheus/prompb"
	writev2 "github.com/prometheus/prometheus/prompb/io/prometheus/write/v2"

	"verif/harness/internal/gen"
)

// Codec cases: a generated native histogram goes through the real
// From{Int,Float}Histogram -> proto.Marshal -> proto.Unmarshal -> To{Int,Float}Histogram of
// protocol 1.0 or 2.0; the input and everything read back are written as a flat record.

// w64 prints a 64-bit pattern as two 32-bit halves "(hi,lo)".
func w64(u uint64) string { return fmt.Sprintf("(%d,%d)", u>>32, u&0xffffffff) }
func i64(v int64) string  { return w64(uint64(v)) }
func f64(v float64) string {
	return w64(math.Float64bits(v))
}

func list64(n int, at func(int) string) string {
	it := make([]string, n)
	for i := range it {
		it[i] = at(i)
	}
	return "[" + strings.Join(it, ";") + "]"
}

func spansG(s []histogram.Span) string {
	return list64(len(s), func(i int) string { return fmt.Sprintf("(%s,%d)", i64(int64(s[i].Offset)), s[i].Length) })
}

// intHistG / floatHistG print "mkGH float hint schema zt zc count sum pspans pbuckets nspans nbuckets custom".
func intHistG(h *histogram.Histogram) string {
	if h == nil {
		return "None"
	}
	return fmt.Sprintf("(Some (mkRG false %d %s %s %s %s %s %s %s %s %s %s))", h.CounterResetHint, i64(int64(h.Schema)),
		f64(h.ZeroThreshold), w64(h.ZeroCount), w64(h.Count), f64(h.Sum),
		spansG(h.PositiveSpans), list64(len(h.PositiveBuckets), func(i int) string { return i64(h.PositiveBuckets[i]) }),
		spansG(h.NegativeSpans), list64(len(h.NegativeBuckets), func(i int) string { return i64(h.NegativeBuckets[i]) }),
		list64(len(h.CustomValues), func(i int) string { return f64(h.CustomValues[i]) }))
}

func floatHistG(h *histogram.FloatHistogram) string {
	if h == nil {
		return "None"
	}
	return fmt.Sprintf("(Some (mkRG true %d %s %s %s %s %s %s %s %s %s %s))", h.CounterResetHint, i64(int64(h.Schema)),
		f64(h.ZeroThreshold), f64(h.ZeroCount), f64(h.Count), f64(h.Sum),
		spansG(h.PositiveSpans), list64(len(h.PositiveBuckets), func(i int) string { return f64(h.PositiveBuckets[i]) }),
		spansG(h.NegativeSpans), list64(len(h.NegativeBuckets), func(i int) string { return f64(h.NegativeBuckets[i]) }),
		list64(len(h.CustomValues), func(i int) string { return f64(h.CustomValues[i]) }))
}

var floatPool = []float64{0, 1, 2.5, -3, 1e-9, 0.001, 1e300, math.Inf(1), math.Inf(-1), math.NaN(), math.Copysign(0, -1), 12345.678}

// scalar picks a value for a scalar double field of the message; negative zero is rare and
// reported (it does not survive proto3 marshalling).
func scalar(r *gen.Rand, negz *bool) float64 {
	if r.Chance(1, 25) {
		*negz = true
		return math.Copysign(0, -1)
	}
	for {
		v := gen.Pick(r, floatPool)
		if v != 0 || !math.Signbit(v) {
			return v
		}
	}
}

func genSpans(r *gen.Rand) ([]histogram.Span, int) {
	n := r.Intn(4)
	var s []histogram.Span
	tot := 0
	for i := 0; i < n; i++ {
		l := uint32(r.Intn(4))
		if r.Chance(1, 20) {
			l = math.MaxUint32 // never used for bucket allocation by the codec
			s = append(s, histogram.Span{Offset: int32(r.Range(-5, 5)), Length: l})
			continue
		}
		off := int32(r.Range(-5, 5))
		if r.Chance(1, 15) {
			off = int32(r.PickI64(math.MinInt32, math.MaxInt32))
		}
		s = append(s, histogram.Span{Offset: off, Length: l})
		tot += int(l)
	}
	return s, tot
}

func genIntBuckets(r *gen.Rand, n int) []int64 {
	if r.Chance(1, 6) { // deliberately not matching the spans: the codec must not care
		n = r.Intn(5)
	}
	var b []int64
	for i := 0; i < n; i++ {
		v := r.Range(-20, 40)
		if r.Chance(1, 25) {
			v = r.PickI64(math.MaxInt64, math.MinInt64, 1<<53, -(1 << 53))
		}
		b = append(b, v)
	}
	return b
}

func genFloatBuckets(r *gen.Rand, n int) []float64 {
	if r.Chance(1, 6) {
		n = r.Intn(5)
	}
	var b []float64
	for i := 0; i < n; i++ {
		b = append(b, gen.Pick(r, floatPool))
	}
	return b
}

func genSchema(r *gen.Rand) int32 {
	switch r.Intn(6) {
	case 0:
		return histogram.CustomBucketsSchema
	case 1:
		return int32(r.PickI64(math.MinInt32, math.MaxInt32, 9, 52, -5))
	default:
		return int32(r.Range(-4, 8))
	}
}

func genCustom(r *gen.Rand, schema int32) []float64 {
	if schema != histogram.CustomBucketsSchema && !r.Chance(1, 10) {
		return nil
	}
	var c []float64
	for i, n := 0, r.Intn(4); i < n; i++ {
		c = append(c, gen.Pick(r, floatPool))
	}
	return c
}

// histCase runs one generated histogram through the codec of one protocol version and returns
// the case body "v2 float ts st <input> <to_int> <to_float> ts' st'" and whether the value is
// non-trivial (has buckets).
func histCase(r *gen.Rand) (string, bool, string, bool) {
	v2 := r.Bool()
	isFloat := r.Bool()
	ts := r.Range(-5, 5000)
	if r.Chance(1, 10) {
		ts = r.PickI64(math.MinInt64, math.MaxInt64, 0)
	}
	st := int64(0)
	if v2 && r.Bool() {
		st = r.Range(-5, 5000)
	}
	schema := genSchema(r)
	ps, pn := genSpans(r)
	ns, nn := genSpans(r)
	hint := histogram.CounterResetHint(r.Intn(4))
	negz := false
	sv, ev := scalar(r, &negz), scalar(r, &negz)
	zt, sum := scalar(r, &negz), scalar(r, &negz)
	var in string
	var body []byte
	var err error
	nontrivial := pn+nn > 0
	if isFloat {
		h := &histogram.FloatHistogram{CounterResetHint: hint, Schema: schema, ZeroThreshold: zt,
			ZeroCount: gen.Pick(r, floatPool), Count: gen.Pick(r, floatPool), Sum: sum,
			PositiveSpans: ps, PositiveBuckets: genFloatBuckets(r, pn), NegativeSpans: ns, NegativeBuckets: genFloatBuckets(r, nn),
			CustomValues: genCustom(r, schema)}
		in = floatHistG(h)
		if v2 {
			body, err = proto.Marshal(&writev2.TimeSeries{Samples: []writev2.Sample{{Value: sv, Timestamp: ts}}, Exemplars: []writev2.Exemplar{{Value: ev, Timestamp: ts}}, Histograms: []writev2.Histogram{writev2.FromFloatHistogram(st, ts, h)}})
		} else {
			body, err = proto.Marshal(&prompb.TimeSeries{Samples: []prompb.Sample{{Value: sv, Timestamp: ts}}, Exemplars: []prompb.Exemplar{{Value: ev, Timestamp: ts}}, Histograms: []prompb.Histogram{prompb.FromFloatHistogram(ts, h)}})
		}
	} else {
		zc, cnt := uint64(r.Range(0, 50)), uint64(r.Range(0, 500))
		if r.Chance(1, 12) {
			zc, cnt = math.MaxUint64, 1<<53+1
		}
		h := &histogram.Histogram{CounterResetHint: hint, Schema: schema, ZeroThreshold: zt,
			ZeroCount: zc, Count: cnt, Sum: sum,
			PositiveSpans: ps, PositiveBuckets: genIntBuckets(r, pn), NegativeSpans: ns, NegativeBuckets: genIntBuckets(r, nn),
			CustomValues: genCustom(r, schema)}
		in = intHistG(h)
		if v2 {
			body, err = proto.Marshal(&writev2.TimeSeries{Samples: []writev2.Sample{{Value: sv, Timestamp: ts}}, Exemplars: []writev2.Exemplar{{Value: ev, Timestamp: ts}}, Histograms: []writev2.Histogram{writev2.FromIntHistogram(st, ts, h)}})
		} else {
			body, err = proto.Marshal(&prompb.TimeSeries{Samples: []prompb.Sample{{Value: sv, Timestamp: ts}}, Exemplars: []prompb.Exemplar{{Value: ev, Timestamp: ts}}, Histograms: []prompb.Histogram{prompb.FromIntHistogram(ts, h)}})
		}
	}
	if err != nil {
		panic(err)
	}
	var outI *histogram.Histogram
	var outF *histogram.FloatHistogram
	var ts2, st2 int64
	var isF2 bool
	var sv2, ev2 float64
	if v2 {
		var m writev2.TimeSeries
		if err := proto.Unmarshal(body, &m); err != nil || len(m.Histograms) != 1 || len(m.Samples) != 1 || len(m.Exemplars) != 1 {
			panic(fmt.Sprint("v2 histogram does not decode: ", err))
		}
		p := m.Histograms[0]
		sv2, ev2 = m.Samples[0].Value, m.Exemplars[0].Value
		outI, outF, ts2, st2, isF2 = p.ToIntHistogram(), p.ToFloatHistogram(), p.Timestamp, p.StartTimestamp, p.IsFloatHistogram()
	} else {
		var m prompb.TimeSeries
		if err := proto.Unmarshal(body, &m); err != nil || len(m.Histograms) != 1 || len(m.Samples) != 1 || len(m.Exemplars) != 1 {
			panic(fmt.Sprint("v1 histogram does not decode: ", err))
		}
		p := m.Histograms[0]
		sv2, ev2 = m.Samples[0].Value, m.Exemplars[0].Value
		outI, outF, ts2, isF2 = p.ToIntHistogram(), p.ToFloatHistogram(), p.Timestamp, p.IsFloatHistogram()
	}
	cls := "hist:" + ver(v2)
	if isFloat {
		cls += ":float"
	} else {
		cls += ":int"
	}
	b := fmt.Sprintf("%s %s %s %s %s %s %s %s %s [(%s,%s);(%s,%s)]", boolG(v2), i64(ts), i64(st), in, boolG(isF2), intHistG(outI), floatHistG(outF), i64(ts2), i64(st2),
		f64(sv), f64(sv2), f64(ev), f64(ev2))
	return b, nontrivial, cls, negz
}

func boolG(b bool) string {
	if b {
		return "true"
	}
	return "false"
}

// h_c41: correspondence harness for C41 (remote-write receivers store exactly what they report).
//
// Generated remote-write requests (protocol 1.0 and 2.0, real protobuf + snappy) are POSTed to
// the real remote.NewWriteHandler, backed
//   - by a recording appendable with a scripted outcome per append call (every error class the
//     handler distinguishes, commit failures), observing status, X-Prometheus-Remote-Write-*-Written
//     headers, the acknowledged append calls and commit/rollback; and
//   - by a real tsdb.Head (exemplar storage on/off, chunk range 1000), a sequence of requests per
//     case, observing status, headers and everything a querier / exemplar querier returns after
//     each request.
//
// A third kind of case runs the real writev2.SymbolsTable on generated label sets, a fourth sends
// generated native histograms through the real histogram codec of either protocol.
package main

import (
	"fmt"
	"math"
	"os"
	"sort"
	"strings"

	"github.com/prometheus/common/model"

	"github.com/prometheus/prometheus/model/labels"
	writev2 "github.com/prometheus/prometheus/prompb/io/prometheus/write/v2"

	"verif/harness/internal/gallina"
	"verif/harness/internal/gen"
)

const future = int64(4000000000000000000)

// ---------- string table of one case ----------

type strtab struct {
	idx  map[string]int
	strs []string
}

func newTab() *strtab { return &strtab{idx: map[string]int{}} }
func (t *strtab) id(s string) int {
	if i, ok := t.idx[s]; ok {
		return i
	}
	t.idx[s] = len(t.strs)
	t.strs = append(t.strs, s)
	return len(t.strs) - 1
}

func (t *strtab) gallina() string {
	it := make([]string, len(t.strs))
	for i, s := range t.strs {
		b := make([]string, len(s))
		for j := 0; j < len(s); j++ {
			b[j] = fmt.Sprint(s[j])
		}
		it[i] = "[" + strings.Join(b, ";") + "]"
	}
	return "[" + strings.Join(it, "; ") + "]"
}

func (t *strtab) lbls(ls []lbl) string {
	it := make([]string, len(ls))
	for i, l := range ls {
		it[i] = fmt.Sprintf("(%d,%d)", t.id(l.N), t.id(l.V))
	}
	return "[" + strings.Join(it, ";") + "]"
}

func refsG(rs []uint32) string {
	it := make([]string, len(rs))
	for i, r := range rs {
		it[i] = fmt.Sprint(r)
	}
	return "[" + strings.Join(it, ";") + "]"
}

// histCode: ((key*256 + (schema+100))*2 + redok)*4 + float*2 + valid, key = identity incl. the
// schema the histogram was sent with, schema = the schema it has where it is observed.
func histCode(key int64, schema int32, redok, float, valid bool) int64 {
	c := (key*256 + int64(schema) + 100) * 2
	if redok {
		c++
	}
	c *= 4
	if float {
		c += 2
	}
	if valid {
		c++
	}
	return c
}

func (t *strtab) req(r *request) string {
	if r.Bad {
		return "(RRBad " + gallina.Bool(r.V2) + ")"
	}
	sers := make([]string, len(r.Ser))
	for i, s := range r.Ser {
		ss := make([]string, len(s.S))
		for j, x := range s.S {
			ss[j] = fmt.Sprintf("(%d,%d)", x.T, x.V)
		}
		hs := make([]string, len(s.H))
		for j, h := range s.H {
			hs[j] = fmt.Sprintf("(%d,%d)", h.T, histCode(h.key(), h.Schema, h.RedOK, h.Float, h.Valid))
		}
		es := make([]string, len(s.E))
		for j, e := range s.E {
			if r.V2 {
				es[j] = fmt.Sprintf("(%s,%d,%d)", refsG(e.Refs), e.T, e.V)
			} else {
				es[j] = fmt.Sprintf("(%s,%d,%d)", t.lbls(e.L), e.T, e.V)
			}
		}
		body := "[" + strings.Join(ss, ";") + "] [" + strings.Join(hs, ";") + "] [" + strings.Join(es, ";") + "]"
		if r.V2 {
			sers[i] = fmt.Sprintf("RT2 %s %d %d %s", refsG(s.Refs), s.Help, s.Unit, body)
		} else {
			sers[i] = fmt.Sprintf("RT1 %s %s", t.lbls(s.L), body)
		}
	}
	if r.V2 {
		sy := make([]string, len(r.Syms))
		for i, s := range r.Syms {
			sy[i] = fmt.Sprint(t.id(s))
		}
		return "(RR2 [" + strings.Join(sy, ";") + "] [" + strings.Join(sers, "; ") + "])"
	}
	return "(RR1 [" + strings.Join(sers, "; ") + "])"
}

func statsG(s []int64) string {
	it := make([]string, len(s))
	for i, v := range s {
		if v < 0 {
			v = 4611686018427387903 // unparsable header: never equal to a count
		}
		it[i] = fmt.Sprint(v)
	}
	return "[" + strings.Join(it, ";") + "]"
}

// ---------- generator ----------

var (
	metricNames = []string{"m1", "m2", "m3"}
	extraNames  = []string{"a", "b", "job", "é", "zz", "_x"}
	extraVals   = []string{"x", "y", "1", "ü", "v w"}
)

type genCtx struct {
	r       *gen.Rand
	head    bool  // real-head case: no empty label values, small label pool
	clock   int64 // base timestamp of this request
	maxSeen int64
}

// genLabels returns a label list (request order) and its class.
func (g *genCtx) genLabels() ([]lbl, string) {
	r := g.r
	ls := []lbl{{"__name__", gen.Pick(r, metricNames)}}
	nExtra := r.Intn(3)
	if g.head {
		nExtra = r.Intn(2)
	}
	used := map[string]bool{}
	for i := 0; i < nExtra; i++ {
		n := gen.Pick(r, extraNames)
		if g.head {
			n = "a"
		}
		if used[n] {
			continue
		}
		used[n] = true
		v := gen.Pick(r, extraVals)
		if g.head {
			v = gen.Pick(r, []string{"x", "y"})
		}
		ls = append(ls, lbl{n, v})
	}
	class := "valid"
	if r.Chance(1, 5) {
		switch r.Intn(7) {
		case 0:
			ls = ls[1:]
			class = "no-name"
		case 1:
			ls[0].V = ""
			class = "empty-metric-name"
		case 2:
			ls = append(ls, lbl{"b", "\xff\xfe"})
			class = "bad-utf8-value"
		case 3:
			ls = append(ls, lbl{"n\xc3", "x"})
			class = "bad-utf8-name"
		case 4:
			ls = append(ls, lbl{"", "x"})
			class = "empty-label-name"
		case 5:
			ls = append(ls, lbl{ls[len(ls)-1].N, "other"})
			class = "duplicate-name"
		case 6:
			ls[0].V = "\xed\xa0\x80" // surrogate half: invalid UTF-8
			class = "bad-utf8-metric"
		}
	} else if !g.head && r.Chance(1, 8) {
		ls = append(ls, lbl{"empty", ""})
		class = "valid-empty-value"
	}
	// request order: sorted by name, or shuffled
	if r.Chance(1, 3) {
		for i := len(ls) - 1; i > 0; i-- {
			j := r.Intn(i + 1)
			ls[i], ls[j] = ls[j], ls[i]
		}
	} else {
		sort.SliceStable(ls, func(i, j int) bool { return ls[i].N < ls[j].N })
	}
	return ls, class
}

// genHistSchema: the standard schemas, the boundary 8, the reserved ones that the receiver must
// reduce to 8 (9..52), custom buckets, and rarely a reserved schema below the minimum (invalid).
func genHistSchema(r *gen.Rand) int32 {
	switch x := r.Intn(100); {
	case x < 35:
		return int32(r.PickI64(-4, 0, 3, 7))
	case x < 55:
		return 8
	case x < 65:
		return int32(r.PickI64(9, 52))
	case x < 80:
		return int32(r.Range(9, 52))
	case x < 96:
		return -53
	default:
		return -6
	}
}

// times returns n timestamps for series number idx according to a mode.
func (g *genCtx) times(idx, n int, mode int, off int64) []int64 {
	r := g.r
	out := make([]int64, n)
	base := g.clock + 100*int64(idx) + off
	for j := range out {
		switch mode {
		case 1: // conflicts inside the series: random small set
			out[j] = base + 10*r.Range(0, 2)
		case 2: // older than what earlier requests stored
			out[j] = g.clock - r.Range(1, 40)*10 + off
		case 3: // below the head's valid window
			out[j] = g.clock - 800 + int64(j)
		case 4:
			out[j] = future
		default:
			out[j] = base + 10*int64(j)
		}
		if out[j] < 1 {
			out[j] = 1
		}
		if out[j] != future && out[j] > g.maxSeen {
			g.maxSeen = out[j]
		}
	}
	if mode == 5 && n > 1 { // strictly decreasing
		for j := range out {
			out[j] = base + 10*int64(n-j)
			if out[j] > g.maxSeen {
				g.maxSeen = out[j]
			}
		}
	}
	return out
}

func (g *genCtx) mode() int {
	r := g.r
	switch x := r.Intn(100); {
	case x < 74:
		return 0
	case x < 79:
		return 1
	case x < 83:
		return 5
	case x < 91:
		return 2
	case x < 96:
		return 3
	default:
		return 4
	}
}

func (g *genCtx) genRequest(v2 bool, dist func(string)) *request {
	r := g.r
	req := &request{V2: v2}
	if r.Chance(1, 40) {
		req.Bad = true
		dist("undecodable-body")
		return req
	}
	var st writev2.SymbolsTable
	if v2 {
		st = writev2.NewSymbolTable()
	}
	nSer := int(r.Range(0, 4))
	if r.Chance(1, 30) {
		nSer = 0
	}
	var prev []lbl
	for i := 0; i < nSer; i++ {
		ls, class := g.genLabels()
		if prev != nil && r.Chance(1, 6) {
			ls, class = prev, "repeated-labelset"
		}
		prev = ls
		dist("labels:" + class)
		s := ser{L: ls}
		mode := g.mode()
		nS := r.Intn(4)
		for _, t := range g.times(i, nS, mode, 0) {
			s.S = append(s.S, smp{T: t, V: r.Range(0, 3)})
		}
		if r.Chance(1, 3) {
			nH := int(r.Range(1, 3))
			hm := mode
			if r.Chance(1, 4) {
				hm = g.mode()
			}
			for _, t := range g.times(i, nH, hm, 10*int64(nS)) {
				s.H = append(s.H, hst{T: t, ID: r.Range(0, 3), Schema: genHistSchema(r), Float: r.Bool(), Bad: r.Chance(1, 8)})
			}
		}
		if nS == 0 && len(s.H) == 0 {
			dist("empty-series")
		}
		if r.Chance(2, 5) {
			nE := int(r.Range(1, 3))
			em := 0
			switch x := r.Intn(20); {
			case x < 15:
				em = 0
			case x < 17:
				em = 5
			case x < 19:
				em = 2
			default:
				em = 4
			}
			ts := g.times(i, nE, em, 1)
			for j, t := range ts {
				k := r.Range(1, 3)
				e := exm{L: []lbl{{"trace_id", fmt.Sprintf("t%d", k)}}, T: t, V: k}
				if j > 0 && r.Chance(1, 4) { // exact duplicate of the previous exemplar
					e = s.E[j-1]
				} else if r.Chance(1, 12) {
					e.L = []lbl{{"trace_id", strings.Repeat("q", 130)}}
					e.V = 9
				} else if !g.head && r.Chance(1, 10) {
					e.L = append(e.L, lbl{"gone", ""})
				}
				s.E = append(s.E, e)
			}
		}
		if v2 {
			for _, l := range ls {
				s.Refs = append(s.Refs, st.Symbolize(l.N), st.Symbolize(l.V))
			}
			if r.Chance(1, 6) {
				s.Help = st.Symbolize("some help")
				s.Unit = st.Symbolize("seconds")
			}
			for j := range s.E {
				s.E[j].Refs = nil
				for _, l := range s.E[j].L {
					s.E[j].Refs = append(s.E[j].Refs, st.Symbolize(l.N), st.Symbolize(l.V))
				}
			}
		}
		req.Ser = append(req.Ser, s)
	}
	if v2 {
		req.Syms = append([]string{}, st.Symbols()...)
		// corruptions of the references
		for i := range req.Ser {
			s := &req.Ser[i]
			if r.Chance(1, 10) && len(s.Refs) > 0 {
				n := uint32(len(req.Syms))
				bound := gen.Pick(r, []uint32{n - 1, n, n, n + 1, math.MaxUint32})
				switch r.Intn(5) {
				case 0:
					s.Refs = s.Refs[:len(s.Refs)-1]
					dist("v2:odd-label-refs")
				case 1:
					s.Refs[2*r.Intn(len(s.Refs)/2)] = bound
					dist("v2:label-name-ref-boundary")
				case 2:
					s.Refs[2*r.Intn(len(s.Refs)/2)+1] = bound
					dist("v2:label-value-ref-boundary")
				case 3:
					s.Unit = bound
					dist("v2:unit-ref-boundary")
				case 4:
					s.Help = bound
					dist("v2:help-ref-boundary")
				}
			}
			for j := range s.E {
				if r.Chance(1, 8) && len(s.E[j].Refs) > 1 {
					n := uint32(len(req.Syms))
					bound := gen.Pick(r, []uint32{n - 1, n, n, n + 1, math.MaxUint32})
					if g.head && bound == n-1 {
						// against the real head keep exemplars with equal timestamp and value identical
						// (validateExemplar's label-hash tie-break is not modelled)
						bound = n
					}
					switch r.Intn(3) {
					case 0:
						s.E[j].Refs = s.E[j].Refs[:len(s.E[j].Refs)-1]
					case 1:
						s.E[j].Refs[0] = bound
					default:
						s.E[j].Refs[1] = bound
					}
					dist("v2:bad-exemplar-refs")
				}
			}
		}
	}
	req.fillValid()
	return req
}

// ---------- Go-side reference for shape keys (real head cases) ----------

type want struct {
	key string
	f   []smp
	h   []hst
	e   []exm
}

func decodeLabels(req *request, s *ser) (labels.Labels, bool) {
	b := labels.NewScratchBuilder(0)
	if !req.V2 {
		for _, l := range s.L {
			b.Add(l.N, l.V)
		}
	} else {
		if len(s.Refs)%2 != 0 {
			return labels.EmptyLabels(), false
		}
		for i := 0; i < len(s.Refs); i += 2 {
			if int(s.Refs[i]) >= len(req.Syms) || int(s.Refs[i+1]) >= len(req.Syms) {
				return labels.EmptyLabels(), false
			}
			b.Add(req.Syms[s.Refs[i]], req.Syms[s.Refs[i+1]])
		}
	}
	b.Sort()
	return b.Labels(), true
}

func wants(req *request) []want {
	var out []want
	for i := range req.Ser {
		s := &req.Ser[i]
		ls, ok := decodeLabels(req, s)
		if !ok {
			continue
		}
		if req.V2 && (int(s.Help) >= len(req.Syms) || int(s.Unit) >= len(req.Syms)) {
			continue
		}
		if !ls.Has(labels.MetricName) || !ls.IsValid(model.UTF8Validation) {
			continue
		}
		if _, dup := ls.HasDuplicateLabelNames(); dup {
			continue
		}
		if req.V2 && len(s.S) == 0 && len(s.H) == 0 {
			continue
		}
		w := want{key: ls.WithoutEmpty().String(), f: s.S, h: s.H}
		for _, e := range s.E {
			if req.V2 {
				if len(e.Refs)%2 != 0 {
					continue
				}
				okr := true
				for _, x := range e.Refs {
					if int(x) >= len(req.Syms) {
						okr = false
					}
				}
				if !okr {
					continue
				}
				// the labels the receiver decodes (sorted by name), not the generator's
				e.L = nil
				for k := 0; k+1 < len(e.Refs); k += 2 {
					e.L = append(e.L, lbl{req.Syms[e.Refs[k]], req.Syms[e.Refs[k+1]]})
				}
				sort.SliceStable(e.L, func(a, b int) bool { return e.L[a].N < e.L[b].N })
			}
			w.e = append(w.e, e)
		}
		out = append(out, w)
	}
	return out
}

func stepShape(req *request, res response, after []storedSeries, exon bool) string {
	if req.Bad || res.Status == 500 {
		return ""
	}
	by := map[string]*storedSeries{}
	for i := range after {
		by[after[i].ls.String()] = &after[i]
	}
	var pf, ph, pe, tf, th int64
	for _, w := range wants(req) {
		st := by[w.key]
		tf += int64(len(w.f))
		th += int64(len(w.h))
		if st == nil {
			continue
		}
		for _, x := range w.f {
			for _, y := range st.S {
				if !y.Hist && y.T == x.T && y.V == x.V {
					pf++
					break
				}
			}
		}
		for _, x := range w.h {
			for _, y := range st.S {
				if y.Hist && y.Float == x.Float && y.T == x.T && y.V == x.key() {
					ph++
					break
				}
			}
		}
		for _, x := range w.e {
			for _, y := range st.E {
				if y.T == x.T && y.V == x.V && len(y.L) == len(x.L) && (len(x.L) == 0 || y.L[0] == x.L[0]) {
					pe++
					break
				}
			}
		}
	}
	if req.V2 && len(res.Stats) == 3 {
		if res.Stats[0] > pf || res.Stats[1] > ph {
			return "v2-written-count-exceeds-stored-samples"
		}
		if res.Stats[2] > pe {
			if !exon {
				return "v2-exemplars-counted-while-storage-disabled"
			}
			return "v2-written-count-exceeds-stored-exemplars"
		}
	}
	if !req.V2 && res.Status == 204 && (pf < tf || ph < th) {
		return "v1-success-but-sample-dropped"
	}
	if !req.V2 && res.Status == 204 && len(wants(req)) < len(req.Ser) {
		return "v1-invalid-series-skipped-with-success"
	}
	return ""
}

// ---------- main ----------

type recDesc struct {
	Kind     string    `json:"kind"`
	Shape    string    `json:"shape"`
	Version  string    `json:"version"`
	Script   []int     `json:"script"`
	CommitOK bool      `json:"commit_ok"`
	Req      *request  `json:"request"`
	Status   int       `json:"status"`
	Stats    []int64   `json:"stats"`
	Calls    int       `json:"calls"`
	Fin      int       `json:"fin"`
	Corpus   string    `json:"corpus,omitempty"`
	Steps    []stepRec `json:"steps,omitempty"`
}

type stepRec struct {
	Req    *request `json:"request"`
	Status int      `json:"status"`
	Stats  []int64  `json:"stats"`
	Stored int      `json:"stored_series"`
	Shape  string   `json:"shape,omitempty"`
}

func ver(v2 bool) string {
	if v2 {
		return "2.0"
	}
	return "1.0"
}

func main() {
	f := gallina.ParseFlags()
	meta := gallina.NewMeta("C41", f.Seed, f.Tier)
	meta.Rule = "corpus of fixed reproducers, then seeded generated cases of three kinds: (rec) one request (1.0 or 2.0) against the real handler over a recording appendable with a scripted outcome per append call; (head) a sequence of 1-3 requests against the real handler over a real tsdb.Head; (sym) label sets through the real writev2.SymbolsTable; (hist) native histograms through the real From*Histogram -> Marshal -> Unmarshal -> To*Histogram of either protocol. non-trivial = at least one append call reached the appendable (rec), at least one sample stored (head), at least one label (sym), at least one bucket (hist); distinct by the printed case term"
	cf := &gallina.CaseFile{Dir: f.Out, Type: "case", PerShard: 400,
		Preamble: "From Coq Require Import List ZArith Bool Uint63.\nFrom Verif Require Import model.WriteReq corr.CorrC41.\nImport ListNotations.\nOpen Scope uint63_scope.\n",
		Footer:   gallina.StdFooter}
	id := 0
	seen := map[string]bool{}

	emitRec := func(req *request, script []int, commitOK bool, corpus string) {
		tab := newTab()
		rec := &recorder{script: script, commitOK: commitOK}
		maxT := nowMaxT()
		res := post(newHandler(rec), req)
		if rec.other > 0 {
			meta.GoViol = append(meta.GoViol, gallina.GoViolation{ID: fmt.Sprint(id), Shape: "unexpected-appender-call", What: "metadata / ST zero sample call with the features disabled"})
		}
		evs := make([]string, len(rec.acked))
		for i, e := range rec.acked {
			switch e.Kind {
			case 'f':
				evs[i] = fmt.Sprintf("REF %s %d %d", tab.lbls(e.L), e.T, e.V)
			case 'h':
				evs[i] = fmt.Sprintf("REH %s %d %d", tab.lbls(e.L), e.T, histCode(e.HID, e.Schema, true, e.Float, e.V == 1))
			default:
				evs[i] = fmt.Sprintf("REE %s %s %d %d", tab.lbls(e.L), tab.lbls(e.EL), e.T, e.V)
			}
		}
		sc := make([]string, len(script))
		for i, c := range script {
			sc[i] = fmt.Sprint(c)
		}
		reqG := tab.req(req)
		body := fmt.Sprintf("%d [%s] %s %s (mkRObs %d %s [%s] %d %d)", maxT, strings.Join(sc, ";"), gallina.Bool(commitOK), reqG,
			res.Status, statsG(res.Stats), strings.Join(evs, "; "), rec.calls, rec.fin)
		key := "rec" + body[strings.Index(body, " "):]
		if seen[key] {
			return
		}
		seen[key] = true
		cf.Add(fmt.Sprintf("RCRec %d %s %s", id, tab.gallina(), body))
		meta.Hit("rec:" + ver(req.V2) + fmt.Sprintf(":status-%d", res.Status))
		meta.Hit(fmt.Sprintf("rec:fin-%d", rec.fin))
		if rec.calls > 0 {
			meta.Nontrivial++
		}
		if res.Panicked {
			meta.Hit("rec:handler-panic")
		}
		meta.Case(id, recDesc{Kind: "rec", Shape: "rec-" + ver(req.V2), Version: ver(req.V2), Script: script, CommitOK: commitOK, Req: req,
			Status: res.Status, Stats: res.Stats, Calls: rec.calls, Fin: rec.fin, Corpus: corpus})
		meta.Evaluations++
		id++
	}

	emitHead := func(reqs []*request, exon bool, corpus string) {
		tab := newTab()
		dir, err := os.MkdirTemp(f.Out, "head")
		if err != nil {
			panic(err)
		}
		defer os.RemoveAll(dir)
		const cr = 1000
		h := openHead(dir, exon, cr)
		defer h.Close()
		handler := newHandler(h)
		maxT := nowMaxT()
		var steps []string
		var recs []stepRec
		shape := "head-ok"
		stored := 0
		for _, req := range reqs {
			res := post(handler, req)
			snap := snapshot(h)
			sers := make([]string, len(snap))
			stored = 0
			for i, s := range snap {
				ss := make([]string, len(s.S))
				for j, x := range s.S {
					if x.Hist {
						ss[j] = fmt.Sprintf("(%d,1,%d)", x.T, histCode(x.V, x.Schema, true, x.Float, true))
					} else {
						ss[j] = fmt.Sprintf("(%d,0,%d)", x.T, x.V)
					}
				}
				stored += len(s.S)
				es := make([]string, len(s.E))
				for j, e := range s.E {
					es[j] = fmt.Sprintf("(%s,%d,%d)", tab.lbls(e.L), e.T, e.V)
				}
				sers[i] = fmt.Sprintf("(%s,[%s],[%s])", tab.lbls(s.L), strings.Join(ss, ";"), strings.Join(es, ";"))
			}
			for _, s := range snap {
				for _, x := range s.S {
					if !x.Hist {
						continue
					}
					ok := false
					if x.Float {
						e := expectedFloat(x.V)
						ok = e != nil && x.FH != nil && e.Equals(x.FH)
					} else {
						e := expectedInt(x.V)
						ok = e != nil && x.H != nil && e.Equals(x.H)
					}
					if !ok {
						meta.GoViol = append(meta.GoViol, gallina.GoViolation{ID: fmt.Sprint(id), Shape: "stored-histogram-differs-from-oracle",
							What: fmt.Sprintf("series %s t=%d key=%d: the stored histogram is not the sent one (reduced to schema 8 by histogram.ReduceResolution where the sent schema is 9..52)", s.ls.String(), x.T, x.V)})
					}
				}
			}
			steps = append(steps, fmt.Sprintf("(%s, mkHObs %d %s [%s])", tab.req(req), res.Status, statsG(res.Stats), strings.Join(sers, "; ")))
			sh := stepShape(req, res, snap, exon)
			if res.Panicked {
				sh = "handler-panic"
				shape = sh
				meta.Hit("head:handler-panic")
			}
			if sh != "" && shape == "head-ok" {
				shape = sh
			}
			meta.Hit("head:" + ver(req.V2) + fmt.Sprintf(":status-%d", res.Status))
			recs = append(recs, stepRec{Req: req, Status: res.Status, Stats: res.Stats, Stored: len(snap), Shape: sh})
		}
		body := fmt.Sprintf("%s %d [%s]", gallina.Bool(exon), cr, strings.Join(steps, ";\n   "))
		if seen["head"+body] {
			return
		}
		seen["head"+body] = true
		cf.Add(fmt.Sprintf("RCHead %d %s %d %s", id, tab.gallina(), maxT, body))
		meta.Hit("head:shape:" + shape)
		if stored > 0 {
			meta.Nontrivial++
		}
		meta.Case(id, recDesc{Kind: "head", Shape: shape, CommitOK: exon, Steps: recs, Corpus: corpus})
		meta.Evaluations++
		id++
	}

	emitSym := func(lss [][]lbl) {
		tab := newTab()
		st := writev2.NewSymbolTable()
		var in, refs []string
		n := 0
		for _, ls := range lss {
			b := labels.NewScratchBuilder(0)
			for _, l := range ls {
				b.Add(l.N, l.V)
			}
			b.Sort()
			lab := b.Labels()
			in = append(in, tab.lbls(toLbls(lab)))
			refs = append(refs, refsG(st.SymbolizeLabels(lab, nil)))
			n += lab.Len()
		}
		sy := make([]string, len(st.Symbols()))
		for i, s := range st.Symbols() {
			sy[i] = fmt.Sprint(tab.id(s))
		}
		body := fmt.Sprintf("[%s] [%s] [%s]", strings.Join(in, ";"), strings.Join(sy, ";"), strings.Join(refs, ";"))
		if seen["sym"+body] {
			return
		}
		seen["sym"+body] = true
		cf.Add(fmt.Sprintf("RCSym %d %s %s", id, tab.gallina(), body))
		meta.Hit("sym")
		if n > 0 {
			meta.Nontrivial++
		}
		meta.Case(id, map[string]any{"kind": "sym", "shape": "sym", "labelsets": lss})
		meta.Evaluations++
		id++
	}

	// ----- corpus -----
	m1 := []lbl{{"__name__", "m1"}}
	v2req := func(sers ...ser) *request {
		st := writev2.NewSymbolTable()
		for i := range sers {
			for _, l := range sers[i].L {
				sers[i].Refs = append(sers[i].Refs, st.Symbolize(l.N), st.Symbolize(l.V))
			}
			for j := range sers[i].E {
				for _, l := range sers[i].E[j].L {
					sers[i].E[j].Refs = append(sers[i].E[j].Refs, st.Symbolize(l.N), st.Symbolize(l.V))
				}
			}
		}
		r := &request{V2: true, Syms: append([]string{}, st.Symbols()...), Ser: sers}
		r.fillValid()
		return r
	}
	v1req := func(sers ...ser) *request {
		r := &request{Ser: sers}
		r.fillValid()
		return r
	}
	tr := func(k int64) []lbl { return []lbl{{"trace_id", fmt.Sprintf("t%d", k)}} }
	// out-of-order / duplicate samples inside one request
	emitHead([]*request{v2req(ser{L: m1, S: []smp{{2000, 1}, {1990, 2}}})}, true, "v2-ooo-inside-request")
	emitHead([]*request{v2req(ser{L: m1, S: []smp{{2000, 1}, {2000, 2}}})}, true, "v2-duplicate-timestamp-inside-request")
	emitHead([]*request{v2req(ser{L: m1, S: []smp{{2000, 1}}}, ser{L: m1, S: []smp{{1990, 1}}})}, true, "v2-ooo-across-series-of-one-request")
	emitHead([]*request{v2req(ser{L: m1, S: []smp{{2000, 1}}}), v2req(ser{L: m1, S: []smp{{1990, 2}}})}, true, "v2-ooo-across-requests")
	emitHead([]*request{v2req(ser{L: m1, H: []hst{{T: 2000, ID: 1}, {T: 1990, ID: 2}}})}, true, "v2-ooo-histograms-inside-request")
	emitHead([]*request{v1req(ser{L: m1, S: []smp{{2000, 1}, {1990, 2}}})}, true, "v1-ooo-inside-request")
	emitHead([]*request{v1req(ser{L: m1, S: []smp{{2000, 1}}}), v1req(ser{L: m1, S: []smp{{1990, 2}}})}, true, "v1-ooo-across-requests")
	// exemplars
	emitHead([]*request{v2req(ser{L: m1, S: []smp{{2000, 1}}, E: []exm{{L: tr(1), T: 2001, V: 1}}})}, false, "v2-exemplar-storage-disabled")
	emitHead([]*request{v2req(ser{L: m1, S: []smp{{2000, 1}}, E: []exm{{L: tr(1), T: 2011, V: 1}, {L: tr(2), T: 2001, V: 2}}})}, true, "v2-ooo-exemplars-inside-request")
	emitHead([]*request{v2req(ser{L: m1, S: []smp{{2000, 1}}, E: []exm{{L: tr(1), T: 2001, V: 1}}}),
		v2req(ser{L: m1, S: []smp{{2010, 1}}, E: []exm{{L: tr(1), T: 2001, V: 1}}})}, true, "v2-duplicate-exemplar-across-requests")
	emitRec(v2req(ser{L: m1, S: []smp{{1, 1}, {2, 2}, {3, 3}}}), []int{0, 1, 0}, true, "v2-partial-write")
	emitRec(v2req(ser{L: m1, S: []smp{{1, 1}, {2, 2}, {3, 3}}}), []int{0, 4, 0}, true, "v2-hard-error")
	emitRec(v1req(ser{L: m1, S: []smp{{1, 1}, {2, 2}}}), []int{0, 1}, true, "v1-soft-error")
	emitRec(v2req(ser{L: m1, S: []smp{{1, 1}}}), nil, false, "v2-commit-fails")
	emitRec(&request{V2: true, Bad: true}, nil, true, "v2-undecodable")
	emitRec(&request{Bad: true}, nil, true, "v1-undecodable")
	emitSym([][]lbl{{{"__name__", "m"}, {"a", "m"}, {"b", ""}}, {{"a", "m"}}})
	// 2.0 references at the exact table boundary: name / value position, series / exemplar labels,
	// help / unit; len-1 is the last valid reference, len the first invalid one
	boundary := func(where string, val func(n uint32) uint32) *request {
		rq := v2req(ser{L: []lbl{{"__name__", "m1"}, {"a", "x"}}, S: []smp{{1000, 1}, {1010, 2}},
			E: []exm{{L: tr(1), T: 1001, V: 1}}},
			ser{L: []lbl{{"__name__", "m2"}}, S: []smp{{1000, 3}}})
		n := uint32(len(rq.Syms))
		s0 := &rq.Ser[0]
		switch where {
		case "series-name":
			s0.Refs[2] = val(n)
		case "series-value":
			s0.Refs[3] = val(n)
		case "exemplar-name":
			s0.E[0].Refs[0] = val(n)
		case "exemplar-value":
			s0.E[0].Refs[1] = val(n)
		case "help":
			s0.Help = val(n)
		case "unit":
			s0.Unit = val(n)
		case "series-odd":
			s0.Refs = s0.Refs[:3]
		case "exemplar-odd":
			s0.E[0].Refs = s0.E[0].Refs[:1]
		}
		return rq
	}
	vals := []struct {
		name string
		f    func(n uint32) uint32
	}{{"len-1", func(n uint32) uint32 { return n - 1 }}, {"len", func(n uint32) uint32 { return n }},
		{"len+1", func(n uint32) uint32 { return n + 1 }}, {"maxuint32", func(uint32) uint32 { return math.MaxUint32 }}}
	for _, where := range []string{"series-name", "series-value", "exemplar-name", "exemplar-value", "help", "unit"} {
		for _, v := range vals {
			emitRec(boundary(where, v.f), nil, true, "v2-ref-"+where+"-"+v.name)
			if v.name == "len-1" || v.name == "len" {
				emitHead([]*request{boundary(where, v.f)}, true, "v2-ref-"+where+"-"+v.name)
			}
		}
	}
	for _, where := range []string{"series-odd", "exemplar-odd"} {
		emitRec(boundary(where, nil), nil, true, "v2-ref-"+where)
		emitHead([]*request{boundary(where, nil)}, true, "v2-ref-"+where)
	}

	// native histogram schemas on both receive paths: standard, the maximum 8, reserved 9..52 (reduced
	// to 8 by remoteWriteAppender), custom buckets; mixed with floats and exemplars
	for _, isV2 := range []bool{false, true} {
		mk := v1req
		if isV2 {
			mk = v2req
		}
		for _, fl := range []bool{false, true} {
			kind := "int"
			if fl {
				kind = "float"
			}
			all := ser{L: m1, S: []smp{{1000, 1}}, E: []exm{{L: tr(1), T: 1001, V: 1}}}
			for i, sc := range []int32{-4, 0, 3, 7, 8, 9, 10, 30, 52, -53} {
				all.H = append(all.H, hst{T: 1010 + 10*int64(i), ID: 1, Schema: sc, Float: fl})
			}
			name := "v" + ver(isV2) + "-" + kind + "-histogram-schemas"
			emitHead([]*request{mk(all)}, true, name)
			emitRec(mk(all), nil, true, name)
			for _, sc := range []int32{8, 9, 52, -53} {
				one := ser{L: m1, S: []smp{{1000, 1}}, H: []hst{{T: 1010, ID: 2, Schema: sc, Float: fl}}}
				emitHead([]*request{mk(one)}, true, fmt.Sprintf("%s-%d", name, sc))
			}
		}
	}

	// ----- generated -----
	nRec := f.Count(200, 3500)
	for i := 0; i < nRec; i++ {
		r := gen.Fork(f.Seed, i)
		g := &genCtx{r: r, clock: 1000}
		v2 := r.Chance(3, 5)
		req := g.genRequest(v2, func(c string) { meta.Hit("gen:" + c) })
		var script []int
		p := r.Intn(4) // error density
		for j := 0; j < 24; j++ {
			code := 0
			if p > 0 && r.Chance(p, 10) {
				code = gen.Pick(r, []int{1, 1, 1, 2, 3, 3, 4})
			}
			script = append(script, code)
		}
		emitRec(req, script, !r.Chance(1, 15), "")
	}
	nHead := f.Count(130, 2200)
	for i := 0; i < nHead; i++ {
		r := gen.Fork(f.Seed, 1000000+i)
		g := &genCtx{r: r, head: true, clock: 1000}
		exon := !r.Chance(1, 8)
		mixed := r.Chance(1, 3)
		v2 := r.Chance(3, 5)
		var reqs []*request
		for k, n := 0, int(r.Range(1, 3)); k < n; k++ {
			if mixed {
				v2 = r.Bool()
			}
			reqs = append(reqs, g.genRequest(v2, func(c string) { meta.Hit("gen:" + c) }))
			if g.maxSeen >= g.clock {
				g.clock = g.maxSeen + 10
			}
		}
		emitHead(reqs, exon, "")
	}
	nSym := f.Count(30, 300)
	for i := 0; i < nSym; i++ {
		r := gen.Fork(f.Seed, 2000000+i)
		g := &genCtx{r: r}
		var lss [][]lbl
		for k, n := 0, r.Intn(5); k < n; k++ {
			ls, _ := g.genLabels()
			lss = append(lss, ls)
		}
		emitSym(lss)
	}
	nHist := f.Count(80, 800)
	for i := 0; i < nHist; i++ {
		r := gen.Fork(f.Seed, 3000000+i)
		body, nontrivial, cls, negz := histCase(r)
		if seen["hist"+body] {
			continue
		}
		seen["hist"+body] = true
		cf.Add(fmt.Sprintf("RCHist %d %s", id, body))
		meta.Hit(cls)
		if nontrivial {
			meta.Nontrivial++
		}
		shape := "hist"
		if negz {
			shape = "codec-negative-zero-becomes-positive"
			meta.Hit("hist:negative-zero-scalar")
		}
		meta.Case(id, map[string]any{"kind": "hist", "shape": shape, "index": i, "term": body})
		meta.Evaluations++
		id++
	}
	cf.Flush()
	meta.Write(f.Out)
}

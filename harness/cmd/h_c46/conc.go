package main

// Part 2: concurrent runs of the real notifier.Manager (ApplyConfig, Run, Send from several
// goroutines, target-set changes, Stop) against fake Alertmanager HTTP servers with failures
// and latency.  The schedule is the Go runtime's; what each Alertmanager received and the
// sent/errors/dropped counters are written for Coq, which evaluates the proved predicates.

import (
	"bytes"
	"context"
	"errors"
	"fmt"
	"io"
	"net/http"
	"net/http/httptest"
	"net/url"
	"runtime"
	"strings"
	"sync"
	"sync/atomic"
	"time"

	"github.com/prometheus/client_golang/prometheus"
	"github.com/prometheus/common/model"

	"github.com/prometheus/prometheus/config"
	"github.com/prometheus/prometheus/discovery/targetgroup"
	"github.com/prometheus/prometheus/model/relabel"
	"github.com/prometheus/prometheus/notifier"

	"verif/harness/internal/gallina"
	"verif/harness/internal/gen"
)

type fakeAM struct {
	idx        int
	srv        *httptest.Server
	host       string
	url        string // as the notifier names it (metric label)
	mu         sync.Mutex
	log        []arrival
	r          *gen.Rand
	failPct    int
	connPct    int
	latencyUs  int
	connFailed int64
	started    atomic.Int64
	inflight   atomic.Int64
	overlap    atomic.Bool // two requests to this Alertmanager were in flight at the same time
	byDrainer  map[int64]bool // alert id -> its request was issued from stop()'s drainQueue
	lifetimes  int
	children   [3][]prometheus.Counter
}

func (am *fakeAM) handler(w http.ResponseWriter, req *http.Request) {
	b, err := io.ReadAll(req.Body)
	if err != nil {
		w.WriteHeader(http.StatusBadRequest)
		return
	}
	ids := parseBody(b)
	am.mu.Lock()
	st := okStatuses[am.r.Intn(len(okStatuses))]
	if am.r.Intn(100) < am.failPct {
		st = badStatuses[am.r.Intn(len(badStatuses))]
	}
	lat := 0
	if am.latencyUs > 0 {
		lat = am.r.Intn(am.latencyUs)
	}
	am.log = append(am.log, arrival{IDs: ids, Status: st, OK: is2xx(st)})
	am.mu.Unlock()
	if lat > 0 {
		time.Sleep(time.Duration(lat) * time.Microsecond)
	}
	// 301 / 307 are answered without a Location header: the client returns them as final responses
	w.WriteHeader(st)
}

type world struct {
	ams    []*fakeAM
	byHost map[string]*fakeAM
	m      *notifier.Manager
	vecs   [3]*prometheus.CounterVec
	tsets  chan map[string][]*targetgroup.Group
	gate   func(am *fakeAM, ids []int64) // reproducers: may hold a request back before it is transmitted
	runRet chan struct{}
}

func (w *world) do(ctx context.Context, client *http.Client, req *http.Request) (*http.Response, error) {
	am := w.byHost[req.URL.Host]
	b, err := io.ReadAll(req.Body)
	if err != nil {
		return nil, err
	}
	ids := parseBody(b)
	req.Body = io.NopCloser(bytes.NewReader(b))
	if am.inflight.Add(1) >= 2 {
		am.overlap.Store(true)
	}
	defer am.inflight.Add(-1)
	am.started.Add(int64(len(ids)))
	fromDrain := calledFromDrain()
	am.mu.Lock()
	for _, id := range ids {
		am.byDrainer[id] = fromDrain
	}
	am.mu.Unlock()
	if w.gate != nil {
		w.gate(am, ids)
	}
	am.mu.Lock()
	cf := am.connPct > 0 && am.r.Intn(100) < am.connPct
	if cf {
		am.connFailed += int64(len(ids))
	}
	am.mu.Unlock()
	if cf {
		if len(ids)%2 == 0 {
			return nil, context.DeadlineExceeded // timed out before reaching the Alertmanager
		}
		return nil, errors.New("verif: connection refused")
	}
	if client == nil {
		client = http.DefaultClient
	}
	return client.Do(req.WithContext(ctx))
}

// calledFromDrain reports whether the current request is sent by sendLoop.drainQueue (the
// goroutine inside stop()) rather than by the loop goroutine; used only to classify failures.
func calledFromDrain() bool {
	pc := make([]uintptr, 32)
	n := runtime.Callers(2, pc)
	fr := runtime.CallersFrames(pc[:n])
	for {
		f, more := fr.Next()
		if strings.HasSuffix(f.Function, ".drainQueue") {
			return true
		}
		if !more {
			return false
		}
	}
}

// orderOKFor: for every sender, the given alerts restricted to that sender are in Send order.
func orderOKFor(arrived []int64, survivors [][]int64) bool {
	for _, sv := range survivors {
		in := map[int64]bool{}
		for _, x := range sv {
			in[x] = true
		}
		var proj []int64
		for _, x := range arrived {
			if in[x] {
				proj = append(proj, x)
			}
		}
		if !subseq(proj, sv) {
			return false
		}
	}
	return true
}

func (w *world) capture() {
	for _, am := range w.ams {
		for i := range w.vecs {
			c := w.vecs[i].WithLabelValues(am.url)
			dup := false
			for _, x := range am.children[i] {
				if x == c {
					dup = true
				}
			}
			if !dup {
				am.children[i] = append(am.children[i], c)
			}
		}
	}
}

func (am *fakeAM) counter(i int) int64 {
	var v int64
	for _, c := range am.children[i] {
		v += counterVal(c)
	}
	return v
}

// apply sends the target groups for the given set of active Alertmanagers through the channel
// Manager.Run reads, and waits until the Manager reports exactly that set.
func (w *world) apply(active []bool) bool {
	var targets []model.LabelSet
	n := 0
	for i, am := range w.ams {
		if active[i] {
			targets = append(targets, model.LabelSet{model.AddressLabel: model.LabelValue(am.host)})
			n++
		}
	}
	select {
	case w.tsets <- map[string][]*targetgroup.Group{"config-0": {{Targets: targets, Source: "verif"}}}:
	case <-w.runRet:
		return false
	case <-time.After(20 * time.Second):
		return false
	}
	deadline := time.Now().Add(20 * time.Second)
	for time.Now().Before(deadline) {
		got := map[string]bool{}
		for _, u := range w.m.Alertmanagers() {
			got[u.Host] = true
		}
		okAll := len(got) == n
		for i, am := range w.ams {
			if active[i] != got[am.host] {
				okAll = false
			}
		}
		if okAll {
			w.capture()
			return true
		}
		time.Sleep(200 * time.Microsecond)
	}
	return false
}

// waitStable polls until cond holds on three consecutive polls 1ms apart.
func waitStable(cond func() bool, timeout time.Duration) bool {
	deadline := time.Now().Add(timeout)
	okN := 0
	for time.Now().Before(deadline) {
		if cond() {
			okN++
			if okN >= 3 {
				return true
			}
			time.Sleep(time.Millisecond)
			continue
		}
		okN = 0
		time.Sleep(300 * time.Microsecond)
	}
	return false
}

type concParams struct {
	NAM       int     `json:"alertmanagers"`
	Cap       int     `json:"cap"`
	MaxBatch  int     `json:"max_batch"`
	Drain     bool    `json:"drain"`
	Senders   int     `json:"senders"`
	PerSender int     `json:"sends_per_sender"`
	FailPct   []int   `json:"fail_pct"`
	ConnPct   []int   `json:"conn_fail_pct"`
	LatUs     []int   `json:"latency_us"`
	SetChange bool    `json:"set_changes"`
	StopRace  bool    `json:"stop_races_with_send"`
	PreCheck  bool    `json:"settle_before_stop"`
	Repro     string  `json:"reproducer,omitempty"`
	Plan      [][]int `json:"-"`
}

type concDesc struct {
	Kind   string     `json:"kind"`
	Seed   uint64     `json:"seed"`
	Index  int        `json:"index"`
	AM     int        `json:"alertmanager"`
	Params concParams `json:"params"`
	Shape  string     `json:"shape"`
	Note   string     `json:"note,omitempty"`
}

func newWorld(p *concParams, r *gen.Rand) *world {
	w := &world{byHost: map[string]*fakeAM{}, tsets: make(chan map[string][]*targetgroup.Group), runRet: make(chan struct{})}
	for i := 0; i < p.NAM; i++ {
		am := &fakeAM{idx: i, byDrainer: map[int64]bool{}, r: gen.New(r.U64()), failPct: p.FailPct[i], connPct: p.ConnPct[i], latencyUs: p.LatUs[i]}
		am.srv = httptest.NewServer(http.HandlerFunc(am.handler))
		u, _ := url.Parse(am.srv.URL)
		am.host = u.Host
		am.url = "http://" + u.Host + "/api/v2/alerts"
		w.ams = append(w.ams, am)
		w.byHost[am.host] = am
	}
	opts := &notifier.Options{QueueCapacity: p.Cap, MaxBatchSize: p.MaxBatch, DrainOnShutdown: p.Drain, Do: w.do,
		Registerer: prometheus.NewRegistry()}
	w.m = notifier.NewManager(opts, model.UTF8Validation, nil)
	s, e, d := notifier.VerifCounterVecs(w.m)
	w.vecs = [3]*prometheus.CounterVec{s, e, d}
	amc := config.DefaultAlertmanagerConfig
	amc.Timeout = model.Duration(20 * time.Second)
	cfg := &config.Config{}
	cfg.GlobalConfig.MetricNameValidationScheme = model.UTF8Validation
	cfg.AlertingConfig.AlertmanagerConfigs = config.AlertmanagerConfigs{&amc}
	cfg.AlertingConfig.AlertRelabelConfigs = []*relabel.Config{{
		SourceLabels: model.LabelNames{"drop"}, Separator: ";", Regex: relabel.MustNewRegexp("1"),
		Action: relabel.Drop, Replacement: "$1", NameValidationScheme: model.UTF8Validation,
	}}
	if err := w.m.ApplyConfig(cfg); err != nil {
		panic(err)
	}
	go func() {
		w.m.Run(w.tsets)
		close(w.runRet)
	}()
	return w
}

func (w *world) close() {
	for _, am := range w.ams {
		am.srv.Close()
	}
}

func genParams(r *gen.Rand, thorough bool) *concParams {
	p := &concParams{}
	p.NAM = 1 + r.Intn(3)
	p.Cap = []int{2, 3, 5, 8, 13, 30}[r.Intn(6)]
	p.MaxBatch = 1 + r.Intn(6)
	p.Drain = r.Bool()
	p.Senders = 1 + r.Intn(3)
	p.PerSender = 8 + r.Intn(25)
	for i := 0; i < p.NAM; i++ {
		p.FailPct = append(p.FailPct, []int{0, 10, 40}[r.Intn(3)])
		p.ConnPct = append(p.ConnPct, []int{0, 0, 15}[r.Intn(3)])
		p.LatUs = append(p.LatUs, []int{0, 300, 2000}[r.Intn(3)])
	}
	p.SetChange = p.NAM >= 2 && r.Chance(1, 3)
	p.StopRace = r.Chance(1, 3)
	p.PreCheck = !p.StopRace && r.Bool()
	return p
}

func runConc(idBase *int, seed uint64, idx int, p *concParams, cf *gallina.CaseFile, meta *gallina.Meta) {
	r := gen.Fork(seed, idx)
	if p == nil {
		p = genParams(r, false)
	}
	w := newWorld(p, r)
	defer w.close()
	active := make([]bool, p.NAM)
	for i := range active {
		active[i] = true
	}
	note := ""
	if !w.apply(active) {
		note = "initial target set was not applied"
	}
	for _, am := range w.ams {
		am.lifetimes = 1
	}

	// sender plans
	type send struct {
		ids  []int64
		drop []bool
		wait int
	}
	plans := make([][]send, p.Senders)
	survivors := make([][]int64, p.Senders)
	for s := range plans {
		seq := int64(0)
		for k := 0; k < p.PerSender; k++ {
			n := 0
			switch r.Intn(8) {
			case 0:
				n = 0
			case 1:
				n = p.Cap + 1 + r.Intn(3)
			default:
				n = 1 + r.Intn(p.Cap/2+2)
			}
			sd := send{wait: r.Intn(4)}
			for j := 0; j < n; j++ {
				seq++
				id := int64(s+1)*100000 + seq
				dr := r.Chance(1, 7)
				sd.ids = append(sd.ids, id)
				sd.drop = append(sd.drop, dr)
				if !dr {
					survivors[s] = append(survivors[s], id)
				}
			}
			plans[s] = append(plans[s], sd)
		}
	}
	var total int64
	for _, sv := range survivors {
		total += int64(len(sv))
	}

	var wg sync.WaitGroup
	for s := range plans {
		wg.Add(1)
		go func(s int) {
			defer wg.Done()
			for _, sd := range plans[s] {
				al := make([]*notifier.Alert, len(sd.ids))
				for j := range al {
					al[j] = mkAlert(sd.ids[j], sd.drop[j])
				}
				w.m.Send(al...)
				switch sd.wait {
				case 1:
					runtime.Gosched()
				case 2:
					time.Sleep(100 * time.Microsecond)
				case 3:
					time.Sleep(600 * time.Microsecond)
				}
			}
		}(s)
	}
	sendersDone := make(chan struct{})
	go func() { wg.Wait(); close(sendersDone) }()

	// target-set changes while the senders run
	if p.SetChange {
		nch := 1 + r.Intn(3)
		for c := 0; c < nch; c++ {
			time.Sleep(time.Duration(200+r.Intn(1500)) * time.Microsecond)
			j := r.Intn(p.NAM)
			active[j] = !active[j]
			if w.apply(active) {
				w.ams[j].lifetimes++
			} else if note == "" {
				note = "target set change was not applied"
			}
		}
	}
	if p.StopRace {
		time.Sleep(time.Duration(r.Intn(3000)) * time.Microsecond)
	} else {
		<-sendersDone
	}

	full := func(am *fakeAM) bool { return am.lifetimes == 1 && !p.StopRace }
	arrivedCounts := func(am *fakeAM) (okN, failN, cf int64) {
		am.mu.Lock()
		defer am.mu.Unlock()
		for _, a := range am.log {
			if a.OK {
				okN += int64(len(a.IDs))
			} else {
				failN += int64(len(a.IDs))
			}
		}
		return okN, failN, am.connFailed
	}
	consistent := func(am *fakeAM) bool {
		okN, failN, cfN := arrivedCounts(am)
		return am.inflight.Load() == 0 && am.counter(0) == okN && am.counter(1) == failN+cfN
	}

	pre := make([]string, p.NAM)
	for i := range pre {
		pre[i] = "None"
	}
	if p.PreCheck {
		w.capture()
		waitStable(func() bool {
			for _, am := range w.ams {
				if !consistent(am) {
					return false
				}
			}
			return true
		}, 15*time.Second)
		waitStable(func() bool {
			ql := notifier.VerifQueueLens(w.m)
			for _, am := range w.ams {
				if full(am) && total != am.counter(0)+am.counter(2)+int64(ql[am.url]) {
					return false
				}
			}
			return true
		}, 300*time.Millisecond)
		ql := notifier.VerifQueueLens(w.m)
		for i, am := range w.ams {
			pre[i] = fmt.Sprintf("(Some (%s, %s, %s))", gallina.Z(am.counter(0)), gallina.Z(am.counter(2)), gallina.Z(int64(ql[am.url])))
		}
	}

	w.capture()
	loops := notifier.VerifLoops(w.m)
	w.m.Stop()
	select {
	case <-w.runRet:
	case <-time.After(60 * time.Second):
		meta.GoViol = append(meta.GoViol, gallina.GoViolation{ID: fmt.Sprint(*idBase), Shape: "run-did-not-return", What: "Manager.Run did not return within 60s of Stop"})
	}
	queueAtReturn := make([]int64, p.NAM)
	for i, am := range w.ams {
		for _, l := range loops[am.url] {
			queueAtReturn[i] += int64(len(l.Queue()))
		}
	}
	<-sendersDone
	w.capture()
	settled := waitStable(func() bool {
		w.capture()
		for _, am := range w.ams {
			if !consistent(am) {
				return false
			}
		}
		return true
	}, 15*time.Second)
	// the dropped counter is updated right after errors: give it a moment, not 15s (a wrong
	// count must not make the harness crawl)
	waitStable(func() bool {
		for _, am := range w.ams {
			if full(am) {
				sd := am.counter(0) + am.counter(2)
				if p.Drain && total != sd || !p.Drain && total > sd {
					return false
				}
			}
		}
		return true
	}, 300*time.Millisecond)
	if !settled && note == "" {
		note = "counters did not settle to a consistent state within 15s"
	}
	w.capture()

	sendersT := make([]string, len(survivors))
	for i, sv := range survivors {
		sendersT[i] = gallina.ListZ(sv)
	}
	for i, am := range w.ams {
		am.mu.Lock()
		logT := make([]string, len(am.log))
		var arrived []int64
		for k, a := range am.log {
			logT[k] = gallina.Pair(gallina.ListZ(a.IDs), okTerm(a.Status))
			arrived = append(arrived, a.IDs...)
		}
		cfN := am.connFailed
		am.mu.Unlock()
		tot := int64(-1)
		if full(am) {
			tot = total
		}
		// Go-side evaluation of the order predicate, only to choose the shape key
		orderOK := orderOKFor(arrived, survivors)
		var arrL, arrD []int64
		am.mu.Lock()
		for _, x := range arrived {
			if am.byDrainer[x] {
				arrD = append(arrD, x)
			} else {
				arrL = append(arrL, x)
			}
		}
		am.mu.Unlock()
		// only a loop-goroutine request and drainQueue requests are out of order with each other
		crossOnly := len(arrD) > 0 && len(arrL) > 0 && orderOKFor(arrL, survivors) && orderOKFor(arrD, survivors)
		class := "conc-nodrain"
		if p.Drain {
			class = "conc-drain"
		}
		shape := class
		if !orderOK {
			shape = "order"
			switch {
			case p.Drain && crossOnly:
				// stop() was draining while another request to this Alertmanager was in flight
				shape = "drain-overlap-reorder"
			case am.lifetimes > 1 && am.overlap.Load():
				// a new loop for a re-added Alertmanager sent while the old loop's request was in flight
				shape = "readd-overlap-reorder"
			}
		}
		if am.overlap.Load() {
			meta.Hit("conc-two-requests-in-flight")
		}
		meta.Hit(class)
		if am.lifetimes > 1 {
			meta.Hit("conc-alertmanager-removed-or-readded")
		}
		if p.StopRace {
			meta.Hit("conc-stop-races-with-send")
		}
		if am.counter(2) > am.counter(1) {
			meta.Hit("conc-overflow-or-stop-drops")
		}
		if am.counter(1) > 0 {
			meta.Hit("conc-delivery-failures")
		}
		if len(am.log) > 1 {
			meta.Nontrivial++
		}
		id := *idBase
		*idBase++
		cf.Add(fmt.Sprintf("CCase %s (mkCC (mkCfg %s %s %s) %s %s %s %s %s %s %s %s %s %s)", gallina.Z(int64(id)),
			gallina.Nat(p.Cap), gallina.Nat(p.MaxBatch), gallina.Bool(p.Drain),
			gallina.List(sendersT), gallina.List(logT),
			gallina.Z(am.counter(0)), gallina.Z(am.counter(1)), gallina.Z(am.counter(2)), gallina.Z(cfN),
			gallina.Z(tot), pre[i], "true", gallina.Z(queueAtReturn[i])))
		meta.Case(id, concDesc{Kind: "concurrent", Seed: seed, Index: idx, AM: i, Params: *p, Shape: shape, Note: note})
		meta.Evaluations++
	}
}

// reproDrainOverlap: the loop goroutine's request is held back on its way to the Alertmanager
// (network latency) while Stop with DrainOnShutdown drains the rest of the queue from the
// goroutine running Manager.Run: the Alertmanager receives the newer batch first.
func reproDrainOverlap(idBase *int, seed uint64, cf *gallina.CaseFile, meta *gallina.Meta) {
	p := &concParams{NAM: 1, Cap: 10, MaxBatch: 2, Drain: true, Senders: 1, FailPct: []int{0}, ConnPct: []int{0}, LatUs: []int{0},
		Repro: "Send(1,2); [request of {1,2} delayed in transit]; Send(3,4); Stop(); {3,4} is drained by stop() and arrives before {1,2}"}
	r := gen.Fork(seed, 1<<20)
	w := newWorld(p, r)
	defer w.close()
	am := w.ams[0]
	var first atomic.Bool
	w.gate = func(am *fakeAM, ids []int64) {
		if first.CompareAndSwap(false, true) {
			deadline := time.Now().Add(5 * time.Second)
			for time.Now().Before(deadline) {
				am.mu.Lock()
				n := len(am.log)
				am.mu.Unlock()
				if n > 0 {
					return
				}
				time.Sleep(200 * time.Microsecond)
			}
		}
	}
	note := ""
	if !w.apply([]bool{true}) {
		note = "initial target set was not applied"
	}
	am.lifetimes = 1
	ids := func(a ...int64) []*notifier.Alert {
		al := make([]*notifier.Alert, len(a))
		for i, x := range a {
			al[i] = mkAlert(x, false)
		}
		return al
	}
	w.m.Send(ids(100001, 100002)...)
	deadline := time.Now().Add(5 * time.Second)
	for am.started.Load() < 2 && time.Now().Before(deadline) {
		time.Sleep(100 * time.Microsecond)
	}
	w.m.Send(ids(100003, 100004)...)
	w.capture()
	loops := notifier.VerifLoops(w.m)
	w.m.Stop()
	select {
	case <-w.runRet:
	case <-time.After(30 * time.Second):
		note = "Run did not return"
	}
	var qret int64
	for _, l := range loops[am.url] {
		qret += int64(len(l.Queue()))
	}
	waitStable(func() bool {
		w.capture()
		return am.inflight.Load() == 0 && am.counter(0)+am.counter(2) == 4
	}, 10*time.Second)
	am.mu.Lock()
	logT := make([]string, len(am.log))
	var arrived []int64
	for k, a := range am.log {
		logT[k] = gallina.Pair(gallina.ListZ(a.IDs), okTerm(a.Status))
		arrived = append(arrived, a.IDs...)
	}
	am.mu.Unlock()
	sv := []int64{100001, 100002, 100003, 100004}
	shape := "conc-drain"
	if !subseq(arrived, sv) {
		shape = "order"
		am.mu.Lock()
		if am.byDrainer[100003] && !am.byDrainer[100001] {
			shape = "drain-overlap-reorder"
		}
		am.mu.Unlock()
		meta.Hit("repro-drain-overlap-reordered")
	} else {
		meta.Hit("repro-drain-overlap-in-order")
	}
	id := *idBase
	*idBase++
	cf.Add(fmt.Sprintf("CCase %s (mkCC (mkCfg %s %s %s) %s %s %s %s %s %s %s %s %s %s)", gallina.Z(int64(id)),
		gallina.Nat(p.Cap), gallina.Nat(p.MaxBatch), gallina.Bool(p.Drain),
		gallina.List([]string{gallina.ListZ(sv)}), gallina.List(logT),
		gallina.Z(am.counter(0)), gallina.Z(am.counter(1)), gallina.Z(am.counter(2)), gallina.Z(0),
		gallina.Z(4), "None", "true", gallina.Z(qret)))
	meta.Case(id, concDesc{Kind: "concurrent-reproducer", Seed: seed, Index: -1, AM: 0, Params: *p, Shape: shape,
		Note: note + fmt.Sprintf(" received=%v", arrived)})
	meta.Evaluations++
	meta.Nontrivial++
}

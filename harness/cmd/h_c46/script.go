package main

// Part 1: deterministic single-goroutine scripts on one real notifier.sendLoop, driven through
// the export shim.  opts.Do is the script's continuation: while a request is "in flight" the
// script goes on (adds alerts, lets the other actor send, calls stop), exactly as another
// goroutine could.  The flat sequence of atomic steps performed is written for the Coq model.

import (
	"bytes"
	"context"
	"encoding/json"
	"errors"
	"fmt"
	"io"
	"net/http"
	"strconv"
	"strings"

	"github.com/prometheus/client_golang/prometheus"
	dto "github.com/prometheus/client_model/go"
	"github.com/prometheus/common/model"

	"github.com/prometheus/prometheus/config"
	"github.com/prometheus/prometheus/model/labels"
	"github.com/prometheus/prometheus/notifier"
	"github.com/prometheus/prometheus/util/verifhook"

	"verif/harness/internal/gallina"
	"verif/harness/internal/gen"
)

type arrival struct {
	IDs    []int64 `json:"ids"`
	Status int     `json:"status"`
	OK     bool    `json:"ok"` // 2xx; only used for settling and descriptions, Coq computes status_ok itself
}

// final response statuses the fake Alertmanagers answer
var okStatuses = []int{200, 202, 204, 299}
var badStatuses = []int{300, 301, 304, 307, 399, 400, 404, 429, 500, 503}

func is2xx(st int) bool { return st >= 200 && st < 300 }

// okTerm is the Gallina term for "this status counts as delivered", computed by the model.
func okTerm(st int) string { return fmt.Sprintf("(status_ok %d)", st) }

type frame struct {
	actor string // "Loop" | "Drainer"
	hit   bool   // opts.Do was called for the current sendOneBatch
	taken bool   // the Take step of the current sendOneBatch was already emitted (at the pause point)
}

type scriptEnv struct {
	r        *gen.Rand
	cap      int
	maxb     int
	drain    bool
	overtake bool
	failPct  int
	v        *notifier.VerifLoop
	url      string
	vecs     [3]*prometheus.CounterVec
	c0       [3]prometheus.Counter

	ops   []string
	snaps []string
	short []string

	stopped, grace, loopFlying, inStop bool
	pendingDrainerRespond              bool
	stack                              []*frame
	amLog                              []arrival
	added                              []int64
	nextID                             int64
	budget                             int
	depth                              int
	overtook                           bool
	transit                            []string // actors with a request in transit, oldest first
	nTake, nOverflow, nNested          int
	playNested                         []string // fixed scripts: steps forced while the next request is in transit
	playHook                           []int    // fixed scripts: sizes of adds forced between nextBatch() and the encoding of the batch
	hookAdds                           bool     // random adds in that window
	nHookAdds                          int
	forceStatus                        int // fixed scripts: status of every response
	nBadStatus                         int
}

func mkAlert(id int64, drop bool) *notifier.Alert {
	if drop {
		return &notifier.Alert{Labels: labels.FromStrings(labels.AlertName, strconv.FormatInt(id, 10), "drop", "1")}
	}
	return &notifier.Alert{Labels: labels.FromStrings(labels.AlertName, strconv.FormatInt(id, 10))}
}

func alertID(a *notifier.Alert) int64 {
	n, err := strconv.ParseInt(a.Labels.Get(labels.AlertName), 10, 64)
	if err != nil {
		panic(err)
	}
	return n
}

// parseBody decodes the payload the Alertmanager would receive.
func parseBody(b []byte) []int64 {
	var as []struct {
		Labels map[string]string `json:"labels"`
	}
	if err := json.Unmarshal(b, &as); err != nil {
		panic(fmt.Sprintf("undecodable payload: %v: %s", err, b))
	}
	ids := make([]int64, len(as))
	for i, a := range as {
		n, err := strconv.ParseInt(a.Labels[labels.AlertName], 10, 64)
		if err != nil {
			panic(err)
		}
		ids[i] = n
	}
	return ids
}

func counterVal(c prometheus.Counter) int64 {
	var m dto.Metric
	if err := c.Write(&m); err != nil {
		panic(err)
	}
	return int64(m.GetCounter().GetValue())
}

// counter i of the loop: the child captured at creation plus, once stop() has deleted it, the
// child that later updates (re)create.
func (e *scriptEnv) counter(i int) int64 {
	v := counterVal(e.c0[i])
	if cur := e.vecs[i].WithLabelValues(e.url); cur != e.c0[i] {
		v += counterVal(cur)
	}
	return v
}

func (e *scriptEnv) queueIDs() []int64 {
	q := e.v.Queue()
	ids := make([]int64, len(q))
	for i, a := range q {
		ids[i] = alertID(a)
	}
	return ids
}

func (e *scriptEnv) snapTerm() string {
	return fmt.Sprintf("Some (mkSnap %s %s %s %s %s)", gallina.ListZ(e.queueIDs()),
		gallina.Z(e.counter(0)), gallina.Z(e.counter(2)), gallina.Z(e.counter(1)), gallina.Z(int64(len(e.amLog))))
}

func (e *scriptEnv) emit(op, short string, snap bool) {
	e.ops = append(e.ops, op)
	e.short = append(e.short, short)
	if snap {
		e.snaps = append(e.snaps, e.snapTerm())
	} else {
		e.snaps = append(e.snaps, "None")
	}
}

func (e *scriptEnv) snapLast() { e.snaps[len(e.snaps)-1] = e.snapTerm() }

func (e *scriptEnv) flushDrainer() {
	if e.pendingDrainerRespond {
		e.pendingDrainerRespond = false
		e.untransit("Drainer")
		e.emit("Respond Drainer", "RD", false)
		e.emit("DrainCheck", "DC", false)
	}
}

func (e *scriptEnv) untransit(a string) {
	for i, x := range e.transit {
		if x == a {
			e.transit = append(e.transit[:i:i], e.transit[i+1:]...)
			return
		}
	}
}

// atPause is the verifhook handler for "c46.sendOneBatch.afterNextBatch": the current actor has
// returned from nextBatch() (lock released) and has not yet encoded its batch.  Other goroutines
// can call add() here; the script does.
func (e *scriptEnv) atPause(site string, _ int) {
	if site != "c46.sendOneBatch.afterNextBatch" || len(e.stack) == 0 {
		return
	}
	fr := e.stack[len(e.stack)-1]
	e.enterTake(fr)
	for len(e.playHook) > 0 {
		n := e.playHook[0]
		e.playHook = e.playHook[1:]
		e.addN(n)
		e.nHookAdds++
	}
	if e.hookAdds {
		for k := e.r.Intn(3); k > 0 && e.budget > 0; k-- {
			e.budget--
			e.doAdd()
			e.nHookAdds++
		}
	}
}

// enterTake emits the Take step of the top frame's actor (once per sendOneBatch).
func (e *scriptEnv) enterTake(fr *frame) {
	if fr.taken {
		return
	}
	fr.taken = true
	if fr.actor == "Drainer" {
		e.flushDrainer()
	} else if e.stopped {
		e.grace = false
	}
	e.emit("Take "+fr.actor, "T"+fr.actor[:1], true)
}

func (e *scriptEnv) do(_ context.Context, _ *http.Client, req *http.Request) (*http.Response, error) {
	b, err := io.ReadAll(req.Body)
	if err != nil {
		panic(err)
	}
	ids := parseBody(b)
	fr := e.stack[len(e.stack)-1]
	a := fr.actor
	e.enterTake(fr)
	if a == "Loop" {
		e.loopFlying = true
	}
	fr.hit = true
	e.nTake++
	e.transit = append(e.transit, a)
	e.depth++
	for len(e.playNested) > 0 {
		st := e.playNested[0]
		e.playNested = e.playNested[1:]
		switch st {
		case "stop":
			e.doStop()
		case "add":
			e.addN(2)
		case "loop":
			e.doLoopBatch()
		}
		e.nNested++
	}
	e.nested(false)
	mode := e.r.Intn(100)
	var resp *http.Response
	var rerr error
	switch {
	case mode < e.failPct/6:
		rerr = errors.New("verif: connection refused")
	case mode < e.failPct/3:
		rerr = context.DeadlineExceeded // request timed out before it reached the Alertmanager
	default:
		st := okStatuses[e.r.Intn(len(okStatuses))]
		if mode < e.failPct {
			st = badStatuses[e.r.Intn(len(badStatuses))]
		}
		if e.forceStatus != 0 {
			st = e.forceStatus
		}
		ok := is2xx(st)
		if len(e.transit) > 0 && e.transit[0] != a {
			e.overtook = true
		}
		e.untransit(a)
		e.amLog = append(e.amLog, arrival{IDs: ids, Status: st, OK: ok})
		e.emit(fmt.Sprintf("Arrive %s %s", a, okTerm(st)), fmt.Sprintf("A%s%d", a[:1], st), true)
		e.nested(true)
		resp = &http.Response{StatusCode: st, Status: strconv.Itoa(st) + " " + http.StatusText(st), Body: io.NopCloser(bytes.NewReader(nil))}
		if !ok {
			e.nBadStatus++
		}
	}
	e.depth--
	fr.taken = false
	if a == "Drainer" {
		e.pendingDrainerRespond = true
	}
	return resp, rerr
}

func (e *scriptEnv) doAdd() {
	n := 0
	switch e.r.Intn(10) {
	case 0:
		n = 0
	case 1:
		n = e.cap + 1 + e.r.Intn(3) // larger than the queue: head truncation
	case 2:
		n = e.cap
	default:
		n = 1 + e.r.Intn(e.cap/2+2)
	}
	al := make([]*notifier.Alert, n)
	ids := make([]int64, n)
	for i := range al {
		e.nextID++
		ids[i] = e.nextID
		al[i] = mkAlert(e.nextID, false)
	}
	e.added = append(e.added, ids...)
	if !e.stopped && len(e.queueIDs())+n > e.cap {
		e.nOverflow++
	}
	e.v.Add(al...)
	e.emit("Add "+gallina.ListZ(ids), "+"+strings.ReplaceAll(fmt.Sprint(ids), " ", ","), true)
}

func (e *scriptEnv) loopEnabled() bool { return !e.loopFlying && (!e.stopped || e.grace) }

func (e *scriptEnv) doLoopBatch() {
	fr := &frame{actor: "Loop"}
	e.stack = append(e.stack, fr)
	e.v.SendOneBatch()
	e.stack = e.stack[:len(e.stack)-1]
	if !fr.hit {
		// empty queue: no request
		e.enterTake(fr)
		return
	}
	e.loopFlying = false
	e.untransit("Loop")
	e.emit("Respond Loop", "RL", true)
}

func (e *scriptEnv) doStop() {
	if e.stopped {
		e.v.Stop() // stopOnce: no effect
		e.emit("Stop", "S", true)
		return
	}
	e.stopped = true
	e.grace = !e.loopFlying
	e.emit("Stop", "S", false)
	if e.drain {
		e.emit("DrainCheck", "DC", false)
		e.inStop = true
		e.stack = append(e.stack, &frame{actor: "Drainer"})
		e.v.Stop()
		e.stack = e.stack[:len(e.stack)-1]
		e.inStop = false
		e.flushDrainer()
	} else {
		e.v.Stop()
	}
	e.snapLast()
}

// nested performs a few further steps while a request is in flight (post = after it reached
// the Alertmanager).  Without overtaking, steps that put a second request in flight wait until
// the current one has arrived.
func (e *scriptEnv) nested(post bool) {
	if e.depth > 3 {
		return
	}
	k := e.r.Intn(3)
	for i := 0; i < k && e.budget > 0; i++ {
		e.budget--
		mayFly := post || e.overtake
		switch c := e.r.Intn(10); {
		case c < 5:
			e.doAdd()
			e.nNested++
		case c < 8:
			if e.loopEnabled() && mayFly {
				e.doLoopBatch()
				e.nNested++
			}
		default:
			if !e.inStop && (mayFly || !e.drain) {
				e.doStop()
				e.nNested++
			}
		}
	}
}

func subseq(a, b []int64) bool {
	i := 0
	for _, y := range b {
		if i < len(a) && a[i] == y {
			i++
		}
	}
	return i == len(a)
}

type scriptDesc struct {
	Kind     string   `json:"kind"`
	Cap      int      `json:"cap"`
	MaxBatch int      `json:"max_batch"`
	Drain    bool     `json:"drain"`
	Overtake bool     `json:"overtake"`
	Seed     uint64   `json:"seed"`
	Index    int      `json:"index"`
	Ops      string   `json:"ops"`
	Shape    string   `json:"shape"`
	Corpus   string   `json:"corpus,omitempty"`
	Log      []string `json:"am_log,omitempty"`
}

// fixed scripts: each entry is a function playing steps on the env.
type fixedScript struct {
	name             string
	cap, maxb        int
	drain, overtake  bool
	play             func(e *scriptEnv)
	failPct, budget_ int
}

func runScript(id int, seed uint64, idx int, fx *fixedScript, cf *gallina.CaseFile, meta *gallina.Meta) {
	r := gen.Fork(seed, idx)
	e := &scriptEnv{r: r, url: "http://am.verif/api/v2/alerts"}
	if fx != nil {
		e.cap, e.maxb, e.drain, e.overtake, e.failPct, e.budget = fx.cap, fx.maxb, fx.drain, fx.overtake, fx.failPct, fx.budget_
	} else {
		e.cap = []int{0, 1, 2, 3, 4, 5, 6, 8, 12}[r.Intn(9)]
		e.maxb = 1 + r.Intn(5)
		if r.Chance(1, 8) {
			e.maxb = e.cap + 1 + r.Intn(3)
		}
		e.drain = r.Bool()
		e.overtake = e.drain && r.Chance(1, 6)
		e.failPct = []int{0, 30, 60}[r.Intn(3)]
		e.budget = 6 + r.Intn(20)
		e.hookAdds = r.Chance(1, 2)
	}
	amc := config.DefaultAlertmanagerConfig
	amc.Timeout = model.Duration(1e10)
	opts := &notifier.Options{QueueCapacity: e.cap, MaxBatchSize: e.maxb, DrainOnShutdown: e.drain, Do: e.do}
	e.v = notifier.VerifNewLoop(e.url, &amc, opts)
	s, er, d := e.v.CounterVecs()
	e.vecs = [3]*prometheus.CounterVec{s, er, d}
	for i := range e.vecs {
		e.c0[i] = e.vecs[i].WithLabelValues(e.url)
	}
	verifhook.SetHandler(e.atPause)
	defer verifhook.SetHandler(nil)
	if fx != nil {
		fx.play(e)
	} else {
		stopAt := 3 + r.Intn(e.budget)
		for e.budget > 0 {
			e.budget--
			switch c := r.Intn(10); {
			case e.budget == stopAt || c == 9:
				e.doStop()
			case c < 5:
				e.doAdd()
			default:
				if e.loopEnabled() {
					e.doLoopBatch()
				}
			}
		}
		if r.Chance(2, 3) && !e.stopped {
			e.doStop()
		}
	}
	if e.loopFlying || len(e.stack) != 0 || e.pendingDrainerRespond {
		panic("script ended with a request in flight")
	}
	// observed final state
	fq := e.queueIDs()
	logT := make([]string, len(e.amLog))
	logS := make([]string, len(e.amLog))
	var arrived []int64
	for i, a := range e.amLog {
		logT[i] = gallina.Pair(gallina.ListZ(a.IDs), okTerm(a.Status))
		logS[i] = fmt.Sprint(a.IDs, a.Status)
		arrived = append(arrived, a.IDs...)
	}
	class := "script-nodrain"
	if e.drain {
		class = "script-drain"
	}
	if !e.stopped {
		class = "script-nostop"
	}
	shape := class
	if !subseq(arrived, e.added) {
		shape = "order"
		if e.drain && e.overtook {
			shape = "drain-overlap-reorder"
		}
	}
	meta.Hit(class)
	if e.overtook {
		meta.Hit("script-overtaking-arrival")
	}
	if e.nOverflow > 0 {
		meta.Hit("script-overflow")
	}
	if e.nNested > 0 {
		meta.Hit("script-steps-while-in-flight")
	}
	if e.nHookAdds > 0 {
		meta.Hit("script-add-between-nextBatch-and-encoding")
	}
	if e.nBadStatus > 0 {
		meta.Hit("script-non-2xx-final-response")
	}
	if e.nTake > 0 && (e.nOverflow > 0 || e.nNested > 0) {
		meta.Nontrivial++
	}
	cf.Add(fmt.Sprintf("SCase %s (mkCfg %s %s %s) %s %s %s %s", gallina.Z(int64(id)),
		gallina.Nat(e.cap), gallina.Nat(e.maxb), gallina.Bool(e.drain),
		gallina.List(e.ops), gallina.List(e.snaps), gallina.ListZ(fq), gallina.List(logT)))
	d2 := scriptDesc{Kind: "script", Cap: e.cap, MaxBatch: e.maxb, Drain: e.drain, Overtake: e.overtake, Seed: seed, Index: idx,
		Ops: strings.Join(e.short, " "), Shape: shape, Log: logS}
	if fx != nil {
		d2.Corpus = fx.name
	}
	meta.Case(id, d2)
	meta.Evaluations++
}

// helpers for fixed scripts
func (e *scriptEnv) addN(n int) {
	al := make([]*notifier.Alert, n)
	ids := make([]int64, n)
	for i := range al {
		e.nextID++
		ids[i] = e.nextID
		al[i] = mkAlert(e.nextID, false)
	}
	e.added = append(e.added, ids...)
	if !e.stopped && len(e.queueIDs())+n > e.cap {
		e.nOverflow++
	}
	e.v.Add(al...)
	e.emit("Add "+gallina.ListZ(ids), "+"+strings.ReplaceAll(fmt.Sprint(ids), " ", ","), true)
}

var fixedScripts = []fixedScript{
	{name: "sendloop_test: exceed capacity", cap: 3, maxb: 3, play: func(e *scriptEnv) {
		e.addN(2)
		e.addN(2)
		e.doLoopBatch()
	}},
	{name: "sendloop_test: exceed total capacity", cap: 3, maxb: 2, play: func(e *scriptEnv) {
		e.addN(2)
		e.addN(4)
		e.doLoopBatch()
		e.doLoopBatch()
		e.doLoopBatch()
	}},
	{name: "stop without drain drops the queue", cap: 5, maxb: 2, play: func(e *scriptEnv) {
		e.addN(5)
		e.doLoopBatch()
		e.doStop()
		e.addN(1)
		e.doStop()
	}},
	{name: "stop with drain sends the queue", cap: 5, maxb: 2, drain: true, play: func(e *scriptEnv) {
		e.addN(5)
		e.doStop()
		e.addN(1)
	}},
	{name: "nodrain: loop wins one more hasWork after stop (over-count)", cap: 5, maxb: 2, play: func(e *scriptEnv) {
		e.addN(3)
		e.doStop()
		e.doLoopBatch()
	}},
	{name: "capacity 0", cap: 0, maxb: 1, drain: true, play: func(e *scriptEnv) {
		e.addN(2)
		e.doLoopBatch()
		e.doStop()
	}},
	// a final 3xx / 4xx response is a failed delivery: errors and dropped, never sent
	{name: "304 on the normal send path", cap: 5, maxb: 2, play: func(e *scriptEnv) {
		e.forceStatus = 304
		e.addN(3)
		e.doLoopBatch()
		e.forceStatus = 299
		e.doLoopBatch()
	}},
	{name: "301 without Location while draining", cap: 5, maxb: 2, drain: true, play: func(e *scriptEnv) {
		e.forceStatus = 301
		e.addN(4)
		e.doStop()
	}},
	{name: "399 / 400 boundary", cap: 5, maxb: 1, play: func(e *scriptEnv) {
		e.addN(3)
		e.forceStatus = 399
		e.doLoopBatch()
		e.forceStatus = 400
		e.doLoopBatch()
		e.forceStatus = 300
		e.doLoopBatch()
	}},
	// add() lands after nextBatch() returned and before the batch is encoded (outside the lock):
	// the batch must be a copy, whether the queue fitted in one batch or not
	{name: "add between nextBatch and encoding, queue fits in one batch", cap: 6, maxb: 3, play: func(e *scriptEnv) {
		e.addN(2)
		e.playHook = []int{2, 1}
		e.doLoopBatch()
		e.doLoopBatch()
	}},
	{name: "add between nextBatch and encoding, queue larger than one batch", cap: 6, maxb: 2, play: func(e *scriptEnv) {
		e.addN(5)
		e.playHook = []int{3}
		e.doLoopBatch()
		e.playHook = []int{2}
		e.doLoopBatch()
		e.doLoopBatch()
		e.doLoopBatch()
	}},
	{name: "add between nextBatch and encoding while draining", cap: 4, maxb: 4, drain: true, play: func(e *scriptEnv) {
		e.addN(3)
		e.playHook = []int{2}
		e.doStop()
	}},
	// the loop goroutine's request is in transit while stop() drains the rest: the drained
	// batch reaches the Alertmanager first (budget makes the nested steps deterministic below)
	{name: "drain overlaps the loop's request in flight", cap: 6, maxb: 2, drain: true, overtake: true, budget_: 0, play: func(e *scriptEnv) {
		e.addN(4)
		e.playNested = []string{"stop"}
		e.doLoopBatch()
	}},
}

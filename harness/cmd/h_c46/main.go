// h_c46: harness for C46 (the notifier drops only the oldest alerts and preserves order).
// Part 1 (script.go): deterministic scripts on a real sendLoop, compared step by step with the
// Coq model.  Part 2 (conc.go): concurrent runs of the real Manager against fake Alertmanagers,
// checked with the proved predicates.
package main

import (
	"runtime"
	"sync/atomic"
	"time"

	"github.com/prometheus/prometheus/util/verifhook"

	"verif/harness/internal/gallina"
)

func main() {
	f := gallina.ParseFlags()
	meta := gallina.NewMeta("C46", f.Seed, f.Tier)
	meta.Rule = "scripts: fixed corpus + seeded random single-goroutine scripts on a real sendLoop (add / sendOneBatch by the loop actor / stop, nested while requests are in flight); non-trivial = at least one request was sent and the script overflowed the queue or performed steps while a request was in flight. concurrent: one case per (run, Alertmanager) of the real Manager with 1-3 senders, 1-3 fake Alertmanagers (failures, latency), target-set changes and Stop; non-trivial = the Alertmanager received more than one request"
	cf := &gallina.CaseFile{Dir: f.Out, Type: "case", PerShard: 120,
		Preamble: "From Coq Require Import List ZArith.\nFrom Verif Require Import model.SendLoop corr.CorrC46.\nImport ListNotations.\nOpen Scope Z_scope.\n",
		Footer:   gallina.StdFooter}
	id := 0
	for i := range fixedScripts {
		runScript(id, f.Seed, -1-i, &fixedScripts[i], cf, meta)
		id++
	}
	reproDrainOverlap(&id, f.Seed, cf, meta)
	nScripts := f.Count(300, 10000)
	for i := 0; i < nScripts; i++ {
		runScript(id, f.Seed, i, nil, cf, meta)
		id++
	}
	// concurrent part: widen the window between nextBatch() and the encoding of the batch
	var yield atomic.Uint64
	verifhook.SetHandler(func(site string, _ int) {
		switch yield.Add(1) % 4 {
		case 0:
			runtime.Gosched()
		case 1:
			time.Sleep(50 * time.Microsecond)
		}
	})
	nConc := f.Count(20, 300)
	for i := 0; i < nConc; i++ {
		runConc(&id, f.Seed, 1000000+i, nil, cf, meta)
	}
	cf.Flush()
	meta.Notes = append(meta.Notes, "the harness binary is built by the driver without -race; the schedule of part 2 is the Go runtime's")
	meta.Write(f.Out)
}

// h_c25: correspondence harness for C25 (head chunks on disk: readable at once and after restart).
//
// Drives the real chunks.ChunkDiskMapper of /repo/tsdb/chunks with the write queue ENABLED.
// The queue worker is gated at two verifhook pause points inside chunkWriteQueue.processJob
// ("c25.cwq.processJob.start": job popped, nothing written; "c25.cwq.processJob.written":
// writeChunk and the callback done, ref still in chunkRefMap), so the harness decides when each
// job is written and when it leaves the in-memory map, and places Chunk() reads, CutNewFile and
// Truncate before / between / after those phases.
//
//   - CTrace cases: directory at open, every step with what the implementation returned
//     (refs, Chunk results, callback errors + curFileSequence/curFileOffset, mapped files
//     around Truncate), directory bytes after Close.
//   - CRestart cases: a directory written by the real mapper is reopened by a new
//     ChunkDiskMapper and recovered like the head does (IterateAllChunks; on CorruptionErr
//     DeleteCorrupted + IterateAllChunks) — undamaged, and with the newest file truncated at
//     byte k (quick: boundaries +-2 and random k; thorough: every k).
package main

import (
	"bytes"
	"encoding/binary"
	"errors"
	"fmt"
	"os"
	"path/filepath"
	"runtime"
	"runtime/debug"
	"sort"
	"strconv"
	"strings"
	"sync/atomic"
	"time"

	"github.com/prometheus/prometheus/tsdb/chunkenc"
	"github.com/prometheus/prometheus/tsdb/chunks"
	"github.com/prometheus/prometheus/util/verifhook"

	"verif/harness/internal/gallina"
	"verif/harness/internal/gen"
)

const (
	siteStart   = "c25.cwq.processJob.start"
	siteWritten = "c25.cwq.processJob.written"
	// inside flushBuffer: just before chkWriter.Flush(), and between Flush() and chunkBuffer.clear()
	siteBeforeFlush = "c25.flushBuffer.beforeFlush"
	siteFlushed     = "c03.headchunks.flushBuffer.flushed"
	bufSize         = chunks.MinWriteBufferSize // 64 KiB, the smallest allowed
)

// ---------------------------------------------------------------- worker gate
var (
	gated   atomic.Bool
	arrived = make(chan string, 4)
	release = make(chan struct{})
)

func hook(site string, _ int) {
	if site != siteStart && site != siteWritten && site != siteBeforeFlush && site != siteFlushed {
		return
	}
	if !gated.Load() {
		return
	}
	arrived <- site
	<-release
}

func waitArrive(want string) {
	select {
	case s := <-arrived:
		if s != want {
			panic("h_c25: worker arrived at " + s + ", expected " + want)
		}
	case <-time.After(120 * time.Second):
		panic("h_c25: worker did not reach " + want)
	}
}

// ---------------------------------------------------------------- records
type rec struct {
	series     uint64
	mint, maxt int64
	enc        byte
	ooo        bool
	data       []byte
	expr       string // Gallina term of data
}

func lcg(seed uint64, n int) []byte {
	b := make([]byte, n)
	x := seed
	for i := range b {
		x = (x*1103515245 + 12345) % 2147483648
		b[i] = byte((x / 65536) % 256)
	}
	return b
}

func (r *rec) gallina() string {
	return fmt.Sprintf("(mkRec %s %s %s %d %s %s)", gallina.N(r.series), gallina.Z(r.mint), gallina.Z(r.maxt), r.enc, gallina.Bool(r.ooo), r.expr)
}

func uvarintLen(n int) int {
	var b [10]byte
	return binary.PutUvarint(b[:], uint64(n))
}

func (r *rec) size() int { return 25 + uvarintLen(len(r.data)) + len(r.data) + 4 }

func (r *rec) info() string {
	ns := 0
	if len(r.data) >= 2 {
		ns = int(binary.BigEndian.Uint16(r.data))
	}
	return fmt.Sprintf("(mkCI %s %s %s %d %d %s)", gallina.N(r.series), gallina.Z(r.mint), gallina.Z(r.maxt), ns, r.enc, gallina.Bool(r.ooo))
}

func genRec(r *gen.Rand, big int) *rec {
	x := &rec{series: uint64(r.Range(1, 50)), enc: byte(r.Range(1, 6)), ooo: r.Chance(1, 4)}
	switch r.Intn(8) {
	case 0:
		x.series = ^uint64(0)
	case 1:
		x.series = uint64(r.U64())
		if x.series == 0 {
			x.series = 1
		}
	}
	x.mint = r.Range(-1000, 100000)
	x.maxt = x.mint + r.Range(0, 5000)
	switch r.Intn(12) {
	case 0:
		x.mint, x.maxt = -1<<63, 1<<63-1
	case 1:
		x.mint, x.maxt = 0, 0
	case 2:
		x.mint, x.maxt = -1, -1
	}
	if big > 0 {
		seed := uint64(r.Range(1, 1<<30))
		x.data = lcg(seed, big)
		x.expr = fmt.Sprintf("(gen_data %d %d)", seed, big)
		return x
	}
	n := int(r.Range(4, 40))
	switch r.Intn(20) {
	case 0:
		n = int(r.Range(0, 3)) // shorter than any real chunk: record < MaxHeadChunkMetaSize
	case 1, 2:
		n = 4
	case 3, 4:
		n = int(r.Range(126, 131)) // uvarint of the length grows to two bytes at 128
	}
	x.data = make([]byte, n)
	for i := range x.data {
		x.data[i] = byte(r.U64())
	}
	if r.Chance(1, 6) { // zero-heavy data: all-zero tails look like the end-of-data marker
		for i := range x.data {
			if r.Chance(3, 4) {
				x.data[i] = 0
			}
		}
	}
	x.expr = pkG(x.data)
	return x
}

// ---------------------------------------------------------------- directory helpers
type fileB struct {
	seq int
	b   []byte
}

func readDir(dir string) []fileB {
	es, err := os.ReadDir(dir)
	if err != nil {
		panic(err)
	}
	var out []fileB
	for _, e := range es {
		n, err := strconv.ParseUint(e.Name(), 10, 64)
		if err != nil {
			continue
		}
		b, err := os.ReadFile(filepath.Join(dir, e.Name()))
		if err != nil {
			panic(err)
		}
		out = append(out, fileB{int(n), b})
	}
	sort.Slice(out, func(i, j int) bool { return out[i].seq < out[j].seq })
	return out
}

// pkG prints a byte string as (pk len [words]) : seven bytes per primitive integer.
func pkG(b []byte) string {
	if len(b) == 0 {
		return "([] : list N)"
	}
	var ws []string
	for i := 0; i < len(b); i += 7 {
		var x uint64
		for j := 0; j < 7; j++ {
			x <<= 8
			if i+j < len(b) {
				x |= uint64(b[i+j])
			}
		}
		ws = append(ws, strconv.FormatUint(x, 10))
	}
	var sb strings.Builder
	for _, w := range ws {
		sb.WriteString("(wc " + w + " ")
	}
	sb.WriteString("wn" + strings.Repeat(")", len(ws)))
	return fmt.Sprintf("(pk %d%%nat %s%%uint63)", len(b), sb.String())
}

func filesG(fs []fileB) string {
	it := make([]string, len(fs))
	for i, f := range fs {
		it[i] = fmt.Sprintf("(fl %d %s)", f.seq, pkG(f.b))
	}
	if len(it) == 0 {
		return "([] : list (N * list N))"
	}
	return gallina.List(it)
}

// filesGBig prints directory bytes with the data of long chunks replaced by the generator
// expression they were made from (only where the bytes on disk are equal to that data).
func filesGBig(fs []fileB, ws []*written) string {
	it := make([]string, len(fs))
	for i, f := range fs {
		type span struct {
			a, b int
			expr string
		}
		var sp []span
		for _, w := range ws {
			seq, off := w.ref.Unpack()
			if seq != f.seq || len(w.r.data) <= 200 {
				continue
			}
			a := off + 25 + uvarintLen(len(w.r.data))
			b := a + len(w.r.data)
			if b <= len(f.b) && bytes.Equal(f.b[a:b], w.r.data) {
				sp = append(sp, span{a, b, w.r.expr})
			}
		}
		sort.Slice(sp, func(i, j int) bool { return sp[i].a < sp[j].a })
		var parts []string
		pos := 0
		for _, x := range sp {
			if x.a < pos {
				continue
			}
			parts = append(parts, pkG(f.b[pos:x.a]), x.expr)
			pos = x.b
		}
		parts = append(parts, pkG(f.b[pos:]))
		it[i] = fmt.Sprintf("(fl %d (%s))", f.seq, strings.Join(parts, " ++ "))
	}
	if len(it) == 0 {
		return "([] : list (N * list N))"
	}
	return gallina.List(it)
}

func seqsG(l []int) string {
	sort.Ints(l)
	it := make([]string, len(l))
	for i, v := range l {
		it[i] = strconv.Itoa(v)
	}
	if len(it) == 0 {
		return "([] : list N)"
	}
	return "([" + strings.Join(it, "; ") + "]%N : list N)"
}

func copyDir(src, dst string) {
	if err := os.MkdirAll(dst, 0o777); err != nil {
		panic(err)
	}
	for _, f := range readDir(src) {
		if err := os.WriteFile(filepath.Join(dst, fmt.Sprintf("%06d", f.seq)), f.b, 0o666); err != nil {
			panic(err)
		}
	}
}

// ---------------------------------------------------------------- Chunk() result
func readG(m *chunks.ChunkDiskMapper, ref chunks.ChunkDiskMapperRef, big map[chunks.ChunkDiskMapperRef]*rec) (g, short string) {
	defer func() {
		if p := recover(); p != nil {
			g, short = "RdPanic", "panic"
		}
	}()
	c, err := m.Chunk(ref)
	if err != nil {
		k := 0
		s := err.Error()
		switch {
		case strings.Contains(s, "chunk size data field"):
			k = 1
		case strings.Contains(s, "reading chunk length failed"):
			k = 2
		case strings.Contains(s, "enough bytes to read the chunk - required"):
			k = 3
		case strings.Contains(s, "checksum mismatch"):
			k = 4
		case strings.Contains(s, "invalid chunk encoding"):
			k = 5
		case strings.Contains(s, "more than current open file"):
			k = 6
		case strings.Contains(s, "does not exist on disk"):
			k = 7
		}
		var ce *chunks.CorruptionErr
		if !errors.As(err, &ce) {
			k = 99
		}
		return fmt.Sprintf("(RdErr %d)", k), fmt.Sprintf("err%d", k)
	}
	d := c.Bytes()
	if b, ok := big[ref]; ok && bytes.Equal(d, b.data) {
		return fmt.Sprintf("(RdOk %d %s)", c.Encoding(), b.expr), "ok"
	}
	return fmt.Sprintf("(RdOk %d %s)", c.Encoding(), pkG(d)), "ok"
}

func refA(ref chunks.ChunkDiskMapperRef) string {
	s, o := ref.Unpack()
	return fmt.Sprintf("%d %d", s, o)
}

func refG(ref chunks.ChunkDiskMapperRef) string {
	s, o := ref.Unpack()
	return fmt.Sprintf("(rf %d %d)", s, o)
}

// ---------------------------------------------------------------- recovery observation
func iterate(m *chunks.ChunkDiskMapper) (cis []string, status string, cerr error) {
	defer func() {
		if p := recover(); p != nil {
			status, cerr = "IPanic", fmt.Errorf("panic: %v", p)
		}
	}()
	err := m.IterateAllChunks(func(sr chunks.HeadSeriesRef, ref chunks.ChunkDiskMapperRef, mint, maxt int64, ns uint16, enc chunkenc.Encoding, ooo bool) error {
		cis = append(cis, fmt.Sprintf("(rc %s (mkCI %s %s %s %d %d %s))", refA(ref), gallina.N(uint64(sr)), gallina.Z(mint), gallina.Z(maxt), ns, enc, gallina.Bool(ooo)))
		return nil
	})
	if err == nil {
		return cis, "IOk", nil
	}
	var ce *chunks.CorruptionErr
	if errors.As(err, &ce) {
		return cis, fmt.Sprintf("(ICorrupt %d 0)", ce.FileIndex), err
	}
	return cis, "IPanic", err
}

func cisG(l []string) string {
	if len(l) == 0 {
		return "([] : list (ref * cinfo))"
	}
	return gallina.List(l)
}

// recoverDir opens dir with a new mapper and does what Head.Init does with it. Returns the
// Gallina observation and the mapper (nil when it could not be opened).
func recoverDir(dir string, qsize int) (obs string, m *chunks.ChunkDiskMapper, short string) {
	o, m, short := recoverDirS(dir, qsize)
	if m == nil {
		return "None", nil, short
	}
	return fmt.Sprintf("(Some (ob %s %s %s %s))", cisG(o.cis), o.st, seqsG(o.files), cisG(o.fin)), m, short
}

type recObs struct {
	cis, fin []string
	st       string
	files    []int
}

func recoverDirS(dir string, qsize int) (o recObs, m *chunks.ChunkDiskMapper, short string) {
	m, err := chunks.NewChunkDiskMapper(nil, dir, chunkenc.NewPool(), bufSize, qsize)
	if err != nil {
		return o, nil, "open-error"
	}
	cis, st, cerr := iterate(m)
	fin := cis
	short = "ok"
	if cerr != nil {
		short = "corrupt"
		fin = nil
		if derr := m.DeleteCorrupted(cerr); derr != nil {
			_ = m.Truncate(1<<32 - 1)
			short = "delete-failed"
		} else {
			c2, _, e2 := iterate(m)
			if e2 != nil {
				_ = m.Truncate(1<<32 - 1)
				short = "corrupt-twice"
			} else {
				fin = c2
			}
		}
	}
	return recObs{cis: cis, fin: fin, st: st, files: m.VerifMappedFiles()}, m, short
}

// clistG prints an observed chunk list as "the first m of base" when it is equal to that.
func clistG(l, base []string) string {
	if len(l) <= len(base) {
		same := true
		for i := range l {
			if l[i] != base[i] {
				same = false
				break
			}
		}
		if same {
			return fmt.Sprintf("CPre %d%%nat", len(l))
		}
	}
	return "CFull " + cisG(l)
}

// ---------------------------------------------------------------- scenario driver
type written struct {
	ref  chunks.ChunkDiskMapperRef
	r    *rec
	ok   bool // callback got nil
	done bool // callback ran
	dead bool // its file was removed by Truncate
}

type desc struct {
	Kind   string   `json:"kind"`
	Seed   uint64   `json:"seed"`
	Index  int      `json:"index"`
	Ops    []string `json:"ops,omitempty"`
	Cut    int      `json:"cut,omitempty"`
	Obs    string   `json:"obs,omitempty"`
	Shape  string   `json:"shape"`
	Corpus string   `json:"corpus,omitempty"`
}

// caseWriter writes cases_NNN.v with one Definition per case (a single big list term elaborates
// superlinearly) and the standard footer.
type caseWriter struct {
	dir, preamble string
	perShard      int
	items         []string
	shard         int
}

func (c *caseWriter) Add(term string) {
	c.items = append(c.items, term)
	if len(c.items) >= c.perShard {
		c.Flush()
	}
}

func (c *caseWriter) Flush() {
	if len(c.items) == 0 && c.shard > 0 {
		return
	}
	var sb strings.Builder
	sb.WriteString(c.preamble)
	names := make([]string, len(c.items))
	for i, it := range c.items {
		names[i] = fmt.Sprintf("c%d", i)
		sb.WriteString(fmt.Sprintf("Definition c%d : case := %s.\n", i, it))
	}
	sb.WriteString("Definition cases : list case := " + gallina.List(names) + ".\n")
	sb.WriteString(gallina.StdFooter + "\n")
	if err := os.WriteFile(filepath.Join(c.dir, fmt.Sprintf("cases_%03d.v", c.shard)), []byte(sb.String()), 0o644); err != nil {
		panic(err)
	}
	c.shard++
	c.items = nil
}

type env struct {
	aftermath bool // the directory went through a failed cut (finding): later cases carry its shape
	f         gallina.Flags
	meta      *gallina.Meta
	cf        *caseWriter
	id        int
	seen      map[string]bool
	every     bool // torn: every offset
}

type session struct {
	e      *env
	dir    string
	m      *chunks.ChunkDiskMapper
	qmax   int
	initG  string
	steps  []string
	ops    []string
	queued []*written // pushed, not popped
	cur    *written   // job at the worker
	wk     int        // 0 idle, 1 at start, 2 at written
	all    []*written // this session's writes
	disk   []*written // completed writes of earlier sessions still on disk (write order)
	big    map[chunks.ChunkDiskMapperRef]*rec
	cbErr  bool
	failed bool
	hasBig bool
}

func (s *session) step(st, out, op string) {
	s.steps = append(s.steps, "(so ("+st+") ("+out+"))")
	s.ops = append(s.ops, op)
}

func (s *session) open(dir string, qmax int, m *chunks.ChunkDiskMapper) {
	s.dir, s.qmax = dir, qmax
	s.initG = filesG(readDir(dir))
	if m == nil {
		var err error
		m, err = chunks.NewChunkDiskMapper(nil, dir, chunkenc.NewPool(), bufSize, qmax)
		if err != nil {
			panic(err)
		}
	}
	s.m = m
	s.big = map[chunks.ChunkDiskMapperRef]*rec{}
	gated.Store(true)
}

func (s *session) write(r *rec) {
	if len(s.queued) >= s.qmax {
		return // WriteChunk would block
	}
	chk, err := chunkenc.FromData(chunkenc.Encoding(r.enc), r.data)
	if err != nil {
		panic(err)
	}
	w := &written{r: r}
	w.ref = s.m.WriteChunk(chunks.HeadSeriesRef(r.series), r.mint, r.maxt, chk, r.ooo, func(err error) {
		w.done = true
		w.ok = err == nil
	})
	s.all = append(s.all, w)
	s.queued = append(s.queued, w)
	if len(r.data) > 200 {
		s.big[w.ref] = r
		s.hasBig = true
	}
	s.step("SWrite "+r.gallina(), "ORef "+refG(w.ref), fmt.Sprintf("W%d", len(r.data)))
	s.e.meta.Hit("op-write")
	s.maybePop()
}

func (s *session) maybePop() {
	if s.wk == 0 && len(s.queued) > 0 {
		waitArrive(siteStart)
		s.cur, s.queued = s.queued[0], s.queued[1:]
		s.wk = 1
		s.step("SPop", "ONone", "pop")
	}
}

func (s *session) proc() {
	if s.wk != 1 {
		return
	}
	release <- struct{}{}
	// the worker stops at both pause points of every flushBuffer on its way (cut's finalizeCurFile,
	// buffer full, chunk >= buffer); at each of them every ref handed out so far is read back
	for at := ""; at != siteWritten; {
		select {
		case at = <-arrived:
		case <-time.After(120 * time.Second):
			panic("h_c25: worker did not reach " + siteWritten)
		}
		switch at {
		case siteBeforeFlush:
			s.step("SSite false", "ONone", "site-before-flush")
			s.e.meta.Hit("site-before-flush")
			s.readAll("before-flush")
			release <- struct{}{}
		case siteFlushed:
			s.step("SSite true", "ONone", "site-flushed")
			s.e.meta.Hit("site-flushed")
			s.readAll("between-flush-and-clear")
			release <- struct{}{}
		case siteWritten:
		default:
			panic("h_c25: worker arrived at " + at)
		}
	}
	s.wk = 2
	seq, off := s.m.VerifCurFile()
	if !s.cur.done {
		panic("h_c25: callback not called")
	}
	if !s.cur.ok {
		s.cbErr = true
		s.e.meta.Hit("callback-error")
	}
	s.step("SProc", fmt.Sprintf("OProc %s %d %d 0", gallina.Bool(s.cur.ok), seq, off), "proc")
	s.e.meta.Hit("op-proc")
}

// readAll reads back every chunk ref handed out so far (this session's, and those found on disk
// at open), whatever its state: queued, at the worker, written, flushed.
func (s *session) readAll(when string) {
	for _, w := range append(append([]*written{}, s.disk...), s.all...) {
		if w.dead {
			continue
		}
		s.read(w, when)
	}
}

func (s *session) read(w *written, when string) {
	g, short := readG(s.m, w.ref, s.big)
	s.step("SRead "+refG(w.ref), "ORead "+g, "R"+when+":"+short)
	s.e.meta.Hit("read-" + when + "-" + short)
}

func (s *session) where(w *written) string {
	for _, q := range s.queued {
		if q == w {
			return "queued"
		}
	}
	if s.cur == w && s.wk == 1 {
		return "popped"
	}
	if s.cur == w && s.wk == 2 {
		return "written-in-map"
	}
	return "after"
}

func (s *session) cut() {
	s.m.CutNewFile()
	s.step("SCut", "ONone", "cut")
	s.e.meta.Hit("op-cut")
}

func (s *session) trunc(n uint32) {
	before := s.m.VerifMappedFiles()
	if err := s.m.Truncate(n); err != nil {
		panic(err)
	}
	after := s.m.VerifMappedFiles()
	s.step(fmt.Sprintf("STrunc %d", n), fmt.Sprintf("OTrunc %s %s", seqsG(before), seqsG(after)), fmt.Sprintf("T%d", n))
	s.e.meta.Hit("op-trunc")
	if len(after) < len(before) {
		s.e.meta.Hit("trunc-removed-files")
		still := map[int]bool{}
		for _, q := range after {
			still[q] = true
		}
		gone := map[int]bool{}
		for _, q := range before {
			gone[q] = !still[q]
		}
		for _, w := range append(append([]*written{}, s.disk...), s.all...) {
			if seq, _ := w.ref.Unpack(); gone[seq] {
				w.dead = true
			}
		}
	}
	if len(after) == 0 && len(before) > 0 {
		s.e.meta.Hit("trunc-removed-all")
	}
}

// doneStep lets the worker delete the job from chunkRefMap (and pop the next job, if any).
func (s *session) doneStep() {
	if s.wk != 2 {
		return
	}
	release <- struct{}{}
	s.wk = 0
	s.cur = nil
	s.step("SDone", "ONone", "done")
	s.e.meta.Hit("op-done")
	s.maybePop()
	want := len(s.queued) // refs that may still be in chunkRefMap: queued jobs + the one at the worker
	if s.wk == 1 {
		want++
	}
	for i := 0; s.m.VerifQueueSize() > want; i++ {
		if i > 4000000 {
			panic("h_c25: job never left chunkRefMap")
		}
		runtime.Gosched()
		if i > 1000 {
			time.Sleep(20 * time.Microsecond)
		}
	}
}

// drain + Close; emits the CTrace case; returns the writes now on disk.
func (s *session) close(kind, corpus string, seed uint64, index int) {
	for s.wk != 0 {
		s.proc()
		s.doneStep()
	}
	gated.Store(false)
	if err := s.m.Close(); err != nil {
		panic(err)
	}
	final := readDir(s.dir)
	shape := "trace"
	if s.cbErr {
		shape = "cut-seq-mismatch-after-truncate-all"
		s.e.aftermath = true
	}
	finalG := filesG(final)
	if s.hasBig {
		finalG = filesGBig(final, s.all)
	}
	e := s.e
	e.cf.Add(fmt.Sprintf("CTrace %d %d %d%%nat %s\n %s\n %s", e.id, bufSize, s.qmax, s.initG, gallina.List(s.steps), finalG))
	e.meta.Case(e.id, desc{Kind: kind, Seed: seed, Index: index, Ops: s.ops, Shape: shape, Corpus: corpus})
	e.meta.Evaluations++
	key := strings.Join(s.ops, " ")
	if !e.seen[key] && len(s.all) > 0 {
		e.seen[key] = true
		e.meta.Nontrivial++
	}
	e.id++
	// what is on disk now, in write order
	onDisk := map[int]bool{}
	for _, f := range final {
		onDisk[f.seq] = true
	}
	var keep []*written
	for _, w := range append(append([]*written{}, s.disk...), s.all...) {
		seq, _ := w.ref.Unpack()
		if w.ok && !w.dead && onDisk[seq] {
			keep = append(keep, w)
		}
	}
	// refs of deleted-and-reused file numbers: keep only the latest write per ref
	last := map[chunks.ChunkDiskMapperRef]int{}
	for i, w := range keep {
		last[w.ref] = i
	}
	s.disk = nil
	for i, w := range keep {
		if last[w.ref] == i {
			s.disk = append(s.disk, w)
		}
	}
}

func expectG(ws []*written) string {
	it := make([]string, len(ws))
	for i, w := range ws {
		_, off := w.ref.Unpack()
		it[i] = fmt.Sprintf("(ex %s %s %d)", refA(w.ref), w.r.info(), off+w.r.size())
	}
	if len(it) == 0 {
		return "([] : list (ref * cinfo * N))"
	}
	return gallina.List(it)
}

// restartCase: reopen `dir` (a scratch copy when cut >= 0, truncated), emit a CRestart case.
func (e *env) restartCase(dir string, disk []*written, cut int, qsize int, keepOpen bool, seed uint64, index int) *chunks.ChunkDiskMapper {
	fs := readDir(dir)
	newest := 0
	if len(fs) > 0 {
		newest = fs[len(fs)-1].seq
	}
	work := dir
	cutG := "None"
	if cut >= 0 {
		work, _ = os.MkdirTemp(e.f.Out, "torn")
		defer os.RemoveAll(work)
		copyDir(dir, work)
		if err := os.Truncate(filepath.Join(work, fmt.Sprintf("%06d", newest)), int64(cut)); err != nil {
			panic(err)
		}
		cutG = fmt.Sprintf("(Some %d)", cut)
	}
	dirG := filesG(readDir(work))
	obs, m, short := recoverDir(work, qsize)
	kind := "restart"
	if cut >= 0 {
		kind = "torn"
	}
	e.cf.Add(fmt.Sprintf("CRestart %d %s\n %s %d %s\n %s", e.id, dirG, expectG(disk), newest, cutG, obs))
	shape := kind + "-" + short
	if e.aftermath {
		shape = "cut-seq-mismatch-after-truncate-all"
	}
	e.meta.Case(e.id, desc{Kind: kind, Seed: seed, Index: index, Cut: cut, Obs: short, Shape: shape})
	e.meta.Hit(kind + "-" + short)
	e.meta.Evaluations++
	if cut >= 0 || len(disk) > 0 {
		e.meta.Nontrivial++
	}
	e.id++
	if m != nil && !keepOpen {
		if err := m.Close(); err != nil {
			panic(err)
		}
		m = nil
	}
	return m
}

// torn: truncate the newest file of dir at the chosen offsets.
func (e *env) torn(dir string, disk []*written, r *gen.Rand, seed uint64, index int) {
	fs := readDir(dir)
	if len(fs) == 0 {
		return
	}
	nf := fs[len(fs)-1]
	ks := map[int]bool{}
	if e.every {
		for k := 0; k < len(nf.b); k++ {
			ks[k] = true
		}
	} else {
		add := func(k int) {
			for d := -2; d <= 2; d++ {
				if k+d >= 0 && k+d < len(nf.b) {
					ks[k+d] = true
				}
			}
		}
		add(0)
		add(4)
		add(8)
		for _, w := range disk {
			seq, off := w.ref.Unpack()
			if seq == nf.seq {
				if r.Chance(1, 2) {
					add(off)
				}
				if r.Chance(1, 3) {
					add(off + 24)
				}
				if r.Chance(1, 3) {
					add(off + 34)
				}
				if r.Chance(1, 2) {
					add(off + w.r.size())
				}
				ks[off+int(r.Range(0, int64(w.r.size())))] = true
			}
		}
		// keep the quick tier small
		if len(ks) > 20 {
			var l []int
			for k := range ks {
				l = append(l, k)
			}
			sort.Ints(l)
			ks = map[int]bool{}
			for len(ks) < 20 {
				ks[l[r.Intn(len(l))]] = true
			}
		}
	}
	var l []int
	for k := range ks {
		l = append(l, k)
	}
	sort.Ints(l)
	var cuts, shorts []string
	var base []string
	{
		work, _ := os.MkdirTemp(e.f.Out, "torn")
		copyDir(dir, work)
		o, m, _ := recoverDirS(work, 0)
		if m != nil {
			base = o.cis
			_ = m.Close()
		}
		os.RemoveAll(work)
	}
	for _, k := range l {
		work, _ := os.MkdirTemp(e.f.Out, "torn")
		copyDir(dir, work)
		if err := os.Truncate(filepath.Join(work, fmt.Sprintf("%06d", nf.seq)), int64(k)); err != nil {
			panic(err)
		}
		o, m, short := recoverDirS(work, 0)
		obs := "None"
		if m != nil {
			obs = fmt.Sprintf("(Some (tb (%s) %s %s (%s)))", clistG(o.cis, base), o.st, seqsG(o.files), clistG(o.fin, base))
			if err := m.Close(); err != nil {
				panic(err)
			}
		}
		os.RemoveAll(work)
		cuts = append(cuts, fmt.Sprintf("(ct %d %s)", k, obs))
		shorts = append(shorts, fmt.Sprintf("%d:%s", k, short))
		e.meta.Hit("torn-" + short)
		e.meta.Evaluations++
		e.meta.Nontrivial++
	}
	shape := "torn"
	if e.aftermath {
		shape = "cut-seq-mismatch-after-truncate-all"
	}
	e.cf.Add(fmt.Sprintf("CTorn %d %s\n %s %d\n %s\n %s", e.id, filesG(fs), expectG(disk), nf.seq, cisG(base), gallina.List(cuts)))
	e.meta.Case(e.id, desc{Kind: "torn", Seed: seed, Index: index, Ops: shorts, Shape: shape})
	e.id++
}

// ---------------------------------------------------------------- scenarios
func (e *env) randomScenario(seed uint64, index int, bigMode int) {
	e.aftermath = false
	r := gen.Fork(seed, index)
	dir, err := os.MkdirTemp(e.f.Out, "cdm")
	if err != nil {
		panic(err)
	}
	defer os.RemoveAll(dir)
	chunks.HeadChunkFilePreallocationSize = r.PickI64(0, 0, 40, 100, 300)
	if bigMode > 0 {
		chunks.HeadChunkFilePreallocationSize = 0
	}
	qmax := int(r.PickI64(1, 2, 3, 8))
	nseg := 1 + r.Intn(3)
	if bigMode > 0 {
		nseg = 1
	}
	var disk []*written
	var m *chunks.ChunkDiskMapper
	for seg := 0; seg < nseg; seg++ {
		s := &session{e: e, disk: disk}
		s.open(dir, qmax, m)
		nops := int(r.Range(4, 22))
		if bigMode > 0 {
			nops = int(r.Range(8, 14))
		}
		for i := 0; i < nops; i++ {
			x := r.Intn(100)
			switch {
			case x < 34:
				big := 0
				if bigMode == 1 {
					big = int(r.Range(9000, 30000)) // a few of these fill the 64 KiB writer: flush before write
				} else if bigMode == 2 && r.Chance(1, 3) {
					big = bufSize - 34 + int(r.Range(-2, 40)) // around "chunk >= buffer": flush after write
				} else if bigMode == 2 {
					big = int(r.Range(300, 20000))
				}
				n := len(s.all)
				s.write(genRec(r, big))
				if len(s.all) > n && r.Chance(3, 4) {
					w := s.all[len(s.all)-1]
					s.read(w, s.where(w))
				}
			case x < 52:
				c := s.cur
				s.proc()
				if c != nil && r.Chance(3, 4) {
					s.read(c, s.where(c))
				}
			case x < 68:
				c := s.cur
				s.doneStep()
				if c != nil && r.Chance(3, 4) {
					s.read(c, s.where(c))
				}
			case x < 86:
				pool := append(append([]*written{}, s.disk...), s.all...)
				if len(pool) > 0 {
					w := pool[r.Intn(len(pool))]
					s.read(w, s.where(w))
				}
			case x < 92:
				s.cut()
			default:
				cs, _ := s.m.VerifCurFile()
				hi := int64(cs)
				for _, q := range s.m.VerifMappedFiles() {
					if int64(q) > hi {
						hi = int64(q)
					}
				}
				n := r.PickI64(0, 1, hi, hi+1, hi+2, int64(cs), 1<<32-1, r.Range(0, hi+1))
				s.trunc(uint32(n))
			}
		}
		kind := "random"
		if bigMode > 0 {
			kind = fmt.Sprintf("random-big%d", bigMode)
		}
		s.close(kind, "", seed, index)
		disk = s.disk
		m = nil
		if bigMode > 0 {
			return
		}
		m = e.restartCase(dir, disk, -1, qmax, seg+1 < nseg, seed, index)
		if seg == nseg-1 || r.Chance(1, 2) {
			e.torn(dir, disk, r, seed, index)
		}
	}
	if m != nil {
		_ = m.Close()
	}
}

// corpus: the reproducer of the cut/Truncate finding and fixed schedules.
func (e *env) corpus() {
	mk := func(series uint64, data ...byte) *rec {
		return &rec{series: series, mint: 10, maxt: 20, enc: 1, data: data, expr: pkG(data)}
	}
	// 1. restart on {1,2}; WriteChunk queues a cut to file 3; Truncate removes 1 and 2 before the
	//    worker runs; the worker cuts file 1 (directory is empty) and cutAndExpectRef fails.
	for _, variant := range []int{0, 1, 2} {
		e.aftermath = false
		dir, _ := os.MkdirTemp(e.f.Out, "cdm")
		chunks.HeadChunkFilePreallocationSize = 0
		s := &session{e: e}
		s.open(dir, 4, nil)
		s.write(mk(1, 0, 2, 9, 9, 9))
		s.proc()
		s.doneStep()
		s.cut()
		s.write(mk(2, 0, 1, 7, 7))
		s.close("corpus", "setup-two-files", 0, variant)
		m := e.restartCase(dir, s.disk, -1, 4, true, 0, variant)
		s2 := &session{e: e, disk: s.disk}
		s2.open(dir, 4, m)
		s2.write(mk(3, 0, 3, 1, 2, 3, 4))
		w := s2.all[0]
		s2.read(w, "popped")
		switch variant {
		case 0:
			s2.trunc(3) // what Head.truncate passes: the smallest file still referenced
		case 1:
			s2.trunc(1<<32 - 1)
		case 2:
			s2.trunc(2) // file 2 stays: no mismatch
		}
		s2.read(w, "popped")
		s2.proc()
		s2.read(w, "written-in-map")
		s2.doneStep()
		s2.read(w, "after")
		s2.write(mk(4, 0, 1, 5, 5))
		s2.read(s2.all[1], "popped")
		s2.close("corpus", fmt.Sprintf("restart-write-truncate%d-process", variant), 0, variant)
		e.restartCase(dir, s2.disk, -1, 0, false, 0, variant)
		os.RemoveAll(dir)
	}
	// 2. upstream's TestChunkDiskMapper_Truncate_WriteQueueRaceCondition schedule on a fresh dir
	{
		e.aftermath = false
		dir, _ := os.MkdirTemp(e.f.Out, "cdm")
		chunks.HeadChunkFilePreallocationSize = 100
		s := &session{e: e}
		s.open(dir, 4, nil)
		s.write(mk(1, 0, 2, 9, 9))
		s.trunc(1)
		s.cut()
		s.write(mk(1, 0, 2, 8, 8))
		s.read(s.all[0], "popped")
		s.read(s.all[1], "queued")
		s.close("corpus", "fresh-write-truncate-cut-write", 0, 10)
		e.restartCase(dir, s.disk, -1, 0, false, 0, 10)
		e.torn(dir, s.disk, gen.Fork(0, 10), 0, 10)
		os.RemoveAll(dir)
	}
	// 3. every kind of flush with acknowledged chunks that live only in chunkBuffer + writer:
	//    cut after CutNewFile (finalizeCurFile), cut after Truncate, chunk >= buffer (flush after
	//    write), buffer full (flush before write); all refs are read at both pause points of each.
	for variant, pre := range []int64{0, 100} {
		e.aftermath = false
		dir, _ := os.MkdirTemp(e.f.Out, "cdm")
		chunks.HeadChunkFilePreallocationSize = pre
		s := &session{e: e}
		s.open(dir, 4, nil)
		bigRec := func(series uint64, n int) *rec {
			seed := uint64(1000 + n)
			return &rec{series: series, mint: 1, maxt: 2, enc: 1, data: lcg(seed, n), expr: fmt.Sprintf("(gen_data %d %d)", seed, n)}
		}
		s.write(mk(1, 0, 2, 9, 9, 9))
		s.proc()
		s.doneStep()
		s.write(mk(2, 0, 1, 7, 7))
		s.proc()
		s.doneStep()
		s.cut()
		s.write(mk(3, 0, 3, 1, 2, 3, 4)) // cut: finalizeCurFile flushes file 1 while chunks 1, 2 are only buffered
		s.proc()
		s.doneStep()
		s.trunc(1) // nothing to remove, but requests a cut
		s.write(mk(4, 0, 1, 5, 5))
		s.write(mk(5, 0, 1, 6, 6))
		s.proc()
		s.doneStep()
		s.proc()
		s.doneStep()
		s.write(bigRec(6, bufSize-34)) // chunk >= buffer: flush after the write
		s.proc()
		s.doneStep()
		for i := 0; i < 4; i++ { // 4 x 20 KiB: the third or fourth finds the writer full: flush before the write
			s.write(bigRec(uint64(7+i), 20000+i))
			s.proc()
			s.doneStep()
		}
		s.close("corpus", fmt.Sprintf("flush-window-prealloc%d", pre), 0, 20+variant)
		os.RemoveAll(dir)
	}
}

// ---------------------------------------------------------------- chunkPos (ref allocation)
// posCase drives the real chunkPos.getNextChunkRef from a chosen position.
func (e *env) posCase(seq, off uint64, cutf bool, steps []chunks.VerifPosStep, corpus string, seed uint64, index int) {
	refs, cuts, es, eo, ec := chunks.VerifChunkPosRun(seq, off, cutf, steps)
	st := make([]string, len(steps))
	ob := make([]string, len(steps))
	crossed := false
	for i, x := range steps {
		st[i] = fmt.Sprintf("(ps %s %d)", gallina.Bool(x.CutRequest), x.DataLen)
		q, o := refs[i].Unpack()
		ob[i] = fmt.Sprintf("(po %s %d %d)", gallina.Bool(cuts[i]), q, o)
		if o+(&rec{data: make([]byte, x.DataLen)}).size() > chunks.MaxHeadChunkFileSize {
			crossed = true
		}
		if cuts[i] {
			e.meta.Hit("pos-cut")
		} else {
			e.meta.Hit("pos-nocut")
		}
	}
	stG, obG := "([] : list (bool * N))", "([] : list (bool * ref))"
	if len(st) > 0 {
		stG, obG = gallina.List(st), gallina.List(ob)
	}
	e.cf.Add(fmt.Sprintf("CPos %d %d %d %s %s %s (pf %d %d %s)", e.id, seq, off, gallina.Bool(cutf), stG, obG, es, eo, gallina.Bool(ec)))
	shape := "pos"
	if crossed {
		shape = "pos-chunk-beyond-file-limit"
	}
	e.meta.Case(e.id, desc{Kind: "pos", Seed: seed, Index: index, Ops: append(st, ob...), Shape: shape, Corpus: corpus})
	e.meta.Evaluations++
	key := fmt.Sprint("pos", seq, off, cutf, steps)
	if !e.seen[key] {
		e.seen[key] = true
		e.meta.Nontrivial++
	}
	e.id++
}

// posCases: the file-size boundary (offset+data <= Max < offset+total, exact fit, one over),
// the first file (offset 0), pending cut requests, and seeded runs of several chunks.
func (e *env) posCases(seed uint64, n int) {
	const max = chunks.MaxHeadChunkFileSize
	one := func(dl int) []chunks.VerifPosStep { return []chunks.VerifPosStep{{DataLen: dl}} }
	total := func(dl int) int { return (&rec{data: make([]byte, dl)}).size() }
	for _, dl := range []int{0, 1, 4, 30, 127, 128, 200} {
		t := total(dl)
		for _, d := range []int{-2, -1, 0, 1, 2} {
			e.posCase(3, uint64(max-t+d), false, one(dl), "exact-fit", 0, dl)  // total size ends at Max+d
			e.posCase(3, uint64(max-dl+d), false, one(dl), "data-fits", 0, dl) // only the data ends at Max+d
		}
		e.posCase(3, uint64(max-dl-10), false, one(dl), "data-fits-total-does-not", 0, dl)
		e.posCase(0, 0, false, one(dl), "first-file", 0, dl)
		e.posCase(7, 8, true, one(dl), "cut-pending", 0, dl)
	}
	for i := 0; i < n; i++ {
		r := gen.Fork(seed, 500000+i)
		k := 1 + r.Intn(6)
		steps := make([]chunks.VerifPosStep, k)
		for j := range steps {
			steps[j] = chunks.VerifPosStep{CutRequest: r.Chance(1, 8), DataLen: int(r.PickI64(0, 1, 4, 20, 30, 60, 126, 127, 128, 129, 300, r.Range(0, 400)))}
		}
		off := uint64(max - int(r.Range(0, 900)))
		switch r.Intn(8) {
		case 0:
			off = 0
		case 1:
			off = uint64(r.Range(8, 5000))
		}
		e.posCase(uint64(r.Range(0, 40)), off, r.Chance(1, 10), steps, "", seed, 500000+i)
	}
}

func main() {
	f := gallina.ParseFlags()
	// a read through a mapping beyond the end of its file must be a recoverable panic (-> RdPanic /
	// IPanic observations), not a fatal SIGBUS
	debug.SetPanicOnFault(true)
	verifhook.SetHandler(hook)
	meta := gallina.NewMeta("C25", f.Seed, f.Tier)
	meta.Rule = "chunkPos: real getNextChunkRef from positions around MaxHeadChunkFileSize (exact fit, data-only fit, +-2), offset 0, pending cut, seeded runs of 1-6 chunks; mapper: corpus (reproducer schedules) + seeded random sessions of WriteChunk/Chunk/CutNewFile/Truncate with the queue worker stepped by the harness (pop / write+callback / leave map), 1-3 sessions per directory separated by Close + reopen + head-style recovery, a few sessions with 9-64 KiB chunks (writer flushes), and the newest file truncated at chosen offsets (quick: 0,4,8, record starts/ends and +24/+34, each +-2, plus random; thorough: every offset). evaluations = emitted cases; distinct_nontrivial = trace cases with a distinct op/outcome sequence that wrote at least one chunk + restart cases with at least one chunk on disk or a truncated file"
	cf := &caseWriter{dir: f.Out, perShard: 100,
		preamble: "From Coq Require Import List NArith ZArith Uint63.\nFrom Verif Require Import lib.Int64 lib.Bytes model.HeadChunks corr.CorrC25.\nImport ListNotations.\nOpen Scope N_scope.\n"}
	e := &env{f: f, meta: meta, cf: cf, seen: map[string]bool{}, every: f.Tier == "thorough"}
	e.corpus()
	n := f.Count(30, 160)
	for i := 0; i < n; i++ {
		e.randomScenario(f.Seed, i, 0)
	}
	nb := f.Count(3, 12)
	for i := 0; i < nb; i++ {
		e.every = false
		e.randomScenario(f.Seed, 100000+i, 1+i%2)
	}
	e.posCases(f.Seed, f.Count(80, 1500))
	cf.Flush()
	meta.Write(f.Out)
}

// h_c50: correspondence harness for C50 (promtool OpenMetrics backfill).
//
// For every case it generates an OpenMetrics text, runs the REAL promtool binary built from
// the tree under check (`promtool tsdb create-blocks-from openmetrics <file> <outdir>`), opens
// every block the run left in <outdir> with tsdb.OpenBlock, queries all series through
// tsdb.NewBlockQuerier and writes input (the entries the real OpenMetrics parser yields for
// the text: the parser is an oracle, not under test) and observation (exit status class, block
// metas, block samples) as Gallina terms.
//
// The binary is taken from $VERIF_PROMTOOL or ../promtool (the driver builds it into the
// work directory with the spec's `pre` step; the harness runs in <work>/run0).
package main

import (
	"bytes"
	"context"
	"errors"
	"fmt"
	"io"
	"math"
	"os"
	"os/exec"
	"path/filepath"
	"sort"
	"strconv"
	"strings"
	"sync"
	"time"

	"github.com/prometheus/prometheus/model/labels"
	"github.com/prometheus/prometheus/model/textparse"
	"github.com/prometheus/prometheus/tsdb"
	"github.com/prometheus/prometheus/tsdb/chunkenc"

	"verif/harness/internal/gallina"
	"verif/harness/internal/gen"
)

const twoH = int64(7200000)

// ---------------------------------------------------------------- generated input

type line struct {
	ser  int    // index into gcase.series; -1 = raw text line
	ms   int64  // intended timestamp
	noTs bool   // print without timestamp
	val  string // value text
	raw  string // for ser == -1
	tsFm int    // timestamp format
}

type gcase struct {
	series   []string // rendered `name{l="v",...}` per series
	lines    []line
	maxDur   string // --max-block-duration value ("" = flag omitted)
	maxDurMs int64
	custom   map[string]string // --label
	quiet    bool
	noEOF    bool
	gen      string // generator stream name
	corpus   string
}

func fmtTs(ms int64, mode int) string {
	neg := ms < 0
	a := ms
	if neg {
		a = -ms
	}
	sign := ""
	if neg {
		sign = "-"
	}
	switch {
	case mode == 1 && a%1000 == 0:
		return sign + strconv.FormatInt(a/1000, 10)
	case mode == 2:
		return strconv.FormatFloat(float64(ms)/1000, 'e', -1, 64)
	}
	return fmt.Sprintf("%s%d.%03d", sign, a/1000, a%1000)
}

func (g *gcase) text() []byte {
	var b bytes.Buffer
	for _, l := range g.lines {
		if l.ser < 0 {
			b.WriteString(l.raw)
			b.WriteByte('\n')
			continue
		}
		b.WriteString(g.series[l.ser])
		b.WriteByte(' ')
		b.WriteString(l.val)
		if !l.noTs {
			b.WriteByte(' ')
			b.WriteString(fmtTs(l.ms, l.tsFm))
		}
		b.WriteByte('\n')
	}
	if !g.noEOF {
		b.WriteString("# EOF\n")
	}
	return b.Bytes()
}

var metricNames = []string{"m", "http_requests_total", "a:b_c", "up", "m2"}
var labelNames = []string{"a", "job", "le", "instance", "zz"}
var labelValues = []string{"x", "y", "", "0.5", "with space", `q\"uote`, `back\\slash`, `nl\nx`, "ünï", "{}", "a,b=c"}

func genSeries(r *gen.Rand, n int) []string {
	seen := map[string]bool{}
	var out []string
	for len(out) < n {
		name := gen.Pick(r, metricNames)
		if n > 8 {
			name = fmt.Sprintf("s%d", r.Intn(n*4))
		}
		k := r.Intn(3)
		var ls []string
		used := map[string]bool{}
		for j := 0; j < k; j++ {
			ln := gen.Pick(r, labelNames)
			if used[ln] {
				continue
			}
			used[ln] = true
			ls = append(ls, fmt.Sprintf(`%s="%s"`, ln, gen.Pick(r, labelValues)))
		}
		s := name
		if len(ls) > 0 || r.Chance(1, 6) {
			s = name + "{" + strings.Join(ls, ",") + "}"
		}
		// two renderings may denote the same label set (m and m{}, a="" ...): resolved later
		// through the parser; avoid textual repeats only
		if seen[s] {
			continue
		}
		seen[s] = true
		out = append(out, s)
	}
	return out
}

func genVal(r *gen.Rand) string {
	switch r.Intn(12) {
	case 0:
		return "NaN"
	case 1:
		return "+Inf"
	case 2:
		return "-Inf"
	case 3:
		return "0"
	case 4:
		return "-0"
	case 5:
		return "1e308"
	case 6:
		return "5e-324"
	case 7:
		f := math.Float64frombits(r.U64())
		if math.IsNaN(f) || math.IsInf(f, 0) {
			f = 42
		}
		return strconv.FormatFloat(f, 'g', -1, 64)
	case 8:
		return strconv.FormatFloat(r.Float()*1000-500, 'f', 3, 64)
	default:
		return strconv.FormatInt(r.Range(-5, 1000), 10)
	}
}

var durChoices = []struct {
	flag string
	ms   int64
}{
	{"", 0}, {"", 0}, {"", 0}, {"", 0}, {"", 0}, {"", 0},
	{"1m", 60000}, {"2h", twoH}, {"2h0m0.001s", twoH + 1}, {"5h59m59.999s", 3*twoH - 1}, {"6h", 3 * twoH}, {"7h", 25200000},
	{"18h", 9 * twoH}, {"17h59m", 9*twoH - 60000}, {"54h", 27 * twoH}, {"100000h", 360000000000}, {"39366h", 19683 * twoH}, {"39365h", 19683*twoH - 3600000},
}

// effective duration, only used to steer the generator (the model computes its own)
func effDur(ms int64) int64 {
	d := twoH
	for i := 0; i < 10; i++ {
		if d*3 > ms || i == 9 {
			break
		}
		d *= 3
	}
	if ms <= twoH {
		return twoH
	}
	return d
}

// pickTs: timestamps of one series: increasing, spread over blocks [k0, k0+span) of duration d,
// boundary-heavy.
func pickTs(r *gen.Rand, d int64, k0, span int64, n int) []int64 {
	set := map[int64]bool{}
	for len(set) < n {
		k := k0 + r.Range(0, span-1)
		var off int64
		switch r.Intn(8) {
		case 0:
			off = 0
		case 1:
			off = d - 1
		case 2:
			off = 1
		case 3:
			off = d / 2
		case 4:
			off = r.Range(0, 999) // sub-second
		default:
			off = r.Range(0, d-1)
		}
		set[k*d+off] = true
	}
	out := make([]int64, 0, n)
	for t := range set {
		out = append(out, t)
	}
	sort.Slice(out, func(i, j int) bool { return out[i] < out[j] })
	return out
}

func generate(r *gen.Rand, tier string, big, huge bool) *gcase {
	g := &gcase{}
	dc := gen.Pick(r, durChoices)
	g.maxDur, g.maxDurMs = dc.flag, dc.ms
	d := effDur(dc.ms)
	g.quiet = r.Chance(1, 3)
	nser := 1 + r.Intn(5)
	perSer := 1 + r.Intn(8)
	if big {
		nser = 200 + r.Intn(600)
		perSer = 1 + r.Intn(4)
	}
	if huge {
		// more than maxSamplesInAppender (5000) samples in one block: several appender batches
		// (Append is checked against committed samples only, so out-of-order lines after a
		// batch boundary are fatal while those inside a batch are dropped silently)
		nser = 2600 + r.Intn(900)
	}
	g.series = genSeries(r, nser)
	if huge {
		for i := range g.series {
			g.series[i] = fmt.Sprintf(`h%d{job="x"}`, i)
		}
	}
	k0 := r.Range(-4, 2)
	if r.Chance(1, 5) {
		k0 = r.Range(-400, 300)
	}
	if r.Chance(1, 6) {
		k0 = 0
	}
	// every window with a sample costs about a second of CPU in promtool (a fresh Head per
	// block), so the quick tier keeps the number of windows small
	span := r.Range(1, 3)
	if tier == "thorough" {
		span = r.Range(1, 5)
	}
	sparse := false
	if huge {
		span = 1
	} else if r.Chance(1, 8) {
		span = r.Range(6, 14) // gaps of several empty block ranges (nextSampleTs skip)
		sparse = true
	}
	type pt struct {
		ser int
		ms  int64
	}
	var per [][]pt
	for s := 0; s < nser; s++ {
		n := 1 + r.Intn(perSer)
		if sparse && !big {
			n = 1
		}
		if huge {
			n = 2
		}
		var l []pt
		for _, t := range pickTs(r, d, k0, span, n) {
			l = append(l, pt{s, t})
		}
		per = append(per, l)
	}
	// layout
	var order []pt
	layout := r.Intn(10)
	switch {
	case layout <= 2: // grouped per series (valid OpenMetrics)
		g.gen = "grouped"
		for _, l := range per {
			order = append(order, l...)
		}
	case layout <= 5: // random interleaving keeping each series' order
		g.gen = "interleaved"
		idx := make([]int, nser)
		left := 0
		for _, l := range per {
			left += len(l)
		}
		for left > 0 {
			s := r.Intn(nser)
			if idx[s] >= len(per[s]) {
				continue
			}
			order = append(order, per[s][idx[s]])
			idx[s]++
			left--
		}
	case layout == 6: // globally sorted by time
		g.gen = "time-sorted"
		for _, l := range per {
			order = append(order, l...)
		}
		sort.SliceStable(order, func(i, j int) bool { return order[i].ms < order[j].ms })
	case layout == 7: // block windows in reverse order, increasing inside each window
		g.gen = "windows-reversed"
		for _, l := range per {
			order = append(order, l...)
		}
		fl := func(t int64) int64 {
			q := t / d
			if t%d != 0 && t < 0 {
				q--
			}
			return q
		}
		sort.SliceStable(order, func(i, j int) bool {
			a, b := fl(order[i].ms), fl(order[j].ms)
			if a != b {
				return a > b
			}
			return false
		})
	case layout == 8: // exact duplicates of some lines, later in the file but still in order
		g.gen = "exact-duplicates"
		for _, l := range per {
			for _, p := range l {
				order = append(order, p)
				if r.Chance(1, 3) {
					order = append(order, p)
				}
			}
		}
	default: // shuffled: out of order inside a window (outside the property's domain)
		g.gen = "shuffled"
		for _, l := range per {
			order = append(order, l...)
		}
		for i := len(order) - 1; i > 0; i-- {
			j := r.Intn(i + 1)
			order[i], order[j] = order[j], order[i]
		}
	}
	vals := map[pt]string{}
	tsm := r.Intn(4)
	typed := map[string]bool{}
	for _, p := range order {
		v, ok := vals[p]
		if !ok || (g.gen != "exact-duplicates") {
			v = genVal(r)
			vals[p] = v
		}
		name := g.series[p.ser]
		if i := strings.IndexByte(name, '{'); i >= 0 {
			name = name[:i]
		}
		if g.gen == "grouped" && !typed[name] && r.Chance(1, 2) {
			typed[name] = true
			g.lines = append(g.lines, line{ser: -1, raw: "# HELP " + name + " some help"})
			g.lines = append(g.lines, line{ser: -1, raw: "# TYPE " + name + " gauge"})
		}
		m := 0
		if tsm == 3 {
			m = r.Intn(3)
		} else if tsm == 1 {
			m = 1
		}
		g.lines = append(g.lines, line{ser: p.ser, ms: p.ms, val: v, tsFm: m})
	}
	// conflicting duplicate (same series and timestamp, other value)
	if r.Chance(1, 12) && len(g.lines) > 0 {
		i := r.Intn(len(g.lines))
		if g.lines[i].ser >= 0 {
			dup := g.lines[i]
			dup.val = "123456"
			j := i + 1 + r.Intn(len(g.lines)-i)
			g.lines = append(g.lines[:j], append([]line{dup}, g.lines[j:]...)...)
			g.gen += "+conflict"
		}
	}
	// missing timestamps
	if r.Chance(1, 5) && len(g.lines) > 0 {
		k := 1
		if r.Chance(1, 3) {
			k = 1 + r.Intn(3)
		}
		for ; k > 0; k-- {
			var i int
			switch r.Intn(3) {
			case 0:
				i = 0
			case 1:
				i = len(g.lines) - 1
			default:
				i = r.Intn(len(g.lines))
			}
			if g.lines[i].ser >= 0 {
				g.lines[i].noTs = true
			}
		}
		g.gen += "+nots"
	}
	// malformed
	if r.Chance(1, 14) {
		switch r.Intn(3) {
		case 0:
			g.noEOF = true
		case 1:
			j := r.Intn(len(g.lines) + 1)
			g.lines = append(g.lines[:j], append([]line{{ser: -1, raw: "this is { not openmetrics"}}, g.lines[j:]...)...)
		default:
			j := r.Intn(len(g.lines) + 1)
			g.lines = append(g.lines[:j], append([]line{{ser: -1, raw: "m 1 NaN"}}, g.lines[j:]...)...)
		}
		g.gen += "+malformed"
	}
	// custom labels
	if r.Chance(1, 6) {
		g.custom = map[string]string{"extra": gen.Pick(r, []string{"v", "", "a b"})}
		if !huge && r.Chance(1, 3) {
			g.custom[gen.Pick(r, labelNames)] = "forced" // may merge series
		}
	}
	return g
}

func fixed(series []string, maxDur string, maxDurMs int64, corpus string, ls ...line) *gcase {
	return &gcase{series: series, lines: ls, maxDur: maxDur, maxDurMs: maxDurMs, gen: "corpus", corpus: corpus}
}

// batchCorpus: 5000 series with one sample each at 5ms (one full appender batch), preceded by a
// sample in the window before, plus one more line for series 0 placed after the batch boundary
// (fatal "add sample") or inside the first batch (dropped silently).
func batchCorpus() []*gcase {
	hs := make([]string, 5000)
	for i := range hs {
		hs[i] = fmt.Sprintf("h%d", i)
	}
	mk := func(name string, extra line, at int) *gcase {
		g := &gcase{series: hs, gen: "corpus", corpus: name, quiet: true}
		g.lines = append(g.lines, line{ser: 0, ms: -1, val: "1"})
		for i := 0; i < 5000; i++ {
			if i == at {
				g.lines = append(g.lines, extra)
			}
			g.lines = append(g.lines, line{ser: i, ms: 5, val: "1"})
		}
		if at >= 5000 {
			g.lines = append(g.lines, extra)
		}
		return g
	}
	return []*gcase{
		mk("batch-boundary-out-of-order-after", line{ser: 0, ms: 4, val: "1"}, 5000),
		mk("batch-boundary-out-of-order-inside", line{ser: 0, ms: 4, val: "1"}, 1),
		mk("batch-boundary-conflicting-duplicate-after", line{ser: 0, ms: 5, val: "2"}, 5000),
		mk("batch-boundary-exact-duplicate-after", line{ser: 0, ms: 5, val: "1"}, 5000),
	}
}

func corpus() []*gcase {
	s := []string{`m{a="x"}`, `m{a="y"}`}
	L := func(ser int, ms int64, v string) line { return line{ser: ser, ms: ms, val: v} }
	noTs := func(ser int, v string) line { return line{ser: ser, noTs: true, val: v} }
	return []*gcase{
		// defect 3 of DESIGN.md section 7: negative minimum timestamp not on a boundary (dropped before the fix)
		fixed(s, "", 0, "negative-min-not-on-boundary", L(0, -1, "1"), L(0, 5, "2")),
		fixed(s, "", 0, "only-negative", L(0, -1, "1")),
		fixed(s, "", 0, "negative-on-boundary", L(0, -twoH, "1"), L(1, -1, "2"), L(0, 0, "3")),
		fixed(s, "", 0, "negative-several-blocks", L(0, -3*twoH-1, "1"), L(1, -2*twoH, "NaN"), L(0, -twoH+1, "2"), L(0, twoH, "+Inf")),
		fixed(s, "6h", 3*twoH, "negative-6h", L(0, -3*twoH-1, "1"), L(0, -1, "2"), L(0, 3*twoH-1, "3"), L(0, 3*twoH, "4")),
		fixed(s, "", 0, "boundaries", L(0, 0, "1"), L(0, twoH-1, "2"), L(0, twoH, "3"), L(1, 2*twoH-1, "4"), L(1, 2*twoH, "5")),
		fixed(s, "", 0, "gap-of-empty-ranges", L(0, 5, "1"), L(0, 9*twoH+7, "2"), L(1, 20*twoH, "3")),
		fixed(s, "", 0, "empty-input"),
		fixed(s, "", 0, "no-timestamp-single", noTs(0, "1")),
		fixed(s, "", 0, "no-timestamp-last", L(0, 5, "1"), L(0, twoH+5, "2"), noTs(1, "3")),
		fixed(s, "", 0, "no-timestamp-first", noTs(1, "3"), L(0, 5, "1"), L(0, twoH+5, "2")),
		fixed(s, "", 0, "out-of-order-within-window", L(0, 7199999, "3"), L(0, 100000, "2"), L(0, 7199999, "5"), L(0, 7200000, "+Inf")),
		fixed(s, "", 0, "out-of-order-across-windows", L(0, 3*twoH, "3"), L(0, twoH+1, "2"), L(0, 5, "5")),
	}
}

// ---------------------------------------------------------------- oracle: the real parser

type entry struct {
	kind int // 0 sample, 1 other, 2 parse error
	sid  int
	ts   *int64
	v    float64
}

type parsed struct {
	entries []entry
	sids    map[string]int // label string (after custom labels) -> sid
}

func applyCustom(l labels.Labels, custom map[string]string) labels.Labels {
	// createBlocks always goes through labels.Builder (lb.Reset(l); lb.Set...; lb.Labels()), which
	// also drops labels with an empty value
	lb := labels.NewBuilder(l)
	for k, v := range custom {
		lb.Set(k, v)
	}
	return lb.Labels()
}

func parse(text []byte, custom map[string]string) parsed {
	p := textparse.NewOpenMetricsParser(text, labels.NewSymbolTable())
	out := parsed{sids: map[string]int{}}
	for {
		e, err := p.Next()
		if errors.Is(err, io.EOF) {
			break
		}
		if err != nil {
			out.entries = append(out.entries, entry{kind: 2})
			break
		}
		if e != textparse.EntrySeries {
			out.entries = append(out.entries, entry{kind: 1})
			continue
		}
		_, ts, v := p.Series()
		var l labels.Labels
		p.Labels(&l)
		ks := applyCustom(l, custom).String()
		sid, ok := out.sids[ks]
		if !ok {
			sid = len(out.sids)
			out.sids[ks] = sid
		}
		en := entry{kind: 0, sid: sid, v: v}
		if ts != nil {
			t := *ts
			en.ts = &t
		}
		out.entries = append(out.entries, en)
	}
	return out
}

// ---------------------------------------------------------------- observation

type osample struct {
	sid int
	t   int64
	v   uint64
}

type oblock struct {
	mint, maxt int64
	samples    []osample
}

type observation struct {
	kind   string // ok | rejected-parse | rejected-nots | create-err | other
	stderr string
	blocks []oblock
	err    string
}

func readBlocks(dir string, sids map[string]int) ([]oblock, error) {
	des, err := os.ReadDir(dir)
	if err != nil {
		if os.IsNotExist(err) {
			return nil, nil
		}
		return nil, err
	}
	var out []oblock
	unknown := -1
	for _, de := range des {
		if !de.IsDir() {
			continue
		}
		bd := filepath.Join(dir, de.Name())
		if _, err := os.Stat(filepath.Join(bd, "meta.json")); err != nil {
			return nil, fmt.Errorf("directory %s without meta.json left in the output", de.Name())
		}
		b, err := tsdb.OpenBlock(nil, bd, nil, tsdb.DefaultPostingsDecoderFactory)
		if err != nil {
			return nil, fmt.Errorf("open block %s: %w", de.Name(), err)
		}
		ob := oblock{mint: b.Meta().MinTime, maxt: b.Meta().MaxTime}
		q, err := tsdb.NewBlockQuerier(b, math.MinInt64, math.MaxInt64)
		if err != nil {
			b.Close()
			return nil, err
		}
		ss := q.Select(context.Background(), true, nil, labels.MustNewMatcher(labels.MatchRegexp, "__name__", ".*"))
		for ss.Next() {
			s := ss.At()
			sid, ok := sids[s.Labels().String()]
			if !ok {
				sid = unknown // a series that is not in the input
				unknown--
			}
			it := s.Iterator(nil)
			for {
				vt := it.Next()
				if vt == chunkenc.ValNone {
					break
				}
				if vt != chunkenc.ValFloat {
					ob.samples = append(ob.samples, osample{sid: unknown, t: it.AtT()})
					unknown--
					continue
				}
				t, v := it.At()
				ob.samples = append(ob.samples, osample{sid, t, math.Float64bits(v)})
			}
			if it.Err() != nil {
				q.Close()
				b.Close()
				return nil, it.Err()
			}
		}
		err = ss.Err()
		q.Close()
		b.Close()
		if err != nil {
			return nil, err
		}
		if uint64(len(ob.samples)) != b.Meta().Stats.NumSamples {
			return nil, fmt.Errorf("block %s: meta numSamples %d, queried %d", de.Name(), b.Meta().Stats.NumSamples, len(ob.samples))
		}
		sort.SliceStable(ob.samples, func(i, j int) bool {
			if ob.samples[i].sid != ob.samples[j].sid {
				return ob.samples[i].sid < ob.samples[j].sid
			}
			return false // keep the querier's order inside a series
		})
		out = append(out, ob)
	}
	sort.SliceStable(out, func(i, j int) bool {
		if out[i].mint != out[j].mint {
			return out[i].mint < out[j].mint
		}
		return out[i].maxt < out[j].maxt
	})
	return out, nil
}

func run(promtool, work string, idx int, g *gcase, sids map[string]int) observation {
	dir, err := os.MkdirTemp(work, fmt.Sprintf("c%d_", idx))
	if err != nil {
		return observation{kind: "other", err: err.Error()}
	}
	defer os.RemoveAll(dir)
	in := filepath.Join(dir, "in.om")
	if err := os.WriteFile(in, g.text(), 0o644); err != nil {
		return observation{kind: "other", err: err.Error()}
	}
	out := filepath.Join(dir, "out")
	tmp := filepath.Join(dir, "tmp")
	os.MkdirAll(tmp, 0o755)
	args := []string{"tsdb", "create-blocks-from"}
	if g.quiet {
		args = append(args, "-q")
	}
	if g.maxDur != "" {
		args = append(args, "--max-block-duration="+g.maxDur)
	}
	args = append(args, "openmetrics")
	keys := make([]string, 0, len(g.custom))
	for k := range g.custom {
		keys = append(keys, k)
	}
	sort.Strings(keys)
	for _, k := range keys {
		args = append(args, "--label="+k+"="+g.custom[k])
	}
	args = append(args, in, out)
	ctx, cancel := context.WithTimeout(context.Background(), 10*time.Minute)
	defer cancel()
	cmd := exec.CommandContext(ctx, promtool, args...)
	cmd.Env = append(os.Environ(), "TMPDIR="+tmp)
	var stderr bytes.Buffer
	cmd.Stderr = &stderr
	cmd.Stdout = io.Discard
	rerr := cmd.Run()
	o := observation{stderr: strings.TrimSpace(stderr.String())}
	if len(o.stderr) > 300 {
		o.stderr = o.stderr[:300]
	}
	switch {
	case rerr == nil:
		o.kind = "ok"
	case strings.Contains(o.stderr, "getting min and max timestamp: next:"):
		o.kind = "rejected-parse"
	case strings.Contains(o.stderr, "getting min and max timestamp: expected timestamp for series got none"):
		o.kind = "rejected-nots"
	case strings.Contains(o.stderr, "block creation:"):
		o.kind = "create-err"
	default:
		o.kind = "other"
		o.err = fmt.Sprint(rerr)
	}
	bl, err := readBlocks(out, sids)
	if err != nil {
		o.kind = "other"
		o.err = err.Error()
	}
	o.blocks = bl
	return o
}

// ---------------------------------------------------------------- Gallina

func entryTerm(e entry) string {
	switch e.kind {
	case 1:
		return "EOther"
	case 2:
		return "EParseErr"
	}
	ts := "None"
	if e.ts != nil {
		ts = gallina.Some(gallina.Z(*e.ts))
	}
	return fmt.Sprintf("ESample %s %s %s", gallina.Z(int64(e.sid)), ts, gallina.FloatBits(e.v))
}

func blocksTerm(bl []oblock) string {
	var it []string
	for _, b := range bl {
		var ss []string
		for _, s := range b.samples {
			ss = append(ss, fmt.Sprintf("(%s, %s, %s)", gallina.Z(int64(s.sid)), gallina.Z(s.t), gallina.ZU(s.v)))
		}
		it = append(it, fmt.Sprintf("mkOB %s %s %s", gallina.Z(b.mint), gallina.Z(b.maxt), gallina.List(ss)))
	}
	return gallina.List(it)
}

type desc struct {
	Shape  string     `json:"shape"`
	Gen    string     `json:"gen"`
	Corpus string     `json:"corpus,omitempty"`
	Args   string     `json:"args"`
	Text   string     `json:"text,omitempty"`
	Obs    string     `json:"obs"`
	Stderr string     `json:"stderr,omitempty"`
	Blocks [][3]int64 `json:"blocks"` // mint, maxt, numSamples
	Err    string     `json:"err,omitempty"`
}

func floorDiv(a, d int64) int64 {
	q := a / d
	if a%d != 0 && a < 0 {
		q--
	}
	return q
}

func main() {
	f := gallina.ParseFlags()
	promtool := os.Getenv("VERIF_PROMTOOL")
	if promtool == "" {
		promtool = "../promtool"
	}
	promtool, _ = filepath.Abs(promtool)
	if _, err := os.Stat(promtool); err != nil {
		fmt.Fprintln(os.Stderr, "h_c50: promtool binary not found (spec pre-step builds it to {work}/promtool):", err)
		os.Exit(2)
	}
	meta := gallina.NewMeta("C50", f.Seed, f.Tier)
	meta.Rule = "corpus of fixed reproducers + seeded generated OpenMetrics texts (1-5 series, or 200-800 series in the `big` cases, or - thorough tier - 2600-3500 series with 2 samples each in one window so that a block needs several 5000-sample appender batches, plus 4 fixed batch-boundary inputs; timestamps spread over 1-14 block ranges of the effective duration around zero and far from it, boundary heavy; layouts grouped / interleaved / time-sorted / windows-reversed / exact-duplicates / shuffled; optional conflicting duplicate, missing timestamps, malformed text, --max-block-duration, --label); each text goes through the real promtool binary; non-trivial = accepted input whose samples fall in at least two block windows, or rejected input with at least two samples; distinct by (args, text)"
	cf := &gallina.CaseFile{Dir: f.Out, Type: "case", PerShard: 60,
		Preamble: "From Coq Require Import List ZArith.\nFrom Verif Require Import lib.Int64 model.Backfill corr.CorrC50.\nImport ListNotations.\nOpen Scope Z_scope.\n",
		Footer:   gallina.StdFooter}

	var cases []*gcase
	cases = append(cases, corpus()...)
	if f.Tier == "thorough" || os.Getenv("VERIF_C50_BATCH") != "" {
		cases = append(cases, batchCorpus()...)
	}
	genBase := len(cases)
	n := f.Count(24, 300)
	nbig := f.Count(1, 6)
	nhuge := f.Count(0, 2)
	if v, err := strconv.Atoi(os.Getenv("VERIF_C50_HUGE")); err == nil { // development aid
		nhuge = v
	}
	for i := 0; i < n; i++ {
		r := gen.Fork(f.Seed, i)
		cases = append(cases, generate(r, f.Tier, i >= n-nbig-nhuge && i < n-nhuge, i >= n-nhuge))
	}

	type result struct {
		p parsed
		o observation
	}
	res := make([]result, len(cases))
	var wg sync.WaitGroup
	sem := make(chan struct{}, 6)
	for i := range cases {
		wg.Add(1)
		sem <- struct{}{}
		go func(i int) {
			defer wg.Done()
			defer func() { <-sem }()
			p := parse(cases[i].text(), cases[i].custom)
			res[i] = result{p, run(promtool, f.Out, i, cases[i], p.sids)}
		}(i)
	}
	wg.Wait()

	seen := map[string]bool{}
	id := 0
	for i, g := range cases {
		p, o := res[i].p, res[i].o
		text := string(g.text())
		argS := fmt.Sprintf("max-block-duration=%q labels=%v quiet=%v", g.maxDur, g.custom, g.quiet)
		k := argS + "\x00" + text
		if seen[k] {
			continue
		}
		seen[k] = true

		// classification (meta only; the verdicts are computed by Coq)
		wf, nsamp := true, 0
		windows := map[int64]bool{}
		d := effDur(g.maxDurMs)
		for _, e := range p.entries {
			if e.kind == 2 || (e.kind == 0 && e.ts == nil) {
				wf = false
			}
			if e.kind == 0 {
				nsamp++
				if e.ts != nil {
					windows[floorDiv(*e.ts, d)] = true
				}
			}
		}
		ordered := true
		type lk struct {
			sid int
			w   int64
		}
		last := map[lk]entry{}
		for _, e := range p.entries {
			if e.kind != 0 || e.ts == nil {
				continue
			}
			key := lk{e.sid, floorDiv(*e.ts, d)}
			if pe, ok := last[key]; ok {
				if *e.ts < *pe.ts || (*e.ts == *pe.ts && math.Float64bits(e.v) != math.Float64bits(pe.v)) {
					ordered = false
				}
				if *e.ts < *pe.ts {
					continue
				}
			}
			last[key] = e
		}
		class := ""
		switch {
		case !wf:
			class = "rejected"
			if nsamp >= 2 {
				meta.Nontrivial++
			}
		case !ordered:
			class = "accepted-unordered"
		default:
			class = "accepted-ordered"
		}
		if wf && len(windows) >= 2 {
			meta.Nontrivial++
		}
		meta.Hit(class)
		meta.Hit("gen:" + g.gen)
		if wf {
			meta.Hit(fmt.Sprintf("windows:%d", min(len(windows), 6)))
			neg := false
			for w := range windows {
				if w < 0 {
					neg = true
				}
			}
			if neg {
				meta.Hit("negative-timestamps")
			}
		}
		if nsamp > 5000 {
			meta.Hit("more-than-5000-samples")
		}
		if g.maxDur != "" {
			meta.Hit("max-block-duration-flag")
		}
		if len(g.custom) > 0 {
			meta.Hit("custom-labels")
		}
		shape := class
		if wf && !ordered {
			shape = "unordered-within-window"
			if o.kind == "create-err" {
				shape = "unordered-add-sample-error"
			}
		}
		if o.kind == "other" {
			shape = "harness-could-not-observe"
		}

		var obs string
		nb := gallina.Z(int64(len(o.blocks)))
		switch o.kind {
		case "ok":
			obs = "(ObsOk " + blocksTerm(o.blocks) + ")"
		case "rejected-parse":
			obs = "(ObsRejected RejParse " + nb + ")"
		case "rejected-nots":
			obs = "(ObsRejected RejNoTs " + nb + ")"
		case "create-err":
			obs = "(ObsCreateErr " + blocksTerm(o.blocks) + ")"
		default:
			obs = "ObsOther"
		}
		var es []string
		for _, e := range p.entries {
			es = append(es, entryTerm(e))
		}
		cf.Add(fmt.Sprintf("mkCase %s %s %s %s %s", gallina.Z(int64(id)), gallina.Z(g.maxDurMs), gallina.Z(int64(len(p.sids))), gallina.List(es), obs))
		dsc := desc{Shape: shape, Gen: g.gen, Corpus: g.corpus, Args: argS, Obs: o.kind, Stderr: o.stderr, Err: o.err}
		if len(text) <= 4000 {
			dsc.Text = text
		} else {
			dsc.Text = text[:4000] + "...(truncated; regenerate from seed and case index " + strconv.Itoa(i-genBase) + ")"
		}
		for _, b := range o.blocks {
			dsc.Blocks = append(dsc.Blocks, [3]int64{b.mint, b.maxt, int64(len(b.samples))})
		}
		meta.Case(id, dsc)
		meta.Evaluations++
		id++
	}
	cf.Flush()
	meta.Write(f.Out)
}

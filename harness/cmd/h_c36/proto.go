package main

import (
	"bytes"
	"encoding/binary"
	"math"
	"strconv"

	"github.com/gogo/protobuf/proto"
	"github.com/gogo/protobuf/types"

	dto "github.com/prometheus/prometheus/prompb/io/prometheus/client"

	"verif/harness/internal/gen"
)

func tsProto(ms int64) *types.Timestamp {
	return &types.Timestamp{Seconds: ms / 1000, Nanos: int32(ms%1000) * 1_000_000}
}

func pairs(ls [][2]string) []dto.LabelPair {
	out := make([]dto.LabelPair, len(ls))
	for i, kv := range ls {
		out[i] = dto.LabelPair{Name: kv[0], Value: kv[1]}
	}
	return out
}

// buildProto generates a protobuf exposition: HISTOGRAM / GAUGE_HISTOGRAM families of 1-4
// metrics, each independently classic-only, classic with native parts, or native-only, with
// integer or float counts; gauges and counters in between.  sc.Ignore (IgnoreNativeHistograms)
// and sc.Keep are set by the caller: with Ignore every metric is a classic histogram and must
// be converted, without it only the metrics that have no native parts.  Every exemplar has a timestamp (the protobuf parser drops exemplars
// without one from converted histograms on purpose, as for native histograms).
func buildProto(r *gen.Rand, sc *scenario) (payload []byte, text string, known map[int]exm) {
	known = map[int]exm{}
	g := &gctx{r: r, sc: sc, known: known, exTs: 1}
	var fams []*dto.MetricFamily
	used := map[string]bool{}
	name := func(pool []string) string {
		for i := 0; ; i++ {
			n := gen.Pick(r, pool)
			if i > 20 {
				n += strconv.Itoa(i)
			}
			if !used[n] {
				used[n] = true
				return n
			}
		}
	}
	exProto := func() *dto.Exemplar {
		g.nextEx++
		x := exm{ID: g.nextEx, Value: g.dyadic(-4, 40, 8), HasTs: true, Ts: r.Range(1, 400) * 125}
		known[x.ID] = x
		return &dto.Exemplar{Label: []dto.LabelPair{{Name: "id", Value: "e" + strconv.Itoa(x.ID)}}, Value: x.Value, Timestamp: tsProto(x.Ts)}
	}
	nf := 1 + r.Intn(3)
	for f := 0; f < nf; f++ {
		if r.Chance(1, 3) {
			mf := &dto.MetricFamily{Name: name(otherNames), Help: "plain", Type: dto.MetricType_GAUGE}
			if r.Bool() {
				mf.Type = dto.MetricType_COUNTER
			}
			for _, ls := range g.pickLabelSets(1 + r.Intn(2)) {
				m := dto.Metric{Label: pairs(ls)}
				v := g.dyadic(0, 100, 8)
				if mf.Type == dto.MetricType_COUNTER {
					m.Counter = &dto.Counter{Value: v}
					if r.Bool() {
						m.Counter.Exemplar = exProto()
					}
					if r.Bool() {
						m.Counter.StartTimestamp = tsProto(r.Range(1, 100) * 125)
					}
				} else {
					m.Gauge = &dto.Gauge{Value: v}
				}
				if r.Bool() {
					m.TimestampMs = r.Range(1, 800) * 125
				}
				mf.Metric = append(mf.Metric, m)
			}
			fams = append(fams, mf)
			continue
		}
		mf := &dto.MetricFamily{Name: name(histNames), Help: "hist", Type: dto.MetricType_HISTOGRAM}
		if r.Chance(1, 4) {
			mf.Type = dto.MetricType_GAUGE_HISTOGRAM
			sc.classes["gauge-histogram"] = true
		}
		if r.Chance(1, 6) {
			mf.Unit = "seconds"
		}
		famTs := int64(0)
		if r.Bool() {
			famTs = r.Range(1, 800) * 125
		}
		// 1-4 metrics, each independently classic-only (0), classic+native (1), native-only (2)
		nm := 1 + r.Intn(4)
		kinds := make([]int, nm)
		for i := range kinds {
			kinds[i] = r.Intn(3)
			if r.Chance(1, 3) {
				kinds[i] = 0
			}
		}
		if !sc.Ignore {
			// Without IgnoreNativeHistograms two defects of the wrapped parser (known findings
			// of C35) would make the unconverted reference stream itself wrong: a native metric
			// behind a classic-only one is emitted as classic series
			// (proto-native-histogram-after-classic), and with keep-classic a classic-only metric
			// right behind a classic+native one comes out as EntryHistogram with nil histograms
			// (proto-histogram-entry-without-histogram).  So: native metrics first, and with
			// keep-classic the last of them without classic buckets if classic-only ones follow.
			var nat, cla []int
			for _, k := range kinds {
				if k == 0 {
					cla = append(cla, k)
				} else {
					nat = append(nat, k)
				}
			}
			if sc.Keep && len(nat) > 0 && len(cla) > 0 {
				nat[len(nat)-1] = 2
			}
			kinds = append(nat, cla...)
		}
		mixed := false
		for i := range kinds {
			mixed = mixed || kinds[i] != kinds[0]
		}
		if mixed {
			sc.classes["proto-mixed-family"] = true
		}
		for mi, ls := range g.pickLabelSets(nm) {
			kind := kinds[mi]
			sc.classes[[]string{"proto-classic-only", "proto-classic+native", "proto-native-only"}[kind]] = true
			if mi > 0 && kind != 0 && sc.Ignore {
				sc.classes["proto-later-metric-with-native-parts-ignored"] = true
			}
			h := &dto.Histogram{}
			nb := r.Intn(6)
			if kind == 2 {
				nb = 0
			}
			pick := map[int]bool{}
			for len(pick) < nb {
				pick[r.Intn(len(boundPool))] = true
			}
			float := r.Chance(1, 4)
			c := 0.0
			for i := range boundPool {
				if !pick[i] {
					continue
				}
				if float {
					c += g.dyadic(0, 5, 8)
				} else {
					c += float64(r.Intn(6))
				}
				b := dto.Bucket{UpperBound: boundPool[i]}
				if float {
					b.CumulativeCountFloat = c
				} else {
					b.CumulativeCount = uint64(c)
				}
				if r.Chance(2, 5) {
					b.Exemplar = exProto()
				}
				h.Bucket = append(h.Bucket, b)
			}
			if float {
				c += g.dyadic(0, 5, 8)
				if c == 0 {
					c = 0.5
				}
				h.SampleCountFloat = c
				sc.classes["float-counts"] = true
			} else {
				c += float64(r.Intn(6))
				h.SampleCount = uint64(c)
			}
			if kind != 2 && r.Chance(1, 3) {
				b := dto.Bucket{UpperBound: math.Inf(1)}
				if float {
					b.CumulativeCountFloat = c
				} else {
					b.CumulativeCount = uint64(c)
				}
				if r.Chance(1, 3) {
					b.Exemplar = exProto()
				}
				h.Bucket = append(h.Bucket, b)
				sc.classes["explicit-inf-bucket"] = true
			} else {
				sc.classes["missing-inf"] = true
			}
			h.SampleSum = g.dyadic(-20, 200, 8)
			if r.Bool() {
				h.StartTimestamp = tsProto(r.Range(1, 100) * 125)
			}
			if kind != 0 {
				// native parts: one of the three marks isNativeHistogram looks at (a span, a zero
				// threshold, a zero count), always with a consistent span/bucket layout
				h.Schema = int32(r.Range(0, 3))
				switch r.Intn(3) {
				case 0:
					h.ZeroThreshold = 0.001
				case 1:
					if !float {
						h.ZeroCount = 0 // span only
					}
				default:
					h.ZeroThreshold = 0.001
					if float {
						h.ZeroCountFloat = 0.5
					} else {
						h.ZeroCount = 1
					}
				}
				h.PositiveSpan = []dto.BucketSpan{{Offset: int32(r.Range(0, 3)), Length: 1}}
				if float {
					h.PositiveCount = []float64{c}
				} else {
					h.PositiveDelta = []int64{int64(c)}
				}
			}
			mf.Metric = append(mf.Metric, dto.Metric{Label: pairs(ls), Histogram: h, TimestampMs: famTs})
		}
		fams = append(fams, mf)
	}
	buf := &bytes.Buffer{}
	vb := make([]byte, binary.MaxVarintLen32)
	for _, mf := range fams {
		b, err := proto.Marshal(mf)
		if err != nil {
			panic(err)
		}
		n := binary.PutUvarint(vb, uint64(len(b)))
		buf.Write(vb[:n])
		buf.Write(b)
		text += proto.CompactTextString(mf) + "\n"
	}
	return buf.Bytes(), text, known
}

package main

type corpusCase struct {
	name  string
	sc    *scenario
	known map[int]exm
}

func series(name string, ls [][2]string, v float64, ts *int64, ex ...exm) ent {
	return ent{Kind: "series", Name: name, Labels: ls, Val: v, Ts: ts, Ex: ex}
}

// corpus: the reproducers of the findings reported in notes/C36.md, and two plain examples.
func corpus() []corpusCase {
	a1 := [][2]string{{"a", "1"}}
	a2 := [][2]string{{"a", "2"}}
	le := func(ls [][2]string, v string) [][2]string {
		return append(append([][2]string{}, ls...), [2]string{"le", v})
	}
	typ := ent{Kind: "type", Name: "h", Typ: "histogram"}
	grp := func(ls [][2]string, ts *int64, ex ...exm) []ent {
		b := series("h_bucket", le(ls, "1"), 2, ts, ex...)
		return []ent{b, series("h_bucket", le(ls, "+Inf"), 5, ts), series("h_count", ls, 5, ts), series("h_sum", ls, 7.5, ts)}
	}
	var out []corpusCase
	add := func(name, shape, format string, keep bool, es []ent, known map[int]exm) {
		out = append(out, corpusCase{name, &scenario{Format: format, Keep: keep, ParseST: false, Shape: shape, FailAt: -1, es: es, classes: map[string]bool{}}, known})
	}
	// plain examples
	add("plain-text", "clean", "text", false, append(append([]ent{typ}, grp(a1, tsp(1000))...), grp(a2, tsp(1000))...), nil)
	add("plain-om-keep", "clean", "om", true, append([]ent{typ}, grp(nil, nil)...), nil)
	// finding 1: timestamp taken from the series that triggers the flush
	add("ts-from-next-series-text", "nhcb-ts-from-next-series", "text", false,
		append(append([]ent{typ}, grp(a1, tsp(1000))...), grp(a2, tsp(2000))...), nil)
	add("ts-from-next-series-om", "nhcb-ts-from-next-series", "om", false,
		append(append([]ent{typ}, grp(a1, tsp(1000))...), grp(a2, nil)...), nil)
	// finding 2: kept classic series lose their exemplars
	x := exm{ID: 1, Value: 0.5, HasTs: true, Ts: 10000}
	add("keep-classic-exemplar-om", "keep-classic-exemplars-dropped", "om", true,
		append([]ent{typ}, grp(nil, tsp(1000), x)...), map[int]exm{1: x})
	// finding 3: exemplars of a histogram that failed to convert are reported for the next one
	y := exm{ID: 2, Value: 3, HasTs: true, Ts: 11000}
	bad := []ent{series("h_bucket", le(a1, "1"), 6, nil, x), series("h_bucket", le(a1, "+Inf"), 5, nil), series("h_count", a1, 5, nil)}
	add("stale-exemplar-om", "stale-exemplars-after-failed-conversion", "om", false,
		append(append([]ent{typ}, bad...), grp(a2, nil, y)...), map[int]exm{1: x, 2: y})
	// finding 7: an OpenMetrics exemplar without timestamp inherits the timestamp of the exemplar
	// that used the buffer slot before
	z := exm{ID: 3, Value: 4}
	add("exemplar-stale-timestamp-om", "nhcb-exemplar-stale-timestamp", "om", false,
		append(append([]ent{typ}, grp(a1, nil, x)...), grp(a2, nil, z)...), map[int]exm{1: x, 3: z})
	// finding 4: interleaved label sets
	add("interleaved-text", "interleaved-label-sets-split", "text", false,
		[]ent{typ, series("h_bucket", le(a1, "1"), 2, nil), series("h_bucket", le(a2, "1"), 1, nil),
			series("h_bucket", le(a1, "+Inf"), 5, nil), series("h_bucket", le(a2, "+Inf"), 3, nil),
			series("h_count", a1, 5, nil), series("h_count", a2, 3, nil)}, nil)
	// finding 6: Validate failure (count below the highest bucket, no +Inf bucket)
	add("validate-failure-text", "validate-failure-merges-next-histogram", "text", false,
		[]ent{typ, series("h_bucket", le(a1, "1"), 4, nil), series("h_count", a1, 3, nil),
			series("h_bucket", le(a2, "2"), 1, nil), series("h_bucket", le(a2, "+Inf"), 2, nil), series("h_count", a2, 2, nil)}, nil)
	return out
}

// h_c36: correspondence harness for C36 (classic histograms -> custom-bucket native histograms
// while parsing).  Every case is one generated exposition parsed twice by the real code: once
// without conversion (the reference entry stream, which is also the model's input) and once
// through NHCBParser (textparse.New with ConvertClassicHistogramsToNHCB for text/plain and
// OpenMetrics payloads, NewNHCBParser around a scripted in-memory Parser for entry streams the
// text formats cannot express: native histograms, several exemplars, start timestamps).
package main

import (
	"fmt"
	"math"
	"os"
	"sort"
	"strconv"
	"strings"

	"github.com/prometheus/prometheus/model/labels"
	"github.com/prometheus/prometheus/model/textparse"

	"verif/harness/internal/gallina"
	"verif/harness/internal/gen"
)

type desc struct {
	*scenario
	Payload string   `json:"payload,omitempty"`
	Entries []string `json:"entries,omitempty"`
	Classes []string `json:"classes"`
	BaseErr string   `json:"base_error,omitempty"`
	OutErr  string   `json:"out_error,omitempty"`
	Out     []string `json:"out"`
}

type unrepresentable struct{ v float64 }

func zlit(v int64) string {
	if v < 0 {
		return "(zn " + strconv.FormatInt(-v, 10) + ")"
	}
	return "(zp " + strconv.FormatInt(v, 10) + ")"
}

func numLit(v float64) string {
	switch {
	case math.IsNaN(v):
		return "NaN"
	case math.IsInf(v, 1):
		return "PInf"
	case math.IsInf(v, -1):
		return "NInf"
	}
	k := v * 8
	if k != math.Trunc(k) || math.Abs(k) > 1<<52 {
		panic(unrepresentable{v})
	}
	return "(F " + zlit(int64(k)) + ")"
}

func strLit(s string) string {
	for i := 0; i < len(s); i++ {
		if s[i] < 32 || s[i] > 126 {
			panic("non-printable string in case: " + strconv.Quote(s))
		}
	}
	return `"` + strings.ReplaceAll(s, `"`, `""`) + `"`
}

// interner: every distinct string and label set of a shard becomes one Definition in the
// shard's preamble (Coq elaborates a string literal constructor by constructor; repeating
// "__name__" thousands of times dominated the evaluation time).
type interner struct {
	strs  map[string]string
	lsets map[string]string
	defs  []string
}

func newInterner() *interner { return &interner{strs: map[string]string{}, lsets: map[string]string{}} }

func (n *interner) str(s string) string {
	if v, ok := n.strs[s]; ok {
		return v
	}
	v := "s" + strconv.Itoa(len(n.strs))
	n.strs[s] = v
	n.defs = append(n.defs, "Definition "+v+" : string := "+strLit(s)+".")
	return v
}

func (n *interner) lset(pairs []string) string {
	key := strings.Join(pairs, ";")
	if v, ok := n.lsets[key]; ok {
		return v
	}
	v := "L" + strconv.Itoa(len(n.lsets))
	n.lsets[key] = v
	n.defs = append(n.defs, "Definition "+v+" : labels := "+gallina.List(pairs)+".")
	return v
}

var in = newInterner()

func sampleLit(o obsEntry) string {
	ls := make([]string, len(o.Lset))
	for i, kv := range o.Lset {
		ls[i] = "(" + in.str(kv[0]) + ", " + in.str(kv[1]) + ")"
	}
	ts := "nots"
	if o.Ts != nil {
		ts = "(ts " + zlit(*o.Ts) + ")"
	}
	ex := make([]string, len(o.Ex))
	for i, e := range o.Ex {
		t := "nots"
		if e.Ts != nil {
			t = "(ts " + zlit(*e.Ts) + ")"
		}
		ex[i] = "ex " + zlit(int64(e.ID)) + " " + t
	}
	return "(mkS " + in.lset(ls) + " " + ts + " " + zlit(o.St) + " " + gallina.List(ex) + ")"
}

func entryLit(o obsEntry, base bool) string {
	pfx := "O"
	if base {
		pfx = "B"
	}
	switch o.Kind {
	case "series":
		return pfx + "Series " + sampleLit(o) + " " + numLit(o.Val)
	case "hist":
		return pfx + "Hist " + sampleLit(o) + " " + zlit(int64(o.Hid))
	case "type":
		return pfx + "Type " + in.str(o.Name) + " " + zlit(int64(o.Typ))
	case "other":
		return pfx + "Other " + zlit(int64(o.OKind)) + " " + in.str(o.A) + " " + in.str(o.B)
	case "nhcb":
		if base {
			panic("custom-bucket histogram in the base stream")
		}
		bs := make([]string, len(o.Bounds))
		for i, b := range o.Bounds {
			bs[i] = numLit(b)
		}
		cs := make([]string, len(o.Cnts))
		for i, c := range o.Cnts {
			k := c * 8
			if k != math.Trunc(k) {
				panic(unrepresentable{c})
			}
			cs[i] = zlit(int64(k))
		}
		k := o.Count * 8
		if k != math.Trunc(k) {
			panic(unrepresentable{o.Count})
		}
		return "ONhcb " + sampleLit(o) + " (mkNH " + gallina.Bool(o.Float) + " " + zlit(int64(k)) + " " + numLit(o.Sum) + " " + gallina.List(bs) + " " + gallina.List(cs) + ")"
	}
	panic("entryLit: " + o.Kind)
}

func short(o obsEntry) string {
	ts := "-"
	if o.Ts != nil {
		ts = strconv.FormatInt(*o.Ts, 10)
	}
	switch o.Kind {
	case "series":
		return fmt.Sprintf("S %v ts=%s v=%g st=%d ex=%v", o.Lset, ts, o.Val, o.St, o.Ex)
	case "hist":
		return fmt.Sprintf("H %v ts=%s id=%d st=%d ex=%v", o.Lset, ts, o.Hid, o.St, o.Ex)
	case "nhcb":
		return fmt.Sprintf("NHCB %v ts=%s float=%v count=%g sum=%g bounds=%v counts=%v st=%d ex=%v", o.Lset, ts, o.Float, o.Count, o.Sum, o.Bounds, o.Cnts, o.St, o.Ex)
	case "type":
		return fmt.Sprintf("TYPE %s %d", o.Name, o.Typ)
	}
	return fmt.Sprintf("OTHER %d %q %q", o.OKind, o.A, o.B)
}

// runBoth parses the scenario without and with conversion on the real code.
func runBoth(sc *scenario, known map[int]exm) (payload string, base, out []obsEntry, beof, oeof bool, berr, oerr string) {
	st := labels.NewSymbolTable()
	switch sc.Format {
	case "proto":
		payload = sc.protoText
		bp, err := textparse.New(sc.protoPayload, "application/vnd.google.protobuf", st, textparse.ParserOptions{
			KeepClassicOnClassicAndNativeHistograms: sc.Keep, IgnoreNativeHistograms: sc.Ignore})
		if err != nil || bp == nil {
			panic(fmt.Sprint("textparse.New: ", err))
		}
		base, beof, berr = record(bp, true, known)
		wp, err := textparse.New(sc.protoPayload, "application/vnd.google.protobuf", labels.NewSymbolTable(), textparse.ParserOptions{
			ConvertClassicHistogramsToNHCB: true, KeepClassicOnClassicAndNativeHistograms: sc.Keep, IgnoreNativeHistograms: sc.Ignore})
		if err != nil || wp == nil {
			panic(fmt.Sprint("textparse.New: ", err))
		}
		out, oeof, oerr = record(wp, true, known)
		return
	case "scripted":
		bp := &scripted{es: sc.es, failAt: sc.FailAt}
		base, beof, berr = record(bp, sc.ParseST, known)
		wp := textparse.NewNHCBParser(&scripted{es: sc.es, failAt: sc.FailAt}, st, sc.Keep, sc.ParseST)
		out, oeof, oerr = record(wp, sc.ParseST, known)
		return
	case "text":
		payload = renderText(sc.es)
		if sc.NoEOF {
			payload += "!!! not a sample line\n"
		}
	case "om":
		payload = renderOM(sc.es, !sc.NoEOF)
	}
	ct := map[string]string{"text": "text/plain", "om": "application/openmetrics-text"}[sc.Format]
	bp, err := textparse.New([]byte(payload), ct, st, textparse.ParserOptions{
		KeepClassicOnClassicAndNativeHistograms: sc.Keep, OpenMetricsSkipSTSeries: sc.ParseST})
	if err != nil || bp == nil {
		panic(fmt.Sprint("textparse.New: ", err))
	}
	base, beof, berr = record(bp, sc.ParseST, known)
	wp, err := textparse.New([]byte(payload), ct, labels.NewSymbolTable(), textparse.ParserOptions{
		ConvertClassicHistogramsToNHCB:          true,
		KeepClassicOnClassicAndNativeHistograms: sc.Keep, OpenMetricsSkipSTSeries: sc.ParseST})
	if err != nil || wp == nil {
		panic(fmt.Sprint("textparse.New: ", err))
	}
	out, oeof, oerr = record(wp, sc.ParseST, known)
	return
}

func main() {
	f := gallina.ParseFlags()
	meta := gallina.NewMeta("C36", f.Seed, f.Tier)
	meta.Rule = "one case = one generated exposition (text/plain, OpenMetrics or scripted entry stream; 1-4 families, several label sets, bucket/count/sum order permuted, missing +Inf/_count/_sum, duplicate and out-of-order le, float counts, invalid histograms, non-member series, timestamps, exemplars, start timestamps, parse errors) x keep-classic x parseST, parsed by the real parser without and with NHCB conversion; streams: corpus of reproducers, clean (8 of 15), and one stream per known-finding shape; non-trivial = the base stream contains at least one classic histogram series; distinct by (format, options, payload/entries)"
	const header = "From Coq Require Import List ZArith String Uint63.\nFrom Verif Require Import model.Nhcb corr.CorrC36.\nImport ListNotations.\nOpen Scope string_scope.\nOpen Scope Z_scope.\n"
	cf := &gallina.CaseFile{Dir: f.Out, Type: "case", PerShard: 0, Footer: gallina.StdFooter}
	inShard := 0
	flush := func() {
		cf.Preamble = header + strings.Join(in.defs, "\n") + "\n"
		cf.Flush()
		in = newInterner()
		inShard = 0
	}
	seen := map[string]bool{}
	id := 0

	emit := func(sc *scenario, known map[int]exm, corpus string) {
		defer func() {
			if r := recover(); r != nil {
				if u, ok := r.(unrepresentable); ok {
					meta.Hit("skipped-unrepresentable")
					meta.Notes = append(meta.Notes, fmt.Sprintf("skipped a case: value %v is not a small dyadic", u.v))
					return
				}
				panic(r)
			}
		}()
		payload, base, out, beof, oeof, berr, oerr := runBoth(sc, known)
		if strings.HasPrefix(berr, "harness:") || strings.HasPrefix(oerr, "harness:") {
			panic("base: " + berr + " / out: " + oerr + "\n" + payload)
		}
		// le table: strconv.ParseFloat of every le label value in the base stream
		tab := map[string]string{}
		for _, o := range base {
			for _, kv := range o.Lset {
				if kv[0] == "le" {
					if v, err := strconv.ParseFloat(kv[1], 64); err == nil {
						tab[kv[1]] = numLit(v)
					}
				}
			}
		}
		keys := make([]string, 0, len(tab))
		for k := range tab {
			keys = append(keys, k)
		}
		sort.Strings(keys)
		tl := make([]string, len(keys))
		for i, k := range keys {
			tl[i] = "(" + in.str(k) + ", " + tab[k] + ")"
		}
		bl := make([]string, len(base))
		nontrivial := false
		for i, o := range base {
			bl[i] = entryLit(o, true)
		}
		ol := make([]string, len(out))
		outS := make([]string, len(out))
		nh := 0
		for i, o := range out {
			ol[i] = entryLit(o, false)
			outS[i] = short(o)
			if o.Kind == "nhcb" {
				nh++
			}
		}
		var entries []string
		if sc.Format == "scripted" {
			for _, o := range base {
				entries = append(entries, short(o))
			}
		}
		key := fmt.Sprint(sc.Format, sc.Keep, sc.ParseST, sc.NoEOF, payload, entries)
		if seen[key] {
			meta.Hit("duplicate-skipped")
			return
		}
		seen[key] = true
		for _, e := range sc.es {
			if e.Kind == "series" && (strings.HasSuffix(e.Name, "_bucket") || strings.HasSuffix(e.Name, "_count") || strings.HasSuffix(e.Name, "_sum")) {
				nontrivial = true
			}
		}
		if sc.Format == "proto" && nh > 0 {
			nontrivial = true
		}
		term := fmt.Sprintf("mkCase %s %s %s %s %s\n %s\n %s %s\n %s %s",
			zlit(int64(id)), gallina.Bool(sc.Keep), gallina.Bool(sc.ParseST || sc.Format == "proto"), gallina.Bool(sc.Format == "om"), gallina.Bool(sc.Format == "proto"),
			gallina.List(tl), gallina.List(bl), gallina.Bool(beof), gallina.List(ol), gallina.Bool(oeof))
		cf.Add(term)
		inShard++
		if inShard >= 100 {
			flush()
		}
		var classes []string
		for c := range sc.classes {
			classes = append(classes, c)
			meta.Hit(c)
		}
		sort.Strings(classes)
		meta.Hit("format-" + sc.Format)
		meta.Hit("shape-" + sc.Shape)
		meta.Hit(fmt.Sprintf("keep-%v", sc.Keep))
		if sc.Format == "proto" {
			meta.Hit(fmt.Sprintf("proto-ignore-native-%v-keep-%v", sc.Ignore, sc.Keep))
		}
		switch {
		case nh == 0:
			meta.Hit("nhcb-0")
		case nh == 1:
			meta.Hit("nhcb-1")
		default:
			meta.Hit("nhcb-many")
		}
		if nontrivial {
			meta.Nontrivial++
		}
		d := desc{scenario: sc, Payload: payload, Entries: entries, Classes: classes, BaseErr: berr, OutErr: oerr, Out: outS}
		if corpus != "" {
			d.Classes = append(d.Classes, "corpus:"+corpus)
		}
		meta.Case(id, d)
		meta.Evaluations++
		id++
	}

	// corpus: fixed reproducers first
	for _, c := range corpus() {
		emit(c.sc, c.known, c.name)
	}
	n := f.Count(240, 9000)
	for i := 0; i < n; i++ {
		r := gen.Fork(f.Seed, i)
		kind := 0
		if k := i % 15; k >= 8 {
			kind = k - 7 // 1..7
		}
		sc, known := build(r, kind)
		emit(sc, known, "")
		if i%3 == 2 {
			// protobuf stream: the protobuf parser's own conversion path
			rp := gen.Fork(f.Seed^0x5bd1e995, i)
			psc := &scenario{Format: "proto", Keep: rp.Bool(), Ignore: rp.Chance(3, 5), Shape: "clean-proto", FailAt: -1, classes: map[string]bool{}}
			var pk map[int]exm
			psc.protoPayload, psc.protoText, pk = buildProto(rp, psc)
			emit(psc, pk, "")
		}
	}
	if inShard > 0 || id == 0 {
		flush()
	}
	meta.Write(f.Out)
	if len(os.Getenv("VERIF_C36_DEBUG")) > 0 {
		fmt.Println("cases:", id)
	}
}

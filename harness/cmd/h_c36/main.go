package main

import (
	"errors"
	"fmt"
	"io"

	"github.com/prometheus/prometheus/model/exemplar"
	"github.com/prometheus/prometheus/model/labels"
	"github.com/prometheus/prometheus/model/textparse"
)

func dump(input, ct string, opts textparse.ParserOptions) {
	p, err := textparse.New([]byte(input), ct, labels.NewSymbolTable(), opts)
	if err != nil {
		panic(err)
	}
	for {
		e, err := p.Next()
		if errors.Is(err, io.EOF) {
			fmt.Println("EOF")
			return
		}
		if err != nil {
			fmt.Println("ERR", err)
			return
		}
		var l labels.Labels
		switch e {
		case textparse.EntrySeries:
			m, ts, v := p.Series()
			p.Labels(&l)
			t := "nil"
			if ts != nil {
				t = fmt.Sprint(*ts)
			}
			fmt.Printf("S %s ts=%s v=%g %s st=%d", m, t, v, l, p.StartTimestamp())
		case textparse.EntryHistogram:
			m, ts, h, fh := p.Histogram()
			p.Labels(&l)
			t := "nil"
			if ts != nil {
				t = fmt.Sprint(*ts)
			}
			fmt.Printf("H %s ts=%s %v %v %s st=%d", m, t, h, fh, l, p.StartTimestamp())
		case textparse.EntryType:
			n, t := p.Type()
			fmt.Printf("TYPE %s %s", n, t)
		default:
			fmt.Printf("E%d", e)
		}
		var ex exemplar.Exemplar
		for p.Exemplar(&ex) {
			fmt.Printf(" ex=%v", ex)
			ex = exemplar.Exemplar{}
		}
		fmt.Println()
	}
}

func main() {
	in := `# TYPE h histogram
h_bucket{a="1",le="1"} 2 1000
h_bucket{a="1",le="+Inf"} 5 1000
h_count{a="1"} 5 1000
h_sum{a="1"} 7.5 1000
h_bucket{a="2",le="1"} 1 2000
h_bucket{a="2",le="+Inf"} 3 2000
h_count{a="2"} 3 2000
h_sum{a="2"} 1.5 2000
# TYPE g gauge
g 1
`
	for _, keep := range []bool{false, true} {
		fmt.Println("--- text keep=", keep)
		dump(in, "text/plain", textparse.ParserOptions{ConvertClassicHistogramsToNHCB: true, KeepClassicOnClassicAndNativeHistograms: keep})
	}
	om := `# TYPE h histogram
h_bucket{a="1",le="1"} 2 1
h_bucket{a="1",le="+Inf"} 5 1
h_count{a="1"} 5 1
h_sum{a="1"} 7.5 1
h_bucket{a="2",le="1"} 1
h_bucket{a="2",le="+Inf"} 3
h_count{a="2"} 3
h_sum{a="2"} 1.5
# EOF
`
	fmt.Println("--- om")
	dump(om, "application/openmetrics-text", textparse.ParserOptions{ConvertClassicHistogramsToNHCB: true})
}

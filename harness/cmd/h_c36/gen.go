package main

import (
	"math"
	"strconv"

	"verif/harness/internal/gen"
)

type scenario struct {
	Format  string `json:"format"` // "text" "om" "scripted"
	Keep    bool   `json:"keep"`
	ParseST bool   `json:"parse_st"`
	Ignore  bool   `json:"ignore_native,omitempty"` // protobuf: IgnoreNativeHistograms
	NoEOF   bool   `json:"no_eof,omitempty"`        // om: payload lacks "# EOF"; text: trailing garbage; scripted: failAt
	FailAt  int    `json:"fail_at,omitempty"`
	Shape   string `json:"shape"`
	es      []ent
	classes map[string]bool
	// protobuf stream
	protoPayload []byte
	protoText    string
}

type gctx struct {
	r      *gen.Rand
	sc     *scenario
	nextEx int
	known  map[int]exm
	// knobs
	memberEx bool // classic histogram series may carry exemplars
	exTs     int  // exemplar timestamps: 0 random, 1 always, 2 never
}

func (g *gctx) class(c string) { g.sc.classes[c] = true }

var boundPool = []float64{-1, -0.5, 0, 0.125, 0.25, 0.5, 1, 2.5, 5, 10, 25, 100}

func (g *gctx) dyadic(lo, hi int64, den int64) float64 {
	return float64(g.r.Range(lo*den, hi*den)) / float64(den)
}

func (g *gctx) exemplars(max int) []exm {
	if g.sc.Format == "text" {
		return nil
	}
	n := 0
	if g.r.Chance(1, 2) {
		n = 1
		if g.sc.Format == "scripted" && g.r.Chance(1, 3) {
			n = 1 + g.r.Intn(max)
		}
	}
	var out []exm
	for i := 0; i < n; i++ {
		g.nextEx++
		x := exm{ID: g.nextEx, Value: g.dyadic(-4, 40, 8)}
		if (g.exTs == 0 && g.r.Chance(2, 3)) || g.exTs == 1 {
			x.HasTs, x.Ts = true, g.r.Range(1, 400)*125
		}
		g.known[x.ID] = x
		out = append(out, x)
	}
	return out
}

func leString(r *gen.Rand, b float64) string {
	if math.IsInf(b, 1) {
		switch r.Intn(6) {
		case 0:
			return "Inf"
		case 1:
			return "+inf"
		}
		return "+Inf"
	}
	s := strconv.FormatFloat(b, 'g', -1, 64)
	if b == math.Trunc(b) {
		switch r.Intn(4) {
		case 0:
			return s + ".0"
		case 1:
			return strconv.FormatFloat(b, 'e', -1, 64)
		}
	}
	return s
}

type groupOpts struct {
	ts      *int64
	st      int64
	invalid string // "" | "noncum" | "countmismatch" | "negbucket" | "negcount" | "count-below-top"
	forceEx bool   // at least one exemplar on a bucket series
	mixedTs bool
}

// histGroup: the series of one classic histogram (one label set).
func (g *gctx) histGroup(name string, lbls [][2]string, o groupOpts) []ent {
	r := g.r
	nb := r.Intn(6)
	if o.invalid == "noncum" && nb < 2 {
		nb = 2
	}
	if (o.invalid == "negbucket" || o.invalid == "count-below-top") && nb < 1 {
		nb = 1
	}
	// distinct sorted bounds
	pick := map[int]bool{}
	for len(pick) < nb {
		pick[r.Intn(len(boundPool))] = true
	}
	var bounds []float64
	for i := range boundPool {
		if pick[i] {
			bounds = append(bounds, boundPool[i])
		}
	}
	float := r.Chance(1, 5)
	if float {
		g.class("float-counts")
	}
	inc := func() float64 {
		if float {
			return g.dyadic(0, 5, 8)
		}
		return float64(r.Intn(6))
	}
	cum := make([]float64, nb)
	c := 0.0
	for i := range cum {
		c += inc()
		cum[i] = c
	}
	count := c + inc()
	hasInf, hasCount, hasSum := !r.Chance(1, 5), !r.Chance(1, 6), !r.Chance(1, 6)
	infVal := count
	switch o.invalid {
	case "noncum":
		i := 1 + r.Intn(nb-1)
		if cum[i-1] == 0 {
			cum[i-1] = 3
			for j := i; j < nb; j++ {
				cum[j] += 3
			}
			count += 3
			infVal = count
		}
		cum[i] = cum[i-1] - 1
		if float {
			cum[i] = cum[i-1] - 0.5
		}
		if cum[i] < 0 {
			cum[i] = 0
		}
	case "countmismatch":
		hasInf, hasCount = true, true
		infVal = count + 1
	case "negbucket":
		cum[0] = -1
	case "negcount":
		hasCount = true
		count = -2
		hasInf = false
	case "count-below-top":
		hasInf, hasCount = false, true
		if cum[nb-1] == 0 {
			for j := range cum {
				cum[j] += 2
			}
		}
		count = cum[nb-1] - 1
	}
	if !hasInf {
		g.class("missing-inf")
	}
	if !hasCount {
		g.class("missing-count")
		if !hasInf {
			// the count falls back to the highest bucket
			count = c
		}
	}
	sum := g.dyadic(-20, 200, 8)
	switch r.Intn(30) {
	case 0:
		sum = math.NaN()
	case 1:
		sum = math.Inf(1)
	}

	mk := func(n string, extra [][2]string, v float64) ent {
		ls := append([][2]string{}, lbls...)
		ls = append(ls, extra...)
		// label order in the payload is arbitrary; parsers sort
		// (not for OpenMetrics with start timestamps: OpenMetricsParser.StartTimestamp hashes
		// the labels in payload order, so a permuted line does not find its _created line —
		// a quirk of the wrapped parser, outside this property)
		if len(ls) > 1 && r.Chance(1, 3) && !(g.sc.Format == "om" && g.sc.ParseST) {
			i, j := r.Intn(len(ls)), r.Intn(len(ls))
			ls[i], ls[j] = ls[j], ls[i]
		}
		e := ent{Kind: "series", Name: n, Labels: ls, Val: v, Ts: o.ts, St: o.st}
		return e
	}
	var buckets []ent
	for i, b := range bounds {
		buckets = append(buckets, mk(name+"_bucket", [][2]string{{"le", leString(r, b)}}, cum[i]))
	}
	if hasInf {
		buckets = append(buckets, mk(name+"_bucket", [][2]string{{"le", leString(r, math.Inf(1))}}, infVal))
	}
	if len(buckets) > 0 && r.Chance(1, 15) && o.invalid == "" {
		// a duplicate le (possibly spelled differently, possibly with another value): ignored
		d := buckets[r.Intn(len(buckets))]
		d.Labels = append([][2]string{}, d.Labels...)
		if r.Bool() && !g.memberEx {
			// (with another value the histogram may become invalid; the stale-exemplar
			// finding stream covers invalid histograms that carry exemplars)
			d.Val += 1
		}
		buckets = append(buckets, d)
		g.class("duplicate-le")
	}
	if len(buckets) > 1 && r.Chance(1, 6) {
		for i := len(buckets) - 1; i > 0; i-- {
			j := r.Intn(i + 1)
			buckets[i], buckets[j] = buckets[j], buckets[i]
		}
		g.class("buckets-out-of-order")
	}
	if g.memberEx {
		saveTs := g.exTs
		if g.sc.Format == "om" && g.exTs == 0 {
			// (an OpenMetrics exemplar without timestamp inherits a stale one inside NHCBParser:
			// finding stream 7; clean cases give every exemplar of a classic series a timestamp)
			g.exTs = 1
		}
		defer func() { g.exTs = saveTs }()
		for i := range buckets {
			buckets[i].Ex = g.exemplars(3)
			if g.sc.Format == "om" && len(buckets[i].Ex) > 1 {
				buckets[i].Ex = buckets[i].Ex[:1]
			}
		}
		if o.forceEx && len(buckets) > 0 {
			any := false
			for _, b := range buckets {
				any = any || len(b.Ex) > 0
			}
			if !any {
				g.nextEx++
				x := exm{ID: g.nextEx, Value: 1.5, HasTs: true, Ts: 1250}
				g.known[x.ID] = x
				buckets[0].Ex = []exm{x}
			}
		}
	}
	var cs, ss []ent
	if hasCount {
		cs = []ent{mk(name+"_count", nil, count)}
	}
	if hasSum {
		ss = []ent{mk(name+"_sum", nil, sum)}
	}
	var out []ent
	switch r.Intn(7) {
	case 0, 1, 2:
		out = append(append(append(out, buckets...), ss...), cs...)
	case 3, 4:
		out = append(append(append(out, cs...), ss...), buckets...)
		g.class("count-sum-first")
	case 5:
		out = append(append(append(out, buckets...), cs...), ss...)
	default:
		out = append(append(append(out, buckets...), ss...), cs...)
		for i := len(out) - 1; i > 0; i-- {
			j := r.Intn(i + 1)
			out[i], out[j] = out[j], out[i]
		}
		g.class("series-shuffled")
	}
	if o.mixedTs && len(out) > 1 {
		t := int64(125 * (1 + r.Intn(50)))
		out[r.Intn(len(out))].Ts = &t
		g.class("mixed-ts-in-group")
	}
	return out
}

var histNames = []string{"h", "req_seconds", "rpc_count", "lat_sum", "x_bucket", "hh"}
var otherNames = []string{"g", "up", "jobs_total", "h_other", "temp_celsius", "q"}
var labelSets = [][][2]string{
	{}, {{"a", "1"}}, {{"a", "2"}}, {{"a", "1"}, {"z", "9"}}, {{"m", "x"}}, {{"job", "j"}, {"zone", "eu"}},
}

func (g *gctx) pickLabelSets(n int) [][][2]string {
	idx := map[int]bool{}
	for len(idx) < n {
		idx[g.r.Intn(len(labelSets))] = true
	}
	var out [][][2]string
	for i := range labelSets {
		if idx[i] {
			out = append(out, labelSets[i])
		}
	}
	// random order
	for i := len(out) - 1; i > 0; i-- {
		j := g.r.Intn(i + 1)
		out[i], out[j] = out[j], out[i]
	}
	return out
}

func (g *gctx) famTs() *int64 {
	if g.r.Bool() {
		return nil
	}
	t := g.r.Range(1, 800) * 125
	return &t
}

// nonMember: a series inside a histogram family that is not a classic histogram series
func (g *gctx) nonMember(name string, lbls [][2]string, ts *int64, st int64) ent {
	r := g.r
	e := ent{Kind: "series", Labels: append([][2]string{}, lbls...), Val: g.dyadic(0, 50, 8), Ts: ts, St: st}
	switch r.Intn(6) {
	case 0:
		e.Name = name // no suffix
		g.class("nonmember-no-suffix")
	case 1:
		e.Name = name + "_bucket" // no le
		g.class("nonmember-bucket-without-le")
	case 2:
		e.Name = name + "_bucket"
		e.Labels = append(e.Labels, [2]string{"le", "abc"})
		g.class("nonmember-unparseable-le")
	case 3:
		e.Name = name + "_bucket"
		e.Labels = append(e.Labels, [2]string{"le", "NaN"})
		g.class("nonmember-nan-le")
	case 4:
		e.Name = name + "x_sum"
		g.class("nonmember-other-base")
	default:
		e.Name = name + "_total"
		g.class("nonmember-other-suffix")
	}
	return e
}

func (g *gctx) header(name, typ string) []ent {
	var out []ent
	if g.r.Chance(2, 3) {
		out = append(out, ent{Kind: "help", Name: name, Text: "help for " + name})
	}
	out = append(out, ent{Kind: "type", Name: name, Typ: typ})
	if g.sc.Format == "scripted" && g.r.Chance(1, 8) {
		out = append(out, ent{Kind: "unit", Name: name, Text: "seconds"})
	}
	return out
}

func (g *gctx) plainFamily(name string, ts *int64, withHeader bool) []ent {
	r := g.r
	typ := gen.Pick(r, []string{"gauge", "counter", "untyped", "summary"})
	if g.sc.Format == "om" && typ == "untyped" {
		typ = "unknown"
	}
	var out []ent
	if withHeader {
		out = g.header(name, typ)
	}
	n := 1 + r.Intn(3)
	for _, ls := range g.pickLabelSets(n) {
		e := ent{Kind: "series", Name: name, Labels: ls, Val: g.dyadic(-10, 100, 8), Ts: ts, St: 0}
		if r.Chance(1, 12) {
			e.Val = math.NaN()
		}
		if g.sc.Format == "scripted" && g.r.Chance(1, 3) {
			e.St = g.r.Range(1, 100) * 125
		}
		e.Ex = g.exemplars(2)
		if g.sc.Format == "om" && len(e.Ex) > 1 {
			e.Ex = e.Ex[:1]
		}
		out = append(out, e)
	}
	return out
}

func (g *gctx) createdLine(name string, lbls [][2]string, st int64) ent {
	return ent{Kind: "series", Name: name + "_created", Labels: lbls, Val: float64(st) / 1000}
}

// histFamily: a clean classic histogram family (label sets contiguous, one timestamp)
func (g *gctx) histFamily(name string, nsets int, invalidOK bool) []ent {
	r := g.r
	out := g.header(name, "histogram")
	ts := g.famTs()
	sets := g.pickLabelSets(nsets)
	for i, ls := range sets {
		o := groupOpts{ts: ts}
		if g.sc.Format == "scripted" && r.Chance(1, 2) {
			o.st = r.Range(1, 100) * 125
		}
		if g.sc.Format == "om" && g.sc.ParseST && r.Chance(1, 2) {
			o.st = r.Range(1, 100) * 125
		}
		saveEx := g.memberEx
		if invalidOK && r.Chance(1, 8) {
			o.invalid = gen.Pick(r, []string{"noncum", "countmismatch", "negbucket", "negcount"})
			g.class("invalid-" + o.invalid)
			g.memberEx = false // (stale exemplar finding: kept out of clean cases)
		}
		if len(sets) == 1 && r.Chance(1, 10) && ts != nil {
			o.mixedTs = true
		}
		grp := g.histGroup(name, ls, o)
		g.memberEx = saveEx
		// harmless non-members inside the group (they do not end the collection)
		if len(grp) > 0 && r.Chance(1, 10) {
			nm := g.nonMember(name, ls, ts, o.st)
			for nm.Name != name+"_bucket" {
				nm = g.nonMember(name, ls, ts, o.st)
			}
			at := r.Intn(len(grp) + 1)
			grp = append(grp[:at:at], append([]ent{nm}, grp[at:]...)...)
			g.class("nonmember-inside-group")
		}
		out = append(out, grp...)
		if g.sc.Format == "om" && g.sc.ParseST && o.st != 0 {
			out = append(out, g.createdLine(name, ls, o.st))
			g.class("om-created-line")
		}
		if r.Chance(1, 8) && i < len(sets)-1 {
			// (its own label set: a non-member with the label set of the open collection would
			// report that collection's start timestamp, which only the scripted parser can
			// make differ from its own)
			out = append(out, g.nonMember(name, [][2]string{{"nm", "1"}}, ts, 0))
			g.class("nonmember-between-groups")
		}
	}
	if r.Chance(1, 6) {
		// a series of another family right behind, without TYPE line; same timestamp
		out = append(out, ent{Kind: "series", Name: gen.Pick(r, otherNames), Val: g.dyadic(0, 9, 8), Ts: ts})
		g.class("typeless-series-follows")
	}
	return out
}

// native: scripted native histogram entry for a label set
func (g *gctx) native(name string, lbls [][2]string, ts *int64, st int64) ent {
	g.nextEx++ // reuse the counter for distinct ids
	return ent{Kind: "native", Name: name, Labels: lbls, Ts: ts, St: st, Hid: 1000 + g.nextEx, Ex: g.exemplars(2)}
}

func tsp(v int64) *int64 { return &v }

// build generates one scenario.  kind selects the stream.
func build(r *gen.Rand, kind int) (*scenario, map[int]exm) {
	sc := &scenario{classes: map[string]bool{}, FailAt: -1}
	g := &gctx{r: r, sc: sc, known: map[int]exm{}}
	sc.Format = gen.Pick(r, []string{"text", "om", "om", "scripted", "scripted"})
	sc.Keep = r.Bool()
	sc.ParseST = r.Bool()
	used := map[string]bool{}
	name := func(pool []string) string {
		for {
			n := gen.Pick(r, pool)
			if !used[n] {
				used[n] = true
				return n
			}
			if len(used) >= len(pool) {
				n = n + strconv.Itoa(len(used))
				used[n] = true
				return n
			}
		}
	}
	switch kind {
	default: // ---- clean: everything the property promises must hold
		sc.Shape = "clean"
		g.memberEx = !sc.Keep
		nf := 1 + r.Intn(4)
		for f := 0; f < nf; f++ {
			if r.Chance(3, 5) {
				sc.es = append(sc.es, g.histFamily(name(histNames), 1+r.Intn(3), true)...)
			} else {
				sc.es = append(sc.es, g.plainFamily(name(otherNames), g.famTs(), true)...)
			}
			if sc.Format == "text" && r.Chance(1, 8) {
				sc.es = append(sc.es, ent{Kind: "comment", Text: " a comment"})
			}
		}
		if sc.Format == "scripted" && r.Chance(1, 3) {
			// native histogram of a label set, directly followed by its classic series (as the
			// protobuf parser yields them): no custom-bucket histogram for it
			n := name(histNames)
			sc.es = append(sc.es, g.header(n, "histogram")...)
			ts := g.famTs()
			// label sets with a native histogram first: a native entry never follows an
			// unfinished classic collection here (that is finding stream 5)
			withNative := true
			for _, ls := range g.pickLabelSets(1 + r.Intn(3)) {
				if withNative && r.Chance(3, 4) {
					sc.es = append(sc.es, g.native(n, ls, ts, 0))
					g.class("native-then-classic")
				} else {
					withNative = false
				}
				sc.es = append(sc.es, g.histGroup(n, ls, groupOpts{ts: ts})...)
			}
			if r.Bool() {
				sc.es = append(sc.es, g.plainFamily(name(otherNames), g.famTs(), true)...)
			}
		}
		if r.Chance(1, 12) {
			// parse error at the end: the wrapper must end with the same error
			sc.NoEOF = true
			g.class("parse-error-at-end")
			if sc.Format == "scripted" {
				sc.FailAt = len(sc.es)
			}
		}
	case 1: // ---- finding: timestamp of the converted histogram
		sc.Shape = "nhcb-ts-from-next-series"
		g.memberEx = !sc.Keep
		n := name(histNames)
		sc.es = append(sc.es, g.header(n, "histogram")...)
		t1, t2 := r.Range(1, 400)*125, r.Range(401, 800)*125
		sets := g.pickLabelSets(2)
		sc.es = append(sc.es, g.histGroup(n, sets[0], groupOpts{ts: &t1})...)
		if r.Bool() {
			var ts2 *int64
			if r.Bool() {
				ts2 = &t2
			}
			sc.es = append(sc.es, g.histGroup(n, sets[1], groupOpts{ts: ts2})...)
		} else {
			var ts2 *int64
			if r.Bool() {
				ts2 = &t2
			}
			sc.es = append(sc.es, ent{Kind: "series", Name: gen.Pick(r, otherNames), Val: 1, Ts: ts2})
		}
	case 2: // ---- finding: kept classic series lose their exemplars
		sc.Shape = "keep-classic-exemplars-dropped"
		sc.Keep = true
		if sc.Format == "text" {
			sc.Format = "om"
		}
		g.memberEx = true
		n := name(histNames)
		sc.es = append(sc.es, g.header(n, "histogram")...)
		sc.es = append(sc.es, g.histGroup(n, g.pickLabelSets(1)[0], groupOpts{ts: g.famTs(), forceEx: true})...)
	case 3: // ---- finding: exemplars of a histogram that failed to convert leak into the next one
		sc.Shape = "stale-exemplars-after-failed-conversion"
		sc.Keep = false
		if sc.Format == "text" {
			sc.Format = "scripted"
		}
		g.memberEx = true
		n := name(histNames)
		sc.es = append(sc.es, g.header(n, "histogram")...)
		ts := g.famTs()
		sets := g.pickLabelSets(2)
		inv := gen.Pick(r, []string{"noncum", "countmismatch", "negbucket"})
		sc.es = append(sc.es, g.histGroup(n, sets[0], groupOpts{ts: ts, invalid: inv, forceEx: true})...)
		sc.es = append(sc.es, g.histGroup(n, sets[1], groupOpts{ts: ts, forceEx: true})...)
	case 4: // ---- finding: label sets interleaved inside a family
		sc.Shape = "interleaved-label-sets-split"
		g.memberEx = false
		n := name(histNames)
		sc.es = append(sc.es, g.header(n, "histogram")...)
		ts := g.famTs()
		sets := g.pickLabelSets(2)
		a := g.histGroup(n, sets[0], groupOpts{ts: ts})
		b := g.histGroup(n, sets[1], groupOpts{ts: ts})
		for len(a) < 2 {
			a = g.histGroup(n, sets[0], groupOpts{ts: ts})
		}
		for len(b) < 1 {
			b = g.histGroup(n, sets[1], groupOpts{ts: ts})
		}
		// a1 b... a-rest : the series of label set 0 are not contiguous
		cut := 1 + r.Intn(len(a)-1)
		sc.es = append(sc.es, a[:cut]...)
		sc.es = append(sc.es, b...)
		sc.es = append(sc.es, a[cut:]...)
	case 5: // ---- finding (scripted only): native histogram right behind an unfinished classic one
		sc.Shape = "native-after-classic-drops-nhcb"
		sc.Format = "scripted"
		g.memberEx = false
		n := name(histNames)
		sc.es = append(sc.es, g.header(n, "histogram")...)
		ts := g.famTs()
		sets := g.pickLabelSets(2)
		grp := g.histGroup(n, sets[0], groupOpts{ts: ts})
		for len(grp) < 1 {
			grp = g.histGroup(n, sets[0], groupOpts{ts: ts})
		}
		sc.es = append(sc.es, grp...)
		sc.es = append(sc.es, g.native(n, sets[1], ts, 0))
		sc.es = append(sc.es, g.plainFamily(name(otherNames), ts, true)...)
	case 7: // ---- finding: exemplar without timestamp shows the timestamp of an earlier exemplar
		sc.Shape = "nhcb-exemplar-stale-timestamp"
		sc.Format, sc.Keep = "om", false
		g.memberEx = true
		n := name(histNames)
		sc.es = append(sc.es, g.header(n, "histogram")...)
		ts := g.famTs()
		sets := g.pickLabelSets(2)
		g.exTs = 1
		sc.es = append(sc.es, g.histGroup(n, sets[0], groupOpts{ts: ts, forceEx: true})...)
		g.exTs = 2
		grp := g.histGroup(n, sets[1], groupOpts{ts: ts, forceEx: true})
		for i := range grp {
			for j := range grp[i].Ex {
				grp[i].Ex[j].HasTs = false
				g.known[grp[i].Ex[j].ID] = grp[i].Ex[j]
			}
		}
		sc.es = append(sc.es, grp...)
	case 6: // ---- finding: Validate failure leaves the collection open
		sc.Shape = "validate-failure-merges-next-histogram"
		g.memberEx = false
		n := name(histNames)
		sc.es = append(sc.es, g.header(n, "histogram")...)
		ts := g.famTs()
		sets := g.pickLabelSets(2)
		sc.es = append(sc.es, g.histGroup(n, sets[0], groupOpts{ts: ts, invalid: "count-below-top"})...)
		if r.Bool() {
			sc.es = append(sc.es, g.histGroup(n, sets[1], groupOpts{ts: ts})...)
		} else {
			sc.es = append(sc.es, g.plainFamily(name(otherNames), ts, true)...)
			sc.es = append(sc.es, g.histFamily(name(histNames), 1, false)...)
		}
	}
	return sc, g.known
}

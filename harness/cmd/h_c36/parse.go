package main

import (
	"errors"
	"fmt"
	"io"
	"math"
	"strconv"
	"strings"

	"github.com/prometheus/common/model"

	"github.com/prometheus/prometheus/model/exemplar"
	"github.com/prometheus/prometheus/model/histogram"
	"github.com/prometheus/prometheus/model/labels"
	"github.com/prometheus/prometheus/model/textparse"
)

// ---- abstract exposition ---------------------------------------------------------------

type exm struct {
	ID    int // >= 1, also the value of its "id" label ("e<ID>")
	Value float64
	HasTs bool
	Ts    int64 // ms
}

type ent struct {
	Kind   string      // "type" "help" "unit" "comment" "series" "native"
	Name   string      // metric (family) name
	Typ    string      // for type
	Text   string      // help / unit / comment text
	Labels [][2]string // without __name__, any order
	Val    float64
	Ts     *int64 // ms
	Ex     []exm
	St     int64 // scripted parser only: what StartTimestamp() returns
	Hid    int   // native: identity (stored in Count)
}

// ---- observed entry (one Next() of a real parser) ----------------------------------------

type obsEx struct {
	ID int    // generated id; negated if labels/value differ; 0 = zero value
	Ts *int64 // HasTs / Ts as observed
}

type obsEntry struct {
	Kind  string // "series" "hist" "nhcb" "type" "other"
	Lset  [][2]string
	Ts    *int64
	St    int64
	Ex    []obsEx
	Val   float64
	Hid   int
	Name  string
	Typ   int
	OKind int
	A, B  string
	// nhcb
	Float  bool
	Count  float64
	Sum    float64
	Bounds []float64
	Cnts   []float64
}

var typCodes = map[model.MetricType]int{
	model.MetricTypeCounter: 0, model.MetricTypeGauge: 1, model.MetricTypeHistogram: 2,
	model.MetricTypeGaugeHistogram: 3, model.MetricTypeSummary: 4, model.MetricTypeInfo: 5,
	model.MetricTypeStateset: 6, model.MetricTypeUnknown: 7,
}

func typCode(t model.MetricType) int {
	if c, ok := typCodes[t]; ok {
		return c
	}
	return -1
}

func lsetPairs(l labels.Labels) [][2]string {
	var r [][2]string
	l.Range(func(x labels.Label) { r = append(r, [2]string{x.Name, x.Value}) })
	return r
}

// exID maps an observed exemplar back to the id it was generated with (negated if any
// field differs from what was generated, 0 for the zero value).
func exID(ex exemplar.Exemplar, known map[int]exm) obsEx {
	var o obsEx
	if ex.HasTs {
		t := ex.Ts
		o.Ts = &t
	}
	if ex.Labels.Len() == 0 && ex.Value == 0 {
		return o
	}
	v := ex.Labels.Get("id")
	o.ID = -999999
	if !strings.HasPrefix(v, "e") {
		return o
	}
	k, err := strconv.Atoi(v[1:])
	if err != nil {
		return o
	}
	g, ok := known[k]
	if !ok || ex.Labels.Len() != 1 || g.Value != ex.Value {
		o.ID = -k
		return o
	}
	o.ID = k
	return o
}

// expand turns a custom-bucket histogram into absolute bucket counts (one per custom bound
// plus the +Inf bucket).
func expandInt(h *histogram.Histogram) ([]float64, error) {
	n := len(h.CustomValues) + 1
	abs := make([]float64, n)
	idx, bi := 0, 0
	var cur int64
	for _, sp := range h.PositiveSpans {
		idx += int(sp.Offset)
		for j := 0; j < int(sp.Length); j++ {
			if bi >= len(h.PositiveBuckets) || idx >= n {
				return nil, fmt.Errorf("span layout exceeds buckets: %v", h)
			}
			cur += h.PositiveBuckets[bi]
			abs[idx] = float64(cur)
			bi++
			idx++
		}
	}
	if bi != len(h.PositiveBuckets) {
		return nil, fmt.Errorf("unused buckets: %v", h)
	}
	return abs, nil
}

func expandFloat(h *histogram.FloatHistogram) ([]float64, error) {
	n := len(h.CustomValues) + 1
	abs := make([]float64, n)
	idx, bi := 0, 0
	for _, sp := range h.PositiveSpans {
		idx += int(sp.Offset)
		for j := 0; j < int(sp.Length); j++ {
			if bi >= len(h.PositiveBuckets) || idx >= n {
				return nil, fmt.Errorf("span layout exceeds buckets: %v", h)
			}
			abs[idx] = h.PositiveBuckets[bi]
			bi++
			idx++
		}
	}
	if bi != len(h.PositiveBuckets) {
		return nil, fmt.Errorf("unused buckets: %v", h)
	}
	return abs, nil
}

// record drives a Parser to its end the way the scrape loop does and records every entry.
// callST: whether StartTimestamp() is asked for (the scrape loop only asks when it wants STs).
func record(p textparse.Parser, callST bool, known map[int]exm) (out []obsEntry, eof bool, errText string) {
	for steps := 0; ; steps++ {
		if steps > 10000 {
			return out, false, "runaway"
		}
		e, err := p.Next()
		if err != nil {
			if errors.Is(err, io.EOF) {
				return out, true, ""
			}
			return out, false, err.Error()
		}
		var o obsEntry
		switch e {
		case textparse.EntrySeries, textparse.EntryHistogram:
			var l labels.Labels
			if e == textparse.EntrySeries {
				_, ts, v := p.Series()
				o.Kind, o.Val = "series", v
				if ts != nil {
					t := *ts
					o.Ts = &t
				}
			} else {
				_, ts, h, fh := p.Histogram()
				if ts != nil {
					t := *ts
					o.Ts = &t
				}
				switch {
				case h != nil && histogram.IsCustomBucketsSchema(h.Schema):
					o.Kind, o.Float, o.Count, o.Sum = "nhcb", false, float64(h.Count), h.Sum
					o.Bounds = append([]float64{}, h.CustomValues...)
					c, err := expandInt(h)
					if err != nil {
						return out, false, "harness: " + err.Error()
					}
					o.Cnts = c
				case fh != nil && histogram.IsCustomBucketsSchema(fh.Schema):
					o.Kind, o.Float, o.Count, o.Sum = "nhcb", true, fh.Count, fh.Sum
					o.Bounds = append([]float64{}, fh.CustomValues...)
					c, err := expandFloat(fh)
					if err != nil {
						return out, false, "harness: " + err.Error()
					}
					o.Cnts = c
				case h != nil:
					o.Kind, o.Hid = "hist", int(h.Count)
				case fh != nil:
					o.Kind, o.Hid = "hist", int(fh.Count)
				default:
					// EntryHistogram whose Histogram() is (nil, nil): recorded as a native
					// histogram with identity -1, which no model output and no expectation has
					o.Kind, o.Hid = "hist", -1
				}
			}
			p.Labels(&l)
			o.Lset = lsetPairs(l)
			if callST {
				o.St = p.StartTimestamp()
			}
			for n := 0; n < 100; n++ {
				var ex exemplar.Exemplar
				if !p.Exemplar(&ex) {
					break
				}
				o.Ex = append(o.Ex, exID(ex, known))
			}
		case textparse.EntryType:
			n, t := p.Type()
			o.Kind, o.Name, o.Typ = "type", string(n), typCode(t)
		case textparse.EntryHelp:
			n, t := p.Help()
			o.Kind, o.OKind, o.A, o.B = "other", 1, string(n), string(t)
		case textparse.EntryUnit:
			n, t := p.Unit()
			o.Kind, o.OKind, o.A, o.B = "other", 4, string(n), string(t)
		case textparse.EntryComment:
			o.Kind, o.OKind, o.A = "other", 3, string(p.Comment())
		default:
			return out, false, fmt.Sprintf("harness: unexpected entry %d", e)
		}
		out = append(out, o)
	}
}

// ---- scripted parser: a textparse.Parser over a list of abstract entries ------------------
// Timestamps are handed out as pointers to fresh copies (like OpenMetricsParser.Series).

type scripted struct {
	es      []ent
	i       int
	exPos   int
	failAt  int // index at which Next returns a non-EOF error (-1: never)
	stCalls int
}

func (s *scripted) cur() *ent { return &s.es[s.i-1] }

func (s *scripted) Next() (textparse.Entry, error) {
	if s.failAt >= 0 && s.i == s.failAt {
		return textparse.EntryInvalid, errors.New("scripted parse error")
	}
	if s.i >= len(s.es) {
		return textparse.EntryInvalid, io.EOF
	}
	s.i++
	s.exPos = 0
	switch s.cur().Kind {
	case "type":
		return textparse.EntryType, nil
	case "help":
		return textparse.EntryHelp, nil
	case "unit":
		return textparse.EntryUnit, nil
	case "comment":
		return textparse.EntryComment, nil
	case "series":
		return textparse.EntrySeries, nil
	case "native":
		return textparse.EntryHistogram, nil
	}
	panic("bad kind")
}

func (s *scripted) tsPtr() *int64 {
	if s.cur().Ts == nil {
		return nil
	}
	t := *s.cur().Ts
	return &t
}

func (s *scripted) Series() ([]byte, *int64, float64) {
	return []byte(s.cur().Name), s.tsPtr(), s.cur().Val
}

func (s *scripted) Histogram() ([]byte, *int64, *histogram.Histogram, *histogram.FloatHistogram) {
	c := s.cur()
	h := &histogram.Histogram{Schema: 0, Count: uint64(c.Hid), Sum: 1, PositiveSpans: []histogram.Span{{Offset: 0, Length: 1}}, PositiveBuckets: []int64{int64(c.Hid)}}
	return []byte(c.Name), s.tsPtr(), h, nil
}
func (s *scripted) Help() ([]byte, []byte) { return []byte(s.cur().Name), []byte(s.cur().Text) }
func (s *scripted) Type() ([]byte, model.MetricType) {
	return []byte(s.cur().Name), model.MetricType(s.cur().Typ)
}
func (s *scripted) Unit() ([]byte, []byte) { return []byte(s.cur().Name), []byte(s.cur().Text) }
func (s *scripted) Comment() []byte        { return []byte(s.cur().Text) }
func (s *scripted) Labels(l *labels.Labels) {
	b := labels.NewScratchBuilder(4)
	b.Add(labels.MetricName, s.cur().Name)
	for _, kv := range s.cur().Labels {
		b.Add(kv[0], kv[1])
	}
	b.Sort()
	*l = b.Labels()
}

func (s *scripted) Exemplar(ex *exemplar.Exemplar) bool {
	c := s.cur()
	if c.Kind != "series" && c.Kind != "native" {
		return false
	}
	if s.exPos >= len(c.Ex) {
		return false
	}
	g := c.Ex[s.exPos]
	s.exPos++
	ex.Labels = labels.FromStrings("id", "e"+strconv.Itoa(g.ID))
	ex.Value, ex.HasTs, ex.Ts = g.Value, g.HasTs, g.Ts
	return true
}

func (s *scripted) StartTimestamp() int64 {
	c := s.cur()
	if c.Kind != "series" && c.Kind != "native" {
		return 0
	}
	return c.St
}

// ---- rendering ------------------------------------------------------------------------------

func fmtFloat(v float64) string {
	switch {
	case math.IsNaN(v):
		return "NaN"
	case math.IsInf(v, 1):
		return "+Inf"
	case math.IsInf(v, -1):
		return "-Inf"
	}
	return strconv.FormatFloat(v, 'g', -1, 64)
}

func renderLabels(name string, ls [][2]string) string {
	if len(ls) == 0 {
		return name
	}
	parts := make([]string, len(ls))
	for i, kv := range ls {
		parts[i] = kv[0] + `="` + kv[1] + `"`
	}
	return name + "{" + strings.Join(parts, ",") + "}"
}

// renderText: Prometheus text format (timestamps in ms, no exemplars).
func renderText(es []ent) string {
	var sb strings.Builder
	for _, e := range es {
		switch e.Kind {
		case "type":
			sb.WriteString("# TYPE " + e.Name + " " + e.Typ + "\n")
		case "help":
			sb.WriteString("# HELP " + e.Name + " " + e.Text + "\n")
		case "comment":
			sb.WriteString("#" + e.Text + "\n")
		case "series":
			sb.WriteString(renderLabels(e.Name, e.Labels) + " " + fmtFloat(e.Val))
			if e.Ts != nil {
				sb.WriteString(" " + strconv.FormatInt(*e.Ts, 10))
			}
			sb.WriteString("\n")
		default:
			panic("renderText: " + e.Kind)
		}
	}
	return sb.String()
}

func omSeconds(ms int64) string {
	// ms is a multiple of 125 in the generator, so ms/1000 is exact in binary
	return strconv.FormatFloat(float64(ms)/1000, 'f', -1, 64)
}

// renderOM: OpenMetrics text (timestamps in seconds, one exemplar per line, # EOF).
func renderOM(es []ent, withEOF bool) string {
	var sb strings.Builder
	for _, e := range es {
		switch e.Kind {
		case "type":
			sb.WriteString("# TYPE " + e.Name + " " + e.Typ + "\n")
		case "help":
			sb.WriteString("# HELP " + e.Name + " " + e.Text + "\n")
		case "unit":
			sb.WriteString("# UNIT " + e.Name + " " + e.Text + "\n")
		case "series":
			sb.WriteString(renderLabels(e.Name, e.Labels) + " " + fmtFloat(e.Val))
			if e.Ts != nil {
				sb.WriteString(" " + omSeconds(*e.Ts))
			}
			if len(e.Ex) > 0 {
				x := e.Ex[0]
				sb.WriteString(` # {id="e` + strconv.Itoa(x.ID) + `"} ` + fmtFloat(x.Value))
				if x.HasTs {
					sb.WriteString(" " + omSeconds(x.Ts))
				}
			}
			sb.WriteString("\n")
		default:
			panic("renderOM: " + e.Kind)
		}
	}
	if withEOF {
		sb.WriteString("# EOF\n")
	}
	return sb.String()
}

// h_c05: correspondence harness for C05 (readers see whole transactions only).
//
// Drives a real tsdb.Head through schedules of concurrent appenders and queriers.  A real
// headAppender.Commit runs in its own goroutine and is paused at the c05.* pause points
// (verifhook sites in tsdb/head_append.go: before the first sample and after every sample),
// so that exactly one appender moves at a time and queriers can be created and read between
// any two samples of a commit.  After every step the harness records the isolation
// bookkeeping, every series' chunk layout and raw transaction ring, and what every open
// querier returns, and writes the whole schedule as one Gallina case.
package main

import (
	"context"
	"encoding/json"
	"fmt"
	"math"
	"os"
	"sort"
	"strings"
	"sync/atomic"

	"github.com/prometheus/prometheus/model/histogram"
	"github.com/prometheus/prometheus/model/labels"
	"github.com/prometheus/prometheus/storage"
	"github.com/prometheus/prometheus/tsdb"
	"github.com/prometheus/prometheus/tsdb/chunkenc"
	"github.com/prometheus/prometheus/util/verifhook"

	"verif/harness/internal/gallina"
	"verif/harness/internal/gen"
)

const findingKey = "committed-txn-hidden-behind-inflight-sample"

// ---------------------------------------------------------------- schedule description

type smp struct {
	Series int   `json:"s"` // 1-based series number
	T      int64 `json:"t"`
	H      int   `json:"h,omitempty"` // histogram layout code (histogram series only), see mkHist
}

type txn struct {
	Samples  []smp `json:"samples"`
	Rollback bool  `json:"rollback,omitempty"`
}

// token: N<a> create appender a and stage its samples; S<a> let a's Commit advance by one
// atomic step (or run its whole Rollback); M m-map the head chunks.
type token struct {
	Kind byte `json:"k"`
	A    int  `json:"a"`
}

type sched struct {
	Txns    []txn   `json:"txns"`
	Order   []token `json:"-"`
	OrderS  string  `json:"order"`
	NSeries int     `json:"nseries"`
	SPC     int     `json:"samples_per_chunk"`
	Prefill int     `json:"prefill"`
	Policy  int     `json:"reader_policy"` // 0 keep all open, 1 close one step later, 2 close at once
	Mmap    bool    `json:"mmap_each_step"`
	OOO     bool    `json:"ooo,omitempty"`   // real tsdb.DB with an out-of-order window, committed OOO data overlapping every test series' head chunk, queriers through DB.Querier / DB.ChunkQuerier
	Kinds   []int   `json:"kinds,omitempty"` // per series 0..NSeries: 0 float, 1 histogram, 2 float histogram, 3 NHCB, 4 float NHCB
	Shape   string  `json:"shape"`
	Corpus  string  `json:"corpus,omitempty"`
	Notes   string  `json:"notes,omitempty"`
}

func orderString(o []token) string {
	var sb strings.Builder
	for i, t := range o {
		if i > 0 {
			sb.WriteByte(' ')
		}
		if t.Kind == 'M' {
			sb.WriteString("M")
		} else {
			fmt.Fprintf(&sb, "%c%d", t.Kind, t.A)
		}
	}
	return sb.String()
}

// ---------------------------------------------------------------- pause-point control

type commitCtl struct {
	paused chan string
	resume chan struct{}
	done   chan error
}

var cur atomic.Pointer[commitCtl]

func installHandler() {
	verifhook.SetHandler(func(site string, _ int) {
		if !strings.HasPrefix(site, "c05.") {
			return
		}
		c := cur.Load()
		if c == nil {
			return
		}
		c.paused <- site
		<-c.resume
	})
}

// ---------------------------------------------------------------- running one schedule

type pair struct{ T, V int64 }

type appState struct {
	app      storage.Appender
	id       uint64
	accepted []smp
	applied  int    // number of samples applied so far
	done     []bool // per accepted slot
	started  bool
	finished bool
	ctl      *commitCtl
}

type readerState struct {
	key     int
	aux     []int // keys of further isolation states the same querier opened (DB.Querier with OOO data opens two)
	q       storage.Querier
	cq      storage.ChunkQuerier
	born    int             // action index at creation
	closedB map[uint64]bool // appendIDs closed before creation
}

type runner struct {
	db      *tsdb.DB               // nil unless sc.OOO
	oooVals map[int]map[int64]bool // per series: values of samples that did not go to the in-order chunks
	h       *tsdb.Head
	sc      *sched
	items   []string
	closed  map[uint64]bool
	readers []*readerState
	nextKey int
	action  int
	reads   []readRec
	// statistics
	midCommitReads, cuts, mmaps, commitRejects, appendRejects, maxRing, trims, recodes, histResets, oooFiltered int
	lastCount                                                                                                   map[int]uint32
	lastSeries                                                                                                  map[int]string
	keepOldest                                                                                                  int
	lastHist                                                                                                    map[int][3]int
	lastTotal                                                                                                   map[int]int
}

type readRec struct {
	r      *readerState
	series int
	got    []pair
}

func (sc *sched) kind(series int) int {
	if series >= 0 && series < len(sc.Kinds) {
		return sc.Kinds[series]
	}
	return 0
}

// class: in which loop of Commit a series' samples are applied (0 commitFloats,
// 1 commitHistograms, 2 commitFloatHistograms).
func classOf(kind int) int { return [5]int{0, 1, 2, 1, 2}[kind] }

// histogram layout codes: 0 one bucket, 1 two buckets, 2 three buckets (more buckets than the
// open chunk's layout = the chunk is recoded; fewer = a bucket vanished = counter reset = new
// chunk), 3 counter reset (count 1), 4 gauge with one bucket, 5 gauge with two buckets (gauge
// after counter or back = new chunk; gauge chunks recode in both directions), 6 two buckets
// and, for NHCB, different custom bounds (new chunk).  Bucket counts are the timestamp, so
// they grow along a series and only codes 3 / shrinking layouts reset.  Sum carries the value.
func histBuckets(code int) int { return [7]int{1, 2, 3, 1, 1, 2, 2}[code] }

func mkHist(kind, code int, t int64, val float64) (*histogram.Histogram, *histogram.FloatHistogram) {
	n := histBuckets(code)
	c := t
	if code == 3 {
		c = 1
	}
	hint := histogram.UnknownCounterReset
	if code == 4 || code == 5 {
		hint = histogram.GaugeType
	}
	var schema int32
	var custom []float64
	if kind >= 3 {
		schema = histogram.CustomBucketsSchema
		custom = []float64{1, 2, 3}
		if code == 6 {
			custom = []float64{1, 2, 3, 4}
		}
	}
	spans := []histogram.Span{{Offset: 0, Length: uint32(n)}}
	if classOf(kind) == 1 {
		b := make([]int64, n)
		b[0] = c
		return &histogram.Histogram{Schema: schema, Count: uint64(int64(n) * c), Sum: val, PositiveSpans: spans, PositiveBuckets: b, CustomValues: custom, CounterResetHint: hint}, nil
	}
	b := make([]float64, n)
	for i := range b {
		b[i] = float64(c)
	}
	return nil, &histogram.FloatHistogram{Schema: schema, Count: float64(int64(n) * c), Sum: val, PositiveSpans: spans, PositiveBuckets: b, CustomValues: custom, CounterResetHint: hint}
}

func lsetOf(i int) labels.Labels {
	return labels.FromStrings("__name__", "s", "i", fmt.Sprint(i))
}

func (r *runner) emit(s string) { r.items = append(r.items, s) }

func gPairs(l []pair) string {
	it := make([]string, len(l))
	for i, p := range l {
		it[i] = "(" + gallina.Z(p.T) + ", " + gallina.Z(p.V) + ")"
	}
	return gallina.List(it)
}

func gU64s(l []uint64) string {
	it := make([]string, len(l))
	for i, v := range l {
		it[i] = gallina.ZU(v)
	}
	return gallina.List(it)
}

func gNats(l []int) string {
	it := make([]string, len(l))
	for i, v := range l {
		it[i] = gallina.Nat(v)
	}
	return gallina.List(it)
}

func (r *runner) obsIso() {
	last, ol, om, lows, low := r.h.VerifC05Iso()
	// the appendsOpen map and the appendsOpenList must hold the same ids (the list is ascending)
	if fmt.Sprint(ol) != fmt.Sprint(om) {
		panic(fmt.Sprintf("isolation: appendsOpenList %v and appendsOpen keys %v differ", ol, om))
	}
	r.emit(fmt.Sprintf("IIso %s %s %s %s", gallina.ZU(last), gU64s(ol), gU64s(lows), gallina.ZU(low)))
}

type serObs struct {
	mm, hd []int
	count  uint32
}

func (r *runner) obsSeriesOne(i int) serObs {
	mm, hd, ids, first, count, _ := r.h.VerifC05Series(lsetOf(i))
	r.emit(fmt.Sprintf("ISeries %d %s %s %s %s %s", i, gNats(mm), gNats(hd), gU64s(ids), gallina.Nat(int(first)), gallina.Nat(int(count))))
	if len(ids) > r.maxRing {
		r.maxRing = len(ids)
	}
	return serObs{mm, hd, count}
}

// obsSeries emits the layout of every series that changed since it was last emitted
// (all of them when force is set).
func (r *runner) obsSeries(force bool) {
	for i := 0; i <= r.sc.NSeries; i++ {
		n := len(r.items)
		r.obsSeriesOne(i)
		if !force && r.lastSeries[i] == r.items[n] {
			r.items = r.items[:n]
			continue
		}
		r.lastSeries[i] = r.items[n]
	}
}

func (r *runner) layout(i int) (hd int, count uint32) {
	_, h, _, _, c, _ := r.h.VerifC05Series(lsetOf(i))
	return len(h), c
}

func (r *runner) totalSamples(i int) int {
	mm, h, _, _, _, _ := r.h.VerifC05Series(lsetOf(i))
	n := 0
	for _, x := range mm {
		n += x
	}
	for _, x := range h {
		n += x
	}
	return n
}

func readAll(q storage.Querier) map[int][]pair {
	res := map[int][]pair{}
	ss := q.Select(context.Background(), true, nil, labels.MustNewMatcher(labels.MatchEqual, "__name__", "s"))
	var it chunkenc.Iterator
	for ss.Next() {
		s := ss.At()
		var idx int
		fmt.Sscan(s.Labels().Get("i"), &idx)
		it = s.Iterator(it)
		var l []pair
		for vt := it.Next(); vt != chunkenc.ValNone; vt = it.Next() {
			switch vt {
			case chunkenc.ValFloat:
				t, v := it.At()
				l = append(l, pair{t, int64(v)})
			case chunkenc.ValHistogram:
				t, h := it.AtHistogram(nil)
				l = append(l, pair{t, int64(h.Sum)})
			case chunkenc.ValFloatHistogram:
				t, h := it.AtFloatHistogram(nil)
				l = append(l, pair{t, int64(h.Sum)})
			}
		}
		if it.Err() != nil {
			panic(it.Err())
		}
		res[idx] = l
	}
	if ss.Err() != nil {
		panic(ss.Err())
	}
	return res
}

func (r *runner) isoReaders() int {
	_, _, _, lows, _ := r.h.VerifC05Iso()
	return len(lows)
}

func (r *runner) newReader() {
	rs := &readerState{key: r.nextKey, born: r.action, closedB: map[uint64]bool{}}
	r.nextKey++
	before := r.isoReaders()
	var err error
	switch {
	case r.db != nil && rs.key%2 == 1:
		rs.cq, err = r.db.ChunkQuerier(math.MinInt64, math.MaxInt64)
	case r.db != nil:
		rs.q, err = r.db.Querier(math.MinInt64, math.MaxInt64)
	default:
		rs.q, err = tsdb.NewBlockQuerier(tsdb.NewRangeHead(r.h, math.MinInt64, math.MaxInt64), math.MinInt64, math.MaxInt64)
	}
	if err != nil {
		panic(err)
	}
	for k := range r.closed {
		rs.closedB[k] = true
	}
	r.readers = append(r.readers, rs)
	// DB.Querier over OOO data opens the range head's isolation state and then the one of the
	// head-and-OOO chunk reader (the one reads go through): the newest is the querier's own
	n := r.isoReaders() - before
	for j := 1; j < n; j++ {
		rs.aux = append(rs.aux, 100000*j+rs.key)
		r.emit(fmt.Sprintf("IEv (ENewReader %d)", 100000*j+rs.key))
	}
	if n < 1 {
		panic("querier without isolation state")
	}
	r.emit(fmt.Sprintf("IEv (ENewReader %d)", rs.key))
}

func (r *runner) closeReader(rs *readerState) {
	if rs.cq != nil {
		rs.cq.Close()
	} else {
		rs.q.Close()
	}
	r.emit(fmt.Sprintf("IEv (ECloseReader %d)", rs.key))
	for j := len(rs.aux) - 1; j >= 0; j-- {
		r.emit(fmt.Sprintf("IEv (ECloseReader %d)", rs.aux[j]))
	}
	for i, x := range r.readers {
		if x == rs {
			r.readers = append(r.readers[:i], r.readers[i+1:]...)
			break
		}
	}
}

// readAllChunks reads every series through a ChunkQuerier: the samples of all its chunks.
func readAllChunks(q storage.ChunkQuerier) map[int][]pair {
	res := map[int][]pair{}
	ss := q.Select(context.Background(), true, nil, labels.MustNewMatcher(labels.MatchEqual, "__name__", "s"))
	for ss.Next() {
		s := ss.At()
		var idx int
		fmt.Sscan(s.Labels().Get("i"), &idx)
		var l []pair
		ci := s.Iterator(nil)
		for ci.Next() {
			it := ci.At().Chunk.Iterator(nil)
			for vt := it.Next(); vt != chunkenc.ValNone; vt = it.Next() {
				switch vt {
				case chunkenc.ValFloat:
					t, v := it.At()
					l = append(l, pair{t, int64(v)})
				case chunkenc.ValHistogram:
					t, h := it.AtHistogram(nil)
					l = append(l, pair{t, int64(h.Sum)})
				case chunkenc.ValFloatHistogram:
					t, h := it.AtFloatHistogram(nil)
					l = append(l, pair{t, int64(h.Sum)})
				}
			}
			if it.Err() != nil {
				panic(it.Err())
			}
		}
		if ci.Err() != nil {
			panic(ci.Err())
		}
		res[idx] = l
	}
	if ss.Err() != nil {
		panic(ss.Err())
	}
	return res
}

// inOrderOnly drops the samples that were ingested out of order (they carry no appendID and
// are outside the property, which speaks of in-order samples).
func (r *runner) inOrderOnly(series int, l []pair) []pair {
	if len(r.oooVals[series]) == 0 {
		return l
	}
	var o []pair
	for _, p := range l {
		if !r.oooVals[series][p.V] {
			o = append(o, p)
		}
	}
	return o
}

// readEveryone: every open querier reads (when many are open and all is not set: the oldest
// one (quick tier) or two (thorough), which hold the watermark down, and the newest); series 0 (set-up data only)
// is read by the newest querier only.
func (r *runner) readEveryone(midCommit, all bool) {
	for j, rs := range r.readers {
		newest := j == len(r.readers)-1
		if !all && len(r.readers) > r.keepOldest+1 && j >= r.keepOldest && !newest {
			continue
		}
		var got map[int][]pair
		if rs.cq != nil {
			got = readAllChunks(rs.cq)
		} else {
			got = readAll(rs.q)
		}
		for i := 0; i <= r.sc.NSeries; i++ {
			if i == 0 && !newest && !all {
				continue
			}
			if n := len(got[i]); n > 0 {
				got[i] = r.inOrderOnly(i, got[i])
				if len(got[i]) < n {
					r.oooFiltered++
				}
			}
			r.emit(fmt.Sprintf("IRead %d %d %s", rs.key, i, gPairs(got[i])))
			r.reads = append(r.reads, readRec{rs, i, got[i]})
			if midCommit {
				r.midCommitReads++
			}
		}
	}
}

// afterAction: observations, a new querier, reads by every open querier, reader policy.
func (r *runner) afterAction(apps []*appState) {
	mid := false
	for _, a := range apps {
		if a != nil && a.applied > 0 && !a.finished {
			mid = true
		}
	}
	r.obsSeries(false)
	// close the queriers whose time has come (before creating the new one)
	if r.sc.Policy == 1 {
		for _, rs := range append([]*readerState{}, r.readers...) {
			if rs.born < r.action-1 {
				r.closeReader(rs)
			}
		}
	}
	r.newReader()
	r.obsIso()
	r.readEveryone(mid, false)
	if r.sc.Policy == 2 {
		for _, rs := range append([]*readerState{}, r.readers...) {
			r.closeReader(rs)
		}
		r.obsIso()
	}
	r.action++
}

func (r *runner) noteRing(i int) {
	_, c := r.layout(i)
	if prev, ok := r.lastCount[i]; ok && c < prev {
		r.trims++
	}
	r.lastCount[i] = c
}

// applyEvent emits the EApply for the sample the paused Commit just went through.
func (r *runner) applyEvent(a *appState, s smp, k int, hdBefore int) {
	hdAfter, _ := r.layout(s.Series)
	cut := hdAfter > hdBefore && hdBefore > 0
	if cut {
		r.cuts++
	}
	tot := r.totalSamples(s.Series)
	if tot == r.lastTotal[s.Series] {
		// not appended to the in-order chunks: rejected, dropped as duplicate, or (with an OOO
		// window) inserted out of order
		if r.oooVals[s.Series] == nil {
			r.oooVals[s.Series] = map[int64]bool{}
		}
		r.oooVals[s.Series][int64(a.id)*1000+int64(k)] = true
	}
	if kind := r.sc.kind(s.Series); kind > 0 {
		// what the layout code did to the open chunk (measured on the chunk list: a sample that
		// extends the previous sample's layout and opens no chunk went through the recode path)
		if tot > r.lastTotal[s.Series] {
			prev, had := r.lastHist[s.Series]
			fam := [2]int{0, 0}
			if s.H == 4 || s.H == 5 {
				fam[0] = 1
			}
			if kind >= 3 && s.H == 6 {
				fam[1] = 1
			}
			if had && !cut && prev[1] == fam[0] && prev[2] == fam[1] && histBuckets(s.H) > prev[0] {
				r.recodes++
			}
			if had && cut {
				r.histResets++
			}
			r.lastHist[s.Series] = [3]int{histBuckets(s.H), fam[0], fam[1]}
		}
	}
	r.lastTotal[s.Series] = tot
	r.emit(fmt.Sprintf("IEv (EApply %s %d %s %s %s)", gallina.ZU(a.id), s.Series, gallina.Z(s.T), gallina.Z(int64(a.id)*1000+int64(k)), gallina.Bool(cut)))
	r.noteRing(s.Series)
}

func (r *runner) newAppender(samples []smp) *appState {
	a := &appState{app: r.h.Appender(context.Background())}
	for k, s := range samples {
		// the appendID is known after the first Append on a fresh head (init appender), else at once
		id, _, ok := tsdb.VerifC05AppendID(a.app)
		if !ok {
			// init appender: the value cannot depend on the id yet; the first appender gets id 1
			id = 1
		}
		val := float64(int64(id)*1000 + int64(k))
		var err error
		if kind := r.sc.kind(s.Series); kind > 0 {
			h, fh := mkHist(kind, s.H, s.T, val)
			_, err = a.app.AppendHistogram(0, lsetOf(s.Series), s.T, h, fh)
		} else {
			_, err = a.app.Append(0, lsetOf(s.Series), s.T, val)
		}
		if err != nil {
			r.appendRejects++
			// keep k aligned with the position in the transaction: rejected samples keep their slot
			a.accepted = append(a.accepted, smp{Series: -1})
			continue
		}
		a.accepted = append(a.accepted, s)
	}
	id, bound, ok := tsdb.VerifC05AppendID(a.app)
	if !ok {
		panic("appender without appendID")
	}
	a.id = id
	a.done = make([]bool, len(a.accepted))
	r.emit("IEv ENewApp")
	r.emit(fmt.Sprintf("IApp %s %s", gallina.ZU(id), gallina.ZU(bound)))
	return a
}

// nextPending returns the index of the accepted sample the Commit applies next: within the
// (single) batch all floats in Append order, then the histograms, then the float histograms.
func (r *runner) nextPending(a *appState) int {
	for class := 0; class <= 2; class++ {
		for i := range a.accepted {
			if a.accepted[i].Series >= 0 && !a.done[i] && classOf(r.sc.kind(a.accepted[i].Series)) == class {
				return i
			}
		}
	}
	return -1
}

var siteOfKind = [3]string{"c05.commitFloats.sample", "c05.commitHistograms.sample", "c05.commitFloatHistograms.sample"}

// advance lets a's Commit run to its next pause point (or to its end).
func (r *runner) advance(a *appState) {
	if a.finished {
		return
	}
	idx := r.nextPending(a)
	hdBefore := 0
	if idx >= 0 {
		hdBefore, _ = r.layout(a.accepted[idx].Series)
	}
	wait := func() (string, bool) {
		select {
		case site := <-a.ctl.paused:
			return site, false
		case err := <-a.ctl.done:
			if err != nil {
				panic(err)
			}
			return "", true
		}
	}
	cur.Store(a.ctl)
	var site string
	var done bool
	if !a.started {
		a.started = true
		go func() { a.ctl.done <- a.app.Commit() }()
		site, done = wait()
		if !done && site == "c05.commit.start" {
			a.ctl.resume <- struct{}{}
			site, done = wait()
		}
	} else {
		a.ctl.resume <- struct{}{}
		site, done = wait()
	}
	cur.Store(nil)
	if done {
		if idx >= 0 {
			panic(fmt.Sprintf("commit finished with sample %d pending", idx))
		}
		a.finished = true
		r.closed[a.id] = true
		r.emit(fmt.Sprintf("IEv (EClose %s)", gallina.ZU(a.id)))
		return
	}
	if idx < 0 || site != siteOfKind[classOf(r.sc.kind(a.accepted[idx].Series))] {
		panic(fmt.Sprintf("unexpected pause at %s (next pending sample %d)", site, idx))
	}
	r.applyEvent(a, a.accepted[idx], idx, hdBefore)
	a.done[idx] = true
	a.applied++
}

func (r *runner) rollback(a *appState) {
	if a.finished {
		return
	}
	if a.started {
		panic("rollback of a started commit")
	}
	if err := a.app.Rollback(); err != nil {
		panic(err)
	}
	for _, s := range a.accepted {
		if s.Series >= 0 {
			r.emit(fmt.Sprintf("IEv (ECleanup %s %d)", gallina.ZU(a.id), s.Series))
			r.noteRing(s.Series)
		}
	}
	r.emit(fmt.Sprintf("IEv (EClose %s)", gallina.ZU(a.id)))
	a.finished = true
	r.closed[a.id] = true
}

func (r *runner) mmapAll() {
	r.h.VerifC05MmapHeadChunks()
	for i := 0; i <= r.sc.NSeries; i++ {
		r.emit(fmt.Sprintf("IEv (EMmap %d)", i))
	}
	r.mmaps++
}

func (r *runner) rawSeries(i int) []pair {
	q, err := tsdb.NewBlockQuerier(tsdb.NewRangeHeadWithIsolationDisabled(r.h, math.MinInt64, math.MaxInt64), math.MinInt64, math.MaxInt64)
	if err != nil {
		panic(err)
	}
	defer q.Close()
	return readAll(q)[i]
}

type outcome struct {
	items   []string
	final   map[int][]pair
	shape   string
	detail  string
	stats   *runner
	literal bool
}

func runSchedule(root string, sc *sched, keepOldest int) outcome {
	dir, err := os.MkdirTemp(root, "head")
	if err != nil {
		panic(err)
	}
	defer os.RemoveAll(dir)
	var h *tsdb.Head
	var db *tsdb.DB
	if sc.OOO {
		// a real DB: out-of-order window open, WAL off, no compaction; queriers come from
		// DB.Querier / DB.ChunkQuerier, which wrap the head querier in the head-and-OOO reader
		// as soon as the query range overlaps out-of-order data
		o := tsdb.DefaultOptions()
		o.OutOfOrderTimeWindow = 1_000_000_000
		o.MinBlockDuration = 1_000_000_000_000
		o.MaxBlockDuration = 1_000_000_000_000
		o.WALSegmentSize = -1
		o.SamplesPerChunk = sc.SPC
		o.StripeSize = 16
		db, err = tsdb.Open(dir, nil, nil, o, nil)
		if err != nil {
			panic(err)
		}
		db.DisableCompactions()
		defer db.Close()
		h = db.Head()
		if sc.Prefill < 2 {
			sc.Prefill = 2
		}
	} else {
		opts := tsdb.DefaultHeadOptions()
		opts.ChunkRange = 1_000_000_000
		opts.ChunkDirRoot = dir
		opts.SamplesPerChunk = sc.SPC
		opts.StripeSize = 16
		h, err = tsdb.NewHead(nil, nil, nil, nil, opts, nil)
		if err != nil {
			panic(err)
		}
		defer h.Close()
		if err := h.Init(0); err != nil {
			panic(err)
		}
	}
	r := &runner{h: h, db: db, oooVals: map[int]map[int64]bool{}, sc: sc, closed: map[uint64]bool{}, lastCount: map[int]uint32{}, lastSeries: map[int]string{}, keepOldest: keepOldest, lastHist: map[int][3]int{}, lastTotal: map[int]int{}}

	// set-up transaction (appendID 1): initialises the head's time range through the init
	// appender; writes series 0 and, optionally, a prefix of every test series.
	setup := []smp{{Series: 0, T: 1}}
	for p := 0; p < sc.Prefill; p++ {
		for i := 1; i <= sc.NSeries; i++ {
			if sc.OOO {
				setup = append(setup, smp{Series: i, T: int64(50 + 2*p)})
			} else {
				setup = append(setup, smp{Series: i, T: int64(2 + p)})
			}
		}
	}
	sa := r.newAppender(setup)
	sa.ctl = &commitCtl{paused: make(chan string), resume: make(chan struct{}), done: make(chan error, 1)}
	for !sa.finished {
		r.advance(sa)
	}
	if sc.OOO {
		// second set-up transaction (appendID 2): out-of-order samples at 10 and 51 for every
		// test series; their OOO chunk [10,51] starts below and reaches into the in-order head
		// chunk [50,...], so the two are merged into one composite chunk led by the OOO chunk
		var oo []smp
		for i := 1; i <= sc.NSeries; i++ {
			oo = append(oo, smp{Series: i, T: 10}, smp{Series: i, T: 51})
		}
		oa := r.newAppender(oo)
		oa.ctl = &commitCtl{paused: make(chan string), resume: make(chan struct{}), done: make(chan error, 1)}
		for !oa.finished {
			r.advance(oa)
		}
		if r.h.MinOOOTime() != 10 {
			panic("out-of-order set-up data was not ingested out of order")
		}
	}
	r.afterAction(nil)

	apps := make([]*appState, len(sc.Txns))
	do := func(tk token) {
		switch tk.Kind {
		case 'N':
			if apps[tk.A] != nil {
				return
			}
			apps[tk.A] = r.newAppender(sc.Txns[tk.A].Samples)
			apps[tk.A].ctl = &commitCtl{paused: make(chan string), resume: make(chan struct{}), done: make(chan error, 1)}
		case 'S':
			a := apps[tk.A]
			if a == nil || a.finished {
				return
			}
			if sc.Txns[tk.A].Rollback {
				r.rollback(a)
			} else {
				r.advance(a)
			}
		case 'M':
			r.mmapAll()
		}
		if sc.Mmap && tk.Kind != 'M' {
			r.mmapAll()
		}
		r.afterAction(apps)
	}
	for _, tk := range sc.Order {
		do(tk)
	}
	// drain: everything still open finishes, in appender order
	for i := range apps {
		if apps[i] == nil {
			do(token{'N', i})
		}
		for !apps[i].finished {
			do(token{'S', i})
		}
	}
	r.obsSeries(true)
	r.readEveryone(false, true)
	// final dump without isolation
	final := map[int][]pair{}
	for i := 0; i <= sc.NSeries; i++ {
		final[i] = r.rawSeries(i)
	}
	for _, rs := range append([]*readerState{}, r.readers...) {
		if rs.cq != nil {
			rs.cq.Close()
		} else {
			rs.q.Close()
		}
	}

	// classify on the Go side (the verdict itself is Coq's holds): literal statement, and
	// whether every deviation is exactly the known per-series prefix behaviour.
	out := outcome{items: r.items, final: final, shape: "ok", stats: r, literal: true}
	for _, rd := range r.reads {
		var lit, pre []pair
		stopped := false
		for _, p := range final[rd.series] {
			vis := rd.r.closedB[uint64(p.V/1000)]
			if vis {
				lit = append(lit, p)
				if !stopped {
					pre = append(pre, p)
				}
			} else {
				stopped = true
			}
		}
		if fmt.Sprint(rd.got) == fmt.Sprint(lit) {
			continue
		}
		out.literal = false
		if fmt.Sprint(rd.got) == fmt.Sprint(pre) {
			if out.shape == "ok" {
				out.shape = findingKey
				out.detail = fmt.Sprintf("querier %d (created after appendIDs %v closed) on series %d returned %v; committed before its creation: %v", rd.r.key, keys(rd.r.closedB), rd.series, rd.got, lit)
			}
			continue
		}
		out.shape = "unexplained-read"
		out.detail = fmt.Sprintf("querier %d (created after appendIDs %v closed) on series %d returned %v; committed before its creation: %v; visible prefix: %v", rd.r.key, keys(rd.r.closedB), rd.series, rd.got, lit, pre)
		break
	}
	return out
}

func keys(m map[uint64]bool) []uint64 {
	var l []uint64
	for k := range m {
		l = append(l, k)
	}
	sort.Slice(l, func(a, b int) bool { return l[a] < l[b] })
	return l
}

// ---------------------------------------------------------------- schedule generation

// interleavings of the token sequences seqs (each kept in order).
func interleave(seqs [][]token, f func([]token)) {
	pos := make([]int, len(seqs))
	total := 0
	for _, s := range seqs {
		total += len(s)
	}
	cur := make([]token, 0, total)
	var rec func()
	rec = func() {
		if len(cur) == total {
			f(append([]token{}, cur...))
			return
		}
		for i := range seqs {
			if pos[i] < len(seqs[i]) {
				cur = append(cur, seqs[i][pos[i]])
				pos[i]++
				rec()
				pos[i]--
				cur = cur[:len(cur)-1]
			}
		}
	}
	rec()
}

func tokensOf(a int, t txn) []token {
	l := []token{{'N', a}}
	if t.Rollback {
		return append(l, token{'S', a})
	}
	for i := 0; i <= len(t.Samples); i++ {
		l = append(l, token{'S', a})
	}
	return l
}

// applyOrder: the order in which a Commit applies the samples of a transaction (floats,
// then histograms, then float histograms; Append order within a kind).
func applyOrder(t txn, kinds []int) []int {
	var o []int
	for class := 0; class <= 2; class++ {
		for j, s := range t.Samples {
			k := 0
			if s.Series < len(kinds) {
				k = kinds[s.Series]
			}
			if classOf(k) == class {
				o = append(o, j)
			}
		}
	}
	return o
}

// timestamps that make every sample in-order in the given order: the k-th apply step of the
// schedule gets t = 100 + 10*k (prefill uses 2..).
func consistentTimes(txns []txn, order []token, kinds []int) {
	next := make([]int, len(txns))
	k := 0
	for _, tk := range order {
		if tk.Kind != 'S' || txns[tk.A].Rollback {
			continue
		}
		ao := applyOrder(txns[tk.A], kinds)
		if next[tk.A] < len(ao) {
			txns[tk.A].Samples[ao[next[tk.A]]].T = int64(100 + 10*k)
			next[tk.A]++
			k++
		}
	}
	for a := range txns { // rolled-back or never-stepped samples
		for j := range txns[a].Samples {
			if txns[a].Samples[j].T == 0 {
				txns[a].Samples[j].T = int64(100 + 10*k)
				k++
			}
		}
	}
}

// fixed timestamps independent of the order: appender a's j-th sample is at 100+10*j+a, so
// that concurrent appenders collide and some samples are rejected at Append or at Commit.
func fixedTimes(txns []txn) {
	for a := range txns {
		for j := range txns[a].Samples {
			txns[a].Samples[j].T = int64(100 + 10*j + a)
		}
	}
}

func cloneTxns(t []txn) []txn {
	r := make([]txn, len(t))
	for i := range t {
		r[i] = txn{Samples: append([]smp{}, t[i].Samples...), Rollback: t[i].Rollback}
	}
	return r
}

func main() {
	f := gallina.ParseFlags()
	meta := gallina.NewMeta("C05", f.Seed, f.Tier)
	meta.Rule = "one case = one schedule run through a real tsdb.Head with a really paused Commit: corpus (the finding's reproducer and variants) + every interleaving of 2 appenders x 2 series x 1..2 samples per transaction (quick tier: both transactions of the same size and 6 of the 20 series assignments - same/crossed/disjoint/half-shared series; each schedule under one variation of reader policy / prefill / samplesPerChunk / m-map / timestamp mode / rollback picked from (seed, index) in the quick tier, under several in the thorough tier) + seeded random schedules of 3-4 appenders; a querier is created after every step and every open querier reads every series after every step; non-trivial = at least one read happened while a Commit had applied some but not all of its work (appender not yet closed); distinct by the schedule's canonical description"
	cf := &gallina.CaseFile{Dir: f.Out, Type: "case", PerShard: 48,
		Preamble: "From Coq Require Import List ZArith.\nFrom Verif Require Import model.Isolation corr.CorrC05.\nImport ListNotations.\nOpen Scope Z_scope.\n",
		Footer:   gallina.StdFooter}
	installHandler()
	id := 0
	seen := map[string]bool{}
	emit := func(sc *sched) {
		sc.OrderS = orderString(sc.Order)
		kb, _ := json.Marshal(sc)
		key := string(kb)
		if seen[key] {
			return
		}
		seen[key] = true
		keep := 1
		if f.Tier == "thorough" {
			keep = 2
		}
		out := runSchedule(f.Out, sc, keep)
		fin := make([]string, 0, len(out.final))
		for i := 0; i <= sc.NSeries; i++ {
			fin = append(fin, fmt.Sprintf("(%d, %s)", i, gPairs(out.final[i])))
		}
		cf.Add(fmt.Sprintf("mkCase %d\n %s\n %s", id, gallina.List(out.items), gallina.List(fin)))
		sc.Shape = out.shape
		sc.Notes = out.detail
		meta.Case(id, sc)
		meta.Evaluations++
		st := out.stats
		if st.midCommitReads > 0 {
			meta.Nontrivial++
			meta.Hit("reads-mid-commit")
		}
		meta.Hit("shape:" + out.shape)
		if st.cuts > 0 {
			meta.Hit("chunk-cut")
		}
		if st.mmaps > 0 {
			meta.Hit("m-map")
		}
		if st.appendRejects > 0 {
			meta.Hit("rejected-at-append")
		}
		if st.trims > 0 {
			meta.Hit("ring-trimmed")
		}
		if st.maxRing > 4 {
			meta.Hit("ring-grown")
		}
		for _, t := range sc.Txns {
			if t.Rollback {
				meta.Hit("rollback")
				break
			}
		}
		if len(sc.Kinds) > 0 {
			meta.Hit("histogram-series")
		}
		if sc.OOO {
			meta.Hit("ooo-db-queriers")
		}
		if st.oooFiltered > 0 {
			meta.Hit("reads-merging-ooo-data")
		}
		if st.recodes > 0 {
			meta.Hit("histogram-chunk-recoded")
		}
		if st.histResets > 0 {
			meta.Hit("histogram-new-chunk(reset/gauge/bounds)")
		}
		meta.Hit(fmt.Sprintf("policy-%d", sc.Policy))
		id++
	}

	// ---- corpus: the finding (DESIGN section 7, defect 7) through a really paused Commit
	{
		txns := []txn{{Samples: []smp{{Series: 1, T: 110}, {Series: 2, T: 130}}}, {Samples: []smp{{Series: 1, T: 120}, {Series: 2, T: 120}}}}
		// A applies S1@110 and pauses; B applies S1@120, S2@120 and closes; queriers after every step
		order := []token{{'N', 0}, {'N', 1}, {'S', 0}, {'S', 1}, {'S', 1}, {'S', 1}, {'S', 0}, {'S', 0}}
		for _, pol := range []int{0, 1, 2} {
			emit(&sched{Txns: cloneTxns(txns), Order: order, NSeries: 2, SPC: 120, Policy: pol, Corpus: "finding7-hidden-behind-inflight"})
		}
		emit(&sched{Txns: cloneTxns(txns), Order: order, NSeries: 2, SPC: 1, Prefill: 3, Policy: 1, Mmap: true, Corpus: "finding7-with-chunk-cuts-and-mmap"})
	}

	// ---- corpus: watermark. Four appenders one after the other on one series while the very
	// first querier stays open (policy 0) or queriers live for one step (policy 1): a clean-up
	// bound taken from the wrong reader (or from no reader) trims ids the old querier still needs.
	{
		txns := []txn{{Samples: []smp{{Series: 1, T: 110}, {Series: 2, T: 115}}}, {Samples: []smp{{Series: 1, T: 120}}}, {Samples: []smp{{Series: 1, T: 130}, {Series: 2, T: 135}}}, {Samples: []smp{{Series: 1, T: 140}}}}
		var order []token
		for a := range txns {
			order = append(order, tokensOf(a, txns[a])...)
		}
		for _, pol := range []int{0, 1} {
			emit(&sched{Txns: cloneTxns(txns), Order: order, NSeries: 2, SPC: 1, Policy: pol, Corpus: "watermark-sequential-appenders"})
		}
		// the same with the second appender created first and committing last (its id stays open)
		order2 := []token{{'N', 1}}
		for _, a := range []int{0, 2, 3} {
			order2 = append(order2, tokensOf(a, txns[a])...)
		}
		order2 = append(order2, token{'S', 1}, token{'S', 1})
		t2 := cloneTxns(txns)
		t2[1].Samples[0].T = 150
		emit(&sched{Txns: t2, Order: order2, NSeries: 2, SPC: 1, Policy: 0, Corpus: "watermark-old-appender-open"})
	}

	// ---- corpus: ring wrap-around followed by growth. Appender 0 stays open from the start (it
	// holds every later clean-up bound at its id), three appenders commit one sample each on
	// series 1 (the set-up data is trimmed: txIDFirst moves to 2), appender 4 applies one of its
	// two samples and pauses (ring full, wrapped), appender 5 commits: the ring grows and must be
	// rotated; the in-flight id of appender 4 sits in the middle of it.
	{
		txns := []txn{{Samples: []smp{{Series: 2}}}, {Samples: []smp{{Series: 1}}}, {Samples: []smp{{Series: 1}}}, {Samples: []smp{{Series: 1}}},
			{Samples: []smp{{Series: 1}, {Series: 1}}}, {Samples: []smp{{Series: 1}}}, {Samples: []smp{{Series: 1}}}}
		order := []token{{'N', 0}}
		for _, a := range []int{1, 2, 3} {
			order = append(order, tokensOf(a, txns[a])...)
		}
		order = append(order, token{'N', 4}, token{'S', 4})
		order = append(order, tokensOf(5, txns[5])...)
		order = append(order, tokensOf(6, txns[6])...)
		order = append(order, token{'S', 4}, token{'S', 4}, token{'S', 0}, token{'S', 0})
		for _, pol := range []int{2, 1} {
			t := cloneTxns(txns)
			consistentTimes(t, order, nil)
			emit(&sched{Txns: t, Order: order, NSeries: 2, SPC: 120, Prefill: 2, Policy: pol, Corpus: "ring-wrap-then-grow"})
		}
	}

	// ---- corpus: histogram chunk recode / counter reset / gauge / custom bounds in the middle of a
	// commit.  Series 1 and 2 hold histograms with a committed prefix of one-bucket samples;
	// appender 0 applies a sample with MORE buckets (the open chunk is recoded) and pauses;
	// appender 1 commits completely behind it (another recode, then a reset or a gauge sample);
	// queriers are created after every step.
	{
		type hc struct {
			name   string
			kinds  []int
			c0, c1 []int // layout codes of appender 0's and appender 1's samples
		}
		for _, c := range []hc{
			{"hist-recode-mid-commit", []int{0, 1, 1}, []int{1, 2}, []int{2, 1}},
			{"floathist-recode-mid-commit", []int{0, 2, 2}, []int{1, 2}, []int{2, 1}},
			{"nhcb-recode-and-bounds-mid-commit", []int{0, 3, 4}, []int{1, 6}, []int{2, 1}},
			{"hist-reset-mid-commit", []int{0, 1, 2}, []int{1, 3}, []int{3, 0}},
			{"hist-gauge-mid-commit", []int{0, 1, 2}, []int{4, 5}, []int{5, 5}},
		} {
			txns := []txn{{Samples: []smp{{Series: 1, H: c.c0[0]}, {Series: 1, H: c.c0[1]}}}, {Samples: []smp{{Series: 1, H: c.c1[0]}, {Series: 2, H: c.c1[1]}}}}
			order := []token{{'N', 0}, {'S', 0}, {'N', 1}, {'S', 1}, {'S', 1}, {'S', 1}, {'S', 0}, {'S', 0}}
			for _, pol := range []int{1, 0} {
				t := cloneTxns(txns)
				consistentTimes(t, order, c.kinds)
				emit(&sched{Txns: t, Order: order, NSeries: 2, SPC: 120, Prefill: 2, Policy: pol, Kinds: c.kinds, Corpus: c.name})
			}
		}
	}

	// ---- corpus: out-of-order data under the in-order head chunk. Real DB with an OOO window;
	// every test series has committed OOO samples at 10 and 51 around its in-order prefix 50, 52;
	// appender 0 applies its sample on series 1 and pauses before series 2; appender 1 commits
	// both series behind it; Querier and ChunkQuerier from the DB after every step.
	{
		txns := []txn{{Samples: []smp{{Series: 1}, {Series: 2}}}, {Samples: []smp{{Series: 2}, {Series: 1}}}}
		order := []token{{'N', 0}, {'S', 0}, {'N', 1}, {'S', 1}, {'S', 1}, {'S', 1}, {'S', 0}, {'S', 0}}
		for _, v := range []struct {
			pol, spc int
			mmap     bool
			kinds    []int
		}{{1, 120, false, nil}, {0, 120, false, nil}, {2, 1, true, nil}, {1, 120, false, []int{0, 1, 2}}} {
			t := cloneTxns(txns)
			consistentTimes(t, order, v.kinds)
			emit(&sched{Txns: t, Order: order, NSeries: 2, SPC: v.spc, Prefill: 2, Policy: v.pol, Mmap: v.mmap, Kinds: v.kinds, OOO: true, Corpus: "ooo-under-head-chunk-mid-commit"})
		}
	}

	// ---- exhaustive: 2 appenders x 2 series x 1..2 samples, every interleaving
	type variation struct {
		policy, prefill, spc int
		mmap, fixed          bool
		rb                   int // -1 none, else the appender that rolls back
		hist                 int // 0 floats only, 1 series 2 holds histograms, 2 series 1 float histograms + series 2 histograms
		ooo                  bool
	}
	kindsOf := func(h int) []int {
		switch h {
		case 1:
			return []int{0, 0, 1}
		case 2:
			return []int{0, 2, 1}
		case 3:
			return []int{0, 3, 4}
		}
		return nil
	}
	// layout codes for the samples that go to histogram series
	histCodes := func(r *gen.Rand, txns []txn, kinds []int) {
		for a := range txns {
			for j := range txns[a].Samples {
				s := txns[a].Samples[j].Series
				if s < len(kinds) && kinds[s] > 0 {
					txns[a].Samples[j].H = int(r.PickI64(0, 1, 1, 2, 2, 3, 4, 5, 6))
				}
			}
		}
	}
	variations := []variation{
		{1, 0, 1, false, false, -1, 0, false}, {2, 0, 1, true, false, -1, 0, false}, {0, 0, 120, false, false, -1, 0, false},
		{1, 3, 1, true, false, -1, 0, false}, {2, 1, 2, false, false, -1, 1, false}, {1, 2, 1, false, true, -1, 3, false},
		{2, 3, 1, true, true, -1, 2, false}, {1, 1, 1, false, false, 0, 0, false}, {2, 0, 1, true, false, 1, 1, false},
		{0, 3, 1, true, false, -1, 3, false}, {1, 4, 1, true, false, -1, 2, false}, {2, 2, 120, false, true, 1, 0, false},
	}
	variations[0].ooo, variations[3].ooo, variations[6].ooo, variations[9].ooo = true, true, true, true
	perSchedule := 1
	if f.Tier == "thorough" {
		perSchedule = 2
	}
	perSchedule *= f.Scale
	if perSchedule > len(variations) {
		perSchedule = len(variations)
	}
	var assigns [][]int // series assignment of a transaction's samples
	for _, k := range []int{1, 2} {
		n := 1 << k
		for m := 0; m < n; m++ {
			a := make([]int, k)
			for j := 0; j < k; j++ {
				a[j] = 1 + (m>>j)&1
			}
			assigns = append(assigns, a)
		}
	}
	sidx := 0
	for _, a0 := range assigns {
		for _, a1 := range assigns {
			// quick tier: equal transaction sizes, and series 1/2 are symmetric (the first
			// sample of appender 0 goes to series 1); thorough tier: everything.
			if f.Tier != "thorough" {
				key := fmt.Sprint(a0, a1)
				if !map[string]bool{"[1] [1]": true, "[1] [2]": true, "[1 2] [1 2]": true, "[1 2] [2 1]": true, "[1 1] [1 1]": true, "[1 1] [1 2]": true}[key] {
					continue
				}
			}
			base := []txn{{}, {}}
			for _, s := range a0 {
				base[0].Samples = append(base[0].Samples, smp{Series: s})
			}
			for _, s := range a1 {
				base[1].Samples = append(base[1].Samples, smp{Series: s})
			}
			interleave([][]token{tokensOf(0, base[0]), tokensOf(1, base[1])}, func(order []token) {
				r := gen.Fork(f.Seed, 1_000_000+sidx)
				sidx++
				start := r.Intn(len(variations))
				for j := 0; j < perSchedule; j++ {
					v := variations[(start+j*5)%len(variations)]
					txns := cloneTxns(base)
					histCodes(r, txns, kindsOf(v.hist))
					ord := order
					if v.rb >= 0 {
						txns[v.rb].Rollback = true
						// a rollback is one atomic step: drop the surplus S tokens
						var o2 []token
						seenS := false
						for _, tk := range order {
							if tk.Kind == 'S' && tk.A == v.rb {
								if seenS {
									continue
								}
								seenS = true
							}
							o2 = append(o2, tk)
						}
						ord = o2
					}
					if v.fixed {
						fixedTimes(txns)
					} else {
						consistentTimes(txns, ord, kindsOf(v.hist))
					}
					emit(&sched{Txns: txns, Order: ord, NSeries: 2, SPC: v.spc, Prefill: v.prefill, Policy: v.policy, Mmap: v.mmap, Kinds: kindsOf(v.hist), OOO: v.ooo})
				}
			})
		}
	}

	// ---- seeded random: 3-4 appenders, 1-3 series, 1-4 samples, random merge order
	n := f.Count(40, 1000)
	for i := 0; i < n; i++ {
		r := gen.Fork(f.Seed, i)
		na := 3 + r.Intn(2)
		ns := 1 + r.Intn(3)
		txns := make([]txn, na)
		var seqs [][]token
		for a := range txns {
			k := 1 + r.Intn(4)
			for j := 0; j < k; j++ {
				txns[a].Samples = append(txns[a].Samples, smp{Series: 1 + r.Intn(ns)})
			}
			txns[a].Rollback = r.Chance(1, 8)
			seqs = append(seqs, tokensOf(a, txns[a]))
		}
		var order []token
		pos := make([]int, na)
		for {
			var live []int
			for a := range seqs {
				if pos[a] < len(seqs[a]) {
					live = append(live, a)
				}
			}
			if len(live) == 0 {
				break
			}
			a := live[r.Intn(len(live))]
			order = append(order, seqs[a][pos[a]])
			pos[a]++
			if r.Chance(1, 10) {
				order = append(order, token{'M', 0})
			}
		}
		var kinds []int
		if r.Chance(1, 2) {
			kinds = make([]int, ns+1)
			for j := 1; j <= ns; j++ {
				kinds[j] = int(r.PickI64(0, 0, 1, 1, 2, 3, 4))
			}
			histCodes(r, txns, kinds)
		}
		if r.Chance(1, 4) {
			fixedTimes(txns)
		} else {
			consistentTimes(txns, order, kinds)
		}
		emit(&sched{Txns: txns, Order: order, NSeries: ns, SPC: int(r.PickI64(1, 1, 2, 3, 120)), Prefill: r.Intn(7), Policy: r.Intn(3), Mmap: r.Chance(1, 3), Kinds: kinds, OOO: r.Chance(1, 3)})
	}
	cf.Flush()
	meta.Notes = append(meta.Notes, "pause points used: c05.commit.start, c05.commitFloats.sample, c05.commitHistograms.sample, c05.commitFloatHistograms.sample (tsdb/head_append.go)")
	meta.Write(f.Out)
}
